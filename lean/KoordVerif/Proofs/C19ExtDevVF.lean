import KoordVerif.Proofs.C19Dev
/-
C19 (deviceshare part, VF ledger): theorems about the paired model `StV` (Model/C19Dev.lean section
"pairing with the VF ledger", Model/C19DevVF.lean).
-/
namespace KoordVerif.C19.Dev

/-! ### set lemmas for the VF ledger -/

theorem vfHas_iff (t : VFTab) (k : VKey) (b : Int) : vfHas t k b = true ↔ (k, b) ∈ t := by
  simp [vfHas]

theorem mem_vfIns (t : VFTab) (e x : VEnt) : x ∈ vfIns t e ↔ x ∈ t ∨ x = e := by
  unfold vfIns
  by_cases h : t.contains e = true
  · simp only [h, if_true]
    constructor
    · exact Or.inl
    · rintro (h1 | h1)
      · exact h1
      · subst h1; simpa using h
  · have h' : e ∉ t := by simpa using h
    simp [h']

theorem mem_vfDel (t : VFTab) (e x : VEnt) : x ∈ vfDel t e ↔ x ∈ t ∧ x ≠ e := by
  simp [vfDel]

theorem mem_foldl_vfIns (es : List VEnt) (t : VFTab) (x : VEnt) :
    x ∈ es.foldl vfIns t ↔ x ∈ t ∨ x ∈ es := by
  induction es generalizing t with
  | nil => simp
  | cons e r ih =>
    simp only [List.foldl_cons, ih, mem_vfIns, List.mem_cons]
    constructor
    · rintro ((h | h) | h)
      · exact Or.inl h
      · exact Or.inr (Or.inl h)
      · exact Or.inr (Or.inr h)
    · rintro (h | h | h)
      · exact Or.inl (Or.inl h)
      · exact Or.inl (Or.inr h)
      · exact Or.inr h

theorem mem_foldl_vfDel (es : List VEnt) (t : VFTab) (x : VEnt) :
    x ∈ es.foldl vfDel t ↔ x ∈ t ∧ x ∉ es := by
  induction es generalizing t with
  | nil => simp
  | cons e r ih =>
    simp only [List.foldl_cons, ih, mem_vfDel, List.mem_cons, not_or]
    constructor
    · rintro ⟨⟨h1, h2⟩, h3⟩; exact ⟨h1, h2, h3⟩
    · rintro ⟨h1, h2, h3⟩; exact ⟨⟨h1, h2⟩, h3⟩

theorem vfEnts_key {n t : Int} {items : List VItem} {x : VEnt} (h : x ∈ vfEnts n t items) :
    x.1.1 = n ∧ x.1.2.1 = t := by
  simp only [vfEnts, List.mem_flatMap, List.mem_map] at h
  obtain ⟨it, _, b, _, rfl⟩ := h
  exact ⟨rfl, rfl⟩

theorem mem_vfAdd (n t : Int) (tab : VFTab) (items : List VItem) (x : VEnt) :
    x ∈ vfAdd n t tab items ↔ x ∈ tab ∨ x ∈ vfEnts n t items := by
  simp [vfAdd, mem_foldl_vfIns]

/-- removeVFAllocations = set difference by the event's entries (the early return on a missing type
    record changes nothing: there is nothing of that type to delete). -/
theorem mem_vfRemove (n t : Int) (tab : VFTab) (items : List VItem) (x : VEnt) :
    x ∈ vfRemove n t tab items ↔ x ∈ tab ∧ x ∉ vfEnts n t items := by
  unfold vfRemove
  by_cases h : vfTypeAbsent n t tab = true
  · simp only [h, if_true]
    constructor
    · intro hx
      refine ⟨hx, fun hin => ?_⟩
      have hk := vfEnts_key hin
      simp only [vfTypeAbsent, List.all_eq_true] at h
      have := h x hx
      simp [hk.1, hk.2] at this
    · exact fun h => h.1
  · simp only [h, Bool.false_eq_true, if_false, mem_foldl_vfDel]

/-! ### the isValid guard as seen from the paired model -/

theorem recorded_append (a : List (GKey × List Item)) (k k' : GKey) (r : List Item) :
    recorded (a ++ [(k, r)]) k' = (recorded a k' || decide (k = k')) := by
  simp [recorded]

theorem recorded_iff (a : List (GKey × List Item)) (k : GKey) :
    recorded a k = true ↔ ∃ e ∈ a, e.1 = k := by
  simp [recorded]

theorem recorded_filter (a : List (GKey × List Item)) (k k' : GKey) :
    recorded (a.filter (fun e => e.1 ≠ k)) k' = (recorded a k' && !decide (k = k')) := by
  apply Bool.eq_iff_iff.mpr
  rw [recorded_iff, Bool.and_eq_true, recorded_iff]
  constructor
  · rintro ⟨e, he, hk⟩
    have hf := List.mem_filter.mp he
    have hne : e.1 ≠ k := by simpa using hf.2
    exact ⟨⟨e, hf.1, hk⟩, by simpa using fun h : k = k' => hne (hk.trans h.symm)⟩
  · rintro ⟨⟨e, he, hk⟩, hne⟩
    have hne' : ¬ k = k' := by simpa using hne
    exact ⟨e, List.mem_filter.mpr ⟨he, by simpa using fun h : e.1 = k => hne' (h.symm.trans hk)⟩, hk⟩

theorem vany_filter (L : List VGroup) (k k' : GKey) :
    (L.filter (fun x => decide (x.key ≠ k))).any (fun x => decide (x.key = k'))
      = (L.any (fun x => decide (x.key = k')) && !decide (k = k')) := by
  apply Bool.eq_iff_iff.mpr
  simp only [List.any_eq_true, decide_eq_true_eq, Bool.and_eq_true]
  constructor
  · rintro ⟨e, he, hk⟩
    have hf := List.mem_filter.mp he
    have hne : e.key ≠ k := by simpa using hf.2
    exact ⟨⟨e, hf.1, hk⟩, by simpa using fun h : k = k' => hne (hk.trans h.symm)⟩
  · rintro ⟨⟨e, he, hk⟩, hne⟩
    have hne' : ¬ k = k' := by simpa using hne
    exact ⟨e, List.mem_filter.mpr ⟨he, by simpa using fun h : e.key = k => hne' (h.symm.trans hk)⟩, hk⟩

theorem addGroupV_st (s : StV) (v : VGroup) : (addGroupV s v).st = addGroup s.st v.g := by
  unfold addGroupV addGroup
  split <;> rfl

theorem rmGroupV_st (s : StV) (v : VGroup) : (rmGroupV s v).st = rmGroup s.st v.g := by
  unfold rmGroupV rmGroup
  split <;> rfl

/-- REFINEMENT.  Forgetting the VF ledger, the paired model is the model of Model/C19Dev.lean: every
    theorem of Proofs/C19Dev.lean applies to the `.st` component of a paired run. -/
theorem runV_st (s : StV) (h : List VEv) : (runV s h).st = run s.st (h.map VEv.ev) := by
  induction h generalizing s with
  | nil => rfl
  | cons e r ih =>
    simp only [runV, run, List.foldl_cons, List.map_cons] at ih ⊢
    rw [ih]
    cases e <;> simp [stepV, step, VEv.ev, addGroupV_st, rmGroupV_st]

/-! ### the ledger invariant -/

/-- `st.aset` lists exactly the keys of `L`, and the VF ledger is the union of what the members of
    `L` hold. -/
structure VInv (s : StV) (L : List VGroup) : Prop where
  reco : ∀ k, recorded s.st.aset k = L.any (fun x => decide (x.key = k))
  nodup : (L.map VGroup.key).Nodup
  vf : ∀ x, x ∈ s.vf ↔ ∃ v ∈ L, x ∈ v.ents

/-- no VF is held by two members -/
def Disj (L : List VGroup) : Prop :=
  ∀ a ∈ L, ∀ b ∈ L, a.key ≠ b.key → ∀ x ∈ a.ents, x ∉ b.ents

theorem vinv_init (total : Tab) : VInv (StV.init total) [] :=
  ⟨fun _ => rfl, by simp, fun x => by simp [StV.init]⟩

theorem vany_false_of {L : List VGroup} {k : GKey}
    (h : L.any (fun x => decide (x.key = k)) = false) : ∀ y ∈ L, y.key ≠ k := by
  intro y hy hk
  have : L.any (fun x => decide (x.key = k)) = true := by
    simp only [List.any_eq_true, decide_eq_true_eq]; exact ⟨y, hy, hk⟩
  rw [h] at this
  exact Bool.false_ne_true this

theorem vinv_add {s : StV} {L : List VGroup} {v : VGroup} (hI : VInv s L) :
    VInv (addGroupV s v) (vliveStep L (.add v)) := by
  have hrec := hI.reco v.g.key
  unfold addGroupV vliveStep
  by_cases hr : recorded s.st.aset v.g.key = true
  · have hr' : L.any (fun x => decide (x.key = v.key)) = true := by rw [← hr, hrec]; rfl
    simp only [hr, hr', if_true]
    exact hI
  · have hr1 : recorded s.st.aset v.g.key = false := by simpa using hr
    have hr2 : L.any (fun x => decide (x.key = v.key)) = false := by
      rw [← hr1, hrec]; rfl
    simp only [hr1, hr2, Bool.false_eq_true, if_false]
    refine ⟨?_, ?_, ?_⟩
    · intro k
      simp only [addGroup, hr1, Bool.false_eq_true, if_false, recorded_append, hI.reco k,
        List.any_append, List.any_cons, List.any_nil, Bool.or_false]
      rfl
    · rw [List.map_append, List.nodup_append]
      refine ⟨hI.nodup, by simp, ?_⟩
      intro a ha b hb
      simp only [List.map_cons, List.map_nil, List.mem_singleton] at hb
      subst hb
      obtain ⟨y, hy, hyk⟩ := List.mem_map.mp ha
      intro hab
      exact vany_false_of hr2 y hy (hyk.trans hab)
    · intro x
      simp only [mem_vfAdd, hI.vf x, List.mem_append, List.mem_singleton]
      constructor
      · rintro (⟨w, hw, hx⟩ | hx)
        · exact ⟨w, Or.inl hw, hx⟩
        · exact ⟨v, Or.inr rfl, hx⟩
      · rintro ⟨w, hw | hw, hx⟩
        · exact Or.inl ⟨w, hw, hx⟩
        · subst hw; exact Or.inr hx

theorem vfilter_self {L : List VGroup} {k : GKey}
    (h : L.any (fun x => decide (x.key = k)) = false) :
    L.filter (fun x => decide (x.key ≠ k)) = L := by
  rw [List.filter_eq_self]
  intro a ha
  simpa using vany_false_of h a ha

theorem vinv_del {s : StV} {L : List VGroup} {v : VGroup} (hI : VInv s L)
    (hfunc : ∀ y ∈ L, y.key = v.key → y = v) (hd : Disj L) :
    VInv (rmGroupV s v) (vliveStep L (.del v)) := by
  have hrec := hI.reco v.g.key
  unfold rmGroupV vliveStep
  by_cases hr : recorded s.st.aset v.g.key = true
  · have hr' : L.any (fun x => decide (x.key = v.key)) = true := by rw [← hr, hrec]; rfl
    simp only [List.any_eq_true, decide_eq_true_eq] at hr'
    obtain ⟨y, hy, hyk⟩ := hr'
    have hyv : y = v := hfunc y hy hyk
    subst hyv
    simp only [hr, if_true]
    refine ⟨?_, ?_, ?_⟩
    · intro k
      simp only [rmGroup, hr, if_true, recorded_filter, hI.reco k, vany_filter]
      rfl
    · exact (List.filter_sublist.map VGroup.key).nodup hI.nodup
    · intro x
      simp only [mem_vfRemove, hI.vf x, List.mem_filter, decide_eq_true_eq]
      constructor
      · rintro ⟨⟨w, hw, hx⟩, hnx⟩
        refine ⟨w, ⟨hw, fun hk => ?_⟩, hx⟩
        have : w = y := hfunc w hw hk
        subst this
        exact hnx hx
      · rintro ⟨w, ⟨hw, hk⟩, hx⟩
        exact ⟨⟨w, hw, hx⟩, hd w hw y hy hk x hx⟩
  · have hr1 : recorded s.st.aset v.g.key = false := by simpa using hr
    have hr2 : L.any (fun x => decide (x.key = v.key)) = false := by
      rw [← hr1, hrec]; rfl
    simp only [hr1, Bool.false_eq_true, if_false, vfilter_self hr2]
    exact hI

theorem disj_filter {L : List VGroup} (hd : Disj L) (p : VGroup → Bool) : Disj (L.filter p) :=
  fun a ha b hb => hd a (List.mem_filter.mp ha).1 b (List.mem_filter.mp hb).1

theorem vliveStep_upd (L : List VGroup) (v : VGroup) :
    vliveStep (vliveStep L (.del v)) (.add v) = vliveStep L (.upd v) := by
  have h := vany_filter L v.key v.key
  simp only [decide_true, Bool.not_true, Bool.and_false] at h
  simp only [vliveStep, h, Bool.false_eq_true, if_false]

/-! ### the hypotheses, as decidable (Bool) predicates -/

/-- every event about a (node, type, pod) key carries the same allocation, VFs included (a delete /
    update event carries the annotation that was persisted at bind time) -/
def vfuncOK (h : List VEv) : Bool :=
  h.all fun e => h.all fun e' => !decide (e.grp.key = e'.grp.key) || decide (e.grp = e'.grp)

/-- no VF is held by two allocations of the list (what allocateVF guarantees: it skips the bus ids
    that are recorded as allocated) -/
def disjL (L : List VGroup) : Bool :=
  L.all fun a => L.all fun b => decide (a.key = b.key) || !(a.ents.any fun x => b.ents.contains x)

/-- ... at every point of the history, for the allocations the API server holds at that point
    (a VF may be handed out again after its holder was deleted) -/
def histOK : List VGroup → List VEv → Bool
  | _, [] => true
  | L, e :: r => disjL (vliveStep L e) && histOK (vliveStep L e) r

/-- well-formed history (the harness checks both parts on every generated history:
    fingerprint C19:dev-vf-hypothesis) -/
def VWF (h : List VEv) : Bool := vfuncOK h && histOK [] h

theorem disj_of_disjL {L : List VGroup} (h : disjL L = true) : Disj L := by
  intro a ha b hb hk x hx hxb
  simp only [disjL, List.all_eq_true] at h
  have := h a ha b hb
  simp only [hk, decide_false, Bool.false_or, Bool.not_eq_true', List.any_eq_false] at this
  exact this x hx (by simpa using hxb)

theorem vfunc_of {h : List VEv} (hf : vfuncOK h = true) :
    ∀ e ∈ h, ∀ e' ∈ h, e.grp.key = e'.grp.key → e.grp = e'.grp := by
  intro e he e' he' hk
  simp only [vfuncOK, List.all_eq_true] at hf
  have := hf e he e' he'
  simpa [hk] using this

/-- invariant over a run: `G` = the allocations that may occur in events (a key determines the
    allocation). -/
theorem vinv_run {G : VGroup → Prop} (hG : ∀ a b, G a → G b → a.key = b.key → a = b)
    (h : List VEv) {s : StV} {L : List VGroup}
    (hI : VInv s L) (hd : Disj L) (hm : ∀ y ∈ L, G y) (hev : ∀ e ∈ h, G e.grp)
    (hok : histOK L h = true) :
    VInv (runV s h) (h.foldl vliveStep L) := by
  induction h generalizing s L with
  | nil => exact hI
  | cons e r ih =>
    simp only [histOK, Bool.and_eq_true] at hok
    have hge : G e.grp := hev e (by simp)
    have hd' : Disj (vliveStep L e) := disj_of_disjL hok.1
    have hfunc : ∀ y ∈ L, y.key = e.grp.key → y = e.grp := fun y hy hk => hG y e.grp (hm y hy) hge hk
    have hm' : ∀ y ∈ vliveStep L e, G y := by
      intro y hy
      cases e with
      | add v =>
        simp only [vliveStep] at hy
        split at hy
        · exact hm y hy
        · rcases List.mem_append.mp hy with h1 | h1
          · exact hm y h1
          · simp only [List.mem_singleton] at h1; subst h1; exact hge
      | del v => exact hm y (List.mem_filter.mp hy).1
      | upd v =>
        simp only [vliveStep] at hy
        rcases List.mem_append.mp hy with h1 | h1
        · exact hm y (List.mem_filter.mp h1).1
        · simp only [List.mem_singleton] at h1; subst h1; exact hge
    have hI' : VInv (stepV s e) (vliveStep L e) := by
      cases e with
      | add v => exact vinv_add hI
      | del v => exact vinv_del hI hfunc hd
      | upd v =>
        have := vinv_add (v := v) (vinv_del (v := v) hI hfunc hd)
        rw [vliveStep_upd] at this
        exact this
    simp only [runV, List.foldl_cons]
    exact ih hI' hd' hm' (fun e' he' => hev e' (by simp [he'])) hok.2

/-- LEDGER INVARIANT (VF part).  After any well-formed history from the empty cache the VF ledger is
    exactly the union of what the surviving allocations hold. -/
theorem vf_live_invariant (total : Tab) (h : List VEv) (wf : VWF h = true) :
    VInv (runV (StV.init total) h) (vsurvivors h) := by
  simp only [VWF, Bool.and_eq_true] at wf
  have hf := vfunc_of wf.1
  refine vinv_run (G := fun g => ∃ e ∈ h, e.grp = g) ?_ h (vinv_init total)
    (by intro a ha; simp at ha) (by intro y hy; simp at hy) (fun e he => ⟨e, he, rfl⟩) wf.2
  rintro a b ⟨e, he, rfl⟩ ⟨e', he', rfl⟩ hk
  exact hf e he e' he' hk

theorem vkey_inj_of_nodup (l : List VGroup) (hnd : (l.map VGroup.key).Nodup) :
    ∀ a b, a ∈ l → b ∈ l → a.key = b.key → a = b := by
  induction l with
  | nil => intro a b ha; simp at ha
  | cons x xs ih =>
    simp only [List.map_cons, List.nodup_cons] at hnd
    intro a b ha hb hk
    rcases List.mem_cons.mp ha with ha1 | ha1 <;> rcases List.mem_cons.mp hb with hb1 | hb1
    · rw [ha1, hb1]
    · subst ha1; exact absurd (by rw [hk]; exact List.mem_map_of_mem hb1) hnd.1
    · subst hb1; exact absurd (by rw [← hk]; exact List.mem_map_of_mem ha1) hnd.1
    · exact ih hnd.2 a b ha1 hb1 hk

theorem vbuild_aux (l : List VGroup) {s : StV} {L : List VGroup} (hI : VInv s L)
    (hnd : ((L ++ l).map VGroup.key).Nodup) : VInv (l.foldl addGroupV s) (L ++ l) := by
  induction l generalizing s L with
  | nil => simpa using hI
  | cons v r ih =>
    have hany : L.any (fun x => decide (x.key = v.key)) = false := by
      apply Bool.eq_false_iff.mpr
      intro h
      simp only [List.any_eq_true, decide_eq_true_eq] at h
      obtain ⟨y, hy, hyk⟩ := h
      rw [List.map_append, List.nodup_append] at hnd
      exact hnd.2.2 y.key (List.mem_map_of_mem hy) v.key (by simp) hyk
    have h1 := vinv_add (v := v) hI
    simp only [vliveStep, hany, Bool.false_eq_true, if_false] at h1
    have := ih h1 (by simpa using hnd)
    simpa using this

/-- a fresh cache fed one add per allocation (distinct (node, type, pod) keys) records exactly the
    union of their VFs, whatever they are (no disjointness needed: adds are set unions). -/
theorem vf_build_invariant (total : Tab) (l : List VGroup) (hnd : (l.map VGroup.key).Nodup) :
    VInv (buildV total l) l := by
  have := vbuild_aux l (vinv_init total) (by simpa using hnd)
  simpa [buildV] using this

theorem vfHas_congr {a b : VFTab} (h : ∀ x, x ∈ a ↔ x ∈ b) (k : VKey) (bus : Int) :
    vfHas a k bus = vfHas b k bus := by
  apply Bool.eq_iff_iff.mpr
  rw [vfHas_iff, vfHas_iff]
  exact h (k, bus)

theorem vfRender_congr (un : VUniv) {a b : VFTab} (h : ∀ k bus, vfHas a k bus = vfHas b k bus) :
    vfRender un a = vfRender un b := by
  simp only [vfRender, h]

/-- (c) LIVE = REBUILT for the VF ledger.  For every well-formed history of add / delete /
    same-allocation update events from the empty cache, the live cache and a fresh cache that is fed
    one add event per surviving allocation record the same VFs (bus ids per (node, type, minor)), and
    print the same `vf` observation lines over any universe. -/
theorem vf_live_eq_rebuilt (total : Tab) (h : List VEv) (wf : VWF h = true) :
    let live := runV (StV.init total) h
    let fresh := buildV total (vsurvivors h)
    (∀ k b, vfHas live.vf k b = vfHas fresh.vf k b) ∧
    (∀ un, vfRender un live.vf = vfRender un fresh.vf) := by
  intro live fresh
  have hI := vf_live_invariant total h wf
  have hB := vf_build_invariant total (vsurvivors h) hI.nodup
  have hv : ∀ k b, vfHas live.vf k b = vfHas fresh.vf k b :=
    vfHas_congr (fun x => (hI.vf x).trans (hB.vf x).symm)
  exact ⟨hv, fun un => vfRender_congr un hv⟩

/-- (a) ORDER INDEPENDENCE of the VF ledger of a rebuilt cache (distinct keys). -/
theorem vf_order_independent (total : Tab) {l₁ l₂ : List VGroup} (hp : l₁.Perm l₂)
    (hnd : (l₁.map VGroup.key).Nodup) :
    (∀ k b, vfHas (buildV total l₁).vf k b = vfHas (buildV total l₂).vf k b) ∧
    (∀ un, vfRender un (buildV total l₁).vf = vfRender un (buildV total l₂).vf) := by
  have hnd2 : (l₂.map VGroup.key).Nodup := (hp.map VGroup.key).nodup_iff.mp hnd
  have h1 := vf_build_invariant total l₁ hnd
  have h2 := vf_build_invariant total l₂ hnd2
  have hv : ∀ k b, vfHas (buildV total l₁).vf k b = vfHas (buildV total l₂).vf k b := by
    apply vfHas_congr
    intro x
    rw [h1.vf x, h2.vf x]
    constructor
    · rintro ⟨v, hv, hx⟩; exact ⟨v, hp.mem_iff.mp hv, hx⟩
    · rintro ⟨v, hv, hx⟩; exact ⟨v, hp.mem_iff.mpr hv, hx⟩
  exact ⟨hv, fun un => vfRender_congr un hv⟩

/-- (b1) DUPLICATE ADD: any state, any allocation - the isValid guard skips the second add, the VF
    ledger included. -/
theorem vf_dup_add_noop (s : StV) (v : VGroup) : addGroupV (addGroupV s v) v = addGroupV s v := by
  by_cases hr : recorded s.st.aset v.g.key = true
  · simp [addGroupV, hr]
  · have hr1 : recorded s.st.aset v.g.key = false := by simpa using hr
    have : recorded (addGroup s.st v.g).aset v.g.key = true := by
      simp only [addGroup, hr1, Bool.false_eq_true, if_false, recorded_append, decide_true,
        Bool.or_true]
    conv => lhs; unfold addGroupV
    simp only [addGroupV, hr1, Bool.false_eq_true, if_false, this, if_true]

/-- (b2) SAME-ALLOCATION UPDATE of a surviving allocation leaves the VF ledger unchanged. -/
theorem vf_same_update_noop (total : Tab) (h : List VEv) (v : VGroup)
    (wf : VWF (h ++ [VEv.upd v]) = true) (wf0 : VWF h = true) (hv : v ∈ vsurvivors h) :
    let s := runV (StV.init total) h
    ∀ k b, vfHas (stepV s (.upd v)).vf k b = vfHas s.vf k b := by
  intro s
  have hI := vf_live_invariant total h wf0
  have hI' := vf_live_invariant total (h ++ [VEv.upd v]) wf
  have hrun : runV (StV.init total) (h ++ [VEv.upd v]) = stepV s (.upd v) := by simp [runV, s]
  have hsurv : vsurvivors (h ++ [VEv.upd v])
      = (vsurvivors h).filter (fun x => decide (x.key ≠ v.key)) ++ [v] := by
    simp [vsurvivors, vliveStep]
  rw [hrun, hsurv] at hI'
  apply vfHas_congr
  intro x
  rw [hI'.vf x, hI.vf x]
  constructor
  · rintro ⟨w, hw, hx⟩
    rcases List.mem_append.mp hw with h1 | h1
    · exact ⟨w, (List.mem_filter.mp h1).1, hx⟩
    · simp only [List.mem_singleton] at h1; subst h1; exact ⟨w, hv, hx⟩
  · rintro ⟨w, hw, hx⟩
    by_cases hk : w.key = v.key
    · have : w = v := vkey_inj_of_nodup _ hI.nodup w v hw hv hk
      subst this
      exact ⟨w, by simp, hx⟩
    · exact ⟨w, List.mem_append.mpr (Or.inl (List.mem_filter.mpr ⟨hw, by simpa using hk⟩)), hx⟩

/-! ### nothing taken is offered again -/

/-- every (key, bus id) listed in an `Extension.VirtualFunctions` of the allocation, as persisted -/
def VGroup.rawEnts (v : VGroup) : List VEnt :=
  v.vfs.flatMap fun it => it.2.map fun b => ((v.g.node, v.g.ty, it.1), b)

/-- the VF-carrying DeviceAllocations of the list have pairwise distinct minors (the allocator emits
    one DeviceAllocation per minor) -/
def VGroup.MinorsDistinct (v : VGroup) : Prop :=
  ((v.vfs.filter fun it => !it.2.isEmpty).map (·.1)).Nodup

instance (v : VGroup) : Decidable v.MinorsDistinct := by unfold VGroup.MinorsDistinct; infer_instance

theorem vfOf_aux (items r : List VItem)
    (hnd : ((r ++ items.filter fun it => !it.2.isEmpty).map (·.1)).Nodup) :
    items.foldl (fun r it => if it.2.isEmpty then r else r.filter (fun x => x.1 ≠ it.1) ++ [it]) r
      = r ++ items.filter fun it => !it.2.isEmpty := by
  induction items generalizing r with
  | nil => simp
  | cons it rest ih =>
    by_cases he : it.2.isEmpty = true
    · simp only [List.foldl_cons, he, if_true]
      have : (it :: rest).filter (fun it => !it.2.isEmpty) = rest.filter (fun it => !it.2.isEmpty) := by
        simp [he]
      rw [this] at hnd ⊢
      exact ih r hnd
    · have he' : it.2.isEmpty = false := by simpa using he
      have hf : (it :: rest).filter (fun it => !it.2.isEmpty)
          = it :: rest.filter (fun it => !it.2.isEmpty) := by simp [he']
      rw [hf] at hnd ⊢
      have hr : r.filter (fun x => decide (x.1 ≠ it.1)) = r := by
        rw [List.filter_eq_self]
        intro a ha
        rw [List.map_append, List.nodup_append] at hnd
        have := hnd.2.2 a.1 (List.mem_map_of_mem ha) it.1 (by simp)
        simpa using this
      simp only [List.foldl_cons, he', Bool.false_eq_true, if_false, hr]
      rw [ih (r ++ [it]) (by simpa using hnd)]
      simp

theorem vfOf_of_distinct (items : List VItem)
    (hnd : ((items.filter fun it => !it.2.isEmpty).map (·.1)).Nodup) :
    vfOf items = items.filter fun it => !it.2.isEmpty := by
  have := vfOf_aux items [] (by simpa using hnd)
  simpa [vfOf] using this

theorem rawEnts_sub_ents (v : VGroup) (hd : v.MinorsDistinct) : ∀ x ∈ v.rawEnts, x ∈ v.ents := by
  intro x hx
  simp only [VGroup.rawEnts, List.mem_flatMap, List.mem_map] at hx
  obtain ⟨it, hit, b, hb, rfl⟩ := hx
  simp only [VGroup.ents, vfEnts, vfOf_of_distinct v.vfs hd, List.mem_flatMap, List.mem_map,
    List.mem_filter]
  refine ⟨it, ⟨hit, ?_⟩, b, hb, rfl⟩
  cases hi : it.2 with
  | nil => rw [hi] at hb; simp at hb
  | cons _ _ => rfl

/-- NOTHING TAKEN IS OFFERED AGAIN (VF part).  After the restart the rebuilt cache records as
    allocated (i) every VF a surviving allocation stands for, (ii) for an allocation whose VF-carrying
    DeviceAllocations have distinct minors, every bus id listed in its persisted annotation, and
    (iii) nothing else.  (allocateVF skips the recorded bus ids.) -/
theorem vf_taken_not_free (total : Tab) (h : List VEv) (wf : VWF h = true) :
    let fresh := buildV total (vsurvivors h)
    (∀ v ∈ vsurvivors h, ∀ x ∈ v.ents, vfHas fresh.vf x.1 x.2 = true) ∧
    (∀ v ∈ vsurvivors h, v.MinorsDistinct → ∀ x ∈ v.rawEnts, vfHas fresh.vf x.1 x.2 = true) ∧
    (∀ k b, vfHas fresh.vf k b = true → ∃ v ∈ vsurvivors h, (k, b) ∈ v.ents) := by
  intro fresh
  have hI := vf_live_invariant total h wf
  have hB := vf_build_invariant total (vsurvivors h) hI.nodup
  have h1 : ∀ v ∈ vsurvivors h, ∀ x ∈ v.ents, vfHas fresh.vf x.1 x.2 = true := by
    intro v hv x hx
    rw [vfHas_iff]
    exact (hB.vf x).mpr ⟨v, hv, hx⟩
  refine ⟨h1, fun v hv hd x hx => h1 v hv x (rawEnts_sub_ents v hd x hx), ?_⟩
  intro k b hkb
  exact (hB.vf (k, b)).mp ((vfHas_iff _ k b).mp hkb)

/-! ### what the hypotheses exclude (the code as written, proved on concrete witnesses) -/

def cxA : VGroup := { g := { node := 0, ty := 1, pod := 0, items := [(0, [(0, 50)])] }, vfs := [(0, [5])] }
def cxB : VGroup := { g := { node := 0, ty := 1, pod := 1, items := [(0, [(0, 50)])] }, vfs := [(0, [5])] }
def cxH : List VEv := [.add cxA, .add cxB, .del cxA]

/-- The ledger records no owner: when two allocations hold the same VF (excluded by `histOK`; the
    allocator never produces it), deleting one of them frees the VF although the other survives - the
    live cache then offers bus id 5 again while a restarted scheduler would not. -/
theorem vf_shared_remove_counterexample :
    vfuncOK cxH = true ∧ vsurvivors cxH = [cxB] ∧
    vfHas (runV (StV.init []) cxH).vf (0, 1, 0) 5 = false ∧
    vfHas (buildV [] (vsurvivors cxH)).vf (0, 1, 0) 5 = true := by decide

/-- hence `vf_live_eq_rebuilt` does not hold without the disjointness part of `VWF`. -/
theorem vf_live_eq_rebuilt_needs_disjoint_counterexample :
    ¬ (∀ (h : List VEv), vfuncOK h = true →
        ∀ k b, vfHas (runV (StV.init []) h).vf k b = vfHas (buildV [] (vsurvivors h)).vf k b) := by
  intro H
  have := H cxH (by decide) (0, 1, 0) 5
  revert this
  decide

def cxD : VGroup :=
  { g := { node := 0, ty := 1, pod := 0, items := [(0, [(0, 50)]), (0, [(0, 50)])] },
    vfs := [(0, [1]), (0, [2])] }

/-- getVFAllocations keeps one set per minor, last write wins: of two VF-carrying DeviceAllocations
    with the same minor in one list the first one's bus id (1) is not recorded, so it would be
    offered again; part (ii) of `vf_taken_not_free` needs `MinorsDistinct`. -/
theorem vf_taken_dup_minor_counterexample :
    VWF [.add cxD] = true ∧ ((0, 1, 0), 1) ∈ cxD.rawEnts ∧
    vfHas (buildV [] (vsurvivors [.add cxD])).vf (0, 1, 0) 1 = false ∧
    vfHas (buildV [] (vsurvivors [.add cxD])).vf (0, 1, 0) 2 = true := by decide

/-! ### the hypotheses are satisfiable on a non-trivial history
    (2 RDMA minors, 3 VFs, pod 0 deleted, its VF 0 handed out again to pod 2) -/

def exV0 : VGroup :=
  { g := { node := 0, ty := 1, pod := 0, items := [(0, [(0, 50)]), (1, [(0, 100)])] },
    vfs := [(0, [0, 1]), (1, [2])] }
def exV1 : VGroup :=
  { g := { node := 0, ty := 1, pod := 1, items := [(0, [(0, 50)])] }, vfs := [(0, [2, 2])] }
def exV2 : VGroup :=
  { g := { node := 0, ty := 1, pod := 2, items := [(1, [(0, 25)]), (0, [(0, 0)])] },
    vfs := [(1, [0]), (0, [])] }
def exVH : List VEv := [.add exV0, .add exV1, .upd exV1, .del exV0, .add exV2, .add exV1, .upd exV2]

example : VWF exVH = true := by decide
example : vsurvivors exVH = [exV1, exV2] := by decide
example : exV0.MinorsDistinct ∧ exV1.MinorsDistinct ∧ exV2.MinorsDistinct := by decide
example : vfRender { keys := [(0, 1, 0), (0, 1, 1)], buses := [0, 1, 2] }
    (runV (StV.init []) [.add exV0, .add exV1]).vf = ["vf 0 1 0 0 1 2", "vf 0 1 1 2"] := by decide
example : vfRender { keys := [(0, 1, 0), (0, 1, 1)], buses := [0, 1, 2] }
    (runV (StV.init []) exVH).vf = ["vf 0 1 0 2", "vf 0 1 1 0"] := by decide

end KoordVerif.C19.Dev
