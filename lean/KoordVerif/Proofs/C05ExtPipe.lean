import KoordVerif.Proofs.C05Base
/-
C05 extension: the scheduling-cycle pipeline (NominateReservation with its single-candidate shortcut as written,
FilterNominateReservation, Filter).  What Reserve assumes a pod into is what `nominateM` returns.
-/
namespace KoordVerif.C05

/-- `u` is a reservation NominateReservation may return -/
def Nominated (c : Cache) (x : CycIn) (u : Nat) : Prop :=
  match nominateM c x with
  | .none => False
  | .one v => v = u
  | .among us => u ∈ us

instance instDecNominated (c : Cache) (x : CycIn) (u : Nat) : Decidable (Nominated c x u) :=
  match h : nominateM c x with
  | .none => isFalse (by unfold Nominated; rw [h]; exact id)
  | .one v => if hv : v = u then isTrue (by unfold Nominated; rw [h]; exact hv) else isFalse (by unfold Nominated; rw [h]; exact hv)
  | .among us => if hm : u ∈ us then isTrue (by unfold Nominated; rw [h]; exact hm) else isFalse (by unfold Nominated; rw [h]; exact hm)

theorem filterWR_single_required (c : Cache) (x : CycIn) (r : RInfo) :
    filterWR c x [r] true = 0 ↔ (skipR x r = false ∧ fitsBoth c x r = true) := by
  unfold filterWR
  cases hs : skipR x r <;> cases hf : fitsBoth c x r <;> simp [hs, hf]

/-- a reservation that passes FilterNominateReservation is not an allocate-once reservation that already holds a
    pod, shares a reserved dimension with the pod (or the pod has a reservation affinity), fits the node and, if
    Restricted, passes fitsReservation -/
theorem nomFilterOK_sound (c : Cache) (x : CycIn) (r : RInfo) (h : nomFilterOK c x r = true) :
    nominateGate r = false ∧ skipR x r = false ∧ fitsBoth c x r = true := by
  unfold nomFilterOK at h
  simp only [Bool.and_eq_true, Bool.not_eq_true', beq_iff_eq] at h
  exact ⟨h.1, (filterWR_single_required c x r).mp h.2⟩

theorem fitsBoth_restricted (c : Cache) (x : CycIn) (r : RInfo) (h : fitsBoth c x r = true) (hp : r.policy = 2) :
    fitOK (fitsReservation r x.pod.req vzero 0) = true := by
  unfold fitsBoth fitNR at h
  simp only [hp, beq_self_eq_true, if_true] at h
  cases hf : fitOK (fitsReservation r x.pod.req vzero 0) with
  | true => rfl
  | false => simp [hf] at h

theorem mem_filter_nom (c : Cache) (x : CycIn) (ms : List RInfo) (r : RInfo)
    (h : r ∈ ms.filter (fun r => nomFilterOK c x r)) : r ∈ ms ∧ nomFilterOK c x r = true := by
  simpa [List.mem_filter] using h

/-- NominateReservation as written: whatever it returns is a matched candidate that either passed the nominate
    filters or is the single candidate of a pod WITH reservation affinity (the shortcut) -/
theorem nominate_sound (c : Cache) (x : CycIn) (u : Nat) (h : Nominated c x u) :
    ∃ r ∈ matchedOf c x, r.uid = u ∧
      ((x.hasAff = true ∧ matchedOf c x = [r] ∧ nominateGate r = false) ∨ nomFilterOK c x r = true) := by
  unfold Nominated at h
  cases hm : matchedOf c x with
  | nil => simp [nominateM, nominateG, hm] at h
  | cons r t =>
    cases t with
    | nil =>
      by_cases ha : x.hasAff = true
      · cases hg : nominateGate r with
        | true => simp [nominateM, nominateG, hm, ha, hg] at h
        | false =>
          simp [nominateM, nominateG, hm, ha, hg] at h
          exact ⟨r, by simp, h, Or.inl ⟨ha, rfl, hg⟩⟩
      · by_cases hn : nomFilterOK c x r = true
        · simp [nominateM, nominateG, hm, ha, hn] at h
          exact ⟨r, by simp, h, Or.inr hn⟩
        · simp [nominateM, nominateG, hm, ha, hn] at h
    | cons r2 t2 =>
      cases hf : (r :: r2 :: t2).filter (fun r => nomFilterOK c x r) with
      | nil => simp [nominateM, nominateG, hm, hf] at h
      | cons p ps =>
        have hp : p ∈ (r :: r2 :: t2).filter (fun r => nomFilterOK c x r) := by rw [hf]; simp
        cases ps with
        | nil =>
          simp [nominateM, nominateG, hm, hf] at h
          obtain ⟨h1, h2⟩ := mem_filter_nom c x _ p hp
          exact ⟨p, h1, h, Or.inr h2⟩
        | cons p2 ps2 =>
          simp only [nominateM, nominateG, hm, hf, List.mem_map] at h
          obtain ⟨q, hq, hqu⟩ := h
          have hq' : q ∈ (r :: r2 :: t2).filter (fun r => nomFilterOK c x r) := by rw [hf]; exact hq
          obtain ⟨h1, h2⟩ := mem_filter_nom c x _ q hq'
          exact ⟨q, h1, hqu, Or.inr h2⟩

/-- a matched candidate satisfies the owner entry (pods with the ignore label are not generated / modelled here) -/
theorem matched_owner (c : Cache) (x : CycIn) (r : RInfo) (h : r ∈ matchedOf c x) :
    (candOf x r.uid).ownerOK = true ∧ r.parseErr = false := by
  unfold matchedOf at h
  simp only [List.mem_filter] at h
  have hm := h.2
  unfold matchedBy at hm
  cases ho : matchOwners r.parseErr [{ obj := true, ctrl := true, lbl := (candOf x r.uid).ownerOK }] with
  | false => simp [checkMatched, ho] at hm
  | true =>
    simp [matchOwners, matchOwnersList] at ho
    exact ⟨ho.2, ho.1⟩

/-- Filter of a pod WITH reservation affinity and exactly one candidate succeeds only if that candidate itself
    fits (node and, if Restricted, the reservation) — which is why the shortcut keeps the restricted-fit clause -/
theorem filter_single_affinity (c : Cache) (x : CycIn) (r : RInfo) (ha : x.hasAff = true)
    (hm : matchedOf c x = [r]) (hf : filterM c x = 0) : skipR x r = false ∧ fitsBoth c x r = true := by
  unfold filterM at hf
  simp only [hm, List.isEmpty_cons, Bool.false_eq_true, if_false, ha] at hf
  exact (filterWR_single_required c x r).mp hf

end KoordVerif.C05
