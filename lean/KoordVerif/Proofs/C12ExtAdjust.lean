import KoordVerif.Props.C12
import KoordVerif.Model.C12Adjust
namespace KoordVerif.C12

/-! ### adjustByCPUSet: the old set is the besteffort ROOT dir's own content -/

section Adjust
variable (parent : Nat → Option Nat) (paths : List Nat) (depth : Nat → Nat) (root : Nat)

/-- in a valid BE subtree (every dir but the root has a parent, depths count the steps to the root) every dir is
    within the root's set: the hypothesis `hcov` of none_policy_every_prefix_valid is a CONSEQUENCE of validity once
    the old set is the root's own content. -/
theorem valid_within_root (f : Nat → Nat)
    (hin : ∀ c p, parent c = some p → c ∈ paths ∧ p ∈ paths)
    (hdep : ∀ c p, parent c = some p → depth c = depth p + 1)
    (hanc : ∀ n ∈ paths, n = root ∨ ∃ p, parent n = some p)
    (hv : Valid parent subMask f) : ∀ n ∈ paths, subMask (f n) (f root) := by
  have key : ∀ d n, depth n = d → n ∈ paths → subMask (f n) (f root) := by
    intro d
    induction d with
    | zero =>
      intro n hd hn
      rcases hanc n hn with h | ⟨p, h⟩
      · rw [h]; exact subMask_refl _
      · have := hdep n p h; omega
    | succ d ih =>
      intro n hd hn
      rcases hanc n hn with h | ⟨p, h⟩
      · rw [h]; exact subMask_refl _
      · have h1 := hdep n p h
        exact subMask_trans (hv n p h) (ih p (by omega) (hin n p h).2)
  exact fun n hn => key (depth n) n rfl hn

/-- **adjust_every_prefix_valid**: one round of adjustByCPUSet - the old set read from the besteffort root file by the
    code itself - whatever the node topology says (kind 0 / 1: error, nothing written; 2: kubelet static policy, with the
    share-pool hypotheses of static_policy_every_prefix_valid; anything else: none policy, NO hypothesis about the old
    set left): after every single write every child's CPU set is within its parent's. -/
theorem adjust_every_prefix_valid (kind : Nat) (exp : Bool) (rec : Option Nat) (cpus : Nat) (s : St Nat)
    (hc : CacheOK s) (hnd : paths.Nodup)
    (htop : paths.Pairwise (fun a b => parent a ≠ some b))
    (hin : ∀ c p, parent c = some p → c ∈ paths ∧ p ∈ paths)
    (hdep : ∀ c p, parent c = some p → depth c = depth p + 1)
    (hmax : ∀ n ∈ paths, depth n ≤ 2)
    (hanc : ∀ n ∈ paths, n = root ∨ ∃ p, parent n = some p)
    (hst : kind = 2 → ∃ R, rec = some R ∧ (∀ n ∈ paths, subMask (s.files n) R) ∧ subMask cpus R)
    (hold : Valid parent subMask s.files) :
    ∀ k, Valid parent subMask (applyWrites s.files ((adjustByCPUSet kind exp paths depth rec cpus root s).2.take k)) := by
  unfold adjustByCPUSet applyBESuppress
  split
  · intro k; simpa [applyWrites] using hold
  · intro k; simpa [applyWrites] using hold
  · obtain ⟨R, hR, hcov, hcp⟩ := hst rfl
    rw [hR]
    exact static_policy_every_prefix_valid parent paths depth R cpus exp s hc hnd htop hin hdep hmax hcov hcp hold
  · exact none_policy_every_prefix_valid parent paths cpus (adjustOld root s) exp s hc hnd htop hin
      (valid_within_root parent paths depth root s.files hin hdep hanc hold) hold

/-- a round of the history theorem IS adjustByCPUSet under policy static (kind 2) / none (kind 3). -/
theorem runRound_eq_adjust (R : Nat) (s : St Nat) (r : Round) :
    runRound paths depth R root s r =
      adjustByCPUSet (if r.static then 2 else 3) r.exp paths depth (some R) r.cpus root s := by
  unfold runRound adjustByCPUSet applyBESuppress adjustOld
  cases r.static <;> rfl

/-- **adjust_history_every_prefix_valid**: any sequence of adjustByCPUSet rounds on one executor (kubelet policy static /
    none in any order, new sets within the share pool), started from ANY valid BE subtree within the pool - in particular
    one whose containers are narrower than the root, as a static round leaves it: valid after every single write.  The
    start condition 'every dir within the root's set' of suppress_history_every_prefix_valid is discharged by
    valid_within_root. -/
theorem adjust_history_every_prefix_valid (R : Nat) (hnd : paths.Nodup)
    (htop : paths.Pairwise (fun a b => parent a ≠ some b))
    (hin : ∀ c p, parent c = some p → c ∈ paths ∧ p ∈ paths)
    (hdep : ∀ c p, parent c = some p → depth c = depth p + 1)
    (hmax : ∀ n ∈ paths, depth n ≤ 2)
    (hroot : root ∈ paths ∧ depth root = 0)
    (hanc : ∀ n ∈ paths, n = root ∨ ∃ p, parent n = some p)
    (rs : List Round) (s : St Nat) (hcp : ∀ r ∈ rs, subMask r.cpus R)
    (hc : CacheOK s) (hv : Valid parent subMask s.files) (hR : ∀ n ∈ paths, subMask (s.files n) R) :
    ∀ k, Valid parent subMask (applyWrites s.files ((runRounds paths depth R root rs s).2.take k)) :=
  (suppress_history_every_prefix_valid parent paths depth R root hnd htop hin hdep hmax hroot rs s hcp
    ⟨hc, hv, hR, valid_within_root parent paths depth root s.files hin hdep hanc hv⟩).2

end Adjust

/-- why the old set must NOT be koordletutil.GetBECgroupCurCPUSet() (the narrowest container / root set):
    besteffort(0) ← pod(1) ← container(2), root = pod = 0-15, container = 0-3 (what a static round leaves), new set 0-5
    under policy none.  Old = narrowest = 0-3: the top-down pass writes 0-3 ∪ 0-5 = 0-5 into the root while the pod still
    holds 0-15.  The end state is the same as with the root's own set. -/
def adjExS : St Nat := { files := fun n => if n ≤ 1 then 65535 else if n = 2 then 15 else 0, cache := fun _ => none, skip := [] }

theorem adjust_old_narrowest_counterexample :
    narrowestOld [0, 1, 2] (fun n => n) 0 adjExS = 15 ∧ adjustOld 0 adjExS = 65535 ∧
    ¬ (∀ k, Valid spExParent subMask (applyWrites adjExS.files
        ((nonePolicy false [0, 1, 2] 63 (narrowestOld [0, 1, 2] (fun n => n) 0 adjExS) adjExS).2.take k))) ∧
    (∀ n, n ≤ 2 → (nonePolicy false [0, 1, 2] 63 (narrowestOld [0, 1, 2] (fun n => n) 0 adjExS) adjExS).1.files n =
      (adjustByCPUSet 3 false [0, 1, 2] (fun n => n) (some 65535) 63 0 adjExS).1.files n) := by
  refine ⟨by decide, by decide, ?_, by decide⟩
  intro h
  have := h 1 1 0 rfl
  revert this; decide

/-- the same input through adjustByCPUSet as written: the write sequence, and all hypotheses of adjust_every_prefix_valid hold. -/
example : (adjustByCPUSet 3 false [0, 1, 2] (fun n => n) (some 65535) 63 0 adjExS).2 =
    [(2, 65535), (2, 63), (1, 63), (0, 63)] := by decide
example : ∀ k, Valid spExParent subMask (applyWrites adjExS.files
    ((adjustByCPUSet 3 false [0, 1, 2] (fun n => n) (some 65535) 63 0 adjExS).2.take k)) :=
  adjust_every_prefix_valid spExParent [0, 1, 2] (fun n => n) 0 3 false (some 65535) 63 adjExS
    (by intro n v h; simp [adjExS] at h) (by decide) (by simp [spExParent])
    (by intro c p h; unfold spExParent at h; split at h <;> cases h <;> simp)
    (by intro c p h; unfold spExParent at h; split at h <;> cases h <;> rfl)
    (by intro n hn; simp at hn; rcases hn with h | h | h <;> subst h <;> decide)
    (by intro n hn; simp at hn; rcases hn with h | h | h <;> subst h <;> simp [spExParent])
    (by intro h; cases h)
    (by intro c p h; unfold spExParent at h; split at h <;> cases h <;> decide)

end KoordVerif.C12
