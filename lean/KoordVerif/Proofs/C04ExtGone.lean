import KoordVerif.Proofs.C04Inv
import KoordVerif.Proofs.C04ExtWire
/-
C04 extension (round 3): a deleted pod stays out of every set until an event or a call names it again.

The harness' release clause counts the cache's waiting / bound sets MINUS the pods whose delete event it has delivered
and that nothing has named since ("gone" pods).  On the model that subtraction is empty in every history:
`Absent q` (q in none of children / pending / waiting / bound of any cached gang) is established by the delivered
delete (`podDel_makes_absent`) and kept by every entry point that is called for another pod (`step_keeps_absent`).
-/
namespace KoordVerif.C04

/-- pod `q` is in none of the four sets -/
def PodSets.Absent (q : Pod) (g : PodSets) : Prop :=
  q ∉ g.children ∧ q ∉ g.pending ∧ q ∉ g.waiting ∧ q ∉ g.bound

instance (q : Pod) (g : PodSets) : Decidable (PodSets.Absent q g) := by
  unfold PodSets.Absent
  infer_instance

theorem absent_empty (q : Pod) : PodSets.Absent q PodSets.empty := by
  simp [PodSets.Absent, PodSets.empty]

/-- the set operations of another pod do not bring `q` in -/
theorem absent_setOps (q p : Pod) (hne : p ≠ q) (g : PodSets) (h : g.Absent q) :
    (g.setChild p false).Absent q ∧ ((g.setChild p true).addBound p).Absent q ∧ (g.addBound p).Absent q ∧
    (g.delAssumed p).Absent q ∧ (g.addAssumed p).Absent q := by
  unfold PodSets.Absent at *
  unfold PodSets.setChild PodSets.addBound PodSets.delAssumed PodSets.addAssumed
  have hne' : q ≠ p := fun e => hne e.symm
  refine ⟨?_, ?_, ?_, ?_, ?_⟩ <;> grind [mem_sIns, mem_sDel]

/-- deletePod of any pod does not bring `q` in -/
theorem absent_deletePod (q p : Pod) (g : PodSets) (h : g.Absent q) : (g.deletePod p).Absent q := by
  unfold PodSets.Absent PodSets.deletePod at *
  grind [mem_sDel]

/-- deletePod of `q` itself takes it out -/
theorem absent_deletePod_self (q : Pod) (g : PodSets) : (g.deletePod q).Absent q := by
  unfold PodSets.Absent PodSets.deletePod
  simp [mem_sDel]

/-- the pod an entry point is called for -/
def Op.pod? : Op → Option Pod
  | .podEvt p _ _ _ => some p
  | .podDel p _ => some p
  | .permit p _ => some p
  | .unreserve p _ => some p
  | .postBind p _ => some p
  | .postFilter p _ => some p
  | _ => none

theorem podEvt_absent (q : Pod) (s : State) (p : Pod) (id : GangId) (n : Bool) (anno : Option (Bool × Cfg))
    (hne : p ≠ q) (h : AllG (PodSets.Absent q) s.gangs) : AllG (PodSets.Absent q) (podEvt s p id n anno).gangs := by
  have h1 := (podEvt_pre_sim s id anno).allG (absent_empty q) h
  unfold podEvt
  simp only
  cases n with
  | false =>
    simp only [Bool.false_eq_true, if_false]
    exact allG_updGang h1 (fun g hg _ => (absent_setOps q p hne g.ps (h1 g hg)).1)
  | true =>
    simp only [if_true]
    rw [satGang_gangs]
    simp only
    rw [updGang_updGang _ id (fun g => g.setChild p true) (fun g => g.addBound p) (fun g => rfl)]
    exact allG_updGang h1 (fun g hg _ => (absent_setOps q p hne g.ps (h1 g hg)).2.1)

theorem podDel_absent (q : Pod) (s : State) (p : Pod) (id : GangId)
    (h : AllG (PodSets.Absent q) s.gangs) : AllG (PodSets.Absent q) (podDel s p id).gangs := by
  unfold podDel
  split
  · exact h
  · simp only
    have h1 : AllG (PodSets.Absent q) (updGang s.gangs id (fun g => g.deletePod p)) :=
      allG_updGang h (fun g hg _ => absent_deletePod q p g.ps (h g hg))
    split
    · exact (sim_removeGang _ _).allG (absent_empty q) h1
    · exact h1

theorem permit_absent (q : Pod) (s : State) (p : Pod) (id : GangId) (hne : p ≠ q)
    (h : AllG (PodSets.Absent q) s.gangs) : AllG (PodSets.Absent q) (permit s p id).1.gangs :=
  permit_allG (Q := fun _ p' => p' ≠ q) (fun g p' hg hp' => (absent_setOps q p' hp' g hg).2.2.2.2) s p id h
    (fun _ _ _ => hne)

theorem unreserve_absent (q : Pod) (s : State) (p : Pod) (id : GangId) (hne : p ≠ q)
    (h : AllG (PodSets.Absent q) s.gangs) : AllG (PodSets.Absent q) (unreserve s p id).1.gangs := by
  unfold unreserve
  simp only
  split
  · exact h
  · have h1 : AllG (PodSets.Absent q) (updGang (fwRemove s p).gangs id (fun g => g.delAssumed p)) :=
      allG_updGang h (fun g hg _ => (absent_setOps q p hne g.ps (h g hg)).2.2.2.1)
    split
    · simp only
      rw [rejectGroup_gangs]
      exact h1
    · exact h1

theorem postBind_absent (q : Pod) (s : State) (p : Pod) (id : GangId) (hne : p ≠ q)
    (h : AllG (PodSets.Absent q) s.gangs) : AllG (PodSets.Absent q) (postBind s p id).gangs := by
  unfold postBind
  simp only
  split
  · exact h
  · rw [satGang_gangs]
    exact allG_updGang h (fun g hg _ => (absent_setOps q p hne g.ps (h g hg)).2.2.1)

/-- every entry point that is not called for `q` keeps `q` out of every set of every cached gang -/
theorem step_keeps_absent (q : Pod) (s : State) (op : Op) (hop : op.pod? ≠ some q)
    (h : AllG (PodSets.Absent q) s.gangs) : AllG (PodSets.Absent q) (step s op).1.gangs := by
  cases op with
  | pgAdd g c => exact ((sim_ensureGang s g).trans (sim_pgApply _ g c)).allG (absent_empty q) h
  | pgUpd g c =>
    simp only [step]
    unfold pgUpd
    split
    · exact h
    · exact (sim_pgApply s g c).allG (absent_empty q) h
  | pgDel g =>
    simp only [step]
    unfold pgDel
    split
    · exact h
    · exact (sim_removeGang s _).allG (absent_empty q) h
  | podEvt p g n a => exact podEvt_absent q s p g n a (fun e => hop (by simp [Op.pod?, e])) h
  | podDel p g => exact podDel_absent q s p g h
  | permit p g => exact permit_absent q s p g (fun e => hop (by simp [Op.pod?, e])) h
  | unreserve p g => exact unreserve_absent q s p g (fun e => hop (by simp [Op.pod?, e])) h
  | postBind p g => exact postBind_absent q s p g (fun e => hop (by simp [Op.pod?, e])) h
  | postFilter p g =>
    simp only [step]
    rw [postFilter_gangs]
    exact h
  | nop => exact h

theorem run_keeps_absent (q : Pod) (ops : List Op) (s : State) (hops : ∀ op ∈ ops, op.pod? ≠ some q)
    (h : AllG (PodSets.Absent q) s.gangs) : AllG (PodSets.Absent q) (run s ops).gangs := by
  induction ops generalizing s with
  | nil => exact h
  | cons o os ih =>
    exact ih _ (fun op hop => hops op (List.mem_cons_of_mem _ hop))
      (step_keeps_absent q s o (hops o List.mem_cons_self) h)

/-- onPodDelete of `q` for its gang `id`: `q` is in no set of any gang afterwards, provided it was in no set of the
    OTHER gangs (a pod's gang does not change during its life) -/
theorem podDel_makes_absent (q : Pod) (s : State) (id : GangId)
    (hother : ∀ g ∈ s.gangs, g.id ≠ id → g.ps.Absent q) : AllG (PodSets.Absent q) (podDel s q id).gangs := by
  have h1 : AllG (PodSets.Absent q) (updGang s.gangs id (fun g => g.deletePod q)) := by
    intro g' hg'
    rcases mem_updGang hg' with ⟨g, hg, rfl⟩
    split
    · exact absent_deletePod_self q g.ps
    · next hid => exact hother g hg (by simpa using hid)
  unfold podDel
  split
  next hnone =>
    intro g hg
    apply hother g hg
    intro hid
    have := List.find?_eq_none.mp hnone g hg
    simp [hid] at this
  next =>
    simp only
    split
    · exact (sim_removeGang _ _).allG (absent_empty q) h1
    · exact h1

end KoordVerif.C04
