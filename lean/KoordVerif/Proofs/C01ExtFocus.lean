import KoordVerif.Proofs.C01ExtFinal
/-
C01 extension (schedules quantifier), part 5b: function-free evaluation of `Safe` for a run of sections that all
work on ONE group: the local view restricted to that group (`FLoc`) is a plain record, so the safety of a concrete
handler plan is a finite computation.
-/
namespace KoordVerif.C01

structure FLoc where
  ent : Option Pod
  r : Int
  np : Int
  u : Int
  nu : Int

def focus (L : Loc) (n : Nat) : FLoc := ⟨L.ent n, L.r n, L.np n, L.u n, L.nu n⟩

def Micro.grp : Micro → Nat
  | .cacheAdd n _ => n
  | .cacheRemove n _ => n
  | .setAsg n _ _ => n
  | .ghost n _ => n
  | .req n _ _ _ => n
  | .used n _ _ _ => n

def fstep (mx : Option Bool) (F : FLoc) : Micro → FLoc
  | .cacheAdd _ o =>
    match mx with
    | none => F
    | some _ => if F.ent.isSome then F else { F with ent := some (newEntry o) }
  | .cacheRemove _ _ =>
    match mx with
    | none => F
    | some _ => { F with ent := none }
  | .setAsg _ _ f => { F with ent := F.ent.map (gAsg f) }
  | .ghost _ o => { F with ent := F.ent.map (gGhost o) }
  | .req _ _ old new =>
    match mx with
    | none => F
    | some b => { F with r := F.r + dR b old new, np := F.np + dN b old new }
  | .used _ _ old new =>
    match mx with
    | none => F
    | some b => { F with u := F.u + dR b old new, nu := F.nu + dN b old new }

def fok (mx : Option Bool) (i : Nat) (F : FLoc) : Micro → Prop
  | .cacheAdd _ o => o.id = i ∧ 0 ≤ o.req ∧ (F.ent = none → F.r = 0 ∧ F.np = 0 ∧ F.u = 0 ∧ F.nu = 0)
  | .cacheRemove _ id => id = i ∧ F.r = 0 ∧ F.np = 0 ∧ F.u = 0 ∧ F.nu = 0
  | .setAsg _ id _ => id = i
  | .ghost _ o => o.id = i ∧ 0 ≤ o.req
  | .req _ id old new => id = i ∧ ∃ b, mx = some b ∧ F.ent.isSome = true ∧
      0 ≤ F.r + dR b old new ∧ 0 ≤ F.np + dN b old new
  | .used _ id old new => id = i ∧ ∃ b e, mx = some b ∧ F.ent = some e ∧ e.assigned = true ∧
      (old.isSome || new.isSome) = true ∧ 0 ≤ F.u + dR b old new ∧ 0 ≤ F.nu + dN b old new

def FSettled (F : FLoc) : Prop :=
  match F.ent with
  | some e => F.r = e.req ∧ F.np = w (fun p => p.np) e ∧ F.u = w (fun p => p.assigned) e ∧
      F.nu = w (fun p => p.assigned && p.np) e
  | none => F.r = 0 ∧ F.np = 0 ∧ F.u = 0 ∧ F.nu = 0

def FSafeRun (mx : Option Bool) (i : Nat) : FLoc → List Micro → Prop
  | _, [] => True
  | F, m :: k => fok mx i F m ∧ FSafeRun mx i (fstep mx F m) k

def frun (mx : Option Bool) : FLoc → List Micro → FLoc
  | F, [] => F
  | F, m :: k => frun mx (fstep mx F m) k

def SafeRun (st : Nat → Option Bool) (i : Nat) : Loc → List Micro → Prop
  | _, [] => True
  | L, m :: k => okStep st i L m ∧ SafeRun st i (lstep st L m) k

theorem safe_iff (st : Nat → Option Bool) (i : Nat) : ∀ (ms : List Micro) (L : Loc),
    Safe st i L ms ↔ SafeRun st i L ms ∧ LSettled (lrun st L ms)
  | [], L => by simp [Safe, SafeRun, lrun]
  | m :: k, L => by simp [Safe, SafeRun, lrun, safe_iff st i k, and_assoc]

theorem safeRun_append (st : Nat → Option Bool) (i : Nat) : ∀ (a b : List Micro) (L : Loc),
    SafeRun st i L (a ++ b) ↔ SafeRun st i L a ∧ SafeRun st i (lrun st L a) b
  | [], b, L => by simp [SafeRun, lrun]
  | m :: k, b, L => by simp [SafeRun, lrun, safeRun_append st i k b, and_assoc]

theorem lrun_append (st : Nat → Option Bool) : ∀ (a b : List Micro) (L : Loc),
    lrun st L (a ++ b) = lrun st (lrun st L a) b
  | [], _, _ => rfl
  | m :: k, b, L => by simp [lrun, lrun_append st k b]

theorem focus_lstep_same (st : Nat → Option Bool) (L : Loc) (m : Micro) :
    focus (lstep st L m) m.grp = fstep (st m.grp) (focus L m.grp) m := by
  cases m with
  | cacheAdd n o =>
    simp only [Micro.grp, lstep, fstep, focus]
    cases st n with
    | none => rfl
    | some b =>
      simp only
      by_cases h : (L.ent n).isSome = true <;> simp [h, upd]
  | cacheRemove n id =>
    simp only [Micro.grp, lstep, fstep, focus]
    cases st n <;> simp [upd]
  | setAsg n id f => simp [Micro.grp, lstep, fstep, focus, upd]
  | ghost n o => simp [Micro.grp, lstep, fstep, focus, upd]
  | req n id old new =>
    simp only [Micro.grp, lstep, fstep, focus]
    cases st n <;> simp [upd]
  | used n id old new =>
    simp only [Micro.grp, lstep, fstep, focus]
    cases st n <;> simp [upd]

theorem focus_lstep_other (st : Nat → Option Bool) (L : Loc) (m : Micro) {g : Nat} (hg : g ≠ m.grp) :
    focus (lstep st L m) g = focus L g := by
  cases m with
  | cacheAdd n o =>
    simp only [Micro.grp] at hg
    simp only [lstep, focus]
    cases st n with
    | none => rfl
    | some b =>
      simp only
      by_cases h : (L.ent n).isSome = true <;> simp [h, upd, hg]
  | cacheRemove n id =>
    simp only [Micro.grp] at hg
    simp only [lstep, focus]
    cases st n <;> simp [upd, hg]
  | setAsg n id f => simp only [Micro.grp] at hg; simp [lstep, focus, upd, hg]
  | ghost n o => simp only [Micro.grp] at hg; simp [lstep, focus, upd, hg]
  | req n id old new =>
    simp only [Micro.grp] at hg
    simp only [lstep, focus]
    cases st n <;> simp [upd, hg]
  | used n id old new =>
    simp only [Micro.grp] at hg
    simp only [lstep, focus]
    cases st n <;> simp [upd, hg]

theorem okStep_iff_fok (st : Nat → Option Bool) (i : Nat) (L : Loc) (m : Micro) :
    okStep st i L m ↔ fok (st m.grp) i (focus L m.grp) m := by
  cases m <;> simp [okStep, fok, focus, Micro.grp]

theorem safeRun_focus (st : Nat → Option Bool) (i n : Nat) : ∀ (ms : List Micro) (L : Loc),
    (∀ m ∈ ms, m.grp = n) →
    (SafeRun st i L ms ↔ FSafeRun (st n) i (focus L n) ms) ∧
    focus (lrun st L ms) n = frun (st n) (focus L n) ms ∧
    (∀ g, g ≠ n → focus (lrun st L ms) g = focus L g)
  | [], L, _ => by simp [SafeRun, FSafeRun, lrun, frun]
  | m :: k, L, hm => by
    have hmn : m.grp = n := hm m (by simp)
    have ih := safeRun_focus st i n k (lstep st L m) (fun x hx => hm x (List.mem_cons_of_mem _ hx))
    have h1 := focus_lstep_same st L m
    rw [hmn] at h1
    refine ⟨?_, ?_, ?_⟩
    · simp only [SafeRun, FSafeRun, ih.1, h1, okStep_iff_fok, hmn]
    · simp only [lrun, frun, ih.2.1, h1]
    · intro g hg
      simp only [lrun]
      rw [ih.2.2 g hg]
      exact focus_lstep_other st L m (by rw [hmn]; exact hg)

theorem lsettled_iff (L : Loc) : LSettled L ↔ ∀ g, FSettled (focus L g) := by
  simp only [LSettled, FSettled, focus]
  exact Iff.rfl

/-- a plan whose sections all work on group `n` -/
theorem safe_of_focus {st : Nat → Option Bool} {i n : Nat} {ms : List Micro} {L : Loc}
    (hgrp : ∀ m ∈ ms, m.grp = n) (h0 : LSettled L)
    (hrun : FSafeRun (st n) i (focus L n) ms) (hend : FSettled (frun (st n) (focus L n) ms)) :
    Safe st i L ms := by
  obtain ⟨a, b, c⟩ := safeRun_focus st i n ms L hgrp
  rw [safe_iff]
  refine ⟨a.mpr hrun, (lsettled_iff _).mpr (fun g => ?_)⟩
  by_cases hg : g = n
  · subst hg; rw [b]; exact hend
  · rw [c g hg]; exact (lsettled_iff L).mp h0 g

/-- a plan made of a part on group `a` followed by a part on group `b` (quota move) -/
theorem safe_of_focus2 {st : Nat → Option Bool} {i a b : Nat} {ms1 ms2 : List Micro} {L : Loc} (hab : a ≠ b)
    (hg1 : ∀ m ∈ ms1, m.grp = a) (hg2 : ∀ m ∈ ms2, m.grp = b) (h0 : LSettled L)
    (hrun1 : FSafeRun (st a) i (focus L a) ms1) (hend1 : FSettled (frun (st a) (focus L a) ms1))
    (hrun2 : FSafeRun (st b) i (focus L b) ms2) (hend2 : FSettled (frun (st b) (focus L b) ms2)) :
    Safe st i L (ms1 ++ ms2) := by
  obtain ⟨a1, b1, c1⟩ := safeRun_focus st i a ms1 L hg1
  obtain ⟨a2, b2, c2⟩ := safeRun_focus st i b ms2 (lrun st L ms1) hg2
  have hb : focus (lrun st L ms1) b = focus L b := c1 b (fun e => hab e.symm)
  rw [safe_iff, safeRun_append, lrun_append]
  refine ⟨⟨a1.mpr hrun1, a2.mpr (by rw [hb]; exact hrun2)⟩, (lsettled_iff _).mpr (fun g => ?_)⟩
  by_cases hgb : g = b
  · subst hgb; rw [b2, hb]; exact hend2
  · rw [c2 g hgb]
    by_cases hga : g = a
    · subst hga; rw [b1]; exact hend1
    · rw [c1 g hga]; exact (lsettled_iff L).mp h0 g

end KoordVerif.C01
