import KoordVerif.Proofs.C01ExtExample
/-
C01 extension (schedules quantifier), part 8: the sequential order does not matter either.
-/
namespace KoordVerif.C01

theorem progOf_perm {pool pool' : Pool} (hp : pool.Perm pool') (hn : (pool.map (·.1)).Nodup) (j : Nat) :
    progOf pool j = progOf pool' j := by
  induction hp with
  | nil => rfl
  | cons x _ ih =>
    simp only [List.map_cons, List.nodup_cons] at hn
    simp only [progOf, ih hn.2]
  | swap x y l =>
    simp only [List.map_cons, List.nodup_cons, List.mem_cons, not_or] at hn
    simp only [progOf]
    by_cases hx : x.1 = j
    · have : ¬ y.1 = j := fun e => hn.1.1 (e.trans hx.symm)
      simp [hx, this]
    · simp [hx]
  | trans h1 _ ih1 ih2 =>
    rw [ih1 hn, ih2 ((h1.map _).nodup_iff.mp hn)]

/-- two complete interleavings of two pools that hold the same threads (in any order) report the same figures -/
theorem interleaving_figures_unique' {s0 : State} {c0 : Cnts} {pool0 pool0' : Pool} (hg : CI s0 c0)
    (hn : (pool0.map (·.1)).Nodup) (hn' : (pool0'.map (·.1)).Nodup)
    (hprog : ∀ j, progOf pool0 j = progOf pool0' j)
    (hsafe : ∀ th ∈ pool0, Safe (stat s0) th.1 (localOf s0 c0 th.1) th.2)
    (hsafe' : ∀ th ∈ pool0', Safe (stat s0) th.1 (localOf s0 c0 th.1) th.2)
    {sA sB : State} {poolA poolB : Pool}
    (hA : PSteps (s0, pool0) (sA, poolA)) (hqA : Quiescent poolA)
    (hB : PSteps (s0, pool0') (sB, poolB)) (hqB : Quiescent poolB) :
    ∀ m qa qb, get? sA m = some qa → get? sB m = some qb → aggs qa = aggs qb := by
  obtain ⟨cA, hcA⟩ := pinv_steps hg hn hsafe hA
  obtain ⟨cB, hcB⟩ := pinv_steps hg hn' hsafe' hB
  have hl : ∀ j, localOf sA cA j = localOf sB cB j := fun j => by
    rw [pinv_final hcA hqA j, pinv_final hcB hqB j, hprog j]
  have hs : sA.map statN = sB.map statN := hcA.statEq.trans hcB.statEq.symm
  exact aggs_eq_of_locals hs hcA.ci hcB.ci hl

/-- pod events on distinct pods, each admissible in the start state: the atomic model reports the same figures
whatever ORDER the events are applied in -/
theorem handlers_order_independent {s0 : State} {evs evs' : List PodEv} (hg : Good s0) (hperm : evs.Perm evs')
    (hn : (evs.map PodEv.id).Nodup) (hpre : ∀ ev ∈ evs, ev.Pre s0) :
    ∀ m q q', get? (run s0 (evs.map PodEv.op)) m = some q → get? (run s0 (evs'.map PodEv.op)) m = some q' →
      aggs q = aggs q' := by
  have hn' : (evs'.map PodEv.id).Nodup := (hperm.map _).nodup_iff.mp hn
  have hpre' : ∀ ev ∈ evs', ev.Pre s0 := fun ev hev => hpre ev (hperm.mem_iff.mpr hev)
  have hseq := handlers_seq_eq hg evs [] (by simpa using hn) (by simpa using hpre)
  have hseq' := handlers_seq_eq hg evs' [] (by simpa using hn') (by simpa using hpre')
  simp only [List.map_nil, runThreads, List.foldl_nil, List.nil_append] at hseq hseq'
  have hown : ((evs.map (thr s0)).map (·.1)).Nodup := by rw [owners_thr]; exact hn
  have hown' : ((evs'.map (thr s0)).map (·.1)).Nodup := by rw [owners_thr]; exact hn'
  have := interleaving_figures_unique' (CI_of_good hg) hown hown'
    (progOf_perm (hperm.map _) hown) (safe_thr hg hpre) (safe_thr hg hpre')
    (psteps_seq _ s0) (finished_quiescent _) (psteps_seq _ s0) (finished_quiescent _)
  rw [show runThreads s0 (evs.map (thr s0)) = run s0 (evs.map PodEv.op) from hseq.symm,
    show runThreads s0 (evs'.map (thr s0)) = run s0 (evs'.map PodEv.op) from hseq'.symm] at this
  exact this

end KoordVerif.C01
