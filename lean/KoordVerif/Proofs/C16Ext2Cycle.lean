import KoordVerif.Proofs.C16Evict
/-
C16 extension 2 — one descheduling cycle (Model/C16.lean `cycle`): the sequential invariant of a phase and its
composition over Reset ; Deschedule phase ; Balance phase.
-/
namespace KoordVerif.C16

theorem pxSeq_length (lim : Option Caps) (dry : Bool) (ops : List (Pod × Bool)) :
    ∀ s, (pxSeq lim dry s ops).2.length = ops.length := by
  induction ops with
  | nil => intro s; rfl
  | cons a r ih => intro s; obtain ⟨p, ok⟩ := a; simp [pxSeq, ih]

theorem issuedOf_append : ∀ (o1 : List (Pod × Bool)) (r1 : List EvOut) (o2 : List (Pod × Bool)) (r2 : List EvOut),
    o1.length = r1.length → issuedOf (o1 ++ o2) (r1 ++ r2) = issuedOf o1 r1 ++ issuedOf o2 r2 := by
  intro o1
  induction o1 with
  | nil =>
    intro r1 o2 r2 h
    cases r1 with
    | nil => simp [issuedOf]
    | cons _ _ => simp at h
  | cons a r ih =>
    intro r1 o2 r2 h
    cases r1 with
    | nil => simp at h
    | cons o os =>
      obtain ⟨p, ok⟩ := a
      simp only [List.length_cons, Nat.add_right_cancel_iff] at h
      simp only [List.cons_append, issuedOf, ih os o2 r2 h]
      split <;> simp

theorem issuedBy_append (f : Pod → Nat) (a b : List Pod) (k : Nat) :
    issuedBy f (a ++ b) k = issuedBy f a k + issuedBy f b k := by
  simp [issuedBy, List.filter_append]

/-- a phase keeps "counters = issued, within the caps": the evictions it issues are added on both sides -/
theorem pxSeq_good (caps : Caps) (ops : List (Pod × Bool)) :
    ∀ (s : Ctr) (iss : List Pod), Good caps s iss →
      ∃ iss', Good caps (pxSeq (some caps) false s ops).1 iss' ∧
        (∀ f k, issuedBy f iss' k = issuedBy f iss k + issuedBy f (issuedOf ops (pxSeq (some caps) false s ops).2) k) ∧
        iss'.length = iss.length + (issuedOf ops (pxSeq (some caps) false s ops).2).length := by
  induction ops with
  | nil => intro s iss g; exact ⟨iss, g, by simp [pxSeq, issuedOf, issuedBy], by simp [pxSeq, issuedOf]⟩
  | cons a r ih =>
    intro s iss g
    obtain ⟨p, ok⟩ := a
    by_cases hr : elRefuse caps s p = true
    · obtain ⟨iss', g', h1, h2⟩ := ih s iss g
      refine ⟨iss', ?_, ?_, ?_⟩ <;> simp_all [pxSeq, pxEvict, issuedOf]
    · have hr' : elRefuse caps s p = false := by simpa using hr
      cases ok with
      | false =>
        obtain ⟨iss', g', h1, h2⟩ := ih s iss g
        refine ⟨iss', ?_, ?_, ?_⟩ <;> simp_all [pxSeq, pxEvict, issuedOf]
      | true =>
        obtain ⟨iss', g', h1, h2⟩ := ih (count s p) (p :: iss) (good_count (elRefuse_ok caps) g hr')
        refine ⟨iss', ?_, ?_, ?_⟩
        · simpa [pxSeq, pxEvict, hr'] using g'
        · intro f k
          have := h1 f k
          simp only [pxSeq, pxEvict, hr', issuedOf] at this ⊢
          simp only [Bool.false_eq_true, if_false, Bool.not_true, Bool.and_self, if_true] at this ⊢
          rw [this, issuedBy_cons, issuedBy_cons]; omega
        · simp only [pxSeq, pxEvict, hr', issuedOf] at h2 ⊢
          simp only [Bool.false_eq_true, if_false, Bool.not_true, Bool.and_self, if_true, List.length_cons] at h2 ⊢
          omega

end KoordVerif.C16
