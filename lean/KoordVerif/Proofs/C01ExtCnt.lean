import KoordVerif.Proofs.C01ExtEqs
/-
C01 extension (schedules quantifier), part 2: the invariant that holds BETWEEN the separately locked sections of
concurrently running pod handlers, and its preservation by each kind of section.

`CI s c`: topology / parameters / unique cache ids as in `Good`; every tree equation holds (`ReqEqs`, `UsedEqs`);
and the self figures of every group are the sums, over its cached pods, of per-pod COUNTED amounts `c`
(`c.r m i` = how much of pod i is currently included in selfRequest of group m, likewise non-preemptible request,
used, non-preemptible used), all counted amounts >= 0.  A pod is `Settled` when its counted amounts are exactly
what its cache entry says (request of the object delivered last; used iff flagged assigned); a handler in flight
has its own pod unsettled between its sections, nobody else's.  All pods settled <=> `Good` (the quiescent invariant).
-/
namespace KoordVerif.C01

/-! ### sums of counted amounts over a cache list -/

def cntSum (c : Nat → Int) : List Pod → Int
  | [] => 0
  | p :: t => c p.id + cntSum c t

theorem cntSum_nonneg {c : Nat → Int} (hc : ∀ j, 0 ≤ c j) (ps : List Pod) : 0 ≤ cntSum c ps := by
  induction ps with
  | nil => simp [cntSum]
  | cons p t ih => simp only [cntSum]; have := hc p.id; omega

theorem cntSum_ge {c : Nat → Int} (hc : ∀ j, 0 ≤ c j) {ps : List Pod} {i : Nat} {e : Pod}
    (he : getPod ps i = some e) : c i ≤ cntSum c ps := by
  induction ps with
  | nil => simp [getPod] at he
  | cons p t ih =>
    simp only [getPod] at he
    simp only [cntSum]
    have h1 := cntSum_nonneg hc t
    by_cases hp : p.id = i
    · rw [hp]; omega
    · simp only [hp, if_false] at he
      have := ih he; have := hc p.id; omega

theorem cntSum_filter_zero {c : Nat → Int} {i : Nat} (hz : c i = 0) (ps : List Pod) :
    cntSum c (ps.filter (fun p => p.id != i)) = cntSum c ps := by
  induction ps with
  | nil => rfl
  | cons p t ih =>
    by_cases hp : p.id = i
    · simp [List.filter_cons, hp, cntSum, ih, hz]
    · have hb : (p.id != i) = true := by simp [hp]
      simp [List.filter_cons, hb, cntSum, ih]

theorem cntSum_updPods (c : Nat → Int) {g : Pod → Pod} (hg : ∀ p, (g p).id = p.id) (i : Nat) (ps : List Pod) :
    cntSum c (updPods g i ps) = cntSum c ps := by
  induction ps with
  | nil => rfl
  | cons p t ih =>
    simp only [updPods] at ih
    simp only [updPods, List.map_cons, cntSum, ih]
    by_cases hp : p.id = i <;> simp [hp, hg]

theorem cntSum_congr {c c' : Nat → Int} {ps : List Pod} (h : ∀ p ∈ ps, c' p.id = c p.id) :
    cntSum c' ps = cntSum c ps := by
  induction ps with
  | nil => rfl
  | cons p t ih =>
    simp only [cntSum]
    rw [h p (by simp), ih (fun x hx => h x (List.mem_cons_of_mem _ hx))]

theorem cntSum_update {c : Nat → Int} {ps : List Pod} {i : Nat} {e : Pod} (x : Int)
    (hn : (ps.map (·.id)).Nodup) (he : getPod ps i = some e) :
    cntSum (fun j => if j = i then x else c j) ps = cntSum c ps - c i + x := by
  induction ps with
  | nil => simp [getPod] at he
  | cons p t ih =>
    simp only [List.map_cons, List.nodup_cons] at hn
    simp only [getPod] at he
    simp only [cntSum]
    by_cases hp : p.id = i
    · have hnone : ∀ y ∈ t, (fun j => if j = i then x else c j) y.id = c y.id := by
        intro y hy
        have : y.id ≠ i := fun e' => hn.1 (by rw [hp, ← e']; exact List.mem_map.mpr ⟨y, hy, rfl⟩)
        simp [this]
      rw [cntSum_congr hnone]
      simp [hp]; omega
    · simp only [hp, if_false] at he
      rw [ih hn.2 he]
      simp [hp]; omega

theorem cntSum_eq_podSum {c : Nat → Int} (f : Pod → Bool) {ps : List Pod} (h : ∀ p ∈ ps, c p.id = w f p) :
    cntSum c ps = podSum f ps := by
  induction ps with
  | nil => rfl
  | cons p t ih =>
    simp only [cntSum, podSum_cons]
    rw [h p (by simp), ih (fun x hx => h x (List.mem_cons_of_mem _ hx))]

theorem getPod_of_mem {ps : List Pod} (hn : (ps.map (·.id)).Nodup) {p : Pod} (hp : p ∈ ps) : getPod ps p.id = some p := by
  cases hg : getPod ps p.id with
  | none => exact absurd rfl (getPod_none_iff.mp hg p hp)
  | some e =>
    have h1 := getPod_some hg
    rw [pod_unique ps hn hp h1.1 h1.2.symm]

theorem getPod_filter (i j : Nat) (ps : List Pod) :
    getPod (ps.filter (fun p => p.id != i)) j = if j = i then none else getPod ps j := by
  induction ps with
  | nil => simp [getPod]
  | cons p t ih =>
    by_cases hp : p.id = i
    · simp only [List.filter_cons, hp, bne_self_eq_false, Bool.false_eq_true, if_false, ih, getPod]
      by_cases hj : j = i
      · simp [hj]
      · have : ¬ i = j := fun e => hj e.symm
        simp [hj, this]
    · have hb : (p.id != i) = true := by simp [hp]
      simp only [List.filter_cons, hb, if_true, getPod, ih]
      by_cases hpj : p.id = j
      · have : ¬ j = i := fun e => hp (hpj.trans e)
        simp [hpj, this]
      · simp [hpj]

theorem getPod_updPods' {g : Pod → Pod} (hg : ∀ p, (g p).id = p.id) (i j : Nat) (ps : List Pod) :
    getPod (updPods g i ps) j = if j = i then (getPod ps i).map g else getPod ps j := by
  induction ps with
  | nil => simp [updPods, getPod]
  | cons p t ih =>
    simp only [updPods] at ih
    by_cases hp : p.id = i
    · by_cases hj : j = i
      · subst hj; simp [updPods, getPod, hp, hg]
      · have : ¬ i = j := fun e => hj e.symm
        simp [updPods, getPod, hp, hg, hj, this, ih]
    · by_cases hj : j = i
      · subst hj; simp [updPods, getPod, hp, ih]
      · simp [updPods, getPod, hp, hj, ih]

/-! ### the own-pod view -/

/-- cache entry of pod `id` in group `n` -/
def entry (s : State) (n id : Nat) : Option Pod :=
  match get? s n with
  | none => none
  | some q => getPod q.pods id

theorem entry_setPods {s : State} {n : Nat} {q : Quota} (ps' : List Pod) (hq : get? s n = some q) (m j : Nat) :
    entry (set s { q with pods := ps' }) m j = if m = n then getPod ps' j else entry s m j := by
  have hqn := get?_name hq
  have hq' : get? s ({ q with pods := ps' } : Quota).name = some q := by simpa [hqn] using hq
  unfold entry
  rw [get?_set hq' m]
  by_cases hm : m = n
  · simp [hm, hqn]
  · have : ¬ m = q.name := by rw [hqn]; exact hm
    simp [hm, this]

theorem entry_of_map {s s' : State}
    (h : s'.map (fun q => (q.name, q.pods)) = s.map (fun q => (q.name, q.pods))) (m j : Nat) :
    entry s' m j = entry s m j := by
  simp only [entry]
  cases hq : get? s m with
  | none => rw [get?_none_of_map (·.pods) m s' s h hq]
  | some q =>
    obtain ⟨q', hq', hp⟩ := get?_of_map (·.pods) m s' s h q hq
    rw [hq']; simp [hp]

/-! ### counted amounts -/

structure Cnts where
  r : Nat → Nat → Int
  np : Nat → Nat → Int
  u : Nat → Nat → Int
  nu : Nat → Nat → Int

def upd2 (f : Nat → Nat → Int) (n i : Nat) (x : Int) : Nat → Nat → Int :=
  fun m j => if m = n then (if j = i then x else f m j) else f m j

def Cnts.addR (c : Cnts) (n i : Nat) (d dnp : Int) : Cnts :=
  { c with r := upd2 c.r n i (c.r n i + d), np := upd2 c.np n i (c.np n i + dnp) }

def Cnts.addU (c : Cnts) (n i : Nat) (d dnp : Int) : Cnts :=
  { c with u := upd2 c.u n i (c.u n i + d), nu := upd2 c.nu n i (c.nu n i + dnp) }

theorem upd2_other {f : Nat → Nat → Int} {n i : Nat} {x : Int} {m : Nat} (hm : m ≠ n) : upd2 f n i x m = f m := by
  funext j; simp [upd2, hm]

theorem upd2_same (f : Nat → Nat → Int) (n i : Nat) (x : Int) :
    upd2 f n i x n = fun j => if j = i then x else f n j := by
  funext j; simp [upd2]

structure CI (s : State) (c : Cnts) : Prop where
  topo : Topo s
  params : ParamsOK s
  pods : PodsOK s
  req : ReqEqs s
  used : UsedEqs s
  self : ∀ m q, get? s m = some q →
    q.selfRequest = cntSum (c.r m) q.pods ∧ q.selfNpRequest = cntSum (c.np m) q.pods ∧
    q.selfUsed = cntSum (c.u m) q.pods ∧ q.selfNpUsed = cntSum (c.nu m) q.pods
  nonneg : ∀ m i, 0 ≤ c.r m i ∧ 0 ≤ c.np m i ∧ 0 ≤ c.u m i ∧ 0 ≤ c.nu m i

/-- the counted amounts of pod `i` in group `m` are exactly what its cache entry says -/
def Settled (s : State) (c : Cnts) (m i : Nat) : Prop :=
  match entry s m i with
  | some e => c.r m i = e.req ∧ c.np m i = w (fun p => p.np) e ∧ c.u m i = w (fun p => p.assigned) e ∧
      c.nu m i = w (fun p => p.assigned && p.np) e
  | none => c.r m i = 0 ∧ c.np m i = 0 ∧ c.u m i = 0 ∧ c.nu m i = 0

/-- the counted amounts read off the cache -/
def cntOf (s : State) : Cnts where
  r m i := match entry s m i with | some e => e.req | none => 0
  np m i := match entry s m i with | some e => w (fun p => p.np) e | none => 0
  u m i := match entry s m i with | some e => w (fun p => p.assigned) e | none => 0
  nu m i := match entry s m i with | some e => w (fun p => p.assigned && p.np) e | none => 0

theorem settled_cntOf (s : State) (m i : Nat) : Settled s (cntOf s) m i := by
  simp only [Settled, cntOf]
  cases entry s m i <;> simp

theorem w_nonneg (f : Pod → Bool) {e : Pod} (h : 0 ≤ e.req) : 0 ≤ w f e := by
  unfold w; split <;> omega

/-- all pods settled: the self figures are the pod sums -/
theorem self_of_settled {s : State} {c : Cnts} (h : CI s c) (hs : ∀ m i, Settled s c m i) {m : Nat} {q : Quota}
    (hq : get? s m = some q) :
    q.selfRequest = podSum (fun _ => true) q.pods ∧ q.selfNpRequest = podSum (fun p => p.np) q.pods ∧
    q.selfUsed = podSum (fun p => p.assigned) q.pods ∧ q.selfNpUsed = podSum (fun p => p.assigned && p.np) q.pods := by
  obtain ⟨a1, a2, a3, a4⟩ := h.self m q hq
  have hnd := h.pods q (get?_mem hq)
  have key : ∀ p ∈ q.pods, c.r m p.id = p.req ∧ c.np m p.id = w (fun p => p.np) p ∧
      c.u m p.id = w (fun p => p.assigned) p ∧ c.nu m p.id = w (fun p => p.assigned && p.np) p := by
    intro p hp
    have := hs m p.id
    simp only [Settled, entry, hq, getPod_of_mem hnd hp] at this
    exact this
  refine ⟨?_, ?_, ?_, ?_⟩
  · rw [a1]; exact cntSum_eq_podSum _ (fun p hp => by rw [(key p hp).1]; simp [w])
  · rw [a2]; exact cntSum_eq_podSum _ (fun p hp => (key p hp).2.1)
  · rw [a3]; exact cntSum_eq_podSum _ (fun p hp => (key p hp).2.2.1)
  · rw [a4]; exact cntSum_eq_podSum _ (fun p hp => (key p hp).2.2.2)

theorem good_of_CI {s : State} {c : Cnts} (h : CI s c) (hs : ∀ m i, Settled s c m i) : Good s := by
  refine ⟨h.topo, h.params, h.pods, ?_, ?_⟩
  · intro m q hq
    obtain ⟨b1, b2, _, _⟩ := self_of_settled h hs hq
    obtain ⟨_, _, e1, e2, e3⟩ := h.req m q hq
    exact ⟨by simpa using b1, by simpa using b2, e1, e2, e3⟩
  · intro m q hq
    obtain ⟨_, _, b3, b4⟩ := self_of_settled h hs hq
    obtain ⟨_, _, e1, e2⟩ := h.used m q hq
    exact ⟨by simpa using b3, by simpa using b4, e1, e2⟩

theorem CI_of_good {s : State} (h : Good s) : CI s (cntOf s) := by
  have hl := good_localInv h
  have hnnp : ∀ m i, ∀ e, entry s m i = some e → 0 ≤ e.req := by
    intro m i e he
    simp only [entry] at he
    cases hq : get? s m with
    | none => simp [hq] at he
    | some q =>
      simp only [hq] at he
      exact (h.params q (get?_mem hq)).2 e (getPod_some he).1
  have hkey : ∀ m q, get? s m = some q → ∀ p ∈ q.pods, entry s m p.id = some p := by
    intro m q hq p hp
    simp only [entry, hq]
    exact getPod_of_mem (h.pods q (get?_mem hq)) hp
  refine ⟨h.topo, h.params, h.pods, ?_, ?_, ?_, ?_⟩
  · intro m q hq
    have r := hl.1 m q hq
    have hp := (h.params q (get?_mem hq)).2
    exact ⟨by rw [r.selfReq]; exact podSum_nonneg _ _ hp, by rw [r.selfNpReq]; exact podSum_nonneg _ _ hp,
      r.cr, r.npReq, r.rule⟩
  · intro m q hq
    have u := hl.2 m q hq
    have hp := (h.params q (get?_mem hq)).2
    exact ⟨by rw [u.selfUsed]; exact podSum_nonneg _ _ hp, by rw [u.selfNpUsed]; exact podSum_nonneg _ _ hp,
      u.used, u.npUsed⟩
  · intro m q hq
    have r := hl.1 m q hq
    have u := hl.2 m q hq
    refine ⟨?_, ?_, ?_, ?_⟩
    · rw [r.selfReq]; symm
      exact cntSum_eq_podSum _ (fun p hp => by simp [cntOf, hkey m q hq p hp, w])
    · rw [r.selfNpReq]; symm
      exact cntSum_eq_podSum _ (fun p hp => by simp [cntOf, hkey m q hq p hp])
    · rw [u.selfUsed]; symm
      exact cntSum_eq_podSum _ (fun p hp => by simp [cntOf, hkey m q hq p hp])
    · rw [u.selfNpUsed]; symm
      exact cntSum_eq_podSum _ (fun p hp => by simp [cntOf, hkey m q hq p hp])
  · intro m i
    simp only [cntOf]
    cases he : entry s m i with
    | none => simp
    | some e =>
      have := hnnp m i e he
      exact ⟨this, w_nonneg _ this, w_nonneg _ this, w_nonneg _ this⟩

/-! ### static data -/

/-- what no pod handler ever changes -/
def statN (q : Quota) : Nat × Nat × Bool × Int × Option Int := (q.name, q.parent, q.lend, q.min, q.max)

/-- does group `n` exist, and does it declare the dimension -/
def stat (s : State) (n : Nat) : Option Bool :=
  match get? s n with
  | none => none
  | some q => some q.max.isSome

theorem tree_of_statN {s s' : State} (h : s'.map statN = s.map statN) : tree s' = tree s := by
  have := congrArg (List.map (fun (e : Nat × Nat × Bool × Int × Option Int) => (e.1, e.2.1))) h
  simpa [List.map_map, Function.comp_def, statN, tree] using this

theorem stat_of_statN {s s' : State} (h : s'.map statN = s.map statN) : stat s' = stat s := by
  funext n
  have h' : s'.map (fun q => (q.name, q.max)) = s.map (fun q => (q.name, q.max)) := by
    have := congrArg (List.map (fun (e : Nat × Nat × Bool × Int × Option Int) => (e.1, e.2.2.2.2))) h
    simpa [List.map_map, Function.comp_def, statN] using this
  simp only [stat]
  cases hq : get? s n with
  | none => rw [get?_none_of_map (·.max) n s' s h' hq]
  | some q =>
    obtain ⟨q', hq', hp⟩ := get?_of_map (·.max) n s' s h' q hq
    rw [hq']; simp [hp]

/-! ### the sections that only touch the cache -/

theorem setPods_CI {s : State} {c : Cnts} {n : Nat} {q : Quota} (ps' : List Pod)
    (h : CI s c) (hq : get? s n = some q)
    (hnn : ∀ p ∈ ps', 0 ≤ p.req) (hnd : (ps'.map (·.id)).Nodup)
    (hs : cntSum (c.r n) ps' = cntSum (c.r n) q.pods ∧ cntSum (c.np n) ps' = cntSum (c.np n) q.pods ∧
      cntSum (c.u n) ps' = cntSum (c.u n) q.pods ∧ cntSum (c.nu n) ps' = cntSum (c.nu n) q.pods) :
    CI (set s { q with pods := ps' }) c ∧ (set s { q with pods := ps' }).map statN = s.map statN := by
  have hqn := get?_name hq
  have hq' : get? s ({ q with pods := ps' } : Quota).name = some q := by simpa [hqn] using hq
  have hget := get?_set hq'
  have htree : tree (set s { q with pods := ps' }) = tree s := tree_set hq' rfl
  refine ⟨⟨topo_congr htree h.topo, ?_, ?_, ?_, ?_, ?_, h.nonneg⟩, set_map _ hq' rfl⟩
  · intro x hx
    rcases mem_set hx with e | e
    · subst e; exact ⟨(h.params q (get?_mem hq)).1, hnn⟩
    · exact h.params x e
  · intro x hx
    rcases mem_set hx with e | e
    · subst e; exact hnd
    · exact h.pods x e
  · exact reqEqs_of_map (set_map _ hq' rfl) h.req
  · exact usedEqs_of_map (set_map _ hq' rfl) h.used
  · intro m q0 h0
    rw [hget m] at h0
    by_cases hm : m = n
    · simp only [hm, hqn, if_true, Option.some.injEq] at h0
      subst h0
      subst hm
      obtain ⟨a1, a2, a3, a4⟩ := h.self m q hq
      simp only
      exact ⟨by rw [hs.1]; exact a1, by rw [hs.2.1]; exact a2, by rw [hs.2.2.1]; exact a3, by rw [hs.2.2.2]; exact a4⟩
    · have : ¬ m = ({ q with pods := ps' } : Quota).name := by simpa [hqn] using hm
      simp only [this, if_false] at h0
      exact h.self m q0 h0

end KoordVerif.C01
