import KoordVerif.Props.C10
/- development file for the C10 extension; content is moved into Props/C10.lean once it builds. -/
namespace KoordVerif.C10

/-! ### 9. pod lifecycle: every pod still in the list counts -/

/-- overwrite the lifecycle state of a pod (deletionTimestamp / phase), nothing else. -/
def setLife (g : PodC → Int) (p : PodC) : PodC := { p with life := g p }

theorem poolOf_life (g : PodC → Int) (pods : List PodC) (c : Int) : poolOf (pods.map (setLife g)) c = poolOf pods c := by
  unfold poolOf
  rw [List.foldl_map]
  rfl

theorem lseClaimed_life (g : PodC → Int) (pods : List PodC) (c : Int) :
    lseClaimed (pods.map (setLife g)) c = lseClaimed pods c := by
  unfold lseClaimed
  rw [List.any_map]
  rfl

theorem calcBESet_life (g : PodC → Int) (procs : List Proc) (pods : List PodC) (res sys : List Int) :
    calcBESet procs (pods.map (setLife g)) res sys = calcBESet procs pods res sys := by
  unfold calcBESet
  simp only [lseClaimed_life]

theorem pools_life (g : PodC → Int) (procs : List Proc) (pods : List PodC) (res sys : List Int) :
    lsrPool (pods.map (setLife g)) res sys procs = lsrPool pods res sys procs ∧
    lsPool (pods.map (setLife g)) res sys procs = lsPool pods res sys procs := by
  unfold lsrPool lsPool
  simp only [poolOf_life]
  exact ⟨rfl, rfl⟩

/-- the BE cpuset of both paths does not depend on any pod's lifecycle state: a pod in graceful
    termination, Pending, Succeeded or Failed that is still in the pod list protects its CPUs
    exactly like a running one. -/
theorem life_irrelevant (f : FloatOps) (kp : Int) (topoNil : Bool) (b : Int) (oldN : Nat) (procs : List Proc)
    (pods : List PodC) (res sys : List Int) (g : PodC → Int) :
    adjustFull f kp topoNil b oldN procs (pods.map (setLife g)) res sys = adjustFull f kp topoNil b oldN procs pods res sys ∧
    adjustCPUSet f b oldN procs (pods.map (setLife g)) res sys = adjustCPUSet f b oldN procs pods res sys ∧
    calcBESet procs (pods.map (setLife g)) res sys = calcBESet procs pods res sys := by
  obtain ⟨h1, h2⟩ := pools_life g procs pods res sys
  have h3 := calcBESet_life g procs pods res sys
  have h4 : adjustCPUSet f b oldN procs (pods.map (setLife g)) res sys = adjustCPUSet f b oldN procs pods res sys := by
    unfold adjustCPUSet
    simp only [h1, h2]
  refine ⟨?_, h4, h3⟩
  unfold adjustFull
  simp only [h1, h2, h3, h4]

/-! ### 10. the recover path (calcBECPUSet) and its agreement with the suppress path -/

/-- a CPU's pool class is the class of some valid pod naming it (or none). -/
theorem poolOf_claimed (pods : List PodC) (c : Int) (h : poolOf pods c ≠ qNone) :
    ∃ p ∈ pods, p.valid = true ∧ p.qos = poolOf pods c ∧ c ∈ p.cpus := by
  unfold poolOf at h ⊢
  have key : ∀ (l : List PodC) (acc : Int),
      l.foldl (fun acc p => if p.valid && p.cpus.contains c then p.qos else acc) acc = acc ∨
      ∃ p ∈ l, p.valid = true ∧
        p.qos = l.foldl (fun acc p => if p.valid && p.cpus.contains c then p.qos else acc) acc ∧ c ∈ p.cpus := by
    intro l
    induction l with
    | nil => intro acc; left; rfl
    | cons p ps ih =>
      intro acc
      simp only [List.foldl_cons]
      by_cases hm : (p.valid && p.cpus.contains c) = true
      · simp only [hm, if_true]
        rcases ih p.qos with h' | ⟨p', hp', hv, hq, hc⟩
        · right
          simp only [Bool.and_eq_true, List.contains_iff_mem] at hm
          exact ⟨p, by simp, hm.1, h'.symm, hm.2⟩
        · right; exact ⟨p', List.mem_cons_of_mem _ hp', hv, hq, hc⟩
      · simp only [hm]
        rcases ih acc with h' | ⟨p', hp', hv, hq, hc⟩
        · left; simpa using h'
        · right; exact ⟨p', List.mem_cons_of_mem _ hp', hv, by simpa using hq, hc⟩
  rcases key pods qNone with h' | h'
  · exact absurd h' h
  · exact h'

theorem lseClaimed_iff (pods : List PodC) (c : Int) :
    lseClaimed pods c = true ↔ ∃ p ∈ pods, p.valid = true ∧ p.qos = qLSE ∧ c ∈ p.cpus := by
  unfold lseClaimed
  simp only [List.any_eq_true, Bool.and_eq_true, beq_iff_eq, List.contains_iff_mem]
  constructor
  · rintro ⟨p, hp, ⟨hv, hq⟩, hc⟩; exact ⟨p, hp, hv, hq, hc⟩
  · rintro ⟨p, hp, hv, hq, hc⟩; exact ⟨p, hp, ⟨hv, hq⟩, hc⟩

/-- the suppress path's LSE pool is contained in what the recover path protects. -/
theorem poolOf_lse_claimed (pods : List PodC) (c : Int) (h : poolOf pods c = qLSE) : lseClaimed pods c = true := by
  have hne : poolOf pods c ≠ qNone := by rw [h]; decide
  obtain ⟨p, hp, hv, hq, hc⟩ := poolOf_claimed pods c hne
  exact (lseClaimed_iff pods c).mpr ⟨p, hp, hv, hq.trans h, hc⟩

/-- no CPU is named both by a valid LSE pod and by a valid pod of another class. -/
def Unamb (pods : List PodC) : Prop :=
  ∀ c, lseClaimed pods c = true → ∀ q ∈ pods, q.valid = true → c ∈ q.cpus → q.qos = qLSE

theorem mem_calcBESet {procs : List Proc} {pods : List PodC} {res sys : List Int} {c : Int} :
    c ∈ calcBESet procs pods res sys ↔ c ∈ cpusOf procs ∧ c ∉ res ∧ c ∉ sys ∧ lseClaimed pods c = false := by
  unfold calcBESet
  simp only [List.mem_filter, Bool.not_eq_true', Bool.or_eq_false_iff, List.contains_eq_mem, decide_eq_false_iff_not]
  constructor
  · rintro ⟨h1, ⟨h2, h3⟩, h4⟩; exact ⟨h1, h3, h2, h4⟩
  · rintro ⟨h1, h2, h3, h4⟩; exact ⟨h1, ⟨h3, h2⟩, h4⟩

/-- the recover path's BE cpuset: existing CPUs, none reserved / system-exclusive, none named by ANY
    valid LSE pod of the list (whatever its lifecycle state), and nothing else is left out. -/
theorem recover_sound (procs : List Proc) (pods : List PodC) (res sys : List Int) (hnd : (cpusOf procs).Nodup) :
    (calcBESet procs pods res sys).Nodup ∧
    ∀ c, c ∈ calcBESet procs pods res sys ↔
      (c ∈ cpusOf procs ∧ c ∉ res ∧ c ∉ sys ∧ ∀ p ∈ pods, p.valid = true → p.qos = qLSE → c ∉ p.cpus) := by
  refine ⟨List.Nodup.sublist List.filter_sublist hnd, fun c => ?_⟩
  rw [mem_calcBESet]
  have : lseClaimed pods c = false ↔ ∀ p ∈ pods, p.valid = true → p.qos = qLSE → c ∉ p.cpus := by
    rw [← Bool.not_eq_true, lseClaimed_iff]
    constructor
    · intro h p hp hv hq hc; exact h ⟨p, hp, hv, hq, hc⟩
    · rintro h ⟨p, hp, hv, hq, hc⟩; exact h p hp hv hq hc
  rw [this]

theorem mem_pools_iff {pods : List PodC} {res sys : List Int} {procs : List Proc} {c : Int} :
    (c ∈ cpusOf (lsrPool pods res sys procs) ∨ c ∈ cpusOf (lsPool pods res sys procs)) ↔
      (c ∈ cpusOf procs ∧ c ∉ res ∧ c ∉ sys ∧ poolOf pods c ≠ qLSE) := by
  constructor
  · rintro (h | h)
    · obtain ⟨m1, m2, m3, m4⟩ := mem_lsrPool h
      exact ⟨m1, m2, m3, by rw [m4]; decide⟩
    · obtain ⟨m1, m2, m3, _, m5⟩ := mem_lsPool h
      exact ⟨m1, m2, m3, m5⟩
  · rintro ⟨h1, h2, h3, h4⟩
    obtain ⟨p, hp, rfl⟩ := List.mem_map.mp h1
    by_cases hq : poolOf pods p.cpu = qLSR
    · left
      refine List.mem_map.mpr ⟨p, List.mem_filter.mpr ⟨hp, ?_⟩, rfl⟩
      simp [eligible, h2, h3, hq]
    · right
      refine List.mem_map.mpr ⟨p, List.mem_filter.mpr ⟨hp, ?_⟩, rfl⟩
      simp [eligible, h2, h3, hq, h4]

/-- the recover path never offers a CPU the suppress path considers ineligible … -/
theorem recover_subset_eligible (procs : List Proc) (pods : List PodC) (res sys : List Int) (c : Int)
    (h : c ∈ calcBESet procs pods res sys) :
    c ∈ cpusOf (lsrPool pods res sys procs) ∨ c ∈ cpusOf (lsPool pods res sys procs) := by
  obtain ⟨h1, h2, h3, h4⟩ := mem_calcBESet.mp h
  refine mem_pools_iff.mpr ⟨h1, h2, h3, fun hq => ?_⟩
  rw [poolOf_lse_claimed pods c hq] at h4
  cases h4

/-- … and when no CPU is named by an LSE pod and a pod of another class, the two paths agree exactly
    on which CPUs best-effort pods may get. -/
theorem paths_agree (procs : List Proc) (pods : List PodC) (res sys : List Int) (hun : Unamb pods) (c : Int) :
    c ∈ calcBESet procs pods res sys ↔
      (c ∈ cpusOf (lsrPool pods res sys procs) ∨ c ∈ cpusOf (lsPool pods res sys procs)) := by
  refine ⟨recover_subset_eligible procs pods res sys c, fun h => ?_⟩
  obtain ⟨h1, h2, h3, h4⟩ := mem_pools_iff.mp h
  refine mem_calcBESet.mpr ⟨h1, h2, h3, ?_⟩
  cases hcl : lseClaimed pods c
  · rfl
  · exfalso
    apply h4
    exact exclusively_lse pods c ((lseClaimed_iff pods c).mp hcl) (hun c hcl)

/-- whatever adjustByCPUSet writes lies inside calcBECPUSet's set (unambiguous ownership). -/
theorem written_subset_recover (f : FloatOps) (hf : FloatOK f) (b : Int) (oldN : Nat) (procs : List Proc) (pods : List PodC)
    (res sys cs : List Int) (hnd : (cpusOf procs).Nodup) (hun : Unamb pods)
    (hw : adjustCPUSet f b oldN procs pods res sys = .write cs) : ∀ c ∈ cs, c ∈ calcBESet procs pods res sys := by
  intro c hc
  obtain ⟨m1, m2, m3, m4⟩ := (written_sound f hf b oldN procs pods res sys cs hnd hw).2.1 c hc
  exact (paths_agree procs pods res sys hun c).mpr (mem_pools_iff.mpr ⟨m1, m2, m3, m4⟩)

/-! ### 11. topology object missing, kubelet CPU-manager policy -/

theorem adjustFull_no_panic (f : FloatOps) (kp : Int) (topoNil : Bool) (b : Int) (oldN : Nat) (procs : List Proc)
    (pods : List PodC) (res sys : List Int) : adjustFull f kp topoNil b oldN procs pods res sys ≠ none := by
  have hp := total_no_panic f b oldN procs pods res sys
  unfold adjustFull
  split
  · simp
  · split
    · simp
    · split
      · contradiction
      · split <;> simp
      · (repeat' split) <;> simp

/-- policy none (or no policy annotation): every level receives exactly what `adjustCPUSet` selects,
    so all theorems of 5.–7. speak about the files. -/
theorem adjustFull_none (f : FloatOps) (b : Int) (oldN : Nat) (procs : List Proc) (pods : List PodC) (res sys : List Int) :
    adjustFull f kpNone false b oldN procs pods res sys =
      match adjustCPUSet f b oldN procs pods res sys with
      | .panic => none
      | .untouched => some .nothing
      | .write cs => some ⟨some cs, some cs, some cs⟩ := by
  unfold adjustFull
  simp only [Bool.false_eq_true, if_false]
  split
  · rename_i h0
    rw [none_eligible_untouched f b oldN procs pods res sys h0]
  · split <;> simp [kpNone, kpStatic, kpBad]

/-- no topology object, or an unreadable kubelet-policy annotation: nothing is written. -/
theorem cannot_act_untouched (f : FloatOps) (kp : Int) (topoNil : Bool) (b : Int) (oldN : Nat) (procs : List Proc)
    (pods : List PodC) (res sys : List Int) (h : topoNil = true ∨ kp = kpBad) :
    adjustFull f kp topoNil b oldN procs pods res sys = some .nothing := by
  have hp := total_no_panic f b oldN procs pods res sys
  unfold adjustFull
  split
  · rfl
  · rename_i ht
    have hk : kp = kpBad := by
      rcases h with h | h
      · exact absurd h ht
      · exact h
    subst hk
    split
    · rfl
    · split
      · contradiction
      · simp [kpBad, kpStatic]
      · simp

/-- static policy: the container level receives the selection of `adjustCPUSet` (so it is distinct,
    existing, unprotected and within the budget by `written_sound`), the BE root and pod level
    receive the recover set, and — with unambiguous ownership — the container set lies inside it. -/
theorem static_levels (f : FloatOps) (hf : FloatOK f) (b : Int) (oldN : Nat) (procs : List Proc) (pods : List PodC)
    (res sys : List Int) (w : Written) (hnd : (cpusOf procs).Nodup)
    (hw : adjustFull f kpStatic false b oldN procs pods res sys = some w) :
    (∀ cs, w.cont = some cs → adjustCPUSet f b oldN procs pods res sys = .write cs ∧
        w.root = some (calcBESet procs pods res sys) ∧ w.pod = some (calcBESet procs pods res sys) ∧
        (Unamb pods → ∀ c ∈ cs, c ∈ calcBESet procs pods res sys)) ∧
    (∀ r, w.root = some r → r = calcBESet procs pods res sys) := by
  unfold adjustFull at hw
  simp only [Bool.false_eq_true, if_false] at hw
  split at hw
  · cases hw
    exact ⟨fun cs h => by cases h, fun r h => by cases h⟩
  · split at hw
    · cases hw
    · simp only [if_true] at hw
      cases hw
      exact ⟨fun cs h => by cases h, fun r h => by cases h; rfl⟩
    · rename_i cs' hcs
      have : ¬ (kpStatic = kpBad) := by decide
      simp only [this, if_false, if_true] at hw
      cases hw
      refine ⟨fun cs h => ?_, fun r h => by cases h; rfl⟩
      cases h
      exact ⟨hcs, rfl, rfl, fun hun => written_subset_recover f hf b oldN procs pods res sys cs' hnd hun hcs⟩

/-! ### 12. host applications -/

/-- helpers.NonBEHostAppFilter: a host application is left out of the non-BE sum only if its QoS is BE
    AND it has a cgroup path whose base is the kubepods best-effort dir (base code 1); a nil path
    (code 0) or any other base counts as non-BE. -/
theorem app_counted_iff (a : AppU) : a.counted = false ↔ (a.qos = qBE ∧ a.base = 1) := by
  unfold AppU.counted
  simp only [Bool.or_eq_false_iff, bne_eq_false_iff_eq, beq_eq_false_iff_ne]
  constructor
  · rintro ⟨⟨h1, _⟩, h3⟩; exact ⟨h1, h3⟩
  · rintro ⟨h1, h3⟩; exact ⟨⟨h1, by rw [h3]; decide⟩, h3⟩

/-- list form: raising the usage of one host application that counts as non-BE never raises the budget. -/
theorem budget_antitone_app (f : FloatOps) (hf : FloatOK f) (cap alloc anno thr : Int) (minPct : Option Int)
    (node : Int) (pods : List PodU) (as₁ as₂ : List AppU) (a : AppU) (d : Int) (hd : 0 ≤ d)
    (ha : a.counted = true) :
    budget f cap alloc anno thr minPct node pods (as₁ ++ { a with used := a.used + d } :: as₂) ≤
      budget f cap alloc anno thr minPct node pods (as₁ ++ a :: as₂) := by
  have hR : 0 ≤ nodeReserved cap alloc anno := by
    unfold nodeReserved; simp only []; split <;> split <;> omega
  have hc : ({ a with used := a.used + d } : AppU).counted = true := by
    simpa [AppU.counted] using ha
  have e1 : appsAll (as₁ ++ { a with used := a.used + d } :: as₂) = appsAll (as₁ ++ a :: as₂) + d := by
    simp only [appsAll, List.map_append, List.map_cons]; exact sum_bump _ _ _ _
  have e2 : appsCounted (as₁ ++ { a with used := a.used + d } :: as₂) = appsCounted (as₁ ++ a :: as₂) + d := by
    simp only [appsCounted, List.filter_append, List.filter_cons, hc, ha, if_true, List.map_append, List.map_cons]
    exact sum_bump _ _ _ _
  unfold budget
  rw [e1, e2]
  have := budget_antitone f hf cap thr minPct (nodeReserved cap alloc anno) node (podsAll pods)
    (podsCounted pods) (appsAll (as₁ ++ a :: as₂)) (appsCounted (as₁ ++ a :: as₂)) 0 d 0 hR (Int.le_refl 0) hd (Int.le_refl 0)
  simpa using this

/-- a BE host application inside the kubepods best-effort dir is BE consumption: its growth (seen by
    the node metric too) leaves the budget where it is or lowers it only through the system term. -/
theorem budget_be_app_not_subtracted (a : AppU) (h : a.qos = qBE ∧ a.base = 1) (as₁ as₂ : List AppU) :
    appsCounted (as₁ ++ a :: as₂) = appsCounted (as₁ ++ as₂) := by
  have hc : a.counted = false := (app_counted_iff a).mpr h
  simp [appsCounted, List.filter_append, List.filter_cons, hc]

/-! ### 13. quota mode when BE is currently unlimited -/

theorem targetQuota_ge (b : Int) : 2000 ≤ targetQuota b := by
  rw [targetQuota_eq]; omega

/-- the exact window in which a currently unlimited BE group (quota −1) is left unlimited:
    2000 < target < capacity × 1000 − 1, i.e. a finite budget between 20 m and 1 % of the node. -/
theorem quota_bypass_unlimited_iff (f : FloatOps) (hf : FloatOK f) (b cap : Int) (hc : 0 ≤ coresOf cap) :
    adjustQuota f b (-1) cap = .bypass ↔ (targetQuota b + 1 < coresOf cap * 1000 ∧ targetQuota b ≠ 2000) := by
  rw [quota_eq f hf b (-1) cap hc]
  have h2 := targetQuota_ge b
  by_cases h : (targetQuota b - -1 < coresOf cap * 1000 ∧ -1 - targetQuota b < coresOf cap * 1000) ∧ targetQuota b ≠ 2000
  · simp only [h, if_true, true_iff]
    omega
  · simp only [h, if_false]
    constructor
    · intro h'; split at h' <;> cases h'
    · intro h'; exfalso; apply h; omega

/-- "in quota mode the quota equals the budget times the CFS period, floored by the minimum" does NOT
    hold for every input: 3 CPUs, BE unlimited, budget 22 m (target 2200) — nothing is written and BE
    stays unlimited (the bypass compares the sentinel −1 as if it were a quota). -/
theorem quota_unlimited_bypass_counterexample :
    ¬ (∀ b cap : Int, adjustQuota exactOps b (-1) cap = .write (max (b * 100) 2000)) := by
  intro h
  have := h 22 3000
  revert this
  decide

/-- outside that window an unlimited BE group gets exactly the statement's quota at once (no step limit). -/
theorem quota_from_unlimited (f : FloatOps) (hf : FloatOK f) (b cap : Int) (hc : 0 ≤ coresOf cap)
    (hwin : coresOf cap * 1000 ≤ targetQuota b + 1 ∨ targetQuota b = 2000) :
    adjustQuota f b (-1) cap = .write (max (b * 100) 2000) := by
  apply quota_plain f hf b (-1) cap hc
  · rcases hwin with h | h
    · left; omega
    · right; right; exact h
  · right; rfl

end KoordVerif.C10
