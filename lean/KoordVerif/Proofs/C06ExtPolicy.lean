import KoordVerif.Model.C06
/-
C06 extension — soundness of `satisfiedRequiredCPUBindPolicy` for SpreadByPCPUs:
`details.KeepOnly(cpus).Cores().Size() == cpus.Size()` really means that no two of the CPUs share a
physical core.
-/
namespace KoordVerif.C06

theorem eraseDups_length_le : ∀ (n : Nat) (l : List Nat), l.length ≤ n → l.eraseDups.length ≤ l.length := by
  intro n
  induction n with
  | zero => intro l h; have : l = [] := List.length_eq_zero_iff.mp (by omega); subst this; simp
  | succ n ih =>
    intro l h
    cases l with
    | nil => simp
    | cons a as =>
      rw [List.eraseDups_cons]
      have h1 : (as.filter (fun b => !b == a)).length ≤ as.length := List.length_filter_le _ _
      have := ih (as.filter (fun b => !b == a)) (by simp at h; omega)
      simp only [List.length_cons]; omega

theorem nodup_of_eraseDups_length : ∀ (n : Nat) (l : List Nat), l.length ≤ n →
    l.eraseDups.length = l.length → l.Nodup := by
  intro n
  induction n with
  | zero => intro l h _; have : l = [] := List.length_eq_zero_iff.mp (by omega); subst this; simp
  | succ n ih =>
    intro l h he
    cases l with
    | nil => simp
    | cons a as =>
      rw [List.eraseDups_cons] at he
      have h1 : (as.filter (fun b => !b == a)).length ≤ as.length := List.length_filter_le _ _
      have h2 := eraseDups_length_le _ (as.filter (fun b => !b == a)) (Nat.le_refl _)
      simp only [List.length_cons] at he h
      have hlen : (as.filter (fun b => !b == a)).length = as.length := by omega
      have hfe : as.filter (fun b => !b == a) = as := List.length_filter_eq_length_iff.mp hlen |> List.filter_eq_self.mpr
      rw [hfe] at he
      have hnd := ih as (by omega) (by omega)
      refine List.nodup_cons.mpr ⟨fun hmem => ?_, hnd⟩
      have := List.length_filter_eq_length_iff.mp hlen a hmem
      simp at this

/-- **policy_sound (SpreadByPCPUs)**: if the check accepts a CPU set, no two of its CPUs are on the
    same physical core. -/
theorem spread_sound (core : Nat → Nat) (cpc : Nat) (cpus : List Nat)
    (h : satisfiedPolicy 2 core cpc cpus = true) : (cpus.map core).Nodup := by
  simp only [satisfiedPolicy, determineSpreadByPCPUs, coresOf] at h
  have h' : (cpus.map core).eraseDups.length = (cpus.map core).length := by simpa using h
  exact nodup_of_eraseDups_length _ _ (Nat.le_refl _) h'

end KoordVerif.C06
