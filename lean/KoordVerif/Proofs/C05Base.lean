import KoordVerif.Model.C05
/-
Helper lemmas for Props/C05.lean: list bookkeeping (findInfo / setInfo / index add-delete) and the
ledger sum over the assigned pods.
-/
namespace KoordVerif.C05

/-- the statement's ledger equation for one reservation -/
def Exact (r : RInfo) : Prop := ∀ d, r.allocated d = sumReq r.names r.assigned d

/-- side conditions: one record per pod uid, requests are not negative -/
def PodPre (p : Pod) : Prop := (∀ d, 0 ≤ p.req d) ∧ (p.empty = true → ∀ d, p.req d = 0)

def PodsOK (ps : List Pod) : Prop := (ps.map (·.uid)).Nodup ∧ ∀ p ∈ ps, PodPre p

def RGood (r : RInfo) : Prop := Exact r ∧ PodsOK r.assigned

theorem sumReq_append (m : Mask) (a b : List Pod) (d : Nat) :
    sumReq m (a ++ b) d = sumReq m a d + sumReq m b d := by
  induction a with
  | nil => simp [sumReq]
  | cons p t ih => simp [sumReq, ih]; omega

theorem sumReq_nonneg (m : Mask) (ps : List Pod) (d : Nat) (h : ∀ p ∈ ps, ∀ d, 0 ≤ p.req d) :
    0 ≤ sumReq m ps d := by
  induction ps with
  | nil => simp [sumReq]
  | cons p t ih =>
    have h1 := h p (by simp) d
    have h2 := ih (fun q hq => h q (by simp [hq]))
    simp only [sumReq]; split <;> omega

theorem hasPod_false_iff (ps : List Pod) (u : Nat) : hasPod ps u = false ↔ ∀ p ∈ ps, p.uid ≠ u := by
  simp [hasPod]

theorem erasePod_of_not_mem (ps : List Pod) (u : Nat) (h : ∀ p ∈ ps, p.uid ≠ u) : erasePod ps u = ps := by
  simp only [erasePod, List.filter_eq_self]
  intro p hp; simp [h p hp]

/-- removing the (unique) record of pod `u` removes exactly its masked request from the sum -/
theorem sumReq_erase (m : Mask) (ps : List Pod) (u : Nat) (p : Pod) (d : Nat)
    (hnd : (ps.map (·.uid)).Nodup) (hf : findPod ps u = some p) :
    sumReq m ps d = (if m d then p.req d else 0) + sumReq m (erasePod ps u) d := by
  induction ps with
  | nil => simp [findPod] at hf
  | cons q t ih =>
    simp only [List.map_cons, List.nodup_cons] at hnd
    by_cases hq : q.uid = u
    · have : p = q := by
        simp [findPod, hq] at hf; exact hf.symm
      subst this
      have hne : ∀ x ∈ t, x.uid ≠ u := by
        intro x hx hxu
        apply hnd.1
        simp only [List.mem_map]
        exact ⟨x, hx, by omega⟩
      have he : erasePod (p :: t) u = t := by
        have := erasePod_of_not_mem t u hne
        simp [erasePod, hq] at this ⊢
        exact this
      rw [he]; simp [sumReq]
    · have hf' : findPod t u = some p := by
        simp [findPod, hq] at hf ⊢; exact hf
      have he : erasePod (q :: t) u = q :: erasePod t u := by
        simp [erasePod, hq]
      rw [he]; simp only [sumReq]; rw [ih hnd.2 hf']; omega

theorem findPod_mem (ps : List Pod) (u : Nat) (p : Pod) (hf : findPod ps u = some p) : p ∈ ps ∧ p.uid = u := by
  have h1 := List.mem_of_find?_eq_some hf
  have h2 := List.find?_some hf
  simp at h2
  exact ⟨h1, h2⟩

theorem erasePod_sub (ps : List Pod) (u : Nat) : ∀ p ∈ erasePod ps u, p ∈ ps := by
  intro p hp; simp [erasePod] at hp; exact hp.1

theorem erasePod_nodup (ps : List Pod) (u : Nat) (h : (ps.map (·.uid)).Nodup) :
    ((erasePod ps u).map (·.uid)).Nodup := by
  unfold erasePod
  exact List.Nodup.sublist (List.Sublist.map _ List.filter_sublist) h

/-! ### infos -/

theorem findInfo_mem (c : Cache) (u : Nat) (r : RInfo) (h : findInfo c u = some r) : r ∈ c.infos ∧ r.uid = u := by
  have h1 := List.mem_of_find?_eq_some h
  have h2 := List.find?_some h
  simp at h2
  exact ⟨h1, h2⟩

theorem findInfo_none (c : Cache) (u : Nat) (h : findInfo c u = none) : ∀ r ∈ c.infos, r.uid ≠ u := by
  intro r hr
  have := List.find?_eq_none.mp h r hr
  simpa using this

/-- members of `setInfo infos r`: untouched old members, or `r` itself -/
theorem mem_setInfo (infos : List RInfo) (r x : RInfo) (h : x ∈ setInfo infos r) :
    (x ∈ infos ∧ x.uid ≠ r.uid) ∨ x = r := by
  unfold setInfo at h
  split at h
  · simp only [List.mem_map] at h
    obtain ⟨y, hy, hyx⟩ := h
    by_cases hu : y.uid = r.uid
    · simp [hu] at hyx; exact Or.inr hyx.symm
    · simp [hu] at hyx; subst hyx; exact Or.inl ⟨hy, hu⟩
  · rename_i hany
    simp only [List.mem_append, List.mem_singleton] at h
    rcases h with h | h
    · left; refine ⟨h, ?_⟩
      intro hu; apply hany; simp; exact ⟨x, h, hu⟩
    · exact Or.inr h

/-- `r` is a member of `setInfo infos r` as soon as … always. -/
theorem self_mem_setInfo_of_mem (infos : List RInfo) (r r0 : RInfo) (h0 : r0 ∈ infos) (hu : r0.uid = r.uid) :
    r ∈ setInfo infos r := by
  unfold setInfo
  have : infos.any (fun x => x.uid == r.uid) = true := by simp; exact ⟨r0, h0, hu⟩
  simp only [this, if_true, List.mem_map]
  exact ⟨r0, h0, by simp [hu]⟩

theorem self_mem_setInfo_of_not_mem (infos : List RInfo) (r : RInfo) (h : ∀ x ∈ infos, x.uid ≠ r.uid) :
    r ∈ setInfo infos r := by
  unfold setInfo
  have : infos.any (fun x => x.uid == r.uid) = false := by simp; exact h
  simp [this]

theorem old_mem_setInfo (infos : List RInfo) (r x : RInfo) (hx : x ∈ infos) (hu : x.uid ≠ r.uid) :
    x ∈ setInfo infos r := by
  unfold setInfo
  split
  · simp only [List.mem_map]; exact ⟨x, hx, by simp [hu]⟩
  · simp [hx]

/-! ### indexes -/

theorem mem_idxAdd (ix : Idx) (n u : Nat) (p : Nat × Nat) : p ∈ idxAdd ix n u ↔ p = (n, u) ∨ p ∈ ix := by
  unfold idxAdd
  split
  · rename_i h
    constructor
    · intro hp; exact Or.inr hp
    · rintro (hp | hp)
      · subst hp; simpa using h
      · exact hp
  · simp

theorem mem_idxDel (ix : Idx) (n u : Nat) (p : Nat × Nat) : p ∈ idxDel ix n u ↔ p ∈ ix ∧ p ≠ (n, u) := by
  simp [idxDel]


/-! ### histories -/

inductive Op where
  | rupd (o : RObj) | rupdx (o : RObj) | rdel (u n : Nat)
  | eadd (o : RObj) | eupd (o : RObj) | edel (o : RObj)
  | padd (ru : Nat) (ps : List Pod) | pdel (ru : Nat) (us : List Nat)
  | pupd (ou nu : Nat) (po pn : Option Pod)
  | hadd (p : HPod) | hupd (po pn : HPod) | hdel (p : HPod)

def step (c : Cache) : Op → Cache
  | .rupd o => updateReservation c o
  | .rupdx o => updateReservationIfExists c o
  | .rdel u n => deleteReservation c u n
  | .eadd o => onAdd c o
  | .eupd o => onUpdate c o
  | .edel o => onDelete c o
  | .padd ru ps => (addPods c ru ps).1
  | .pdel ru us => deletePods c ru us
  | .pupd ou nu po pn => updatePod c ou nu po pn
  | .hadd p => podUpdate c none p
  | .hupd po pn => podUpdate c (some po) pn
  | .hdel p => podDelete c p

def run (c : Cache) (ops : List Op) : Cache := ops.foldl step c

/-- the object OnDelete hands to the cache -/
def delObj (o : RObj) : RObj := if o.available then { o with phase := 4 } else o

/-- `Admissible Pre c ops`: every op satisfies `Pre` in the state it is applied to -/
def Admissible (Pre : Cache → Op → Prop) : Cache → List Op → Prop
  | _, [] => True
  | c, op :: t => Pre c op ∧ Admissible Pre (step c op) t

theorem run_preserves (Pre : Cache → Op → Prop) (Inv : Cache → Prop)
    (hstep : ∀ c op, Inv c → Pre c op → Inv (step c op)) :
    ∀ (ops : List Op) (c : Cache), Inv c → Admissible Pre c ops → Inv (run c ops) := by
  intro ops
  induction ops with
  | nil => intro c h _; exact h
  | cons op t ih =>
    intro c h ha
    exact ih (step c op) (hstep c op h ha.1) ha.2

end KoordVerif.C05
