import KoordVerif.Proofs.C15Forest
/- C15 (extension): "following parent links from any quota reaches the root" as a statement about the walk itself. -/
namespace KoordVerif.C15

/-- one step along the recorded parent links (the root and unknown names stay at the root). -/
def up (info : List QI) (x : Nat) : Nat :=
  match find info x with
  | some a => a.parent
  | none => 0

def upN (info : List QI) : Nat → Nat → Nat
  | 0, x => x
  | n+1, x => upN info n (up info x)

theorem reaches_root_aux {s : Topo} (hF : Forest s) (r : Nat → Nat) (hr : RankedBy r s.info) :
    ∀ (k x : Nat), r x ≤ k → (x = 0 ∨ ∃ a ∈ s.info, a.name = x) → ∃ n, upN s.info n x = 0 := by
  have hu := uniq_of_nodup hF.nodup
  intro k
  induction k with
  | zero =>
    intro x hk hx
    rcases hx with h0 | ⟨a, ha, hax⟩
    · exact ⟨0, h0⟩
    · have := hr.2 a ha
      rw [hax] at this
      omega
  | succ k ih =>
    intro x hk hx
    rcases hx with h0 | ⟨a, ha, hax⟩
    · exact ⟨0, h0⟩
    · have hlt := hr.2 a ha
      rw [hax] at hlt
      have hpar : a.parent = 0 ∨ ∃ p ∈ s.info, p.name = a.parent := by
        rcases hF.parentOK a ha with h0 | ⟨p, hp, hpn, _⟩
        · exact Or.inl h0
        · exact Or.inr ⟨p, hp, hpn⟩
      obtain ⟨n, hn⟩ := ih a.parent (by omega) hpar
      refine ⟨n + 1, ?_⟩
      have hf : find s.info x = some a := by rw [← hax]; exact find_mem hu ha
      simp only [upN, up, hf]
      exact hn

end KoordVerif.C15
