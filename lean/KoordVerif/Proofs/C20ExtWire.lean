import KoordVerif.Model.C20Wire
import KoordVerif.Proofs.C20ExtHistQ
/-
C20 (round-5 extension) — proofs about the wiring model (Model/C20Wire.lean) and about the order of node entries.
-/
namespace KoordVerif.C20

theorem none_sound : WatchPred.none.Sound := ⟨fun _ => rfl, fun _ _ _ => rfl, fun _ _ _ => rfl⟩

/-- a sound watch predicate is invisible: the event it drops is one the handler drops itself (DeepEqual on Data). -/
theorem wevent_sound (pr : WatchPred) (hs : pr.Sound) (d : Defaults) (parse : Ident → CM) (x : QWorld) (s : HStep) :
    wevent pr d parse x s = qevent d parse x s := by
  cases s with
  | cmCreate i => simp [wevent, hs.1 i]
  | cmUpdate i =>
    simp only [wevent]
    cases hcm : x.w.cm with
    | none => rfl
    | some old =>
      by_cases hoi : old = i
      · subst hoi
        have hx : ({ x with w := { x.w with cm := some old } } : QWorld) = x := by
          cases x with
          | mk w q =>
            cases w with
            | mk cfg avail cm nodes slos => simp_all
        have hq : qevent d parse x (.cmUpdate old) = x := by simp [qevent, hcm]
        by_cases hp : pr.update old old = true
        · simp [hp]
        · simp [hp, hx, hq]
      · simp [hs.2.1 old i hoi]
  | cmDelete => rfl
  | cmForeign => rfl
  | nodeAdd n ls => rfl
  | nodeUpdate n ls =>
    simp only [wevent]
    cases hn : lookupA x.w.nodes n with
    | none => rfl
    | some old =>
      by_cases hol : old = ls
      · subst hol
        by_cases hp : pr.nodeUpdate old old = true
        · simp [hp]
        · simp [hp, qevent, hn]
      · simp [hs.2.2 old ls hol]
  | nodeDelete n => rfl
  | restart f => rfl

theorem wstep_sound (pr : WatchPred) (hs : pr.Sound) (d : Defaults) (parse : Ident → CM) (x : QWorld) (s : QStep) :
    wstep pr d parse x s = qstep d parse x s := by
  cases s with
  | ev s => simp [wstep, qstep, wevent_sound pr hs]
  | reco n => rfl
  | recoFail n => rfl

theorem wrun_sound (pr : WatchPred) (hs : pr.Sound) (d : Defaults) (parse : Ident → CM) (ss : List QStep) :
    ∀ x : QWorld, wrun pr d parse x ss = qrun d parse x ss := by
  induction ss with
  | nil => intro x; rfl
  | cons s ss ih => intro x; simp only [wrun, qrun, List.foldl_cons] at *; rw [wstep_sound pr hs]; exact ih _

/-! ### the order of a section's node entries -/

theorem find?_perm_of_unique {α} (p : α → Bool) (l l' : List α) (hp : l'.Perm l)
    (hu : ∀ a ∈ l, ∀ b ∈ l, p a = true → p b = true → a = b) : l'.find? p = l.find? p := by
  cases h : l.find? p with
  | none =>
    rw [List.find?_eq_none] at h ⊢
    intro x hx
    exact h x (hp.mem_iff.mp hx)
  | some a =>
    have ha : p a = true := List.find?_some h
    have hal : a ∈ l := List.mem_of_find?_eq_some h
    cases h' : l'.find? p with
    | none =>
      rw [List.find?_eq_none] at h'
      exact absurd ha (h' a (hp.mem_iff.mpr hal))
    | some b =>
      have hb : p b = true := List.find?_some h'
      have hbl : b ∈ l := hp.mem_iff.mp (List.mem_of_find?_eq_some h')
      rw [hu b hbl a hal hb ha]

end KoordVerif.C20
