import KoordVerif.Proofs.C01Inv
/-
C01: if the un-clamped propagation ends in a state without negative figures on the path, then no clamp of
the real (clamped) propagation fired: both runs coincide.
-/
namespace KoordVerif.C01

theorem propUsedW_get_notin (cl : Int → Int) : ∀ (path : List Nat) (s : State) (self : Bool) (d dnp : Int) (m : Nat),
    m ∉ path → get? (propUsedW cl s path self d dnp) m = get? s m
  | [], s, _, _, _, m, _ => by simp [propUsedW]
  | g :: rest, s, self, d, dnp, m, hm => by
    simp only [propUsedW]
    cases hq : get? s g with
    | none => rfl
    | some q =>
      simp only
      have hqn := get?_name hq
      have hs := addUsed_same q d dnp self cl
      have hq' : get? s (addUsed cl q d dnp self).name = some q := by rw [hs.name, hqn]; exact hq
      rw [propUsedW_get_notin cl rest _ false d dnp m (fun h => hm (List.mem_cons_of_mem _ h)), get?_set hq']
      have : m ≠ (addUsed cl q d dnp self).name := by
        rw [hs.name, hqn]; intro e; exact hm (by simp [e])
      simp [this]

theorem propReqW_get_notin (cl : Int → Int) : ∀ (path : List Nat) (s : State) (self : Bool) (d dnp : Int) (m : Nat),
    m ∉ path → get? (propReqW cl s path self d dnp) m = get? s m
  | [], s, _, _, _, m, _ => by simp [propReqW]
  | g :: rest, s, self, d, dnp, m, hm => by
    simp only [propReqW]
    cases hq : get? s g with
    | none => rfl
    | some q =>
      simp only
      have hqn := get?_name hq
      have hmg : m ≠ g := by intro e; exact hm (by simp [e])
      split
      · have hs := addReq_same q d dnp self cl
        have hq' : get? s (addReq cl q d dnp self).name = some q := by rw [hs.name, hqn]; exact hq
        rw [get?_set hq']
        have : m ≠ (addReq cl q d dnp self).name := by rw [hs.name, hqn]; exact hmg
        simp [this]
      · have hs := reqNode_same q d dnp self cl
        have hq' : get? s (reqNode cl q d dnp self).name = some q := by rw [hs.name, hqn]; exact hq
        rw [propReqW_get_notin cl rest _ false _ dnp m (fun h => hm (List.mem_cons_of_mem _ h)), get?_set hq']
        have : m ≠ (reqNode cl q d dnp self).name := by rw [hs.name, hqn]; exact hmg
        simp [this]

theorem addUsed_clamp_eq (q : Quota) (d dnp : Int) (self : Bool)
    (h1 : 0 ≤ (addUsed id q d dnp self).used) (h2 : 0 ≤ (addUsed id q d dnp self).npUsed)
    (h3 : 0 ≤ (addUsed id q d dnp self).selfUsed) (h4 : 0 ≤ (addUsed id q d dnp self).selfNpUsed) :
    addUsed clamp0 q d dnp self = addUsed id q d dnp self := by
  cases self <;> simp [addUsed] at h1 h2 h3 h4 ⊢ <;> simp [clamp0_of_nonneg, *]

theorem addReq_clamp_eq (q : Quota) (d dnp : Int) (self : Bool)
    (h1 : 0 ≤ (addReq id q d dnp self).request) (h2 : 0 ≤ (addReq id q d dnp self).npRequest)
    (h3 : 0 ≤ (addReq id q d dnp self).selfRequest) (h4 : 0 ≤ (addReq id q d dnp self).selfNpRequest) :
    addReq clamp0 q d dnp self = addReq id q d dnp self := by
  cases self <;> simp [addReq] at h1 h2 h3 h4 ⊢ <;> simp [clamp0_of_nonneg, *]

theorem reqNode_clamp_eq (q : Quota) (d dnp : Int) (self : Bool)
    (h1 : 0 ≤ (reqNode id q d dnp self).childRequest) (h2 : 0 ≤ (reqNode id q d dnp self).npRequest)
    (h3 : 0 ≤ (reqNode id q d dnp self).selfRequest) (h4 : 0 ≤ (reqNode id q d dnp self).selfNpRequest) :
    reqNode clamp0 q d dnp self = reqNode id q d dnp self := by
  cases self <;> simp [reqNode, addReq] at h1 h2 h3 h4 ⊢ <;> simp [clamp0_of_nonneg, lendRule, *]

/-- no clamp of the used propagation fires -/
theorem propUsed_noclamp : ∀ (path : List Nat) (s : State) (self : Bool) (d dnp : Int), path.Nodup →
    (∀ m ∈ path, ∀ q', get? (propUsedW id s path self d dnp) m = some q' →
      0 ≤ q'.used ∧ 0 ≤ q'.npUsed ∧ 0 ≤ q'.selfUsed ∧ 0 ≤ q'.selfNpUsed) →
    propUsedW clamp0 s path self d dnp = propUsedW id s path self d dnp
  | [], _, _, _, _, _, _ => by simp [propUsedW]
  | g :: rest, s, self, d, dnp, hnd, hnn => by
    simp only [propUsedW] at hnn ⊢
    cases hq : get? s g with
    | none => rfl
    | some q =>
      simp only [hq] at hnn ⊢
      have hqn := get?_name hq
      have hgr : g ∉ rest := (List.nodup_cons.mp hnd).1
      have hs := addUsed_same q d dnp self id
      have hq' : get? s (addUsed id q d dnp self).name = some q := by rw [hs.name, hqn]; exact hq
      have hfin := hnn g (by simp) (addUsed id q d dnp self) (by
        rw [propUsedW_get_notin id rest _ false d dnp g hgr, get?_set hq']; simp [hs.name, hqn])
      rw [addUsed_clamp_eq q d dnp self hfin.1 hfin.2.1 hfin.2.2.1 hfin.2.2.2]
      exact propUsed_noclamp rest _ false d dnp (List.nodup_cons.mp hnd).2
        (fun m hm => hnn m (List.mem_cons_of_mem _ hm))

/-- no clamp of the request propagation fires -/
theorem propReq_noclamp : ∀ (path : List Nat) (s : State) (self : Bool) (d dnp : Int), path.Nodup →
    (∀ m ∈ path, ∀ q', get? (propReqW id s path self d dnp) m = some q' →
      0 ≤ crOf q' ∧ 0 ≤ q'.npRequest ∧ 0 ≤ q'.selfRequest ∧ 0 ≤ q'.selfNpRequest) →
    propReqW clamp0 s path self d dnp = propReqW id s path self d dnp
  | [], _, _, _, _, _, _ => by simp [propReqW]
  | g :: rest, s, self, d, dnp, hnd, hnn => by
    simp only [propReqW] at hnn ⊢
    cases hq : get? s g with
    | none => rfl
    | some q =>
      simp only [hq] at hnn ⊢
      have hqn := get?_name hq
      have hgr : g ∉ rest := (List.nodup_cons.mp hnd).1
      by_cases hroot : g = rootName
      · simp only [hroot, if_true] at hnn ⊢
        have hs := addReq_same q d dnp self id
        have hq' : get? s (addReq id q d dnp self).name = some q := by rw [hs.name, hqn, hroot]; rw [hroot] at hq; exact hq
        have hfin := hnn rootName (by simp) (addReq id q d dnp self) (by
          rw [get?_set hq']; simp [hs.name, hqn, hroot])
        have hc : crOf (addReq id q d dnp self) = (addReq id q d dnp self).request := by
          simp [crOf, hs.name, hqn, hroot]
        rw [hc] at hfin
        rw [addReq_clamp_eq q d dnp self hfin.1 hfin.2.1 hfin.2.2.1 hfin.2.2.2]
      · simp only [hroot, if_false] at hnn ⊢
        have hs := reqNode_same q d dnp self id
        have hq' : get? s (reqNode id q d dnp self).name = some q := by rw [hs.name, hqn]; exact hq
        have hfin := hnn g (by simp) (reqNode id q d dnp self) (by
          rw [propReqW_get_notin id rest _ false _ dnp g hgr, get?_set hq']; simp [hs.name, hqn])
        have hc : crOf (reqNode id q d dnp self) = (reqNode id q d dnp self).childRequest := by
          simp [crOf, hs.name, hqn, hroot]
        rw [hc] at hfin
        rw [reqNode_clamp_eq q d dnp self hfin.1 hfin.2.1 hfin.2.2.1 hfin.2.2.2]
        exact propReq_noclamp rest _ false _ dnp (List.nodup_cons.mp hnd).2
          (fun m hm => hnn m (List.mem_cons_of_mem _ hm))

end KoordVerif.C01
