import KoordVerif.Model.C10
/-
C10 — helper development for `policy` (calculateBESuppressCPUSetPolicy): the bucket lists are a
permutation of the processor list; the two cyclic passes keep "selected CPUs are distinct members
of the list" (pass 1 needs the adjacent-pair invariant of DESIGN.md A.6); pass 2 cannot get
stuck while unused CPUs remain.
-/
namespace KoordVerif.C10

/-! ### sorting and grouping are permutations -/

theorem insertBy_perm {α} (lt : α → α → Bool) (x : α) (l : List α) : (insertBy lt x l).Perm (x :: l) := by
  induction l with
  | nil => exact List.Perm.refl _
  | cons y ys ih =>
    unfold insertBy
    split
    · exact List.Perm.refl _
    · exact ((List.Perm.cons y ih).trans (List.Perm.swap x y ys))

theorem isortBy_perm {α} (lt : α → α → Bool) (l : List α) : (isortBy lt l).Perm l := by
  induction l with
  | nil => exact List.Perm.refl _
  | cons x xs ih =>
    unfold isortBy
    exact (insertBy_perm lt x _).trans (List.Perm.cons x ih)

def flatB (bs : List (Int × List Proc)) : List Proc := (bs.map (·.2)).flatten

theorem addToBucket_perm (k : Int) (p : Proc) (bs : List (Int × List Proc)) :
    (flatB (addToBucket k p bs)).Perm (p :: flatB bs) := by
  induction bs with
  | nil => simp [addToBucket, flatB]
  | cons kb rest ih =>
    obtain ⟨k', b⟩ := kb
    unfold addToBucket
    split
    · simp only [flatB, List.map_cons, List.flatten_cons, List.append_assoc, List.singleton_append]
      exact List.perm_middle
    · simp only [flatB, List.map_cons, List.flatten_cons] at ih ⊢
      exact (List.Perm.append_left b ih).trans List.perm_middle

theorem groupBuckets_perm_aux (n : Int) (ps : List Proc) (acc : List (Int × List Proc)) :
    (flatB (ps.foldl (fun acc p => addToBucket (bucketKey n p) p acc) acc)).Perm (ps ++ flatB acc) := by
  induction ps generalizing acc with
  | nil => simp
  | cons p ps ih =>
    simp only [List.foldl_cons]
    refine (ih _).trans ?_
    refine (List.Perm.append_left ps (addToBucket_perm _ p acc)).trans ?_
    exact List.perm_middle

theorem groupBuckets_perm (n : Int) (ps : List Proc) : (flatB (groupBuckets n ps)).Perm ps := by
  have := groupBuckets_perm_aux n ps []
  simpa [groupBuckets, flatB] using this

theorem map_sort_flatten_perm (L : List (Int × List Proc)) :
    ((L.map (fun kb => isortBy procLt kb.2)).flatten).Perm (flatB L) := by
  induction L with
  | nil => simp [flatB]
  | cons kb rest ih =>
    simp only [flatB, List.map_cons, List.flatten_cons] at ih ⊢
    exact List.Perm.append (isortBy_perm _ _) ih

theorem sortedBuckets_perm (ps : List Proc) : ((sortedBuckets ps).flatten).Perm ps := by
  unfold sortedBuckets
  exact ((isortBy_perm _ _).flatten).trans ((map_sort_flatten_perm _).trans (groupBuckets_perm _ ps))

/-! ### lists of buckets whose CPU ids are globally distinct -/

def allCpus (all : List (List Proc)) : List Int := (all.map cpusOf).flatten

theorem allCpus_eq (all : List (List Proc)) : allCpus all = cpusOf all.flatten := by
  unfold allCpus
  show _ = List.map (fun p : Proc => p.cpu) all.flatten
  rw [List.map_flatten]
  rfl

theorem mem_allCpus {all : List (List Proc)} {b : List Proc} {x : Int} (hb : b ∈ all) (hx : x ∈ cpusOf b) :
    x ∈ allCpus all :=
  List.mem_flatten.mpr ⟨cpusOf b, List.mem_map.mpr ⟨b, hb, rfl⟩, hx⟩

theorem bucket_nodup {all : List (List Proc)} (h : (allCpus all).Nodup) {b : List Proc} (hb : b ∈ all) :
    (cpusOf b).Nodup := by
  induction all with
  | nil => cases hb
  | cons b0 rest ih =>
    simp only [allCpus, List.map_cons, List.flatten_cons] at h
    obtain ⟨h1, h2, _⟩ := List.nodup_append.mp h
    rcases List.mem_cons.mp hb with rfl | hb'
    · exact h1
    · exact ih h2 hb'

theorem bucket_unique {all : List (List Proc)} (h : (allCpus all).Nodup) {b b' : List Proc} {x : Int}
    (hb : b ∈ all) (hb' : b' ∈ all) (hx : x ∈ cpusOf b) (hx' : x ∈ cpusOf b') : b = b' := by
  induction all with
  | nil => cases hb
  | cons b0 rest ih =>
    simp only [allCpus, List.map_cons, List.flatten_cons] at h
    obtain ⟨_, h2, h3⟩ := List.nodup_append.mp h
    rcases List.mem_cons.mp hb with rfl | hbr <;> rcases List.mem_cons.mp hb' with rfl | hbr'
    · rfl
    · exact absurd rfl (h3 x hx x (mem_allCpus hbr' hx'))
    · exact absurd rfl (h3 x hx' x (mem_allCpus hbr hx))
    · exact ih h2 hbr hbr'

theorem nodup_subset_length {l₁ : List Int} (h : l₁.Nodup) : ∀ {l₂ : List Int}, l₁ ⊆ l₂ → l₁.length ≤ l₂.length := by
  induction l₁ with
  | nil => intro l₂ _; simp
  | cons a l ih =>
    intro l₂ hs
    obtain ⟨ha, hl⟩ := List.nodup_cons.mp h
    have ha2 : a ∈ l₂ := hs (by simp)
    have hsub : l ⊆ l₂.erase a := by
      intro x hx
      have hne : x ≠ a := fun e => ha (e ▸ hx)
      exact (List.mem_erase_of_ne hne).mpr (hs (List.mem_cons_of_mem _ hx))
    have := ih hl hsub
    rw [List.length_erase_of_mem ha2] at this
    have : 0 < l₂.length := List.length_pos_of_mem ha2
    simp only [List.length_cons]
    omega

/-! ### pass 1: the adjacent-pair invariant -/

/-- if position `j` is unused and shares its core with `j+1`, then `j+1` is unused as well. -/
def PairInv (used : List Int) : List Proc → Prop
  | [] => True
  | [_] => True
  | a :: b :: rest => (a.cpu ∉ used → a.core = b.core → b.cpu ∉ used) ∧ PairInv used (b :: rest)

theorem pairInv_nil_used : ∀ l : List Proc, PairInv [] l
  | [] => trivial
  | [_] => trivial
  | _ :: b :: rest => ⟨fun _ _ => by simp, pairInv_nil_used (b :: rest)⟩

theorem pairInv_frame (used extra : List Int) :
    ∀ l : List Proc, PairInv used l → (∀ p ∈ l, p.cpu ∉ extra) → PairInv (used ++ extra) l
  | [], _, _ => trivial
  | [_], _, _ => trivial
  | a :: b :: rest, h, hx => by
    obtain ⟨h1, h2⟩ := h
    refine ⟨?_, pairInv_frame used extra (b :: rest) h2 (fun p hp => hx p (List.mem_cons_of_mem _ hp))⟩
    intro ha hc hmem
    have ha' : a.cpu ∉ used := fun h => ha (List.mem_append_left _ h)
    rcases List.mem_append.mp hmem with h | h
    · exact h1 ha' hc h
    · exact hx b (by simp) h

theorem findPair_spec (used : List Int) :
    ∀ (l : List Proc) (x y : Int), findPair used l = some (x, y) → PairInv used l → (cpusOf l).Nodup →
      x ∉ used ∧ y ∉ used ∧ x ≠ y ∧ x ∈ cpusOf l ∧ y ∈ cpusOf l ∧ PairInv (used ++ [x, y]) l
  | [], _, _, h, _, _ => by simp [findPair] at h
  | [_], _, _, h, _, _ => by simp [findPair] at h
  | a :: b :: rest, x, y, h, hp, hn => by
    unfold findPair at h
    obtain ⟨hp1, hp2⟩ := hp
    have hn' : (a.cpu :: b.cpu :: cpusOf rest).Nodup := by simpa [cpusOf] using hn
    obtain ⟨ha_nin, hn2⟩ := List.nodup_cons.mp hn'
    obtain ⟨hb_nin, _⟩ := List.nodup_cons.mp hn2
    split at h
    · rename_i hc
      have hc' : a.cpu ∉ used ∧ a.core = b.core := by simpa using hc
      simp only [Option.some.injEq, Prod.mk.injEq] at h
      obtain ⟨rfl, rfl⟩ := h
      have hbu : b.cpu ∉ used := hp1 hc'.1 hc'.2
      have hab : a.cpu ≠ b.cpu := fun e => ha_nin (by rw [e]; simp)
      refine ⟨hc'.1, hbu, hab, by simp [cpusOf], by simp [cpusOf], ?_⟩
      refine ⟨fun ha => absurd (by simp) ha, ?_⟩
      match rest, hp2, ha_nin, hb_nin with
      | [], _, _, _ => trivial
      | c :: rest', hp2, ha_nin, hb_nin =>
        obtain ⟨_, hp3⟩ := hp2
        refine ⟨fun hb => absurd (by simp) hb, ?_⟩
        apply pairInv_frame used [a.cpu, b.cpu] (c :: rest') hp3
        intro p hpm hmem
        have hpc : p.cpu ∈ cpusOf (c :: rest') := List.mem_map.mpr ⟨p, hpm, rfl⟩
        simp only [List.mem_cons, List.not_mem_nil, or_false] at hmem
        rcases hmem with e | e
        · exact ha_nin (by rw [← e]; exact List.mem_cons_of_mem _ hpc)
        · exact hb_nin (by rw [← e]; exact hpc)
    · rename_i hc
      have hn3 : (cpusOf (b :: rest)).Nodup := by simpa [cpusOf] using hn2
      obtain ⟨hx, hy, hxy, hxm, hym, hinv⟩ := findPair_spec used (b :: rest) x y h hp2 hn3
      refine ⟨hx, hy, hxy, ?_, ?_, ?_⟩
      · simp only [cpusOf, List.map_cons] at hxm ⊢; exact List.mem_cons_of_mem _ hxm
      · simp only [cpusOf, List.map_cons] at hym ⊢; exact List.mem_cons_of_mem _ hym
      · refine ⟨?_, hinv⟩
        intro ha hcore
        exfalso
        apply hc
        have : a.cpu ∉ used := fun h => ha (List.mem_append_left _ h)
        simp [this, hcore]

theorem findFree_some (used : List Int) : ∀ (l : List Proc) (x : Int), findFree used l = some x → x ∉ used ∧ x ∈ cpusOf l
  | [], _, h => by simp [findFree] at h
  | a :: rest, x, h => by
    unfold findFree at h
    split at h
    · rename_i hc
      simp only [Option.some.injEq] at h
      subst h
      exact ⟨by simpa using hc, by simp [cpusOf]⟩
    · obtain ⟨h1, h2⟩ := findFree_some used rest x h
      exact ⟨h1, by simp only [cpusOf, List.map_cons] at h2 ⊢; exact List.mem_cons_of_mem _ h2⟩

theorem findFree_none (used : List Int) : ∀ (l : List Proc), findFree used l = none → ∀ p ∈ l, p.cpu ∈ used
  | [], _, _, hp => by cases hp
  | a :: rest, h, p, hp => by
    unfold findFree at h
    split at h
    · cases h
    · rename_i hc
      rcases List.mem_cons.mp hp with rfl | hp'
      · simpa using hc
      · exact findFree_none used rest h p hp'

/-! ### loop invariants -/

structure Inv0 (all : List (List Proc)) (k : Int) (st : St) : Prop where
  nodup : st.out.Nodup
  sub   : ∀ x ∈ st.out, x ∈ allCpus all
  cnt   : st.need + st.out.length = k
  nn    : 0 ≤ st.need

structure Inv1 (all : List (List Proc)) (k : Int) (st : St) : Prop extends Inv0 all k st where
  pair : ∀ b ∈ all, PairInv st.out b

theorem step1_inv {all : List (List Proc)} {k : Int} {st : St} (hall : (allCpus all).Nodup) (hi : Inv1 all k st)
    {b : List Proc} (hb : b ∈ all) (hneed : ¬ st.need ≤ 1) {x y : Int} (hf : findPair st.out b = some (x, y)) :
    Inv1 all k { need := st.need - 2, out := st.out ++ [x, y] } := by
  obtain ⟨hx, hy, hxy, hxm, hym, hinv⟩ := findPair_spec st.out b x y hf (hi.pair b hb) (bucket_nodup hall hb)
  refine { nodup := ?_, sub := ?_, cnt := ?_, nn := ?_, pair := ?_ }
  · refine List.nodup_append.mpr ⟨hi.nodup, by simp [hxy], ?_⟩
    intro a ha c hc e
    simp only [List.mem_cons, List.not_mem_nil, or_false] at hc
    rcases hc with rfl | rfl
    · exact hx (e ▸ ha)
    · exact hy (e ▸ ha)
  · intro z hz
    rcases List.mem_append.mp hz with h | h
    · exact hi.sub z h
    · simp only [List.mem_cons, List.not_mem_nil, or_false] at h
      rcases h with rfl | rfl
      · exact mem_allCpus hb hxm
      · exact mem_allCpus hb hym
  · have := hi.cnt
    simp only [List.length_append, List.length_cons, List.length_nil]
    omega
  · simp only; omega
  · intro b' hb'
    by_cases e : b' = b
    · subst e; exact hinv
    · apply pairInv_frame st.out [x, y] b' (hi.pair b' hb')
      intro p hp hmem
      have hpc : p.cpu ∈ cpusOf b' := List.mem_map.mpr ⟨p, hp, rfl⟩
      simp only [List.mem_cons, List.not_mem_nil, or_false] at hmem
      rcases hmem with e' | e'
      · exact e (bucket_unique hall hb' hb hpc (e' ▸ hxm))
      · exact e (bucket_unique hall hb' hb hpc (e' ▸ hym))

theorem sweep1_inv {all : List (List Proc)} {k : Int} (hall : (allCpus all).Nodup) :
    ∀ (rest : List (List Proc)) (idx : Nat) (st : St), (∀ b ∈ rest, b ∈ all) → Inv1 all k st →
      Inv1 all k (sweep1 rest idx st).1
  | [], _, _, _, hi => by simpa [sweep1] using hi
  | b :: bs, idx, st, hsub, hi => by
    unfold sweep1
    split
    · exact hi
    · rename_i hneed
      have hbs : ∀ b' ∈ bs, b' ∈ all := fun b' h => hsub b' (List.mem_cons_of_mem _ h)
      split
      · rename_i x y hf
        exact sweep1_inv hall bs (idx + 1) _ hbs (step1_inv hall hi (hsub b (by simp)) hneed hf)
      · exact sweep1_inv hall bs (idx + 1) st hbs hi

theorem pass1_inv {all : List (List Proc)} {k : Int} (hall : (allCpus all).Nodup) :
    ∀ (fuel : Nat) (st : St), Inv1 all k st → Inv1 all k (pass1 all fuel st).1
  | 0, _, hi => by simpa [pass1] using hi
  | fuel + 1, st, hi => by
    unfold pass1
    split
    · exact hi
    · have hs := sweep1_inv hall all 0 st (fun _ h => h) hi
      generalize sweep1 all 0 st = r at hs
      obtain ⟨st', o⟩ := r
      cases o with
      | some idx => exact hs
      | none =>
        simp only
        split
        · exact hs
        · exact pass1_inv hall fuel st' hs

/-! ### pass 2 -/

theorem step2_inv {all : List (List Proc)} {k : Int} {st : St} (hi : Inv0 all k st)
    {b : List Proc} (hb : b ∈ all) (hneed : ¬ st.need ≤ 0) {x : Int} (hf : findFree st.out b = some x) :
    Inv0 all k { need := st.need - 1, out := st.out ++ [x] } := by
  obtain ⟨hx, hxm⟩ := findFree_some st.out b x hf
  refine { nodup := ?_, sub := ?_, cnt := ?_, nn := ?_ }
  · refine List.nodup_append.mpr ⟨hi.nodup, by simp, ?_⟩
    intro a ha c hc e
    simp only [List.mem_cons, List.not_mem_nil, or_false] at hc
    subst hc
    exact hx (e ▸ ha)
  · intro z hz
    rcases List.mem_append.mp hz with h | h
    · exact hi.sub z h
    · simp only [List.mem_cons, List.not_mem_nil, or_false] at h
      subst h
      exact mem_allCpus hb hxm
  · have := hi.cnt
    simp only [List.length_append, List.length_cons, List.length_nil]
    omega
  · simp only; omega

theorem sweep2_inv {all : List (List Proc)} {k : Int} :
    ∀ (rest : List (List Proc)) (st : St), (∀ b ∈ rest, b ∈ all) → Inv0 all k st → Inv0 all k (sweep2 rest st)
  | [], _, _, hi => by simpa [sweep2] using hi
  | b :: bs, st, hsub, hi => by
    unfold sweep2
    have hbs : ∀ b' ∈ bs, b' ∈ all := fun b' h => hsub b' (List.mem_cons_of_mem _ h)
    split
    · exact hi
    · rename_i hneed
      split
      · rename_i x hf
        exact sweep2_inv bs _ hbs (step2_inv hi (hsub b (by simp)) hneed hf)
      · exact sweep2_inv bs st hbs hi

theorem sweep2_need_le : ∀ (rest : List (List Proc)) (st : St), (sweep2 rest st).need ≤ st.need
  | [], st => by simp [sweep2]
  | b :: bs, st => by
    unfold sweep2
    split
    · exact Int.le_refl _
    · split
      · rename_i x _
        have := sweep2_need_le bs { need := st.need - 1, out := st.out ++ [x] }
        simp only at this
        omega
      · exact sweep2_need_le bs st

/-- a sweep that picked nothing although CPUs were still needed: every CPU of every bucket is used. -/
theorem sweep2_stuck : ∀ (rest : List (List Proc)) (st : St), (sweep2 rest st).need = st.need → 0 < st.need →
    ∀ b ∈ rest, ∀ p ∈ b, p.cpu ∈ st.out
  | [], _, _, _, b, hb => by cases hb
  | b0 :: bs, st, he, hpos, b, hb => by
    unfold sweep2 at he
    have hneed : ¬ st.need ≤ 0 := by omega
    simp only [hneed, if_false] at he
    split at he
    · rename_i x hf
      have := sweep2_need_le bs { need := st.need - 1, out := st.out ++ [x] }
      simp only at this
      omega
    · rename_i hf
      rcases List.mem_cons.mp hb with rfl | hb'
      · exact findFree_none st.out b hf
      · exact sweep2_stuck bs st he hpos b hb'

theorem pass2_inv {all : List (List Proc)} {k : Int} (bs : List (List Proc)) (hbs : ∀ b ∈ bs, b ∈ all) :
    ∀ (fuel : Nat) (st : St), Inv0 all k st → Inv0 all k (pass2 bs fuel st)
  | 0, _, hi => by simpa [pass2] using hi
  | fuel + 1, st, hi => by
    unfold pass2
    split
    · exact hi
    · have hs := sweep2_inv bs st hbs hi
      simp only
      split
      · exact hs
      · exact pass2_inv bs hbs fuel _ hs

/-- pass 2 finishes the request whenever the buckets hold at least `k` distinct CPUs. -/
theorem pass2_done {all : List (List Proc)} {k : Int} (hall : (allCpus all).Nodup)
    (hk : k ≤ (allCpus all).length) (bs : List (List Proc)) (hbs : ∀ b ∈ bs, b ∈ all)
    (hcover : ∀ x ∈ allCpus all, ∃ b ∈ bs, x ∈ cpusOf b) :
    ∀ (fuel : Nat) (st : St), Inv0 all k st → st.need.toNat ≤ fuel → (pass2 bs fuel st).need = 0
  | 0, st, hi, hf => by
    have := hi.nn
    simp only [pass2]
    omega
  | fuel + 1, st, hi, hf => by
    unfold pass2
    have hnn := hi.nn
    split
    · omega
    · rename_i hneed
      have hs := sweep2_inv bs st hbs hi
      have hle := sweep2_need_le bs st
      simp only
      split
      · rename_i heq
        exfalso
        have heq' : (sweep2 bs st).need = st.need := by simpa using heq
        have hused := sweep2_stuck bs st heq' (by omega)
        have hsub : allCpus all ⊆ st.out := by
          intro x hx
          obtain ⟨b, hb, hxb⟩ := hcover x hx
          obtain ⟨p, hp, rfl⟩ := List.mem_map.mp hxb
          exact hused b hb p hp
        have hlen := nodup_subset_length hall hsub
        have := hi.cnt
        omega
      · rename_i hne
        have hne' : (sweep2 bs st).need ≠ st.need := by simpa using hne
        exact pass2_done hall hk bs hbs hcover fuel _ hs (by omega)

theorem mem_rot {α} {i : Nat} {l : List α} {x : α} : x ∈ rot i l ↔ x ∈ l := by
  unfold rot
  constructor
  · intro h
    rcases List.mem_append.mp h with h | h
    · exact List.mem_of_mem_drop h
    · exact List.mem_of_mem_take h
  · intro h
    have : x ∈ l.take i ++ l.drop i := by rw [List.take_append_drop]; exact h
    rcases List.mem_append.mp this with h | h
    · exact List.mem_append_right _ h
    · exact List.mem_append_left _ h

/-! ### the fuel of the two cyclic loops is only a termination device -/

theorem sweep1_need_le : ∀ (rest : List (List Proc)) (idx : Nat) (st : St), (sweep1 rest idx st).1.need ≤ st.need
  | [], _, st => by simp [sweep1]
  | b :: bs, idx, st => by
    unfold sweep1
    split
    · exact Int.le_refl _
    · split
      · rename_i x y _
        have := sweep1_need_le bs (idx + 1) { need := st.need - 2, out := st.out ++ [x, y] }
        simp only at this
        omega
      · exact sweep1_need_le bs (idx + 1) st

/-- the fuel of `pass1` is only a termination device: any amount ≥ `needCPUs` gives the same result
    (`policy` supplies `k.toNat + 1`), i.e. the `fuel = 0` branch is never the one that stops the loop. -/
theorem pass1_fuel_irrelevant (bs : List (List Proc)) :
    ∀ (f₁ f₂ : Nat) (st : St), st.need.toNat ≤ f₁ → st.need.toNat ≤ f₂ → pass1 bs f₁ st = pass1 bs f₂ st
  | 0, 0, _, _, _ => rfl
  | 0, g + 1, st, h1, _ => by
    have : st.need ≤ 1 := by omega
    simp [pass1, this]
  | f + 1, 0, st, _, h2 => by
    have : st.need ≤ 1 := by omega
    simp [pass1, this]
  | f + 1, g + 1, st, h1, h2 => by
    unfold pass1
    split
    · rfl
    · rename_i hneed
      have hle := sweep1_need_le bs 0 st
      generalize sweep1 bs 0 st = r at hle
      obtain ⟨st', o⟩ := r
      cases o with
      | some idx => rfl
      | none =>
        simp only at hle ⊢
        split
        · rfl
        · rename_i hne
          have hne' : st'.need ≠ st.need := by simpa using hne
          exact pass1_fuel_irrelevant bs f g st' (by omega) (by omega)

theorem pass2_fuel_irrelevant (bs : List (List Proc)) :
    ∀ (f₁ f₂ : Nat) (st : St), st.need.toNat ≤ f₁ → st.need.toNat ≤ f₂ → pass2 bs f₁ st = pass2 bs f₂ st
  | 0, 0, _, _, _ => rfl
  | 0, g + 1, st, h1, _ => by
    have : st.need ≤ 0 := by omega
    simp [pass2, this]
  | f + 1, 0, st, _, h2 => by
    have : st.need ≤ 0 := by omega
    simp [pass2, this]
  | f + 1, g + 1, st, h1, h2 => by
    unfold pass2
    split
    · rfl
    · rename_i hneed
      have hle := sweep2_need_le bs st
      simp only
      split
      · rfl
      · rename_i hne
        have hne' : (sweep2 bs st).need ≠ st.need := by simpa using hne
        exact pass2_fuel_irrelevant bs f g _ (by omega) (by omega)

theorem pass1_need_le (bs : List (List Proc)) : ∀ (fuel : Nat) (st : St), (pass1 bs fuel st).1.need ≤ st.need
  | 0, st => by simp [pass1]
  | fuel + 1, st => by
    unfold pass1
    split
    · exact Int.le_refl _
    · have hle := sweep1_need_le bs 0 st
      generalize sweep1 bs 0 st = r at hle
      obtain ⟨st', o⟩ := r
      cases o with
      | some idx => exact hle
      | none =>
        simp only at hle ⊢
        split
        · exact hle
        · have := pass1_need_le bs fuel st'
          omega

/-! ### the selection as a whole -/

theorem policy_short (k : Int) (ps : List Proc) (h : (ps.length : Int) < k) : policy k ps = [] := by
  simp [policy, h]

theorem policy_nonpos (k : Int) (ps : List Proc) (h : k ≤ 0) : policy k ps = [] := by
  unfold policy
  split
  · rfl
  · have h1 : k ≤ 1 := by omega
    simp [pass1, pass2, h1, h]

theorem policy_spec (k : Int) (ps : List Proc) (hnd : (cpusOf ps).Nodup) (hk0 : 0 ≤ k) (hkn : k ≤ ps.length) :
    (policy k ps).Nodup ∧ (∀ x ∈ policy k ps, x ∈ cpusOf ps) ∧ (policy k ps).length = k := by
  have hperm := sortedBuckets_perm ps
  have hall : (allCpus (sortedBuckets ps)).Nodup := by
    rw [allCpus_eq]
    unfold cpusOf
    exact (hperm.map _).nodup_iff.mpr hnd
  have hlen : (allCpus (sortedBuckets ps)).length = ps.length := by
    rw [allCpus_eq]; unfold cpusOf; rw [List.length_map]; exact hperm.length_eq
  have hmem : ∀ x, x ∈ allCpus (sortedBuckets ps) → x ∈ cpusOf ps := by
    intro x hx
    rw [allCpus_eq] at hx
    unfold cpusOf at hx ⊢
    exact ((hperm.map _).mem_iff).mp hx
  have h0 : Inv1 (sortedBuckets ps) k { need := k, out := [] } :=
    { nodup := List.nodup_nil, sub := (by intro x hx; cases hx), cnt := (by simp), nn := hk0,
      pair := fun b _ => pairInv_nil_used b }
  have h1 := pass1_inv hall (k.toNat + 1) _ h0
  have hrot : ∀ b ∈ rot (pass1 (sortedBuckets ps) (k.toNat + 1) { need := k, out := [] }).2 (sortedBuckets ps),
      b ∈ sortedBuckets ps := fun b hb => mem_rot.mp hb
  have h2 := pass2_inv _ hrot (k.toNat + 1) _ h1.toInv0
  have hcover : ∀ x ∈ allCpus (sortedBuckets ps),
      ∃ b ∈ rot (pass1 (sortedBuckets ps) (k.toNat + 1) { need := k, out := [] }).2 (sortedBuckets ps), x ∈ cpusOf b := by
    intro x hx
    obtain ⟨l, hl, hxl⟩ := List.mem_flatten.mp hx
    obtain ⟨b, hb, rfl⟩ := List.mem_map.mp hl
    exact ⟨b, mem_rot.mpr hb, hxl⟩
  have hfuel : (pass1 (sortedBuckets ps) (k.toNat + 1) { need := k, out := [] }).1.need.toNat ≤ k.toNat + 1 := by
    have := h1.cnt
    have := h1.nn
    omega
  have h3 := pass2_done hall (by rw [hlen]; exact hkn) _ hrot hcover (k.toNat + 1) _ h1.toInv0 hfuel
  have hpol : policy k ps =
      (pass2 (rot (pass1 (sortedBuckets ps) (k.toNat + 1) { need := k, out := [] }).2 (sortedBuckets ps)) (k.toNat + 1)
        (pass1 (sortedBuckets ps) (k.toNat + 1) { need := k, out := [] }).1).out := by
    unfold policy
    have : ¬ ((ps.length : Int) < k) := by omega
    simp [this]
  rw [hpol]
  refine ⟨h2.nodup, fun x hx => hmem x (h2.sub x hx), ?_⟩
  have := h2.cnt
  omega

/-- without any side condition on `k`: distinct members of the list, never more than asked for. -/
theorem policy_general (k : Int) (ps : List Proc) (hnd : (cpusOf ps).Nodup) :
    (policy k ps).Nodup ∧ (∀ x ∈ policy k ps, x ∈ cpusOf ps) ∧
      ((policy k ps).length = 0 ∨ ((policy k ps).length : Int) = k) := by
  by_cases h1 : (ps.length : Int) < k
  · rw [policy_short k ps h1]; simp
  · by_cases h2 : k ≤ 0
    · rw [policy_nonpos k ps h2]; simp
    · obtain ⟨a, b, c⟩ := policy_spec k ps hnd (by omega) (by omega)
      exact ⟨a, b, Or.inr c⟩

end KoordVerif.C10
