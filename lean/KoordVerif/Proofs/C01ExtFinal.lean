import KoordVerif.Proofs.C01ExtPool
/-
C01 extension (schedules quantifier), part 5: schedule independence.
Two configurations that satisfy the section invariant, have the same static data and the same local view
(cache entries + counted amounts) of every pod report the same figures — whatever order the cache lists are in.
Hence every complete interleaving of a pool of safe handlers on distinct pods ends with the figures of the
sequential execution of the same handlers.
-/
namespace KoordVerif.C01

theorem cntSum_perm (c : Nat → Int) {l1 l2 : List Pod} (h : l1.Perm l2) : cntSum c l1 = cntSum c l2 := by
  induction h with
  | nil => rfl
  | cons x _ ih => simp [cntSum, ih]
  | swap x y l => simp only [cntSum]; omega
  | trans _ _ ih1 ih2 => rw [ih1, ih2]

theorem nodup_of_ids {l : List Pod} (h : (l.map (·.id)).Nodup) : l.Nodup :=
  List.Pairwise.of_map (·.id) (fun a b hab e => hab (by rw [e])) h

theorem pods_perm {l1 l2 : List Pod} (h1 : (l1.map (·.id)).Nodup) (h2 : (l2.map (·.id)).Nodup)
    (h : ∀ j, getPod l1 j = getPod l2 j) : l1.Perm l2 := by
  apply (List.perm_ext_iff_of_nodup (nodup_of_ids h1) (nodup_of_ids h2)).mpr
  intro p
  constructor
  · intro hp
    have := getPod_of_mem h1 hp
    rw [h] at this
    have h3 := getPod_some this
    exact h3.1
  · intro hp
    have := getPod_of_mem h2 hp
    rw [← h] at this
    exact (getPod_some this).1

theorem key_of_statN : ∀ (A B : State), A.map statN = B.map statN → ((tree B).map (·.1)).Nodup →
    (∀ m qa qb, get? A m = some qa → get? B m = some qb →
      qa.selfRequest = qb.selfRequest ∧ qa.selfNpRequest = qb.selfNpRequest ∧
      qa.selfUsed = qb.selfUsed ∧ qa.selfNpUsed = qb.selfNpUsed) →
    A.map (fun q => (q.name, skey q)) = B.map (fun q => (q.name, skey q))
  | [], [], _, _, _ => rfl
  | [], _ :: _, h, _, _ => by simp at h
  | _ :: _, [], h, _, _ => by simp at h
  | x :: ta, y :: tb, h, hn, hs => by
    simp only [List.map_cons, List.cons.injEq] at h
    have hxy := h.1
    simp only [statN, Prod.mk.injEq] at hxy
    obtain ⟨e1, e2, e3, e4, e5⟩ := hxy
    simp only [tree, List.map_cons, List.nodup_cons] at hn
    have hh := hs x.name x y (by simp [get?]) (by simp [get?, e1])
    have ih := key_of_statN ta tb h.2 (by simpa [tree] using hn.2) (by
      intro m qa qb ha hb
      have hne : ¬ y.name = m := by
        intro e
        apply hn.1
        have := get?_mem hb
        have hnm := get?_name hb
        simp only [List.map_map, List.mem_map, Function.comp]
        exact ⟨qb, this, by simp [hnm, e]⟩
      have hne' : ¬ x.name = m := by rw [e1]; exact hne
      exact hs m qa qb (by simp [get?, hne', ha]) (by simp [get?, hne, hb]))
    simp only [List.map_cons, List.cons.injEq]
    refine ⟨?_, ih⟩
    simp [skey, e1, e2, e3, e4, e5, hh.1, hh.2.1, hh.2.2.1, hh.2.2.2]

theorem localOf_ent {s : State} {c : Cnts} {j m : Nat} : (localOf s c j).ent m = entry s m j := rfl

/-- Same static data, same per-pod local views, both inside the section invariant: same reported figures. -/
theorem aggs_eq_of_locals {A B : State} {cA cB : Cnts} (hs : A.map statN = B.map statN) (hA : CI A cA) (hB : CI B cB)
    (hl : ∀ j, localOf A cA j = localOf B cB j) :
    ∀ m qa qb, get? A m = some qa → get? B m = some qb → aggs qa = aggs qb := by
  have hself : ∀ m qa qb, get? A m = some qa → get? B m = some qb →
      qa.selfRequest = qb.selfRequest ∧ qa.selfNpRequest = qb.selfNpRequest ∧
      qa.selfUsed = qb.selfUsed ∧ qa.selfNpUsed = qb.selfNpUsed := by
    intro m qa qb ha hb
    have hperm : qa.pods.Perm qb.pods := by
      apply pods_perm (hA.pods qa (get?_mem ha)) (hB.pods qb (get?_mem hb))
      intro j
      have := congrArg (fun L => L.ent m) (hl j)
      simp only [localOf_ent, entry, ha, hb] at this
      exact this
    obtain ⟨a1, a2, a3, a4⟩ := hA.self m qa ha
    obtain ⟨b1, b2, b3, b4⟩ := hB.self m qb hb
    have hr : cA.r m = cB.r m := by funext j; exact congrArg (fun L => L.r m) (hl j)
    have hnp : cA.np m = cB.np m := by funext j; exact congrArg (fun L => L.np m) (hl j)
    have hu : cA.u m = cB.u m := by funext j; exact congrArg (fun L => L.u m) (hl j)
    have hnu : cA.nu m = cB.nu m := by funext j; exact congrArg (fun L => L.nu m) (hl j)
    rw [a1, a2, a3, a4, b1, b2, b3, b4, hr, hnp, hu, hnu]
    exact ⟨cntSum_perm _ hperm, cntSum_perm _ hperm, cntSum_perm _ hperm, cntSum_perm _ hperm⟩
  have hkey := key_of_statN A B hs hB.topo.tree.nodup hself
  intro m qa qb ha hb
  exact eqs_unique hkey hB.topo.tree hB.req hB.used hA.req hA.used m qb qa hb ha

/-! ### pools: the theorems -/

/-- every reachable configuration of a pool of safe handlers on distinct pods satisfies the section invariant
(all tree equations hold BETWEEN any two sections; only the self figures lag behind the cache, by exactly the
counted amounts of the pods whose handler is in flight) -/
theorem interleaving_invariant {s0 : State} {pool0 : Pool} (hg : Good s0) (hn : (pool0.map (·.1)).Nodup)
    (hsafe : ∀ th ∈ pool0, Safe (stat s0) th.1 (localOf s0 (cntOf s0) th.1) th.2)
    {s : State} {pool : Pool} (hs : PSteps (s0, pool0) (s, pool)) :
    ∃ c, CI s c ∧ ∀ j, j ∉ pool.map (·.1) → ∀ m, Settled s c m j := by
  obtain ⟨c, hc⟩ := pinv_steps (CI_of_good hg) hn hsafe hs
  refine ⟨c, hc.ci, fun j hj m => ?_⟩
  have hl := hc.rest j hj
  have h0 : LSettled (localOf s0 (cntOf s0) j) := lsettled_localOf.mpr (fun m => settled_cntOf s0 m j)
  rw [← hl] at h0
  exact lsettled_localOf.mp h0 m

/-- at every quiescent point (no handler in flight) the quiescent invariant holds again -/
theorem interleaving_quiescent_good {s0 : State} {pool0 : Pool} (hg : Good s0) (hn : (pool0.map (·.1)).Nodup)
    (hsafe : ∀ th ∈ pool0, Safe (stat s0) th.1 (localOf s0 (cntOf s0) th.1) th.2)
    {s : State} {pool : Pool} (hs : PSteps (s0, pool0) (s, pool)) (hq : Quiescent pool) : Good s := by
  obtain ⟨c, hc⟩ := pinv_steps (CI_of_good hg) hn hsafe hs
  exact good_of_CI hc.ci (pinv_quiescent_settled (fun m j => settled_cntOf s0 m j) hc hq)

/-- any two complete interleavings report the same figures for every group and hold the same cache entries -/
theorem interleaving_figures_unique {s0 : State} {c0 : Cnts} {pool0 : Pool} (hg : CI s0 c0)
    (hn : (pool0.map (·.1)).Nodup)
    (hsafe : ∀ th ∈ pool0, Safe (stat s0) th.1 (localOf s0 c0 th.1) th.2)
    {sA sB : State} {poolA poolB : Pool}
    (hA : PSteps (s0, pool0) (sA, poolA)) (hqA : Quiescent poolA)
    (hB : PSteps (s0, pool0) (sB, poolB)) (hqB : Quiescent poolB) :
    (∀ m qa qb, get? sA m = some qa → get? sB m = some qb → aggs qa = aggs qb) ∧
    (∀ m j, entry sA m j = entry sB m j) ∧ sA.map statN = sB.map statN := by
  obtain ⟨cA, hcA⟩ := pinv_steps hg hn hsafe hA
  obtain ⟨cB, hcB⟩ := pinv_steps hg hn hsafe hB
  have hl : ∀ j, localOf sA cA j = localOf sB cB j := fun j => by
    rw [pinv_final hcA hqA j, pinv_final hcB hqB j]
  have hs : sA.map statN = sB.map statN := hcA.statEq.trans hcB.statEq.symm
  refine ⟨aggs_eq_of_locals hs hcA.ci hcB.ci hl, fun m j => ?_, hs⟩
  have := congrArg (fun L => L.ent m) (hl j)
  simpa [localOf_ent] using this

/-! ### the sequential execution is one of the interleavings -/

def runMicros (s : State) (ms : List Micro) : State := ms.foldl mstep s

/-- handler after handler, each one atomically -/
def runThreads (s : State) (pool : Pool) : State := pool.foldl (fun s th => runMicros s th.2) s

def finished (pool : Pool) : Pool := pool.map (fun th => (th.1, []))

theorem finished_quiescent (pool : Pool) : Quiescent (finished pool) := by
  intro th hth
  obtain ⟨x, _, rfl⟩ := List.mem_map.mp hth
  rfl

theorem psteps_thread (pre post : Pool) (i : Nat) : ∀ (k : List Micro) (s : State),
    PSteps (s, pre ++ (i, k) :: post) (runMicros s k, pre ++ (i, []) :: post)
  | [], s => PSteps.refl _
  | m :: k, s => by
    have h1 : PSteps (s, pre ++ (i, m :: k) :: post) (mstep s m, pre ++ (i, k) :: post) :=
      PSteps.tail (PSteps.refl _) (PStep.mk s pre post i m k)
    exact h1.trans (psteps_thread pre post i k (mstep s m))

theorem psteps_sequential : ∀ (done pool : Pool) (s : State),
    PSteps (s, finished done ++ pool) (runThreads s pool, finished done ++ finished pool)
  | done, [], s => by simp only [runThreads, finished, List.map_nil, List.foldl_nil]; exact PSteps.refl _
  | done, th :: t, s => by
    have h1 := psteps_thread (finished done) t th.1 th.2 s
    have h2 := psteps_sequential (done ++ [th]) t (runMicros s th.2)
    have e1 : finished (done ++ [th]) ++ t = finished done ++ (th.1, []) :: t := by simp [finished]
    have e2 : finished (done ++ [th]) ++ finished t = finished done ++ finished (th :: t) := by simp [finished]
    rw [e1, e2] at h2
    exact h1.trans h2

theorem psteps_seq (pool : Pool) (s : State) : PSteps (s, pool) (runThreads s pool, finished pool) := by
  simpa [finished] using psteps_sequential [] pool s

/-- SCHEDULES: every complete interleaving, at the granularity of the separately locked sections, of safe pod
handlers on distinct pods ends in a state that satisfies the quiescent invariant and reports, for every group,
exactly the figures of the sequential execution of the same handlers (in the order of the pool — hence in any
order, a permuted pool being a pool), with the same cache entries. -/
theorem interleaving_serializable {s0 : State} {pool0 : Pool} (hg : Good s0) (hn : (pool0.map (·.1)).Nodup)
    (hsafe : ∀ th ∈ pool0, Safe (stat s0) th.1 (localOf s0 (cntOf s0) th.1) th.2)
    {s : State} {pool : Pool} (hs : PSteps (s0, pool0) (s, pool)) (hq : Quiescent pool) :
    Good s ∧ LocalInv s ∧
    (∀ m q q', get? s m = some q → get? (runThreads s0 pool0) m = some q' → aggs q = aggs q') ∧
    (∀ m j, entry s m j = entry (runThreads s0 pool0) m j) := by
  have hgood := interleaving_quiescent_good hg hn hsafe hs hq
  have hu := interleaving_figures_unique (CI_of_good hg) hn hsafe hs hq (psteps_seq pool0 s0) (finished_quiescent pool0)
  exact ⟨hgood, good_localInv hgood, hu.1, hu.2.1⟩

/-! ### delta_commute -/

/-- `delta_commute` (DESIGN §4 C01 T6): two sections of the handlers of DISTINCT pods — in particular two atomic
delta propagations, request or used, in any combination — that are both admissible in a state of the section
invariant commute: both orders keep the invariant and end with the same figures for every group, the same cache
entries and the same static data. -/
theorem delta_commute {s : State} {c : Cnts} {i1 i2 : Nat} {m1 m2 : Micro} (h : CI s c) (hne : i1 ≠ i2)
    (h1 : okStep (stat s) i1 (localOf s c i1) m1) (h2 : okStep (stat s) i2 (localOf s c i2) m2) :
    (∃ c', CI (mstep (mstep s m1) m2) c') ∧ (∃ c', CI (mstep (mstep s m2) m1) c') ∧
    (∀ m qa qb, get? (mstep (mstep s m1) m2) m = some qa → get? (mstep (mstep s m2) m1) m = some qb → aggs qa = aggs qb) ∧
    (∀ m j, entry (mstep (mstep s m1) m2) m j = entry (mstep (mstep s m2) m1) m j) := by
  obtain ⟨c1, hc1, l1, f1, st1⟩ := mstep_CI h h1
  obtain ⟨c2, hc2, l2, f2, st2⟩ := mstep_CI h h2
  have hs1 : stat (mstep s m1) = stat s := stat_of_statN st1
  have hs2 : stat (mstep s m2) = stat s := stat_of_statN st2
  have h2' : okStep (stat (mstep s m1)) i2 (localOf (mstep s m1) c1 i2) m2 := by
    rw [hs1, f1 i2 (fun e => hne e.symm)]; exact h2
  have h1' : okStep (stat (mstep s m2)) i1 (localOf (mstep s m2) c2 i1) m1 := by
    rw [hs2, f2 i1 hne]; exact h1
  obtain ⟨cA, hcA, lA, fA, stA⟩ := mstep_CI hc1 h2'
  obtain ⟨cB, hcB, lB, fB, stB⟩ := mstep_CI hc2 h1'
  have hl : ∀ j, localOf (mstep (mstep s m1) m2) cA j = localOf (mstep (mstep s m2) m1) cB j := by
    intro j
    by_cases hj1 : j = i1
    · subst hj1
      rw [fA j hne, l1, lB, hs2, f2 j hne]
    · by_cases hj2 : j = i2
      · subst hj2
        rw [lA, hs1, f1 j hj1, fB j hj1, l2]
      · rw [fA j hj2, f1 j hj1, fB j hj1, f2 j hj2]
  have hs : (mstep (mstep s m1) m2).map statN = (mstep (mstep s m2) m1).map statN :=
    (stA.trans st1).trans (stB.trans st2).symm
  refine ⟨⟨cA, hcA⟩, ⟨cB, hcB⟩, aggs_eq_of_locals hs hcA hcB hl, fun m j => ?_⟩
  have := congrArg (fun L => L.ent m) (hl j)
  simpa [localOf_ent] using this

end KoordVerif.C01
