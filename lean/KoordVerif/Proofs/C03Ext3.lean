import KoordVerif.Proofs.C03Ext
/-
C03 — the "is the update applied at all" gate (`QuotaInfo.IsQuotaChange`, used by `Plugin.OnQuotaUpdate` and
`GroupQuotaManager.UpdateQuota`) and what it guarantees: after ANY history the limits the manager holds for a group
are those of the LAST DECLARED object of that group, on every dimension of the world — whichever branch of
`UpdateQuota` each update took (dropped as "not changed", max/min only, re-parenting, tree reset) and whatever pod /
runtime events fall in between.  Key presence counts: `{cpu, gpu: 0}` and `{cpu}` are different declarations.
Helper development; the property theorems (`limits_follow_last_declared`, `removeZeros_gate_counterexample`, the gated
closed loop) are in `Props/C03.lean` §8.
-/
namespace KoordVerif.C03

/-! ### the gate -/

theorem rlEq_iff (D : Nat) (a b : RL) : rlEq D a b = true ↔ ∀ d, d < D → a d = b d := by
  unfold rlEq
  simp [List.all_eq_true]

/-- the update is dropped exactly when the declared object repeats what the manager holds: same allow-lent, is-parent
    and parent, and max / min equal AS MAPS on every dimension (an entry with value zero is an entry). -/
theorem isQuotaChange_false_iff (D : Nat) (q : Quota) (parent : Nat) (ip l : Bool) (mx mn : RL) :
    isQuotaChange D q parent ip l mx mn = false ↔
      q.lent = l ∧ q.isParent = ip ∧ q.parent = parent ∧
      (∀ d, d < D → q.max d = mx d) ∧ (∀ d, d < D → q.min d = mn d) := by
  unfold isQuotaChange
  simp only [Bool.or_eq_false_iff, bne_eq_false_iff_eq, Bool.not_eq_false', rlEq_iff]
  constructor
  · rintro ⟨⟨⟨⟨h1, h2⟩, h3⟩, h4⟩, h5⟩; exact ⟨h1, h2, h3, h4, h5⟩
  · rintro ⟨h1, h2, h3, h4, h5⟩; exact ⟨⟨⟨⟨h1, h2⟩, h3⟩, h4⟩, h5⟩

theorem quotaUpdate_cases (s : State) (n parent : Nat) (ip l : Bool) (mx mn : RL) :
    quotaUpdate s n parent ip l mx mn = quotaSet s n parent ip l mx mn ∨
    (quotaUpdate s n parent ip l mx mn = s ∧
      ∃ q, findQ s.quotas n = some q ∧ isQuotaChange s.dims q parent ip l mx mn = false) := by
  unfold quotaUpdate
  cases hq : findQ s.quotas n with
  | none => exact Or.inl rfl
  | some q =>
    simp only []
    by_cases hc : isQuotaChange s.dims q parent ip l mx mn = true
    · exact Or.inl (by rw [if_pos hc])
    · have hc' : isQuotaChange s.dims q parent ip l mx mn = false := by simpa using hc
      exact Or.inr ⟨by rw [if_neg hc], q, rfl, hc'⟩

/-! ### the limits the manager holds for a group -/

def limOf (qs : List Quota) (n : Nat) : Option (RL × RL) := (findQ qs n).map fun q => (q.max, q.min)

/-- same world size, same limits for every group. -/
def SameLims (s s' : State) : Prop := s'.dims = s.dims ∧ ∀ n, limOf s'.quotas n = limOf s.quotas n

theorem sameLims_refl (s : State) : SameLims s s := ⟨rfl, fun _ => rfl⟩

theorem sameLims_trans {a b c : State} (h1 : SameLims a b) (h2 : SameLims b c) : SameLims a c :=
  ⟨h2.1.trans h1.1, fun n => (h2.2 n).trans (h1.2 n)⟩

theorem limOf_map (qs : List Quota) (f : Quota → Quota) (hname : ∀ q, (f q).name = q.name) (n : Nat)
    (hlim : ∀ q, q.name = n → (f q).max = q.max ∧ (f q).min = q.min) : limOf (qs.map f) n = limOf qs n := by
  unfold limOf
  rw [findQ_map f hname]
  cases h : findQ qs n with
  | none => rfl
  | some q =>
    have := hlim q (findQ_some h).2
    simp [this.1, this.2]

theorem addUsed_fields (g : Quota) (δ nδ : Nat → Int) (b : Bool) :
    (addUsed g δ nδ b).name = g.name ∧ (addUsed g δ nδ b).max = g.max ∧ (addUsed g δ nδ b).min = g.min := ⟨rfl, rfl, rfl⟩

theorem limOf_applyDelta (s : State) (names : List Nat) (self : Option Nat) (δ nδ : Nat → Int) (n : Nat) :
    limOf (applyDelta s names self δ nδ) n = limOf s.quotas n := by
  unfold applyDelta
  apply limOf_map
  · intro q; split <;> rfl
  · intro q _; split <;> exact ⟨rfl, rfl⟩

theorem sameLims_of (s s' : State) (hd : s'.dims = s.dims)
    (hq : s'.quotas = s.quotas ∨ ∃ st names self δ nδ, SameLims s st ∧ s'.quotas = applyDelta st names self δ nδ) :
    SameLims s s' := by
  refine ⟨hd, fun n => ?_⟩
  rcases hq with h | ⟨st, names, self, δ, nδ, hst, h⟩
  · rw [h]
  · rw [h, limOf_applyDelta]; exact hst.2 n

theorem sameLims_foldl {α : Type} (f : State → α → State) (hf : ∀ st a, SameLims st (f st a)) :
    ∀ (L : List α) (st : State), SameLims st (L.foldl f st) := by
  intro L
  induction L with
  | nil => intro st; exact sameLims_refl st
  | cons a L ih => intro st; exact sameLims_trans (hf st a) (ih (f st a))

theorem findQ_append (qs : List Quota) (x : Quota) (n : Nat) :
    findQ (qs ++ [x]) n = (findQ qs n).or (if x.name == n then some x else none) := by
  unfold findQ
  rw [List.find?_append]
  congr 1
  simp only [List.find?_cons, List.find?_nil]
  cases (x.name == n) <;> rfl

theorem findQ_filter_ne (qs : List Quota) (m n : Nat) (h : n ≠ m) :
    findQ (qs.filter fun g => g.name != m) n = findQ qs n := by
  unfold findQ
  rw [List.find?_filter]
  congr 1
  funext a
  by_cases ha : a.name = n
  · simp [ha, h]
  · simp [ha]

theorem findQ_filter_self (qs : List Quota) (m : Nat) : findQ (qs.filter fun g => g.name != m) m = none := by
  unfold findQ
  rw [List.find?_filter, List.find?_eq_none]
  intro x _
  by_cases hx : x.name = m <;> simp [hx]

/-! ### what each branch of `UpdateQuota` does to the limits -/

theorem limOf_quotaAdd (s : State) (m parent : Nat) (ip l : Bool) (mx mn : RL) (n : Nat) :
    limOf (quotaAdd s m parent ip l mx mn).quotas n =
      (limOf s.quotas n).or (if m = n then some (mx, mn) else none) := by
  unfold quotaAdd limOf
  simp only [findQ_append]
  cases findQ s.quotas n with
  | some q => rfl
  | none =>
    by_cases h : m = n <;> simp [h]

theorem limOf_quotaMaxMin (s : State) (m : Nat) (mx mn : RL) (n : Nat) :
    limOf (quotaMaxMin s m mx mn).quotas n =
      if n = m then (limOf s.quotas n).map (fun _ => (mx, mn)) else limOf s.quotas n := by
  unfold quotaMaxMin
  by_cases h : n = m
  · rw [if_pos h]
    unfold limOf
    rw [findQ_map _ (by intro q; split <;> rfl)]
    cases hq : findQ s.quotas n with
    | none => rfl
    | some q =>
      have : q.name = m := (findQ_some hq).2.trans h
      simp [this]
  · rw [if_neg h]
    apply limOf_map
    · intro q; split <;> rfl
    · intro q hq
      have : q.name ≠ m := fun e => h (hq.symm.trans e)
      simp [this]

theorem limOf_quotaMeta (s : State) (m : Nat) (ip l : Bool) (mx mn : RL) (n : Nat) :
    limOf (quotaMeta s m ip l mx mn).quotas n =
      if n = m then (limOf s.quotas n).map (fun _ => (mx, mn)) else limOf s.quotas n := by
  unfold quotaMeta
  by_cases h : n = m
  · rw [if_pos h]
    unfold limOf
    rw [findQ_map _ (by intro q; split <;> rfl)]
    cases hq : findQ s.quotas n with
    | none => rfl
    | some q =>
      have : q.name = m := (findQ_some hq).2.trans h
      simp [this]
  · rw [if_neg h]
    apply limOf_map
    · intro q; split <;> rfl
    · intro q hq
      have : q.name ≠ m := fun e => h (hq.symm.trans e)
      simp [this]

theorem deleteQuota_dims (s : State) (m : Nat) : (deleteQuota s m).dims = s.dims := by
  unfold deleteQuota
  cases findQ s.quotas m with
  | none => rfl
  | some q => simp only []; split <;> rfl

theorem limOf_deleteQuota (s : State) (m n : Nat) :
    limOf (deleteQuota s m).quotas n = if n = m then none else limOf s.quotas n := by
  unfold deleteQuota
  cases hq : findQ s.quotas m with
  | none =>
    simp only []
    by_cases h : n = m
    · rw [if_pos h, h]; unfold limOf; rw [hq]; rfl
    · rw [if_neg h]
  | some q =>
    simp only []
    have key : limOf (s.quotas.filter fun g => g.name != m) n = if n = m then none else limOf s.quotas n := by
      unfold limOf
      by_cases h : n = m
      · rw [if_pos h, h, findQ_filter_self]; rfl
      · rw [if_neg h, findQ_filter_ne _ _ _ h]
    split
    · exact key
    · simp only []
      rw [limOf_applyDelta]; exact key

theorem reparent_dims (s : State) (old : Quota) (parent : Nat) (ip l : Bool) (mx mn : RL) :
    (reparent s old parent ip l mx mn).dims = s.dims := by
  unfold reparent
  simp only []
  have h2 : (quotaAdd (deleteQuota s old.name) old.name parent ip l mx mn).dims = s.dims := by
    unfold quotaAdd; exact deleteQuota_dims s old.name
  split <;> split <;> exact h2

theorem limOf_reparent (s : State) (old : Quota) (parent : Nat) (ip l : Bool) (mx mn : RL) (n : Nat) :
    limOf (reparent s old parent ip l mx mn).quotas n =
      if n = old.name then some (mx, mn) else limOf s.quotas n := by
  have h2 : limOf (quotaAdd (deleteQuota s old.name) old.name parent ip l mx mn).quotas n =
      if n = old.name then some (mx, mn) else limOf s.quotas n := by
    rw [limOf_quotaAdd, limOf_deleteQuota]
    by_cases h : n = old.name
    · simp [h]
    · have : ¬ old.name = n := fun e => h e.symm
      simp [h, this]
  unfold reparent
  simp only []
  split <;> split <;> (try simp only [limOf_applyDelta]) <;> exact h2

theorem reAdd_sameLims (st : State) (q : Quota) : SameLims st (reAdd st q) :=
  sameLims_of st _ rfl (Or.inr ⟨st, _, _, _, _, sameLims_refl st, rfl⟩)

theorem resetAll_sameLims (s : State) : SameLims s (resetAll s) := by
  unfold resetAll
  refine sameLims_trans ?_ (sameLims_foldl reAdd reAdd_sameLims _ _)
  refine ⟨rfl, fun n => ?_⟩
  exact limOf_map s.quotas clearQ clearQ_name n (fun q _ => ⟨clearQ_max q, clearQ_min q⟩)

theorem quotaSet_dims (s : State) (m parent : Nat) (ip l : Bool) (mx mn : RL) :
    (quotaSet s m parent ip l mx mn).dims = s.dims := by
  unfold quotaSet
  cases findQ s.quotas m with
  | none => rfl
  | some q =>
    simp only []
    split
    · rfl
    · split
      · exact reparent_dims s q parent ip l mx mn
      · exact (resetAll_sameLims _).1

/-- every branch of `UpdateQuota` leaves the declared lists as the group's limits, and nobody else's limits move. -/
theorem limOf_quotaSet (s : State) (m parent : Nat) (ip l : Bool) (mx mn : RL) (n : Nat) :
    limOf (quotaSet s m parent ip l mx mn).quotas n = if n = m then some (mx, mn) else limOf s.quotas n := by
  unfold quotaSet
  cases hq : findQ s.quotas m with
  | none =>
    simp only []
    rw [limOf_quotaAdd]
    by_cases h : n = m
    · subst h
      have hn : limOf s.quotas n = none := by unfold limOf; rw [hq]; rfl
      simp [hn]
    · have : ¬ m = n := fun e => h e.symm
      simp [h, this]
  | some q =>
    simp only []
    have hsome : n = m → (limOf s.quotas n).map (fun _ => (mx, mn)) = some (mx, mn) := by
      intro h; unfold limOf; rw [h, hq]; rfl
    split
    · rw [limOf_quotaMaxMin]
      by_cases h : n = m
      · rw [if_pos h, if_pos h]; exact hsome h
      · rw [if_neg h, if_neg h]
    · split
      · rw [limOf_reparent, (findQ_some hq).2]
      · rw [(resetAll_sameLims _).2 n, limOf_quotaMeta]
        by_cases h : n = m
        · rw [if_pos h, if_pos h]; exact hsome h
        · rw [if_neg h, if_neg h]

/-! ### the manager's limits = the last declared object -/

/-- the manager's limits of group `n` agree with the declared lists `mx`, `mn` on every dimension of the world (key
    presence included). -/
def Declares (s : State) (n : Nat) (mx mn : RL) : Prop :=
  ∃ mx' mn', limOf s.quotas n = some (mx', mn') ∧ ∀ d, d < s.dims → mx' d = mx d ∧ mn' d = mn d

theorem quotaUpdate_dims (s : State) (m parent : Nat) (ip l : Bool) (mx mn : RL) :
    (quotaUpdate s m parent ip l mx mn).dims = s.dims := by
  rcases quotaUpdate_cases s m parent ip l mx mn with h | ⟨h, _⟩ <;> rw [h]
  exact quotaSet_dims s m parent ip l mx mn

/-- `OnQuotaAdd` / `OnQuotaUpdate` with an object that declares `mx`, `mn`: afterwards these are the group's limits —
    also when the gate dropped the update. -/
theorem quotaUpdate_declares (s : State) (m parent : Nat) (ip l : Bool) (mx mn : RL) :
    Declares (quotaUpdate s m parent ip l mx mn) m mx mn := by
  unfold Declares
  rcases quotaUpdate_cases s m parent ip l mx mn with h | ⟨h, q, hq, hc⟩
  · rw [h, limOf_quotaSet, if_pos rfl]
    exact ⟨mx, mn, rfl, fun _ _ => ⟨rfl, rfl⟩⟩
  · rw [h]
    refine ⟨q.max, q.min, by unfold limOf; rw [hq]; rfl, ?_⟩
    have := (isQuotaChange_false_iff _ _ _ _ _ _ _).mp hc
    exact fun d hd => ⟨this.2.2.2.1 d hd, this.2.2.2.2 d hd⟩

theorem quotaUpdate_other (s : State) (m parent : Nat) (ip l : Bool) (mx mn : RL) (n : Nat) (h : n ≠ m) :
    limOf (quotaUpdate s m parent ip l mx mn).quotas n = limOf s.quotas n := by
  rcases quotaUpdate_cases s m parent ip l mx mn with h' | ⟨h', _⟩ <;> rw [h']
  rw [limOf_quotaSet, if_neg h]

/-! ### pod, runtime and migration events never touch a limit -/

theorem reserve_sameLims (s : State) (id : Nat) : SameLims s (reserve s id) := by
  unfold reserve
  cases findP s.pods id with
  | none => exact sameLims_refl s
  | some p =>
    simp only []
    cases findQ s.quotas p.quota with
    | none => exact sameLims_refl s
    | some q =>
      simp only []
      split
      · exact sameLims_refl s
      · exact sameLims_of s _ rfl (Or.inr ⟨s, _, _, _, _, sameLims_refl s, rfl⟩)

theorem unreserve_sameLims (s : State) (id : Nat) : SameLims s (unreserve s id) := by
  unfold unreserve
  cases findP s.pods id with
  | none => exact sameLims_refl s
  | some p =>
    simp only []
    cases findQ s.quotas p.quota with
    | none => exact sameLims_refl s
    | some q =>
      simp only []
      split
      · exact sameLims_refl s
      · exact sameLims_of s _ rfl (Or.inr ⟨s, _, _, _, _, sameLims_refl s, rfl⟩)

theorem podDelete_sameLims (s : State) (id : Nat) : SameLims s (podDelete s id) := by
  unfold podDelete
  cases findP s.pods id with
  | none => exact sameLims_refl s
  | some p =>
    simp only []
    cases findQ s.quotas p.quota with
    | none => exact sameLims_refl s
    | some q =>
      simp only []
      split
      · exact sameLims_refl s
      · refine sameLims_of s _ rfl ?_
        by_cases ha : p.assigned = true
        · exact Or.inr ⟨s, _, _, _, _, sameLims_refl s, by rw [if_pos ha]⟩
        · exact Or.inl (by simp [ha])

theorem podAdd_sameLims (s : State) (id : Nat) : SameLims s (podAdd s id) := by
  unfold podAdd
  cases findP s.pods id with
  | none => exact sameLims_refl s
  | some p =>
    simp only []
    cases findQ s.quotas (homeOf s p) with
    | none => exact sameLims_refl s
    | some q =>
      simp only []
      split
      · exact sameLims_refl s
      · exact sameLims_of s _ rfl (Or.inl rfl)

theorem setRuntime_sameLims (s : State) (n : Nat) (r : RL) : SameLims s (setRuntime s n r) := by
  unfold setRuntime
  refine ⟨rfl, fun k => ?_⟩
  apply limOf_map
  · intro q; split <;> rfl
  · intro q _; split <;> exact ⟨rfl, rfl⟩

theorem migrateOne_sameLims (s : State) (p : Pod) : SameLims s (migrateOne s p) := by
  unfold migrateOne
  cases findQ s.quotas p.quota with
  | none => exact sameLims_refl s
  | some qd =>
    cases findQ s.quotas p.label with
    | none => exact sameLims_refl s
    | some qx =>
      simp only []
      by_cases ha : p.assigned = true
      · simp only [ha, if_true]
        refine sameLims_of s _ rfl (Or.inr ⟨_, _, _, _, _, ?_, rfl⟩)
        exact sameLims_of s _ rfl (Or.inr ⟨s, _, _, _, _, sameLims_refl s, rfl⟩)
      · simp only [ha]
        exact sameLims_of s _ rfl (Or.inl rfl)

theorem unghostOne_sameLims (s : State) (p : Pod) : SameLims s (unghostOne s p) := by
  unfold unghostOne
  cases s.dflt with
  | none => exact sameLims_refl s
  | some dn =>
    simp only []
    cases findQ s.quotas dn with
    | none => exact sameLims_refl s
    | some qd =>
      simp only []
      by_cases ha : p.ghostAssigned = true
      · simp only [ha, if_true]
        exact sameLims_of s _ rfl (Or.inr ⟨s, _, _, _, _, sameLims_refl s, rfl⟩)
      · simp only [ha]
        exact sameLims_of s _ rfl (Or.inl rfl)

theorem migrate_sameLims (s : State) : SameLims s (migrate s) := by
  unfold migrate unghost
  exact sameLims_trans (sameLims_foldl unghostOne unghostOne_sameLims _ s)
    (sameLims_foldl migrateOne migrateOne_sameLims _ _)

theorem podRedef_sameLims (s : State) (id : Nat) (np : Bool) (req : RL) : SameLims s (podRedef s id np req) := by
  unfold podRedef
  cases findP s.pods id with
  | none => exact sameLims_refl s
  | some p =>
    simp only []
    split
    · exact sameLims_refl s
    · exact sameLims_of s _ rfl (Or.inl rfl)

theorem unreserveObj_sameLims (s : State) (id uid : Nat) : SameLims s (unreserveObj s id uid) := by
  unfold unreserveObj
  cases findP s.pods id with
  | none => exact sameLims_refl s
  | some p =>
    simp only []
    split
    · exact unreserve_sameLims s id
    · exact sameLims_refl s

theorem podBind_sameLims (s : State) (id : Nat) : SameLims s (podBind s id) := by
  unfold podBind
  cases findP s.pods id with
  | none => exact sameLims_refl s
  | some p =>
    simp only []
    split
    · exact reserve_sameLims s id
    · cases findQ s.quotas p.label with
      | none => exact sameLims_refl s
      | some qx => exact sameLims_of s _ rfl (Or.inr ⟨s, _, _, _, _, sameLims_refl s, rfl⟩)

/-- one event of a history as the plugin sees it: a quota object goes through the gate (`quotaUpdate`), everything
    else is `step`. -/
def stepG (s : State) : Op → State
  | .quotaSet n p ip l mx mn => quotaUpdate s n p ip l mx mn
  | op => (step s op).1

/-- the lists declared by the last quota object of group `n` in the history. -/
def lastDecl (n : Nat) : List Op → Option (RL × RL)
  | [] => none
  | op :: ops =>
    match lastDecl n ops with
    | some x => some x
    | none =>
      match op with
      | .quotaSet m _ _ _ mx mn => if m = n then some (mx, mn) else none
      | _ => none

theorem stepG_other (s : State) (op : Op) (n : Nat)
    (h : ∀ m p ip l mx mn, op = .quotaSet m p ip l mx mn → m ≠ n) :
    (stepG s op).dims = s.dims ∧ limOf (stepG s op).quotas n = limOf s.quotas n := by
  cases op with
  | quotaSet m p ip l mx mn =>
    have hm : n ≠ m := fun e => h m p ip l mx mn rfl e.symm
    exact ⟨quotaUpdate_dims s m p ip l mx mn, quotaUpdate_other s m p ip l mx mn n hm⟩
  | setRuntime k r => exact ⟨(setRuntime_sameLims s k r).1, (setRuntime_sameLims s k r).2 n⟩
  | podDef id q np req => exact ⟨rfl, rfl⟩
  | podAdd id => exact ⟨(podAdd_sameLims s id).1, (podAdd_sameLims s id).2 n⟩
  | attempt id cfg =>
    show (step s (.attempt id cfg)).1.dims = s.dims ∧ limOf (step s (.attempt id cfg)).1.quotas n = limOf s.quotas n
    simp only [step]
    cases findP s.pods id <;> exact ⟨rfl, rfl⟩
  | reserve id => exact ⟨(reserve_sameLims s id).1, (reserve_sameLims s id).2 n⟩
  | unreserve id => exact ⟨(unreserve_sameLims s id).1, (unreserve_sameLims s id).2 n⟩
  | podDelete id => exact ⟨(podDelete_sameLims s id).1, (podDelete_sameLims s id).2 n⟩
  | setDefault k => exact ⟨rfl, rfl⟩
  | migrate => exact ⟨(migrate_sameLims s).1, (migrate_sameLims s).2 n⟩
  | podRedef id np req => exact ⟨(podRedef_sameLims s id np req).1, (podRedef_sameLims s id np req).2 n⟩
  | unreserveObj id uid => exact ⟨(unreserveObj_sameLims s id uid).1, (unreserveObj_sameLims s id uid).2 n⟩
  | podBind id => exact ⟨(podBind_sameLims s id).1, (podBind_sameLims s id).2 n⟩

theorem stepG_dims (s : State) (op : Op) : (stepG s op).dims = s.dims := by
  cases op with
  | quotaSet m p ip l mx mn => exact quotaUpdate_dims s m p ip l mx mn
  | _ => exact (stepG_other s _ 0 (by intros; simp_all)).1

theorem declares_congr {s s' : State} {n : Nat} {mx mn : RL} (hd : s'.dims = s.dims)
    (hl : limOf s'.quotas n = limOf s.quotas n) (h : Declares s n mx mn) : Declares s' n mx mn := by
  unfold Declares at *
  rw [hd, hl]; exact h

theorem last_declared_aux (n : Nat) : ∀ (ops : List Op) (s : State),
    match lastDecl n ops with
    | some (mx, mn) => Declares (ops.foldl stepG s) n mx mn
    | none => (ops.foldl stepG s).dims = s.dims ∧ limOf (ops.foldl stepG s).quotas n = limOf s.quotas n := by
  intro ops
  induction ops with
  | nil => intro s; exact ⟨rfl, rfl⟩
  | cons op ops ih =>
    intro s
    have ih' := ih (stepG s op)
    simp only [List.foldl_cons, lastDecl]
    cases hl : lastDecl n ops with
    | some x =>
      rw [hl] at ih'
      exact ih'
    | none =>
      rw [hl] at ih'
      simp only [] at ih' ⊢
      by_cases hop : ∃ m p ip l mx mn, op = .quotaSet m p ip l mx mn ∧ m = n
      · obtain ⟨m, p, ip, l, mx, mn, rfl, rfl⟩ := hop
        simp only [if_true]
        exact declares_congr ih'.1 ih'.2 (quotaUpdate_declares s m p ip l mx mn)
      · have hoth : ∀ m p ip l mx mn, op = .quotaSet m p ip l mx mn → m ≠ n :=
          fun m p ip l mx mn e hm => hop ⟨m, p, ip, l, mx, mn, e, hm⟩
        have hs := stepG_other s op n hoth
        have : (match op with
            | .quotaSet m _ _ _ mx mn => if m = n then some (mx, mn) else none
            | _ => (none : Option (RL × RL))) = none := by
          cases op with
          | quotaSet m p ip l mx mn => simp [hoth m p ip l mx mn rfl]
          | _ => rfl
        rw [this]
        exact ⟨ih'.1.trans hs.1, ih'.2.trans hs.2⟩

theorem foldl_stepG_dims : ∀ (ops : List Op) (s : State), (ops.foldl stepG s).dims = s.dims := by
  intro ops
  induction ops with
  | nil => intro s; rfl
  | cons op ops ih => intro s; exact (ih _).trans (stepG_dims s op)

end KoordVerif.C03
