import KoordVerif.Proofs.C01ExtFocus
/-
C01 extension (schedules quantifier), part 6: the pod-event handlers as sequences of sections.

`planAdd` / `planDelete`: the sections OnPodAdd / OnPodDelete run, in the order of the Go code
(OnPodAdd: addPodIfNotPresent, updatePodRequestNoLock(nil, pod), [UpdatePodIsAssigned(true),
updatePodUsedNoLock(nil, pod)] for a bound, not terminated pod;  OnPodDelete: updatePodRequestNoLock(pod, nil),
[updatePodUsedNoLock(pod, nil)] if assigned, removePodIfPresent).  The handler's reads (does the group exist, is
the pod cached, is it assigned) concern only its OWN pod's cache entry and static data, which no other handler
on a different pod changes (`mstep_CI`, frame part), so they are resolved when the handler starts.
* `run_planAdd` / `run_planDelete`: running the sections one after the other IS the atomic model step.
* `safe_planAdd` / `safe_planDelete`: under the pod precondition of the sequential theorem (`PodPre`: amount >= 0,
  group declares the dimension, informer consistency) the plan is `Safe`.
-/
namespace KoordVerif.C01

def planAddTail (n : Nat) (p : PodObj) : List Micro :=
  [.cacheAdd n p, .req n p.id none (some p)] ++
  (if p.hasNode && !p.term then [.setAsg n p.id true, .used n p.id none (some p)] else [])

def planRemove (s : State) (n : Nat) (p : PodObj) (usedFirst : Bool) : List Micro :=
  (if usedFirst then
    (if assignedIn s n p.id then [Micro.used n p.id (some p) none] else []) ++ [.req n p.id (some p) none]
   else
    [Micro.req n p.id (some p) none] ++ (if assignedIn s n p.id then [.used n p.id (some p) none] else [])) ++
  [.cacheRemove n p.id]

/-- OnPodAdd -/
def planAdd (s : State) (n : Nat) (p : PodObj) : List Micro :=
  if p.ign then []
  else match get? s n with
    | none => []
    | some q => if podExists q p.id then [] else planAddTail n p

/-- OnPodDelete -/
def planDelete (s : State) (n : Nat) (p : PodObj) : List Micro :=
  if existsIn s n p.id then planRemove s n p false else []

theorem run_planRemove (s : State) (n : Nat) (p : PodObj) (uf : Bool) :
    runMicros s (planRemove s n p uf) = removePodFrom s n p uf := by
  cases uf <;> cases h : assignedIn s n p.id <;>
    simp [planRemove, removePodFrom, runMicros, mstep, h]

theorem run_planDelete (s : State) (n : Nat) (p : PodObj) :
    runMicros s (planDelete s n p) = onPodDelete s n p := by
  unfold planDelete onPodDelete
  split
  · exact run_planRemove s n p false
  · rfl

theorem any_false_of_not_exists {ps : List Pod} {i : Nat} (h : ps.any (fun p => p.id == i) = false) :
    ps.any (fun p => p.id == i && p.assigned) = false := by
  induction ps with
  | nil => rfl
  | cons x t ih =>
    simp only [List.any_cons, Bool.or_eq_false_iff] at h ⊢
    exact ⟨by simp [h.1], ih h.2⟩

theorem run_planAdd (s : State) (n : Nat) (p : PodObj) : runMicros s (planAdd s n p) = onPodAdd s n p := by
  unfold planAdd onPodAdd
  split
  · rfl
  · cases hq : get? s n with
    | none => rfl
    | some q =>
      simp only
      cases hex : podExists q p.id with
      | true => simp [runMicros]
      | false =>
        simp only [Bool.false_eq_true, if_false]
        -- the fresh entry is not assigned
        have hs1 : cacheAdd s n p = set s { q with pods := newEntry p :: q.pods } := by
          simp [cacheAdd, hq, hex, newEntry]
        have hq1 : get? (cacheAdd s n p) n = some { q with pods := newEntry p :: q.pods } := by
          rw [hs1]; exact get?_setq hq rfl
        obtain ⟨q2, hq2, hp2, _⟩ := updPodReq_view n none (some p) hq1
        have hasg : assignedIn (updPodReq (cacheAdd s n p) n none (some p)) n p.id = false := by
          simp only [assignedIn, hq2, podAssigned, hp2, List.any_cons, newEntry]
          simp only [podExists] at hex
          simp [any_false_of_not_exists hex]
        by_cases hb : (p.hasNode && !p.term) = true
        · simp [planAddTail, addPodTo, runMicros, mstep, hb, hasg]
        · simp only [Bool.not_eq_true] at hb
          simp [planAddTail, addPodTo, runMicros, mstep, hb]

/-! ### safety of the plans -/

theorem lsettled_cntOf (s : State) (i : Nat) : LSettled (localOf s (cntOf s) i) :=
  lsettled_localOf.mpr (fun m => settled_cntOf s m i)

theorem planAddTail_grp (n : Nat) (p : PodObj) : ∀ m ∈ planAddTail n p, m.grp = n := by
  intro m hm
  cases hb : (p.hasNode && !p.term)
  · simp [planAddTail, hb] at hm
    rcases hm with rfl | rfl <;> rfl
  · simp [planAddTail, hb] at hm
    rcases hm with rfl | rfl | rfl | rfl <;> rfl

theorem planRemove_grp (s : State) (n : Nat) (p : PodObj) (uf : Bool) : ∀ m ∈ planRemove s n p uf, m.grp = n := by
  intro m hm
  unfold planRemove at hm
  cases uf <;> cases h : assignedIn s n p.id <;>
    simp only [h, if_true, Bool.false_eq_true, if_false, List.cons_append, List.nil_append, List.append_nil,
      List.mem_cons, List.not_mem_nil, or_false] at hm <;>
    (rcases hm with rfl | rfl | rfl <;> rfl) 

/-- the local view of a pod that is not cached in group `n` -/
theorem focus_absent {s : State} {n i : Nat} {q : Quota} (hq : get? s n = some q) (hnone : getPod q.pods i = none) :
    focus (localOf s (cntOf s) i) n = ⟨none, 0, 0, 0, 0⟩ := by
  simp [focus, localOf, cntOf, entry, hq, hnone]

theorem focus_present {s : State} {n i : Nat} {q : Quota} {e : Pod} (hq : get? s n = some q)
    (he : getPod q.pods i = some e) :
    focus (localOf s (cntOf s) i) n =
      ⟨some e, e.req, w (fun p => p.np) e, w (fun p => p.assigned) e, w (fun p => p.assigned && p.np) e⟩ := by
  simp [focus, localOf, cntOf, entry, hq, he]

theorem safe_planAddTail {s : State} {n : Nat} {p : PodObj} {q : Quota} (hq : get? s n = some q)
    (hmax : q.max.isSome = true) (hnn : 0 ≤ p.req) (hnone : getPod q.pods p.id = none) :
    FSafeRun (stat s n) p.id (focus (localOf s (cntOf s) p.id) n) (planAddTail n p) ∧
    FSettled (frun (stat s n) (focus (localOf s (cntOf s) p.id) n) (planAddTail n p)) := by
  have hst : stat s n = some true := by rw [stat_some hq, hmax]
  rw [focus_absent hq hnone, hst]
  by_cases hb : (p.hasNode && !p.term) = true
  · simp [planAddTail, hb, FSafeRun, frun, fok, fstep, FSettled, dR, dN, reqOf, npOf, newEntry, gAsg, w, hnn]
    split <;> omega
  · simp [planAddTail, hb, FSafeRun, frun, fok, fstep, FSettled, dR, dN, reqOf, npOf, newEntry, w, hnn]
    split <;> omega

theorem safe_planAdd {s : State} {n : Nat} {p : PodObj} (hpre : PodPre s n p) :
    Safe (stat s) p.id (localOf s (cntOf s) p.id) (planAdd s n p) := by
  have h0 := lsettled_cntOf s p.id
  unfold planAdd
  split
  · exact h0
  · cases hq : get? s n with
    | none => exact h0
    | some q =>
      simp only
      cases hex : podExists q p.id with
      | true => exact h0
      | false =>
        have hnone : getPod q.pods p.id = none := by
          rw [podExists_eq] at hex
          cases hg : getPod q.pods p.id with
          | none => rfl
          | some e => simp [hg] at hex
        obtain ⟨h1, h2⟩ := safe_planAddTail hq (hpre.quota q hq).1 hpre.nonneg hnone
        exact safe_of_focus (planAddTail_grp n p) h0 h1 h2

theorem safe_planRemove {s : State} {n : Nat} {p : PodObj} {q : Quota} {e : Pod} (uf : Bool) (hg : Good s)
    (hq : get? s n = some q) (hmax : q.max.isSome = true) (hnn : 0 ≤ p.req) (he : getPod q.pods p.id = some e)
    (hreq : e.req = p.req) (hnp : e.np = p.np) :
    FSafeRun (stat s n) p.id (focus (localOf s (cntOf s) p.id) n) (planRemove s n p uf) ∧
    FSettled (frun (stat s n) (focus (localOf s (cntOf s) p.id) n) (planRemove s n p uf)) := by
  have hst : stat s n = some true := by rw [stat_some hq, hmax]
  have hnd := hg.pods q (get?_mem hq)
  have hasgIn : assignedIn s n p.id = e.assigned := by
    simp only [assignedIn, hq, podAssigned_eq q p.id hnd, he]
  rw [focus_present hq he, hst]
  cases uf <;> cases hasg : e.assigned <;>
    simp [planRemove, hasgIn, hasg, FSafeRun, frun, fok, fstep, FSettled, dR, dN, reqOf, npOf, w, hreq, hnp, hnn] <;>
    (generalize (if p.np = true then p.req else 0) = x; omega)

theorem safe_planDelete {s : State} {n : Nat} {p : PodObj} (hg : Good s) (hpre : PodPre s n p) :
    Safe (stat s) p.id (localOf s (cntOf s) p.id) (planDelete s n p) := by
  have h0 := lsettled_cntOf s p.id
  unfold planDelete existsIn
  cases hq : get? s n with
  | none => exact h0
  | some q =>
    simp only
    by_cases hex : podExists q p.id = true
    · rw [if_pos hex]
      obtain ⟨hmax, hcons⟩ := hpre.quota q hq
      rw [podExists_eq] at hex
      obtain ⟨e, he⟩ := Option.isSome_iff_exists.mp hex
      obtain ⟨hreq, hnp⟩ := hcons e he
      obtain ⟨h1, h2⟩ := safe_planRemove false hg hq hmax hpre.nonneg he hreq hnp
      exact safe_of_focus (planRemove_grp s n p false) h0 h1 h2
    · rw [if_neg hex]; exact h0

end KoordVerif.C01
