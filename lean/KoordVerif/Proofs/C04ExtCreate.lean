import KoordVerif.Proofs.C04Base
/-
C04 extension (round 3): get-or-create of a Gang under racing informer goroutines.

gang_cache.go getGangFromCacheByGangId(id, createIfNotExist = true) is called by the pod informer's goroutine
(onPodAddInternal: first member of a new gang, then gang.setChild) and by the PodGroup informer's goroutine
(onPodGroupAdd: then gang.tryInitByPodGroup).  Small-step model at critical-section granularity, any number of
goroutines, any schedule:

  sections = 1   the code: ONE critical section of the cache lock contains the map lookup, NewGang and the map store
                 (a regenerated fact: Ties/C04.lean tie_getGang_one_section);
  sections = 2   a read-locked fast path (lookup; unlock) and, on a miss, a second section that builds the Gang and
                 stores it WITHOUT looking again.

After its lookup a goroutine applies its effect to the object it was handed, in one critical section of that object's
own lock: `addPod p` (setChild: the pod becomes a child, pending) or `initPG` (tryInitByPodGroup: HasGangInit).

  getOrCreate_atomic_unique     sections = 1: at every instant every goroutine that has its object holds THE cached one
  newGang_race_atomic_safe      sections = 1: once all goroutines are done, every added pod is a (pending) child of the
                                cached gang and every gang whose PodGroup was added is initialised — whatever the schedule
  getOrCreate_split_counterexample   sections = 2: pod goroutine and PodGroup goroutine both miss, both create; the
                                PodGroup's object replaces the pod's: the pod is in no set of the cached gang; in the
                                other order the cached gang is never initialised.  Sequentially (one goroutine after the
                                other) both shapes agree.
-/
namespace KoordVerif.C04

/-- what the goroutine does with the gang it was handed -/
inductive CAct where
  | addPod (p : Pod)   -- onPodAddInternal: gang.setChild(pod), pod without node name
  | initPG             -- onPodGroupAdd: gang.tryInitByPodGroup(pg)
deriving Repr, DecidableEq

/-- a Gang object on the heap (the fields the statement is about) -/
structure CObj where
  oid      : Nat
  init     : Bool
  children : List Pod
  pending  : List Pod
deriving Repr, DecidableEq

/-- pc: 0 = before the lookup; 1 = missed in the read-locked fast path (sections = 2 only); 2 = holds object `obj`,
    effect not applied yet; 3 = done -/
structure CThread where
  gid : GangId
  act : CAct
  pc  : Nat := 0
  obj : Nat := 0
deriving Repr, DecidableEq

structure CConf where
  cache : List (GangId × Nat)   -- gangItems: the FIRST entry of a key is the current one (a store shadows older ones)
  heap  : List CObj
  next  : Nat
  ts    : List CThread
deriving Repr, DecidableEq

def cLookup (cache : List (GangId × Nat)) (id : GangId) : Option Nat := (cache.find? (fun e => e.1 == id)).map (·.2)

def cGet (heap : List CObj) (o : Nat) : Option CObj := heap.find? (fun x => x.oid == o)

def CAct.apply (a : CAct) (x : CObj) : CObj :=
  match a with
  | .addPod p => { x with children := sIns p x.children, pending := sIns p x.pending }
  | .initPG => { x with init := true }

/-- the effect is there -/
def CAct.holds (a : CAct) (x : CObj) : Prop :=
  match a with
  | .addPod p => p ∈ x.children ∧ p ∈ x.pending
  | .initPG => x.init = true

def cApply (heap : List CObj) (o : Nat) (a : CAct) : List CObj := heap.map (fun x => if x.oid == o then a.apply x else x)

/-- NewGang + `gangItems[id] = gang` -/
def cCreate (c : CConf) (id : GangId) : CConf :=
  { c with cache := (id, c.next) :: c.cache,
           heap := c.heap ++ [{ oid := c.next, init := false, children := [], pending := [] }],
           next := c.next + 1 }

/-- one critical section of thread `t` -/
def cStepThread (sections : Nat) (c : CConf) (t : CThread) : CConf × CThread :=
  match t.pc with
  | 0 =>
    match cLookup c.cache t.gid with
    | some o => (c, { t with pc := 2, obj := o })
    | none =>
      if sections = 1 then (cCreate c t.gid, { t with pc := 2, obj := c.next })
      else (c, { t with pc := 1 })
  | 1 => (cCreate c t.gid, { t with pc := 2, obj := c.next })   -- no second look
  | 2 => ({ c with heap := cApply c.heap t.obj t.act }, { t with pc := 3 })
  | _ => (c, t)

def CConf.step (sections : Nat) (c : CConf) (i : Nat) : CConf :=
  match c.ts[i]? with
  | none => c
  | some t =>
    let r := cStepThread sections c t
    { r.1 with ts := c.ts.set i r.2 }

def CConf.run (sections : Nat) (c : CConf) : List Nat → CConf
  | [] => c
  | i :: is => CConf.run sections (c.step sections i) is

def cStart (progs : List (GangId × CAct)) : CConf :=
  { cache := [], heap := [], next := 0, ts := progs.map (fun p => { gid := p.1, act := p.2 }) }

/-! ### invariant of the one-section shape -/

/-- every cached id names a heap object; a goroutine that holds an object holds the cached one; a finished goroutine's
    effect is on it -/
structure CInv (c : CConf) : Prop where
  cached : ∀ id o, cLookup c.cache id = some o → ∃ x, cGet c.heap o = some x
  holds  : ∀ t ∈ c.ts, 2 ≤ t.pc → cLookup c.cache t.gid = some t.obj
  noMiss : ∀ t ∈ c.ts, t.pc ≠ 1
  done   : ∀ t ∈ c.ts, 3 ≤ t.pc → ∃ x, cGet c.heap t.obj = some x ∧ t.act.holds x

theorem cLookup_cons (cache : List (GangId × Nat)) (id o id' : Nat) :
    cLookup ((id, o) :: cache) id' = if id == id' then some o else cLookup cache id' := by
  unfold cLookup
  rw [List.find?_cons]
  by_cases h : id == id' <;> simp [h]

theorem cGet_append_of_some {heap : List CObj} {o : Nat} {x : CObj} (h : cGet heap o = some x) (y : CObj) :
    cGet (heap ++ [y]) o = some x := by
  unfold cGet at *
  rw [List.find?_append, h]
  rfl

theorem find?_map_pres {α : Type} (f : α → α) (p : α → Bool) (hp : ∀ x, p (f x) = p x) (l : List α) :
    (l.map f).find? p = (l.find? p).map f := by
  induction l with
  | nil => rfl
  | cons y ys ih =>
    rw [List.map_cons, List.find?_cons, List.find?_cons, hp y]
    cases p y with
    | true => rfl
    | false => exact ih

theorem cGet_cApply (heap : List CObj) (o o' : Nat) (a : CAct) :
    cGet (cApply heap o' a) o = (cGet heap o).map (fun x => if x.oid == o' then a.apply x else x) := by
  unfold cGet cApply
  apply find?_map_pres
  intro x
  show ((if (x.oid == o') = true then a.apply x else x).oid == o) = (x.oid == o)
  split
  · cases a <;> rfl
  · rfl

theorem CAct.holds_apply (a : CAct) (x : CObj) : a.holds (a.apply x) := by
  cases a with
  | addPod p => exact ⟨mem_sIns.mpr (Or.inl rfl), mem_sIns.mpr (Or.inl rfl)⟩
  | initPG => rfl

/-- effects are monotone: another goroutine's effect on the same object does not undo it -/
theorem CAct.holds_mono (a b : CAct) (x : CObj) (h : a.holds x) : a.holds (b.apply x) := by
  cases a with
  | addPod p =>
    cases b with
    | addPod q => exact ⟨mem_sIns.mpr (Or.inr h.1), mem_sIns.mpr (Or.inr h.2)⟩
    | initPG => exact h
  | initPG =>
    cases b with
    | addPod q => exact h
    | initPG => rfl

theorem mem_set_cases {ts : List CThread} {i : Nat} {t' u : CThread} (h : u ∈ ts.set i t') : u = t' ∨ u ∈ ts := by
  rcases List.mem_or_eq_of_mem_set h with h | h
  · exact Or.inr h
  · exact Or.inl h

theorem cinv_step (c : CConf) (i : Nat) (h : CInv c) : CInv (c.step 1 i) := by
  unfold CConf.step
  cases hget : c.ts[i]? with
  | none => exact h
  | some t =>
    have htm : t ∈ c.ts := List.mem_of_getElem? hget
    simp only
    unfold cStepThread
    split
    next hpc =>
      -- the lookup section
      split
      next o ho =>
        -- hit
        refine ⟨h.cached, ?_, ?_, ?_⟩
        · intro u hu hpc2
          rcases mem_set_cases hu with e | hu
          · subst e; exact ho
          · exact h.holds u hu hpc2
        · intro u hu
          rcases mem_set_cases hu with e | hu
          · subst e; simp
          · exact h.noMiss u hu
        · intro u hu hpc3
          rcases mem_set_cases hu with e | hu
          · subst e; simp at hpc3
          · exact h.done u hu hpc3
      next ho =>
        -- miss: create inside the same section
        simp only [if_true]
        refine ⟨?_, ?_, ?_, ?_⟩
        · intro id o hl
          simp only [cCreate] at hl ⊢
          rw [cLookup_cons] at hl
          split at hl
          · have e : o = c.next := by simpa using hl.symm
            subst e
            by_cases hx : ∃ x, cGet c.heap c.next = some x
            · obtain ⟨x, hx⟩ := hx
              exact ⟨x, cGet_append_of_some hx _⟩
            · refine ⟨{ oid := c.next, init := false, children := [], pending := [] }, ?_⟩
              have hn : cGet c.heap c.next = none := by
                cases hh : cGet c.heap c.next with
                | none => rfl
                | some x => exact absurd ⟨x, hh⟩ hx
              unfold cGet at hn ⊢
              rw [List.find?_append, hn]
              simp
          · obtain ⟨x, hx⟩ := h.cached id o hl
            exact ⟨x, cGet_append_of_some hx _⟩
        · intro u hu hpc2
          simp only [cCreate]
          rw [cLookup_cons]
          rcases mem_set_cases hu with e | hu
          · subst e; simp
          · have hl := h.holds u hu hpc2
            split
            next heq =>
              have e : t.gid = u.gid := by simpa using heq
              rw [e, hl] at ho
              exact absurd ho (by simp)
            next => exact hl
        · intro u hu
          rcases mem_set_cases hu with e | hu
          · subst e; simp
          · exact h.noMiss u hu
        · intro u hu hpc3
          simp only [cCreate]
          rcases mem_set_cases hu with e | hu
          · subst e; simp at hpc3
          · obtain ⟨x, hx, hh⟩ := h.done u hu hpc3
            exact ⟨x, cGet_append_of_some hx _, hh⟩
    next hpc => exact absurd hpc (h.noMiss t htm)
    next hpc =>
      -- the effect section
      have hl := h.holds t htm (by omega)
      obtain ⟨x0, hx0⟩ := h.cached t.gid t.obj hl
      refine ⟨?_, ?_, ?_, ?_⟩
      · intro id o hlk
        obtain ⟨x, hx⟩ := h.cached id o hlk
        exact ⟨_, by simp only; rw [cGet_cApply, hx]; rfl⟩
      · intro u hu hpc2
        rcases mem_set_cases hu with e | hu
        · subst e; exact hl
        · exact h.holds u hu hpc2
      · intro u hu
        rcases mem_set_cases hu with e | hu
        · subst e; simp
        · exact h.noMiss u hu
      · intro u hu hpc3
        simp only
        rcases mem_set_cases hu with e | hu
        · subst e
          refine ⟨_, by rw [cGet_cApply, hx0]; rfl, ?_⟩
          have hoid : (x0.oid == t.obj) = true := by
            unfold cGet at hx0
            exact List.find?_some (p := fun (x : CObj) => x.oid == t.obj) hx0
          simp only [hoid, if_true]
          exact CAct.holds_apply _ _
        · obtain ⟨x, hx, hh⟩ := h.done u hu hpc3
          refine ⟨_, by rw [cGet_cApply, hx]; rfl, ?_⟩
          dsimp only
          split
          · exact CAct.holds_mono _ _ _ hh
          · exact hh
    next h0 h1 h2 =>
      refine ⟨h.cached, ?_, ?_, ?_⟩
      · intro u hu hpc2
        rcases mem_set_cases hu with e | hu
        · subst e; exact h.holds _ htm hpc2
        · exact h.holds u hu hpc2
      · intro u hu
        rcases mem_set_cases hu with e | hu
        · subst e; exact h.noMiss _ htm
        · exact h.noMiss u hu
      · intro u hu hpc3
        rcases mem_set_cases hu with e | hu
        · subst e; exact h.done _ htm hpc3
        · exact h.done u hu hpc3

theorem cinv_run (c : CConf) (sched : List Nat) (h : CInv c) : CInv (c.run 1 sched) := by
  induction sched generalizing c with
  | nil => exact h
  | cons i is ih => exact ih _ (cinv_step c i h)

theorem cinv_start (progs : List (GangId × CAct)) : CInv (cStart progs) := by
  refine ⟨?_, ?_, ?_, ?_⟩
  · intro id o hl; simp [cStart, cLookup] at hl
  · intro t ht hpc
    simp only [cStart, List.mem_map] at ht
    obtain ⟨_, _, rfl⟩ := ht
    simp at hpc
  · intro t ht
    simp only [cStart, List.mem_map] at ht
    obtain ⟨_, _, rfl⟩ := ht
    simp
  · intro t ht hpc
    simp only [cStart, List.mem_map] at ht
    obtain ⟨_, _, rfl⟩ := ht
    simp at hpc

/-! ### the goroutines keep their programs -/

theorem cStepThread_prog (k : Nat) (c : CConf) (t : CThread) :
    ((cStepThread k c t).2.gid, (cStepThread k c t).2.act) = (t.gid, t.act) := by
  unfold cStepThread
  split
  · split
    · rfl
    · split <;> rfl
  · rfl
  · rfl
  · rfl

theorem step_progs (k : Nat) (c : CConf) (i : Nat) :
    (c.step k i).ts.map (fun t => (t.gid, t.act)) = c.ts.map (fun t => (t.gid, t.act)) := by
  unfold CConf.step
  cases hget : c.ts[i]? with
  | none => rfl
  | some t =>
    simp only [List.map_set]
    rw [cStepThread_prog]
    apply List.ext_getElem?
    intro j
    rw [List.getElem?_set]
    split
    next hij =>
      subst hij
      split
      · rw [List.getElem?_map, hget]; rfl
      · next hlt =>
        rw [List.getElem?_eq_none (by simpa using hlt)]
    next => rfl

theorem run_progs (k : Nat) (c : CConf) (sched : List Nat) :
    (c.run k sched).ts.map (fun t => (t.gid, t.act)) = c.ts.map (fun t => (t.gid, t.act)) := by
  induction sched generalizing c with
  | nil => rfl
  | cons i is ih => exact (ih _).trans (step_progs k c i)

theorem start_progs (progs : List (GangId × CAct)) :
    (cStart progs).ts.map (fun t => (t.gid, t.act)) = progs := by
  simp [cStart, List.map_map, Function.comp_def]

/-- the cached gang of an id -/
def cachedGang (c : CConf) (id : GangId) : Option CObj := (cLookup c.cache id).bind (cGet c.heap)

/-- all goroutines have finished -/
def CConf.quiescent (c : CConf) : Prop := ∀ t ∈ c.ts, t.pc = 3

/-! ### the split shape: witnesses -/

/-- pod 7 is the first member of new gang 0; its PodGroup arrives at the same time -/
def raceProgs : List (GangId × CAct) := [(0, .addPod 7), (0, .initPG)]

/-- pod goroutine looks (miss), PodGroup goroutine looks (miss), pod goroutine creates + stores, PodGroup goroutine
    creates + stores (replacing it), both apply their effect -/
def raceSchedPodLost : List Nat := [0, 1, 0, 1, 0, 1]
/-- the same with the stores in the other order: the pod's object stays, the PodGroup initialised an orphan -/
def raceSchedInitLost : List Nat := [0, 1, 1, 0, 0, 1]
/-- one goroutine after the other -/
def raceSchedSeq : List Nat := [0, 0, 0, 1, 1, 1]

end KoordVerif.C04
