import KoordVerif.Proofs.C01Mid
/-
C01: the four PodCache mutations as `Mid` transformers.
-/
namespace KoordVerif.C01

theorem get?_setq {s : State} {n : Nat} {q q1 : Quota} (hq : get? s n = some q) (hn : q1.name = q.name) :
    get? (set s q1) n = some q1 := by
  have hqn := get?_name hq
  have hq' : get? s q1.name = some q := by rw [hn, hqn]; exact hq
  rw [get?_set hq']; simp [hn, hqn]

theorem getPod_updPods {g : Pod → Pod} (hg : ∀ p, (g p).id = p.id) {i : Nat} {ps : List Pod} {e : Pod}
    (he : getPod ps i = some e) : getPod (updPods g i ps) i = some (g e) := by
  induction ps with
  | nil => simp [getPod] at he
  | cons p t ih =>
    simp only [getPod] at he
    by_cases hp : p.id = i
    · simp only [hp, if_true, Option.some.injEq] at he
      subst he
      simp [updPods, getPod, hp, hg]
    · simp only [hp, if_false] at he
      have := ih he
      simp only [updPods] at this
      simp [updPods, getPod, hp, this]

/-- entry created by addPodIfNotPresent -/
def newEntry (p : PodObj) : Pod := { id := p.id, assigned := false, req := p.req, np := p.np }

theorem cacheAdd_mid {s : State} {n : Nat} {a b c d : Int} {q : Quota} (p : PodObj)
    (h : Mid s n a b c d) (hq : get? s n = some q) (hne : getPod q.pods p.id = none) (hp : 0 ≤ p.req) :
    cacheAdd s n p = set s { q with pods := newEntry p :: q.pods } ∧
    Mid (cacheAdd s n p) n (a + p.req) (b + npOf (some p)) c d := by
  have hex : podExists q p.id = false := by rw [podExists_eq, hne]; rfl
  have heq : cacheAdd s n p = set s { q with pods := newEntry p :: q.pods } := by
    simp [cacheAdd, hq, hex, newEntry]
  refine ⟨heq, ?_⟩
  rw [heq]
  have hqs := get?_mem hq
  have hm := setPods_mid (newEntry p :: q.pods) h hq
    (by
      intro x hx
      rcases List.mem_cons.mp hx with e | e
      · subst e; exact hp
      · exact (h.params q hqs).2 x e)
    (by
      simp only [List.map_cons, List.nodup_cons]
      refine ⟨?_, h.pods q hqs⟩
      intro hmem
      obtain ⟨x, hx, hxe⟩ := List.mem_map.mp hmem
      exact getPod_none_iff.mp hne x hx hxe)
  refine mid_cast hm ?_ ?_ ?_ ?_
  · simp [podSum_cons, w, newEntry]
  · simp only [podSum_cons, w, newEntry, npOf]; split <;> omega
  · simp [podSum_cons, w, newEntry]
  · simp [podSum_cons, w, newEntry]

theorem cacheRemove_mid {s : State} {n : Nat} {a b c d : Int} {q : Quota} {i : Nat} {e : Pod}
    (h : Mid s n a b c d) (hq : get? s n = some q) (he : getPod q.pods i = some e) :
    cacheRemove s n i = set s { q with pods := q.pods.filter (fun p => p.id != i) } ∧
    Mid (cacheRemove s n i) n (a - e.req) (b - w (fun p => p.np) e)
      (c - w (fun p => p.assigned) e) (d - w (fun p => p.assigned && p.np) e) := by
  have heq : cacheRemove s n i = set s { q with pods := q.pods.filter (fun p => p.id != i) } := by
    simp [cacheRemove, hq]
  refine ⟨heq, ?_⟩
  rw [heq]
  have hqs := get?_mem hq
  have hnd := h.pods q hqs
  have hm := setPods_mid (q.pods.filter (fun p => p.id != i)) h hq
    (fun x hx => (h.params q hqs).2 x (List.mem_filter.mp hx).1)
    ((List.filter_sublist.map _).nodup hnd)
  refine mid_cast hm ?_ ?_ ?_ ?_
  · rw [podSum_filter _ hnd he]; simp [w]; omega
  · rw [podSum_filter _ hnd he]; omega
  · rw [podSum_filter _ hnd he]; omega
  · rw [podSum_filter _ hnd he]; omega

theorem updEntry_mid {s : State} {n : Nat} {a b c d : Int} {q : Quota} {i : Nat} {e : Pod} (g : Pod → Pod)
    (hg : ∀ p, (g p).id = p.id) (hgnn : 0 ≤ (g e).req)
    (h : Mid s n a b c d) (hq : get? s n = some q) (he : getPod q.pods i = some e) :
    Mid (set s { q with pods := updPods g i q.pods }) n (a - e.req + (g e).req)
      (b - w (fun p => p.np) e + w (fun p => p.np) (g e))
      (c - w (fun p => p.assigned) e + w (fun p => p.assigned) (g e))
      (d - w (fun p => p.assigned && p.np) e + w (fun p => p.assigned && p.np) (g e)) := by
  have hqs := get?_mem hq
  have hnd := h.pods q hqs
  have hm := setPods_mid (updPods g i q.pods) h hq
    (by
      intro x hx
      rcases mem_updPods hx with e1 | ⟨p, hp, hpi, rfl⟩
      · exact (h.params q hqs).2 x e1
      · have h1 := getPod_some he
        have : p = e := pod_unique q.pods hnd hp h1.1 (by rw [hpi, h1.2])
        rw [this]; exact hgnn)
    (by rw [ids_updPods g hg]; exact hnd)
  refine mid_cast hm ?_ ?_ ?_ ?_ <;> rw [podSum_updPods _ g hnd he] <;> simp [w] <;> omega

end KoordVerif.C01
