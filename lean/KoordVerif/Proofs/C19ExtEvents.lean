import KoordVerif.Model.C19
import KoordVerif.Model.C19Rsv
/-
C19 extension "event shapes on the rebuild side": an update event records the allocation / the assignment
carried by its NEW object whatever its OLD object was.  A restarting or second scheduler (one that did not
run Reserve itself) can see, as the FIRST effective delivery of a bound pod,
  * add(unbound, annotated) then update(old = unbound, new = bound, SAME annotations)   (PreBind writes the
    annotations before Bind sets spec.nodeName), or
  * add(bound) while the object the handler needs is not there yet (numa: the node's CPU topology; rsv: the
    Reservation), that object arrives, then a no-change resync update(old = new).
A handler that skips "nothing changed" updates (old/new annotations equal, same reservation UID) loses these
pods.  The theorems below state, over the executable models (Model/C19.lean `onUpdate`/`onUpdateT`,
Model/C19Rsv.lean `handlerUpdate`), that the unchanged handlers do not look at `old` in these situations.
Core-only; no axioms beyond the allowed ones.
-/

/-! ## N. nodenumaresource podEventHandler.updatePod -/
namespace KoordVerif.C19.Ev
open KoordVerif.C19

/-- For a bound new object the handler never looks at the old object: whatever `old` was (absent = an add
    event, the unbound version, the same object, a different allocation) the resulting ledger is the same. -/
theorem update_records_regardless_of_old (topo : List Nat) (s : St) (old₁ old₂ : Option Obj) (o : Obj)
    (ha : o.assigned = true) : onUpdate topo s old₁ o = onUpdate topo s old₂ o := by
  simp [onUpdate, ha]

/-- …and what it does is `update` (= release, then record) with the allocation restored from the
    annotations of the NEW object. -/
theorem update_records_restored (topo : List Nat) (s : St) (old : Option Obj) (o : Obj) (a : PodAlloc)
    (ha : o.assigned = true) (ht : o.term = false)
    (hr : restore o.uid o.excl (o.annot.getD { text := [], numa := [] }) = some a) :
    onUpdate topo s old o = update topo s a := by
  simp [onUpdate, ha, ht, hr]

/-- add(unbound, annotated) is ignored. -/
theorem unbound_add_ignored (topo : List Nat) (s : St) (o : Obj) : onUpdate topo s none o.unbound = s := by
  simp [onUpdate, Obj.unbound]

/-- shape "add-unbound-then-update-bound" rebuilds what the plain add(bound) rebuilds. -/
theorem unbound_then_bound_eq_add (topo : List Nat) (s : St) (o : Obj) (ha : o.assigned = true) :
    onUpdate topo (onUpdate topo s none o.unbound) (some o.unbound) o = onUpdate topo s none o := by
  rw [unbound_add_ignored]
  exact update_records_regardless_of_old topo s _ _ o ha

/-- with a valid topology `onUpdateT` is `onUpdate`. -/
theorem onUpdateT_valid (topo : List Nat) (s : St) (old : Option Obj) (o : Obj) :
    onUpdateT true topo s old o = onUpdate topo s old o := by
  simp [onUpdateT]

/-- add(bound, running) before the node's topology is known is dropped… -/
theorem early_add_dropped (topo : List Nat) (s : St) (old : Option Obj) (o : Obj)
    (ha : o.assigned = true) (ht : o.term = false) : onUpdateT false topo s old o = s := by
  simp [onUpdateT, ha, ht]

/-- …and shape "add-early-then-object-then-resync" rebuilds what the plain add(bound) rebuilds: the no-change
    resync update(old = new) records the allocation. -/
theorem early_then_resync_eq_add (topo : List Nat) (s : St) (o : Obj)
    (ha : o.assigned = true) (ht : o.term = false) :
    onUpdateT true topo (onUpdateT false topo s none o) (some o) o = onUpdate topo s none o := by
  rw [early_add_dropped topo s none o ha ht, onUpdateT_valid]
  exact update_records_regardless_of_old topo s _ _ o ha

end KoordVerif.C19.Ev

/-! ## R. reservation podEventHandler.updatePod / reservationCache.updatePod -/
namespace KoordVerif.C19.Rsv.Ev
open KoordVerif.C19.Rsv

theorem find_replace (l : List Info) (ri : Info) (r : Nat) :
    (l.map (fun i => if i.rid == ri.rid then ri else i)).find? (fun i => i.rid == r) =
      if ri.rid = r then (if (l.find? (fun i => i.rid == ri.rid)).isSome then some ri else none)
      else l.find? (fun i => i.rid == r) := by
  induction l with
  | nil => simp
  | cons a t ih =>
    simp only [List.map_cons]
    grind

theorem get_put (c : Cache) (ri : Info) (r : Nat) :
    (c.put ri).get r = if ri.rid = r then some ri else c.get r := by
  unfold Cache.put
  split
  · rename_i h
    simp only [Cache.get] at h ⊢
    rw [find_replace]; simp [h]
  · simp only [Cache.get]
    grind

theorem get_rid {c : Cache} {r : Nat} {ri : Info} (h : c.get r = some ri) : ri.rid = r := by
  have := List.find?_some h
  simpa using this

theorem addAssigned_rid (ri : Info) (pid : Nat) (q : Req) : (addAssigned ri pid q).rid = ri.rid := by
  unfold addAssigned; split <;> rfl

theorem removeAssigned_rid (ri : Info) (pid : Nat) : (removeAssigned ri pid).rid = ri.rid := by
  unfold removeAssigned; split <;> rfl

theorem removeAssigned_decl (ri : Info) (pid : Nat) : (removeAssigned ri pid).decl = ri.decl := by
  unfold removeAssigned; split <;> rfl

/-- cache.go updatePod, add half: with the reservation in the cache the pod's reservation afterwards is
    `AddAssignedPod` of what it was. -/
theorem get_addPod {c : Cache} {r : Nat} {ri : Info} (pid : Nat) (q : Req) (h : c.get r = some ri) :
    ∃ c', c.addPod r pid q = some c' ∧ c'.get r = some (addAssigned ri pid q) := by
  have hr := get_rid h
  unfold Cache.addPod
  simp only [h]
  split
  · refine ⟨_, rfl, ?_⟩
    show (c.put (addAssigned ri pid q)).get r = _
    rw [get_put, addAssigned_rid]; simp [hr]
  · refine ⟨_, rfl, ?_⟩
    rw [get_put, addAssigned_rid]; simp [hr]

/-- cache.go updatePod, remove half. -/
theorem get_delPod {c : Cache} {r : Nat} {ri : Info} (pid : Nat) (h : c.get r = some ri) :
    (c.delPod r pid).get r = some (removeAssigned ri pid) := by
  have hr := get_rid h
  unfold Cache.delPod
  simp only [h]
  split
  · show (c.put (removeAssigned ri pid)).get r = _
    rw [get_put, removeAssigned_rid]; simp [hr]
  · rw [get_put, removeAssigned_rid]; simp [hr]

theorem mem_keys_addAssigned (ri : Info) (pid : Nat) (q : Req) : pid ∈ keys (addAssigned ri pid q) := by
  unfold addAssigned
  split
  · assumption
  · simp [keys]

theorem lookup_none_not_mem (l : List (Nat × Req)) (k : Nat) (h : l.lookup k = none) : k ∉ l.map Prod.fst := by
  induction l with
  | nil => simp
  | cons x t ih =>
    obtain ⟨a, b⟩ := x
    simp only [List.lookup] at h
    split at h
    · cases h
    · rename_i hne
      simp only [List.map_cons, List.mem_cons, not_or]
      exact ⟨by simpa using hne, ih h⟩

theorem not_mem_keys_removeAssigned (ri : Info) (pid : Nat) : pid ∉ keys (removeAssigned ri pid) := by
  unfold removeAssigned
  split
  · rename_i hn
    exact lookup_none_not_mem ri.pods pid hn
  · simp [keys, List.mem_map, List.mem_filter]

/-- the event's old object in the situations a restarting / second scheduler produces for the first effective
    delivery of a pod bound to reservation `r`: an add event (`none`), an old object without the annotation
    (`rid = none`), or the same pod already annotated for the same reservation (the unbound version, or the
    identical object of a resync). -/
def FirstDeliveryOld (old : Option Pod) (new : Pod) (r : Nat) : Prop :=
  old = none ∨ (∃ o, old = some o ∧ o.rid = none) ∨ (∃ o, old = some o ∧ o.rid = some r ∧ o.pid = new.pid)

/-- what the reservation looked like when the add half runs: untouched, or with the pod removed first. -/
def baseInfo (old : Option Pod) (ri : Info) (pid : Nat) : Info :=
  match old.bind (·.rid) with
  | some _ => removeAssigned ri pid
  | none => ri

/-- MAIN (rsv): for a running pod annotated for reservation `r` that IS in the cache, an update (or add) whose
    old object is any `FirstDeliveryOld` ends with the reservation = `AddAssignedPod(new)` applied to the
    reservation (minus the pod's previous record when old carried the same assignment): the update is never
    skipped because "the reservation did not change". -/
theorem rsv_update_records_regardless_of_old (c : Cache) (old : Option Pod) (new : Pod) (r : Nat) (ri : Info)
    (hterm : new.term = false) (hr : new.rid = some r) (hget : c.get r = some ri)
    (hold : FirstDeliveryOld old new r) :
    (handlerUpdate c old new).get r = some (addAssigned (baseInfo old ri new.pid) new.pid new.q) := by
  rcases hold with rfl | ⟨o, rfl, ho⟩ | ⟨o, rfl, ho, hp⟩
  · obtain ⟨c', hc', hg⟩ := get_addPod new.pid new.q hget
    simp [handlerUpdate, hterm, hr, hc', hg, baseInfo]
  · obtain ⟨c', hc', hg⟩ := get_addPod new.pid new.q hget
    simp [handlerUpdate, hterm, hr, ho, hc', hg, baseInfo]
  · have hd := get_delPod new.pid hget
    obtain ⟨c', hc', hg⟩ := get_addPod new.pid new.q hd
    simp [handlerUpdate, hterm, hr, ho, hp, baseInfo, hc', hg]

/-- hence the pod IS in AssignedPods of its reservation afterwards… -/
theorem rsv_update_assigns (c : Cache) (old : Option Pod) (new : Pod) (r : Nat) (ri : Info)
    (hterm : new.term = false) (hr : new.rid = some r) (hget : c.get r = some ri)
    (hold : FirstDeliveryOld old new r) :
    ∃ ri', (handlerUpdate c old new).get r = some ri' ∧ new.pid ∈ keys ri' :=
  ⟨_, rsv_update_records_regardless_of_old c old new r ri hterm hr hget hold, mem_keys_addAssigned _ _ _⟩

/-- …with its masked request allocated on top of what the other pods hold, whenever the pod was not already
    recorded (first delivery) or old carried the same assignment (the record is replaced). -/
theorem rsv_update_allocates (c : Cache) (old : Option Pod) (new : Pod) (r : Nat) (ri : Info)
    (hterm : new.term = false) (hr : new.rid = some r) (hget : c.get r = some ri)
    (hold : FirstDeliveryOld old new r)
    (hfirst : new.pid ∉ keys ri ∨ ∃ o, old = some o ∧ o.rid = some r ∧ o.pid = new.pid) :
    ∃ ri', (handlerUpdate c old new).get r = some ri' ∧
      ri'.pods.lookup new.pid = some new.q ∧
      ∀ d, ri'.allocated d = (baseInfo old ri new.pid).allocated d + masked ri.decl new.q d := by
  refine ⟨_, rsv_update_records_regardless_of_old c old new r ri hterm hr hget hold, ?_⟩
  have hnot : new.pid ∉ keys (baseInfo old ri new.pid) := by
    rcases hfirst with h | ⟨o, rfl, ho, _⟩
    · unfold baseInfo
      split
      · intro hm
        -- removing only shrinks the key set, and the pod was not a key at all
        unfold removeAssigned at hm
        split at hm
        · exact h hm
        · simp only [keys, List.mem_map, List.mem_filter] at hm
          obtain ⟨e, ⟨he, _⟩, hk⟩ := hm
          exact h (List.mem_map.mpr ⟨e, he, hk⟩)
      · exact h
    · simp only [baseInfo, Option.bind_some, ho]
      exact not_mem_keys_removeAssigned ri new.pid
  have hdecl : (baseInfo old ri new.pid).decl = ri.decl := by
    unfold baseInfo; split
    · exact removeAssigned_decl ri new.pid
    · rfl
  unfold addAssigned
  rw [if_neg hnot]
  simp [List.lookup, hdecl]

end KoordVerif.C19.Rsv.Ev
