import KoordVerif.Model.C06Alloc
import KoordVerif.Proofs.C06Ledger
/-
C06 extension — amplified NUMA capacities.
 * `getOptions` (amplify a COPY) is idempotent: every scheduling step sees `raw × ratio`;
   the in-place shape multiplies the stored capacity again on every call.
 * `getAvailableNUMANodeResources` with amplification never reports more than capacity minus
   what the live pods have recorded, hence: if every recorded amount is drawn from
   "capacity − recorded", no NUMA cell ever holds more than its (amplified) capacity.
-/
namespace KoordVerif.C06

theorem optionsSeen_getOptions (num den : Int) : ∀ (k : Nat) (st : Stored),
    optionsSeen (getOptions num den) k st = List.replicate k (amplifyCaps num den st.caps)
  | 0, _ => rfl
  | k + 1, st => by
    simp only [optionsSeen, getOptions, List.replicate_succ]
    rw [← optionsSeen_getOptions num den k st]

theorem amplify_ge {num den x : Int} (hden : 0 < den) (hx : 0 ≤ x) : x ≤ amplify num den x := by
  unfold amplify
  split
  · omega
  · rename_i h
    have h1 : x * den ≤ x * num := Int.mul_le_mul_of_nonneg_left (by omega) hx
    have h2 : x * den ≤ x * num + den - 1 := by omega
    have h3 : x * den / den ≤ (x * num + den - 1) / den := Int.ediv_le_ediv hden h2
    rwa [Int.mul_ediv_cancel _ (by omega : den ≠ 0)] at h3

theorem amplify_one (den x : Int) : amplify den den x = x := by simp [amplify]

theorem getI_eq_zero_of_no_entry (m : ResMap) (k : Nat) (h : nodeHasEntry m (k / 16) = false) :
    getI m k = 0 := by
  induction m with
  | nil => rfl
  | cons e es ih =>
    obtain ⟨a, v⟩ := e
    simp only [nodeHasEntry, List.any_cons, Bool.or_eq_false_iff] at h
    have ih' := ih (by simpa [nodeHasEntry] using h.2)
    simp only [getI]
    split
    · rename_i hk; subst hk; simp at h
    · exact ih'

/-- what `getAvailableNUMANodeResources` charges is never less than what is recorded. -/
theorem charged_ge_recorded (num den : Int) (nodeOf : Nat → Nat) (L : Ledger) (k : Nat) (hden : 0 < den) :
    getI L.res k ≤ chargedCell num den nodeOf L k := by
  unfold chargedCell
  split
  · split
    · have : 0 ≤ allocCPUMilli nodeOf L.cpus (k / 16) := by unfold allocCPUMilli; omega
      have := amplify_ge (num := num) hden this
      simp only; omega
    · omega
  · rename_i h
    have := getI_eq_zero_of_no_entry L.res k (by simpa using h)
    omega

/-- the amount reported available never exceeds capacity minus the recorded amount. -/
theorem available_le (num den : Int) (nodeOf : Nat → Nat) (cap : Int) (L : Ledger) (k : Nat) (hden : 0 < den) :
    availableCellAmp num den nodeOf cap L k ≤ max (cap - getI L.res k) 0 := by
  unfold availableCellAmp
  have := charged_ge_recorded num den nodeOf L k hden
  omega

/-- every amount a pod records is drawn from `capacity − recorded` of that moment (for an update:
    after the pod's own previous amounts are returned). -/
def NumaDrawn (cap : Nat → Int) (L : Ledger) : Op → Prop
  | .add p => hasPod L.pods p.uid = false → ∀ k, cellOf p.numa k ≤ max (cap k - getI L.res k) 0
  | .upd p => ∀ k, cellOf p.numa k ≤ max (cap k - getI (releasePod L p.uid).res k) 0
  | .rel _ => True

def AllNumaDrawn (cap : Nat → Int) : Ledger → List Op → Prop
  | _, [] => True
  | L, op :: ops => NumaDrawn cap L op ∧ AllNumaDrawn cap (step L op) ops

theorem releasePod_cells_le {L : Ledger} (h : Inv L) (uid : Nat) (k : Nat) :
    getI (releasePod L uid).res k ≤ getI L.res k := by
  have h' := (releasePod_spec h uid).1
  rw [h'.cells k, h.cells k]
  unfold releasePod
  cases hf : findPod L.pods uid with
  | none => simp
  | some p =>
    simp only
    have hpm := findPod_some hf
    have hsplit := sum_split_found (fun p => cellOf p.numa k) L.pods uid p hf h.uids
    have hp : 0 ≤ cellOf p.numa k := cellOf_nonneg p.numa k (h.nonneg p hpm.1)
    unfold cellSum
    omega

theorem addPod_cells_le {cap : Nat → Int} {L : Ledger} (hb : ∀ k, getI L.res k ≤ cap k) (p : PodAlloc)
    (hd : hasPod L.pods p.uid = false → ∀ k, cellOf p.numa k ≤ max (cap k - getI L.res k) 0) :
    ∀ k, getI (addPod L p).res k ≤ cap k := by
  intro k
  unfold addPod
  split
  · exact hb k
  · rename_i hnew
    have := hd (by simpa using hnew) k
    have := hb k
    dsimp only
    rw [(foldl_addCell p.numa L.res).1 k]
    omega

theorem numa_capacity_from {cap : Nat → Int} (ops : List Op) : ∀ L, Inv L → (∀ k, getI L.res k ≤ cap k) →
    (∀ op ∈ ops, OpOK op) → AllNumaDrawn cap L ops → ∀ k, getI (ops.foldl step L).res k ≤ cap k := by
  induction ops with
  | nil => intro L _ hb _ _ k; exact hb k
  | cons op ops ih =>
    intro L hinv hb hok hdr
    obtain ⟨hd, hrest⟩ := hdr
    refine ih (step L op) (inv_step hinv op (hok op (by simp))) ?_ (fun o ho => hok o (by simp [ho])) hrest
    cases op with
    | add p => exact addPod_cells_le hb p hd
    | upd p =>
      exact addPod_cells_le (L := releasePod L p.uid)
        (fun k => by have := releasePod_cells_le hinv p.uid k; have := hb k; omega) p (fun _ => hd)
    | rel u =>
      intro k
      have := releasePod_cells_le hinv u k
      have := hb k
      simp only [step]; omega

end KoordVerif.C06
