import KoordVerif.Proofs.C01GS2
/-
C01: the four "re-add" moves of updateQuotaNoLockWhenParentChange on a GS state whose only exceptional group is `x`.
-/
namespace KoordVerif.C01

def atX (x : Nat) (v : Int) : Nat → Int := fun m => if m = x then v else 0

theorem path_head_mem {st : State} (ht : Topo st) {x : Nat} (hx : (get? st x).isSome) :
    Chain st (path st x) ∧ (path st x).Nodup ∧ (path st x).head? = some x := ht.paths x hx

theorem gs_selfReq {st : State} {x : Nat} {A B K Kn d dnp : Int} {R : Nat → Prop} {c e ku knu : Nat → Int}
    (h : GS st (atX x A) (atX x B) (atX x K) (atX x Kn) R c e ku knu) (hx : (get? st x).isSome)
    (hd : 0 ≤ d) (hdnp : 0 ≤ dnp) :
    GS (deltaReq st x d dnp true) (atX x (A - d)) (atX x (B - dnp)) (atX x K) (atX x Kn) R c e ku knu := by
  obtain ⟨hc, hnd, hh⟩ := path_head_mem h.topo hx
  have hres := gs_propReq (self := true) (d := d) (dnp := dnp) h hc hnd hh
    (fun q hq => by have := h.rnn x q hq; simp only [if_true]; exact ⟨by have := this.selfRequest; omega, by have := this.selfNpRequest; omega⟩)
    (fun m _ hm => by simp [atX, hm])
    (Or.inr (fun q hq => by have := h.rnn x q hq; exact ⟨by have := this.cr; omega, by have := this.npRequest; omega⟩))
  refine gs_congr hres (fun m => ?_) (fun m => ?_) (fun m => ?_) (fun m => ?_) (fun m hm => Or.inl hm)
    (fun _ => rfl) (fun _ => rfl) (fun _ => rfl) (fun _ => rfl) <;> by_cases hm : m = x <;> simp [atX, hm]

theorem gs_kidsReq {st : State} {x : Nat} {A B K Kn d dnp : Int} {R : Nat → Prop} {c e ku knu : Nat → Int}
    (h : GS st (atX x A) (atX x B) (atX x K) (atX x Kn) R c e ku knu) (hx : (get? st x).isSome)
    (hd : 0 ≤ d) (hdnp : 0 ≤ dnp) :
    GS (deltaReq st x d dnp false) (atX x A) (atX x B) (atX x (K - d)) (atX x (Kn - dnp)) R c e ku knu := by
  obtain ⟨hc, hnd, hh⟩ := path_head_mem h.topo hx
  have hres := gs_propReq (self := false) (d := d) (dnp := dnp) h hc hnd hh
    (fun q hq => by have := h.rnn x q hq; simp only [Bool.false_eq_true, if_false, Int.add_zero]; exact ⟨this.selfRequest, this.selfNpRequest⟩)
    (fun m _ hm => by simp [atX, hm])
    (Or.inr (fun q hq => by have := h.rnn x q hq; exact ⟨by have := this.cr; omega, by have := this.npRequest; omega⟩))
  refine gs_congr hres (fun m => ?_) (fun m => ?_) (fun m => ?_) (fun m => ?_) (fun m hm => Or.inl hm)
    (fun _ => rfl) (fun _ => rfl) (fun _ => rfl) (fun _ => rfl) <;> by_cases hm : m = x <;> simp [atX, hm]

theorem gs_selfUsed {st : State} {x : Nat} {C E Ku Knu d dnp : Int} {a b k kn : Nat → Int} {R : Nat → Prop}
    (h : GS st a b k kn R (atX x C) (atX x E) (atX x Ku) (atX x Knu)) (hx : (get? st x).isSome)
    (hd : 0 ≤ d) (hdnp : 0 ≤ dnp) :
    GS (deltaUsed st x d dnp true) a b k kn R (atX x (C - d)) (atX x (E - dnp)) (atX x Ku) (atX x Knu) := by
  obtain ⟨hc, hnd, hh⟩ := path_head_mem h.topo hx
  have hres := gs_propUsed (self := true) (d := d) (dnp := dnp) h hc hnd hh
    (fun q hq => by have := h.unn x q hq; simp only [if_true]; exact ⟨by have := this.selfUsed; omega, by have := this.selfNpUsed; omega⟩)
    (fun m _ hm => by simp [atX, hm])
    (Or.inr (fun q hq => by have := h.unn x q hq; exact ⟨by have := this.used; omega, by have := this.npUsed; omega⟩))
  refine gs_congr hres (fun _ => rfl) (fun _ => rfl) (fun _ => rfl) (fun _ => rfl) (fun m hm => hm)
    (fun m => ?_) (fun m => ?_) (fun m => ?_) (fun m => ?_) <;> by_cases hm : m = x <;> simp [atX, hm]

theorem gs_kidsUsed {st : State} {x : Nat} {C E Ku Knu d dnp : Int} {a b k kn : Nat → Int} {R : Nat → Prop}
    (h : GS st a b k kn R (atX x C) (atX x E) (atX x Ku) (atX x Knu)) (hx : (get? st x).isSome)
    (hd : 0 ≤ d) (hdnp : 0 ≤ dnp) :
    GS (deltaUsed st x d dnp false) a b k kn R (atX x C) (atX x E) (atX x (Ku - d)) (atX x (Knu - dnp)) := by
  obtain ⟨hc, hnd, hh⟩ := path_head_mem h.topo hx
  have hres := gs_propUsed (self := false) (d := d) (dnp := dnp) h hc hnd hh
    (fun q hq => by have := h.unn x q hq; simp only [Bool.false_eq_true, if_false, Int.add_zero]; exact ⟨this.selfUsed, this.selfNpUsed⟩)
    (fun m _ hm => by simp [atX, hm])
    (Or.inr (fun q hq => by have := h.unn x q hq; exact ⟨by have := this.used; omega, by have := this.npUsed; omega⟩))
  refine gs_congr hres (fun _ => rfl) (fun _ => rfl) (fun _ => rfl) (fun _ => rfl) (fun m hm => hm)
    (fun m => ?_) (fun m => ?_) (fun m => ?_) (fun m => ?_) <;> by_cases hm : m = x <;> simp [atX, hm]

theorem deltaReq_isSome (st : State) (n : Nat) (d dnp : Int) (self : Bool) (m : Nat) :
    (get? (deltaReq st n d dnp self) m).isSome = (get? st m).isSome :=
  isSome_of_tree (propReqW_map _ (fun q q' h => by simp [h.name, h.parent]) clamp0 _ st self _ _) m

theorem deltaUsed_isSome (st : State) (n : Nat) (d dnp : Int) (self : Bool) (m : Nat) :
    (get? (deltaUsed st n d dnp self) m).isSome = (get? st m).isSome :=
  isSome_of_tree (propUsedW_map _ (fun q q' h => by simp [h.name, h.parent]) clamp0 _ st self _ _) m

end KoordVerif.C01
