import KoordVerif.Model.C19
/-
C19, NUMA ledger: helper development for Props/C19.lean.

Central facts:
  * `Inv` : the aggregates of a `NodeAllocation` (RefCount per CPU, amounts per NUMA node) are the
    from-scratch sums over the recorded pod allocations, the recorded uids are distinct, recorded
    amounts are non-negative;
  * `Inv` is preserved by `addPodAllocation`, `release`, `update` and by the informer handlers;
  * two ledgers satisfying `Inv` whose recorded allocations are permutations of each other are
    observationally equal (`ObsEq`).
-/
namespace KoordVerif.C19

/-! ### from-scratch sums over recorded allocations -/

def Good (a : PodAlloc) : Prop := ∀ r ∈ a.numa, 0 ≤ r.cpu ∧ 0 ≤ r.mem

/-- amounts a list of NUMA records holds on node `n` -/
def numaAt : List NumaRes → Nat → Int × Int
  | [], _ => (0, 0)
  | r :: rs, n => if r.node = n then (r.cpu + (numaAt rs n).1, r.mem + (numaAt rs n).2) else numaAt rs n

/-- number of recorded allocations holding CPU `c` (with multiplicity) -/
def refSum : List PodAlloc → Nat → Nat
  | [], _ => 0
  | p :: ps, c => p.cpus.count c + refSum ps c

/-- amounts all recorded allocations hold on NUMA node `n` -/
def resSum : List PodAlloc → Nat → Int × Int
  | [], _ => (0, 0)
  | p :: ps, n => ((numaAt p.numa n).1 + (resSum ps n).1, (numaAt p.numa n).2 + (resSum ps n).2)

structure Inv (s : St) : Prop where
  nodup : (s.pods.map (·.uid)).Nodup
  good  : ∀ p ∈ s.pods, Good p
  ref   : ∀ c, s.bag.count c = refSum s.pods c
  res   : ∀ n, getRes s.res n = resSum s.pods n

theorem inv_init : Inv St.init :=
  ⟨by simp [St.init], by simp [St.init], by simp [St.init, refSum], by simp [St.init, getRes, resSum]⟩

/-! ### association-list lemmas -/

theorem numaAt_nonneg (l : List NumaRes) (h : ∀ r ∈ l, 0 ≤ r.cpu ∧ 0 ≤ r.mem) (n : Nat) :
    0 ≤ (numaAt l n).1 ∧ 0 ≤ (numaAt l n).2 := by
  induction l with
  | nil => simp [numaAt]
  | cons r rs ih =>
    have h1 := h r (by simp)
    have h2 := ih (fun x hx => h x (by simp [hx]))
    simp only [numaAt]
    split
    · simp only []; omega
    · exact h2

theorem resSum_nonneg (ps : List PodAlloc) (h : ∀ p ∈ ps, Good p) (n : Nat) :
    0 ≤ (resSum ps n).1 ∧ 0 ≤ (resSum ps n).2 := by
  induction ps with
  | nil => simp [resSum]
  | cons p ps ih =>
    have h1 := numaAt_nonneg p.numa (h p (by simp)) n
    have h2 := ih (fun x hx => h x (by simp [hx]))
    simp only [resSum]
    omega

theorem getRes_setRes (m : List (Nat × Int × Int)) (k : Nat) (v : Int × Int) (k' : Nat) :
    getRes (setRes m k v) k' = if k = k' then v else getRes m k' := by
  induction m with
  | nil => simp [setRes, getRes]
  | cons e r ih =>
    obtain ⟨ke, ve⟩ := e
    simp only [setRes]
    by_cases h : ke = k
    · subst h; simp only [if_true, getRes]; split <;> simp_all
    · simp only [h, if_false, getRes]
      by_cases h2 : ke = k'
      · subst h2
        have : ¬ k = ke := fun e => h e.symm
        simp [this]
      · simp [h2, ih]

theorem getRes_of_not_has (m : List (Nat × Int × Int)) (k : Nat) (h : hasRes m k = false) :
    getRes m k = (0, 0) := by
  induction m with
  | nil => simp [getRes]
  | cons e r ih =>
    obtain ⟨ke, ve⟩ := e
    simp only [hasRes, List.any_cons, Bool.or_eq_false_iff, beq_eq_false_iff_ne] at h
    simp only [getRes]
    rw [if_neg (by simpa using h.1)]
    exact ih (by simpa [hasRes] using h.2)

theorem getRes_addRes (m : List (Nat × Int × Int)) (r : NumaRes) (n : Nat) :
    getRes (addRes m r) n =
      if r.node = n then ((getRes m n).1 + r.cpu, (getRes m n).2 + r.mem) else getRes m n := by
  simp only [addRes, getRes_setRes]
  split
  · next h => subst h; rfl
  · rfl

theorem getRes_foldl_addRes (l : List NumaRes) (m : List (Nat × Int × Int)) (n : Nat) :
    getRes (l.foldl addRes m) n = ((getRes m n).1 + (numaAt l n).1, (getRes m n).2 + (numaAt l n).2) := by
  induction l generalizing m with
  | nil => simp [numaAt]
  | cons r rs ih =>
    simp only [List.foldl_cons, ih, getRes_addRes, numaAt]
    split <;> simp <;> omega

theorem getRes_subRes (m : List (Nat × Int × Int)) (r : NumaRes) (n : Nat)
    (hr : 0 ≤ r.cpu ∧ 0 ≤ r.mem)
    (hge : r.cpu ≤ (getRes m r.node).1 ∧ r.mem ≤ (getRes m r.node).2) :
    getRes (subRes m r) n =
      if r.node = n then ((getRes m n).1 - r.cpu, (getRes m n).2 - r.mem) else getRes m n := by
  unfold subRes
  by_cases hh : hasRes m r.node = true
  · simp only [hh, if_true, getRes_setRes]
    split
    · next h =>
      subst h
      have e1 : clamp0 ((getRes m r.node).1 - r.cpu) = (getRes m r.node).1 - r.cpu := by
        unfold clamp0; split <;> omega
      have e2 : clamp0 ((getRes m r.node).2 - r.mem) = (getRes m r.node).2 - r.mem := by
        unfold clamp0; split <;> omega
      rw [e1, e2]
    · rfl
  · have h0 := getRes_of_not_has m r.node (by simpa using hh)
    rw [if_neg hh]
    split
    · next h =>
      subst h
      rw [h0] at hge ⊢
      simp only at hge
      ext
      · simp only []; omega
      · simp only []; omega
    · rfl

theorem getRes_foldl_subRes (l : List NumaRes) (m : List (Nat × Int × Int))
    (hl : ∀ r ∈ l, 0 ≤ r.cpu ∧ 0 ≤ r.mem)
    (hge : ∀ n, (numaAt l n).1 ≤ (getRes m n).1 ∧ (numaAt l n).2 ≤ (getRes m n).2) (n : Nat) :
    getRes (l.foldl subRes m) n = ((getRes m n).1 - (numaAt l n).1, (getRes m n).2 - (numaAt l n).2) := by
  induction l generalizing m with
  | nil => simp [numaAt]
  | cons r rs ih =>
    have hr := hl r (by simp)
    have hrs : ∀ x ∈ rs, 0 ≤ x.cpu ∧ 0 ≤ x.mem := fun x hx => hl x (by simp [hx])
    have hnn := numaAt_nonneg rs hrs
    have hge_r : r.cpu ≤ (getRes m r.node).1 ∧ r.mem ≤ (getRes m r.node).2 := by
      have := hge r.node
      have h2 := hnn r.node
      simp only [numaAt, if_true] at this
      omega
    have step := getRes_subRes m r
    simp only [List.foldl_cons]
    rw [ih (subRes m r) hrs]
    · rw [step n hr hge_r]
      simp only [numaAt]
      split <;> simp <;> omega
    · intro k
      rw [step k hr hge_r]
      have := hge k
      simp only [numaAt] at this
      split at this <;> simp_all <;> omega

/-! ### pods bookkeeping -/

theorem findPod_none_iff (uid : Nat) (ps : List PodAlloc) :
    findPod uid ps = none ↔ uid ∉ ps.map (·.uid) := by
  induction ps with
  | nil => simp [findPod]
  | cons p ps ih =>
    simp only [findPod, List.map_cons, List.mem_cons, not_or]
    split
    · next h => simp [h]
    · next h => rw [ih]; constructor
                · intro h2; exact ⟨fun e => h e.symm, h2⟩
                · intro h2; exact h2.2

theorem findPod_some_mem {uid : Nat} {ps : List PodAlloc} {a : PodAlloc} (h : findPod uid ps = some a) :
    a ∈ ps ∧ a.uid = uid := by
  induction ps with
  | nil => simp [findPod] at h
  | cons p ps ih =>
    simp only [findPod] at h
    split at h
    · next hp => cases h; exact ⟨by simp, hp⟩
    · exact ⟨by simp [(ih h).1], (ih h).2⟩

theorem erasePod_mem {uid : Nat} {ps : List PodAlloc} {p : PodAlloc} (h : p ∈ erasePod uid ps) : p ∈ ps := by
  induction ps with
  | nil => simp [erasePod] at h
  | cons q qs ih =>
    simp only [erasePod] at h
    split at h
    · simp [h]
    · simp only [List.mem_cons] at h ⊢
      rcases h with h | h
      · exact Or.inl h
      · exact Or.inr (ih h)

theorem erasePod_uids_sub (uid : Nat) (ps : List PodAlloc) (u : Nat)
    (h : u ∈ (erasePod uid ps).map (·.uid)) : u ∈ ps.map (·.uid) := by
  simp only [List.mem_map] at h ⊢
  obtain ⟨p, hp, rfl⟩ := h
  exact ⟨p, erasePod_mem hp, rfl⟩

theorem erasePod_nodup (uid : Nat) (ps : List PodAlloc) (h : (ps.map (·.uid)).Nodup) :
    ((erasePod uid ps).map (·.uid)).Nodup := by
  induction ps with
  | nil => simp [erasePod]
  | cons q qs ih =>
    simp only [List.map_cons, List.nodup_cons] at h
    simp only [erasePod]
    split
    · exact h.2
    · simp only [List.map_cons, List.nodup_cons]
      exact ⟨fun hm => h.1 (erasePod_uids_sub uid qs _ hm), ih h.2⟩

theorem erasePod_not_mem (uid : Nat) (ps : List PodAlloc) (h : (ps.map (·.uid)).Nodup) :
    uid ∉ (erasePod uid ps).map (·.uid) := by
  induction ps with
  | nil => simp [erasePod]
  | cons q qs ih =>
    simp only [List.map_cons, List.nodup_cons] at h
    simp only [erasePod]
    split
    · next hq => rw [← hq]; exact h.1
    · next hq =>
      simp only [List.map_cons, List.mem_cons, not_or]
      exact ⟨fun e => hq e.symm, ih h.2⟩

theorem refSum_erasePod {uid : Nat} {ps : List PodAlloc} {a : PodAlloc} (h : findPod uid ps = some a) (c : Nat) :
    refSum ps c = a.cpus.count c + refSum (erasePod uid ps) c := by
  induction ps with
  | nil => simp [findPod] at h
  | cons p ps ih =>
    simp only [findPod] at h
    simp only [erasePod]
    split at h
    · next hp => cases h; simp [hp, refSum]
    · next hp => simp only [hp, if_false, refSum]; have := ih h; omega

theorem resSum_erasePod {uid : Nat} {ps : List PodAlloc} {a : PodAlloc} (h : findPod uid ps = some a) (n : Nat) :
    resSum ps n = ((numaAt a.numa n).1 + (resSum (erasePod uid ps) n).1,
                   (numaAt a.numa n).2 + (resSum (erasePod uid ps) n).2) := by
  induction ps with
  | nil => simp [findPod] at h
  | cons p ps ih =>
    simp only [findPod] at h
    simp only [erasePod]
    split at h
    · next hp => cases h; simp [hp, resSum]
    · next hp =>
      simp only [hp, if_false, resSum]
      rw [ih h]
      ext <;> simp <;> omega

theorem count_foldl_erase (l b : List Nat) (c : Nat) :
    (l.foldl (fun b c => b.erase c) b).count c = b.count c - l.count c := by
  induction l generalizing b with
  | nil => simp
  | cons x xs ih =>
    simp only [List.foldl_cons, ih, List.count_cons, List.count_erase]
    by_cases h : x = c
    · subst h; simp; omega
    · have h' : (x == c) = false := by simpa using h
      simp [h']

/-! ### the ledger operations preserve `Inv` -/

theorem inv_addPod (topo : List Nat) (s : St) (a : PodAlloc) (hs : Inv s) (ha : Good a) :
    Inv (addPod topo s a) := by
  unfold addPod
  split
  · exact hs
  · next hnone =>
    have hnot := (findPod_none_iff a.uid s.pods).1 hnone
    refine ⟨?_, ?_, ?_, ?_⟩
    · simp only [List.map_cons, List.nodup_cons]; exact ⟨hnot, hs.nodup⟩
    · intro p hp
      simp only [List.mem_cons] at hp
      rcases hp with rfl | hp
      · exact ha
      · exact hs.good p hp
    · intro c; simp only [List.count_append, refSum, hs.ref c]
    · intro n
      simp only [getRes_foldl_addRes, resSum, hs.res n]
      ext <;> simp <;> omega

theorem inv_release (topo : List Nat) (s : St) (uid : Nat) (hs : Inv s) : Inv (release topo s uid) := by
  unfold release
  split
  · exact hs
  · next a hsome =>
    have hmem := findPod_some_mem hsome
    have hga := hs.good a hmem.1
    refine ⟨erasePod_nodup uid s.pods hs.nodup, fun p hp => hs.good p (erasePod_mem hp), ?_, ?_⟩
    · intro c
      simp only [count_foldl_erase, hs.ref c, refSum_erasePod hsome c]
      omega
    · intro n
      have hrest : ∀ k, 0 ≤ (resSum (erasePod uid s.pods) k).1 ∧ 0 ≤ (resSum (erasePod uid s.pods) k).2 :=
        resSum_nonneg _ (fun p hp => hs.good p (erasePod_mem hp))
      have hge : ∀ k, (numaAt a.numa k).1 ≤ (getRes s.res k).1 ∧ (numaAt a.numa k).2 ≤ (getRes s.res k).2 := by
        intro k
        rw [hs.res k, resSum_erasePod hsome k]
        have := hrest k
        simp; omega
      simp only
      rw [getRes_foldl_subRes a.numa s.res hga hge n, hs.res n, resSum_erasePod hsome n]
      ext <;> simp <;> omega

theorem inv_update (topo : List Nat) (s : St) (a : PodAlloc) (hs : Inv s) (ha : Good a) :
    Inv (update topo s a) :=
  inv_addPod topo _ a (inv_release topo s a.uid hs) ha

/-! ### pods component of the operations -/

theorem erasePod_of_not_mem (uid : Nat) (ps : List PodAlloc) (h : uid ∉ ps.map (·.uid)) :
    erasePod uid ps = ps := by
  induction ps with
  | nil => rfl
  | cons p ps ih =>
    simp only [List.map_cons, List.mem_cons, not_or] at h
    simp only [erasePod]
    rw [if_neg (fun e => h.1 e.symm), ih h.2]

theorem pods_release (topo : List Nat) (s : St) (uid : Nat) :
    (release topo s uid).pods = erasePod uid s.pods := by
  unfold release
  split
  · next h => exact (erasePod_of_not_mem uid s.pods ((findPod_none_iff uid s.pods).1 h)).symm
  · rfl

theorem pods_update (topo : List Nat) (s : St) (a : PodAlloc) (hs : (s.pods.map (·.uid)).Nodup) :
    (update topo s a).pods = a :: erasePod a.uid s.pods := by
  have hp := pods_release topo s a.uid
  have hnot : findPod a.uid (release topo s a.uid).pods = none := by
    rw [hp, findPod_none_iff]; exact erasePod_not_mem a.uid s.pods hs
  unfold update addPod
  rw [hnot]
  simp only [hp]

/-! ### observational equality -/

/-- what the scheduler can see of a ledger: RefCount of every CPU, amounts on every NUMA node, the
    set of available CPUs, and the recorded allocations up to order. -/
structure ObsEq (topo : List Nat) (maxRef : Nat) (s t : St) : Prop where
  pods  : s.pods.Perm t.pods
  ref   : ∀ c, refCount s c = refCount t c
  res   : ∀ n, getRes s.res n = getRes t.res n
  avail : availCPUs topo maxRef s = availCPUs topo maxRef t

theorem refSum_perm {l₁ l₂ : List PodAlloc} (h : l₁.Perm l₂) (c : Nat) : refSum l₁ c = refSum l₂ c := by
  induction h with
  | nil => rfl
  | cons x _ ih => simp [refSum, ih]
  | swap x y l => simp only [refSum]; omega
  | trans _ _ ih1 ih2 => rw [ih1, ih2]

theorem resSum_perm {l₁ l₂ : List PodAlloc} (h : l₁.Perm l₂) (n : Nat) : resSum l₁ n = resSum l₂ n := by
  induction h with
  | nil => rfl
  | cons x _ ih => simp [resSum, ih]
  | swap x y l => simp only [resSum]; ext <;> simp <;> omega
  | trans _ _ ih1 ih2 => rw [ih1, ih2]

theorem obsEq_of_inv (topo : List Nat) (maxRef : Nat) {s t : St} (hs : Inv s) (ht : Inv t)
    (hp : s.pods.Perm t.pods) : ObsEq topo maxRef s t := by
  have href : ∀ c, refCount s c = refCount t c := by
    intro c; simp only [refCount, hs.ref c, ht.ref c, refSum_perm hp c]
  refine ⟨hp, href, ?_, ?_⟩
  · intro n; rw [hs.res n, ht.res n, resSum_perm hp n]
  · simp only [availCPUs, href]


/-! ### the exclusive-policy marker (last writer) -/

theorem markOf_append_map (cpus : List Nat) (e : Nat) (m : List (Nat × Nat)) (c : Nat) :
    markOf (cpus.map (fun x => (x, e)) ++ m) c = if c ∈ cpus then e else markOf m c := by
  induction cpus with
  | nil => simp
  | cons x xs ih =>
    simp only [List.map_cons, List.cons_append, markOf, ih, List.mem_cons]
    by_cases h : x = c
    · simp [h]
    · have : ¬ c = x := fun e => h e.symm
      simp [h, this]

theorem update_fresh_pods_mark (topo : List Nat) (s : St) (a : PodAlloc) (h : a.uid ∉ s.pods.map (·.uid)) :
    (update topo s a).pods = a :: s.pods ∧
    (update topo s a).mark = a.cpus.map (fun c => (c, a.excl)) ++ s.mark := by
  have hnone := (findPod_none_iff a.uid s.pods).2 h
  have hrel : release topo s a.uid = s := by unfold release; rw [hnone]
  unfold update
  rw [hrel]
  unfold addPod
  rw [hnone]
  exact ⟨rfl, rfl⟩

/-- all holders of a CPU agree on the policy ⇒ the marker is that policy -/
def MarkInv (s : St) : Prop :=
  ∀ c e, (∃ p ∈ s.pods, c ∈ p.cpus) → (∀ p ∈ s.pods, c ∈ p.cpus → p.excl = e) → markOf s.mark c = e

theorem markInv_update_fresh (topo : List Nat) (s : St) (a : PodAlloc) (h : a.uid ∉ s.pods.map (·.uid))
    (hs : MarkInv s) : MarkInv (update topo s a) := by
  obtain ⟨hp, hm⟩ := update_fresh_pods_mark topo s a h
  intro c e hex hall
  rw [hp] at hex hall
  rw [hm, markOf_append_map]
  by_cases hc : c ∈ a.cpus
  · rw [if_pos hc]; exact hall a (by simp) hc
  · rw [if_neg hc]
    apply hs c e
    · obtain ⟨p, hpm, hpc⟩ := hex
      simp only [List.mem_cons] at hpm
      rcases hpm with rfl | hpm
      · exact absurd hpc hc
      · exact ⟨p, hpm, hpc⟩
    · intro p hpm hpc; exact hall p (by simp [hpm]) hpc

theorem foldl_update_fresh (topo : List Nat) (l : List PodAlloc) (s : St)
    (hl : (l.map (·.uid)).Nodup) (hd : ∀ a ∈ l, a.uid ∉ s.pods.map (·.uid)) (hs : MarkInv s) :
    MarkInv (l.foldl (update topo) s) ∧ (l.foldl (update topo) s).pods = l.reverse ++ s.pods := by
  induction l generalizing s with
  | nil => exact ⟨hs, by simp⟩
  | cons a as ih =>
    simp only [List.map_cons, List.nodup_cons] at hl
    have ha := hd a (by simp)
    obtain ⟨hp, _⟩ := update_fresh_pods_mark topo s a ha
    have := ih (update topo s a) hl.2
      (by
        intro b hb
        rw [hp]
        simp only [List.map_cons, List.mem_cons, not_or]
        refine ⟨fun e => hl.1 ?_, hd b (by simp [hb])⟩
        rw [← e]; exact List.mem_map.2 ⟨b, hb, rfl⟩)
      (markInv_update_fresh topo s a ha hs)
    simp only [List.foldl_cons]
    refine ⟨this.1, ?_⟩
    rw [this.2, hp]; simp

end KoordVerif.C19
