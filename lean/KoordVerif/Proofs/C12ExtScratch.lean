import KoordVerif.Props.C12
import KoordVerif.Proofs.C12ExtEnv
namespace KoordVerif.C12
variable {α : Type}

/-! ### directories that do not exist while a batch runs (ignored-error / write-failure `continue` branches) -/

/-- the tree of the existing directories: an edge counts only when both ends exist. -/
def liveParent (parent : Nat → Option Nat) (ex : Nat → Bool) : Nat → Option Nat := fun c =>
  match parent c with
  | some p => if ex c && ex p then some p else none
  | none => none

/-- intended content: the target on the existing directories, untouched elsewhere. -/
def liveT (ex : Nat → Bool) (old T : Nat → α) : Nat → α := fun n => if ex n then T n else old n

theorem liveParent_some {parent : Nat → Option Nat} {ex : Nat → Bool} {c p : Nat}
    (h : liveParent parent ex c = some p) : parent c = some p ∧ ex c = true ∧ ex p = true := by
  unfold liveParent at h
  split at h
  · next q hq =>
    split at h
    · next hex => cases h; simp only [Bool.and_eq_true] at hex; exact ⟨hq, hex.1, hex.2⟩
    · cases h
  · cases h

theorem live_flatten (ex : Nat → Bool) (levels : List (List (Upd α))) :
    (liveLevels ex levels).flatten = levels.flatten.filter fun u => ex u.node :=
  (filter_flatten' _ levels).symm

theorem mem_live_flatten {ex : Nat → Bool} {levels : List (List (Upd α))} {u : Upd α} :
    u ∈ (liveLevels ex levels).flatten ↔ u ∈ levels.flatten ∧ ex u.node = true := by
  rw [live_flatten, List.mem_filter]

theorem liveBatchOK (ex : Nat → Bool) (levels : List (List (Upd α))) (old T : Nat → α)
    (hb : BatchOK levels old T) : BatchOK (liveLevels ex levels) old (liveT ex old T) where
  tgt := by
    intro u hu
    obtain ⟨h1, h2⟩ := mem_live_flatten.mp hu
    simp only [liveT, h2, if_true]; exact hb.tgt u h1
  out := by
    intro n hn
    by_cases he : ex n = true
    · simp only [liveT, he, if_true]
      apply hb.out
      intro hmem
      apply hn
      obtain ⟨u, hu, rfl⟩ := mem_nodes hmem
      exact List.mem_map_of_mem (mem_live_flatten.mpr ⟨hu, he⟩)
    · simp [liveT, he]
  nodup := by
    rw [live_flatten]
    exact hb.nodup.sublist (List.Sublist.map _ List.filter_sublist)

theorem liveLevelled (parent : Nat → Option Nat) (ex : Nat → Bool) (levels : List (List (Upd α)))
    (h : Levelled parent levels) : Levelled (liveParent parent ex) (liveLevels ex levels) := by
  refine ⟨?_, ?_⟩
  · unfold liveLevels
    rw [List.pairwise_map]
    refine h.1.imp ?_
    intro hi lo hh a ha b hb hp
    exact hh a (List.mem_filter.mp ha).1 b (List.mem_filter.mp hb).1 (liveParent_some hp).1
  · intro L hL a ha b hb hp
    unfold liveLevels at hL
    obtain ⟨L0, hL0, rfl⟩ := List.mem_map.mp hL
    exact h.2 L0 hL0 a (List.mem_filter.mp ha).1 b (List.mem_filter.mp hb).1 (liveParent_some hp).1

section MissingDirs
set_option linter.unusedSectionVars false
variable {D : Dom α} (hD : DomEq D) (hm : D.mergeable = true) (exp : Bool)
variable (ex : Nat → Bool) (levels : List (List (Upd α))) (s : St α) (T : Nat → α)
include hD hm

/-- **missing_dirs_final**: when some directories of the batch do not exist, every existing file still ends on its
    target and nothing else changes. -/
theorem missing_dirs_final (hc : CacheOK s) (hb : BatchOK levels s.files T) :
    ∀ n, (runBatchE D exp ex levels s).1.files n = if ex n then T n else s.files n := by
  intro n
  rw [runBatchE_eq]
  exact final_is_target hD hm exp _ s _ hc (liveBatchOK ex levels s.files T hb) n

/-- **missing_dirs_cache_consistent**: the cache still describes the files, and NO cache entry is made or changed
    for a directory that does not exist (a failed / ignored update is not recorded as done). -/
theorem missing_dirs_cache_consistent (hc : CacheOK s) (hb : BatchOK levels s.files T) :
    CacheOK (runBatchE D exp ex levels s).1 ∧
    ∀ n, ex n = false → (runBatchE D exp ex levels s).1.cache n = s.cache n := by
  refine ⟨?_, ?_⟩
  · rw [runBatchE_eq]
    exact cache_consistent_after hD hm exp _ s _ hc (liveBatchOK ex levels s.files T hb)
  · intro n hn
    simp only [runBatchE, runPass_stepE]
    rw [runPass_cache_frame _ (fun s u m h => step2_cache_frame D exp s u m h) _ _ n (nodes_filter_ex ex _ n hn),
        runPass_cache_frame _ (fun s u m h => step1_cache_frame D exp s u m h) _ _ n (nodes_filter_ex ex _ n hn)]

theorem missing_dirs_writes_replay (hc : CacheOK s) (hb : BatchOK levels s.files T) :
    applyWrites s.files (runBatchE D exp ex levels s).2 = (runBatchE D exp ex levels s).1.files := by
  rw [runBatchE_eq]
  exact writes_replay hD hm exp _ s _ hc (liveBatchOK ex levels s.files T hb)

/-- **missing_dirs_every_prefix_valid**: with any set of directories missing during the batch, every prefix of the
    write sequence leaves the tree of the EXISTING directories valid (start and target valid on that tree). -/
theorem missing_dirs_every_prefix_valid {le : α → α → Prop} (hO : DomOrd D le) (parent : Nat → Option Nat)
    (hc : CacheOK s) (hb : BatchOK levels s.files T) (hlev : Levelled parent levels)
    (hold : Valid (liveParent parent ex) le s.files) (htgt : Valid (liveParent parent ex) le T) :
    ∀ k, Valid (liveParent parent ex) le (applyWrites s.files ((runBatchE D exp ex levels s).2.take k)) := by
  rw [runBatchE_eq]
  apply every_prefix_valid hD hm exp _ s _ hO _ hc (liveBatchOK ex levels s.files T hb)
    (liveLevelled parent ex levels hlev) hold
  intro c p h
  obtain ⟨_, h1, h2⟩ := liveParent_some h
  simp only [liveT, h1, h2, if_true]
  exact htgt c p h

end MissingDirs

/-! ### histories with a changing set of directories: batches, and the runtime creating / removing cgroups -/

inductive Ev (α : Type) where
  /-- one LeveledUpdateBatch (cache expired?, updaters) with its intended assignment -/
  | batch (exp : Bool) (levels : List (List (Upd α))) (T : Nat → α)
  /-- the runtime creates directory `n` with content `v` -/
  | create (n : Nat) (v : α)
  /-- directory `n` disappears -/
  | remove (n : Nat)

/-- state of a history: executor + files, and which directories exist. -/
def evStep (D : Dom α) : St α × (Nat → Bool) → Ev α → St α × (Nat → Bool)
  | (s, ex), .batch exp levels _ => ((runBatchE D exp ex levels s).1, ex)
  | (s, ex), .create n v => ({ s with files := setAt s.files n v }, setAt ex n true)
  | (s, ex), .remove n => (s, setAt ex n false)

/-- what the environment must respect: a created directory is new for the executor (no cache entry — the code
    never records a directory it could not write — or an entry equal to the content), lies within its existing
    parent, and its children do not exist yet. -/
def EvsOK (D : Dom α) (parent : Nat → Option Nat) (le : α → α → Prop) : St α × (Nat → Bool) → List (Ev α) → Prop
  | _, [] => True
  | (s, ex), e :: es =>
    (match e with
     | .batch _ levels T => BatchOK levels s.files T ∧ Levelled parent levels ∧ Valid (liveParent parent ex) le T
     | .create n v => ex n = false ∧ (s.cache n = none ∨ s.cache n = some v) ∧
         (∀ p, parent n = some p → ex p = true → le v (s.files p)) ∧ (∀ c, parent c = some n → ex c = false)
     | .remove _ => True) ∧
    EvsOK D parent le (evStep D (s, ex) e) es

/-- every crash point of every batch of the history leaves the existing tree valid. -/
def AllPrefixesValid (D : Dom α) (parent : Nat → Option Nat) (le : α → α → Prop) :
    St α × (Nat → Bool) → List (Ev α) → Prop
  | _, [] => True
  | (s, ex), e :: es =>
    (match e with
     | .batch exp levels _ =>
         ∀ k, Valid (liveParent parent ex) le (applyWrites s.files ((runBatchE D exp ex levels s).2.take k))
     | _ => True) ∧
    AllPrefixesValid D parent le (evStep D (s, ex) e) es

/-- **churn_history_every_prefix_valid**: over any history of batches interleaved with the runtime creating and
    removing cgroup directories (under `EvsOK`), from a consistent cache and a valid existing tree, every crash
    point of every batch leaves the existing tree valid. -/
theorem churn_history_every_prefix_valid {D : Dom α} (hD : DomEq D) (hm : D.mergeable = true)
    {le : α → α → Prop} (hO : DomOrd D le) (parent : Nat → Option Nat) :
    ∀ (es : List (Ev α)) (s : St α) (ex : Nat → Bool), CacheOK s → Valid (liveParent parent ex) le s.files →
      EvsOK D parent le (s, ex) es → AllPrefixesValid D parent le (s, ex) es := by
  intro es
  induction es with
  | nil => intro s ex _ _ _; trivial
  | cons e es ih =>
    intro s ex hc hv hok
    obtain ⟨he, hrest⟩ := hok
    cases e with
    | batch exp levels T =>
      obtain ⟨hb, hlev, htgt⟩ := he
      have hpre := missing_dirs_every_prefix_valid hD hm exp ex levels s T hO parent hc hb hlev hv htgt
      refine ⟨hpre, ?_⟩
      apply ih _ _ (missing_dirs_cache_consistent hD hm exp ex levels s T hc hb).1 ?_ hrest
      have hfin := missing_dirs_final hD hm exp ex levels s T hc hb
      intro c p h
      obtain ⟨_, h1, h2⟩ := liveParent_some h
      show le ((runBatchE D exp ex levels s).1.files c) ((runBatchE D exp ex levels s).1.files p)
      rw [hfin c, hfin p]; simp only [h1, h2, if_true]; exact htgt c p h
    | create n v =>
      obtain ⟨hex, hcache, hle, hkids⟩ := he
      refine ⟨trivial, ?_⟩
      apply ih _ _ ?_ ?_ hrest
      · intro m x hx
        simp only [setAt] at hx ⊢
        by_cases hmn : m = n
        · subst hmn; simp only [if_true]
          rcases hcache with h | h <;> rw [h] at hx <;> cases hx; rfl
        · simp only [hmn, if_false]; exact hc m x hx
      · intro c p h
        obtain ⟨hp, h1, h2⟩ := liveParent_some h
        simp only [setAt] at h1 h2 ⊢
        by_cases hcn : c = n
        · subst hcn
          by_cases hpn : p = c
          · subst hpn; simp only [if_true]; exact hO.refl v
          · simp only [if_true, hpn, if_false] at h2 ⊢
            exact hle p hp h2
        · simp only [hcn, if_false] at h1 ⊢
          by_cases hpn : p = n
          · subst hpn; rw [hkids c hp] at h1; cases h1
          · simp only [hpn, if_false] at h2 ⊢
            apply hv c p
            simp [liveParent, hp, h1, h2]
    | remove n =>
      refine ⟨trivial, ?_⟩
      apply ih _ _ hc ?_ hrest
      intro c p h
      obtain ⟨hp, h1, h2⟩ := liveParent_some h
      simp only [setAt] at h1 h2
      apply hv c p
      by_cases hcn : c = n
      · simp [hcn] at h1
      · by_cases hpn : p = n
        · simp [hpn] at h2
        · simp only [hcn, hpn, if_false] at h1 h2
          simp [liveParent, hp, h1, h2]

end KoordVerif.C12
