import KoordVerif.Props.C12
import KoordVerif.Proofs.C12ExtStatic
namespace KoordVerif.C12

/-! ### kubelet static policy: recover besteffort + pods, then write the containers -/

section StaticPolicy
variable (parent : Nat → Option Nat) (paths : List Nat) (depth : Nat → Nat) (R cpus : Nat) (exp : Bool) (s : St Nat)

/-- dirs written by recoverCPUSetIfNeed(PodCgroupPathRelativeDepth) / by applyCPUSetWithStaticPolicy -/
def spUpper (paths : List Nat) (depth : Nat → Nat) : List Nat := paths.filter fun n => decide (depth n ≤ podDepth)
def spCtrs (paths : List Nat) (depth : Nat → Nat) : List Nat := paths.filter fun n => depth n == ctrDepth

/-- the state the static-policy branch leaves: besteffort dir and pod dirs hold the recovered share pool `R`,
    container dirs the suppressed set `cpus` (untouched when `cpus` is empty), everything else is untouched. -/
def spFinal (paths : List Nat) (depth : Nat → Nat) (R cpus : Nat) (f : Nat → Nat) : Nat → Nat := fun n =>
  if n ∈ paths ∧ depth n ≤ 1 then R
  else if n ∈ paths ∧ depth n = 2 ∧ cpus ≠ 0 then cpus
  else f n

theorem sp_mem_upper (n : Nat) : n ∈ spUpper paths depth ↔ n ∈ paths ∧ depth n ≤ 1 := by
  simp only [spUpper, podDepth, List.mem_filter]
  constructor
  · rintro ⟨h1, h2⟩; exact ⟨h1, of_decide_eq_true h2⟩
  · rintro ⟨h1, h2⟩; exact ⟨h1, decide_eq_true h2⟩
theorem sp_mem_ctrs (n : Nat) : n ∈ spCtrs paths depth ↔ n ∈ paths ∧ depth n = 2 := by
  simp [spCtrs, ctrDepth]

theorem sp_unfold :
    staticPolicy exp paths depth (some R) cpus s =
      (if cpus = 0 then
        runPass (stepCached cpusetDom exp) ((spUpper paths depth).map fun n => { node := n, tgt := some R }) s
       else
        ((runPass (stepCached cpusetDom exp) ((spCtrs paths depth).map fun n => { node := n, tgt := some cpus })
            (runPass (stepCached cpusetDom exp) ((spUpper paths depth).map fun n => { node := n, tgt := some R }) s).1).1,
         (runPass (stepCached cpusetDom exp) ((spUpper paths depth).map fun n => { node := n, tgt := some R }) s).2 ++
         (runPass (stepCached cpusetDom exp) ((spCtrs paths depth).map fun n => { node := n, tgt := some cpus })
            (runPass (stepCached cpusetDom exp) ((spUpper paths depth).map fun n => { node := n, tgt := some R }) s).1).2)) := by
  by_cases h : cpus = 0
  · simp [staticPolicy, recoverIfNeed, applyStatic, spUpper, h]
  · simp [staticPolicy, recoverIfNeed, applyStatic, spUpper, spCtrs, h]

/-- **static_policy_final**: after the static-policy branch (calcBECPUSet succeeded with `R`) the besteffort dir
    and every pod dir hold `R`, every container dir holds the suppressed set (when it is non-empty), and no
    other file changed — for every tree, start state and cache state. -/
theorem static_policy_final (hc : CacheOK s) (hnd : paths.Nodup) :
    ∀ n, (staticPolicy exp paths depth (some R) cpus s).1.files n = spFinal paths depth R cpus s.files n := by
  have hndU : (spUpper paths depth).Nodup := hnd.sublist List.filter_sublist
  have hndC : (spCtrs paths depth).Nodup := hnd.sublist List.filter_sublist
  obtain ⟨c1, f1, _⟩ := c_after exp (spUpper paths depth) R s hc hndU
  intro n
  rw [sp_unfold]
  by_cases h : cpus = 0
  · simp only [h, if_true]
    rw [f1 n]
    simp only [cB, sp_mem_upper, spFinal]
    by_cases hu : n ∈ paths ∧ depth n ≤ 1 <;> simp [hu]
  · simp only [h, if_false]
    obtain ⟨_, f2, _⟩ := c_after exp (spCtrs paths depth) cpus _ c1 hndC
    rw [f2 n]
    simp only [cB, sp_mem_ctrs, spFinal]
    rw [f1 n]
    simp only [cB, sp_mem_upper]
    by_cases hu : n ∈ paths ∧ depth n ≤ 1
    · have hd : depth n ≠ 2 := by omega
      simp [hu, hd]
    · by_cases h2 : n ∈ paths ∧ depth n = 2 <;> simp [hu, h2, h]

/-- **static_policy_every_prefix_valid**: `paths` = the walked BE dirs (a dir before everything below it, `htop`),
    `parent`/`depth` the tree of these dirs (besteffort 0, pods 1, containers 2: `hin`, `hdep`, `hmax`), every BE dir
    currently within the share pool `R` that calcBECPUSet returns (`hcov`), the suppressed set within `R` (`hcpus`),
    the subtree valid at start (`hold`).  Then after every single write of
    recoverCPUSetIfNeed(pod depth) ; applyCPUSetWithStaticPolicy — in this order — every child's CPU set is
    contained in its parent's. -/
theorem static_policy_every_prefix_valid (hc : CacheOK s) (hnd : paths.Nodup)
    (htop : paths.Pairwise (fun a b => parent a ≠ some b))
    (hin : ∀ c p, parent c = some p → c ∈ paths ∧ p ∈ paths)
    (hdep : ∀ c p, parent c = some p → depth c = depth p + 1)
    (hmax : ∀ n ∈ paths, depth n ≤ 2)
    (hcov : ∀ n ∈ paths, subMask (s.files n) R)
    (hcpus : subMask cpus R)
    (hold : Valid parent subMask s.files) :
    ∀ k, Valid parent subMask (applyWrites s.files ((staticPolicy exp paths depth (some R) cpus s).2.take k)) := by
  have hndU : (spUpper paths depth).Nodup := hnd.sublist List.filter_sublist
  have hndC : (spCtrs paths depth).Nodup := hnd.sublist List.filter_sublist
  have htopU : (spUpper paths depth).Pairwise (fun a b => parent a ≠ some b) := htop.sublist List.filter_sublist
  have htopC : (spCtrs paths depth).Pairwise (fun a b => parent a ≠ some b) := htop.sublist List.filter_sublist
  -- the parent of an edge is always a dir written by the recover step
  have hpU : ∀ c p, parent c = some p → p ∈ spUpper paths depth := by
    intro c p h
    obtain ⟨h1, h2⟩ := hin c p h
    have := hdep c p h; have := hmax c h1
    exact (sp_mem_upper paths depth p).mpr ⟨h2, by omega⟩
  have hpC : ∀ c p, parent c = some p → p ∉ spCtrs paths depth := by
    intro c p h hp
    have := (sp_mem_upper paths depth p).mp (hpU c p h)
    have := (sp_mem_ctrs paths depth p).mp hp
    omega
  -- F1 = assignment after the recover step
  have f1cov : ∀ n, n ∈ paths → subMask (cB (spUpper paths depth) R s.files n) R := by
    intro n hn
    by_cases h : n ∈ spUpper paths depth <;> simp only [cB, h, if_true, if_false]
    · exact subMask_refl R
    · exact hcov n hn
  have vF1 : Valid parent subMask (cB (spUpper paths depth) R s.files) := by
    intro c p h
    have : cB (spUpper paths depth) R s.files p = R := by simp [cB, hpU c p h]
    rw [this]; exact f1cov c (hin c p h).1
  have a := c_prefix parent subMask exp (spUpper paths depth) R s hc hndU htopU hold vF1
    (by intro c p h
        have : cB (spUpper paths depth) R s.files p = R := by simp [cB, hpU c p h]
        rw [this]; exact hcov c (hin c p h).1)
  obtain ⟨c1, f1, r1⟩ := c_after exp (spUpper paths depth) R s hc hndU
  intro k
  rw [sp_unfold]
  by_cases h0 : cpus = 0
  · simp only [h0, if_true]; exact a k
  · simp only [h0, if_false]
    have hf1 : (runPass (stepCached cpusetDom exp)
        ((spUpper paths depth).map fun n => ({ node := n, tgt := some R } : Upd Nat)) s).1.files =
        cB (spUpper paths depth) R s.files := funext f1
    have vF2 : Valid parent subMask (cB (spCtrs paths depth) cpus (cB (spUpper paths depth) R s.files)) := by
      intro c p h
      have hp : cB (spCtrs paths depth) cpus (cB (spUpper paths depth) R s.files) p = R := by
        simp [cB, hpU c p h, hpC c p h]
      rw [hp]
      by_cases hcc : c ∈ spCtrs paths depth <;> simp only [cB, hcc, if_true, if_false]
      · exact hcpus
      · exact f1cov c (hin c p h).1
    have b := c_prefix parent subMask exp (spCtrs paths depth) cpus _ c1 hndC htopC
      (by rw [hf1]; exact vF1) (by rw [hf1]; exact vF2)
      (by rw [hf1]; intro c p h
          have : cB (spCtrs paths depth) cpus (cB (spUpper paths depth) R s.files) p =
              cB (spUpper paths depth) R s.files p := by simp [cB, hpC c p h]
          rw [this]; exact vF1 c p h)
    apply prefix_append (Valid parent subMask) s.files _ _ a
    intro k'
    rw [r1]; exact b k'

end StaticPolicy

/-- the ORDER of the two steps matters: containers first, pods afterwards (the swapped order) passes through an
    invalid hierarchy on the tree besteffort(0) ← pod(1) ← container(2), all dirs on 0-3 (left by a none-policy
    round), share pool 0-7, new suppressed set 2-5 — although the end state is the same. -/
def spExParent : Nat → Option Nat
  | 1 => some 0 | 2 => some 1 | _ => none
def spExS : St Nat := { files := fun n => if n ≤ 2 then 15 else 0, cache := fun _ => none, skip := [] }
def spSwapped : St Nat × List (Write Nat) :=
  let r2 := applyStatic false [0, 1, 2] (fun n => n) 60 spExS
  let r1 := recoverIfNeed false [0, 1, 2] (fun n => n) podDepth (some 255) r2.1
  (r1.1, r2.2 ++ r1.2)

theorem static_policy_swapped_order_counterexample :
    ¬ (∀ k, Valid spExParent subMask (applyWrites spExS.files (spSwapped.2.take k))) ∧
    (∀ n, n ≤ 3 → spSwapped.1.files n = (staticPolicy false [0, 1, 2] (fun n => n) (some 255) 60 spExS).1.files n) := by
  refine ⟨fun h => ?_, by decide⟩
  have := h 1 2 1 rfl
  revert this; decide

/-- static-policy non-vacuity: the same tree and values in the order the code uses. -/
example : (staticPolicy false [0, 1, 2] (fun n => n) (some 255) 60 spExS).2 = [(0, 255), (1, 255), (2, 60)] := by decide
example : ∀ k, Valid spExParent subMask (applyWrites spExS.files
    ((staticPolicy false [0, 1, 2] (fun n => n) (some 255) 60 spExS).2.take k)) :=
  static_policy_every_prefix_valid spExParent [0, 1, 2] (fun n => n) 255 60 false spExS
    (by intro n v h; simp [spExS] at h) (by decide) (by simp [spExParent])
    (by intro c p h; unfold spExParent at h; split at h <;> cases h <;> simp)
    (by intro c p h; unfold spExParent at h; split at h <;> cases h <;> rfl)
    (by intro n hn; simp at hn; rcases hn with h | h | h <;> subst h <;> decide)
    (by intro n hn; simp at hn; rcases hn with h | h | h <;> subst h <;> decide)
    (by decide)
    (by intro c p h; unfold spExParent at h; split at h <;> cases h <;> decide)

end KoordVerif.C12
