import KoordVerif.Proofs.C16Ext5
namespace KoordVerif.C16

/-- **global_lock_safe_any_frameworks** -/
theorem global_lock_safe_any_frameworks (caps : Caps) (n : Nat) (req : Nat → Req) (sched : List Nat) :
    let s := lrun elRefuse caps .global n req linit sched
    IssuedWithin caps s.issued ∧ ((∀ j, insidePc (s.pc j) = false) → Good caps s.ctr s.issued) :=
  shared_lock_safe elRefuse caps (elRefuse_ok caps) .global n req (sameLock_global n req) sched

theorem per_framework_lock_safe_one_framework (caps : Caps) (n : Nat) (req : Nat → Req)
    (h1 : ∀ i j, i < n → j < n → (req i).fw = (req j).fw) (sched : List Nat) :
    let s := lrun elRefuse caps .perFramework n req linit sched
    IssuedWithin caps s.issued ∧ ((∀ j, insidePc (s.pc j) = false) → Good caps s.ctr s.issued) :=
  shared_lock_safe elRefuse caps (elRefuse_ok caps) .perFramework n req (fun i j hi hj => h1 i j hi hj) sched

theorem per_framework_lock_two_frameworks_counterexample :
    ¬ (∀ sched, (lrun elRefuse ⟨none, none, some 1⟩ .perFramework 2 twoFrameworks linit sched).issued.length ≤ 1) ∧
    ¬ (∀ sched, issuedBy (·.node) (lrun elRefuse ⟨some 1, none, none⟩ .perFramework 2 twoFrameworks linit sched).issued 1 ≤ 1) ∧
    ¬ (∀ sched, issuedBy (·.ns) (lrun elRefuse ⟨none, some 1, none⟩ .perFramework 2 twoFrameworks linit sched).issued 0 ≤ 1) ∧
    (lrun elRefuse ⟨none, none, some 1⟩ .perFramework 2 twoFrameworks linit [0, 1, 0, 1, 0, 1]).ctr.total = 2 := by
  refine ⟨fun h => absurd (h [0, 1, 0, 1, 0, 1]) (by decide), fun h => absurd (h [0, 1, 0, 1, 0, 1]) (by decide),
    fun h => absurd (h [0, 1, 0, 1, 0, 1]) (by decide), by decide⟩

theorem per_proxy_lock_fresh_proxies_counterexample :
    ¬ (∀ sched, (lrun elRefuse ⟨none, none, some 1⟩ .perProxy 2 twoFreshProxies linit sched).issued.length ≤ 1) :=
  fun h => absurd (h [0, 1, 0, 1, 0, 1]) (by decide)

/-- the same two requests and the same schedule under the package-level lock: the second Lock blocks, one eviction -/
example : (lrun elRefuse ⟨none, none, some 1⟩ .global 2 twoFrameworks linit [0, 1, 0, 1, 0, 1, 1, 1]).issued = [⟨1, 0⟩] := by decide
example : (lrun elRefuse ⟨none, none, some 1⟩ .perFramework 2 twoFreshProxies linit [0, 1, 0, 1, 0, 1, 1, 1]).issued = [⟨1, 0⟩] := by decide

end KoordVerif.C16
