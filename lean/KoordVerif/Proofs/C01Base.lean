import KoordVerif.Model.C01
/-
C01 helper lemmas: association-list state (`get?`/`set`/`erase`), sums over the children of a group,
parent chains.
-/
namespace KoordVerif.C01

theorem get?_name {s : State} {n : Nat} {q : Quota} (h : get? s n = some q) : q.name = n := by
  induction s with
  | nil => simp [get?] at h
  | cons x t ih =>
    simp only [get?] at h
    split at h
    · cases h; assumption
    · exact ih h

theorem get?_mem {s : State} {n : Nat} {q : Quota} (h : get? s n = some q) : q ∈ s := by
  induction s with
  | nil => simp [get?] at h
  | cons x t ih =>
    simp only [get?] at h
    split at h
    · cases h; simp
    · exact List.mem_cons_of_mem _ (ih h)

theorem get?_set {s : State} {q q' : Quota} (h : get? s q'.name = some q) (m : Nat) :
    get? (set s q') m = if m = q'.name then some q' else get? s m := by
  induction s with
  | nil => simp [get?] at h
  | cons x t ih =>
    simp only [get?] at h
    by_cases hx : x.name = q'.name
    · simp only [set, hx, if_true, get?]
      by_cases hm : m = q'.name
      · simp [hm]
      · have : ¬ q'.name = m := fun e => hm e.symm
        simp [hm, this]
    · simp only [hx, if_false] at h
      simp only [set, hx, if_false, get?]
      by_cases hxm : x.name = m
      · have : ¬ m = q'.name := fun e => hx (hxm.trans e)
        simp [hxm, this]
      · simp only [hxm, if_false]
        exact ih h

theorem set_length (s : State) (q : Quota) : (set s q).length = s.length := by
  induction s with
  | nil => rfl
  | cons x t ih =>
    simp only [set]
    split <;> simp [ih]

/-- sum of `v` over the quotas whose parent is `g` -/
def sumKids (v : Quota → Int) (g : Nat) : State → Int
  | [] => 0
  | c :: t => (if c.parent = g then v c else 0) + sumKids v g t

theorem sumKids_set (v : Quota → Int) (g : Nat) {s : State} {q q' : Quota}
    (h : get? s q'.name = some q) (hp : q'.parent = q.parent) :
    sumKids v g (set s q') = sumKids v g s + (if q.parent = g then v q' - v q else 0) := by
  induction s with
  | nil => simp [get?] at h
  | cons x t ih =>
    simp only [get?] at h
    by_cases hx : x.name = q'.name
    · simp only [hx, if_true, Option.some.injEq] at h
      subst h
      simp only [set, hx, if_true, sumKids, hp]
      split <;> omega
    · simp only [hx, if_false] at h
      simp only [set, hx, if_false, sumKids, ih h]
      omega

theorem sumKids_nonneg (v : Quota → Int) (g : Nat) (s : State)
    (h : ∀ c ∈ s, c.parent = g → 0 ≤ v c) : 0 ≤ sumKids v g s := by
  induction s with
  | nil => simp [sumKids]
  | cons x t ih =>
    simp only [sumKids]
    have h1 : 0 ≤ sumKids v g t := ih (fun c hc => h c (List.mem_cons_of_mem _ hc))
    split
    · have := h x (by simp) (by assumption); omega
    · omega

theorem sumKids_congr (v w : Quota → Int) (g : Nat) (s : State)
    (h : ∀ c ∈ s, c.parent = g → v c = w c) : sumKids v g s = sumKids w g s := by
  induction s with
  | nil => rfl
  | cons x t ih =>
    simp only [sumKids]
    rw [ih (fun c hc => h c (List.mem_cons_of_mem _ hc))]
    split
    · rw [h x (by simp) (by assumption)]
    · rfl

/-- parent pointer of a known quota -/
def par (s : State) (m : Nat) : Option Nat := (get? s m).map (·.parent)

theorem par_set {s : State} {q q' : Quota} (h : get? s q'.name = some q) (hp : q'.parent = q.parent) (m : Nat) :
    par (set s q') m = par s m := by
  unfold par
  rw [get?_set h]
  split
  · next hm => subst hm; simp [h, hp]
  · rfl

/-- `p` is a leaf-to-top chain of parent pointers: every element is a known quota whose parent is the next
element; the root quota can only be the last one; the parent of the last element is not a known quota. -/
def Chain (s : State) : List Nat → Prop
  | [] => True
  | [g] => ∃ p, par s g = some p ∧ par s p = none
  | g :: p :: rest => g ≠ rootName ∧ par s g = some p ∧ Chain s (p :: rest)

theorem Chain_congr {s s' : State} (h : ∀ m, par s' m = par s m) : ∀ p, Chain s p → Chain s' p
  | [], _ => trivial
  | [g], hc => by
    obtain ⟨p, h1, h2⟩ := hc
    exact ⟨p, by rw [h, h1], by rw [h, h2]⟩
  | g :: p :: rest, hc => by
    obtain ⟨h0, h1, h2⟩ := hc
    exact ⟨h0, by rw [h, h1], Chain_congr h (p :: rest) h2⟩

theorem Chain_head {s : State} {g : Nat} {rest : List Nat} (hc : Chain s (g :: rest)) :
    ∃ q, get? s g = some q := by
  cases rest with
  | nil =>
    obtain ⟨p, h1, _⟩ := hc
    unfold par at h1
    cases hg : get? s g with
    | none => simp [hg] at h1
    | some q => exact ⟨q, rfl⟩
  | cons p r =>
    obtain ⟨_, h1, _⟩ := hc
    unfold par at h1
    cases hg : get? s g with
    | none => simp [hg] at h1
    | some q => exact ⟨q, rfl⟩

theorem clamp0_of_nonneg {x : Int} (h : 0 ≤ x) : clamp0 x = x := by
  unfold clamp0; split <;> omega

theorem clamp0_nonneg (x : Int) : 0 ≤ clamp0 x := by
  unfold clamp0; split <;> omega

theorem limit_nonneg {mx : Option Int} {r : Int} (hr : 0 ≤ r) (hm : ∀ m, mx = some m → 0 ≤ m) : 0 ≤ limit mx r := by
  unfold limit
  cases mx with
  | none => exact hr
  | some m => have := hm m rfl; simp only; split <;> omega

theorem lendRule_ge (q : Quota) (cr : Int) : cr ≤ lendRule q cr := by
  unfold lendRule; split
  · omega
  · split <;> omega

end KoordVerif.C01
