import KoordVerif.Model.C06Alloc
import KoordVerif.Proofs.C06Ledger
/-
C06 extension — the glue `Allocate → allocateCPUSet` (resource_manager.go) around the picker:
whatever the NUMA allocation, a successful `allocateCPUSet` returns exactly `numCPUsNeeded`
distinct CPUs, all of them available to the pod in the ledger of that moment (after the
required-policy filter), and — when a bind policy is required — a set that
`satisfiedRequiredCPUBindPolicy` accepts.  The picker enters through its contract `TakeOK`
(duplicate-free, inside the set it was given, exact count).
-/
namespace KoordVerif.C06

/-- contract of `takePreferredCPUs` (without restored CPUs) that the glue relies on. -/
def TakeOK (ctx : PickCtx) (full : Bool) (allocated : List CpuI) : Prop :=
  ∀ (avail : List Nat) (need : Int) (S : List Nat),
    takePreferredCPUs ctx full avail [] allocated need = some S →
      S.Nodup ∧ (∀ c ∈ S, c ∈ avail) ∧ (0 ≤ need → (S.length : Int) = need)

theorem filterByPolicy_subset (cfg : NodeCfg) (policy : Nat) (avail : List Nat) :
    ∀ c ∈ filterByPolicy cfg policy avail, c ∈ avail := by
  intro c hc
  unfold filterByPolicy at hc
  simp only at hc
  split at hc
  · simp only [List.mem_map, List.mem_filter] at hc
    obtain ⟨i, ⟨⟨_, hi⟩, _⟩, rfl⟩ := hc
    simpa using hi
  · split at hc
    · simp only [List.mem_map, List.mem_filter] at hc
      obtain ⟨i, ⟨⟨_, hi⟩, _⟩, rfl⟩ := hc
      simpa using hi
    · exact hc

theorem unionNat_nodup {a b : List Nat} (ha : a.Nodup) (hb : b.Nodup) : (unionNat a b).Nodup := by
  unfold unionNat
  rw [List.nodup_append]
  refine ⟨ha, hb.filter _, fun x hx y hy hxy => ?_⟩
  subst hxy
  simp only [List.mem_filter] at hy
  simp [hx] at hy

theorem unionNat_mem {a b : List Nat} {c : Nat} (h : c ∈ unionNat a b) : c ∈ a ∨ c ∈ b := by
  unfold unionNat at h
  rcases List.mem_append.mp h with h | h
  · exact Or.inl h
  · exact Or.inr (List.mem_filter.mp h).1

/-- the loop over the NUMA nodes of the allocation keeps "duplicate-free, inside `avail`". -/
theorem numaLoop_ok (cfg : NodeCfg) (ctx : PickCtx) (full : Bool) (allocated : List CpuI) (avail : List Nat)
    (htake : TakeOK ctx full allocated) : ∀ (nodes : List (Nat × Int)) (init : Option (List Nat)) (res : List Nat),
    (∀ r, init = some r → r.Nodup ∧ ∀ c ∈ r, c ∈ avail) →
    nodes.foldl (numaRound cfg ctx full allocated avail) init = some res →
    res.Nodup ∧ ∀ c ∈ res, c ∈ avail := by
  intro nodes
  induction nodes with
  | nil => intro init res hinit h; exact hinit res h
  | cons nq rest ih =>
    intro init res hinit h
    simp only [List.foldl_cons] at h
    refine ih _ res ?_ h
    intro r hr
    cases init with
    | none => simp [numaRound] at hr
    | some r0 =>
      obtain ⟨h0n, h0m⟩ := hinit r0 rfl
      unfold numaRound at hr
      simp only at hr
      split at hr
      · simp at hr
      · rename_i cpus hc
        cases hr
        obtain ⟨hn, hm, _⟩ := htake _ _ _ hc
        refine ⟨unionNat_nodup h0n hn, fun c hc' => ?_⟩
        rcases unionNat_mem hc' with h1 | h1
        · exact h0m c h1
        · exact (List.mem_filter.mp (hm c h1)).1

theorem takenCPUs_ok (cfg : NodeCfg) (ctx : PickCtx) (full : Bool) (allocated : List CpuI) (avail : List Nat)
    (ncpu : Int) (numaNodes : List (Nat × Int)) (htake : TakeOK ctx full allocated) (hn : 0 ≤ ncpu)
    (res : List Nat) (h : takenCPUs cfg ctx full allocated avail ncpu numaNodes = some res) :
    (res.length : Int) = ncpu ∧ res.Nodup ∧ ∀ c ∈ res, c ∈ avail := by
  unfold takenCPUs at h
  split at h
  · split at h
    · simp at h
    · rename_i r hr
      split at h
      · simp at h
      · rename_i hlen
        cases h
        have := numaLoop_ok cfg ctx full allocated avail htake numaNodes (some []) res
          (by intro r hr; cases hr; exact ⟨List.nodup_nil, by simp⟩) hr
        exact ⟨by omega, this.1, this.2⟩
  · split at h
    · obtain ⟨h1, h2, h3⟩ := htake _ _ _ h
      exact ⟨h3 hn, h1, h2⟩
    · cases h
      exact ⟨by simp; omega, List.nodup_nil, by simp⟩

theorem availFor_subset (cfg : NodeCfg) (L : Ledger) (req : AllocReq) :
    ∀ c ∈ availFor cfg L req, c ∈ cfg.availCPUs L := by
  intro c hc
  unfold availFor at hc
  split at hc
  · exact filterByPolicy_subset cfg _ _ c hc
  · exact hc

/-- **alloc_exact** (per-NUMA path and plain path): a successful `allocateCPUSet` hands out exactly
    `numCPUsNeeded` distinct CPUs, each available to the pod in the current ledger, and a set the
    required policy check accepts. -/
theorem allocateCPUSet_exact (cfg : NodeCfg) (L : Ledger) (req : AllocReq) (numaNodes : List (Nat × Int))
    (htake : TakeOK (cfg.pickCtx req.excl) (req.bind == 1) (allocatedInfos cfg L)) (hn : 0 ≤ req.ncpu)
    (S : List Nat) (h : allocateCPUSet cfg L req numaNodes = some S) :
    (S.length : Int) = req.ncpu ∧ S.Nodup ∧ (∀ c ∈ S, c ∈ cfg.availCPUs L) ∧
    (req.required = true → satisfiedPolicy req.bind cfg.coreOf cfg.cpc S = true) := by
  unfold allocateCPUSet at h
  split at h
  · simp at h
  · split at h
    · simp at h
    · rename_i res htaken
      have hcore := takenCPUs_ok cfg _ _ _ _ _ numaNodes htake hn res htaken
      split at h
      · simp at h
      · rename_i hpol
        cases h
        refine ⟨hcore.1, hcore.2.1, fun c hc => availFor_subset cfg L req c (hcore.2.2 c hc), fun hr => ?_⟩
        cases hsp : satisfiedPolicy req.bind cfg.coreOf cfg.cpc S with
        | true => rfl
        | false => simp [hr, hsp] at hpol

/-- what `Allocate` returns for a cpu-bind pod is drawn from the CPUs available in the ledger it was
    computed on — the premise `Drawn` of `share_limit`. -/
theorem allocate_cpus_drawn (cfg : NodeCfg) (L : Ledger) (req : AllocReq)
    (htake : TakeOK (cfg.pickCtx req.excl) (req.bind == 1) (allocatedInfos cfg L)) (hn : 0 ≤ req.ncpu)
    (p : PodAlloc) (h : allocate cfg L req = some p) :
    p.uid = req.uid ∧ p.cpus.Nodup ∧
    (∀ c ∈ p.cpus, c ∈ availableCPUs cfg.cpuIds L.cpus cfg.maxRef cfg.reserved []) ∧
    (req.cpuBind = true → (p.cpus.length : Int) = req.ncpu ∧
      (req.required = true → satisfiedPolicy req.bind cfg.coreOf cfg.cpc p.cpus = true)) := by
  unfold allocate at h
  simp only at h
  split at h
  · simp at h
  · rename_i cells _
    split at h
    · rename_i hb
      split at h
      · simp at h
      · rename_i cpus hc
        cases h
        have := allocateCPUSet_exact cfg L req _ htake hn cpus hc
        exact ⟨rfl, this.2.1, this.2.2.1, fun _ => ⟨this.1, this.2.2.2⟩⟩
    · rename_i hb
      cases h
      exact ⟨rfl, List.nodup_nil, by simp, fun hcb => absurd hcb hb⟩

end KoordVerif.C06
