import KoordVerif.Model.C08
import KoordVerif.Model.C08Fw
/-
C08 extension 4: the plugin under the scheduler framework (PreFilter status + the framework's Skip rule).
Helper development for Props/C08.lean §8.
-/
namespace KoordVerif.C08

/-- a PreFilter decision procedure `pf` may answer Skip only where Filter would let the pod pass on EVERY node,
whatever that node's annotation, allocatable and cache entry are -/
def SafeSkip (pf : FilterQ → PreStatus) : Prop :=
  ∀ (cfg : Cfg) (c : Cache) (q : FilterQ), q.hasNode = true → pf q = .skip → filter cfg c q = 0

/-- PreFilter does not see a node -/
def NodeBlind (pf : FilterQ → PreStatus) : Prop := ∀ q n : FilterQ, pf (q.withNodePart n) = pf q

/-- the framework's verdict is the plugin's own Filter verdict on every node -/
def FwFaithful (pf : FilterQ → PreStatus) : Prop :=
  ∀ (cfg : Cfg) (c : Cache) (q : FilterQ), q.hasNode = true → fwVerdict (pf q) cfg c q = filter cfg c q

theorem fwFaithful_of_safe (pf : FilterQ → PreStatus) (hr : ∀ q, pf q ≠ .reject) (hs : SafeSkip pf) : FwFaithful pf := by
  intro cfg c q hn
  unfold fwVerdict
  cases h : pf q with
  | success => rfl
  | skip => exact (hs cfg c q hn h).symm
  | reject => exact absurd h (hr q)

theorem safe_of_fwFaithful (pf : FilterQ → PreStatus) (hf : FwFaithful pf) : SafeSkip pf := by
  intro cfg c q hn hs
  have := hf cfg c q hn
  rw [hs] at this
  simpa [fwVerdict] using this.symm

/-- the changed PreFilter of the fourth-round seed: Skip for DaemonSet pods and when the PLUGIN-level profile has no
non-zero threshold -/
def preFilterDisabledSkips (d : Nat) (q : FilterQ) : PreStatus :=
  if q.daemon || profileDisabled d q.args then .skip else .success

/-- Skip for DaemonSet pods only -/
def preFilterDaemonSkips (q : FilterQ) : PreStatus := if q.daemon then .skip else .success

theorem nodeBlind_disabledSkips (d : Nat) : NodeBlind (preFilterDisabledSkips d) := by
  intro q n; rfl

/-! witness: cluster-wide thresholds {cpu: 0} (valid, "off"), the node's annotation says cpu <= 50 %, the node reports
8700 of 10000 milli-cores in use (87 %), the incoming pod estimates to 0 -/

def fwExact : FloatOps :=
  { scale := fun q f => (q * f + 50) / 100, roundPct := fun e a => (200 * e + a) / (2 * a) }

def fwCfg : Cfg :=
  { d := 1, factors := [some 100], allowCustom := false, secSched := -1, secInit := -1, prodIncludeSys := false, fl := fwExact }

def fwReport : Metric :=
  { hasUpd := true, updT := 0, interval := 60, hasInfo := true, nodeUsage := [8700], sysUsage := [0], aggs := [], pods := [] }

def fwPod : PodDesc :=
  { uid := 9, key := 9, cls := 4, prioVariant := 0, term := false, rsv := false, specNode := 0,
    sched := none, init := none, customFactors := [], customSched := -1, customInit := -1, res := [(0, 0)] }

def fwQ : FilterQ :=
  { node := 1, hasNode := true, daemon := false, args := ⟨[some 0], [], none⟩, customKind := 1, custom := ⟨[some 50], [], none⟩,
    filterExpired := 0, hasExp := false, expSec := 0, enableWhenExpired := -1, alloc := [10000], rawKind := 0, raw := [],
    pod := fwPod }

def fwCache : Cache := run fwCfg [Ev.metric 1 fwReport]

end KoordVerif.C08
