import KoordVerif.Proofs.C01Create
/-
C01: preconditions of the operations and the induction over histories.
-/
namespace KoordVerif.C01

/-- Decidable-in-spirit precondition of one operation in state `s` (topology admissible as C15 guarantees,
dimension declared, amounts non-negative, pod events informer-consistent).
NOT covered (False): re-parent, lend/isParent flag change (reset path), ResetQuota. -/
def Pre (s : State) : Op → Prop
  | .quota sp =>
    0 ≤ sp.max ∧ sp.name ≠ rootName ∧
    (match get? s sp.name with
     | none => (∀ c ∈ s, c.parent ≠ sp.name) ∧ Topo (emptyQuota sp.name sp.parent sp.isParent sp.lend :: s)
     | some q => q.lend = sp.lend ∧ q.isParent = sp.isParent ∧ q.parent = sp.parent)
  | .delQuota n => ∀ q, get? s n = some q → Topo (erase s n) ∧ (get? (erase s n) q.parent).isSome = true
  | .reset => False
  | .podAdd n p => PodPre s n p
  | .podUpdate a b np op => UpdPre s a b np op
  | .podDelete n p => PodPre s n p
  | .reserve n p => PodPre s n p
  | .unreserve n p => PodPre s n p
  | .migrate p a b => MigPre s p a b

theorem step_good {s : State} {op : Op} (h : Good s) (hpre : Pre s op) : Good (step s op) := by
  cases op with
  | quota sp =>
    obtain ⟨hmax, hroot, hrest⟩ := hpre
    simp only [step]
    cases hq : get? s sp.name with
    | none =>
      rw [hq] at hrest
      have : updateQuota s sp = createQuota s sp := by simp [updateQuota, hq]
      rw [this]
      exact createQuota_good h hmax hroot hq hrest.1 hrest.2
    | some q =>
      rw [hq] at hrest
      exact updateQuota_same_good h hq hrest hmax hroot
  | delQuota n =>
    simp only [step]
    cases hq : get? s n with
    | none => simpa [deleteQuota, hq] using h
    | some q =>
      obtain ⟨ht, hp⟩ := hpre q hq
      exact deleteQuota_good h hq ht hp
  | reset => exact absurd hpre (by simp [Pre])
  | podAdd n p => exact onPodAdd_good h hpre
  | podUpdate a b np op => exact onPodUpdate_good h hpre
  | podDelete n p => exact onPodDelete_good h hpre
  | reserve n p => exact reservePod_good h hpre.nonneg hpre.quota
  | unreserve n p => exact unreservePod_good h hpre.nonneg hpre.quota
  | migrate p a b => exact migratePod_good h hpre

/-- every operation of the history meets its precondition in the state it is applied to -/
def PreAll : State → List Op → Prop
  | _, [] => True
  | s, op :: t => Pre s op ∧ PreAll (step s op) t

theorem run_good : ∀ (ops : List Op) (s : State), Good s → PreAll s ops → Good (run s ops)
  | [], _, h, _ => h
  | op :: t, s, h, hp => by
    simp only [run, List.foldl_cons]
    exact run_good t (step s op) (step_good h hp.1) hp.2

end KoordVerif.C01
