import KoordVerif.Proofs.C04Base
/-
C04 — small-step model of the goroutines that share one Gang, at critical-section granularity.

gang.go: every method of Gang that touches the four child sets takes `gang.lock` once
(`gang.lock.Lock(); defer gang.lock.Unlock()` — a regenerated fact, Ties/C04.lean), so one method
call = one atomic section.  The entry points that reach them run on different goroutines:
  informer goroutine    onPodAdd / onPodUpdate -> setChild [; addBoundPod when the pod has a node name]
                        onPodDelete            -> deletePod
  scheduling goroutine  Permit                 -> addAssumedPod   (the loop over the group only reads)
                        Unreserve              -> delAssumedPod   (also run by binding goroutines)
  binding goroutines    PostBind               -> addBoundPod
`k` is the number of critical sections `setChild` consists of in the source (extracted): 1 on the
unchanged tree.  For k = 2 the model is the split shape "decide not-waiting / not-bound under the
lock, unlock, re-lock, insert into PendingChildren" with the decision kept in a goroutine-local
variable.
-/
namespace KoordVerif.C04

/-- one critical section of `gang.lock` -/
inductive Sec where
  | setChild (p : Pod) (hasNode : Bool)        -- the whole of setChild (one Lock / defer Unlock)
  | setChildDecide (p : Pod) (hasNode : Bool)  -- split shape, 1st section: Children[p] = pod; isPending := guard
  | setChildInsert (p : Pod)                   -- split shape, 2nd section: if isPending { PendingChildren[p] = pod }
  | addAssumed (p : Pod)
  | delAssumed (p : Pod)
  | addBound (p : Pod)
  | deletePod (p : Pod)
deriving DecidableEq, Repr

/-- a goroutine: the critical sections it still has to run and its local variable `isPending` -/
structure Thread where
  todo : List Sec
  isPending : Bool
deriving DecidableEq, Repr

/-- run one critical section on the gang's sets; second component = the goroutine's `isPending` afterwards -/
def Sec.exec (g : PodSets) (l : Bool) : Sec → PodSets × Bool
  | .setChild p n => (g.setChild p n, l)
  | .setChildDecide p n =>
    let g1 := { g with children := sIns p g.children }
    (g1, decide (n = false ∧ p ∉ g1.waiting ∧ p ∉ g1.bound))
  | .setChildInsert p => (if l then { g with pending := sIns p g.pending } else g, false)
  | .addAssumed p => (g.addAssumed p, l)
  | .delAssumed p => (g.delAssumed p, l)
  | .addBound p => (g.addBound p, l)
  | .deletePod p => (g.deletePod p, l)

/-- the entry points, as far as one gang's child sets are concerned -/
inductive Call where
  | podEvt (p : Pod) (hasNode : Bool)   -- onPodAdd / onPodUpdate (non-terminated pod)
  | podDel (p : Pod)                    -- onPodDelete
  | permit (p : Pod)
  | unreserve (p : Pod)
  | postBind (p : Pod)
deriving DecidableEq, Repr

/-- setChild as `k` critical sections (k = 1: the unchanged tree; otherwise the split shape) -/
def setChildSecs (k : Nat) (p : Pod) (n : Bool) : List Sec :=
  if k = 1 then [.setChild p n] else [.setChildDecide p n, .setChildInsert p]

def Call.secs (k : Nat) : Call → List Sec
  | .podEvt p n => setChildSecs k p n ++ (if n then [.addBound p] else [])
  | .podDel p => [.deletePod p]
  | .permit p => [.addAssumed p]
  | .unreserve p => [.delAssumed p]
  | .postBind p => [.addBound p]

/-- the critical sections a goroutine runs for a sequence of calls, in order -/
def compile (k : Nat) (cs : List Call) : List Sec := cs.flatMap (Call.secs k)

/-- the gang's sets and all goroutines -/
structure Conf where
  g : PodSets
  ts : List Thread
deriving DecidableEq, Repr

/-- goroutine `i` runs its next critical section (nothing happens if it has none) -/
def Conf.step (c : Conf) (i : Nat) : Conf :=
  match c.ts[i]? with
  | some ⟨s :: rest, l⟩ => { g := (s.exec c.g l).1, ts := c.ts.set i ⟨rest, (s.exec c.g l).2⟩ }
  | _ => c

/-- a schedule = the order in which the Go scheduler lets the goroutines take the lock -/
def Conf.run (c : Conf) : List Nat → Conf
  | [] => c
  | i :: is => (c.step i).run is

/-- framework contract at the instant of the step: addAssumedPod (Permit) never runs for a pod that
    is in the bound set -/
def Conf.okStep (c : Conf) (i : Nat) : Bool :=
  match c.ts[i]? with
  | some ⟨.addAssumed p :: _, _⟩ => !(decide (p ∈ c.g.bound))
  | _ => true

def Conf.contract (c : Conf) : List Nat → Bool
  | [] => true
  | i :: is => c.okStep i && (c.step i).contract is

/-- the goroutines at the start: each has a list of calls to make -/
def start (k : Nat) (g : PodSets) (progs : List (List Call)) : Conf :=
  { g := g, ts := progs.map (fun cs => { todo := compile k cs, isPending := false }) }

/-- all goroutines have returned from all their calls (the barrier of the harness) -/
def Conf.quiescent (c : Conf) : Prop := ∀ t ∈ c.ts, t.todo = []

/-- exactly-one, the part that must hold at EVERY instant: no member is in two of the three sets -/
def PodSets.Disj (g : PodSets) : Prop := g.D1 ∧ g.D2 ∧ g.D3

theorem part_disj {g : PodSets} (h : g.Part) : g.Disj := ⟨h.1, h.2.1, h.2.2.1⟩

/-- a section of the unchanged tree (a whole method under one lock) -/
def Sec.whole : Sec → Prop
  | .setChildDecide _ _ => False
  | .setChildInsert _ => False
  | _ => True

theorem disj_exec_whole (g : PodSets) (l : Bool) (s : Sec) (hs : s.whole) (hg : g.Disj)
    (hc : ∀ p, s = .addAssumed p → p ∉ g.bound) : (s.exec g l).1.Disj := by
  cases s with
  | setChildDecide p n => exact absurd hs (by simp [Sec.whole])
  | setChildInsert p => exact absurd hs (by simp [Sec.whole])
  | addAssumed p =>
    have hb := hc p rfl
    simp only [Sec.exec]
    unfold PodSets.Disj PodSets.D1 PodSets.D2 PodSets.D3 PodSets.addAssumed at *
    grind [mem_sIns, mem_sDel]
  | setChild p n =>
    simp only [Sec.exec]
    unfold PodSets.Disj PodSets.D1 PodSets.D2 PodSets.D3 PodSets.setChild at *
    grind [mem_sIns, mem_sDel]
  | delAssumed p =>
    simp only [Sec.exec]
    unfold PodSets.Disj PodSets.D1 PodSets.D2 PodSets.D3 PodSets.delAssumed at *
    grind [mem_sIns, mem_sDel]
  | addBound p =>
    simp only [Sec.exec]
    unfold PodSets.Disj PodSets.D1 PodSets.D2 PodSets.D3 PodSets.addBound at *
    grind [mem_sIns, mem_sDel]
  | deletePod p =>
    simp only [Sec.exec]
    unfold PodSets.Disj PodSets.D1 PodSets.D2 PodSets.D3 PodSets.deletePod at *
    grind [mem_sIns, mem_sDel]

/-- every goroutine has only whole-method sections left -/
def Conf.allWhole (c : Conf) : Prop := ∀ t ∈ c.ts, ∀ s ∈ t.todo, s.whole

theorem step_whole_disj (c : Conf) (i : Nat) (hw : c.allWhole) (hg : c.g.Disj) (hc : c.okStep i = true) :
    (c.step i).allWhole ∧ (c.step i).g.Disj := by
  unfold Conf.step
  cases hget : c.ts[i]? with
  | none => exact ⟨hw, hg⟩
  | some t =>
    obtain ⟨todo, l⟩ := t
    cases todo with
    | nil => exact ⟨hw, hg⟩
    | cons s rest =>
      have hmem : (⟨s :: rest, l⟩ : Thread) ∈ c.ts := List.mem_of_getElem? hget
      have hall := hw _ hmem
      simp only
      refine ⟨?_, ?_⟩
      · intro t' ht' s' hs'
        rcases List.mem_or_eq_of_mem_set ht' with h | h
        · exact hw t' h s' hs'
        · subst h
          exact hall s' (List.mem_cons_of_mem _ hs')
      · apply disj_exec_whole c.g l s (hall s List.mem_cons_self) hg
        intro p hp
        subst hp
        unfold Conf.okStep at hc
        rw [hget] at hc
        simpa using hc

theorem run_whole_disj (c : Conf) (sched : List Nat) (hw : c.allWhole) (hg : c.g.Disj)
    (hc : c.contract sched = true) : (c.run sched).g.Disj := by
  induction sched generalizing c with
  | nil => exact hg
  | cons i is ih =>
    simp only [Conf.contract, Bool.and_eq_true] at hc
    obtain ⟨h1, h2⟩ := step_whole_disj c i hw hg hc.1
    exact ih _ h1 h2 hc.2

theorem compile_one_whole (cs : List Call) : ∀ s ∈ compile 1 cs, s.whole := by
  intro s hs
  unfold compile at hs
  rcases List.mem_flatMap.mp hs with ⟨c, _, hc⟩
  cases c with
  | podEvt p n =>
    simp only [Call.secs, setChildSecs, if_true, List.mem_append, List.mem_singleton] at hc
    rcases hc with rfl | hc
    · trivial
    · split at hc
      · simp only [List.mem_singleton] at hc; subst hc; trivial
      · simp at hc
  | podDel p => simp only [Call.secs, List.mem_singleton] at hc; subst hc; trivial
  | permit p => simp only [Call.secs, List.mem_singleton] at hc; subst hc; trivial
  | unreserve p => simp only [Call.secs, List.mem_singleton] at hc; subst hc; trivial
  | postBind p => simp only [Call.secs, List.mem_singleton] at hc; subst hc; trivial

theorem start_one_allWhole (g : PodSets) (progs : List (List Call)) : (start 1 g progs).allWhole := by
  intro t ht s hs
  unfold start at ht
  simp only [List.mem_map] at ht
  obtain ⟨cs, _, rfl⟩ := ht
  exact compile_one_whole cs s hs

/-! ### the split shape: a concrete bad interleaving -/

/-- pod 0 is a pending member -/
def splitG0 : PodSets := { children := [0], pending := [0], waiting := [], bound := [] }

/-- informer goroutine: one pod update without node name;  scheduling goroutine: Permit of the same pod -/
def splitProgs : List (List Call) := [[.podEvt 0 false], [.permit 0]]

/-- informer decides "pending", scheduler moves the pod pending -> waiting, informer inserts into pending -/
def splitSched : List Nat := [0, 1, 0]

/-- the same race against PostBind: pod 0 is waiting-for-bind ... no: it is released and being bound -/
def splitProgsBind : List (List Call) := [[.podEvt 0 false], [.postBind 0]]

/-! ### coverage: every member is in some set at every barrier -/

/-- shape of a goroutine's remaining sections on the unchanged tree: `setChild` of a pod that carries a
    node name is immediately followed by `addBoundPod` of the same pod (onPodAddInternal) -/
def WFtodo : List Sec → Prop
  | [] => True
  | s :: rest => (∀ q, s = .setChild q true → ∃ r, rest = .addBound q :: r) ∧ WFtodo rest

theorem wf_append_secs (c : Call) (rest : List Sec) (h : WFtodo rest) : WFtodo (c.secs 1 ++ rest) := by
  cases c with
  | podEvt p n =>
    cases n with
    | false =>
      simp only [Call.secs, setChildSecs, if_true, Bool.false_eq_true, if_false, List.append_nil, List.singleton_append]
      exact ⟨fun q e => (by cases e), h⟩
    | true =>
      simp only [Call.secs, setChildSecs, if_true, List.cons_append, List.nil_append]
      refine ⟨fun q e => ?_, fun q e => (by cases e), h⟩
      cases e
      exact ⟨rest, rfl⟩
  | podDel p => exact ⟨fun q e => (by cases e), h⟩
  | permit p => exact ⟨fun q e => (by cases e), h⟩
  | unreserve p => exact ⟨fun q e => (by cases e), h⟩
  | postBind p => exact ⟨fun q e => (by cases e), h⟩

theorem compile_one_wf (cs : List Call) : WFtodo (compile 1 cs) := by
  induction cs with
  | nil => trivial
  | cons c t ih =>
    unfold compile at ih ⊢
    rw [List.flatMap_cons]
    exact wf_append_secs c _ ih

/-- some goroutine is about to run addBoundPod for q -/
def Conf.owed (c : Conf) (q : Pod) : Prop := ∃ t ∈ c.ts, ∃ r, t.todo = .addBound q :: r

/-- every member is in one of the three sets — or an informer goroutine is between `setChild` and
    `addBoundPod` for it -/
def Conf.CovX (c : Conf) : Prop :=
  ∀ q ∈ c.g.children, q ∈ c.g.pending ∨ q ∈ c.g.waiting ∨ q ∈ c.g.bound ∨ c.owed q

def Conf.allWF (c : Conf) : Prop := ∀ t ∈ c.ts, WFtodo t.todo

theorem mem_set_of_ne {ts : List Thread} {i : Nat} {t t' told : Thread} (hget : ts[i]? = some told)
    (ht : t ∈ ts) (hne : t ≠ told) : t ∈ ts.set i t' := by
  obtain ⟨j, hj, rfl⟩ := List.mem_iff_getElem.mp ht
  have hji : i ≠ j := by
    intro e
    subst e
    rw [List.getElem?_eq_getElem hj] at hget
    exact hne (Option.some.inj hget)
  apply List.mem_iff_getElem.mpr
  refine ⟨j, by simpa using hj, ?_⟩
  rw [List.getElem_set_ne hji]

theorem step_covX (c : Conf) (i : Nat) (hw : c.allWhole) (hf : c.allWF) (hc : c.CovX) :
    (c.step i).allWF ∧ (c.step i).CovX := by
  unfold Conf.step
  cases hget : c.ts[i]? with
  | none => exact ⟨hf, hc⟩
  | some t =>
    obtain ⟨todo, l⟩ := t
    cases todo with
    | nil => exact ⟨hf, hc⟩
    | cons s rest =>
      have hmem : (⟨s :: rest, l⟩ : Thread) ∈ c.ts := List.mem_of_getElem? hget
      have hwf := hf _ hmem
      have hwhole := hw _ hmem s List.mem_cons_self
      have hi : i < c.ts.length := by
        rcases List.getElem?_eq_some_iff.mp hget with ⟨h, _⟩
        exact h
      simp only
      have hnew : (⟨rest, (s.exec c.g l).2⟩ : Thread) ∈ c.ts.set i ⟨rest, (s.exec c.g l).2⟩ :=
        List.mem_iff_getElem.mpr ⟨i, by simpa using hi, by simp⟩
      refine ⟨?_, ?_⟩
      · intro t' ht'
        rcases List.mem_or_eq_of_mem_set ht' with h | h
        · exact hf t' h
        · subst h
          exact hwf.2
      · -- an owed pod stays owed unless the stepping goroutine just ran its addBoundPod
        have keep : ∀ q, c.owed q → s ≠ .addBound q →
            (⟨(s.exec c.g l).1, c.ts.set i ⟨rest, (s.exec c.g l).2⟩⟩ : Conf).owed q := by
          intro q ⟨t, ht, r, hr⟩ hs
          refine ⟨t, mem_set_of_ne hget ht ?_, r, hr⟩
          intro e
          subst e
          simp only at hr
          cases hr
          exact hs rfl
        intro q hq
        simp only at hq
        cases s with
        | setChildDecide p n => exact absurd hwhole (by simp [Sec.whole])
        | setChildInsert p => exact absurd hwhole (by simp [Sec.whole])
        | setChild p n =>
          simp only [Sec.exec] at hq keep ⊢
          by_cases hqp : q = p
          · subst hqp
            cases n with
            | true =>
              obtain ⟨r, hr⟩ := hwf.1 q rfl
              exact Or.inr (Or.inr (Or.inr ⟨_, hnew, r, hr⟩))
            | false =>
              unfold PodSets.setChild
              simp only
              by_cases hg : q ∉ c.g.waiting ∧ q ∉ c.g.bound
              · simp [hg, mem_sIns]
              · have : q ∈ c.g.waiting ∨ q ∈ c.g.bound := by
                  by_cases h1 : q ∈ c.g.waiting
                  · exact Or.inl h1
                  · by_cases h2 : q ∈ c.g.bound
                    · exact Or.inr h2
                    · exact absurd ⟨h1, h2⟩ hg
                split
                · rcases this with h | h
                  · exact Or.inr (Or.inl h)
                  · exact Or.inr (Or.inr (Or.inl h))
                · rcases this with h | h
                  · exact Or.inr (Or.inl h)
                  · exact Or.inr (Or.inr (Or.inl h))
          · have hq' : q ∈ c.g.children := by
              unfold PodSets.setChild at hq
              simp only at hq
              split at hq
              · exact (mem_sIns.mp hq).resolve_left hqp
              · exact (mem_sIns.mp hq).resolve_left hqp
            rcases hc q hq' with h | h | h | h
            · left
              unfold PodSets.setChild
              simp only
              split
              · exact mem_sIns.mpr (Or.inr h)
              · exact h
            · right; left
              rw [show (c.g.setChild p n).waiting = c.g.waiting by
                unfold PodSets.setChild; simp only; split <;> rfl]
              exact h
            · right; right; left
              rw [show (c.g.setChild p n).bound = c.g.bound by
                unfold PodSets.setChild; simp only; split <;> rfl]
              exact h
            · exact Or.inr (Or.inr (Or.inr (keep q h (by intro e; cases e))))
        | addAssumed p =>
          simp only [Sec.exec] at hq keep ⊢
          have hq' : q ∈ c.g.children := hq
          rcases hc q hq' with h | h | h | h
          · by_cases hqp : q = p
            · right; left; subst hqp; exact mem_sIns.mpr (Or.inl rfl)
            · left; exact mem_sDel.mpr ⟨h, hqp⟩
          · right; left; exact mem_sIns.mpr (Or.inr h)
          · right; right; left; exact h
          · exact Or.inr (Or.inr (Or.inr (keep q h (by intro e; cases e))))
        | delAssumed p =>
          simp only [Sec.exec] at hq keep ⊢
          have hq' : q ∈ c.g.children := by
            unfold PodSets.delAssumed at hq
            split at hq <;> exact hq
          rcases hc q hq' with h | h | h | h
          · left
            unfold PodSets.delAssumed
            split
            · simp only
              split
              · exact mem_sIns.mpr (Or.inr h)
              · exact h
            · exact h
          · unfold PodSets.delAssumed
            split
            next hp =>
              simp only
              by_cases hqp : q = p
              · left
                subst hqp
                rw [if_pos hq']
                exact mem_sIns.mpr (Or.inl rfl)
              · right; left; exact mem_sDel.mpr ⟨h, hqp⟩
            · right; left; exact h
          · right; right; left
            unfold PodSets.delAssumed
            split <;> exact h
          · exact Or.inr (Or.inr (Or.inr (keep q h (by intro e; cases e))))
        | addBound p =>
          simp only [Sec.exec] at hq keep ⊢
          have hq' : q ∈ c.g.children := hq
          by_cases hqp : q = p
          · right; right; left; subst hqp; exact mem_sIns.mpr (Or.inl rfl)
          · rcases hc q hq' with h | h | h | h
            · left; exact mem_sDel.mpr ⟨h, hqp⟩
            · right; left; exact mem_sDel.mpr ⟨h, hqp⟩
            · right; right; left; exact mem_sIns.mpr (Or.inr h)
            · exact Or.inr (Or.inr (Or.inr (keep q h (by intro e; cases e; exact hqp rfl))))
        | deletePod p =>
          simp only [Sec.exec] at hq keep ⊢
          have hq2 := mem_sDel.mp hq
          rcases hc q hq2.1 with h | h | h | h
          · left; exact mem_sDel.mpr ⟨h, hq2.2⟩
          · right; left; exact mem_sDel.mpr ⟨h, hq2.2⟩
          · right; right; left; exact mem_sDel.mpr ⟨h, hq2.2⟩
          · exact Or.inr (Or.inr (Or.inr (keep q h (by intro e; cases e))))

theorem run_covX (c : Conf) (sched : List Nat) (hw : c.allWhole) (hf : c.allWF) (hc : c.CovX)
    (hk : c.contract sched = true) (hd : c.g.Disj) : (c.run sched).CovX := by
  induction sched generalizing c with
  | nil => exact hc
  | cons i is ih =>
    simp only [Conf.contract, Bool.and_eq_true] at hk
    obtain ⟨h1, h2⟩ := step_whole_disj c i hw hd hk.1
    obtain ⟨h3, h4⟩ := step_covX c i hw hf hc
    exact ih _ h1 h3 h4 hk.2 h2

theorem start_one_allWF (g : PodSets) (progs : List (List Call)) : (start 1 g progs).allWF := by
  intro t ht
  unfold start at ht
  simp only [List.mem_map] at ht
  obtain ⟨cs, _, rfl⟩ := ht
  exact compile_one_wf cs

theorem covX_quiescent (c : Conf) (hq : c.quiescent) (hc : c.CovX) : c.g.Cov := by
  intro q hqc
  rcases hc q hqc with h | h | h | ⟨t, ht, r, hr⟩
  · exact Or.inl h
  · exact Or.inr (Or.inl h)
  · exact Or.inr (Or.inr h)
  · rw [hq t ht] at hr
    cases hr

end KoordVerif.C04
