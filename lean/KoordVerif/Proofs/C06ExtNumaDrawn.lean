import KoordVerif.Model.C06Alloc
import KoordVerif.Proofs.C06Numa
import KoordVerif.Proofs.C06Ledger
import KoordVerif.Proofs.C06ExtAmp
/-
C06 extension (round 2) — what `Allocate` records per NUMA cell is drawn from "capacity − recorded":
the premise `NumaDrawn` of `numa_within_capacity` holds for every allocation returned by the modelled
`Allocate` (allocateResourcesByHint → trimNUMANodeResources → tryBestToDistributeEvenly over all requested
resources), so it need not be assumed for histories whose pods enter through Allocate + Update.
-/
namespace KoordVerif.C06

theorem trimCpu_le (cfg : NodeCfg) (L : Ledger) (req : AllocReq) (nd : Nat) (v : Int) :
    trimCpu cfg L req nd v ≤ v := by
  unfold trimCpu
  split
  · exact Int.le_refl _
  · split
    · exact Int.le_refl _
    · simp only []
      split <;> omega

theorem find_getI (caps : List (Nat × Int)) (k : Nat) :
    (match caps.find? (·.1 == k) with | none => (0 : Int) | some e => e.2) = getI caps k := by
  induction caps with
  | nil => rfl
  | cons e es ih =>
    obtain ⟨a, v⟩ := e
    simp only [List.find?_cons, getI]
    by_cases h : a = k
    · subst h; simp
    · have hb : (a == k) = false := by simpa using h
      simp only [hb, h, ↓reduceIte]; exact ih

/-- `totalAvailable[node][resource]` as the split reads it never exceeds capacity minus what is recorded. -/
theorem freeFor_le (cfg : NodeCfg) (L : Ledger) (req : AllocReq) (d nd : Nat) (hden : 0 < cfg.den) :
    freeFor cfg L req d nd ≤ max (getI cfg.capacity (nd * 16 + d) - getI L.res (nd * 16 + d)) 0 := by
  have hg := find_getI cfg.capacity (nd * 16 + d)
  unfold freeFor
  simp only []
  split
  · omega
  · rename_i e he
    rw [he] at hg
    simp only [] at hg
    have hav := available_le cfg.num cfg.den cfg.nodeOf e.2 L (nd * 16 + d) hden
    split
    · have := trimCpu_le cfg L req nd (availableCellAmp cfg.num cfg.den cfg.nodeOf e.2 L (nd * 16 + d))
      omega
    · omega

theorem cellOf_absent : ∀ (cs : List (Nat × Int)) (k : Nat), k ∉ cs.map (·.1) → cellOf cs k = 0
  | [], _, _ => rfl
  | e :: es, k, h => by
    simp only [List.map_cons, List.mem_cons, not_or] at h
    simp only [cellOf]
    rw [cellOf_absent es k h.2]
    have : ¬ e.1 = k := fun h' => h.1 h'.symm
    simp [this]

/-- distinct keys: a cell's sum is its single entry. -/
theorem cellOf_le_of_nodup (B : Nat → Int) : ∀ (cs : List (Nat × Int)), (cs.map (·.1)).Nodup →
    (∀ e ∈ cs, e.2 ≤ B e.1) → ∀ k, cellOf cs k ≤ max (B k) 0
  | [], _, _, k => by simp [cellOf]; omega
  | e :: es, hnd, hb, k => by
    simp only [List.map_cons, List.nodup_cons] at hnd
    simp only [cellOf]
    by_cases h : e.1 = k
    · subst h
      rw [cellOf_absent es e.1 hnd.1]
      have := hb e (by simp)
      simp; omega
    · have := cellOf_le_of_nodup B es hnd.2 (fun e' he' => hb e' (by simp [he'])) k
      simp [h]; exact this

theorem numaSplit_allocs (mode : SplitMode) (declared : Bool) (free : Nat → Int) (hint : List Nat) (q : Int)
    (hnd : hint.Nodup) :
    ((numaSplit mode declared free hint q).allocs.map (·.1)).Nodup ∧
    ∀ e ∈ (numaSplit mode declared free hint q).allocs, e.2 ≤ free e.1 := by
  unfold numaSplit
  split
  · refine ⟨?_, fun e he => (distribute_mem mode free _ q e he).1⟩
    exact (distribute_ids_sublist mode free _ q).nodup ((sortByKey_perm free hint).nodup_iff.mpr hnd)
  · simp

/-- the bound of a cell = what the split could read for it. -/
def cellBound (cfg : NodeCfg) (L : Ledger) (req : AllocReq) (k : Nat) : Int := freeFor cfg L req (k % 16) (k / 16)

/-- invariant of the loop over the requested resources. -/
structure CellsOK (cfg : NodeCfg) (L : Ledger) (req : AllocReq) (done : List Nat) (cs : List (Nat × Int)) : Prop where
  nodup : (cs.map (·.1)).Nodup
  bound : ∀ e ∈ cs, e.2 ≤ cellBound cfg L req e.1
  dims  : ∀ e ∈ cs, e.1 % 16 ∈ done

theorem splitAll_fold (cfg : NodeCfg) (L : Ledger) (req : AllocReq) (hint : List Nat) (hnd : hint.Nodup) :
    ∀ (rs : List (Nat × Int)) (done : List Nat) (acc : Option (List (Nat × Int))) (out : List (Nat × Int)),
      (rs.map (·.1)).Nodup → (∀ r ∈ rs, r.1 < 16 ∧ r.1 ∉ done) →
      (∀ cs, acc = some cs → CellsOK cfg L req done cs) →
      rs.foldl (fun acc r =>
        match acc with
        | none => none
        | some cells =>
          let declared := declaredDim cfg L r.1
          let o := numaSplit (modeFor cfg req r.1) declared (freeFor cfg L req r.1) hint r.2
          if o.failed then none else some (cells ++ o.allocs.map (fun a => (a.1 * 16 + r.1, a.2)))) acc = some out →
      CellsOK cfg L req (done ++ rs.map (·.1)) out := by
  intro rs
  induction rs with
  | nil =>
    intro done acc out _ _ hacc h
    simp only [List.foldl_nil] at h
    simpa using hacc out h
  | cons r rs ih =>
    intro done acc out hrs hr hacc h
    simp only [List.foldl_cons] at h
    simp only [List.map_cons, List.nodup_cons] at hrs
    have hr0 := hr r (by simp)
    have := ih (done ++ [r.1]) _ out hrs.2
      (fun r' hr' => ⟨(hr r' (by simp [hr'])).1, fun hm => by
        rcases List.mem_append.mp hm with h1 | h1
        · exact (hr r' (by simp [hr'])).2 h1
        · simp at h1
          exact hrs.1 (List.mem_map.mpr ⟨r', hr', h1⟩)⟩) ?_ h
    · simpa [List.append_assoc] using this
    · intro cs hcs
      cases acc with
      | none => simp at hcs
      | some cells =>
        have hc := hacc cells rfl
        simp only [] at hcs
        split at hcs
        · simp at hcs
        · cases hcs
          have hs := numaSplit_allocs (modeFor cfg req r.1) (declaredDim cfg L r.1) (freeFor cfg L req r.1) hint r.2 hnd
          generalize (numaSplit (modeFor cfg req r.1) (declaredDim cfg L r.1) (freeFor cfg L req r.1) hint r.2).allocs = al at hs
          refine ⟨?_, ?_, ?_⟩
          · rw [List.map_append, List.nodup_append]
            refine ⟨hc.nodup, ?_, ?_⟩
            · rw [List.map_map]
              have : ∀ (l : List (Nat × Int)), (l.map (·.1)).Nodup →
                  (l.map ((fun e : Nat × Int => e.1) ∘ fun a => (a.1 * 16 + r.1, a.2))).Nodup := by
                intro l
                induction l with
                | nil => simp
                | cons x xs ihx =>
                  intro hx
                  simp only [List.map_cons, List.nodup_cons, List.mem_map, Function.comp] at hx ⊢
                  refine ⟨?_, ihx hx.2⟩
                  rintro ⟨y, hy, hxy⟩
                  exact hx.1 ⟨y, hy, by omega⟩
              exact this al hs.1
            · intro x hx y hy hxy
              subst hxy
              obtain ⟨e, he, rfl⟩ := List.mem_map.mp hx
              have h1 := hc.dims e he
              simp only [List.mem_map] at hy
              obtain ⟨e', ⟨a, _, rfl⟩, he'⟩ := hy
              simp only [] at he'
              have : e.1 % 16 = r.1 := by have := hr0.1; omega
              rw [this] at h1
              exact hr0.2 h1
          · intro e he
            rcases List.mem_append.mp he with h1 | h1
            · exact hc.bound e h1
            · obtain ⟨a, ha, rfl⟩ := List.mem_map.mp h1
              have hb := hs.2 a ha
              have hd := hr0.1
              simp only [cellBound]
              have e1 : (a.1 * 16 + r.1) % 16 = r.1 := by omega
              have e2 : (a.1 * 16 + r.1) / 16 = a.1 := by omega
              rw [e1, e2]; exact hb
          · intro e he
            rcases List.mem_append.mp he with h1 | h1
            · exact List.mem_append.mpr (Or.inl (hc.dims e h1))
            · obtain ⟨a, _, rfl⟩ := List.mem_map.mp h1
              have hd := hr0.1
              have e1 : (a.1 * 16 + r.1) % 16 = r.1 := by omega
              simp only [e1]
              simp

/-- **allocate_numa_drawn**: what `Allocate` returns records on every (node, resource) cell at most
    "capacity − recorded" of the ledger it was computed on — the premise `NumaDrawn` of `numa_within_capacity`
    (hint ids from a bit mask: distinct; every resource requested once, with a dim below 16). -/
theorem allocate_numa_le (cfg : NodeCfg) (L : Ledger) (req : AllocReq) (hden : 0 < cfg.den)
    (hhint : ∀ h, req.hint = some h → h.Nodup) (hreqs : (req.reqs.map (·.1)).Nodup) (hdim : ∀ r ∈ req.reqs, r.1 < 16)
    (p : PodAlloc) (h : allocate cfg L req = some p) (k : Nat) :
    cellOf p.numa k ≤ max (getI cfg.capacity k - getI L.res k) 0 := by
  have key : ∀ cells, (match req.hint with
      | none => some []
      | some hint => if cfg.caps.isEmpty then none else splitAll cfg L req hint) = some cells →
      cellOf cells k ≤ max (getI cfg.capacity k - getI L.res k) 0 := by
    intro cells hc
    split at hc
    · cases hc; simp [cellOf]; omega
    · rename_i hint hh
      split at hc
      · cases hc
      · unfold splitAll at hc
        have := splitAll_fold cfg L req hint (hhint hint hh) req.reqs [] (some []) cells hreqs
          (fun r hr => ⟨hdim r hr, by simp⟩)
          (fun cs hcs => by cases hcs; exact ⟨by simp, by simp, by simp⟩) hc
        have h1 := cellOf_le_of_nodup (cellBound cfg L req) cells this.nodup this.bound k
        have h2 := freeFor_le cfg L req (k % 16) (k / 16) hden
        have e : k / 16 * 16 + k % 16 = k := by omega
        rw [e] at h2
        simp only [cellBound] at h1
        omega
  unfold allocate at h
  simp only [] at h
  split at h
  · cases h
  · rename_i cells hcells
    have hk := key cells hcells
    split at h
    · split at h
      · cases h
      · cases h; exact hk
    · cases h; exact hk

end KoordVerif.C06
