import KoordVerif.Model.C19Rsv
/-
C19, reservation part: theorems about the model of ReservationInfo.AddAssignedPod / RemoveAssignedPod /
UpdateReservation (Model/C19Rsv.lean).  They are stated for ONE ReservationInfo: a pod event only
touches the reservation named in the pod's reservation-allocated annotation (cache.go updatePod /
deletePods look the ReservationInfo up by that UID), so the per-reservation statements are the whole
content.  Observation of a ReservationInfo = Allocated at every dimension + the AssignedPods map
(here: the association list up to permutation).  No hypothesis on the amounts is needed: a request
vector is either absent (-1) or taken as is, and `masked` is never negative by construction.
-/
namespace KoordVerif.C19.Rsv

/-- replay of pod add events `(pod uid, requests)` (pod_eventhandler.go OnAdd → cache.updatePod →
AddAssignedPod) into one ReservationInfo that is already present in the cache. -/
def build (ri : Info) (l : List (Nat × Req)) : Info := l.foldl (fun ri e => addAssigned ri e.1 e.2) ri

theorem masked_nonneg (decl q : Req) (d : Nat) : 0 ≤ masked decl q d := by
  unfold masked; split <;> omega

theorem sumMasked_nonneg (decl : Req) (d : Nat) (l : List (Nat × Req)) : 0 ≤ sumMasked decl d l := by
  induction l with
  | nil => simp [sumMasked]
  | cons e t ih => have := masked_nonneg decl e.2 d; simp [sumMasked]; omega

theorem sumMasked_perm {decl : Req} {d : Nat} {l₁ l₂ : List (Nat × Req)} (h : l₁.Perm l₂) :
    sumMasked decl d l₁ = sumMasked decl d l₂ := by
  induction h with
  | nil => rfl
  | cons x _ ih => simp [sumMasked, ih]
  | swap x y l => simp [sumMasked]; omega
  | trans _ _ ih1 ih2 => exact ih1.trans ih2

@[simp] theorem addAssigned_decl (ri : Info) (pid : Nat) (q : Req) : (addAssigned ri pid q).decl = ri.decl := by
  unfold addAssigned; split <;> rfl

@[simp] theorem removeAssigned_decl (ri : Info) (pid : Nat) : (removeAssigned ri pid).decl = ri.decl := by
  unfold removeAssigned; split <;> rfl

@[simp] theorem updateInfo_decl (ri : Info) : (updateInfo ri).decl = ri.decl := rfl

theorem nodup_keys_cons {e : Nat × Req} {t : List (Nat × Req)} (nd : ((e :: t).map Prod.fst).Nodup) :
    e.1 ∉ t.map Prod.fst ∧ (t.map Prod.fst).Nodup := by
  rw [List.map_cons] at nd; exact List.nodup_cons.mp nd

/-- what a replay of add events with distinct, not yet assigned pod uids produces. -/
theorem build_char (l : List (Nat × Req)) : ∀ (ri : Info), (l.map Prod.fst).Nodup →
    (∀ k ∈ l.map Prod.fst, k ∉ keys ri) →
    (build ri l).pods = l.reverse ++ ri.pods ∧ (build ri l).decl = ri.decl ∧
    (∀ d, (build ri l).allocated d = ri.allocated d + sumMasked ri.decl d l) := by
  induction l with
  | nil => intro ri _ _; simp [build, sumMasked]
  | cons e t ih =>
    intro ri nd hk
    have he : e.1 ∉ keys ri := hk e.1 (by simp)
    have nd' : (t.map Prod.fst).Nodup := (nodup_keys_cons nd).2
    have hne : ∀ k ∈ t.map Prod.fst, k ≠ e.1 := by
      intro k hkm heq
      have := (nodup_keys_cons nd).1
      exact this (heq ▸ hkm)
    have hstep : addAssigned ri e.1 e.2 =
        { ri with allocated := fun d => ri.allocated d + masked ri.decl e.2 d, pods := (e.1, e.2) :: ri.pods } := by
      unfold addAssigned; simp [he]
    have hk' : ∀ k ∈ t.map Prod.fst, k ∉ keys (addAssigned ri e.1 e.2) := by
      intro k hkm
      rw [hstep]
      have h1 := hk k (by simp at hkm ⊢; exact Or.inr hkm)
      have h2 := hne k hkm
      simp only [keys, List.map_cons, List.mem_cons, not_or]
      exact ⟨h2, h1⟩
    obtain ⟨hp, hd, ha⟩ := ih (addAssigned ri e.1 e.2) nd' hk'
    have hb : build ri (e :: t) = build (addAssigned ri e.1 e.2) t := rfl
    rw [hb]
    refine ⟨?_, ?_, ?_⟩
    · rw [hp, hstep]; simp
    · rw [hd]; simp
    · intro d
      rw [ha d, hstep]
      simp [sumMasked]; omega

/-- **build_perm** — informer delivery order does not matter: replaying two permutations of the same add
events (distinct pod uids, none assigned yet) into a ReservationInfo gives the same Allocated at every
dimension and the same AssignedPods (as a set of (uid, requirement) entries). -/
theorem build_perm {l₁ l₂ : List (Nat × Req)} (h : l₁.Perm l₂) (nd : (l₁.map Prod.fst).Nodup)
    (ri : Info) (hk : ∀ k ∈ l₁.map Prod.fst, k ∉ keys ri) :
    (∀ d, (build ri l₁).allocated d = (build ri l₂).allocated d) ∧
    (build ri l₁).pods.Perm (build ri l₂).pods := by
  have hm := h.map Prod.fst
  have nd2 : (l₂.map Prod.fst).Nodup := hm.nodup_iff.mp nd
  have hk2 : ∀ k ∈ l₂.map Prod.fst, k ∉ keys ri := fun k hkm => hk k (hm.mem_iff.mpr hkm)
  obtain ⟨p1, _, a1⟩ := build_char l₁ ri nd hk
  obtain ⟨p2, _, a2⟩ := build_char l₂ ri nd2 hk2
  refine ⟨fun d => ?_, ?_⟩
  · rw [a1 d, a2 d, sumMasked_perm h]
  · rw [p1, p2]
    exact List.Perm.append_right _ ((List.reverse_perm l₁).trans (h.trans (List.reverse_perm l₂).symm))

/-- `build_perm` for a fresh scheduler: the ReservationInfo was just created from the Reservation CR. -/
theorem build_perm_fresh {l₁ l₂ : List (Nat × Req)} (h : l₁.Perm l₂) (nd : (l₁.map Prod.fst).Nodup)
    (rid node : Nat) (once : Bool) (decl : Req) :
    (∀ d, (build (newInfo rid node once decl) l₁).allocated d = (build (newInfo rid node once decl) l₂).allocated d) ∧
    (build (newInfo rid node once decl) l₁).pods.Perm (build (newInfo rid node once decl) l₂).pods :=
  build_perm h nd _ (by simp [keys, newInfo])

/-- **dup_add_noop** — a second add event for an already assigned pod uid (even one carrying other
requests) leaves the ReservationInfo exactly as it was (AddAssignedPod's guard). -/
theorem dup_add_noop (ri : Info) (pid : Nat) (q q' : Req) :
    addAssigned (addAssigned ri pid q) pid q' = addAssigned ri pid q := by
  have hin : pid ∈ keys (addAssigned ri pid q) := by
    by_cases h : pid ∈ keys ri
    · simp [addAssigned, h]
    · unfold addAssigned; rw [if_neg h]; simp [keys]
  rw [addAssigned.eq_def (addAssigned ri pid q) pid q']
  simp [hin]

/-- the ledger invariant of one ReservationInfo: pod uids are distinct and Allocated is exactly the sum
of the masked requests of the assigned pods (so the truncated subtraction never truncates). -/
structure WF (ri : Info) : Prop where
  nodup : (keys ri).Nodup
  exact : ∀ d, ri.allocated d = sumMasked ri.decl d ri.pods

theorem wf_new (rid node : Nat) (once : Bool) (decl : Req) : WF (newInfo rid node once decl) :=
  ⟨by simp [keys, newInfo], by intro d; simp [newInfo, sumMasked]⟩

theorem wf_add {ri : Info} (w : WF ri) (pid : Nat) (q : Req) : WF (addAssigned ri pid q) := by
  unfold addAssigned
  split
  · exact w
  · rename_i h
    refine ⟨?_, ?_⟩
    · simp only [keys, List.map_cons]; exact List.nodup_cons.mpr ⟨h, w.nodup⟩
    · intro d; simp [sumMasked, w.exact d]; omega

theorem lookup_mem {l : List (Nat × Req)} {k : Nat} {v : Req} (h : l.lookup k = some v) : (k, v) ∈ l := by
  induction l with
  | nil => simp at h
  | cons e t ih =>
    obtain ⟨a, b⟩ := e
    simp only [List.lookup_cons] at h
    by_cases hk : k = a
    · subst hk; simp at h; simp [h]
    · have : (k == a) = false := by simpa using hk
      simp [this] at h
      exact List.mem_cons_of_mem _ (ih h)

theorem mem_lookup {l : List (Nat × Req)} (nd : (l.map Prod.fst).Nodup) {k : Nat} {v : Req} (h : (k, v) ∈ l) :
    l.lookup k = some v := by
  induction l with
  | nil => simp at h
  | cons e t ih =>
    obtain ⟨a, b⟩ := e
    have nd' := nodup_keys_cons nd
    simp only [List.lookup_cons]
    rcases List.mem_cons.mp h with heq | hin
    · cases heq; simp
    · have hne : k ≠ a := by
        intro heq; subst heq
        exact nd'.1 (List.mem_map.mpr ⟨(k, v), hin, rfl⟩)
      have : (k == a) = false := by simpa using hne
      simp [this]; exact ih nd'.2 hin

theorem filter_ne_self {l : List (Nat × Req)} {k : Nat} (h : k ∉ l.map Prod.fst) :
    l.filter (fun e => decide (e.1 ≠ k)) = l := by
  apply List.filter_eq_self.mpr
  intro e he
  have : e.1 ≠ k := fun heq => h (List.mem_map.mpr ⟨e, he, heq⟩)
  simpa using this

/-- an assoc list with distinct keys is its entry for `k` followed by the rest. -/
theorem perm_cons_filter {l : List (Nat × Req)} (nd : (l.map Prod.fst).Nodup) {k : Nat} {v : Req}
    (h : l.lookup k = some v) : l.Perm ((k, v) :: l.filter (fun e => decide (e.1 ≠ k))) := by
  induction l with
  | nil => simp at h
  | cons e t ih =>
    obtain ⟨a, b⟩ := e
    have nd' := nodup_keys_cons nd
    simp only [List.lookup_cons] at h
    by_cases hk : k = a
    · subst hk
      simp at h; subst h
      have hf : t.filter (fun e => decide (e.1 ≠ k)) = t := filter_ne_self nd'.1
      have : ((k, b) :: t).filter (fun e => decide (e.1 ≠ k)) = t := by
        rw [List.filter_cons_of_neg (by simp)]; exact hf
      exact (congrArg (fun x => ((k, b) :: t).Perm ((k, b) :: x)) this).mpr (List.Perm.refl _)
    · have hb : (k == a) = false := by simpa using hk
      simp [hb] at h
      have hak : a ≠ k := fun x => hk x.symm
      have := ih nd'.2 h
      simp only [List.filter_cons, hak, ne_eq, not_false_eq_true, decide_true, if_true]
      exact (List.Perm.cons _ this).trans (List.Perm.swap _ _ _)

theorem keys_filter_nodup {l : List (Nat × Req)} (nd : (l.map Prod.fst).Nodup) (p : Nat × Req → Bool) :
    ((l.filter p).map Prod.fst).Nodup :=
  List.Nodup.sublist (List.Sublist.map _ List.filter_sublist) nd

theorem amt_neg_of_not_any {q : Req} (h : q.any (fun x => decide (x ≥ 0)) = false) (d : Nat) : amt q d < 0 := by
  unfold amt
  rw [List.getD_eq_getElem?_getD]
  cases hq : q[d]? with
  | none => simp
  | some x =>
    have hx : x ∈ q := List.mem_of_getElem? hq
    have := List.any_eq_false.mp h x hx
    simp at this ⊢; omega

theorem wf_remove {ri : Info} (w : WF ri) (pid : Nat) :
    WF (removeAssigned ri pid) ∧
    (∀ q, ri.pods.lookup pid = some q →
      (removeAssigned ri pid).pods = ri.pods.filter (fun e => decide (e.1 ≠ pid))) ∧
    (ri.pods.lookup pid = none → removeAssigned ri pid = ri) := by
  unfold removeAssigned
  cases hl : ri.pods.lookup pid with
  | none => exact ⟨w, (by intro q h; cases h), fun _ => rfl⟩
  | some q =>
    refine ⟨⟨?_, ?_⟩, (by intro q' _; rfl), (by intro h; cases h)⟩
    · exact keys_filter_nodup w.nodup _
    · intro d
      have hp := perm_cons_filter w.nodup hl
      have hs : sumMasked ri.decl d ri.pods =
          masked ri.decl q d + sumMasked ri.decl d (ri.pods.filter (fun e => decide (e.1 ≠ pid))) := by
        rw [sumMasked_perm hp]; rfl
      have hnn := sumMasked_nonneg ri.decl d (ri.pods.filter (fun e => decide (e.1 ≠ pid)))
      have hex := w.exact d
      by_cases hany : q.any (fun x => decide (x ≥ 0)) = true
      · simp only [hany, ↓reduceIte, subNN]
        split <;> omega
      · have hany' : q.any (fun x => decide (x ≥ 0)) = false := by simpa using hany
        have hneg := amt_neg_of_not_any hany' d
        have hm : masked ri.decl q d = 0 := by unfold masked; split <;> omega
        simp only [hany', Bool.false_eq_true, ↓reduceIte]
        omega

theorem wf_update {ri : Info} (w : WF ri) : WF (updateInfo ri) := by
  refine ⟨w.nodup, ?_⟩
  intro d
  unfold updateInfo
  cases hp : ri.pods with
  | nil =>
    have := w.exact d
    simp [hp, sumMasked] at this ⊢
    simp [this]
  | cons e t => simp

/-- **same_update_noop** — an update event whose old and new pod carry the same assignment
(cache.updatePod: RemoveAssignedPod(old) then AddAssignedPod(new) on the same ReservationInfo) leaves
Allocated at every dimension and the AssignedPods entries unchanged, for a ReservationInfo satisfying
the ledger invariant `WF` and a pod recorded with the requests the event carries. -/
theorem same_update_noop {ri : Info} (w : WF ri) {pid : Nat} {q : Req} (h : ri.pods.lookup pid = some q) :
    (∀ d, (addAssigned (removeAssigned ri pid) pid q).allocated d = ri.allocated d) ∧
    (addAssigned (removeAssigned ri pid) pid q).pods.Perm ri.pods ∧
    WF (addAssigned (removeAssigned ri pid) pid q) := by
  obtain ⟨wr, hpods, _⟩ := wf_remove w pid
  have hpods := hpods q h
  have hnotin : pid ∉ keys (removeAssigned ri pid) := by
    simp only [keys, hpods]
    intro hin
    obtain ⟨e, he, heq⟩ := List.mem_map.mp hin
    have := (List.mem_filter.mp he).2
    simp at this; exact this heq
  have hstep : addAssigned (removeAssigned ri pid) pid q =
      { removeAssigned ri pid with
        allocated := fun d => (removeAssigned ri pid).allocated d + masked (removeAssigned ri pid).decl q d,
        pods := (pid, q) :: (removeAssigned ri pid).pods } := by
    rw [addAssigned.eq_def]; simp [hnotin]
  have wa := wf_add wr pid q
  have hperm : (addAssigned (removeAssigned ri pid) pid q).pods.Perm ri.pods := by
    rw [hstep]; simp only [hpods]
    exact (perm_cons_filter w.nodup h).symm
  refine ⟨fun d => ?_, hperm, wa⟩
  rw [wa.exact d, w.exact d]
  simp only [addAssigned_decl, removeAssigned_decl]
  exact sumMasked_perm hperm

/-! ### live history = rebuild from the surviving objects -/

/-- the live operations on one reservation.  `assign`: plugin.go Reserve (assumePods) + PreBind;
`bound`: the informer's update event for the binding (old pod unannotated); `sameUpdate`: update event
with the same assignment; `delete`: pod deleted or terminated (pod_eventhandler.go deletePod);
`rupd`: Reservation update event (UpdateReservation incl. recalculateAllocatedOfAssignedPods). -/
inductive LiveOp where
  | assign (pid : Nat) (q : Req)
  | bound (pid : Nat)
  | sameUpdate (pid : Nat)
  | delete (pid : Nat)
  | rupd

/-- one step on (live ReservationInfo, API-server store of surviving assignments).  Events for a pod
carry the pod object of the store.  A pod uid is bound at most once while it exists: an `assign` of a
uid that is still in the store is ignored by the store (the live cache ignores it by its guard). -/
def step (s : Info × List (Nat × Req)) : LiveOp → Info × List (Nat × Req)
  | .assign pid q => (addAssigned s.1 pid q, if pid ∈ s.2.map Prod.fst then s.2 else (pid, q) :: s.2)
  | .bound pid => match s.2.lookup pid with
    | some q => (addAssigned s.1 pid q, s.2)
    | none => s
  | .sameUpdate pid => match s.2.lookup pid with
    | some q => (addAssigned (removeAssigned s.1 pid) pid q, s.2)
    | none => s
  | .delete pid => (removeAssigned s.1 pid, s.2.filter (fun e => decide (e.1 ≠ pid)))
  | .rupd => (updateInfo s.1, s.2)

def run (s : Info × List (Nat × Req)) (h : List LiveOp) : Info × List (Nat × Req) := h.foldl step s

/-- invariant of a live history: ledger exact, AssignedPods = the surviving assignments. -/
structure Inv (decl : Req) (s : Info × List (Nat × Req)) : Prop where
  wf : WF s.1
  decl_eq : s.1.decl = decl
  perm : s.1.pods.Perm s.2

theorem inv_step {decl : Req} {s : Info × List (Nat × Req)} (i : Inv decl s) (op : LiveOp) : Inv decl (step s op) := by
  obtain ⟨ri, st⟩ := s
  have hkeys : (keys ri).Perm (st.map Prod.fst) := i.perm.map Prod.fst
  have ndst : (st.map Prod.fst).Nodup := hkeys.nodup_iff.mp i.wf.nodup
  cases op with
  | assign pid q =>
    simp only [step]
    by_cases hin : pid ∈ st.map Prod.fst
    · have hin' : pid ∈ keys ri := hkeys.mem_iff.mpr hin
      have : addAssigned ri pid q = ri := by unfold addAssigned; simp [hin']
      simp only [hin, if_true, this]; exact i
    · have hin' : pid ∉ keys ri := fun x => hin (hkeys.mem_iff.mp x)
      refine ⟨wf_add i.wf pid q, by simpa using i.decl_eq, ?_⟩
      have : (addAssigned ri pid q).pods = (pid, q) :: ri.pods := by unfold addAssigned; simp [hin']
      simp only [hin, if_false, this]
      exact List.Perm.cons _ i.perm
  | bound pid =>
    simp only [step]
    cases hl : st.lookup pid with
    | none => exact i
    | some q =>
      have hin : pid ∈ keys ri := hkeys.mem_iff.mpr (List.mem_map.mpr ⟨(pid, q), lookup_mem hl, rfl⟩)
      have : addAssigned ri pid q = ri := by unfold addAssigned; simp [hin]
      simp only [this]; exact i
  | sameUpdate pid =>
    simp only [step]
    cases hl : st.lookup pid with
    | none => exact i
    | some q =>
      have hri : ri.pods.lookup pid = some q := mem_lookup i.wf.nodup (i.perm.mem_iff.mpr (lookup_mem hl))
      obtain ⟨_, hperm, wa⟩ := same_update_noop i.wf hri
      exact ⟨wa, by simpa using i.decl_eq, hperm.trans i.perm⟩
  | delete pid =>
    simp only [step]
    obtain ⟨wr, hpods, hnone⟩ := wf_remove i.wf pid
    refine ⟨wr, by simpa using i.decl_eq, ?_⟩
    cases hl : ri.pods.lookup pid with
    | none =>
      have hnotin : pid ∉ keys ri := by
        intro hin
        obtain ⟨e, he, heq⟩ := List.mem_map.mp hin
        have := mem_lookup i.wf.nodup (k := pid) (v := e.2) (by rw [← heq]; exact he)
        rw [hl] at this; cases this
      have hnotin' : pid ∉ st.map Prod.fst := fun x => hnotin (hkeys.mem_iff.mpr x)
      rw [hnone hl, filter_ne_self hnotin']
      exact i.perm
    | some q =>
      rw [hpods q hl]
      exact i.perm.filter _
  | rupd =>
    simp only [step]
    exact ⟨wf_update i.wf, by simpa using i.decl_eq, i.perm⟩

theorem inv_run {decl : Req} (h : List LiveOp) : ∀ {s : Info × List (Nat × Req)}, Inv decl s → Inv decl (run s h) := by
  induction h with
  | nil => intro s i; exact i
  | cons op t ih => intro s i; exact ih (inv_step i op)

/-- **live_eq_rebuilt** — for EVERY history of live operations on a reservation starting from the newly
created ReservationInfo, the live state equals what a fresh scheduler rebuilds by replaying add events
for the surviving assignments (in the store's order, hence by `build_perm` in any order): the same
Allocated at every dimension and the same AssignedPods entries.  In particular nothing taken before
the restart is free after it. -/
theorem live_eq_rebuilt (rid node : Nat) (once : Bool) (decl : Req) (h : List LiveOp) :
    (∀ d, (run (newInfo rid node once decl, []) h).1.allocated d =
          (build (newInfo rid node once decl) (run (newInfo rid node once decl, []) h).2).allocated d) ∧
    (run (newInfo rid node once decl, []) h).1.pods.Perm
      (build (newInfo rid node once decl) (run (newInfo rid node once decl, []) h).2).pods := by
  have i0 : Inv decl (newInfo rid node once decl, []) := ⟨wf_new _ _ _ _, rfl, by simp [newInfo]⟩
  have i := inv_run h i0
  generalize run (newInfo rid node once decl, []) h = s at i
  obtain ⟨ri, st⟩ := s
  have hkeys : (keys ri).Perm (st.map Prod.fst) := i.perm.map Prod.fst
  have ndst : (st.map Prod.fst).Nodup := hkeys.nodup_iff.mp i.wf.nodup
  obtain ⟨bp, _, ba⟩ := build_char st (newInfo rid node once decl) ndst (by simp [keys, newInfo])
  refine ⟨fun d => ?_, ?_⟩
  · rw [ba d, i.wf.exact d]
    have hd : ri.decl = decl := i.decl_eq
    simp only [hd, newInfo]
    rw [sumMasked_perm i.perm]; simp
  · rw [bp]
    simp only [newInfo, List.append_nil]
    exact i.perm.trans (List.reverse_perm st).symm

/-- corollary in the words of the property: after any live history, the Allocated a fresh scheduler
rebuilds is the sum of the (masked) requests of the surviving assigned pods — never less. -/
theorem rebuilt_allocated_eq_sum (rid node : Nat) (once : Bool) (decl : Req) (h : List LiveOp) (d : Nat) :
    (run (newInfo rid node once decl, []) h).1.allocated d =
      sumMasked decl d (run (newInfo rid node once decl, []) h).2 := by
  have i0 : Inv decl (newInfo rid node once decl, []) := ⟨wf_new _ _ _ _, rfl, by simp [newInfo]⟩
  have i := inv_run h i0
  rw [i.wf.exact d, i.decl_eq, sumMasked_perm i.perm]

/-- the guard matters: without distinct uids the order of two add events with different requests is
visible (first one wins), so `build_perm` needs its `Nodup` hypothesis. -/
theorem build_perm_needs_nodup :
    (build (newInfo 1 1 false [8, 8, 8]) [(1, [1, 0, 0]), (1, [2, 0, 0])]).allocated 0 ≠
    (build (newInfo 1 1 false [8, 8, 8]) [(1, [2, 0, 0]), (1, [1, 0, 0])]).allocated 0 := by decide

-- hypotheses are satisfiable on a non-trivial input: 3 pods, 2 of them requesting an undeclared dimension
example : ([(1, [500, -1, 2]), (2, [250, 7, -1]), (3, [0, 1, 1])] : List (Nat × Req)).Perm
    [(3, [0, 1, 1]), (1, [500, -1, 2]), (2, [250, 7, -1])] ∧
    (([(1, [500, -1, 2]), (2, [250, 7, -1]), (3, [0, 1, 1])] : List (Nat × Req)).map Prod.fst).Nodup := by
  decide

example : (List.range 3).map (build (newInfo 1 1 false [4000, -1, 8]) [(1, [500, -1, 2]), (2, [250, 7, -1]), (3, [0, 1, 1])]).allocated
    = [750, 0, 3] := by decide

def exHist : List LiveOp :=
  [.assign 1 [500, -1, 2], .assign 2 [250, 7, -1], .bound 1, .sameUpdate 2, .rupd, .delete 1, .assign 3 [0, 1, 1]]

example : (List.range 3).map (run (newInfo 1 1 false [4000, -1, 8], []) exHist).1.allocated = [250, 0, 1] ∧
    (run (newInfo 1 1 false [4000, -1, 8], []) exHist).2.map Prod.fst = [3, 2] := by decide

end KoordVerif.C19.Rsv
