import KoordVerif.Model.C17Opts
import KoordVerif.Model.C17Cache
import KoordVerif.Model.C17Arb
/-
C17 ext3 — helper lemmas for the written-reservation, lagging-informer and arbitrator theorems of Props/C17.lean.
-/
namespace KoordVerif.C17

/-! ### histories -/

theorem run_append (w : World) (a b : List Op) :
    run w (a ++ b) = ((run (run w a).1 b).1, (run w a).2 ++ (run (run w a).1 b).2) := by
  induction a generalizing w with
  | nil => simp [run]
  | cons op rest ih =>
    simp only [List.cons_append, run, ih, List.append_assoc]

/-! ### the assumed-cache under a lagging informer -/

/-- invariant of the shipped policy (assume AFTER doMigrate, with the written object): the cache holds the NEWEST version,
    or nothing — and then the informer has nothing older to serve either -/
def LagInv (cs : CS) : Prop :=
  cs.olds.length ≤ cs.ver ∧ (cs.assumed = some cs.ver ∨ (cs.assumed = none ∧ cs.olds = []))

theorem served_zero_of_nil (cs : CS) (k : Nat) (h : cs.olds = []) : served cs k = (0, cs.w.job) := by
  unfold served
  simp [h]

theorem served_fst_le (cs : CS) (k : Nat) : (served cs k).1 ≤ cs.olds.length := by
  unfold served
  split
  · exact Nat.zero_le _
  · rename_i j hj
    have : min k cs.olds.length ≤ cs.olds.length := Nat.min_le_right _ _
    simp only []
    omega

theorem served_snd_of_zero (cs : CS) (k : Nat) (h : (served cs k).1 = 0) : (served cs k).2 = cs.w.job := by
  unfold served at h ⊢
  split
  · rfl
  · rename_i j hj
    rw [hj] at h
    simp at h

/-- a stale read (anything but the newest version) is declined: nothing is read further, nothing written, no eviction -/
theorem recLag_stale_declined (cs : CS) (k f : Nat) (h : LagInv cs) (hb : (served cs k).1 ≠ 0) :
    recLag .afterWrite cs k f = (cs, ⟨[], []⟩) := by
  obtain ⟨hlen, hass⟩ := h
  have hle := served_fst_le cs k
  rcases hass with ha | ⟨_, hnil⟩
  · unfold recLag
    have hg : guardOK cs.assumed (cs.ver - (served cs k).1) = false := by
      rw [ha]
      simp only [guardOK, Bool.not_eq_false', decide_eq_true_eq]
      omega
    simp [hg]
  · rw [served_zero_of_nil cs k hnil] at hb
    exact absurd rfl hb

theorem freshRun_world (cs : CS) (f : Nat)
    (hc : ¬ (cs.w.job.spec.createdBy ≠ 0 ∧ cs.w.job.spec.createdBy ≠ cs.w.env.ctrl)) :
    (freshRun cs f).1.w = (reconcile cs.w f).1 ∧ (freshRun cs f).2 = (reconcile cs.w f).2 := by
  unfold freshRun reconcile
  simp [hc]

theorem freshRun_inv (cs : CS) (f : Nat) (h : cs.olds.length ≤ cs.ver) :
    (freshRun cs f).1.olds.length ≤ (freshRun cs f).1.ver := by
  unfold freshRun
  simp only []
  split
  · omega
  · rename_i hne
    simp only [List.length_append, List.length_reverse, List.length_map, List.length_dropLast, List.length_cons]
    have : (jobWriteIdxs (doMigrate (M.init cs.w f)).acts 0).length ≠ 0 := by
      intro h0
      exact hne (by simp [List.length_eq_zero_iff.mp h0])
    omega

/-- one step of the shipped policy: the invariant is kept and the step is simulated by zero or one step of the plain
    history model (`run`): a declined / foreign read by nothing, an accepted one by `.recon f` -/
theorem stepC_sim (cs : CS) (op : OpC) (h : LagInv cs) :
    LagInv (stepC .afterWrite cs op).1 ∧
    ∃ pre : List Op, (∀ g, Op.recon g ∈ pre → ∃ k, op = .lagrec k g) ∧
      (run cs.w pre).1 = (stepC .afterWrite cs op).1.w ∧ (run cs.w pre).2 = (stepC .afterWrite cs op).2.evicts := by
  cases op with
  | env op =>
    simp only [stepC]
    split
    · rename_i hok
      refine ⟨h, [op], ?_, ?_, ?_⟩
      · intro g hg
        simp only [List.mem_singleton] at hg
        subst hg
        simp [envOK] at hok
      · simp [run]
      · cases op <;> simp_all [run, step, envOK]
    · exact ⟨h, [], by simp, rfl, rfl⟩
  | restart u =>
    simp only [stepC]
    refine ⟨⟨Nat.zero_le _, Or.inr ⟨rfl, rfl⟩⟩, [.restart u], by simp, ?_, ?_⟩ <;> simp [run, step]
  | lagrec k f =>
    simp only [stepC]
    by_cases hb : (served cs k).1 = 0
    · have hs := served_snd_of_zero cs k hb
      by_cases hc : cs.w.job.spec.createdBy ≠ 0 ∧ cs.w.job.spec.createdBy ≠ cs.w.env.ctrl
      · have : recLag .afterWrite cs k f = (cs, ⟨[], []⟩) := by
          unfold recLag
          simp only [hb, hs]
          split
          · rfl
          · simp
        rw [this]
        exact ⟨h, [], by simp, rfl, rfl⟩
      · have hg : guardOK cs.assumed (cs.ver - 0) = true := by
          rcases h.2 with ha | ⟨ha, _⟩ <;> simp [ha, guardOK]
        have hr : recLag .afterWrite cs k f =
            ({ (freshRun cs f).1 with assumed := some (freshRun cs f).1.ver }, (freshRun cs f).2) := by
          unfold recLag
          simp only [hb, hs, hg, hc, if_false, Bool.not_true, if_true]
          rfl
        rw [hr]
        obtain ⟨hw, ho⟩ := freshRun_world cs f hc
        refine ⟨⟨freshRun_inv cs f h.1, Or.inl rfl⟩, [.recon f], ?_, ?_, ?_⟩
        · intro g hg
          simp only [List.mem_singleton, Op.recon.injEq] at hg
          exact ⟨k, by rw [hg]⟩
        · simp [run, step, hw]
        · simp [run, step, ho]
    · rw [recLag_stale_declined cs k f h hb]
      exact ⟨h, [], by simp, rfl, rfl⟩

/-- a whole history of the shipped policy is a plain history whose reconciles carry the same fault masks -/
theorem runC_sim (ops : List OpC) : ∀ cs : CS, LagInv cs →
    ∃ pre : List Op, (∀ g, Op.recon g ∈ pre → ∃ k, OpC.lagrec k g ∈ ops) ∧
      (run cs.w pre).2 = (runC .afterWrite cs ops).2 := by
  induction ops with
  | nil => intro cs _; exact ⟨[], by simp, rfl⟩
  | cons op rest ih =>
    intro cs h
    obtain ⟨hinv, p1, hp1, hw1, he1⟩ := stepC_sim cs op h
    obtain ⟨p2, hp2, he2⟩ := ih _ hinv
    refine ⟨p1 ++ p2, ?_, ?_⟩
    · intro g hg
      rcases List.mem_append.mp hg with h1 | h2
      · obtain ⟨k, hk⟩ := hp1 g h1
        exact ⟨k, by rw [hk]; exact List.mem_cons_self⟩
      · obtain ⟨k, hk⟩ := hp2 g h2
        exact ⟨k, List.mem_cons_of_mem _ hk⟩
    · rw [run_append]
      simp only [runC, hw1, he1, he2]

/-! ### the arbitrator -/

/-- invariant of the REPAIRED handler (Create skips finished jobs): a finished job is either not waiting, or the
    arbitrator's copy predates the write that finished it -/
def ArbInv (s : ArbS) : Prop :=
  (∀ v, s.waiting = some v → v ≤ s.ver) ∧ (termPh s.phase = true → ∀ v, s.waiting = some v → v < s.ver)

theorem arbRound_phase_of_stale (s : ArbS) (h : ∀ v, s.waiting = some v → v < s.ver) :
    (arbRound s).phase = s.phase := by
  unfold arbRound
  split
  · rfl
  · rename_i v hv
    have := h v hv
    have hne : v ≠ s.ver := by omega
    split
    · simp [hne]
    · split
      · rfl
      · simp [hne]


theorem arbStep_inv (s : ArbS) (op : AOp) (h : ArbInv s) :
    ArbInv (arbStep true s op) ∧ (termPh s.phase = true → (arbStep true s op).phase = s.phase) := by
  obtain ⟨h1, h2⟩ := h
  cases op with
  | add =>
    simp only [arbStep, Bool.true_and]
    split
    · exact ⟨⟨fun v hv => (by cases hv), fun _ v hv => (by cases hv)⟩, fun _ => rfl⟩
    · rename_i ht
      refine ⟨⟨?_, ?_⟩, fun _ => rfl⟩
      · intro v hv
        simp only [arbAdd, Option.some.injEq] at hv ⊢
        omega
      · intro ht'
        simp only [arbAdd] at ht'
        exact absurd (finPh_of_termPh ht') ht
  | set p =>
    simp only [arbStep]
    split
    · exact ⟨⟨h1, h2⟩, fun _ => rfl⟩
    · rename_i ht
      refine ⟨⟨?_, ?_⟩, fun ht' => absurd ht' ht⟩
      · intro v hv; simp only [arbSet] at hv ⊢; have := h1 v hv; omega
      · intro _ v hv; simp only [arbSet] at hv ⊢; have := h1 v hv; omega
  | pod b =>
    exact ⟨⟨h1, h2⟩, fun _ => rfl⟩
  | round =>
    simp only [arbStep]
    refine ⟨?_, fun ht => arbRound_phase_of_stale s (h2 ht)⟩
    unfold arbRound
    split
    · exact ⟨h1, h2⟩
    · rename_i v hv
      have hle := h1 v hv
      split
      · split
        · refine ⟨?_, ?_⟩ <;> intro a <;> simp
        · refine ⟨?_, ?_⟩ <;> intro a <;> simp
      · split
        · exact ⟨h1, h2⟩
        · split
          · refine ⟨?_, ?_⟩ <;> intro a <;> simp
          · exact ⟨h1, h2⟩

end KoordVerif.C17
