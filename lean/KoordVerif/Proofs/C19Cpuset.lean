import KoordVerif.Model.C19
/-
C19, CPU-set text codec: `Parse (String s) = s` at the byte level (helper development).
-/
namespace KoordVerif.C19

def IsDigit (c : Nat) : Prop := 48 ≤ c ∧ c ≤ 57

/-! ### decimal numbers -/

theorem parseAcc_itoaAux (n : Nat) (acc : Text) : parseAcc 0 (itoaAux n acc) = parseAcc n acc := by
  induction n using Nat.strongRecOn generalizing acc with
  | _ n ih =>
    rw [itoaAux]
    split
    · next h =>
      simp only [parseAcc]
      rw [if_pos (by omega)]
      congr 1; omega
    · next h =>
      rw [ih (n / 10) (by omega)]
      simp only [parseAcc]
      rw [if_pos (by omega)]
      congr 1; omega

theorem itoaAux_digits (n : Nat) (acc : Text) : ∀ c ∈ itoaAux n acc, IsDigit c ∨ c ∈ acc := by
  induction n using Nat.strongRecOn generalizing acc with
  | _ n ih =>
    rw [itoaAux]
    split
    · intro c hc
      simp only [List.mem_cons] at hc
      rcases hc with rfl | hc
      · left; unfold IsDigit; omega
      · right; exact hc
    · intro c hc
      rcases ih (n / 10) (by omega) _ c hc with h | h
      · exact Or.inl h
      · simp only [List.mem_cons] at h
        rcases h with rfl | h
        · left; unfold IsDigit; omega
        · right; exact h

theorem itoaAux_ne_nil (n : Nat) (acc : Text) : itoaAux n acc ≠ [] := by
  induction n using Nat.strongRecOn generalizing acc with
  | _ n ih =>
    rw [itoaAux]
    split
    · simp
    · exact ih (n / 10) (by omega) _

theorem itoa_digits (n : Nat) : ∀ c ∈ itoa n, IsDigit c := fun c hc =>
  (itoaAux_digits n [] c hc).resolve_right (by simp)

theorem itoa_ne_nil (n : Nat) : itoa n ≠ [] := itoaAux_ne_nil n []

theorem parseInt32_itoa (n : Nat) (h : n ≤ maxInt32) : parseInt32 (itoa n) = some n := by
  have hne := itoa_ne_nil n
  have hd := itoa_digits n
  have hp : parseAcc 0 (itoa n) = some n := by
    unfold itoa; rw [parseAcc_itoaAux]; rfl
  unfold parseInt32
  cases hs : itoa n with
  | nil => exact absurd hs hne
  | cons c r =>
    have hc : c ≠ cPlus := by
      have := hd c (by rw [hs]; simp)
      unfold IsDigit at this; unfold cPlus; omega
    rw [hs] at hp
    simp only [hc, if_false, hp, h, if_true]
    simp

/-! ### splitting and joining -/

theorem splitOn_not_mem (sep : Nat) (p : Text) (h : sep ∉ p) : splitOn sep p = [p] := by
  induction p with
  | nil => rfl
  | cons c cs ih =>
    simp only [List.mem_cons, not_or] at h
    simp only [splitOn]
    rw [if_neg (fun e => h.1 e.symm), ih h.2]

theorem splitOn_append (sep : Nat) (p q : Text) (h : sep ∉ p) :
    splitOn sep (p ++ sep :: q) = p :: splitOn sep q := by
  induction p with
  | nil => simp [splitOn]
  | cons c cs ih =>
    simp only [List.mem_cons, not_or] at h
    simp only [List.cons_append, splitOn]
    rw [if_neg (fun e => h.1 e.symm), ih h.2]

theorem fmtRng_chars (r : Rng) : ∀ c ∈ fmtRng r, IsDigit c ∨ c = cDash := by
  intro c hc
  unfold fmtRng at hc
  split at hc
  · exact Or.inl (itoa_digits _ c hc)
  · simp only [List.mem_append, List.mem_cons] at hc
    rcases hc with h | h | h
    · exact Or.inl (itoa_digits _ c h)
    · exact Or.inr h
    · exact Or.inl (itoa_digits _ c h)

theorem fmtRng_no_comma (r : Rng) : cComma ∉ fmtRng r := by
  intro h
  rcases fmtRng_chars r _ h with h | h
  · unfold IsDigit cComma at h; omega
  · unfold cComma cDash at h; omega

theorem fmtRng_ne_nil (r : Rng) : fmtRng r ≠ [] := by
  unfold fmtRng
  split
  · exact itoa_ne_nil _
  · intro h
    simp at h

theorem itoa_no_dash (n : Nat) : cDash ∉ itoa n := by
  intro h
  have := itoa_digits n _ h
  unfold IsDigit cDash at this; omega

theorem rangeList_self (s : Nat) : rangeList s s = [s] := by
  simp [rangeList]

theorem splitOn_fmtRng (r : Rng) :
    splitOn cDash (fmtRng r) = if r.start = r.stop then [itoa r.start] else [itoa r.start, itoa r.stop] := by
  unfold fmtRng
  split
  · exact splitOn_not_mem _ _ (itoa_no_dash _)
  · rw [splitOn_append _ _ _ (itoa_no_dash _), splitOn_not_mem _ _ (itoa_no_dash _)]

theorem parsePiece_fmtRng (r : Rng) (h1 : r.start ≤ r.stop) (h2 : r.stop ≤ maxCPU) :
    parsePiece (fmtRng r) = some (rangeList r.start r.stop) := by
  have hmax : maxCPU ≤ maxInt32 := by decide
  unfold parsePiece
  rw [splitOn_fmtRng]
  by_cases he : r.start = r.stop
  · rw [if_pos he]
    simp only
    rw [parseInt32_itoa _ (by omega), ← he, rangeList_self]
    rfl
  · rw [if_neg he]
    simp only
    rw [parseInt32_itoa _ (by omega), parseInt32_itoa _ (by omega)]
    simp only
    rw [if_neg (by omega)]

def expand (rs : List Rng) : List Nat := rs.flatMap (fun r => rangeList r.start r.stop)

theorem parsePieces_fmt (rs : List Rng) (h : ∀ r ∈ rs, r.start ≤ r.stop ∧ r.stop ≤ maxCPU) :
    parsePieces (rs.map fmtRng) = some (expand rs) := by
  induction rs with
  | nil => rfl
  | cons r rs ih =>
    have hr := h r (by simp)
    simp only [List.map_cons, parsePieces]
    rw [parsePiece_fmtRng r hr.1 hr.2, ih (fun x hx => h x (by simp [hx]))]
    simp [expand]

theorem splitOn_joinComma (ps : List Text) (hne : ps ≠ []) (h : ∀ p ∈ ps, cComma ∉ p) :
    splitOn cComma (joinComma ps) = ps := by
  induction ps with
  | nil => exact absurd rfl hne
  | cons p qs ih =>
    cases qs with
    | nil => simp only [joinComma]; exact splitOn_not_mem _ _ (h p (by simp))
    | cons q qs =>
      simp only [joinComma]
      rw [splitOn_append _ _ _ (h p (by simp)), ih (by simp) (fun x hx => h x (by simp [hx]))]

theorem joinComma_ne_nil (p : Text) (ps : List Text) (hp : p ≠ []) : joinComma (p :: ps) ≠ [] := by
  cases ps with
  | nil => simpa [joinComma] using hp
  | cons q qs => simp [joinComma, hp]

/-! ### range compression -/

theorem rangeList_succ (s e : Nat) (h : s ≤ e) : rangeList s (e + 1) = rangeList s e ++ [e + 1] := by
  unfold rangeList
  have : e + 1 + 1 - s = (e + 1 - s) + 1 := by omega
  rw [this, List.range'_concat]
  congr 2
  omega

theorem compressGo_spec (xs : List Nat) (s e : Nat) (h : s ≤ e) :
    (∀ r ∈ compressGo s e xs, r.start ≤ r.stop ∧ (r.stop = e ∨ r.stop ∈ xs)) ∧
    expand (compressGo s e xs) = rangeList s e ++ xs ∧ compressGo s e xs ≠ [] := by
  induction xs generalizing s e with
  | nil => simp [compressGo, expand, h]
  | cons x xs ih =>
    simp only [compressGo]
    split
    · next hx =>
      obtain ⟨a, b, c⟩ := ih s x (by omega)
      refine ⟨?_, ?_, c⟩
      · intro r hr
        have := a r hr
        refine ⟨this.1, Or.inr ?_⟩
        rcases this.2 with h2 | h2
        · simp [h2]
        · simp [h2]
      · rw [b, hx, rangeList_succ s e h]; simp
    · obtain ⟨a, b, _⟩ := ih x x (Nat.le_refl x)
      refine ⟨?_, ?_, by simp⟩
      · intro r hr
        simp only [List.mem_cons] at hr
        rcases hr with rfl | hr
        · exact ⟨h, Or.inl rfl⟩
        · have := a r hr
          refine ⟨this.1, Or.inr ?_⟩
          rcases this.2 with h2 | h2
          · simp [h2]
          · simp [h2]
      · have : expand (⟨s, e⟩ :: compressGo x x xs) = rangeList s e ++ expand (compressGo x x xs) := by
          simp [expand]
        rw [this, b, rangeList_self]; simp

/-! ### the builder's set -/

theorem insertSet_last (x : Nat) (acc : List Nat) (h : ∀ y ∈ acc, y < x) : insertSet x acc = acc ++ [x] := by
  induction acc with
  | nil => rfl
  | cons y ys ih =>
    have hy := h y (by simp)
    simp only [insertSet]
    rw [if_neg (by omega), if_neg (by omega), ih (fun z hz => h z (by simp [hz]))]
    rfl

theorem foldl_insertSet_asc (xs acc : List Nat) (h : (acc ++ xs).Pairwise (· < ·)) :
    xs.foldl (fun s x => insertSet x s) acc = acc ++ xs := by
  induction xs generalizing acc with
  | nil => simp
  | cons x xs ih =>
    simp only [List.foldl_cons]
    have hlast : ∀ y ∈ acc, y < x := by
      intro y hy
      rw [List.pairwise_append] at h
      exact h.2.2 y hy x (by simp)
    rw [insertSet_last x acc hlast, ih (acc ++ [x]) (by simpa using h)]
    simp

theorem toSet_asc (s : List Nat) (h : s.Pairwise (· < ·)) : toSet s = s := by
  unfold toSet
  rw [foldl_insertSet_asc s [] (by simpa using h)]
  simp

/-! ### the round trip -/

theorem parse_format (s : List Nat) (hasc : s.Pairwise (· < ·)) (hmax : ∀ x ∈ s, x ≤ maxCPU) :
    parseText (formatText s) = some s := by
  cases s with
  | nil => rfl
  | cons x xs =>
    have hspec : (∀ r ∈ compress (x :: xs), r.start ≤ r.stop ∧ (r.stop = x ∨ r.stop ∈ xs)) ∧
        expand (compress (x :: xs)) = rangeList x x ++ xs ∧ compress (x :: xs) ≠ [] :=
      compressGo_spec xs x x (Nat.le_refl x)
    obtain ⟨hval, hexp, hne⟩ := hspec
    have hvalid : ∀ r ∈ compress (x :: xs), r.start ≤ r.stop ∧ r.stop ≤ maxCPU := by
      intro r hr
      have := hval r hr
      refine ⟨this.1, ?_⟩
      rcases this.2 with h2 | h2
      · rw [h2]; exact hmax x (by simp)
      · exact hmax _ (by simp [h2])
    have hnil : joinComma ((compress (x :: xs)).map fmtRng) ≠ [] := by
      cases hc : compress (x :: xs) with
      | nil => exact absurd hc hne
      | cons r rs => simp only [List.map_cons]; exact joinComma_ne_nil _ _ (fmtRng_ne_nil r)
    unfold parseText formatText
    rw [if_neg hnil]
    rw [splitOn_joinComma _ (by simpa using hne)
      (by intro p hp; simp only [List.mem_map] at hp; obtain ⟨r, _, rfl⟩ := hp; exact fmtRng_no_comma r)]
    rw [parsePieces_fmt _ hvalid, hexp, rangeList_self]
    simp only [Option.map_some, List.singleton_append]
    rw [toSet_asc _ hasc]

end KoordVerif.C19
