import KoordVerif.Proofs.C04Base
/-
C04: every entry point preserves a child-set invariant on all cached gangs.
-/
namespace KoordVerif.C04

theorem rejectGroup_gangs (s : State) (id : GangId) : (rejectGroup s id).1.gangs = s.gangs := by
  unfold rejectGroup
  split <;> rfl

theorem rejectGroup_infos (s : State) (id : GangId) : (rejectGroup s id).1.infos = s.infos := by
  unfold rejectGroup
  split <;> rfl

theorem podEvt_pre_sim (s : State) (id : GangId) (anno : Option (Bool × Cfg)) :
    Sim s.gangs
      (match anno with
        | none => ensureGang s id
        | some (minOK, c) =>
          attachInfo { ensureGang s id with gangs := updGang (ensureGang s id).gangs id (fun g =>
            if g.init = false ∧ minOK = true then applyCfg s.dflt g c true else g) } id).gangs := by
  cases anno with
  | none => exact sim_ensureGang s id
  | some a =>
    obtain ⟨minOK, c⟩ := a
    refine (sim_ensureGang s id).trans (Sim.trans ?_ (sim_attachInfo _ id))
    apply sim_updGang_meta
    intro g
    split
    · exact applyCfg_meta s.dflt g c true
    · exact ⟨rfl, rfl⟩

theorem podEvt_allG {P : PodSets → Prop} (hP : SetInv P) (s : State) (p : Pod) (id : GangId) (n : Bool)
    (anno : Option (Bool × Cfg)) (h : AllG P s.gangs) : AllG P (podEvt s p id n anno).gangs := by
  have h1 := (podEvt_pre_sim s id anno).allG hP.empty h
  unfold podEvt
  simp only
  cases n with
  | false =>
    simp only [Bool.false_eq_true, if_false]
    exact allG_updGang h1 (fun g hg _ => hP.setChildF g.ps p (h1 g hg))
  | true =>
    simp only [if_true]
    rw [satGang_gangs]
    simp only
    rw [updGang_updGang _ id (fun g => g.setChild p true) (fun g => g.addBound p) (fun g => rfl)]
    exact allG_updGang h1 (fun g hg _ => hP.setChildT g.ps p (h1 g hg))

theorem podDel_allG {P : PodSets → Prop} (hP : SetInv P) (s : State) (p : Pod) (id : GangId)
    (h : AllG P s.gangs) : AllG P (podDel s p id).gangs := by
  unfold podDel
  split
  · exact h
  · simp only
    have h1 : AllG P (updGang s.gangs id (fun g => g.deletePod p)) :=
      allG_updGang h (fun g hg _ => hP.deletePod g.ps p (h g hg))
    split
    · exact (sim_removeGang _ _).allG hP.empty h1
    · exact h1

theorem permit_allG {P : PodSets → Prop} {Q : PodSets → Pod → Prop}
    (hA : ∀ g p, P g → Q g p → P (g.addAssumed p)) (s : State) (p : Pod) (id : GangId)
    (h : AllG P s.gangs) (hq : ∀ g ∈ s.gangs, g.id = id → Q g.ps p) : AllG P (permit s p id).1.gangs := by
  unfold permit
  split
  · exact h
  · simp only
    have h1 : AllG P (updGang s.gangs id (fun g => g.addAssumed p)) :=
      allG_updGang h (fun g hg hid => hA g.ps p (h g hg) (hq g hg hid))
    split
    · exact h1
    · exact h1

theorem unreserve_allG {P : PodSets → Prop} (hP : SetInv P) (s : State) (p : Pod) (id : GangId)
    (h : AllG P s.gangs) : AllG P (unreserve s p id).1.gangs := by
  unfold unreserve
  simp only
  split
  · exact h
  · have h1 : AllG P (updGang (fwRemove s p).gangs id (fun g => g.delAssumed p)) :=
      allG_updGang h (fun g hg _ => hP.delAssumed g.ps p (h g hg))
    split
    · simp only
      rw [rejectGroup_gangs]
      exact h1
    · exact h1

theorem postBind_allG {P : PodSets → Prop} (hP : SetInv P) (s : State) (p : Pod) (id : GangId)
    (h : AllG P s.gangs) : AllG P (postBind s p id).gangs := by
  unfold postBind
  simp only
  split
  · exact h
  · rw [satGang_gangs]
    exact allG_updGang h (fun g hg _ => hP.addBound g.ps p (h g hg))

theorem postFilter_gangs (s : State) (id : GangId) : (postFilter s id).1.gangs = s.gangs := by
  unfold postFilter
  split
  · rfl
  · split
    · rfl
    · split
      · simp only
        rw [rejectGroup_gangs]
      · rfl

/-- every entry point keeps a child-set invariant `P` on all gangs; `Q` is what `P` needs from the
    pod handed to Permit. -/
theorem step_allG {P : PodSets → Prop} (hP : SetInv P) {Q : PodSets → Pod → Prop}
    (hA : ∀ g p, P g → Q g p → P (g.addAssumed p)) (s : State) (op : Op) (h : AllG P s.gangs)
    (hq : ∀ p id, op = .permit p id → ∀ g ∈ s.gangs, g.id = id → Q g.ps p) :
    AllG P (step s op).1.gangs := by
  cases op with
  | pgAdd g c =>
    exact ((sim_ensureGang s g).trans (sim_pgApply _ g c)).allG hP.empty h
  | pgUpd g c =>
    simp only [step]
    unfold pgUpd
    split
    · exact h
    · exact (sim_pgApply s g c).allG hP.empty h
  | pgDel g =>
    simp only [step]
    unfold pgDel
    split
    · exact h
    · exact (sim_removeGang s _).allG hP.empty h
  | podEvt p g n a => exact podEvt_allG hP s p g n a h
  | podDel p g => exact podDel_allG hP s p g h
  | permit p g => exact permit_allG hA s p g h (hq p g rfl)
  | unreserve p g => exact unreserve_allG hP s p g h
  | postBind p g => exact postBind_allG hP s p g h
  | postFilter p g =>
    simp only [step]
    rw [postFilter_gangs]
    exact h
  | nop => exact h

end KoordVerif.C04
