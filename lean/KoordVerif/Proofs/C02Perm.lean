import KoordVerif.Proofs.C02Iter
/-
Iteration-order independence of the redistribution (DESIGN.md Appendix A.3):
Go iterates `map[string]*quotaNode`, i.e. the sibling list arrives in an arbitrary order.
-/
namespace KoordVerif.C02

/-! ### the sort key (remainder desc, name asc) without the slice index -/

abbrev Key := Int × Nat

def keyOf (e : Entry) : Key := (e.rem, e.name)

def keyLt (a b : Key) : Bool := if a.1 ≠ b.1 then a.1 > b.1 else a.2 < b.2

def keyLe (a b : Key) : Bool := !keyLt b a

theorem entryLe_eq (a b : Entry) : entryLe a b = keyLe (keyOf a) (keyOf b) := by
  unfold entryLe entryLt keyLe keyLt keyOf; rfl

theorem keyLe_iff (a b : Key) : keyLe a b = true ↔ (a.1 > b.1 ∨ (a.1 = b.1 ∧ a.2 ≤ b.2)) := by
  unfold keyLe keyLt
  by_cases h : b.1 = a.1
  · simp [h] <;> omega
  · simp [h] <;> omega

theorem keyLe_total (a b : Key) : (keyLe a b || keyLe b a) = true := by
  rw [Bool.or_eq_true, keyLe_iff, keyLe_iff]; omega

theorem keyLe_trans (a b c : Key) (h1 : keyLe a b = true) (h2 : keyLe b c = true) : keyLe a c = true := by
  rw [keyLe_iff] at *; omega

theorem keyLe_antisymm (a b : Key) (h1 : keyLe a b = true) (h2 : keyLe b a = true) : a = b := by
  rw [keyLe_iff] at *
  have h3 : a.1 = b.1 := by omega
  have h4 : a.2 = b.2 := by omega
  exact Prod.ext h3 h4

/-! ### entries, characterised without indices -/

def nodeKey (T W : Int) (n : Node) : Key := (remOf T W n, n.name)

def posW (n : Node) : Bool := !(decide (n.weight ≤ 0))

theorem entriesFrom_map_key (T W : Int) (i : Nat) (ns : List Node) :
    (entriesFrom T W i ns).map keyOf = (ns.filter posW).map (nodeKey T W) := by
  induction ns generalizing i with
  | nil => simp [entriesFrom]
  | cons n ns ih =>
    unfold entriesFrom
    by_cases hw : n.weight ≤ 0
    · rw [if_pos hw]; simp [List.filter_cons, posW, hw, ih]
    · rw [if_neg hw]; simp [List.filter_cons, posW, hw, ih, keyOf, nodeKey]

theorem entriesFrom_char (T W : Int) (i : Nat) (ns : List Node) :
    ∀ e ∈ entriesFrom T W i ns, ∃ k, ∃ (hk : k < ns.length),
      e.index = i + k ∧ 0 < ns[k].weight ∧ keyOf e = nodeKey T W ns[k] := by
  induction ns generalizing i with
  | nil => intro e he; simp [entriesFrom] at he
  | cons n ns ih =>
    intro e he
    unfold entriesFrom at he
    by_cases hw : n.weight ≤ 0
    · rw [if_pos hw] at he
      obtain ⟨k, hk, h1, h2, h3⟩ := ih (i + 1) e he
      exact ⟨k + 1, by simp; omega, by omega, by simpa using h2, by simpa using h3⟩
    · rw [if_neg hw] at he
      rcases List.mem_cons.mp he with rfl | he
      · exact ⟨0, by simp, by simp, by simp; omega, by simp [keyOf, nodeKey]⟩
      · obtain ⟨k, hk, h1, h2, h3⟩ := ih (i + 1) e he
        exact ⟨k + 1, by simp; omega, by omega, by simpa using h2, by simpa using h3⟩

theorem entriesFrom_complete (T W : Int) (i : Nat) (ns : List Node) (k : Nat) (hk : k < ns.length)
    (hw : 0 < ns[k].weight) :
    ({ index := i + k, rem := remOf T W ns[k], name := ns[k].name } : Entry) ∈ entriesFrom T W i ns := by
  induction ns generalizing i k with
  | nil => simp at hk
  | cons n ns ih =>
    unfold entriesFrom
    cases k with
    | zero =>
      have : ¬ n.weight ≤ 0 := by simp at hw; omega
      rw [if_neg this]; simp
    | succ k =>
      have hk' : k < ns.length := by simp at hk; omega
      have hw' : 0 < ns[k].weight := by simpa using hw
      have := ih (i + 1) k hk' hw'
      have hidx : i + 1 + k = i + (k + 1) := by omega
      rw [hidx] at this
      by_cases hn : n.weight ≤ 0
      · rw [if_pos hn]; simpa using this
      · rw [if_neg hn]; exact List.mem_cons_of_mem _ (by simpa using this)

/-! ### permutation-invariant ingredients -/

theorem perm_sum_int {l₁ l₂ : List Int} (h : l₁.Perm l₂) : l₁.sum = l₂.sum := by
  induction h with
  | nil => rfl
  | cons a _ ih => simp [ih]
  | swap a b l => simp; omega
  | trans _ _ ih1 ih2 => omega

def sortedKeys (T W : Int) (ns : List Node) : List Key :=
  ((ns.filter posW).map (nodeKey T W)).mergeSort keyLe

theorem sortedKeys_perm (T W : Int) {ns₁ ns₂ : List Node} (h : ns₁.Perm ns₂) :
    sortedKeys T W ns₁ = sortedKeys T W ns₂ := by
  unfold sortedKeys
  apply List.Perm.eq_of_pairwise (le := fun a b => keyLe a b = true)
  · intro a b _ _ h1 h2; exact keyLe_antisymm a b h1 h2
  · exact List.pairwise_mergeSort keyLe_trans keyLe_total _
  · exact List.pairwise_mergeSort keyLe_trans keyLe_total _
  · have hp : ((ns₁.filter posW).map (nodeKey T W)).Perm ((ns₂.filter posW).map (nodeKey T W)) :=
      (h.filter posW).map _
    exact (List.mergeSort_perm _ _).trans (hp.trans (List.mergeSort_perm _ _).symm)

theorem sorted_entries_keys (T W : Int) (ns : List Node) :
    ((entriesFrom T W 0 ns).mergeSort entryLe).map keyOf = sortedKeys T W ns := by
  unfold sortedKeys
  rw [← entriesFrom_map_key T W 0 ns]
  exact List.map_mergeSort (fun a _ b _ => entryLe_eq a b)

end KoordVerif.C02

namespace KoordVerif.C02

/-! ### the delta a sibling receives, as a function of the sibling (not of its slice position) -/

def residualOf (T W : Int) (ns : List Node) : Int := T - (ns.map (baseOf T W)).sum

def deltaFn (T W : Int) (ns : List Node) (n : Node) : Int :=
  if W ≤ 0 ∨ T ≤ 0 ∨ ns = [] then 0 else
  if residualOf T W ns ≤ 0 ∨ ns.filter posW = [] then baseOf T W n else
  baseOf T W n +
    if 0 < n.weight ∧ nodeKey T W n ∈ (sortedKeys T W ns).take (residualOf T W ns).toNat then 1 else 0

theorem entries_nil_iff (T W : Int) (ns : List Node) : entriesFrom T W 0 ns = [] ↔ ns.filter posW = [] := by
  have h := entriesFrom_map_key T W 0 ns
  constructor
  · intro h0; rw [h0] at h; simpa using h.symm
  · intro h0; rw [h0] at h; simpa using h

def NamesNodup (ns : List Node) : Prop := (ns.map (·.name)).Nodup

theorem names_inj (ns : List Node) (hnd : NamesNodup ns) (j k : Nat) (hj : j < ns.length) (hk : k < ns.length)
    (h : ns[j].name = ns[k].name) : j = k := by
  unfold NamesNodup List.Nodup at hnd
  have hp := List.pairwise_iff_getElem.mp hnd
  by_cases hlt : j < k
  · exact absurd (by rw [List.getElem_map, List.getElem_map]; exact h) (hp j k (by simpa using hj) (by simpa using hk) hlt)
  · by_cases hgt : k < j
    · exact absurd (by rw [List.getElem_map, List.getElem_map]; exact h.symm) (hp k j (by simpa using hk) (by simpa using hj) hgt)
    · omega

/-- `computeHamiltonDeltas` gives the sibling at position `j` exactly `deltaFn` of that sibling. -/
theorem hamilton_getElem (T W : Int) (ns : List Node) (hnd : NamesNodup ns) (j : Nat) (hj : j < ns.length) :
    (hamilton T W ns)[j]'(by rw [hamilton_length]; exact hj) = deltaFn T W ns ns[j] := by
  have key : ∀ (l : List Int) (hl : l = hamilton T W ns),
      l[j]'(by rw [hl, hamilton_length]; exact hj) = deltaFn T W ns ns[j] := by
    intro l hl
    unfold hamilton at hl
    unfold deltaFn
    split at hl
    · rename_i hc; rw [if_pos hc]; subst hl; simp
    · rename_i hc
      rw [if_neg hc]
      simp only [] at hl
      split at hl
      · rename_i hr
        have hr' : residualOf T W ns ≤ 0 ∨ ns.filter posW = [] := by
          rcases hr with h | h
          · left; exact h
          · right; exact (entries_nil_iff T W ns).mp h
        rw [if_pos hr']; subst hl; simp
      · rename_i hr
        have hr' : ¬ (residualOf T W ns ≤ 0 ∨ ns.filter posW = []) := by
          intro h; apply hr
          rcases h with h | h
          · left; exact h
          · right; exact (entries_nil_iff T W ns).mpr h
        rw [if_neg hr']
        unfold residualOf
        subst hl
        have hjb : j < (ns.map (baseOf T W)).length := by simp; exact hj
        have hnd' : (((entriesFrom T W 0 ns).mergeSort entryLe |>.take (T - (ns.map (baseOf T W)).sum).toNat).map (·.index)).Nodup := by
          rw [List.map_take]
          apply List.Nodup.sublist (List.take_sublist _ _)
          exact ((List.mergeSort_perm (entriesFrom T W 0 ns) entryLe).map (·.index)).nodup_iff.mpr
            (entriesFrom_index_nodup T W 0 ns)
        rw [foldl_bump_getElem _ hnd' _ j hjb]
        simp only [List.getElem_map]
        congr 1
        -- membership of the index  ⟺  membership of the key
        have hS := sorted_entries_keys T W ns
        have htake : (((entriesFrom T W 0 ns).mergeSort entryLe).take (T - (ns.map (baseOf T W)).sum).toNat).map keyOf
            = (sortedKeys T W ns).take (T - (ns.map (baseOf T W)).sum).toNat := by
          rw [List.map_take, hS]
        have hiff : (j ∈ (((entriesFrom T W 0 ns).mergeSort entryLe).take (T - (ns.map (baseOf T W)).sum).toNat).map (·.index)) ↔
            (0 < ns[j].weight ∧ nodeKey T W ns[j] ∈ (sortedKeys T W ns).take (T - (ns.map (baseOf T W)).sum).toNat) := by
          constructor
          · intro hmem
            obtain ⟨e, he, hej⟩ := List.mem_map.mp hmem
            have he' : e ∈ entriesFrom T W 0 ns :=
              (List.mergeSort_perm _ entryLe).mem_iff.mp ((List.take_sublist _ _).subset he)
            obtain ⟨k, hk, h1, h2, h3⟩ := entriesFrom_char T W 0 ns e he'
            have hkj : k = j := by omega
            subst hkj
            refine ⟨h2, ?_⟩
            rw [← htake, ← h3]
            exact List.mem_map.mpr ⟨e, he, rfl⟩
          · rintro ⟨hw, hmem⟩
            rw [← htake] at hmem
            obtain ⟨e, he, hek⟩ := List.mem_map.mp hmem
            have he' : e ∈ entriesFrom T W 0 ns :=
              (List.mergeSort_perm _ entryLe).mem_iff.mp ((List.take_sublist _ _).subset he)
            obtain ⟨k, hk, h1, h2, h3⟩ := entriesFrom_char T W 0 ns e he'
            have hname : ns[k].name = ns[j].name := by
              have : keyOf e = nodeKey T W ns[j] := hek
              rw [h3] at this
              simpa [nodeKey] using congrArg Prod.snd this
            have hkj := names_inj ns hnd k j hk hj hname
            subst hkj
            exact List.mem_map.mpr ⟨e, he, by omega⟩
        by_cases hm : j ∈ (((entriesFrom T W 0 ns).mergeSort entryLe).take (T - (ns.map (baseOf T W)).sum).toNat).map (·.index)
        · rw [if_pos hm, if_pos (hiff.mp hm)]
        · rw [if_neg hm, if_neg (fun h => hm (hiff.mpr h))]
  exact key _ rfl

theorem hamilton_eq_map (T W : Int) (ns : List Node) (hnd : NamesNodup ns) :
    hamilton T W ns = ns.map (deltaFn T W ns) := by
  apply List.ext_getElem
  · rw [hamilton_length]; simp
  · intro i h1 h2
    have hi : i < ns.length := by rw [hamilton_length] at h1; exact h1
    rw [hamilton_getElem T W ns hnd i hi]
    simp

theorem deltaFn_perm (T W : Int) {ns₁ ns₂ : List Node} (h : ns₁.Perm ns₂) :
    deltaFn T W ns₁ = deltaFn T W ns₂ := by
  funext n
  unfold deltaFn residualOf
  have h1 : (ns₁ = []) ↔ (ns₂ = []) := by
    constructor
    · intro e; subst e; exact List.Perm.eq_nil h.symm
    · intro e; subst e; exact List.Perm.eq_nil h
  have h2 : (ns₁.map (baseOf T W)).sum = (ns₂.map (baseOf T W)).sum := perm_sum_int (h.map _)
  have h3 : (ns₁.filter posW = []) ↔ (ns₂.filter posW = []) := by
    have hp := h.filter posW
    constructor
    · intro e; rw [e] at hp; exact List.Perm.eq_nil hp.symm
    · intro e; rw [e] at hp; exact List.Perm.eq_nil hp
  have h4 := sortedKeys_perm T W h
  simp only [h1, h2, h3, h4]

end KoordVerif.C02

namespace KoordVerif.C02

/-! ### one round, and the whole iteration, commute with permutations of the sibling list -/

theorem addDeltas_eq_map (ps : List (Node × Int)) (f : Node → Int) :
    addDeltas ps ((ps.map (·.1)).map f) = ps.map (fun p => (p.1, p.2 + f p.1)) := by
  induction ps with
  | nil => simp [addDeltas]
  | cons p ps ih =>
    simp only [List.map_cons, addDeltas]
    rw [ih]

def PairNamesNodup (ps : List (Node × Int)) : Prop := NamesNodup (ps.map (·.1))

theorem round_eq_map (T W : Int) (ps : List (Node × Int)) (hnd : PairNamesNodup ps) :
    addDeltas ps (hamilton T W (ps.map (·.1))) =
      ps.map (fun p => (p.1, p.2 + deltaFn T W (ps.map (·.1)) p.1)) := by
  rw [hamilton_eq_map T W _ hnd, addDeltas_eq_map]

theorem round_perm (T W : Int) {ps₁ ps₂ : List (Node × Int)} (h : ps₁.Perm ps₂) (hnd : PairNamesNodup ps₁) :
    (addDeltas ps₁ (hamilton T W (ps₁.map (·.1)))).Perm (addDeltas ps₂ (hamilton T W (ps₂.map (·.1)))) := by
  have hnd2 : PairNamesNodup ps₂ := by
    unfold PairNamesNodup NamesNodup at *
    exact (((h.map (·.1)).map (·.name)).nodup_iff).mp hnd
  rw [round_eq_map T W ps₁ hnd, round_eq_map T W ps₂ hnd2, deltaFn_perm T W (h.map (·.1))]
  exact h.map _

theorem pairNames_of_perm {ps₁ ps₂ : List (Node × Int)} (h : ps₁.Perm ps₂) (hnd : PairNamesNodup ps₁) :
    PairNamesNodup ps₂ := by
  unfold PairNamesNodup NamesNodup at *
  exact (((h.map (·.1)).map (·.name)).nodup_iff).mp hnd

theorem pairNames_sublist {ps qs : List (Node × Int)} (h : qs.Sublist ps) (hnd : PairNamesNodup ps) :
    PairNamesNodup qs := by
  unfold PairNamesNodup NamesNodup at *
  exact List.Nodup.sublist ((h.map (·.1)).map (·.name)) hnd

theorem round_names (T W : Int) (ps : List (Node × Int)) (hnd : PairNamesNodup ps) :
    PairNamesNodup (addDeltas ps (hamilton T W (ps.map (·.1)))) := by
  unfold PairNamesNodup at *
  rw [addDeltas_nodes ps _ (round_len T W ps)]
  exact hnd

theorem runtimeSum_perm {l₁ l₂ : List (Node × Int)} (h : l₁.Perm l₂) : runtimeSum l₁ = runtimeSum l₂ :=
  perm_sum_int (h.map _)

theorem weightSum_perm {l₁ l₂ : List (Node × Int)} (h : l₁.Perm l₂) : weightSum l₁ = weightSum l₂ :=
  perm_sum_int (h.map _)

theorem surplus_perm {l₁ l₂ : List (Node × Int)} (h : l₁.Perm l₂) : surplusOf l₁ = surplusOf l₂ := by
  unfold surplusOf cappedOf
  exact perm_sum_int ((h.filter _).map _)

/-- the iteration's result does not depend on the order in which the siblings are presented. -/
theorem iter_perm (fuel : Nat) (T W : Int) {ps₁ ps₂ : List (Node × Int)} (h : ps₁.Perm ps₂)
    (hnd : PairNamesNodup ps₁) :
    (iter fuel T W ps₁).1.Perm (iter fuel T W ps₂).1 ∧ (iter fuel T W ps₁).2 = (iter fuel T W ps₂).2 := by
  induction fuel generalizing T W ps₁ ps₂ with
  | zero => simp [iter, h]
  | succ fuel ih =>
    have hnil : (ps₁ = []) ↔ (ps₂ = []) := by
      constructor
      · intro e; subst e; exact List.Perm.eq_nil h.symm
      · intro e; subst e; exact List.Perm.eq_nil h
    unfold iter
    by_cases hc : W ≤ 0 ∨ T ≤ 0 ∨ ps₁ = []
    · have hc2 : W ≤ 0 ∨ T ≤ 0 ∨ ps₂ = [] := by
        rcases hc with a | a | a
        · exact Or.inl a
        · exact Or.inr (Or.inl a)
        · exact Or.inr (Or.inr (hnil.mp a))
      rw [if_pos hc, if_pos hc2]; exact ⟨h, rfl⟩
    · have hc2 : ¬ (W ≤ 0 ∨ T ≤ 0 ∨ ps₂ = []) := by
        intro a; apply hc
        rcases a with a | a | a
        · exact Or.inl a
        · exact Or.inr (Or.inl a)
        · exact Or.inr (Or.inr (hnil.mpr a))
      rw [if_neg hc, if_neg hc2]
      simp only []
      have hr := round_perm T W h hnd
      have hrn := round_names T W ps₁ hnd
      generalize addDeltas ps₁ (hamilton T W (ps₁.map (·.1))) = n₁ at *
      generalize addDeltas ps₂ (hamilton T W (ps₂.map (·.1))) = n₂ at *
      have hstill : (stillOf n₁).Perm (stillOf n₂) := hr.filter _
      have hcap : (cappedOf n₁).Perm (cappedOf n₂) := hr.filter _
      have hdone : ((cappedOf n₁).map (fun p => (p.1, p.1.request))).Perm ((cappedOf n₂).map (fun p => (p.1, p.1.request))) :=
        hcap.map _
      have hsur := surplus_perm hr
      have hws := weightSum_perm hstill
      have hsn : (stillOf n₁ = []) ↔ (stillOf n₂ = []) := by
        constructor
        · intro e; rw [e] at hstill; exact List.Perm.eq_nil hstill.symm
        · intro e; rw [e] at hstill; exact List.Perm.eq_nil hstill
      have hstillnd : PairNamesNodup (stillOf n₁) := pairNames_sublist List.filter_sublist hrn
      by_cases hb : surplusOf n₁ > 0 ∧ stillOf n₁ ≠ []
      · have hb2 : surplusOf n₂ > 0 ∧ stillOf n₂ ≠ [] := ⟨by omega, fun e => hb.2 (hsn.mpr e)⟩
        rw [if_pos hb, if_pos hb2]
        have := ih (surplusOf n₁) (weightSum (stillOf n₁)) hstill hstillnd
        rw [← hsur, ← hws]
        exact ⟨hdone.append this.1, this.2⟩
      · have hb2 : ¬ (surplusOf n₂ > 0 ∧ stillOf n₂ ≠ []) := by
          intro a; apply hb
          exact ⟨by omega, fun e => a.2 (hsn.mp e)⟩
        rw [if_neg hb, if_neg hb2]
        exact ⟨hdone.append hstill, hsur⟩

theorem redistributeN_perm (total : Int) {ns₁ ns₂ : List Node} (h : ns₁.Perm ns₂) (hnd : NamesNodup ns₁) :
    (redistributeN total ns₁).1.Perm (redistributeN total ns₂).1 ∧
    (redistributeN total ns₁).2 = (redistributeN total ns₂).2 := by
  unfold redistributeN
  simp only []
  have hinit : (initAll ns₁).Perm (initAll ns₂) := h.map _
  have hsum := runtimeSum_perm hinit
  have hadj : ((initAll ns₁).filter (fun p => needAdjust p.1)).Perm ((initAll ns₂).filter (fun p => needAdjust p.1)) :=
    hinit.filter _
  have hrest : ((initAll ns₁).filter (fun p => !needAdjust p.1)).Perm ((initAll ns₂).filter (fun p => !needAdjust p.1)) :=
    hinit.filter _
  have hadjnd : PairNamesNodup ((initAll ns₁).filter (fun p => needAdjust p.1)) := by
    apply pairNames_sublist List.filter_sublist
    unfold PairNamesNodup
    have : (initAll ns₁).map (·.1) = ns₁ := by
      unfold initAll; rw [List.map_map]; simp [Function.comp_def]
    rw [this]; exact hnd
  rw [← hsum]
  by_cases hp : total - runtimeSum (initAll ns₁) > 0
  · rw [if_pos hp, if_pos hp]
    have hlen := hadj.length_eq
    have hw := weightSum_perm hadj
    rw [← hlen, ← hw]
    have := iter_perm ((initAll ns₁).filter (fun p => needAdjust p.1)).length (total - runtimeSum (initAll ns₁))
      (weightSum ((initAll ns₁).filter (fun p => needAdjust p.1))) hadj hadjnd
    exact ⟨hrest.append this.1, this.2⟩
  · rw [if_neg hp, if_neg hp]
    exact ⟨hrest.append hadj, rfl⟩

end KoordVerif.C02
