import KoordVerif.Proofs.C02Iter
/-
Iteration-order independence of the redistribution (DESIGN.md Appendix A.3):
Go iterates `map[string]*quotaNode`, i.e. the sibling list arrives in an arbitrary order.
-/
namespace KoordVerif.C02

/-! ### the sort key (remainder desc, name asc) without the slice index -/

abbrev Key := Int × Nat

def keyOf (e : Entry) : Key := (e.rem, e.name)

def keyLt (a b : Key) : Bool := if a.1 ≠ b.1 then a.1 > b.1 else a.2 < b.2

def keyLe (a b : Key) : Bool := !keyLt b a

theorem entryLe_eq (a b : Entry) : entryLe a b = keyLe (keyOf a) (keyOf b) := by
  unfold entryLe entryLt keyLe keyLt keyOf; rfl

theorem keyLe_iff (a b : Key) : keyLe a b = true ↔ (a.1 > b.1 ∨ (a.1 = b.1 ∧ a.2 ≤ b.2)) := by
  unfold keyLe keyLt
  by_cases h : b.1 = a.1
  · simp [h] <;> omega
  · simp [h] <;> omega

theorem keyLe_total (a b : Key) : (keyLe a b || keyLe b a) = true := by
  rw [Bool.or_eq_true, keyLe_iff, keyLe_iff]; omega

theorem keyLe_trans (a b c : Key) (h1 : keyLe a b = true) (h2 : keyLe b c = true) : keyLe a c = true := by
  rw [keyLe_iff] at *; omega

theorem keyLe_antisymm (a b : Key) (h1 : keyLe a b = true) (h2 : keyLe b a = true) : a = b := by
  rw [keyLe_iff] at *
  have h3 : a.1 = b.1 := by omega
  have h4 : a.2 = b.2 := by omega
  exact Prod.ext h3 h4

/-! ### entries, characterised without indices -/

def nodeKey (T W : Int) (n : Node) : Key := (remOf T W n, n.name)

def posW (n : Node) : Bool := !(decide (n.weight ≤ 0))

theorem entriesFrom_map_key (T W : Int) (i : Nat) (ns : List Node) :
    (entriesFrom T W i ns).map keyOf = (ns.filter posW).map (nodeKey T W) := by
  induction ns generalizing i with
  | nil => simp [entriesFrom]
  | cons n ns ih =>
    unfold entriesFrom
    by_cases hw : n.weight ≤ 0
    · rw [if_pos hw]; simp [List.filter_cons, posW, hw, ih]
    · rw [if_neg hw]; simp [List.filter_cons, posW, hw, ih, keyOf, nodeKey]

theorem entriesFrom_char (T W : Int) (i : Nat) (ns : List Node) :
    ∀ e ∈ entriesFrom T W i ns, ∃ k, ∃ (hk : k < ns.length),
      e.index = i + k ∧ 0 < ns[k].weight ∧ keyOf e = nodeKey T W ns[k] := by
  induction ns generalizing i with
  | nil => intro e he; simp [entriesFrom] at he
  | cons n ns ih =>
    intro e he
    unfold entriesFrom at he
    by_cases hw : n.weight ≤ 0
    · rw [if_pos hw] at he
      obtain ⟨k, hk, h1, h2, h3⟩ := ih (i + 1) e he
      exact ⟨k + 1, by simp; omega, by omega, by simpa using h2, by simpa using h3⟩
    · rw [if_neg hw] at he
      rcases List.mem_cons.mp he with rfl | he
      · exact ⟨0, by simp, by simp, by simp; omega, by simp [keyOf, nodeKey]⟩
      · obtain ⟨k, hk, h1, h2, h3⟩ := ih (i + 1) e he
        exact ⟨k + 1, by simp; omega, by omega, by simpa using h2, by simpa using h3⟩

theorem entriesFrom_complete (T W : Int) (i : Nat) (ns : List Node) (k : Nat) (hk : k < ns.length)
    (hw : 0 < ns[k].weight) :
    ({ index := i + k, rem := remOf T W ns[k], name := ns[k].name } : Entry) ∈ entriesFrom T W i ns := by
  induction ns generalizing i k with
  | nil => simp at hk
  | cons n ns ih =>
    unfold entriesFrom
    cases k with
    | zero =>
      have : ¬ n.weight ≤ 0 := by simp at hw; omega
      rw [if_neg this]; simp
    | succ k =>
      have hk' : k < ns.length := by simp at hk; omega
      have hw' : 0 < ns[k].weight := by simpa using hw
      have := ih (i + 1) k hk' hw'
      have hidx : i + 1 + k = i + (k + 1) := by omega
      rw [hidx] at this
      by_cases hn : n.weight ≤ 0
      · rw [if_pos hn]; simpa using this
      · rw [if_neg hn]; exact List.mem_cons_of_mem _ (by simpa using this)

/-! ### permutation-invariant ingredients -/

theorem perm_sum_int {l₁ l₂ : List Int} (h : l₁.Perm l₂) : l₁.sum = l₂.sum := by
  induction h with
  | nil => rfl
  | cons a _ ih => simp [ih]
  | swap a b l => simp; omega
  | trans _ _ ih1 ih2 => omega

def sortedKeys (T W : Int) (ns : List Node) : List Key :=
  ((ns.filter posW).map (nodeKey T W)).mergeSort keyLe

theorem sortedKeys_perm (T W : Int) {ns₁ ns₂ : List Node} (h : ns₁.Perm ns₂) :
    sortedKeys T W ns₁ = sortedKeys T W ns₂ := by
  unfold sortedKeys
  apply List.Perm.eq_of_pairwise (le := fun a b => keyLe a b = true)
  · intro a b _ _ h1 h2; exact keyLe_antisymm a b h1 h2
  · exact List.pairwise_mergeSort keyLe_trans keyLe_total _
  · exact List.pairwise_mergeSort keyLe_trans keyLe_total _
  · have hp : ((ns₁.filter posW).map (nodeKey T W)).Perm ((ns₂.filter posW).map (nodeKey T W)) :=
      (h.filter posW).map _
    exact (List.mergeSort_perm _ _).trans (hp.trans (List.mergeSort_perm _ _).symm)

theorem sorted_entries_keys (T W : Int) (ns : List Node) :
    ((entriesFrom T W 0 ns).mergeSort entryLe).map keyOf = sortedKeys T W ns := by
  unfold sortedKeys
  rw [← entriesFrom_map_key T W 0 ns]
  exact List.map_mergeSort (fun a _ b _ => entryLe_eq a b)

end KoordVerif.C02
