import KoordVerif.Proofs.C02Hamilton
/-
Helper lemmas for iterationForRedistribution / redistribution (DESIGN.md Appendix A.2).
-/
namespace KoordVerif.C02

/-! ### addDeltas -/

theorem addDeltas_length (ns : List (Node × Int)) (ds : List Int) (h : ds.length = ns.length) :
    (addDeltas ns ds).length = ns.length := by
  induction ns generalizing ds with
  | nil => cases ds <;> simp [addDeltas]
  | cons p ps ih =>
    cases ds with
    | nil => simp at h
    | cons d ds => simp [addDeltas, ih ds (by simpa using h)]

theorem addDeltas_sum (ns : List (Node × Int)) (ds : List Int) (h : ds.length = ns.length) :
    runtimeSum (addDeltas ns ds) = runtimeSum ns + ds.sum := by
  induction ns generalizing ds with
  | nil => cases ds <;> simp [addDeltas, runtimeSum] at *
  | cons p ps ih =>
    cases ds with
    | nil => simp at h
    | cons d ds =>
      have := ih ds (by simpa using h)
      simp only [addDeltas, runtimeSum, List.map_cons, List.sum_cons] at *
      omega

theorem addDeltas_nodes (ns : List (Node × Int)) (ds : List Int) (h : ds.length = ns.length) :
    (addDeltas ns ds).map (·.1) = ns.map (·.1) := by
  induction ns generalizing ds with
  | nil => cases ds <;> simp [addDeltas]
  | cons p ps ih =>
    cases ds with
    | nil => simp at h
    | cons d ds => simp [addDeltas, ih ds (by simpa using h)]

theorem mem_addDeltas (ns : List (Node × Int)) (ds : List Int) (q : Node × Int) (h : q ∈ addDeltas ns ds) :
    ∃ p ∈ ns, ∃ d ∈ ds, q = (p.1, p.2 + d) := by
  induction ns generalizing ds with
  | nil => cases ds <;> simp [addDeltas] at h
  | cons p ps ih =>
    cases ds with
    | nil => simp [addDeltas] at h
    | cons d ds =>
      simp only [addDeltas, List.mem_cons] at h
      rcases h with rfl | h
      · exact ⟨p, by simp, d, by simp, rfl⟩
      · obtain ⟨p', hp', d', hd', rfl⟩ := ih ds h
        exact ⟨p', by simp [hp'], d', by simp [hd'], rfl⟩

/-! ### still / capped partition -/

theorem still_capped_sum (l : List (Node × Int)) :
    runtimeSum (stillOf l) + runtimeSum (cappedOf l) = runtimeSum l := by
  induction l with
  | nil => simp [stillOf, cappedOf, runtimeSum]
  | cons p l ih =>
    unfold stillOf cappedOf runtimeSum at *
    by_cases h : p.2 < p.1.request
    · simp [List.filter_cons, h]; omega
    · simp [List.filter_cons, h]; omega

theorem still_capped_perm (l : List (Node × Int)) : (cappedOf l ++ stillOf l).Perm l := by
  unfold cappedOf stillOf
  have h := List.filter_append_perm (fun p : Node × Int => !(decide (p.2 < p.1.request))) l
  simpa using h

theorem done_sum (l : List (Node × Int)) :
    runtimeSum ((cappedOf l).map (fun p => (p.1, p.1.request))) + surplusOf l = runtimeSum (cappedOf l) := by
  unfold surplusOf runtimeSum
  generalize cappedOf l = c
  induction c with
  | nil => simp
  | cons p c ih => simp only [List.map_cons, List.sum_cons] at *; omega

theorem surplus_nonneg (l : List (Node × Int)) : 0 ≤ surplusOf l := by
  unfold surplusOf cappedOf
  induction l with
  | nil => simp
  | cons p l ih =>
    by_cases h : p.2 < p.1.request
    · simpa [List.filter_cons, h] using ih
    · simp only [List.filter_cons, h, decide_false, Bool.not_false, if_true, List.map_cons, List.sum_cons]
      omega

theorem capped_ne_nil_of_surplus_pos (l : List (Node × Int)) (h : 0 < surplusOf l) : cappedOf l ≠ [] := by
  intro hc; unfold surplusOf at h; rw [hc] at h; simp at h

theorem still_length_lt (l : List (Node × Int)) (h : 0 < surplusOf l) : (stillOf l).length < l.length := by
  have hp := (still_capped_perm l).length_eq
  have hc := capped_ne_nil_of_surplus_pos l h
  have : 0 < (cappedOf l).length := List.length_pos_iff.mpr hc
  simp at hp; omega

theorem weightSum_eq (ns : List (Node × Int)) : weightSum ns = ((ns.map (·.1)).map (·.weight)).sum := by
  unfold weightSum; rw [List.map_map]; rfl

theorem mem_still (l : List (Node × Int)) (p : Node × Int) (h : p ∈ stillOf l) : p ∈ l ∧ p.2 < p.1.request := by
  unfold stillOf at h; simpa using h

theorem mem_capped (l : List (Node × Int)) (p : Node × Int) (h : p ∈ cappedOf l) : p ∈ l ∧ p.1.request ≤ p.2 := by
  unfold cappedOf at h
  have := List.mem_filter.mp h
  refine ⟨this.1, ?_⟩
  have h2 := this.2
  simp at h2; exact h2

/-- the node of a pair after `addDeltas` is the node of some pair before. -/
theorem node_of_mem_addDeltas (ns : List (Node × Int)) (ds : List Int) (q : Node × Int) (h : q ∈ addDeltas ns ds) :
    ∃ p ∈ ns, p.1 = q.1 := by
  obtain ⟨p, hp, d, _, rfl⟩ := mem_addDeltas ns ds q h
  exact ⟨p, hp, rfl⟩

/-! ### one round: shape after adding the deltas -/

theorem round_len (T W : Int) (ns : List (Node × Int)) :
    (hamilton T W (ns.map (·.1))).length = ns.length := by
  rw [hamilton_length]; simp

/-! ### conservation: Σ runtime + leftover = Σ runtime before + T -/

theorem iter_conserve (fuel : Nat) (T W : Int) (ns : List (Node × Int))
    (hw : ∀ p ∈ ns, 0 ≤ p.1.weight) (hW : weightSum ns = W) :
    runtimeSum (iter fuel T W ns).1 + (iter fuel T W ns).2 = runtimeSum ns + T := by
  induction fuel generalizing T W ns with
  | zero => simp [iter]
  | succ fuel ih =>
    unfold iter
    split
    · rfl
    · rename_i hc
      have hT : 0 < T := by omega
      have hWp : 0 < W := by omega
      simp only []
      have hlen := round_len T W ns
      have hsumd : (hamilton T W (ns.map (·.1))).sum = T := by
        apply hamilton_sum T W hT hWp
        · intro n hn
          obtain ⟨p, hp, rfl⟩ := List.mem_map.mp hn
          exact hw p hp
        · rw [← hW, weightSum_eq]
      have hadd := addDeltas_sum ns _ hlen
      rw [hsumd] at hadd
      have hnodes : ∀ q ∈ addDeltas ns (hamilton T W (ns.map (·.1))), 0 ≤ q.1.weight := by
        intro q hq
        obtain ⟨p, hp, hpq⟩ := node_of_mem_addDeltas ns _ q hq
        rw [← hpq]; exact hw p hp
      generalize addDeltas ns (hamilton T W (ns.map (·.1))) = ns' at *
      have hpart := still_capped_sum ns'
      have hdone := done_sum ns'
      split
      · -- recurse on the still-unsatisfied nodes
        have hstillw : ∀ p ∈ stillOf ns', 0 ≤ p.1.weight := fun p hp => hnodes p (mem_still ns' p hp).1
        have := ih (surplusOf ns') (weightSum (stillOf ns')) (stillOf ns') hstillw rfl
        simp only [runtimeSum, List.map_append, List.sum_append] at *
        omega
      · simp only [runtimeSum, List.map_append, List.sum_append] at *
        omega

end KoordVerif.C02

namespace KoordVerif.C02

/-- no sibling is lost or duplicated by the iteration. -/
theorem iter_nodes_perm (fuel : Nat) (T W : Int) (ns : List (Node × Int)) :
    ((iter fuel T W ns).1.map (·.1)).Perm (ns.map (·.1)) := by
  induction fuel generalizing T W ns with
  | zero => simp [iter]
  | succ fuel ih =>
    unfold iter
    split
    · exact List.Perm.refl _
    · simp only []
      have hlen := round_len T W ns
      have hn := addDeltas_nodes ns _ hlen
      generalize addDeltas ns (hamilton T W (ns.map (·.1))) = ns' at *
      have hp := (still_capped_perm ns').map (·.1)
      rw [hn] at hp
      have hdone : ((cappedOf ns').map (fun p => (p.1, p.1.request))).map (·.1) = (cappedOf ns').map (·.1) := by
        rw [List.map_map]; rfl
      split
      · have := ih (surplusOf ns') (weightSum (stillOf ns')) (stillOf ns')
        simp only [List.map_append, hdone]
        refine List.Perm.trans ?_ hp
        simp only [List.map_append]
        exact List.Perm.append_left _ this
      · simp only [List.map_append, hdone]
        simpa using hp

/-- the leftover is never negative when a positive amount is handed in. -/
theorem iter_leftover_nonneg (fuel : Nat) (T W : Int) (ns : List (Node × Int)) (hT : 0 ≤ T) :
    0 ≤ (iter fuel T W ns).2 := by
  induction fuel generalizing T W ns with
  | zero => simpa [iter]
  | succ fuel ih =>
    unfold iter
    split
    · exact hT
    · simp only []
      split
      · exact ih _ _ _ (surplus_nonneg _)
      · exact surplus_nonneg _

/-- runtime stays within [min', request] for the nodes taking part in the sharing. -/
theorem iter_bounds (fuel : Nat) (T W : Int) (ns : List (Node × Int))
    (hinv : ∀ p ∈ ns, effMin p.1 ≤ p.2 ∧ p.2 < p.1.request) :
    ∀ q ∈ (iter fuel T W ns).1, effMin q.1 ≤ q.2 ∧ q.2 ≤ q.1.request := by
  induction fuel generalizing T W ns with
  | zero => intro q hq; simp [iter] at hq; have := hinv q hq; omega
  | succ fuel ih =>
    unfold iter
    split
    · intro q hq; have := hinv q hq; omega
    · simp only []
      have hinv' : ∀ q ∈ addDeltas ns (hamilton T W (ns.map (·.1))), effMin q.1 ≤ q.2 ∧ effMin q.1 < q.1.request := by
        intro q hq
        obtain ⟨p, hp, d, hd, rfl⟩ := mem_addDeltas ns _ q hq
        have := hinv p hp
        have := hamilton_nonneg T W _ d hd
        simp; omega
      generalize addDeltas ns (hamilton T W (ns.map (·.1))) = ns' at *
      have hstill : ∀ p ∈ stillOf ns', effMin p.1 ≤ p.2 ∧ p.2 < p.1.request := by
        intro p hp
        have h1 := mem_still ns' p hp
        have := hinv' p h1.1
        omega
      have hdone : ∀ q ∈ (cappedOf ns').map (fun p => (p.1, p.1.request)), effMin q.1 ≤ q.2 ∧ q.2 ≤ q.1.request := by
        intro q hq
        obtain ⟨p, hp, rfl⟩ := List.mem_map.mp hq
        have := hinv' p (mem_capped ns' p hp).1
        simp; omega
      split
      · intro q hq
        rcases List.mem_append.mp hq with h | h
        · exact hdone q h
        · exact ih _ _ _ hstill q h
      · intro q hq
        rcases List.mem_append.mp hq with h | h
        · exact hdone q h
        · have := hstill q h; omega

theorem weightSum_nonpos_all_zero (ns : List (Node × Int)) (hw : ∀ p ∈ ns, 0 ≤ p.1.weight)
    (h : weightSum ns ≤ 0) : ∀ p ∈ ns, p.1.weight = 0 := by
  induction ns with
  | nil => intro p hp; cases hp
  | cons a l ih =>
    intro p hp
    have ha := hw a (by simp)
    have hl : 0 ≤ weightSum l := by
      clear ih h hp
      induction l with
      | nil => simp [weightSum]
      | cons b l ih2 =>
        have := hw b (by simp)
        have := ih2 (fun x hx => hw x (by
          rcases List.mem_cons.mp hx with rfl | hx'
          · simp
          · simp [hx']))
        simp only [weightSum, List.map_cons, List.sum_cons] at *
        omega
    simp only [weightSum, List.map_cons, List.sum_cons] at h hl
    rcases List.mem_cons.mp hp with rfl | hp'
    · omega
    · exact ih (fun x hx => hw x (by simp [hx])) (by simp only [weightSum]; omega) p hp'

/-- work conservation: when the iteration ends with something left over, every sibling with a
    positive weight has reached its request. -/
theorem iter_work_conserving (fuel : Nat) (T W : Int) (ns : List (Node × Int))
    (hfuel : ns.length ≤ fuel) (hw : ∀ p ∈ ns, 0 ≤ p.1.weight) (hW : weightSum ns = W) :
    (iter fuel T W ns).2 ≤ 0 ∨ ∀ q ∈ (iter fuel T W ns).1, 0 < q.1.weight → q.2 = q.1.request := by
  induction fuel generalizing T W ns with
  | zero =>
    right
    have : ns = [] := List.length_eq_zero_iff.mp (by omega)
    subst this; intro q hq; simp [iter] at hq
  | succ fuel ih =>
    unfold iter
    split
    · rename_i hc
      rcases hc with hc | hc | hc
      · right
        intro q hq hq0
        have := weightSum_nonpos_all_zero ns hw (by omega) q hq
        omega
      · left; exact hc
      · right; subst hc; intro q hq; cases hq
    · simp only []
      have hlen := round_len T W ns
      have hnodes : ∀ q ∈ addDeltas ns (hamilton T W (ns.map (·.1))), 0 ≤ q.1.weight := by
        intro q hq
        obtain ⟨p, hp, hpq⟩ := node_of_mem_addDeltas ns _ q hq
        rw [← hpq]; exact hw p hp
      have hl := addDeltas_length ns _ hlen
      generalize addDeltas ns (hamilton T W (ns.map (·.1))) = ns' at *
      have hdone : ∀ q ∈ (cappedOf ns').map (fun p => (p.1, p.1.request)), q.2 = q.1.request := by
        intro q hq
        obtain ⟨p, _, rfl⟩ := List.mem_map.mp hq
        rfl
      split
      · rename_i hs
        have hlt := still_length_lt ns' hs.1
        have := ih (surplusOf ns') (weightSum (stillOf ns')) (stillOf ns') (by omega)
          (fun p hp => hnodes p (mem_still ns' p hp).1) rfl
        rcases this with h | h
        · left; exact h
        · right
          intro q hq hq0
          rcases List.mem_append.mp hq with h' | h'
          · exact hdone q h'
          · exact h q h' hq0
      · rename_i hs
        by_cases h0 : surplusOf ns' > 0
        · right
          have hst : stillOf ns' = [] := by
            by_cases h : stillOf ns' = []
            · exact h
            · exact absurd ⟨h0, h⟩ hs
          intro q hq _
          rw [hst] at hq
          simp only [List.append_nil] at hq
          exact hdone q hq
        · left; simp only []; omega

end KoordVerif.C02
