import KoordVerif.Proofs.C01View
/-
C01: the shared tails `addPodTo` / `removePodFrom`, and OnPodAdd / OnPodDelete.
-/
namespace KoordVerif.C01

theorem assignedIn_eq {s : State} {n : Nat} {q : Quota} (hq : get? s n = some q) (hnd : (q.pods.map (·.id)).Nodup)
    (i : Nat) : assignedIn s n i = (match getPod q.pods i with | some e => e.assigned | none => false) := by
  simp only [assignedIn, hq]; exact podAssigned_eq q i hnd

theorem addPodTo_good {s : State} {n : Nat} {p : PodObj} {q : Quota} (h : Good s) (hp : 0 ≤ p.req)
    (hq : get? s n = some q) (hmax : q.max.isSome = true) (hne : getPod q.pods p.id = none) :
    Good (addPodTo s n p) := by
  have hm : Mid s n 0 0 0 0 := mid_switch h
  obtain ⟨heq, h1⟩ := cacheAdd_mid p hm hq hne hp
  have hq1 : get? (cacheAdd s n p) n = some { q with pods := newEntry p :: q.pods } := by
    rw [heq]; exact get?_setq hq rfl
  obtain ⟨_, _, sr1, sr2⟩ := self_nonneg_req hm hq
  have h2 := updPodReq_mid none (some p) h1 hq1 (by simpa using hmax)
    (by simp only [reqOf, npOf]; constructor <;> (try split) <;> simp <;> omega)
  have hg2 : Good (updPodReq (cacheAdd s n p) n none (some p)) := by
    apply mid_switch (n := n)
    exact mid_cast h2 (by simp [reqOf]) (by simp [npOf]) rfl rfl
  obtain ⟨q2, hq2, hpods2, hmax2, _, _⟩ := updPodReq_view n none (some p) hq1
  have he2 : getPod q2.pods p.id = some (newEntry p) := by
    rw [hpods2]; simp [getPod, newEntry]
  have hnd2 := hg2.pods q2 (get?_mem hq2)
  have hasg : assignedIn (updPodReq (cacheAdd s n p) n none (some p)) n p.id = false := by
    rw [assignedIn_eq hq2 hnd2, he2]; rfl
  simp only [addPodTo, hasg]
  split
  · exact assign_good hg2 hp hq2 (by rw [hmax2]; simpa using hmax) he2 rfl rfl rfl
  · exact hg2

theorem removePodFrom_good {s : State} {n : Nat} {p : PodObj} {q : Quota} {e : Pod} (h : Good s) (hp : 0 ≤ p.req)
    (hq : get? s n = some q) (hmax : q.max.isSome = true) (he : getPod q.pods p.id = some e)
    (hreq : e.req = p.req) (hnp : e.np = p.np) (usedFirst : Bool) :
    Good (removePodFrom s n p usedFirst) := by
  have hm : Mid s n 0 0 0 0 := mid_switch h
  have hnd := hm.pods q (get?_mem hq)
  have hpn := (hm.params q (get?_mem hq)).2
  have hmem := (getPod_some he).1
  obtain ⟨er1, er2, _, _⟩ := self_nonneg_req hm hq
  obtain ⟨eu1, eu2, _, _⟩ := self_nonneg_used hm hq
  have g1 := podSum_ge_w (fun _ => true) hpn hmem
  have g2 := podSum_ge_w (fun p => p.np) hpn hmem
  have g3 := podSum_ge_w (fun p => p.assigned) hpn hmem
  have g4 := podSum_ge_w (fun p => p.assigned && p.np) hpn hmem
  have hasgIn : assignedIn s n p.id = e.assigned := by rw [assignedIn_eq hq hnd, he]
  have hselfR : 0 ≤ q.selfRequest + (reqOf none - reqOf (some p)) ∧ 0 ≤ q.selfNpRequest + (npOf none - npOf (some p)) := by
    simp only [w, if_true, hreq, hnp] at g1 g2
    simp only [reqOf, npOf]; constructor
    · omega
    · split <;> simp_all <;> omega
  cases hasg : e.assigned with
  | false =>
    -- only the request is released
    have h1 := updPodReq_mid (some p) none hm hq hmax hselfR
    obtain ⟨q1, hq1, hpods1, _, _, _⟩ := updPodReq_view n (some p) none hq
    have hrem := (cacheRemove_mid h1 hq1 (by rw [hpods1]; exact he)).2
    have : removePodFrom s n p usedFirst = cacheRemove (updPodReq s n (some p) none) n p.id := by
      simp only [removePodFrom, hasgIn, hasg]; cases usedFirst <;> simp
    rw [this]
    apply mid_switch (n := n)
    refine mid_cast hrem ?_ ?_ ?_ ?_
    · simp [reqOf, hreq]
    · simp only [npOf, w, hnp, hreq]; split <;> simp
    · simp [w, hasg]
    · simp [w, hasg]
  | true =>
    have hpa : podAssigned q p.id = true := by rw [podAssigned_eq _ _ hnd, he]; exact hasg
    have hselfU : 0 ≤ q.selfUsed + (reqOf none - reqOf (some p)) ∧ 0 ≤ q.selfNpUsed + (npOf none - npOf (some p)) := by
      simp only [w, hasg, if_true, Bool.true_and, hreq, hnp] at g3 g4
      simp only [reqOf, npOf]; constructor
      · omega
      · split <;> simp_all <;> omega
    cases usedFirst with
    | false =>
      have h1 := updPodReq_mid (some p) none hm hq hmax hselfR
      obtain ⟨q1, hq1, hpods1, hmax1, hsu1, hsnu1⟩ := updPodReq_view n (some p) none hq
      have hpa1 : podAssigned q1 p.id = true := by
        rw [podAssigned_eq _ _ (by rw [hpods1]; exact hnd), hpods1, he]; exact hasg
      have h2 := updPodUsed_mid (id := p.id) (some p) none h1 hq1 (by rw [hmax1]; exact hmax) (by simp [hpa1])
        (by rw [hsu1, hsnu1]; exact hselfU)
      obtain ⟨q2, hq2, hpods2, _, _, _⟩ := updPodUsed_view n p.id (some p) none hq1
      have hrem := (cacheRemove_mid h2 hq2 (by rw [hpods2, hpods1]; exact he)).2
      have : removePodFrom s n p false =
          cacheRemove (updPodUsed (updPodReq s n (some p) none) n p.id (some p) none) n p.id := by
        simp [removePodFrom, hasgIn, hasg]
      rw [this]
      apply mid_switch (n := n)
      refine mid_cast hrem ?_ ?_ ?_ ?_
      · simp [reqOf, hreq]
      · simp only [npOf, w, hnp, hreq]; split <;> simp
      · simp [w, hasg, reqOf, hreq]
      · simp only [npOf, w, hasg, hnp, hreq]; split <;> simp_all
    | true =>
      have h1 := updPodUsed_mid (id := p.id) (some p) none hm hq hmax (by simp [hpa]) hselfU
      obtain ⟨q1, hq1, hpods1, hmax1, hsr1, hsnr1⟩ := updPodUsed_view n p.id (some p) none hq
      have h2 := updPodReq_mid (some p) none h1 hq1 (by rw [hmax1]; exact hmax) (by rw [hsr1, hsnr1]; exact hselfR)
      obtain ⟨q2, hq2, hpods2, _, _, _⟩ := updPodReq_view n (some p) none hq1
      have hrem := (cacheRemove_mid h2 hq2 (by rw [hpods2, hpods1]; exact he)).2
      have : removePodFrom s n p true =
          cacheRemove (updPodReq (updPodUsed s n p.id (some p) none) n (some p) none) n p.id := by
        simp [removePodFrom, hasgIn, hasg]
      rw [this]
      apply mid_switch (n := n)
      refine mid_cast hrem ?_ ?_ ?_ ?_
      · simp [reqOf, hreq]
      · simp only [npOf, w, hnp, hreq]; split <;> simp
      · simp [w, hasg, reqOf, hreq]
      · simp only [npOf, w, hasg, hnp, hreq]; split <;> simp_all

/-- preconditions shared by the pod handlers for the quota `n` they touch and the pod object `p` they read -/
structure PodPre (s : State) (n : Nat) (p : PodObj) : Prop where
  nonneg : 0 ≤ p.req
  quota : ∀ q, get? s n = some q → q.max.isSome = true ∧ Consistent q p

theorem onPodAdd_good {s : State} {n : Nat} {p : PodObj} (h : Good s) (hpre : PodPre s n p) : Good (onPodAdd s n p) := by
  unfold onPodAdd
  split
  · exact h
  · cases hq : get? s n with
    | none => exact h
    | some q =>
      simp only [podExists_eq]
      cases he : getPod q.pods p.id with
      | some e => simpa using h
      | none => simpa using addPodTo_good h hpre.nonneg hq (hpre.quota q hq).1 he

theorem findPod_eq_getPod (ps : List Pod) (i : Nat) : findPod ps i = getPod ps i := by
  induction ps with
  | nil => rfl
  | cons p t ih => simp [findPod, getPod, ih]

theorem cachedObj_id (s : State) (n : Nat) (p : PodObj) : (cachedObj s n p).id = p.id := by
  unfold cachedObj
  cases get? s n with
  | none => rfl
  | some q =>
    simp only
    cases findPod q.pods p.id <;> rfl

/-- OnPodDelete gives back the cached amounts, so it needs NO informer consistency: only that the group declares
the dimension -/
theorem onPodDelete_good' {s : State} {n : Nat} {p : PodObj} (h : Good s)
    (hmax : ∀ q, get? s n = some q → q.max.isSome = true) : Good (onPodDelete s n p) := by
  unfold onPodDelete existsIn
  cases hq : get? s n with
  | none => simpa using h
  | some q =>
    simp only [podExists_eq]
    cases he : getPod q.pods p.id with
    | none => simpa using h
    | some e =>
      have hc : cachedObj s n p = { p with req := e.req, np := e.np } := by
        simp [cachedObj, hq, findPod_eq_getPod, he]
      have hnn : 0 ≤ e.req := (h.params q (get?_mem hq)).2 e (getPod_some he).1
      simp only [Option.isSome_some, if_true, hc]
      exact removePodFrom_good (p := { p with req := e.req, np := e.np }) h hnn hq (hmax q hq) he rfl rfl false

theorem onPodDelete_good {s : State} {n : Nat} {p : PodObj} (h : Good s) (hpre : PodPre s n p) :
    Good (onPodDelete s n p) :=
  onPodDelete_good' h (fun q hq => (hpre.quota q hq).1)

end KoordVerif.C01
