import KoordVerif.Proofs.C16ExtArb
/-
C16 extension 2 — `round_inv` with the exempt admissions counted PER DIMENSION: an exempt admission (pod gone /
unresolvable, or pod carrying the evict annotation) is charged only to the namespace of its PodRef, to the node of the
pod it refers to and to that pod's workload; an exempt admission elsewhere does not move the counter at all.
-/
namespace KoordVerif.C16

/-- the exempt admission of iteration `jid` on `st` lies in namespace `k` -/
def exNs (cfg : ArbCfg) (uf : List Nat) (k : Nat) (st : ArbSt) (jid : Nat) : Bool :=
  exemptAdm cfg uf st jid && (match findJob st jid with | some j => j.ns == k | none => false)

/-- … refers (by UID or by namespace/name) to a pod on node `n` -/
def exNode (cfg : ArbCfg) (uf : List Nat) (n : Nat) (st : ArbSt) (jid : Nat) : Bool :=
  exemptAdm cfg uf st jid &&
    (match findJob st jid with | some j => st.pods.any fun v => jmatch j v && v.node == n | none => false)

/-- … names (by namespace/name, in namespace `k`) a pod of workload `wl` -/
def exWl (cfg : ArbCfg) (uf : List Nat) (wl k : Nat) (st : ArbSt) (jid : Nat) : Bool :=
  exemptAdm cfg uf st jid &&
    (match findJob st jid with | some j => j.ns == k && st.pods.any fun q => q.id == j.pod && q.wl == wl | none => false)

/-- number of iterations of a round for which `ex` holds -/
def roundEx (ex : ArbSt → Nat → Bool) (cfg : ArbCfg) (uf : List Nat) : ArbSt → List Nat → Nat
  | _, [] => 0
  | st, jid :: r => (if ex st jid then 1 else 0) + roundEx ex cfg uf (processJob cfg uf st jid).1 r

theorem fold_bound_ex (cfg : ArbCfg) (uf : List Nat) (C : ArbSt → Nat) (L : Nat) (ex : ArbSt → Nat → Bool)
    (hstep : ∀ st jid, WF st →
      C (processJob cfg uf st jid).1 ≤ C st + (if ex st jid then 1 else 0) ∨ C (processJob cfg uf st jid).1 ≤ L)
    (order : List Nat) : ∀ st, WF st → C (round cfg uf st order) ≤ max L (C st) + roundEx ex cfg uf st order := by
  induction order with
  | nil => intro st _; simp only [round, List.foldl_nil, roundEx]; omega
  | cons jid r ih =>
    intro st w
    have h := ih _ (processJob_wf cfg uf st jid w)
    have hs := hstep st jid w
    simp only [round, List.foldl_cons, roundEx] at h ⊢
    rcases hs with hs | hs <;> omega

/-- a per-dimension exempt count never exceeds the round's total -/
theorem roundEx_le (ex : ArbSt → Nat → Bool) (cfg : ArbCfg) (uf : List Nat)
    (h : ∀ st jid, ex st jid = true → exemptAdm cfg uf st jid = true) (order : List Nat) :
    ∀ st, roundEx ex cfg uf st order ≤ roundExempt cfg uf st order := by
  induction order with
  | nil => intro st; simp [roundEx, roundExempt]
  | cons jid r ih =>
    intro st
    have := ih (processJob cfg uf st jid).1
    simp only [roundEx, roundExempt]
    by_cases he : ex st jid = true
    · simp [he, h st jid he]; omega
    · have he' : ex st jid = false := by simpa using he
      simp only [he', Bool.false_eq_true, if_false]
      split <;> omega

/-! ### an admission outside the dimension does not move the counter -/

theorem ns_nomove {st st' : ArbSt} {f : JobA → JobA} {adm : Option JobA} (R : StepRel st st' f adm) (k : Nat)
    (hno : ∀ jj, adm = some jj → jj.ns ≠ k) : cntNs st' k ≤ cntNs st k := by
  simp only [cntNs, R.jobs, List.countP_map]
  apply List.countP_mono_left
  intro j hj h
  simp only [Function.comp, Bool.and_eq_true, (R.keep j).2.1, (R.keep j).2.2.1] at h
  rcases R.live j hj h.1.1 with hl' | hl'
  · simp [hl', h.1.2, h.2]
  · exact absurd (by simpa using h.2) (hno j hl')

theorem node_nomove {st st' : ArbSt} {f : JobA → JobA} {adm : Option JobA} (R : StepRel st st' f adm) (n : Nat)
    (hno : ∀ jj, adm = some jj → ∀ v ∈ st.pods, jmatch jj v = true → v.node ≠ n) : cntNode st' n ≤ cntNode st n := by
  simp only [cntNode, R.pods]
  apply List.countP_mono_left
  intro v hv hq
  simp only [Bool.and_eq_true, beq_iff_eq] at hq
  rcases hasJob_step R v hq.2 with h' | ⟨x, hx, hp⟩
  · simp [hq.1, h']
  · exact absurd hq.1 (hno x hx v hv hp)

theorem migr_nomove {st st' : ArbSt} {f : JobA → JobA} {adm : Option JobA} (R : StepRel st st' f adm) (wl k : Nat)
    (hno : ∀ jj, adm = some jj → ¬ (jj.ns = k ∧ ∃ q ∈ st.pods, q.id = jj.pod ∧ q.wl = wl)) :
    cntMigr st' wl k ≤ cntMigr st wl k := by
  simp only [cntMigr, R.pods]
  apply List.countP_mono_left
  intro v hv hq
  simp only [Bool.and_eq_true, beq_iff_eq] at hq
  rcases hasJobNs_step R k v hq.2 with h' | ⟨x, hx, hp, hxk, _⟩
  · simp [hq.1, h']
  · exact absurd ⟨hxk, v, hv, hp.symm, hq.1⟩ (hno x hx)

theorem unav_nomove {st st' : ArbSt} {f : JobA → JobA} {adm : Option JobA} (R : StepRel st st' f adm) (wl k : Nat)
    (hno : ∀ jj, adm = some jj → ¬ (jj.ns = k ∧ ∃ q ∈ st.pods, q.id = jj.pod ∧ q.wl = wl)) :
    cntUnav st' wl k ≤ cntUnav st wl k := by
  simp only [cntUnav, R.pods]
  apply List.countP_mono_left
  intro v hv hq
  simp only [Bool.and_eq_true, Bool.or_eq_true, beq_iff_eq] at hq ⊢
  refine ⟨hq.1, ?_⟩
  rcases hq.2 with hu | hj
  · exact Or.inl hu
  · rcases hasJobNs_step R k v hj with h' | ⟨x, hx, hp, hxk, _⟩
    · exact Or.inr h'
    · exact absurd ⟨hxk, v, hv, hp.symm, hq.1⟩ (hno x hx)

/-! ### per-dimension step lemmas: in the dimension the old step lemma applies, outside nothing moves -/

theorem step_ns_dim (cfg : ArbCfg) (uf : List Nat) (st : ArbSt) (jid : Nat) (w : WF st) (k : Nat)
    (hs : gateSkipped cfg 4 = false) (hl : 0 < cfg.maxNs) :
    cntNs (processJob cfg uf st jid).1 k ≤ cntNs st k + (if exNs cfg uf k st jid then 1 else 0) ∨
      cntNs (processJob cfg uf st jid).1 k ≤ cfg.maxNs.toNat := by
  obtain ⟨f, adm, R, I⟩ := processJob_rel cfg uf st jid w.jobIds
  cases hadm : adm with
  | none =>
    left
    have := ns_nomove R k (fun jj h => by simp [hadm] at h)
    omega
  | some jj =>
    obtain ⟨hf, _⟩ := I.found jj hadm
    by_cases hd : jj.ns = k
    · rcases step_ns cfg uf st jid w k hs hl with h | h
      · left; simpa [exNs, hf, hd] using h
      · exact Or.inr h
    · left
      have := ns_nomove R k (fun x hx => by rw [hadm] at hx; have : jj = x := by simpa using hx
                                            subst this; exact hd)
      omega

theorem step_node_dim (cfg : ArbCfg) (uf : List Nat) (st : ArbSt) (jid : Nat) (w : WF st) (n : Nat) (hn : n ≠ 0)
    (hs : gateSkipped cfg 3 = false) (hl : 0 < cfg.maxNode) :
    cntNode (processJob cfg uf st jid).1 n ≤ cntNode st n + (if exNode cfg uf n st jid then 1 else 0) ∨
      cntNode (processJob cfg uf st jid).1 n ≤ cfg.maxNode.toNat := by
  obtain ⟨f, adm, R, I⟩ := processJob_rel cfg uf st jid w.jobIds
  cases hadm : adm with
  | none =>
    left
    have := node_nomove R n (fun jj h => by simp [hadm] at h)
    omega
  | some jj =>
    obtain ⟨hf, _⟩ := I.found jj hadm
    by_cases hd : (st.pods.any fun v => jmatch jj v && v.node == n) = true
    · rcases step_node cfg uf st jid w n hn hs hl with h | h
      · left; simpa [exNode, hf, hd] using h
      · exact Or.inr h
    · left
      have := node_nomove R n (fun x hx v hv hm => by
        rw [hadm] at hx; have : jj = x := by simpa using hx
        subst this
        intro e
        exact hd (List.any_eq_true.mpr ⟨v, hv, by simp [hm, e]⟩))
      omega

theorem wl_dim_iff {st : ArbSt} {jj : JobA} {wl k : Nat} :
    (jj.ns == k && st.pods.any fun q => q.id == jj.pod && q.wl == wl) = true ↔
      (jj.ns = k ∧ ∃ q ∈ st.pods, q.id = jj.pod ∧ q.wl = wl) := by
  simp [List.any_eq_true]

theorem step_migr_dim (cfg : ArbCfg) (uf : List Nat) (st : ArbSt) (jid : Nat) (w : WF st) (wl k : Nat) (hw : wl ≠ 0)
    (hs : gateSkipped cfg 2 = false) :
    cntMigr (processJob cfg uf st jid).1 wl k ≤ cntMigr st wl k + (if exWl cfg uf wl k st jid then 1 else 0) ∨
      cntMigr (processJob cfg uf st jid).1 wl k ≤ max (wlLimit cfg wl cfg.mmKind cfg.maxMigr) 1 := by
  obtain ⟨f, adm, R, I⟩ := processJob_rel cfg uf st jid w.jobIds
  cases hadm : adm with
  | none =>
    left
    have := migr_nomove R wl k (fun jj h => by simp [hadm] at h)
    omega
  | some jj =>
    obtain ⟨hf, _⟩ := I.found jj hadm
    by_cases hd : (jj.ns == k && st.pods.any fun q => q.id == jj.pod && q.wl == wl) = true
    · rcases step_migr cfg uf st jid w wl k hw hs with h | h
      · left; simpa [exWl, hf, hd] using h
      · exact Or.inr h
    · left
      have := migr_nomove R wl k (fun x hx => by
        rw [hadm] at hx; have : jj = x := by simpa using hx
        subst this
        exact fun c => hd (wl_dim_iff.mpr c))
      omega

theorem step_unav_dim (cfg : ArbCfg) (uf : List Nat) (st : ArbSt) (jid : Nat) (w : WF st) (wl k : Nat) (hw : wl ≠ 0)
    (hs : gateSkipped cfg 1 = false) :
    cntUnav (processJob cfg uf st jid).1 wl k ≤ cntUnav st wl k + (if exWl cfg uf wl k st jid then 1 else 0) ∨
      cntUnav (processJob cfg uf st jid).1 wl k ≤ wlLimit cfg wl cfg.muKind cfg.maxUnav := by
  obtain ⟨f, adm, R, I⟩ := processJob_rel cfg uf st jid w.jobIds
  cases hadm : adm with
  | none =>
    left
    have := unav_nomove R wl k (fun jj h => by simp [hadm] at h)
    omega
  | some jj =>
    obtain ⟨hf, _⟩ := I.found jj hadm
    by_cases hd : (jj.ns == k && st.pods.any fun q => q.id == jj.pod && q.wl == wl) = true
    · rcases step_unav cfg uf st jid w wl k hw hs with h | h
      · left; simpa [exWl, hf, hd] using h
      · exact Or.inr h
    · left
      have := unav_nomove R wl k (fun x hx => by
        rw [hadm] at hx; have : jj = x := by simpa using hx
        subst this
        exact fun c => hd (wl_dim_iff.mpr c))
      omega

end KoordVerif.C16
