import KoordVerif.Model.C12Parse
/-
C12 — round-trip lemmas for the string layer (Model/C12Parse.lean).
-/
namespace KoordVerif.C12

/-! ### decimal numbers -/

theorem digitVal_digitChar (d : Nat) (h : d < 10) : digitVal? (digitChar d) = some d := by
  have : d = 0 ∨ d = 1 ∨ d = 2 ∨ d = 3 ∨ d = 4 ∨ d = 5 ∨ d = 6 ∨ d = 7 ∨ d = 8 ∨ d = 9 := by omega
  rcases this with h | h | h | h | h | h | h | h | h | h <;> subst h <;> decide

theorem parseDecAux_showDecAux : ∀ (f n : Nat) (acc : List Char), n < f →
    parseDecAux (showDecAux f n acc) 0 = parseDecAux acc n := by
  intro f
  induction f with
  | zero => intro n acc h; omega
  | succ f ih =>
    intro n acc h
    unfold showDecAux
    simp only
    split
    · next h0 =>
      have hn : n % 10 = n := by omega
      have hd := digitVal_digitChar n (by omega)
      rw [hn]
      simp only [parseDecAux, hd]
      simp
    · next h0 =>
      rw [ih (n / 10) _ (by omega)]
      simp only [parseDecAux, digitVal_digitChar (n % 10) (by omega)]
      have : n / 10 * 10 + n % 10 = n := by omega
      rw [this]

theorem showDecAux_nonempty (f n : Nat) (acc : List Char) (hf : 0 < f) : showDecAux f n acc ≠ [] := by
  induction f generalizing n acc with
  | zero => omega
  | succ f ih =>
    unfold showDecAux
    simp only
    split
    · simp
    · by_cases h : f = 0
      · subst h; simp [showDecAux]
      · exact ih _ _ (by omega)

/-- **dec_roundtrip**: reading back a printed number gives the number. -/
theorem dec_roundtrip (n : Nat) : parseDec (showDec n) = some n := by
  unfold parseDec showDec
  rw [if_neg (showDecAux_nonempty _ _ _ (by omega))]
  have := parseDecAux_showDecAux (n + 1) n [] (by omega)
  simpa [parseDecAux] using this

/-- a printed number consists of ASCII digits only. -/
def IsDigit (c : Char) : Prop := ∃ d, d < 10 ∧ c = digitChar d

theorem showDecAux_digits (f n : Nat) (acc : List Char) (hacc : ∀ c ∈ acc, IsDigit c) :
    ∀ c ∈ showDecAux f n acc, IsDigit c := by
  induction f generalizing n acc with
  | zero => simpa [showDecAux] using hacc
  | succ f ih =>
    have h' : ∀ c ∈ digitChar (n % 10) :: acc, IsDigit c := by
      intro c hc
      simp only [List.mem_cons] at hc
      rcases hc with rfl | hc
      · exact ⟨n % 10, by omega, rfl⟩
      · exact hacc c hc
    unfold showDecAux
    simp only
    split
    · exact h'
    · exact ih _ _ h'

theorem showDec_digits (n : Nat) : ∀ c ∈ showDec n, IsDigit c :=
  showDecAux_digits _ _ _ (by simp)

theorem showDec_ne_nil (n : Nat) : showDec n ≠ [] := showDecAux_nonempty _ _ _ (by omega)

theorem isDigit_ne {c : Char} (h : IsDigit c) : c ≠ '-' ∧ c ≠ ',' ∧ c ≠ '+' ∧ c ≠ 'm' := by
  obtain ⟨d, hd, rfl⟩ := h
  have : d = 0 ∨ d = 1 ∨ d = 2 ∨ d = 3 ∨ d = 4 ∨ d = 5 ∨ d = 6 ∨ d = 7 ∨ d = 8 ∨ d = 9 := by omega
  rcases this with h | h | h | h | h | h | h | h | h | h <;> subst h <;> decide

/-- strconv.ParseInt reads back what strconv.Itoa printed (inside the bit size). -/
theorem parseIntGo_showDec (bits n : Nat) (h : n ≤ 2 ^ (bits - 1) - 1) :
    parseIntGo bits (showDec n) = some (n : Int) := by
  have hne := showDec_ne_nil n
  have hd := showDec_digits n
  cases hs : showDec n with
  | nil => exact absurd hs hne
  | cons c r =>
    have hc := isDigit_ne (hd c (by rw [hs]; simp))
    have hp := dec_roundtrip n
    rw [hs] at hp
    unfold parseIntGo
    split
    · next heq => cases heq; exact absurd rfl hc.2.2.1
    · next heq => cases heq; exact absurd rfl hc.1
    · simp [hp, h]

/-! ### limits -/

/-- how a limit value is written: "max" for unlimited, the decimal number otherwise (value ≥ 0). -/
def fmtLim (v : Int) : List Char := if v = -1 then ['m', 'a', 'x'] else showDec v.toNat

theorem parseLimNew_fmtLim (v : Int) (h1 : -1 ≤ v) (h2 : v ≤ maxInt64) :
    parseLimNew (fmtLim v) = some (limKey v) := by
  unfold fmtLim limKey
  by_cases hv : v = -1
  · subst hv; decide
  · simp only [hv, if_false]
    have hne := showDec_ne_nil v.toNat
    have hd := showDec_digits v.toNat
    unfold parseLimNew
    have hnot : ¬ (showDec v.toNat = ['m', 'a', 'x'] ∨ showDec v.toNat = ['-', '1']) := by
      intro h
      cases hs : showDec v.toNat with
      | nil => exact hne hs
      | cons c r =>
        have hc := isDigit_ne (hd c (by rw [hs]; simp))
        rw [hs] at h
        rcases h with h | h
        · have : c = 'm' := (List.cons.inj h).1
          exact hc.2.2.2 this
        · have : c = '-' := (List.cons.inj h).1
          exact hc.1 this
    rw [if_neg hnot, parseIntGo_showDec 64 v.toNat (by unfold maxInt64 at h2; omega)]
    congr 1; omega

/-- **merge_condition_value_larger_sound**: on the strings the kernel shows / koordlet writes for two limits,
    MergeConditionIfValueIsLarger returns the new string and the flag of the value-level model (`limDom.merge`). -/
theorem merge_condition_value_larger_sound (o t : Int) (ho : -1 ≤ o ∧ o ≤ maxInt64) (ht : -1 ≤ t ∧ t ≤ maxInt64) :
    mcValueLarger (fmtLim o) (fmtLim t) = some (fmtLim t, (limDom.merge o t).2) := by
  unfold mcValueLarger
  rw [parseLimNew_fmtLim t ht.1 ht.2, parseLimNew_fmtLim o ho.1 ho.2]
  simp [limDom]

/-- cgroup-v1 cpu.cfs_quota_us shows "-1" for unlimited. -/
def fmtCfsV1 (v : Int) : List Char := if v = -1 then ['-', '1'] else showDec v.toNat

theorem merge_condition_cfs_v1_sound (o t : Int) (ho : -1 ≤ o ∧ o ≤ maxInt64) (ht : -1 ≤ t ∧ t ≤ maxInt64) :
    mcCfsQuota false (fmtCfsV1 o) (fmtLim t) = some (fmtLim t, (limDom.merge o t).2) := by
  unfold mcCfsQuota
  rw [parseLimNew_fmtLim t ht.1 ht.2]
  simp only [Bool.false_eq_true, if_false]
  by_cases hv : o = -1
  · subst hv; simp [fmtCfsV1, limDom, limKey, maxInt64]
  · have hne := showDec_ne_nil o.toNat
    have hd := showDec_digits o.toNat
    have hnot : ¬ (fmtCfsV1 o = ['-', '1']) := by
      simp only [fmtCfsV1, hv, if_false]
      intro h
      cases hs : showDec o.toNat with
      | nil => exact hne hs
      | cons c r =>
        have hc := isDigit_ne (hd c (by rw [hs]; simp))
        rw [hs] at h
        have : c = '-' := (List.cons.inj h).1
        exact hc.1 this
    rw [if_neg hnot]
    simp only [fmtCfsV1, hv, if_false]
    rw [parseIntGo_showDec 64 o.toNat (by have := ho.2; unfold maxInt64 at this; omega)]
    have : ((o.toNat : Nat) : Int) = o := by omega
    simp [limDom, limKey, hv, this]

/-! ### CPU sets -/

theorem rangeMask_testBit (a b j : Nat) :
    (rangeMask a b).testBit j = (decide (a ≤ j) && decide (j ≤ b)) := by
  unfold rangeMask
  rw [Nat.testBit_shiftLeft, Nat.testBit_two_pow_sub_one]
  by_cases h1 : a ≤ j
  · by_cases h2 : j ≤ b
    · have : j - a < b + 1 - a := by omega
      simp [h1, h2, this]
    · have : ¬ (j - a < b + 1 - a) := by omega
      simp [h1, h2, this]
  · simp [h1]

def maskOfRuns : List (Nat × Nat) → Nat
  | [] => 0
  | r :: rs => rangeMask r.1 r.2 ||| maskOfRuns rs

/-- every run (a,b) of the list has lo ≤ a ≤ b < hi. -/
def RunsIn (lo hi : Nat) (rs : List (Nat × Nat)) : Prop := ∀ r ∈ rs, lo ≤ r.1 ∧ r.1 ≤ r.2 ∧ r.2 < hi

theorem runsFrom_spec (m : Nat) : ∀ (n i : Nat),
    RunsIn i (i + n) (runsFrom m i n) ∧
    ∀ j, (maskOfRuns (runsFrom m i n)).testBit j = (decide (i ≤ j ∧ j < i + n) && m.testBit j) := by
  intro n
  induction n with
  | zero =>
    intro i
    refine ⟨by intro r hr; simp [runsFrom] at hr, ?_⟩
    intro j
    have : ¬ (i ≤ j ∧ j < i + 0) := by omega
    simp only [runsFrom, maskOfRuns, Nat.zero_testBit, decide_eq_false this, Bool.false_and]
  | succ n ih =>
    intro i
    obtain ⟨hin, hbit⟩ := ih (i + 1)
    by_cases hb : m.testBit i = true
    · -- bit i set
      cases hr : runsFrom m (i + 1) n with
      | nil =>
        have e : runsFrom m i (n + 1) = [(i, i)] := by simp [runsFrom, hb, hr]
        rw [e]
        refine ⟨by intro r hr'; simp at hr'; subst hr'; exact ⟨Nat.le_refl _, Nat.le_refl _, by omega⟩, ?_⟩
        intro j
        have hj := hbit j
        rw [hr] at hj
        simp only [maskOfRuns, Nat.or_zero, Nat.zero_testBit] at hj ⊢
        rw [rangeMask_testBit]
        by_cases hji : j = i
        · subst hji; simp [hb]
        · have h1 : ¬ (i ≤ j ∧ j ≤ i) := by omega
          have : (decide (i ≤ j) && decide (j ≤ i)) = false := by simp; omega
          rw [this]
          by_cases h2 : i + 1 ≤ j ∧ j < i + 1 + n
          · have h3 : i ≤ j ∧ j < i + (n + 1) := by omega
            simp only [decide_eq_true h2, Bool.true_and] at hj
            simp [h3, ← hj]
          · have h3 : ¬ (i ≤ j ∧ j < i + (n + 1)) := by omega
            simp [h3]
      | cons ab rest =>
        obtain ⟨a, b⟩ := ab
        have hab := hin (a, b) (by rw [hr]; simp)
        simp only at hab
        by_cases ha : a = i + 1
        · have e : runsFrom m i (n + 1) = (i, b) :: rest := by simp [runsFrom, hb, hr, ha]
          rw [e]
          refine ⟨?_, ?_⟩
          · intro r hr'
            simp only [List.mem_cons] at hr'
            rcases hr' with rfl | hr'
            · simp only; omega
            · have := hin r (by rw [hr]; simp [hr']); omega
          · intro j
            have hj := hbit j
            rw [hr] at hj
            simp only [maskOfRuns, Nat.testBit_or, rangeMask_testBit] at hj ⊢
            by_cases hji : j = i
            · subst hji
              have : j ≤ b := by omega
              simp [hb, this]
            · have e1 : (decide (i ≤ j) && decide (j ≤ b)) = (decide (a ≤ j) && decide (j ≤ b)) := by
                subst ha
                have : (i ≤ j) ↔ (i + 1 ≤ j) := by omega
                simp [this]
              rw [e1, hj]
              have : (i + 1 ≤ j ∧ j < i + 1 + n) ↔ (i ≤ j ∧ j < i + (n + 1)) := by omega
              simp [this]
        · have e : runsFrom m i (n + 1) = (i, i) :: (a, b) :: rest := by simp [runsFrom, hb, hr, ha]
          rw [e]
          refine ⟨?_, ?_⟩
          · intro r hr'
            simp only [List.mem_cons] at hr'
            rcases hr' with rfl | hr'
            · simp only; omega
            · have := hin r (by rw [hr]; simpa using hr'); omega
          · intro j
            have hj := hbit j
            rw [hr] at hj
            simp only [maskOfRuns, Nat.testBit_or, rangeMask_testBit] at hj ⊢
            rw [hj]
            by_cases hji : j = i
            · subst hji; simp [hb]
            · have : (decide (i ≤ j) && decide (j ≤ i)) = false := by simp; omega
              rw [this]
              have : (i + 1 ≤ j ∧ j < i + 1 + n) ↔ (i ≤ j ∧ j < i + (n + 1)) := by omega
              simp [this]
    · -- bit i clear
      have hb' : m.testBit i = false := by simpa using hb
      have e : runsFrom m i (n + 1) = runsFrom m (i + 1) n := by simp [runsFrom, hb']
      rw [e]
      refine ⟨?_, ?_⟩
      · intro r hr'; have := hin r hr'; omega
      · intro j
        rw [hbit j]
        by_cases hji : j = i
        · subst hji
          have : ¬ (j + 1 ≤ j ∧ j < j + 1 + n) := by omega
          simp [hb', this]
        · have : (i + 1 ≤ j ∧ j < i + 1 + n) ↔ (i ≤ j ∧ j < i + (n + 1)) := by omega
          simp [this]

theorem maskOfRuns_runsFrom (m w : Nat) (h : m < 2 ^ w) : maskOfRuns (runsFrom m 0 w) = m := by
  apply Nat.eq_of_testBit_eq
  intro j
  rw [(runsFrom_spec m w 0).2 j]
  by_cases hj : j < w
  · simp [hj]
  · have : m.testBit j = false :=
      Nat.testBit_lt_two_pow (Nat.lt_of_lt_of_le h (Nat.pow_le_pow_right (by omega) (by omega)))
    simp [hj, this]

/-! ### splitting -/

theorem splitOn_ne_nil (sep : Char) (l : List Char) : splitOn sep l ≠ [] := by
  induction l with
  | nil => simp [splitOn]
  | cons c cs ih =>
    unfold splitOn
    split
    · simp
    · split
      · simp
      · simp

theorem splitOn_no_sep (sep : Char) (l : List Char) (h : ∀ c ∈ l, c ≠ sep) : splitOn sep l = [l] := by
  induction l with
  | nil => rfl
  | cons c cs ih =>
    have hc : c ≠ sep := h c (by simp)
    have := ih (fun x hx => h x (by simp [hx]))
    simp [splitOn, hc, this]

theorem splitOn_append (sep : Char) (l r : List Char) (h : ∀ c ∈ l, c ≠ sep) :
    splitOn sep (l ++ sep :: r) = l :: splitOn sep r := by
  induction l with
  | nil => simp [splitOn]
  | cons c cs ih =>
    have hc : c ≠ sep := h c (by simp)
    have := ih (fun x hx => h x (by simp [hx]))
    simp [splitOn, hc, this]

theorem showDec_no (n : Nat) (sep : Char) (hs : sep = '-' ∨ sep = ',') : ∀ c ∈ showDec n, c ≠ sep := by
  intro c hc
  have := isDigit_ne (showDec_digits n c hc)
  rcases hs with rfl | rfl
  · exact this.1
  · exact this.2.1

theorem parsePart_fmtRange (a b : Nat) (hab : a ≤ b) (hb : b ≤ 4096) :
    parsePart (fmtRange (a, b)) = some (rangeMask a b) := by
  unfold fmtRange parsePart
  by_cases h : a = b
  · subst h
    simp only [if_true]
    rw [splitOn_no_sep _ _ (showDec_no a '-' (Or.inl rfl))]
    simp only
    rw [parseIntGo_showDec 32 a (by omega)]
    have : ¬ ((a : Int) < 0) := by omega
    simp only [this, if_false, Int.toNat_natCast]
    simp [rangeMask, Nat.shiftLeft_eq]
  · simp only [h, if_false]
    rw [splitOn_append _ _ _ (showDec_no a '-' (Or.inl rfl)), splitOn_no_sep _ _ (showDec_no b '-' (Or.inl rfl))]
    simp only
    rw [parseIntGo_showDec 32 a (by omega), parseIntGo_showDec 32 b (by omega)]
    have h1 : ¬ ((b : Int) > (maxAvailableCPUCount : Int)) := by unfold maxAvailableCPUCount; omega
    have h2 : ¬ ((a : Int) < 0 ∨ (b : Int) < 0) := by omega
    simp only [h1, h2, if_false, Int.toNat_natCast]

theorem fmtRange_no_comma (r : Nat × Nat) : ∀ c ∈ fmtRange r, c ≠ ',' := by
  intro c hc
  unfold fmtRange at hc
  split at hc
  · exact showDec_no _ ',' (Or.inr rfl) c hc
  · simp only [List.mem_append, List.mem_cons] at hc
    rcases hc with hc | rfl | hc
    · exact showDec_no _ ',' (Or.inr rfl) c hc
    · decide
    · exact showDec_no _ ',' (Or.inr rfl) c hc

theorem fmtRange_ne_nil (r : Nat × Nat) : fmtRange r ≠ [] := by
  unfold fmtRange
  split
  · exact showDec_ne_nil _
  · simp

theorem splitOn_joinComma : ∀ (ps : List (List Char)), ps ≠ [] → (∀ p ∈ ps, ∀ c ∈ p, c ≠ ',') →
    splitOn ',' (joinComma ps) = ps := by
  intro ps
  induction ps with
  | nil => intro h; exact absurd rfl h
  | cons p ps ih =>
    intro _ hp
    cases ps with
    | nil => simp only [joinComma]; exact splitOn_no_sep _ _ (hp p (by simp))
    | cons q qs =>
      simp only [joinComma]
      rw [splitOn_append _ _ _ (hp p (by simp)), ih (by simp) (fun x hx => hp x (by simp [hx]))]

theorem joinComma_ne_nil : ∀ (ps : List (List Char)), ps ≠ [] → (∀ p ∈ ps, p ≠ []) → joinComma ps ≠ [] := by
  intro ps h hp
  cases ps with
  | nil => exact absurd rfl h
  | cons p ps =>
    cases ps with
    | nil => simpa [joinComma] using hp p (by simp)
    | cons q qs => simp [joinComma]

theorem parseParts_fmt : ∀ (rs : List (Nat × Nat)) (acc : Nat), (∀ r ∈ rs, r.1 ≤ r.2 ∧ r.2 ≤ 4096) →
    parseParts (rs.map fmtRange) acc = some (acc ||| maskOfRuns rs) := by
  intro rs
  induction rs with
  | nil => intro acc _; simp [parseParts, maskOfRuns]
  | cons r rs ih =>
    intro acc h
    obtain ⟨h1, h2⟩ := h r (by simp)
    have hr : fmtRange r = fmtRange (r.1, r.2) := rfl
    simp only [List.map_cons, parseParts, hr, parsePart_fmtRange r.1 r.2 h1 h2]
    rw [ih _ (fun x hx => h x (by simp [hx]))]
    simp [maskOfRuns, Nat.or_assoc]

/-- **cpuset_roundtrip**: cpuset.Parse reads back what CPUSet.String prints, for every set of CPU ids ≤ 4096
    (`m` = bitmask, `w` = a width bound; for ids beyond maxAvailableCPUCount it does NOT: see
    cpuset_roundtrip_fails_beyond_4096). -/
theorem cpuset_roundtrip (m w : Nat) (h : m < 2 ^ w) (hw : w ≤ 4097) : parseCpuset (fmtCpusetW m w) = some m := by
  obtain ⟨hin, _⟩ := runsFrom_spec m w 0
  have hok : ∀ r ∈ runsFrom m 0 w, r.1 ≤ r.2 ∧ r.2 ≤ 4096 := by
    intro r hr; have := hin r hr; omega
  unfold parseCpuset fmtCpusetW
  cases hr : runsFrom m 0 w with
  | nil =>
    have := maskOfRuns_runsFrom m w h
    rw [hr] at this
    simp [joinComma, ← this, maskOfRuns]
  | cons r rs =>
    have hne : joinComma ((r :: rs).map fmtRange) ≠ [] :=
      joinComma_ne_nil _ (by simp) (by intro p hp; simp only [List.mem_map] at hp; obtain ⟨x, _, rfl⟩ := hp; exact fmtRange_ne_nil x)
    rw [if_neg hne, splitOn_joinComma _ (by simp)
      (by intro p hp; simp only [List.mem_map] at hp; obtain ⟨x, _, rfl⟩ := hp; exact fmtRange_no_comma x)]
    rw [parseParts_fmt _ 0 (by rw [← hr]; exact hok), ← hr, maskOfRuns_runsFrom m w h]
    simp

theorem cpuset_roundtrip_log2 (m : Nat) (h : m < 2 ^ 4097) : parseCpuset (fmtCpuset m) = some m := by
  unfold fmtCpuset
  apply cpuset_roundtrip m _ Nat.lt_log2_self
  by_cases h0 : m = 0
  · subst h0; simp
  · have := (Nat.log2_lt h0).mpr h
    omega

/-- **merge_condition_cpuset_sound**: whenever both strings parse (ids ≤ 4096), MergeConditionIfCPUSetIsLooser
    returns a string that parses to the merged value of the value-level model and the same needMerge flag. -/
theorem merge_condition_cpuset_sound (old new : List Char) (o t : Nat)
    (ho : parseCpuset old = some o) (ht : parseCpuset new = some t) (hb : t ||| o < 2 ^ 4097) :
    ∃ str, mcCpuset old new = some (str, (cpusetDom.merge o t).2) ∧
      parseCpuset str = some (cpusetDom.merge o t).1 := by
  unfold mcCpuset
  simp only [ho, ht, cpusetDom]
  by_cases h1 : (t == o) = true
  · exact ⟨new, by simp [h1], by simp [h1, ht]⟩
  · by_cases h2 : ((t ||| o) == o) = true
    · exact ⟨new, by simp [h1, h2], by simp [h1, h2, ht]⟩
    · exact ⟨fmtCpuset (t ||| o), by simp [h1, h2], by simp [h1, h2, cpuset_roundtrip_log2 _ hb]⟩

/-! ### cgroup-v2 cpu.max: "<quota|max> <period>" -/

theorem fieldsAux_nospace (a rest cur : List Char) (h : ∀ c ∈ a, isSpaceGo c = false) :
    fieldsAux (a ++ rest) cur = fieldsAux rest (a.reverse ++ cur) := by
  induction a generalizing cur with
  | nil => rfl
  | cons c cs ih =>
    have hc := h c (by simp)
    simp only [List.cons_append, fieldsAux, hc, Bool.false_eq_true, if_false]
    rw [ih _ (fun x hx => h x (by simp [hx]))]
    simp

theorem fields_two (q p : List Char) (hq : ∀ c ∈ q, isSpaceGo c = false) (hp : ∀ c ∈ p, isSpaceGo c = false)
    (hqn : q ≠ []) (hpn : p ≠ []) : fields (q ++ ' ' :: p) = [q, p] := by
  unfold fields
  rw [fieldsAux_nospace q _ [] hq]
  have h1 : q.reverse ++ [] ≠ [] := by simpa using hqn
  have hsp : isSpaceGo ' ' = true := by decide
  simp only [fieldsAux, hsp, if_true, h1, if_false]
  have := fieldsAux_nospace p [] [] hp
  simp only [List.append_nil] at this
  rw [this]
  have h2 : p.reverse ≠ [] := by simpa using hpn
  simp [fieldsAux, h2]

theorem digit_not_space {c : Char} (h : IsDigit c) : isSpaceGo c = false := by
  obtain ⟨d, hd, rfl⟩ := h
  have : d = 0 ∨ d = 1 ∨ d = 2 ∨ d = 3 ∨ d = 4 ∨ d = 5 ∨ d = 6 ∨ d = 7 ∨ d = 8 ∨ d = 9 := by omega
  rcases this with h | h | h | h | h | h | h | h | h | h <;> subst h <;> decide

/-- what the kernel shows in cpu.max for quota `v` (-1 = max) and period `p`. -/
def fmtCfsV2 (v : Int) (p : Nat) : List Char := fmtLim v ++ ' ' :: showDec p

theorem fmtLim_props (v : Int) : (∀ c ∈ fmtLim v, isSpaceGo c = false) ∧ fmtLim v ≠ [] := by
  unfold fmtLim
  split
  · exact ⟨by decide, by simp⟩
  · exact ⟨fun c hc => digit_not_space (showDec_digits _ c hc), showDec_ne_nil _⟩

theorem parseCfsV2_fmt (v : Int) (p : Nat) (h1 : -1 ≤ v) (h2 : v ≤ maxInt64) : parseCfsV2 (fmtCfsV2 v p) = some v := by
  unfold parseCfsV2 fmtCfsV2
  rw [fields_two _ _ (fmtLim_props v).1 (fun c hc => digit_not_space (showDec_digits _ c hc)) (fmtLim_props v).2
    (showDec_ne_nil _)]
  simp only
  by_cases hv : v = -1
  · subst hv; simp [fmtLim]
  · have hne := showDec_ne_nil v.toNat
    have hd := showDec_digits v.toNat
    have hnot : ¬ (fmtLim v = ['m', 'a', 'x']) := by
      simp only [fmtLim, hv, if_false]
      intro h
      cases hs : showDec v.toNat with
      | nil => exact hne hs
      | cons c r =>
        have hc := isDigit_ne (hd c (by rw [hs]; simp))
        rw [hs] at h
        exact hc.2.2.2 (List.cons.inj h).1
    rw [if_neg hnot]
    simp only [fmtLim, hv, if_false]
    rw [parseIntGo_showDec 64 v.toNat (by unfold maxInt64 at h2; omega)]
    congr 1; omega

theorem merge_condition_cfs_v2_sound (o t : Int) (p : Nat) (ho : -1 ≤ o ∧ o ≤ maxInt64) (ht : -1 ≤ t ∧ t ≤ maxInt64) :
    mcCfsQuota true (fmtCfsV2 o p) (fmtLim t) = some (fmtLim t, (cfsV2Dom.merge o t).2) := by
  unfold mcCfsQuota
  rw [parseLimNew_fmtLim t ht.1 ht.2]
  simp only [if_true, parseCfsV2_fmt o p ho.1 ho.2, Option.map_some]
  by_cases hv : o = -1
  · subst hv; simp [cfsV2Dom, limDom, limKey, maxInt64]
  · simp [cfsV2Dom, limDom, limKey, hv]

/-- the write-if-different comparison of cpuset.cpus on strings is the value-level `same`. -/
theorem eqStrCpus_sound (a b : List Char) (x y : Nat) (ha : parseCpuset a = some x) (hb : parseCpuset b = some y) :
    eqStrCpus a b = cpusetDom.same x y := by
  simp [eqStrCpus, ha, hb, cpusetDom]

end KoordVerif.C12
