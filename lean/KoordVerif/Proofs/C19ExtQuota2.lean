import KoordVerif.Proofs.C19ExtQuota1
/-
C19 (elasticquota part), helper lemmas 2: the delivery side.  A delivery of the final objects (isDelivery) to a
fresh plugin ends, after the migration tick, in the canonical ledger of those objects.
-/
namespace KoordVerif.C19.Quota

/-- what the pod caches hold, without the assigned flags -/
def view (s : St) : List (Nat × Nat × PodObj) := s.cache.map (fun e => (e.q, e.pid, e.obj))

theorem hasE_view (s : St) (q pid : Nat) :
    hasE s q pid = (view s).any (fun v => v.1 == q && v.2.1 == pid) := by
  simp only [hasE, view, List.any_map]; rfl

theorem view_congr {s t : St} (h : s.cache = t.cache) : view s = view t := by simp [view, h]
@[simp] theorem view_reqD (s : St) (q : Nat) (d : Int) : view (reqD s q d) = view s := view_congr (by simp)
@[simp] theorem view_usedD (s : St) (q : Nat) (d : Int) : view (usedD s q d) = view s := view_congr (by simp)
@[simp] theorem view_setAsg (s : St) (q pid : Nat) (b : Bool) : view (setAsg s q pid b) = view s := by
  simp only [view, setAsg, List.map_map]
  congr 1; funext e; simp only [Function.comp]; split <;> rfl
theorem view_delE (s : St) (q pid : Nat) :
    view (delE s q pid) = (view s).filter (fun v => !(v.1 == q && v.2.1 == pid)) := by
  simp only [view, delE, List.filter_map]; rfl
theorem view_addE (s : St) (q : Nat) (p : PodObj) :
    view (addE s q p) = if hasE s q p.id then view s else (q, p.id, p) :: view s := by
  unfold addE; split <;> simp [view]

theorem resolve_known (s : St) (p : PodObj) (h : s.known.contains dflt = true) :
    s.known.contains (resolve s p) = true := by
  simp only [resolve]; split <;> assumption

/-- changing the predicate at one pod, explicit values -/
theorem sumBy_point' {l : List PodObj} (hnd : NodupIds l) {o : PodObj} (ho : o ∈ l) (f g : PodObj → Bool)
    (hfg : ∀ x ∈ l, x.id ≠ o.id → f x = g x) (a b : Bool) (ha : f o = a) (hb : g o = b) :
    sumBy l f = sumBy l g + (if a then o.req else 0) - (if b then o.req else 0) := by
  have := sumBy_point hnd ho f g hfg
  rw [ha, hb] at this; omega

/-! ### OnPodAdd -/

theorem mgrPodAdd_known (s : St) (q : Nat) (p : PodObj) : (mgrPodAdd s q p).known = s.known := by
  unfold mgrPodAdd; split
  · rfl
  · simp only; split <;> simp
theorem mgrPodAdd_store (s : St) (q : Nat) (p : PodObj) : (mgrPodAdd s q p).store = s.store := by
  unfold mgrPodAdd; split
  · rfl
  · simp only; split <;> simp

theorem hasE_mgrPodAdd (s : St) (q : Nat) (p : PodObj) (q' pid : Nat) :
    hasE (mgrPodAdd s q p) q' pid = (hasE s q' pid || (s.known.contains q && (q' == q && pid == p.id))) := by
  unfold mgrPodAdd
  by_cases hk : s.known.contains q = true
  · by_cases hn : hasE s q p.id = true
    · simp only [hk, hn, Bool.not_true, Bool.false_or, if_true, Bool.true_and]
      by_cases hq : q' = q ∧ pid = p.id
      · obtain ⟨rfl, rfl⟩ := hq; simp [hn]
      · have : (q' == q && pid == p.id) = false := by
          simp only [Bool.and_eq_false_iff, beq_eq_false_iff_ne]
          by_cases h1 : q' = q
          · exact Or.inr (fun h2 => hq ⟨h1, h2⟩)
          · exact Or.inl h1
        simp [this]
    · simp only [Bool.not_eq_true] at hn
      simp only [hk, hn, Bool.not_true, Bool.or_false, Bool.false_eq_true, if_false, Bool.true_and]
      split <;> simp [hasE_setAsg, hasE_addE]
  · simp only [Bool.not_eq_true] at hk
    have hk' : q ∉ s.known := by simpa using hk
    simp [hk']

theorem mgrPodAdd_eff (s : St) (q : Nat) (p : PodObj) (hk : s.known.contains q = true)
    (hn : hasE s q p.id = false) (hr : 0 ≤ getC s.req q + p.req) (hu : 0 ≤ getC s.used q + p.req) :
    view (mgrPodAdd s q p) = (q, p.id, p) :: view s ∧
    (∀ q' pid, isAssigned (mgrPodAdd s q p) q' pid =
        (isAssigned s q' pid || (q' == q && pid == p.id && bound p))) ∧
    (∀ q', getC (mgrPodAdd s q p).req q' = getC s.req q' + if q' = q then p.req else 0) ∧
    (∀ q', getC (mgrPodAdd s q p).used q' = getC s.used q' + if q' = q ∧ bound p = true then p.req else 0) := by
  have ha : isAssigned s q p.id = false := isAssigned_of_not_hasE _ _ _ hn
  unfold mgrPodAdd
  simp only [hk, hn, Bool.not_true, Bool.or_false, Bool.false_eq_true, if_false, isAssigned_reqD,
    isAssigned_addE, ha, Bool.not_false, Bool.and_true]
  by_cases hb : bound p = true
  · simp only [hb, if_true]
    refine ⟨?_, ?_, ?_, ?_⟩
    · simp [view_addE, hn]
    · intro q' pid
      simp only [isAssigned_usedD, isAssigned_setAsg, isAssigned_reqD, isAssigned_addE, hasE_reqD, hasE_addE]
      by_cases hq : q' = q ∧ pid = p.id
      · obtain ⟨rfl, rfl⟩ := hq; simp
      · have : (q' == q && pid == p.id) = false := by
          simp only [Bool.and_eq_false_iff, beq_eq_false_iff_ne]
          by_cases h1 : q' = q
          · exact Or.inr (fun h2 => hq ⟨h1, h2⟩)
          · exact Or.inl h1
        simp [hq, this]
    · intro q'
      simp only [usedD_req, setAsg_req]
      rw [reqD_req _ _ _ _ (by simpa using hr)]; simp
    · intro q'
      rw [usedD_used _ _ _ _ (by simpa using hu)]; simp
  · simp only [hb, if_false, Bool.false_eq_true]
    simp only [Bool.not_eq_true] at hb
    refine ⟨?_, ?_, ?_, ?_⟩
    · simp [view_addE, hn]
    · intro q' pid; simp [isAssigned_addE, hb]
    · intro q'
      rw [reqD_req _ _ _ _ (by simpa using hr)]; simp
    · intro q'; simp [hb]

/-! ### quota handlers -/

theorem fold_known_contains (l : List Nat) (k : List Nat) (m : Nat) :
    (l.foldl (fun k n => if k.contains n then k else n :: k) k).contains m = (k.contains m || l.contains m) := by
  induction l generalizing k with
  | nil => simp
  | cons a l ih =>
    simp only [List.foldl_cons, ih]
    by_cases h : k.contains a = true
    · simp only [h, if_true, List.contains_cons]
      by_cases hm : m = a
      · subst hm
        have h' : m ∈ k := by simpa using h
        simp [h']
      · have : (m == a) = false := by simp [hm]
        simp [this]
    · simp only [h, if_false, Bool.false_eq_true, List.contains_cons]
      cases (m == a) <;> simp

theorem replace_known (s : St) (m : Nat) :
    (replaceQuotas s).known.contains m = true ↔ (m = 1 ∨ m = 2 ∨ ∃ q ∈ s.store, q.name = m) := by
  simp only [replaceQuotas, fold_known_contains]
  simp [or_assoc]

theorem migrateAll_noop (s : St)
    (h : s.cache.all (fun e => e.q != dflt || resolve s e.obj == dflt) = true) : migrateAll s = s := by
  unfold migrateAll
  have : ∀ e ∈ s.cache.filter (fun e => e.q == dflt), resolve s e.obj = dflt := by
    intro e he
    simp only [List.mem_filter, beq_iff_eq] at he
    have := List.all_eq_true.1 h e he.1
    simpa [he.2] using this
  generalize s.cache.filter (fun e => e.q == dflt) = L at this
  induction L with
  | nil => rfl
  | cons e L ih =>
    simp only [List.foldl_cons, this e (by simp), if_true]
    exact ih (fun x hx => this x (by simp [hx]))

/-! ### the delivery invariant (the objects `A` and the final resolution `rf` are fixed) -/

structure DInv (s : St) (A : List PodObj) (rf : PodObj → Nat) : Prop where
  k1 : s.known.contains dflt = true
  obj : ∀ v ∈ view s, v.2.2 ∈ A ∧ v.2.1 = v.2.2.id ∧ v.1 = rf v.2.2
  asg : ∀ o ∈ A, ∀ q, isAssigned s q o.id = (hasE s q o.id && bound o)
  req : ∀ q, getC s.req q = sumBy A (fun o => hasE s q o.id)
  used : ∀ q, getC s.used q = sumBy A (fun o => isAssigned s q o.id)

theorem DInv.loc {s : St} {A : List PodObj} {rf : PodObj → Nat} (h : DInv s A rf) {q pid : Nat}
    (he : hasE s q pid = true) : ∃ o ∈ A, o.id = pid ∧ q = rf o := by
  rw [hasE_view, List.any_eq_true] at he
  obtain ⟨v, hv, hq⟩ := he
  simp only [Bool.and_eq_true, beq_iff_eq] at hq
  obtain ⟨h1, h2, h3⟩ := h.obj v hv
  exact ⟨v.2.2, h1, by rw [← h2, hq.2], by rw [← h3, hq.1]⟩

theorem DInv_congr {s t : St} {A : List PodObj} {rf : PodObj → Nat} (h : DInv s A rf)
    (hc : t.cache = s.cache) (hr : t.req = s.req) (hu : t.used = s.used)
    (hk : t.known.contains dflt = true) : DInv t A rf := by
  have h1 : ∀ q pid, hasE t q pid = hasE s q pid := fun q pid => hasE_congr hc q pid
  have h2 : ∀ q pid, isAssigned t q pid = isAssigned s q pid := fun q pid => isAssigned_congr hc q pid
  refine ⟨hk, ?_, ?_, ?_, ?_⟩
  · rw [view_congr hc]; exact h.obj
  · intro o ho q; rw [h1, h2]; exact h.asg o ho q
  · intro q; rw [hr]; simp only [h1]; exact h.req q
  · intro q; rw [hu]; simp only [h2]; exact h.used q

theorem DInv_empty (s : St) (A : List PodObj) (rf : PodObj → Nat) (hk : s.known.contains dflt = true)
    (hc : s.cache = []) (hr : s.req = []) (hu : s.used = []) : DInv s A rf := by
  have h1 : ∀ q pid, hasE s q pid = false := fun q pid => by simp [hasE, hc]
  have h2 : ∀ q pid, isAssigned s q pid = false := fun q pid => by simp [isAssigned, hc]
  refine ⟨hk, ?_, ?_, ?_, ?_⟩
  · simp [view, hc]
  · intro o _ q; simp [h1, h2]
  · intro q; rw [hr, sumBy_false (fun o _ => h1 q o.id)]; rfl
  · intro q; rw [hu, sumBy_false (fun o _ => h2 q o.id)]; rfl

theorem onQuotaPut_cache (s : St) (q : QObj) : (onQuotaPut s q).cache = s.cache := by
  unfold onQuotaPut storePut; simp only; split <;> rfl
theorem onQuotaPut_req (s : St) (q : QObj) : (onQuotaPut s q).req = s.req := by
  unfold onQuotaPut storePut; simp only; split <;> rfl
theorem onQuotaPut_used (s : St) (q : QObj) : (onQuotaPut s q).used = s.used := by
  unfold onQuotaPut storePut; simp only; split <;> rfl
theorem onQuotaPut_store (s : St) (q : QObj) : (onQuotaPut s q).store = (storePut s q).store := by
  unfold onQuotaPut; simp only; split <;> rfl
theorem onQuotaPut_known (s : St) (q : QObj) (m : Nat) :
    (onQuotaPut s q).known.contains m = (s.known.contains m || m == q.name) := by
  unfold onQuotaPut storePut; simp only
  split
  · rename_i h
    by_cases hm : m = q.name
    · subst hm; rw [h]; simp
    · have : (m == q.name) = false := by simp [hm]
      simp [this]
  · simp only [List.contains_cons]; rw [Bool.or_comm]

theorem DInv_padd {s : St} {A : List PodObj} {rf : PodObj → Nat} (h : DInv s A rf)
    (hnd : NodupIds A) (hnn : ∀ o ∈ A, 0 ≤ o.req) {p : PodObj} (hp : p ∈ A) (hres : resolve s p = rf p) :
    DInv (onPodAdd s p) A rf := by
  unfold onPodAdd
  have hk := resolve_known s p h.k1
  by_cases hn : hasE s (resolve s p) p.id = true
  · have : mgrPodAdd s (resolve s p) p = s := by unfold mgrPodAdd; simp [hn]
    rw [this]; exact h
  · simp only [Bool.not_eq_true] at hn
    have hnone : ∀ q, hasE s q p.id = false := by
      intro q
      cases hq : hasE s q p.id
      · rfl
      · obtain ⟨o, ho, hid, hqq⟩ := h.loc hq
        have : o = p := hnd.eq_of_id ho hp hid
        subst this
        rw [hqq, ← hres, hn] at hq; cases hq
    have hanone : ∀ q, isAssigned s q p.id = false := fun q => isAssigned_of_not_hasE _ _ _ (hnone q)
    have hr0 : 0 ≤ getC s.req (resolve s p) + p.req := by
      rw [h.req]; have := sumBy_nonneg (fun o => hasE s (resolve s p) o.id) hnn; have := hnn p hp; omega
    have hu0 : 0 ≤ getC s.used (resolve s p) + p.req := by
      rw [h.used]; have := sumBy_nonneg (fun o => isAssigned s (resolve s p) o.id) hnn; have := hnn p hp; omega
    obtain ⟨ev, ea, er, eu⟩ := mgrPodAdd_eff s (resolve s p) p hk hn hr0 hu0
    have eh := hasE_mgrPodAdd s (resolve s p) p
    simp only [hk, Bool.true_and] at eh
    have hkn := mgrPodAdd_known s (resolve s p) p
    generalize mgrPodAdd s (resolve s p) p = s' at ev ea er eu eh hkn ⊢
    refine ⟨by rw [hkn]; exact h.k1, ?_, ?_, ?_, ?_⟩
    · intro v hv; rw [ev] at hv
      rcases List.mem_cons.1 hv with rfl | hv
      · exact ⟨hp, rfl, hres⟩
      · exact h.obj v hv
    · intro o ho q
      rw [ea, eh, h.asg o ho q]
      by_cases hid : o.id = p.id
      · have : o = p := hnd.eq_of_id ho hp hid
        subst this
        simp only [hnone, beq_self_eq_true, Bool.and_true, Bool.false_and, Bool.false_or]
      · have : (o.id == p.id) = false := by simp [hid]
        simp [this]
    · intro q
      rw [er, h.req q]
      rw [sumBy_point' hnd hp (fun o => hasE s' q o.id) (fun o => hasE s q o.id)
        (fun x _ hne => by simp only [eh]; simp [hne]) (q == resolve s p) false (by simp [eh, hnone]) (hnone q)]
      by_cases hq : q = resolve s p <;> simp [hq]
    · intro q
      rw [eu, h.used q]
      rw [sumBy_point' hnd hp (fun o => isAssigned s' q o.id) (fun o => isAssigned s q o.id)
        (fun x _ hne => by simp only [ea]; simp [hne]) (q == resolve s p && bound p) false
        (by simp [ea, hanone]) (hanone q)]
      by_cases hq : q = resolve s p <;> cases bound p <;> simp [hq]

/-! ### running a delivery -/

/-- the order hypothesis plus "every migration tick of the delivery finds nothing to move"; the extra clause is
    derived from the other hypotheses of `isDelivery` in `okOrderM_of_okOrder` below -/
def okOrderM (s : St) (final : St) (seenPod : Bool) : List Op → Bool
  | [] => true
  | op :: ops =>
    (match op with
     | .padd p => resolve s p == resolve final p
     | .replace => !seenPod
     | .migrate => s.cache.all (fun e => e.q != dflt || resolve s e.obj == dflt)
     | _ => true) &&
    okOrderM (step s op) final (seenPod || (match op with | .padd _ => true | _ => false)) ops


theorem okOrder_padd {s fin : St} {seen : Bool} {p : PodObj} {ops : List Op}
    (h : okOrderM s fin seen (.padd p :: ops) = true) :
    resolve s p = resolve fin p ∧ okOrderM (onPodAdd s p) fin true ops = true := by
  simp only [okOrderM, Bool.and_eq_true, beq_iff_eq, Bool.or_true, step] at h; exact h
theorem okOrder_replace {s fin : St} {seen : Bool} {ops : List Op}
    (h : okOrderM s fin seen (.replace :: ops) = true) :
    seen = false ∧ okOrderM (replaceQuotas s) fin seen ops = true := by
  simp only [okOrderM, Bool.and_eq_true, Bool.or_false, step, Bool.not_eq_true'] at h; exact h
theorem okOrder_migrate {s fin : St} {seen : Bool} {ops : List Op}
    (h : okOrderM s fin seen (.migrate :: ops) = true) :
    s.cache.all (fun e => e.q != dflt || resolve s e.obj == dflt) = true ∧
      okOrderM (migrateAll s) fin seen ops = true := by
  simp only [okOrderM, Bool.and_eq_true, Bool.or_false, step] at h; exact h
theorem okOrder_qstore {s fin : St} {seen : Bool} {q : QObj} {ops : List Op}
    (h : okOrderM s fin seen (.qstore q :: ops) = true) : okOrderM (storePut s q) fin seen ops = true := by
  simp only [okOrderM, Bool.and_eq_true, Bool.or_false, step, Bool.true_and] at h; exact h
theorem okOrder_qput {s fin : St} {seen : Bool} {q : QObj} {ops : List Op}
    (h : okOrderM s fin seen (.qput q :: ops) = true) : okOrderM (onQuotaPut s q) fin seen ops = true := by
  simp only [okOrderM, Bool.and_eq_true, Bool.or_false, step, Bool.true_and] at h; exact h

theorem DInv_run {fin : St} {A : List PodObj} {F : List QObj} (hnd : NodupIds A) (hnn : ∀ o ∈ A, 0 ≤ o.req) :
    ∀ (d : List Op) (s : St) (seen : Bool), DInv s A (resolve fin) → d.all (isDeliveryOp F A) = true →
      okOrderM s fin seen d = true → DInv (run s d) A (resolve fin) := by
  intro d
  induction d with
  | nil => intro s _ h _ _; exact h
  | cons op d ih =>
    intro s seen h hd ho
    simp only [List.all_cons, Bool.and_eq_true] at hd
    obtain ⟨hop, hd⟩ := hd
    show DInv (run (step s op) d) A (resolve fin)
    cases op with
    | qstore q => exact ih _ _ (DInv_congr h rfl rfl rfl h.k1) hd (okOrder_qstore ho)
    | qput q =>
      exact ih _ _ (DInv_congr h (onQuotaPut_cache s q) (onQuotaPut_req s q) (onQuotaPut_used s q)
        (by show (onQuotaPut s q).known.contains dflt = true; rw [onQuotaPut_known, h.k1]; rfl)) hd (okOrder_qput ho)
    | replace =>
      exact ih _ _ (DInv_empty _ _ _ ((replace_known s dflt).2 (Or.inl rfl)) rfl rfl rfl) hd (okOrder_replace ho).2
    | padd p =>
      simp only [isDeliveryOp, List.contains_eq_mem, decide_eq_true_eq] at hop
      exact ih _ _ (DInv_padd h hnd hnn hop (okOrder_padd ho).1) hd (okOrder_padd ho).2
    | migrate =>
      have := okOrder_migrate ho
      simp only [step]; rw [migrateAll_noop s this.1] at this ⊢
      exact ih _ _ h hd this.2
    | qdel n => simp [isDeliveryOp] at hop
    | pupd o n => simp [isDeliveryOp] at hop
    | pdel p => simp [isDeliveryOp] at hop
    | resv p => simp [isDeliveryOp] at hop
    | unresv p => simp [isDeliveryOp] at hop

/-- once a pod has been delivered nothing of a delivery removes a cache entry -/
theorem deliv_hasE_mono {fin : St} {A : List PodObj} {F : List QObj} {q pid : Nat} :
    ∀ (d : List Op) (s : St), d.all (isDeliveryOp F A) = true → okOrderM s fin true d = true →
      hasE s q pid = true → hasE (run s d) q pid = true := by
  intro d
  induction d with
  | nil => intro s _ _ h; exact h
  | cons op d ih =>
    intro s hd ho h
    simp only [List.all_cons, Bool.and_eq_true] at hd
    obtain ⟨hop, hd⟩ := hd
    show hasE (run (step s op) d) q pid = true
    cases op with
    | qstore x => exact ih _ hd (okOrder_qstore ho) h
    | qput x => exact ih _ hd (okOrder_qput ho) (by show hasE (onQuotaPut s x) q pid = true; rw [hasE_congr (onQuotaPut_cache s x)]; exact h)
    | replace => exact absurd (okOrder_replace ho).1 (by simp)
    | padd p =>
      exact ih _ hd (okOrder_padd ho).2 (by simp only [step, onPodAdd, hasE_mgrPodAdd, h, Bool.true_or])
    | migrate =>
      have := okOrder_migrate ho
      simp only [step]; rw [migrateAll_noop s this.1] at this ⊢
      exact ih _ hd this.2 h
    | qdel n => simp [isDeliveryOp] at hop
    | pupd o n => simp [isDeliveryOp] at hop
    | pdel p => simp [isDeliveryOp] at hop
    | resv p => simp [isDeliveryOp] at hop
    | unresv p => simp [isDeliveryOp] at hop

theorem deliv_cov {fin : St} {A : List PodObj} {F : List QObj} {p : PodObj} :
    ∀ (d : List Op) (s : St) (seen : Bool), d.all (isDeliveryOp F A) = true → okOrderM s fin seen d = true →
      s.known.contains dflt = true → d.contains (.padd p) = true →
      hasE (run s d) (resolve fin p) p.id = true := by
  intro d
  induction d with
  | nil => intro s _ _ _ _ h; simp at h
  | cons op d ih =>
    intro s seen hd ho hk hc
    simp only [List.all_cons, Bool.and_eq_true] at hd
    obtain ⟨hop, hd⟩ := hd
    show hasE (run (step s op) d) (resolve fin p) p.id = true
    by_cases hop' : op = .padd p
    · subst hop'
      have h1 := okOrder_padd ho
      have h2 : hasE (step s (.padd p)) (resolve fin p) p.id = true := by
        rw [← h1.1]; simp only [step, onPodAdd, hasE_mgrPodAdd, resolve_known s p hk]; simp
      exact deliv_hasE_mono d _ hd h1.2 h2
    · have hc' : d.contains (.padd p) = true := by
        simp only [List.contains_cons, Bool.or_eq_true, beq_iff_eq] at hc
        rcases hc with hc | hc
        · exact absurd hc.symm hop'
        · exact hc
      cases op with
      | qstore q => exact ih _ _ hd (okOrder_qstore ho) hk hc'
      | qput q => exact ih _ _ hd (okOrder_qput ho) (by show (onQuotaPut s q).known.contains dflt = true; rw [onQuotaPut_known, hk]; rfl) hc'
      | replace => exact ih _ _ hd (okOrder_replace ho).2 ((replace_known s dflt).2 (Or.inl rfl)) hc'
      | padd p' =>
        exact ih _ _ hd (okOrder_padd ho).2 (by simp only [step, onPodAdd, mgrPodAdd_known]; exact hk) hc'
      | migrate =>
        have := okOrder_migrate ho
        simp only [step]; rw [migrateAll_noop s this.1] at this ⊢
        exact ih _ _ hd this.2 hk hc'
      | qdel n => simp [isDeliveryOp] at hop
      | pupd o n => simp [isDeliveryOp] at hop
      | pdel p => simp [isDeliveryOp] at hop
      | resv p => simp [isDeliveryOp] at hop
      | unresv p => simp [isDeliveryOp] at hop

/-! ### store / known along a delivery -/

theorem mgrMigrate_known (s : St) (p : PodObj) (out inn : Nat) : (mgrMigrate s p out inn).known = s.known := by
  unfold mgrMigrate; simp only []
  split <;> split <;> (try split) <;> simp
theorem mgrMigrate_store (s : St) (p : PodObj) (out inn : Nat) : (mgrMigrate s p out inn).store = s.store := by
  unfold mgrMigrate; simp only []
  split <;> split <;> (try split) <;> simp

theorem migrateAll_known_store (s : St) : (migrateAll s).known = s.known ∧ (migrateAll s).store = s.store := by
  unfold migrateAll
  generalize s.cache.filter (fun e => e.q == dflt) = L
  induction L generalizing s with
  | nil => exact ⟨rfl, rfl⟩
  | cons e L ih =>
    simp only [List.foldl_cons]
    split
    · exact ih s
    · obtain ⟨h1, h2⟩ := ih (mgrMigrate s e.obj dflt (resolve s e.obj))
      rw [h1, h2, mgrMigrate_known, mgrMigrate_store]; exact ⟨rfl, rfl⟩

theorem eq_of_name {F : List QObj} (h : (F.map (·.name)).Nodup) {a b : QObj} (ha : a ∈ F) (hb : b ∈ F)
    (hab : a.name = b.name) : a = b := by
  induction F with
  | nil => cases ha
  | cons x F ih =>
    simp only [List.map_cons, List.nodup_cons, List.mem_map, not_exists, not_and] at h
    rcases List.mem_cons.1 ha with rfl | ha' <;> rcases List.mem_cons.1 hb with rfl | hb'
    · rfl
    · exact absurd hab.symm (h.1 b hb')
    · exact absurd hab (h.1 a ha')
    · exact ih h.2 ha' hb'

theorem mem_storePut (s : St) (q x : QObj) :
    x ∈ (storePut s q).store ↔ x = q ∨ (x ∈ s.store ∧ x.name ≠ q.name) := by
  simp [storePut]

theorem name_storePut (s : St) (q : QObj) (n : Nat) :
    (∃ x ∈ (storePut s q).store, x.name = n) ↔ (n = q.name ∨ ∃ x ∈ s.store, x.name = n) := by
  constructor
  · rintro ⟨x, hx, rfl⟩
    rcases (mem_storePut s q x).1 hx with rfl | h
    · exact Or.inl rfl
    · exact Or.inr ⟨x, h.1, rfl⟩
  · rintro (rfl | ⟨x, hx, rfl⟩)
    · exact ⟨q, (mem_storePut s q q).2 (Or.inl rfl), rfl⟩
    · by_cases h : x.name = q.name
      · exact ⟨q, (mem_storePut s q q).2 (Or.inl rfl), h.symm⟩
      · exact ⟨x, (mem_storePut s q x).2 (Or.inr ⟨hx, h⟩), rfl⟩

/-- known quotas are the two built-in ones and names of the store (holds along ANY history) -/
structure KInv (s : St) : Prop where
  kn : ∀ n, s.known.contains n = true → n = 1 ∨ n = 2 ∨ ∃ q ∈ s.store, q.name = n
  k1 : s.known.contains 1 = true
  k2 : s.known.contains 2 = true

theorem KInv_init : KInv {} := ⟨fun n h => by simp at h; omega, rfl, rfl⟩

theorem KInv_same {s t : St} (h : KInv s) (hk : t.known = s.known) (hs : t.store = s.store) : KInv t :=
  ⟨fun n hn => by rw [hs]; rw [hk] at hn; exact h.kn n hn, by rw [hk]; exact h.k1, by rw [hk]; exact h.k2⟩

theorem KInv_qstore {s : St} (h : KInv s) (q : QObj) : KInv (storePut s q) := by
  refine ⟨fun n hn => ?_, h.k1, h.k2⟩
  rcases h.kn n hn with h1 | h1 | h1
  · exact Or.inl h1
  · exact Or.inr (Or.inl h1)
  · exact Or.inr (Or.inr ((name_storePut s q n).2 (Or.inr h1)))

theorem KInv_qput {s : St} (h : KInv s) (q : QObj) : KInv (onQuotaPut s q) := by
  refine ⟨fun n hn => ?_, by rw [onQuotaPut_known, h.k1]; rfl, by rw [onQuotaPut_known, h.k2]; rfl⟩
  rw [onQuotaPut_known, Bool.or_eq_true, beq_iff_eq] at hn
  rw [onQuotaPut_store]
  rcases hn with hn | hn
  · rcases h.kn n hn with h1 | h1 | h1
    · exact Or.inl h1
    · exact Or.inr (Or.inl h1)
    · exact Or.inr (Or.inr ((name_storePut s q n).2 (Or.inr h1)))
  · exact Or.inr (Or.inr ((name_storePut s q n).2 (Or.inl hn)))

theorem KInv_replace (s : St) : KInv (replaceQuotas s) :=
  ⟨fun n hn => (replace_known s n).1 hn, (replace_known s 1).2 (Or.inl rfl), (replace_known s 2).2 (Or.inr (Or.inl rfl))⟩

theorem KInv_deliv {F : List QObj} {A : List PodObj} :
    ∀ (d : List Op) (s : St), d.all (isDeliveryOp F A) = true → KInv s → KInv (run s d) := by
  intro d
  induction d with
  | nil => intro s _ h; exact h
  | cons op d ih =>
    intro s hd h
    simp only [List.all_cons, Bool.and_eq_true] at hd
    obtain ⟨hop, hd⟩ := hd
    show KInv (run (step s op) d)
    cases op with
    | qstore q => exact ih _ hd (KInv_qstore h q)
    | qput q => exact ih _ hd (KInv_qput h q)
    | replace => exact ih _ hd (KInv_replace s)
    | padd p => exact ih _ hd (KInv_same h (mgrPodAdd_known _ _ _) (mgrPodAdd_store _ _ _))
    | migrate => exact ih _ hd (KInv_same h (migrateAll_known_store s).1 (migrateAll_known_store s).2)
    | qdel n => simp [isDeliveryOp] at hop
    | pupd o n => simp [isDeliveryOp] at hop
    | pdel p => simp [isDeliveryOp] at hop
    | resv p => simp [isDeliveryOp] at hop
    | unresv p => simp [isDeliveryOp] at hop

theorem deliv_store_sub {F : List QObj} {A : List PodObj} :
    ∀ (d : List Op) (s : St), d.all (isDeliveryOp F A) = true → (∀ q ∈ s.store, q ∈ F) →
      ∀ q ∈ (run s d).store, q ∈ F := by
  intro d
  induction d with
  | nil => intro s _ h; exact h
  | cons op d ih =>
    intro s hd h
    simp only [List.all_cons, Bool.and_eq_true] at hd
    obtain ⟨hop, hd⟩ := hd
    show ∀ q ∈ (run (step s op) d).store, q ∈ F
    have hput : ∀ q : QObj, q ∈ F → ∀ x ∈ (storePut s q).store, x ∈ F := by
      intro q hq x hx
      rcases (mem_storePut s q x).1 hx with rfl | hx
      · exact hq
      · exact h x hx.1
    cases op with
    | qstore q => exact ih _ hd (hput q (by simpa [isDeliveryOp] using hop))
    | qput q =>
      exact ih _ hd (by show ∀ x ∈ (onQuotaPut s q).store, x ∈ F
                        rw [onQuotaPut_store]; exact hput q (by simpa [isDeliveryOp] using hop))
    | replace => exact ih _ hd h
    | padd p => exact ih _ hd (by show ∀ x ∈ (mgrPodAdd s _ p).store, x ∈ F
                                  rw [mgrPodAdd_store]; exact h)
    | migrate => exact ih _ hd (by show ∀ x ∈ (migrateAll s).store, x ∈ F
                                   rw [(migrateAll_known_store s).2]; exact h)
    | qdel n => simp [isDeliveryOp] at hop
    | pupd o n => simp [isDeliveryOp] at hop
    | pdel p => simp [isDeliveryOp] at hop
    | resv p => simp [isDeliveryOp] at hop
    | unresv p => simp [isDeliveryOp] at hop

theorem deliv_store_mono {F : List QObj} {A : List PodObj} (hF : (F.map (·.name)).Nodup) {q : QObj} (hq : q ∈ F) :
    ∀ (d : List Op) (s : St), d.all (isDeliveryOp F A) = true → q ∈ s.store → q ∈ (run s d).store := by
  intro d
  induction d with
  | nil => intro s _ h; exact h
  | cons op d ih =>
    intro s hd h
    simp only [List.all_cons, Bool.and_eq_true] at hd
    obtain ⟨hop, hd⟩ := hd
    show q ∈ (run (step s op) d).store
    have hput : ∀ x : QObj, x ∈ F → q ∈ (storePut s x).store := by
      intro x hx
      by_cases hn : q.name = x.name
      · exact (mem_storePut s x q).2 (Or.inl (eq_of_name hF hq hx hn))
      · exact (mem_storePut s x q).2 (Or.inr ⟨h, hn⟩)
    cases op with
    | qstore x => exact ih _ hd (hput x (by simpa [isDeliveryOp] using hop))
    | qput x =>
      exact ih _ hd (by show q ∈ (onQuotaPut s x).store
                        rw [onQuotaPut_store]; exact hput x (by simpa [isDeliveryOp] using hop))
    | replace => exact ih _ hd h
    | padd p => exact ih _ hd (by show q ∈ (mgrPodAdd s _ p).store
                                  rw [mgrPodAdd_store]; exact h)
    | migrate => exact ih _ hd (by show q ∈ (migrateAll s).store
                                   rw [(migrateAll_known_store s).2]; exact h)
    | qdel n => simp [isDeliveryOp] at hop
    | pupd o n => simp [isDeliveryOp] at hop
    | pdel p => simp [isDeliveryOp] at hop
    | resv p => simp [isDeliveryOp] at hop
    | unresv p => simp [isDeliveryOp] at hop

theorem deliv_store_cov {F : List QObj} {A : List PodObj} (hF : (F.map (·.name)).Nodup) {q : QObj} (hq : q ∈ F) :
    ∀ (d : List Op) (s : St), d.all (isDeliveryOp F A) = true →
      (d.contains (.qput q) = true ∨ d.contains (.qstore q) = true) → q ∈ (run s d).store := by
  intro d
  induction d with
  | nil => intro s _ h; simp at h
  | cons op d ih =>
    intro s hd hc
    have hd' := hd
    simp only [List.all_cons, Bool.and_eq_true] at hd'
    show q ∈ (run (step s op) d).store
    by_cases h1 : op = .qput q
    · subst h1
      exact deliv_store_mono hF hq d _ hd'.2 (by
        show q ∈ (onQuotaPut s q).store
        rw [onQuotaPut_store]; exact (mem_storePut s q q).2 (Or.inl rfl))
    · by_cases h2 : op = .qstore q
      · subst h2
        exact deliv_store_mono hF hq d _ hd'.2 ((mem_storePut s q q).2 (Or.inl rfl))
      · apply ih _ hd'.2
        simp only [List.contains_cons, Bool.or_eq_true, beq_iff_eq] at hc
        rcases hc with (hc | hc) | (hc | hc)
        · exact absurd hc.symm h1
        · exact Or.inl hc
        · exact absurd hc.symm h2
        · exact Or.inr hc

/-! ### the rebuilt ledger is canonical -/

theorem run_append (s : St) (a b : List Op) : run s (a ++ b) = run (run s a) b := by
  simp [run, List.foldl_append]

theorem isDelivery_parts {live : St} {w : World} {d : List Op} (h : isDelivery live w d = true) :
    d.all (isDeliveryOp live.store w.alive) = true ∧
    (∀ q ∈ live.store, (d.contains (.qput q) = true ∨ d.contains (.qstore q) = true) ∧
        (run {} d).known.contains q.name = true) ∧
    (∀ p ∈ w.alive, d.contains (.padd p) = true) ∧
    okOrderFrom {} (run {} d) false d = true ∧
    (∀ q ∈ live.store, 3 ≤ q.name) := by
  simp only [isDelivery, Bool.and_eq_true, List.all_eq_true, Bool.or_eq_true, decide_eq_true_eq] at h
  exact ⟨List.all_eq_true.2 h.1.1.1.1, h.1.1.1.2, h.1.1.2, h.1.2, h.2⟩

/-- store and known set of the rebuilt plugin -/
theorem fresh_facts {live : St} {w : World} {d : List Op} (hd : isDelivery live w d = true)
    (hsu : storeUnique live.store = true) :
    (∀ q, q ∈ live.store ↔ q ∈ (run {} d).store) ∧
    (∀ n, (run {} d).known.contains n = true ↔ (n = 1 ∨ n = 2 ∨ ∃ q ∈ live.store, q.name = n)) := by
  obtain ⟨h1, h2, _, _, _⟩ := isDelivery_parts hd
  have hF := storeUnique_names hsu
  have hsub := deliv_store_sub d {} h1 (by intro q hq; cases hq)
  have hK := KInv_deliv d {} h1 KInv_init
  refine ⟨fun q => ⟨fun hq => deliv_store_cov hF hq d {} h1 (h2 q hq).1, hsub q⟩, fun n => ⟨fun hn => ?_, ?_⟩⟩
  · rcases hK.kn n hn with h | h | ⟨q, hq, rfl⟩
    · exact Or.inl h
    · exact Or.inr (Or.inl h)
    · exact Or.inr (Or.inr ⟨q, hsub q hq, rfl⟩)
  · rintro (rfl | rfl | ⟨q, hq, rfl⟩)
    · exact hK.k1
    · exact hK.k2
    · exact (h2 q hq).2

theorem DInv_init (A : List PodObj) (rf : PodObj → Nat) : DInv {} A rf := DInv_empty _ _ _ rfl rfl rfl rfl

theorem Canon_of_DInv {s : St} {A : List PodObj} (h : DInv s A (resolve s)) (hnd : NodupIds A)
    (hcov : ∀ o ∈ A, hasE s (resolve s o) o.id = true) : Canon s { alive := A, resvd := [] } := by
  have hiff : ∀ o ∈ A, ∀ q, hasE s q o.id = (resolve s o == q) := by
    intro o ho q
    rw [Bool.eq_iff_iff, beq_iff_eq]
    constructor
    · intro he
      obtain ⟨o', ho', hid, hq⟩ := h.loc he
      have : o' = o := hnd.eq_of_id ho' ho hid
      subst this; exact hq.symm
    · rintro rfl; exact hcov o ho
  refine ⟨?_, ?_, ?_, ?_⟩
  · intro q pid
    rw [Bool.eq_iff_iff, List.any_eq_true]
    simp only [chargedTo, List.mem_filter, beq_iff_eq]
    constructor
    · intro he
      obtain ⟨o, ho, hid, hq⟩ := h.loc he
      exact ⟨o, ⟨ho, hq.symm⟩, hid⟩
    · rintro ⟨o, ⟨ho, rfl⟩, rfl⟩; exact hcov o ho
  · intro q pid
    rw [Bool.eq_iff_iff, List.any_eq_true]
    simp only [chargedTo, List.mem_filter, beq_iff_eq, Bool.and_eq_true, Bool.or_eq_true,
      List.contains_nil, Bool.false_eq_true, or_false]
    constructor
    · intro ha
      obtain ⟨o, ho, hid, hq⟩ := h.loc (isAssigned_le_hasE _ _ _ ha)
      subst hid
      rw [h.asg o ho q, Bool.and_eq_true] at ha
      exact ⟨o, ⟨ho, hq.symm⟩, rfl, ha.2⟩
    · rintro ⟨o, ⟨ho, rfl⟩, rfl, hb⟩
      rw [h.asg o ho, hcov o ho, hb]; rfl
  · intro q
    rw [chargedTo_sum, h.req]
    exact sumBy_congr (fun o ho => hiff o ho q)
  · intro q
    rw [chargedTo_sum_asg, h.used]
    apply sumBy_congr
    intro o ho
    show isAssigned s q o.id = (resolve s o == q && (bound o || ([] : List Nat).contains o.id))
    rw [h.asg o ho q, hiff o ho q]; simp

/-! ### a migration tick in the middle of a delivery finds nothing to move -/

theorem qn_label {S : List QObj} {p : PodObj} (h : p.label ≠ 0) : quotaNameOf S p = p.label := by
  simp [quotaNameOf, h]
theorem qn_own {S : List QObj} {p : PodObj} {q : QObj} (h : p.label = 0)
    (h1 : S.find? (fun q => q.name == p.ns && q.own) = some q) : quotaNameOf S p = q.name := by
  simp [quotaNameOf, h, h1]
theorem qn_nss {S : List QObj} {p : PodObj} {q : QObj} (h : p.label = 0)
    (h1 : S.find? (fun q => q.name == p.ns && q.own) = none)
    (h2 : S.find? (fun q => q.nss.contains p.ns) = some q) : quotaNameOf S p = q.name := by
  unfold quotaNameOf; simp only [h, ne_eq, not_true_eq_false, if_false, h1, h2]
theorem qn_none {S : List QObj} {p : PodObj} (h : p.label = 0)
    (h1 : S.find? (fun q => q.name == p.ns && q.own) = none)
    (h2 : S.find? (fun q => q.nss.contains p.ns) = none) : quotaNameOf S p = dflt := by
  unfold quotaNameOf; simp only [h, ne_eq, not_true_eq_false, if_false, h1, h2]

/-- a pod whose FINAL resolution is the default group resolves to it in every earlier state of the delivery -/
theorem resolve_stable_dflt {s fin : St} {F : List QObj} (p : PodObj)
    (hks : ∀ m, s.known.contains m = true → fin.known.contains m = true)
    (hss : ∀ q ∈ s.store, q ∈ fin.store) (hfF : ∀ q ∈ fin.store, q ∈ F)
    (hu : NssUnique F) (hFk : ∀ q ∈ F, fin.known.contains q.name = true) (hF3 : ∀ q ∈ F, q.name ≠ dflt)
    (hfin : resolve fin p = dflt) : resolve s p = dflt := by
  by_cases hkm : s.known.contains (quotaNameOf s.store p) = true
  · have hrs : resolve s p = quotaNameOf s.store p := by unfold resolve; simp only [hkm, if_true]
    rw [hrs]
    -- the final name is known and, unless it is the same, not the default group
    have key : ∀ m', quotaNameOf fin.store p = m' → fin.known.contains m' = true → m' ≠ dflt → False := by
      intro m' e1 e2 e3
      have : resolve fin p = m' := by unfold resolve; simp only [e1, e2, if_true]
      exact e3 (this.symm.trans hfin)
    by_cases hm : quotaNameOf s.store p = dflt
    · exact hm
    exfalso
    by_cases hl : p.label = 0
    · cases h1 : s.store.find? (fun q => q.name == p.ns && q.own) with
      | some q =>
        have hq := List.find?_some h1
        have hqs := hss q (List.mem_of_find?_eq_some h1)
        rw [qn_own hl h1] at hkm hm
        cases h2 : fin.store.find? (fun q => q.name == p.ns && q.own) with
        | some q' =>
          have hq' := List.find?_some h2
          simp only [Bool.and_eq_true, beq_iff_eq] at hq hq'
          have e : q'.name = q.name := hq'.1.trans hq.1.symm
          exact key q'.name (qn_own hl h2) (by rw [e]; exact hks _ hkm) (by rw [e]; exact hm)
        | none => exact absurd hq (List.find?_eq_none.1 h2 q hqs)
      | none =>
        cases h1' : s.store.find? (fun q => q.nss.contains p.ns) with
        | some q =>
          have hq := List.find?_some h1'
          have hqs := hss q (List.mem_of_find?_eq_some h1')
          rw [qn_nss hl h1 h1'] at hkm hm
          cases h2 : fin.store.find? (fun q => q.name == p.ns && q.own) with
          | some q' =>
            have hq'F := hfF q' (List.mem_of_find?_eq_some h2)
            exact key q'.name (qn_own hl h2) (hFk q' hq'F) (hF3 q' hq'F)
          | none =>
            cases h2' : fin.store.find? (fun q => q.nss.contains p.ns) with
            | some q'' =>
              have hq'' := List.find?_some h2'
              have hq''F := hfF q'' (List.mem_of_find?_eq_some h2')
              simp only [List.contains_eq_mem, decide_eq_true_eq] at hq hq''
              have e : q''.name = q.name := hu q (hfF q hqs) q'' hq''F p.ns hq hq''
              exact key q''.name (qn_nss hl h2 h2') (by rw [e]; exact hks _ hkm) (by rw [e]; exact hm)
            | none => exact absurd hq (List.find?_eq_none.1 h2' q hqs)
        | none => exact hm (qn_none hl h1 h1')
    · rw [qn_label hl] at hkm hm
      exact key p.label (qn_label hl) (hks _ hkm) hm
  · unfold resolve; simp only [hkm, Bool.false_eq_true, if_false]

theorem okOrderW_padd {s fin : St} {seen : Bool} {p : PodObj} {ops : List Op}
    (h : okOrderFrom s fin seen (.padd p :: ops) = true) :
    resolve s p = resolve fin p ∧ okOrderFrom (onPodAdd s p) fin true ops = true := by
  simp only [okOrderFrom, Bool.and_eq_true, beq_iff_eq, Bool.or_true, step] at h; exact h
theorem okOrderW_replace {s fin : St} {seen : Bool} {ops : List Op}
    (h : okOrderFrom s fin seen (.replace :: ops) = true) :
    seen = false ∧ okOrderFrom (replaceQuotas s) fin seen ops = true := by
  simp only [okOrderFrom, Bool.and_eq_true, Bool.or_false, step, Bool.not_eq_true'] at h; exact h
theorem okOrderW_migrate {s fin : St} {seen : Bool} {ops : List Op}
    (h : okOrderFrom s fin seen (.migrate :: ops) = true) : okOrderFrom (migrateAll s) fin seen ops = true := by
  simp only [okOrderFrom, Bool.and_eq_true, Bool.or_false, step, Bool.true_and] at h; exact h
theorem okOrderW_qstore {s fin : St} {seen : Bool} {q : QObj} {ops : List Op}
    (h : okOrderFrom s fin seen (.qstore q :: ops) = true) : okOrderFrom (storePut s q) fin seen ops = true := by
  simp only [okOrderFrom, Bool.and_eq_true, Bool.or_false, step, Bool.true_and] at h; exact h
theorem okOrderW_qput {s fin : St} {seen : Bool} {q : QObj} {ops : List Op}
    (h : okOrderFrom s fin seen (.qput q :: ops) = true) : okOrderFrom (onQuotaPut s q) fin seen ops = true := by
  simp only [okOrderFrom, Bool.and_eq_true, Bool.or_false, step, Bool.true_and] at h; exact h

/-- after the first pod (no ReplaceQuotas any more) the known set only grows -/
theorem deliv_known_mono {fin : St} {F : List QObj} {A : List PodObj} {m : Nat} :
    ∀ (d : List Op) (s : St), d.all (isDeliveryOp F A) = true → okOrderFrom s fin true d = true →
      s.known.contains m = true → (run s d).known.contains m = true := by
  intro d
  induction d with
  | nil => intro s _ _ h; exact h
  | cons op d ih =>
    intro s hd ho h
    simp only [List.all_cons, Bool.and_eq_true] at hd
    obtain ⟨hop, hd⟩ := hd
    show (run (step s op) d).known.contains m = true
    cases op with
    | qstore x => exact ih _ hd (okOrderW_qstore ho) h
    | qput x =>
      exact ih _ hd (okOrderW_qput ho) (by show (onQuotaPut s x).known.contains m = true
                                           rw [onQuotaPut_known, h]; rfl)
    | replace => exact absurd (okOrderW_replace ho).1 (by simp)
    | padd p =>
      exact ih _ hd (okOrderW_padd ho).2 (by simp only [step, onPodAdd, mgrPodAdd_known]; exact h)
    | migrate =>
      exact ih _ hd (okOrderW_migrate ho) (by show (migrateAll s).known.contains m = true
                                              rw [(migrateAll_known_store s).1]; exact h)
    | qdel n => simp [isDeliveryOp] at hop
    | pupd o n => simp [isDeliveryOp] at hop
    | pdel p => simp [isDeliveryOp] at hop
    | resv p => simp [isDeliveryOp] at hop
    | unresv p => simp [isDeliveryOp] at hop

theorem okOrderM_nil (s fin : St) (seen : Bool) : okOrderM s fin seen [] = true := by simp [okOrderM]

theorem okOrderM_cons_padd {s fin : St} {seen : Bool} {p : PodObj} {ops : List Op}
    (h1 : resolve s p = resolve fin p) (h2 : okOrderM (onPodAdd s p) fin true ops = true) :
    okOrderM s fin seen (.padd p :: ops) = true := by
  simp only [okOrderM, Bool.and_eq_true, beq_iff_eq, Bool.or_true, step]; exact ⟨h1, h2⟩
theorem okOrderM_cons_replace {s fin : St} {seen : Bool} {ops : List Op}
    (h1 : seen = false) (h2 : okOrderM (replaceQuotas s) fin seen ops = true) :
    okOrderM s fin seen (.replace :: ops) = true := by
  simp only [okOrderM, Bool.and_eq_true, Bool.or_false, step, Bool.not_eq_true']; exact ⟨h1, h2⟩
theorem okOrderM_cons_migrate {s fin : St} {seen : Bool} {ops : List Op}
    (h1 : s.cache.all (fun e => e.q != dflt || resolve s e.obj == dflt) = true)
    (h2 : okOrderM (migrateAll s) fin seen ops = true) :
    okOrderM s fin seen (.migrate :: ops) = true := by
  simp only [okOrderM, Bool.and_eq_true, Bool.or_false, step]; exact ⟨h1, h2⟩
theorem okOrderM_cons_qstore {s fin : St} {seen : Bool} {q : QObj} {ops : List Op}
    (h2 : okOrderM (storePut s q) fin seen ops = true) : okOrderM s fin seen (.qstore q :: ops) = true := by
  simp only [okOrderM, Bool.and_eq_true, Bool.or_false, step, Bool.true_and]; exact h2
theorem okOrderM_cons_qput {s fin : St} {seen : Bool} {q : QObj} {ops : List Op}
    (h2 : okOrderM (onQuotaPut s q) fin seen ops = true) : okOrderM s fin seen (.qput q :: ops) = true := by
  simp only [okOrderM, Bool.and_eq_true, Bool.or_false, step, Bool.true_and]; exact h2

/-- the extra clause of `okOrderM` follows from the hypotheses of `isDelivery` -/
theorem okOrderM_of_okOrder {fin : St} {A : List PodObj} {F : List QObj} (hnd : NodupIds A)
    (hnn : ∀ o ∈ A, 0 ≤ o.req) (hFn : (F.map (·.name)).Nodup) (hu : NssUnique F)
    (hF3 : ∀ q ∈ F, q.name ≠ dflt) (hFk : ∀ q ∈ F, fin.known.contains q.name = true)
    (hfF : ∀ q ∈ fin.store, q ∈ F) :
    ∀ (d : List Op) (s : St) (seen : Bool), DInv s A (resolve fin) → (∀ q ∈ s.store, q ∈ F) →
      (seen = false → s.cache = []) → run s d = fin → d.all (isDeliveryOp F A) = true →
      okOrderFrom s fin seen d = true → okOrderM s fin seen d = true := by
  intro d
  induction d with
  | nil => intro s seen _ _ _ _ _ _; exact okOrderM_nil _ _ _
  | cons op d ih =>
    intro s seen hD hsF hc hrun hd ho
    have hd0 := hd
    simp only [List.all_cons, Bool.and_eq_true] at hd
    obtain ⟨hop, hd⟩ := hd
    have hrun' : run (step s op) d = fin := hrun
    have hput : ∀ q : QObj, q ∈ F → ∀ x ∈ (storePut s q).store, x ∈ F := by
      intro q hq x hx
      rcases (mem_storePut s q x).1 hx with rfl | hx
      · exact hq
      · exact hsF x hx.1
    cases op with
    | qstore q =>
      exact okOrderM_cons_qstore (ih _ _ (DInv_congr hD rfl rfl rfl hD.k1)
        (hput q (by simpa [isDeliveryOp] using hop)) hc hrun' hd (okOrderW_qstore ho))
    | qput q =>
      exact okOrderM_cons_qput (ih _ _
        (DInv_congr hD (onQuotaPut_cache s q) (onQuotaPut_req s q) (onQuotaPut_used s q)
          (by rw [onQuotaPut_known, hD.k1]; rfl))
        (by rw [onQuotaPut_store]; exact hput q (by simpa [isDeliveryOp] using hop))
        (fun h => by rw [onQuotaPut_cache]; exact hc h) hrun' hd (okOrderW_qput ho))
    | replace =>
      exact okOrderM_cons_replace (okOrderW_replace ho).1 (ih _ _
        (DInv_empty _ _ _ ((replace_known s dflt).2 (Or.inl rfl)) rfl rfl rfl) hsF (fun _ => rfl) hrun' hd
        (okOrderW_replace ho).2)
    | padd p =>
      simp only [isDeliveryOp, List.contains_eq_mem, decide_eq_true_eq] at hop
      have h1 := okOrderW_padd ho
      exact okOrderM_cons_padd h1.1 (ih _ _ (DInv_padd hD hnd hnn hop h1.1)
        (by show ∀ x ∈ (mgrPodAdd s _ p).store, x ∈ F
            rw [mgrPodAdd_store]; exact hsF) (fun h => by cases h) hrun' hd h1.2)
    | migrate =>
      have hnoop : s.cache.all (fun e => e.q != dflt || resolve s e.obj == dflt) = true := by
        cases hs : seen
        · rw [hc hs]; rfl
        · subst hs
          rw [List.all_eq_true]
          intro e he
          by_cases hq : e.q = dflt
          · have hv : (e.q, e.pid, e.obj) ∈ view s := List.mem_map.2 ⟨e, he, rfl⟩
            have hfin : resolve fin e.obj = dflt := by
              have := (hD.obj _ hv).2.2
              simp only at this
              rw [← this, hq]
            have hks : ∀ m, s.known.contains m = true → fin.known.contains m = true := by
              intro m hm; rw [← hrun]; exact deliv_known_mono _ s hd0 ho hm
            have hss : ∀ q ∈ s.store, q ∈ fin.store := by
              intro q hq'; rw [← hrun]; exact deliv_store_mono hFn (hsF q hq') _ s hd0 hq'
            have := resolve_stable_dflt e.obj hks hss hfF hu hFk hF3 hfin
            simp [this]
          · simp [hq]
      have e0 : migrateAll s = s := migrateAll_noop s hnoop
      have h2 := okOrderW_migrate ho
      have hrun'' : run (migrateAll s) d = fin := hrun
      rw [e0] at h2 hrun''
      exact okOrderM_cons_migrate hnoop (by rw [e0]; exact ih _ _ hD hsF hc hrun'' hd h2)
    | qdel n => simp [isDeliveryOp] at hop
    | pupd o n => simp [isDeliveryOp] at hop
    | pdel p => simp [isDeliveryOp] at hop
    | resv p => simp [isDeliveryOp] at hop
    | unresv p => simp [isDeliveryOp] at hop

theorem isDelivery_okOrderM {live : St} {w : World} {d : List Op} (hd : isDelivery live w d = true)
    (hsu : storeUnique live.store = true) (hnd : NodupIds w.alive) (hnn : ∀ o ∈ w.alive, 0 ≤ o.req) :
    okOrderM {} (run {} d) false d = true := by
  obtain ⟨h1, h2, _, h4, h5⟩ := isDelivery_parts hd
  exact okOrderM_of_okOrder hnd hnn (storeUnique_names hsu) (storeUnique_nss hsu)
    (fun q hq => by have := h5 q hq; unfold dflt; omega) (fun q hq => (h2 q hq).2)
    (deliv_store_sub d {} h1 (by intro q hq; cases hq)) d {} false (DInv_init _ _)
    (by intro q hq; cases hq) (fun _ => rfl) rfl h1 h4

/-- **the delivery side**: the rebuilt ledger is the canonical ledger of the final objects, and the closing
    migration tick finds nothing to move -/
theorem fresh_canon {live : St} {w : World} {d : List Op} (hd : isDelivery live w d = true)
    (hsu : storeUnique live.store = true) (hnd : NodupIds w.alive) (hnn : ∀ o ∈ w.alive, 0 ≤ o.req) :
    Canon (run {} d) { alive := w.alive, resvd := [] } ∧ run {} (d ++ [.migrate]) = run {} d := by
  obtain ⟨h1, _, h3, _, _⟩ := isDelivery_parts hd
  have h4 := isDelivery_okOrderM hd hsu hnd hnn
  have hD := DInv_run (fin := run {} d) hnd hnn d {} false (DInv_init _ _) h1 h4
  have hcov : ∀ o ∈ w.alive, hasE (run {} d) (resolve (run {} d) o) o.id = true :=
    fun o ho => deliv_cov d {} false h1 h4 rfl (h3 o ho)
  refine ⟨Canon_of_DInv hD hnd hcov, ?_⟩
  rw [run_append]
  show migrateAll (run {} d) = run {} d
  apply migrateAll_noop
  rw [List.all_eq_true]
  intro e he
  have hv : (e.q, e.pid, e.obj) ∈ view (run {} d) := List.mem_map.2 ⟨e, he, rfl⟩
  have := (hD.obj _ hv).2.2
  simp only at this
  by_cases hq : e.q = dflt
  · rw [← this, hq]; simp
  · simp [hq]

end KoordVerif.C19.Quota
