import KoordVerif.Proofs.C19ExtQuota1
/-
C19 (elasticquota part), helper lemmas 2: the delivery side.  A delivery of the final objects (isDelivery) to a
fresh plugin ends, after the migration tick, in the canonical ledger of those objects.
-/
namespace KoordVerif.C19.Quota

/-- what the pod caches hold, without the assigned flags -/
def view (s : St) : List (Nat × Nat × PodObj) := s.cache.map (fun e => (e.q, e.pid, e.obj))

theorem hasE_view (s : St) (q pid : Nat) :
    hasE s q pid = (view s).any (fun v => v.1 == q && v.2.1 == pid) := by
  simp only [hasE, view, List.any_map]; rfl

theorem view_congr {s t : St} (h : s.cache = t.cache) : view s = view t := by simp [view, h]
@[simp] theorem view_reqD (s : St) (q : Nat) (d : Int) : view (reqD s q d) = view s := view_congr (by simp)
@[simp] theorem view_usedD (s : St) (q : Nat) (d : Int) : view (usedD s q d) = view s := view_congr (by simp)
@[simp] theorem view_setAsg (s : St) (q pid : Nat) (b : Bool) : view (setAsg s q pid b) = view s := by
  simp only [view, setAsg, List.map_map]
  congr 1; funext e; simp only [Function.comp]; split <;> rfl
theorem view_delE (s : St) (q pid : Nat) :
    view (delE s q pid) = (view s).filter (fun v => !(v.1 == q && v.2.1 == pid)) := by
  simp only [view, delE, List.filter_map]; rfl
theorem view_addE (s : St) (q : Nat) (p : PodObj) :
    view (addE s q p) = if hasE s q p.id then view s else (q, p.id, p) :: view s := by
  unfold addE; split <;> simp [view]

theorem resolve_known (s : St) (p : PodObj) (h : s.known.contains dflt = true) :
    s.known.contains (resolve s p) = true := by
  simp only [resolve]; split <;> assumption

/-- changing the predicate at one pod, explicit values -/
theorem sumBy_point' {l : List PodObj} (hnd : NodupIds l) {o : PodObj} (ho : o ∈ l) (f g : PodObj → Bool)
    (hfg : ∀ x ∈ l, x.id ≠ o.id → f x = g x) (a b : Bool) (ha : f o = a) (hb : g o = b) :
    sumBy l f = sumBy l g + (if a then o.req else 0) - (if b then o.req else 0) := by
  have := sumBy_point hnd ho f g hfg
  rw [ha, hb] at this; omega

/-! ### OnPodAdd -/

theorem mgrPodAdd_known (s : St) (q : Nat) (p : PodObj) : (mgrPodAdd s q p).known = s.known := by
  unfold mgrPodAdd; split
  · rfl
  · simp only; split <;> simp
theorem mgrPodAdd_store (s : St) (q : Nat) (p : PodObj) : (mgrPodAdd s q p).store = s.store := by
  unfold mgrPodAdd; split
  · rfl
  · simp only; split <;> simp

theorem hasE_mgrPodAdd (s : St) (q : Nat) (p : PodObj) (q' pid : Nat) :
    hasE (mgrPodAdd s q p) q' pid = (hasE s q' pid || (s.known.contains q && (q' == q && pid == p.id))) := by
  unfold mgrPodAdd
  by_cases hk : s.known.contains q = true
  · by_cases hn : hasE s q p.id = true
    · simp only [hk, hn, Bool.not_true, Bool.false_or, if_true, Bool.true_and]
      by_cases hq : q' = q ∧ pid = p.id
      · obtain ⟨rfl, rfl⟩ := hq; simp [hn]
      · have : (q' == q && pid == p.id) = false := by
          simp only [Bool.and_eq_false_iff, beq_eq_false_iff_ne]
          by_cases h1 : q' = q
          · exact Or.inr (fun h2 => hq ⟨h1, h2⟩)
          · exact Or.inl h1
        simp [this]
    · simp only [Bool.not_eq_true] at hn
      simp only [hk, hn, Bool.not_true, Bool.or_false, Bool.false_eq_true, if_false, Bool.true_and]
      split <;> simp [hasE_setAsg, hasE_addE]
  · simp only [Bool.not_eq_true] at hk
    simp [hk]

theorem mgrPodAdd_eff (s : St) (q : Nat) (p : PodObj) (hk : s.known.contains q = true)
    (hn : hasE s q p.id = false) (hr : 0 ≤ getC s.req q + p.req) (hu : 0 ≤ getC s.used q + p.req) :
    view (mgrPodAdd s q p) = (q, p.id, p) :: view s ∧
    (∀ q' pid, isAssigned (mgrPodAdd s q p) q' pid =
        (isAssigned s q' pid || (q' == q && pid == p.id && bound p))) ∧
    (∀ q', getC (mgrPodAdd s q p).req q' = getC s.req q' + if q' = q then p.req else 0) ∧
    (∀ q', getC (mgrPodAdd s q p).used q' = getC s.used q' + if q' = q ∧ bound p = true then p.req else 0) := by
  have ha : isAssigned s q p.id = false := isAssigned_of_not_hasE _ _ _ hn
  unfold mgrPodAdd
  simp only [hk, hn, Bool.not_true, Bool.or_false, Bool.false_eq_true, if_false, isAssigned_reqD,
    isAssigned_addE, ha, Bool.not_false, Bool.and_true]
  by_cases hb : bound p = true
  · simp only [hb, if_true]
    refine ⟨?_, ?_, ?_, ?_⟩
    · simp [view_addE, hn]
    · intro q' pid
      simp only [isAssigned_usedD, isAssigned_setAsg, isAssigned_reqD, isAssigned_addE, hasE_reqD, hasE_addE]
      by_cases hq : q' = q ∧ pid = p.id
      · obtain ⟨rfl, rfl⟩ := hq; simp
      · have : (q' == q && pid == p.id) = false := by
          simp only [Bool.and_eq_false_iff, beq_eq_false_iff_ne]
          by_cases h1 : q' = q
          · exact Or.inr (fun h2 => hq ⟨h1, h2⟩)
          · exact Or.inl h1
        simp [hq, this]
    · intro q'
      simp only [usedD_req, setAsg_req]
      rw [reqD_req _ _ _ _ (by simpa using hr)]; simp
    · intro q'
      rw [usedD_used _ _ _ _ (by simpa using hu)]; simp
  · simp only [hb, if_false, Bool.false_eq_true]
    simp only [Bool.not_eq_true] at hb
    refine ⟨?_, ?_, ?_, ?_⟩
    · simp [view_addE, hn]
    · intro q' pid; simp [isAssigned_addE, hb]
    · intro q'
      rw [reqD_req _ _ _ _ (by simpa using hr)]; simp
    · intro q'; simp [hb]

/-! ### quota handlers -/

theorem fold_known_contains (l : List Nat) (k : List Nat) (m : Nat) :
    (l.foldl (fun k n => if k.contains n then k else n :: k) k).contains m = (k.contains m || l.contains m) := by
  induction l generalizing k with
  | nil => simp
  | cons a l ih =>
    simp only [List.foldl_cons, ih]
    by_cases h : k.contains a = true
    · simp only [h, if_true, List.contains_cons]
      by_cases hm : m = a
      · subst hm; simp [h]
      · have : (m == a) = false := by simp [hm]
        simp [this]
    · simp only [h, if_false, Bool.false_eq_true, List.contains_cons]
      cases (m == a) <;> simp

theorem replace_known (s : St) (m : Nat) :
    (replaceQuotas s).known.contains m = (m == 1 || m == 2 || (s.store.map (·.name)).contains m) := by
  simp only [replaceQuotas, fold_known_contains]
  simp [List.contains_cons]

theorem migrateAll_noop (s : St)
    (h : s.cache.all (fun e => e.q != dflt || resolve s e.obj == dflt) = true) : migrateAll s = s := by
  unfold migrateAll
  have : ∀ e ∈ s.cache.filter (fun e => e.q == dflt), resolve s e.obj = dflt := by
    intro e he
    simp only [List.mem_filter, beq_iff_eq] at he
    have := List.all_eq_true.1 h e he.1
    simpa [he.2] using this
  generalize s.cache.filter (fun e => e.q == dflt) = L at this
  induction L with
  | nil => rfl
  | cons e L ih =>
    simp only [List.foldl_cons, this e (by simp), if_true]
    exact ih (fun x hx => this x (by simp [hx]))

/-! ### the delivery invariant (the objects `A` and the final resolution `rf` are fixed) -/

structure DInv (s : St) (A : List PodObj) (rf : PodObj → Nat) : Prop where
  k1 : s.known.contains dflt = true
  obj : ∀ v ∈ view s, v.2.2 ∈ A ∧ v.2.1 = v.2.2.id ∧ v.1 = rf v.2.2
  asg : ∀ o ∈ A, ∀ q, isAssigned s q o.id = (hasE s q o.id && bound o)
  req : ∀ q, getC s.req q = sumBy A (fun o => hasE s q o.id)
  used : ∀ q, getC s.used q = sumBy A (fun o => isAssigned s q o.id)

theorem DInv.loc {s : St} {A : List PodObj} {rf : PodObj → Nat} (h : DInv s A rf) {q pid : Nat}
    (he : hasE s q pid = true) : ∃ o ∈ A, o.id = pid ∧ q = rf o := by
  rw [hasE_view, List.any_eq_true] at he
  obtain ⟨v, hv, hq⟩ := he
  simp only [Bool.and_eq_true, beq_iff_eq] at hq
  obtain ⟨h1, h2, h3⟩ := h.obj v hv
  exact ⟨v.2.2, h1, by rw [← h2, hq.2], by rw [← h3, hq.1]⟩

theorem DInv_congr {s t : St} {A : List PodObj} {rf : PodObj → Nat} (h : DInv s A rf)
    (hc : t.cache = s.cache) (hr : t.req = s.req) (hu : t.used = s.used)
    (hk : t.known.contains dflt = true) : DInv t A rf := by
  have h1 : ∀ q pid, hasE t q pid = hasE s q pid := fun q pid => hasE_congr hc q pid
  have h2 : ∀ q pid, isAssigned t q pid = isAssigned s q pid := fun q pid => isAssigned_congr hc q pid
  refine ⟨hk, ?_, ?_, ?_, ?_⟩
  · rw [view_congr hc]; exact h.obj
  · intro o ho q; rw [h1, h2]; exact h.asg o ho q
  · intro q; rw [hr]; simp only [h1]; exact h.req q
  · intro q; rw [hu]; simp only [h2]; exact h.used q

theorem DInv_empty (s : St) (A : List PodObj) (rf : PodObj → Nat) (hk : s.known.contains dflt = true)
    (hc : s.cache = []) (hr : s.req = []) (hu : s.used = []) : DInv s A rf := by
  have h1 : ∀ q pid, hasE s q pid = false := fun q pid => by simp [hasE, hc]
  have h2 : ∀ q pid, isAssigned s q pid = false := fun q pid => by simp [isAssigned, hc]
  refine ⟨hk, ?_, ?_, ?_, ?_⟩
  · simp [view, hc]
  · intro o _ q; simp [h1, h2]
  · intro q; rw [hr, sumBy_false (fun o _ => h1 q o.id)]; rfl
  · intro q; rw [hu, sumBy_false (fun o _ => h2 q o.id)]; rfl

theorem onQuotaPut_cache (s : St) (q : QObj) : (onQuotaPut s q).cache = s.cache := by
  unfold onQuotaPut storePut; simp only; split <;> rfl
theorem onQuotaPut_req (s : St) (q : QObj) : (onQuotaPut s q).req = s.req := by
  unfold onQuotaPut storePut; simp only; split <;> rfl
theorem onQuotaPut_used (s : St) (q : QObj) : (onQuotaPut s q).used = s.used := by
  unfold onQuotaPut storePut; simp only; split <;> rfl
theorem onQuotaPut_store (s : St) (q : QObj) : (onQuotaPut s q).store = (storePut s q).store := by
  unfold onQuotaPut; simp only; split <;> rfl
theorem onQuotaPut_known (s : St) (q : QObj) (m : Nat) :
    (onQuotaPut s q).known.contains m = (s.known.contains m || m == q.name) := by
  unfold onQuotaPut storePut; simp only
  split
  · rename_i h
    by_cases hm : m = q.name
    · subst hm; simp [h]
    · have : (m == q.name) = false := by simp [hm]
      simp [this]
  · simp only [List.contains_cons]; rw [Bool.or_comm]

theorem DInv_padd {s : St} {A : List PodObj} {rf : PodObj → Nat} (h : DInv s A rf)
    (hnd : NodupIds A) (hnn : ∀ o ∈ A, 0 ≤ o.req) {p : PodObj} (hp : p ∈ A) (hres : resolve s p = rf p) :
    DInv (onPodAdd s p) A rf := by
  unfold onPodAdd
  have hk := resolve_known s p h.k1
  by_cases hn : hasE s (resolve s p) p.id = true
  · have : mgrPodAdd s (resolve s p) p = s := by unfold mgrPodAdd; simp [hn]
    rw [this]; exact h
  · simp only [Bool.not_eq_true] at hn
    have hnone : ∀ q, hasE s q p.id = false := by
      intro q
      cases hq : hasE s q p.id
      · rfl
      · obtain ⟨o, ho, hid, hqq⟩ := h.loc hq
        have : o = p := hnd.eq_of_id ho hp hid
        subst this
        rw [hqq, ← hres, hn] at hq; cases hq
    have hanone : ∀ q, isAssigned s q p.id = false := fun q => isAssigned_of_not_hasE _ _ _ (hnone q)
    have hr0 : 0 ≤ getC s.req (resolve s p) + p.req := by
      rw [h.req]; have := sumBy_nonneg (fun o => hasE s (resolve s p) o.id) hnn; have := hnn p hp; omega
    have hu0 : 0 ≤ getC s.used (resolve s p) + p.req := by
      rw [h.used]; have := sumBy_nonneg (fun o => isAssigned s (resolve s p) o.id) hnn; have := hnn p hp; omega
    obtain ⟨ev, ea, er, eu⟩ := mgrPodAdd_eff s (resolve s p) p hk hn hr0 hu0
    have eh := hasE_mgrPodAdd s (resolve s p) p
    simp only [hk, Bool.true_and] at eh
    have hkn := mgrPodAdd_known s (resolve s p) p
    generalize mgrPodAdd s (resolve s p) p = s' at ev ea er eu eh hkn ⊢
    refine ⟨by rw [hkn]; exact h.k1, ?_, ?_, ?_, ?_⟩
    · intro v hv; rw [ev] at hv
      rcases List.mem_cons.1 hv with rfl | hv
      · exact ⟨hp, rfl, hres⟩
      · exact h.obj v hv
    · intro o ho q
      rw [ea, eh, h.asg o ho q]
      by_cases hid : o.id = p.id
      · have : o = p := hnd.eq_of_id ho hp hid
        subst this
        simp only [hnone, beq_self_eq_true, Bool.and_true, Bool.false_and, Bool.false_or]
      · have : (o.id == p.id) = false := by simp [hid]
        simp [this]
    · intro q
      rw [er, h.req q]
      rw [sumBy_point' hnd hp (fun o => hasE s' q o.id) (fun o => hasE s q o.id)
        (fun x _ hne => by simp only [eh]; simp [hne]) (q == resolve s p) false (by simp [eh, hnone]) (hnone q)]
      by_cases hq : q = resolve s p <;> simp [hq]
    · intro q
      rw [eu, h.used q]
      rw [sumBy_point' hnd hp (fun o => isAssigned s' q o.id) (fun o => isAssigned s q o.id)
        (fun x _ hne => by simp only [ea]; simp [hne]) (q == resolve s p && bound p) false
        (by simp [ea, hanone]) (hanone q)]
      by_cases hq : q = resolve s p <;> cases bound p <;> simp [hq]

/-! ### running a delivery -/

theorem okOrder_cons (s fin : St) (seen : Bool) (op : Op) (ops : List Op) :
    okOrderFrom s fin seen (op :: ops) =
      ((match op with
        | .padd p => resolve s p == resolve fin p
        | .replace => !seen
        | .migrate => s.cache.all (fun e => e.q != dflt || resolve s e.obj == dflt)
        | _ => true) &&
       okOrderFrom (step s op) fin (seen || (match op with | .padd _ => true | _ => false)) ops) := by
  simp only [okOrderFrom]

theorem DInv_step {s fin : St} {A : List PodObj} {F : List QObj} (h : DInv s A (resolve fin))
    (hnd : NodupIds A) (hnn : ∀ o ∈ A, 0 ≤ o.req) {op : Op} {seen : Bool} {ops : List Op}
    (hop : isDeliveryOp F A op = true) (ho : okOrderFrom s fin seen (op :: ops) = true) :
    DInv (step s op) A (resolve fin) := by
  rw [okOrder_cons, Bool.and_eq_true] at ho
  cases op with
  | qstore q => exact DInv_congr h rfl rfl rfl h.k1
  | qput q =>
    exact DInv_congr h (onQuotaPut_cache s q) (onQuotaPut_req s q) (onQuotaPut_used s q)
      (by rw [onQuotaPut_known, h.k1]; rfl)
  | replace => exact DInv_empty _ _ _ (by rw [replace_known]; rfl) rfl rfl rfl
  | padd p =>
    simp only [isDeliveryOp, List.contains_eq_mem, decide_eq_true_eq] at hop
    exact DInv_padd h hnd hnn hop (by simpa using ho.1)
  | migrate => simp only [step]; rw [migrateAll_noop s ho.1]; exact h
  | qdel n => simp [isDeliveryOp] at hop
  | pupd o n => simp [isDeliveryOp] at hop
  | pdel p => simp [isDeliveryOp] at hop
  | resv p => simp [isDeliveryOp] at hop
  | unresv p => simp [isDeliveryOp] at hop

theorem DInv_run {fin : St} {A : List PodObj} {F : List QObj} (hnd : NodupIds A) (hnn : ∀ o ∈ A, 0 ≤ o.req) :
    ∀ (d : List Op) (s : St) (seen : Bool), DInv s A (resolve fin) → d.all (isDeliveryOp F A) = true →
      okOrderFrom s fin seen d = true → DInv (run s d) A (resolve fin) := by
  intro d
  induction d with
  | nil => intro s _ h _ _; exact h
  | cons op d ih =>
    intro s seen h hd ho
    simp only [List.all_cons, Bool.and_eq_true] at hd
    have h1 := DInv_step h hnd hnn hd.1 ho
    rw [okOrder_cons, Bool.and_eq_true] at ho
    exact ih (step s op) _ h1 hd.2 ho.2

/-- once a pod has been delivered nothing of a delivery removes a cache entry -/
theorem deliv_hasE_mono {fin : St} {A : List PodObj} {F : List QObj} {q pid : Nat} :
    ∀ (d : List Op) (s : St), d.all (isDeliveryOp F A) = true → okOrderFrom s fin true d = true →
      hasE s q pid = true → hasE (run s d) q pid = true := by
  intro d
  induction d with
  | nil => intro s _ _ h; exact h
  | cons op d ih =>
    intro s hd ho h
    simp only [List.all_cons, Bool.and_eq_true] at hd
    rw [okOrder_cons, Bool.and_eq_true] at ho
    have : hasE (step s op) q pid = true := by
      cases op with
      | qstore x => exact h
      | qput x => rw [hasE_congr (onQuotaPut_cache s x)]; exact h
      | replace => simp at ho
      | padd p => simp only [step, onPodAdd, hasE_mgrPodAdd, h, Bool.true_or]
      | migrate => simp only [step]; rw [migrateAll_noop s ho.1]; exact h
      | qdel n => simp [isDeliveryOp] at hd
      | pupd o n => simp [isDeliveryOp] at hd
      | pdel p => simp [isDeliveryOp] at hd
      | resv p => simp [isDeliveryOp] at hd
      | unresv p => simp [isDeliveryOp] at hd
    have hs : (true || (match op with | .padd _ => true | _ => false)) = true := by simp
    rw [hs] at ho
    exact ih (step s op) hd.2 ho.2 this

theorem deliv_k1 {fin : St} {A : List PodObj} {F : List QObj} {s : St} {op : Op} {seen : Bool} {ops : List Op}
    (hop : isDeliveryOp F A op = true) (ho : okOrderFrom s fin seen (op :: ops) = true)
    (h : s.known.contains dflt = true) : (step s op).known.contains dflt = true := by
  rw [okOrder_cons, Bool.and_eq_true] at ho
  cases op with
  | qstore q => exact h
  | qput q => rw [onQuotaPut_known, h]; rfl
  | replace => rw [replace_known]; rfl
  | padd p => simp only [step, onPodAdd, mgrPodAdd_known]; exact h
  | migrate => simp only [step]; rw [migrateAll_noop s ho.1]; exact h
  | qdel n => simp [isDeliveryOp] at hop
  | pupd o n => simp [isDeliveryOp] at hop
  | pdel p => simp [isDeliveryOp] at hop
  | resv p => simp [isDeliveryOp] at hop
  | unresv p => simp [isDeliveryOp] at hop

theorem deliv_cov {fin : St} {A : List PodObj} {F : List QObj} {p : PodObj} :
    ∀ (d : List Op) (s : St) (seen : Bool), d.all (isDeliveryOp F A) = true → okOrderFrom s fin seen d = true →
      s.known.contains dflt = true → d.contains (.padd p) = true →
      hasE (run s d) (resolve fin p) p.id = true := by
  intro d
  induction d with
  | nil => intro s _ _ _ _ h; simp at h
  | cons op d ih =>
    intro s seen hd ho hk hc
    have hk' := deliv_k1 (List.all_cons ▸ Bool.and_eq_true _ _ ▸ hd).1 ho hk
    simp only [List.all_cons, Bool.and_eq_true] at hd
    have ho' := ho
    rw [okOrder_cons, Bool.and_eq_true] at ho'
    by_cases hop : op = .padd p
    · subst hop
      have h1 : resolve s p = resolve fin p := by simpa using ho'.1
      have h2 : hasE (step s (.padd p)) (resolve fin p) p.id = true := by
        simp only [step, onPodAdd, hasE_mgrPodAdd, resolve_known s p hk, h1]; simp
      have hs : (seen || (match Op.padd p with | .padd _ => true | _ => false)) = true := by simp
      rw [hs] at ho'
      exact deliv_hasE_mono d _ hd.2 ho'.2 h2
    · have : d.contains (.padd p) = true := by
        simp only [List.contains_cons, Bool.or_eq_true, beq_iff_eq] at hc
        rcases hc with hc | hc
        · exact absurd hc.symm hop
        · exact hc
      exact ih (step s op) _ hd.2 ho'.2 hk' this

end KoordVerif.C19.Quota
