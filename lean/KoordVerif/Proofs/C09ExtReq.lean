import KoordVerif.Props.C09
/-
C09 extension — policy = request: the strongest true statements about what the code guarantees.
-/
namespace KoordVerif.C09

/-- memory, policy=request — EXACT value: min(cap limit, max(capacity − margin − reservation − Σ HP requests, 0));
    system usage does not enter at all. -/
theorem batch_mem_request_exact (cl : Option Int) (cap margin reserved sys hpReq hpUsed hpMax : Int) :
    byPolicy .mem .request cl cap margin reserved sys hpReq hpUsed hpMax =
      match cl with
      | none => max (cap - margin - reserved - hpReq) 0
      | some l => min l (max (cap - margin - reserved - hpReq) 0) := by
  unfold byPolicy pickPolicy
  cases cl with
  | none => simp
  | some l => simp; split <;> omega

/-- cpu, policy=request — EXACT value: the one of policy=usage (the request policy does not exist for cpu). -/
theorem batch_cpu_request_exact (cl : Option Int) (cap margin reserved sys hpReq hpUsed hpMax : Int) :
    byPolicy .cpu .request cl cap margin reserved sys hpReq hpUsed hpMax =
      byPolicy .cpu .usage cl cap margin reserved sys hpReq hpUsed hpMax := by
  unfold byPolicy pickPolicy; rfl

/-- memory, policy=request: the amount exceeds the statement's bound by at most the part of the system usage
    that is not covered by the reservation, (sys − reserved)⁺ … -/
theorem batch_upper_mem_request_slack (cl : Option Int) (cap margin reserved sys hpReq hpUsed hpMax : Int) :
    byPolicy .mem .request cl cap margin reserved sys hpReq hpUsed hpMax ≤
      max (cap - margin - max sys reserved - literalHP .request hpReq hpUsed hpMax) 0 + max (sys - reserved) 0 := by
  unfold byPolicy pickPolicy literalHP
  cases cl with
  | none => simp; omega
  | some l => simp; split <;> omega

/-- … hence the statement's bound holds as soon as the reservation covers the system usage (decidable; the harness
    evaluates the literal bound on every run and classifies an excess by exactly this slack). -/
theorem batch_upper_mem_request_covered (cl : Option Int) (cap margin reserved sys hpReq hpUsed hpMax : Int)
    (h : sys ≤ reserved) :
    byPolicy .mem .request cl cap margin reserved sys hpReq hpUsed hpMax ≤
      max (cap - margin - max sys reserved - literalHP .request hpReq hpUsed hpMax) 0 := by
  have := batch_upper_mem_request_slack cl cap margin reserved sys hpReq hpUsed hpMax
  omega

/-- the slack is attained: cap 100, system usage 30, nothing reserved ⇒ 100 = 70 + 30. -/
theorem batch_upper_mem_request_slack_tight :
    byPolicy .mem .request none 100 0 0 30 0 0 0 = max (100 - 0 - max 30 0 - literalHP .request 0 0 0) 0 + max (30 - 0) 0 := by decide

/-- cpu, policy=request: the amount exceeds the request-based bound by at most (Σ HP requests − Σ HP charged usage)⁺ … -/
theorem batch_upper_cpu_request_slack (cl : Option Int) (cap margin reserved sys hpReq hpUsed hpMax : Int) :
    byPolicy .cpu .request cl cap margin reserved sys hpReq hpUsed hpMax ≤
      max (cap - margin - max sys reserved - literalHP .request hpReq hpUsed hpMax) 0 + max (hpReq - hpUsed) 0 := by
  unfold byPolicy pickPolicy literalHP
  cases cl with
  | none => simp; omega
  | some l => simp; split <;> omega

/-- … hence the request-based bound holds whenever the HP pods are charged at least their requests. -/
theorem batch_upper_cpu_request_covered (cl : Option Int) (cap margin reserved sys hpReq hpUsed hpMax : Int)
    (h : hpReq ≤ hpUsed) :
    byPolicy .cpu .request cl cap margin reserved sys hpReq hpUsed hpMax ≤
      max (cap - margin - max sys reserved - literalHP .request hpReq hpUsed hpMax) 0 := by
  have := batch_upper_cpu_request_slack cl cap margin reserved sys hpReq hpUsed hpMax
  omega

/-- the slack is attained: one HP pod requesting 40 and using 10 ⇒ 90 = 60 + 30. -/
theorem batch_upper_cpu_request_slack_tight :
    byPolicy .cpu .request none 100 0 0 0 40 10 40 = max (100 - 0 - max 0 0 - literalHP .request 40 10 40) 0 + max (40 - 10) 0 := by decide

/-- node level, policy=request, both dimensions, in the terms of the statement: the bound of the statement plus
    the exact slack of the dimension. -/
def requestSlack (k : PrioConsts) (n : NodeIn) (hs : List HostApp) (ps : List RPod) (dg : List Metric) : Dim → Int
  | .mem => max (n.sys .mem + hostHPUsed k .batch hs .mem - nodeReserved n .mem) 0
  | .cpu => max (hpReq .cpu ps - hpUsed .cpu ps dg) 0

theorem batch_upper_request (F : FloatOps) (k : PrioConsts) (s : Strategy) (n : NodeIn) (hs : List HostApp)
    (pods : List PodIn) (ms : List Metric) (d : Dim) (hpol : s.pol d = .request) :
    nodeBatch F k s n hs pods ms d ≤
      max (n.cap d - safetyMargin F s d (n.cap d) - max (n.sys d + hostHPUsed k .batch hs d) (nodeReserved n d)
            - hpReq d (resolvePods pods (metricMap ms))) 0
        + requestSlack k n hs (resolvePods pods (metricMap ms)) (dangling pods (metricMap ms)) d := by
  unfold nodeBatch nodeBatchR requestSlack
  rw [hpol]
  cases d
  · exact batch_upper_cpu_request_slack _ _ _ _ _ _ _ _
  · exact batch_upper_mem_request_slack _ _ _ _ _ _ _ _

/-- under every policy (request included) the amount never exceeds capacity − margin − reservation (clamped):
    the weakest consumption term is always subtracted. -/
theorem batch_upper_any_policy (d : Dim) (pol : Policy) (cl : Option Int) (cap margin reserved sys hpReq hpUsed hpMax : Int)
    (h1 : 0 ≤ hpReq) (h2 : 0 ≤ hpUsed) (h3 : 0 ≤ hpMax) :
    byPolicy d pol cl cap margin reserved sys hpReq hpUsed hpMax ≤ max (cap - margin - reserved) 0 := by
  unfold byPolicy pickPolicy
  cases cl with
  | none => cases d <;> cases pol <;> simp <;> omega
  | some l => cases d <;> cases pol <;> simp <;> split <;> omega

end KoordVerif.C09
