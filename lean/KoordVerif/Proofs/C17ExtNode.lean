import KoordVerif.Proofs.C17Flow
/-
C17 extension — the node clause over ALL histories and ALL write-fault masks, under an explicit decidable
restriction on the environment events (`restricted`): once the job has recorded its target node, no event
puts the reservation or the pod on a NEW node.

  envDiffer e      : the reservation's node, if any, is not the pod's node (Bool)
  nodeRecorded s   : ¬ NCs s (Bool)
  NodeInv w        : nodeRecorded w.job.status → envDiffer w.env          (world invariant)
  NIm m            : envDiffer m.env ∨ NC m                                (in-flight invariant of one reconcile)

Every stage of the model preserves `NIm` (lemmas `ni_*`), whatever write fails; the only stage that records the
node (`prepareScheduleSuccess`) does so after `sameNode … = false`, i.e. with `envDiffer` established.
-/
namespace KoordVerif.C17

/-- the reservation's node, if it has one, is not the node of the pod (if both exist) -/
def envDiffer (e : Env) : Bool :=
  match e.resv, e.pod with
  | some r, some p => r.node == 0 || r.node != p.node
  | _, _ => true

/-- ¬ NCs : the job has recorded its target node (Status.NodeName set or ReservationScheduled=True) -/
def nodeRecorded (s : Status) : Bool := s.node != 0 || condTrue s.conds CT.resvScheduled

/-- admissible environment event in world `w`: once the job has recorded its target node, no event puts the
    reservation on a new node (it may be deleted, or re-created unscheduled) and no event puts the pod on a new node -/
def okEvent (w : World) : Op → Bool
  | .resv (some r') => !nodeRecorded w.job.status || r'.node == 0 ||
      (match w.env.resv with | some r => r.node == r'.node | none => false)
  | .pod (some p') => !nodeRecorded w.job.status || p'.node == 0 ||
      (match w.env.pod with | some p => p.node == p'.node | none => false)
  | _ => true

def restricted : World → List Op → Bool
  | _, [] => true
  | w, op :: ops => okEvent w op && restricted (step w op).1 ops

def NodeInv (w : World) : Prop := nodeRecorded w.job.status = true → envDiffer w.env = true

/-! ### envDiffer / nodeRecorded facts -/

theorem envDiffer_iff (e : Env) :
    envDiffer e = true ↔ ∀ r p, e.resv = some r → e.pod = some p → r.node ≠ 0 → r.node ≠ p.node := by
  constructor
  · intro h r p hr hp hn
    unfold envDiffer at h
    rw [hr, hp] at h
    simp only [Bool.or_eq_true, beq_iff_eq, bne_iff_ne, ne_eq] at h
    rcases h with h | h
    · exact absurd h hn
    · exact h
  · intro h
    unfold envDiffer
    split
    · rename_i r p hr hp
      by_cases h0 : r.node = 0
      · simp [h0]
      · have := h r p hr hp h0
        simp [this]
    · rfl

theorem envDiffer_noResv {e : Env} (h : e.resv = none) : envDiffer e = true := by
  rw [envDiffer_iff]
  intro r p hr
  rw [h] at hr; cases hr

theorem envDiffer_noPod {e : Env} (h : e.pod = none) : envDiffer e = true := by
  rw [envDiffer_iff]
  intro r p _ hp
  rw [h] at hp; cases hp

theorem envDiffer_node0 {e : Env} {r : Resv} (hr : e.resv = some r) (h0 : r.node = 0) : envDiffer e = true := by
  rw [envDiffer_iff]
  intro r' p hr' _ hn
  rw [hr] at hr'; cases hr'
  exact absurd h0 hn

/-- the reservation is replaced by one on the same node, the pod by one on the same node -/
theorem envDiffer_congr {e e' : Env} (h : envDiffer e = true)
    (hr : ∀ r', e'.resv = some r' → ∃ r, e.resv = some r ∧ r.node = r'.node)
    (hp : ∀ p', e'.pod = some p' → ∃ p, e.pod = some p ∧ p.node = p'.node) : envDiffer e' = true := by
  rw [envDiffer_iff] at h ⊢
  intro r' p' hr' hp' hn
  obtain ⟨r, hre, hrn⟩ := hr r' hr'
  obtain ⟨p, hpe, hpn⟩ := hp p' hp'
  rw [← hrn, ← hpn]
  exact h r p hre hpe (by rw [hrn]; exact hn)

theorem sameNode_false_differ {e : Env} {r : Resv} (hr : e.resv = some r) (hs : sameNode e.pod r.node = false) :
    envDiffer e = true := by
  rw [envDiffer_iff]
  intro r' p hr' hp _
  rw [hr] at hr'; cases hr'
  simp only [sameNode, hp, beq_eq_false_iff_ne, ne_eq] at hs
  exact hs

theorem ncs_iff (s : Status) : NCs s ↔ nodeRecorded s = false := by
  unfold NCs nodeRecorded
  simp only [Bool.or_eq_false_iff, bne_eq_false_iff_eq]

/-! ### the in-flight invariant -/

def NIm (m : M) : Prop := envDiffer m.env = true ∨ NC m

theorem NIm.of_eq {m m' : M} (h : NIm m) (he : m'.env = m.env) (hn : NC m → NC m') : NIm m' := by
  rcases h with h | h
  · exact Or.inl (by rw [he]; exact h)
  · exact Or.inr (hn h)

theorem nim_init {w : World} (h : NodeInv w) (f : Nat) : NIm (M.init w f) := by
  by_cases hr : nodeRecorded w.job.status = true
  · exact Or.inl (h hr)
  · have hn : NCs w.job.status := (ncs_iff _).2 (by simpa using hr)
    exact Or.inr ⟨hn, hn⟩

theorem nodeInv_of_nim {m : M} (h : NIm m) : NodeInv { job := m.api, env := m.env } := by
  intro hrec
  rcases h with h | h
  · exact h
  · have := (ncs_iff _).1 h.2
    rw [this] at hrec; cases hrec

/-! ### primitives -/

theorem ni_logw {m : M} (h : NIm m) (k : ActK) (a : Nat) : NIm (m.logw k a) := h
theorem ni_logAct {m : M} (h : NIm m) (a : Act) : NIm (m.logAct a) := h
theorem ni_setSpec {m : M} (h : NIm m) (f : Spec → Spec) : NIm (m.setSpec f) := h

theorem env_statusUpdate (m : M) : m.statusUpdate.2.env = m.env := by
  unfold M.statusUpdate; split <;> rfl

theorem env_jobUpdate (m : M) : m.jobUpdate.2.env = m.env := by
  unfold M.jobUpdate; split <;> rfl

theorem env_updateCondition (m : M) (c : Cond) : (updateCondition m c).2.env = m.env := by
  unfold updateCondition
  split
  · rw [env_statusUpdate]; rfl
  · rfl

theorem ni_statusUpdate {m : M} (h : NIm m) : NIm m.statusUpdate.2 :=
  h.of_eq (env_statusUpdate m) (fun hn => nc_statusUpdate hn)

theorem ni_jobUpdate {m : M} (h : NIm m) : NIm m.jobUpdate.2 :=
  h.of_eq (env_jobUpdate m) (fun hn => nc_jobUpdate hn)

theorem ni_setStatus {m : M} (h : NIm m) (f : Status → Status) (hf : NCs m.mem.status → NCs (f m.mem.status)) :
    NIm (m.setStatus f) :=
  h.of_eq rfl (fun hn => ⟨hf hn.1, hn.2⟩)

theorem ni_setConds {m : M} {c : Cond} (h : NIm m) (hc : c.ty ≠ CT.resvScheduled ∨ c.st = false) :
    NIm (m.setStatus fun s => { s with conds := (setCond m.mem.status.conds c).1 }) :=
  ni_setStatus h _ (fun hn => ⟨hn.1, condTrue_setCond hn.2 hc⟩)

theorem ni_updateCondition {m : M} {c : Cond} (h : NIm m) (hc : c.ty ≠ CT.resvScheduled ∨ c.st = false) :
    NIm (updateCondition m c).2 := by
  unfold updateCondition
  split
  · exact ni_statusUpdate (ni_setStatus (ni_setConds h hc) _ (fun hn => hn))
  · exact ni_setConds h hc

theorem ni_updateCondition_env {m : M} (c : Cond) (h : envDiffer m.env = true) : NIm (updateCondition m c).2 :=
  Or.inl (by rw [env_updateCondition]; exact h)

theorem ni_abortWith {m : M} (h : NIm m) (reason : Nat) : NIm (abortWith m reason) := by
  unfold abortWith
  exact ni_statusUpdate (ni_setStatus h _ (fun hn => hn))

theorem ni_okOr {r : Bool × M} (h : NIm r.2) : NIm (okOr r).m := by
  unfold okOr
  split <;> exact h

theorem ni_bind {r : Res} {f : M → Res} (h : NIm r.m) (hf : ∀ m', r = .cont m' → NIm m' → NIm (f m').m) :
    NIm (r.bind f).m := by
  cases r with
  | stop m' => exact h
  | cont m' => exact hf m' rfl h

/-! ### stages -/

theorem ni_deleteReservation {m : M} (h : NIm m) : NIm (deleteReservation m).2 := by
  unfold deleteReservation
  split
  · exact h
  · split
    · exact h
    · split
      · exact Or.inl (envDiffer_noResv rfl)
      · exact h

theorem ni_abortIfTimeout {m : M} (h : NIm m) : NIm (abortIfTimeout m).m := by
  unfold abortIfTimeout
  split
  · exact h
  · split
    · exact h
    · split
      · exact ni_deleteReservation h
      · exact ni_abortWith (ni_deleteReservation h) _

theorem ni_preparePending {m : M} (h : NIm m) : NIm (preparePending m).m := by
  unfold preparePending
  split
  · exact h
  · split
    · exact ni_abortWith h _
    · split
      · exact ni_abortWith h _
      · rename_i p _
        have h2 := ni_jobUpdate (ni_setSpec h (fun s => { s with podUID := p.uid }))
        split
        · rename_i heq; rw [heq] at h2; exact h2
        · rename_i heq; rw [heq] at h2
          exact ni_okOr (ni_statusUpdate (ni_setStatus h2 _ (fun hn => hn)))

theorem ni_boundByOther {m : M} (h : NIm m) (pod : Option Pod) : NIm (boundByOther m pod).m := by
  unfold boundByOther
  split
  · exact h
  · split
    · exact ni_abortWith h _
    · split
      · split
        · exact ni_abortWith h _
        · split
          · exact h
          · exact ni_abortWith h _
      · exact h

theorem ni_evictPod {m : M} (h : NIm m) : NIm (evictPod m).m := by
  unfold evictPod
  split
  · exact h
  · split
    · split
      · exact ni_abortWith h _
      · exact ni_okOr (ni_updateCondition h (Or.inl (by decide)))
    · rename_i p _
      split
      · split
        · exact ni_abortWith h _
        · exact ni_okOr (ni_updateCondition h (Or.inl (by decide)))
      · split
        · exact h
        · refine ni_bind (ni_boundByOther h none) ?_
          intro m' _ h'
          have h2 : NIm (m'.evictCall p.uid).2 := h'
          split
          · rename_i heq; rw [heq] at h2; exact h2
          · rename_i heq; rw [heq] at h2
            exact ni_updateCondition h2 (Or.inl (by decide))

theorem ni_evictDirect {m : M} (h : NIm m) : NIm (evictDirect m).m := by
  unfold evictDirect
  refine ni_bind (ni_evictPod h) ?_
  intro m' _ h'
  exact ni_statusUpdate (ni_setStatus h' _ (fun hn => hn))

theorem ni_createReservation {m : M} (h : NIm m) : NIm (createReservation m) := by
  unfold createReservation
  split
  · exact ni_abortWith h _
  · rename_i p _
    split
    · exact ni_updateCondition (ni_logw h _ _) (Or.inl (by decide))
    · split
      · exact ni_jobUpdate (ni_setSpec (ni_logw h _ _) _)
      · have h1 : NIm ({ m.logw .resvCreate with env := { m.env with resv := some (newResv p) } } : M) :=
          Or.inl (envDiffer_node0 (r := newResv p) rfl rfl)
        exact ni_jobUpdate (ni_setSpec h1 _)

theorem ni_setReservationOrder {m : M} (h : NIm m) : NIm (setReservationOrder m).m := by
  unfold setReservationOrder
  split
  · exact h
  · rename_i r hr
    split
    · exact h
    · split
      · rcases h with h | h
        · refine Or.inl (envDiffer_congr h ?_ ?_)
          · intro r' hr'
            refine ⟨r, hr, ?_⟩
            cases hr'; rfl
          · intro p' hp'
            exact ⟨p', hp', rfl⟩
        · exact Or.inr h
      · exact ni_logw h _ _

theorem ni_syncScheduleFailed {m : M} {r : Resv} (h : NIm m) : NIm (syncScheduleFailed m r).m := by
  unfold syncScheduleFailed
  split
  · split
    · exact ni_okOr (ni_updateCondition h (Or.inr rfl))
    · exact h
  · exact h

theorem ni_preemptGate {m : M} {r : Resv} (h : NIm m) : NIm (preemptGate m r).m := by
  unfold preemptGate
  split
  · exact h
  · split
    · exact ni_abortWith h _
    · split
      · exact ni_logAct h _
      · exact ni_logAct h _

/-- THE key stage: the node / ReservationScheduled=True is recorded only after the same-node check -/
theorem ni_prepareScheduleSuccess {m : M} {r : Resv} (hr : m.env.resv = some r) (h : NIm m) :
    NIm (prepareScheduleSuccess m r).m := by
  unfold prepareScheduleSuccess
  split
  · exact h
  · split
    · exact h
    · split
      · exact ni_abortWith h _
      · rename_i hs
        have hd : envDiffer m.env = true := sameNode_false_differ hr (by simpa using hs)
        exact ni_okOr (ni_updateCondition_env (m := m.setStatus fun s => { s with node := r.node }) _ hd)

/-- falling through `prepareJobWithReservationScheduleSuccess` with the invariant: the environment differs -/
theorem prepareScheduleSuccess_differ {m m' : M} {r : Resv} (hr : m.env.resv = some r) (h : NIm m)
    (hc : prepareScheduleSuccess m r = .cont m') : envDiffer m'.env = true := by
  unfold prepareScheduleSuccess at hc
  split at hc
  · rename_i h0
    cases hc
    rcases h0 with h0 | h0
    · exact envDiffer_node0 hr h0
    · rcases h with h | h
      · exact h
      · exact absurd h.1.1 h0
  · split at hc
    · rename_i hct
      cases hc
      rcases h with h | h
      · exact h
      · rw [h.1.2] at hct; cases hct
    · split at hc
      · cases hc
      · rename_i hs
        have := okOr_cont hc
        subst this
        rw [env_updateCondition]
        have hs' : sameNode m.env.pod r.node = false := by simpa using hs
        exact sameNode_false_differ (e := m.env) hr hs'

theorem ni_podScheduledDone {m : M} (h : NIm m) : NIm (podScheduledDone m) := by
  unfold podScheduledDone
  split
  · exact ni_statusUpdate (ni_setConds h (Or.inl (by decide)))
  · exact ni_setConds h (Or.inl (by decide))

theorem ni_waitPendingPod {m : M} (h : NIm m) : NIm (waitPendingPod m) := by
  unfold waitPendingPod
  split
  · exact ni_abortWith h _
  · rename_i p _
    split
    · have hb := ni_boundByOther h (some p)
      split
      · rename_i heq; rw [heq] at hb; exact hb
      · rename_i heq; rw [heq] at hb
        exact ni_updateCondition hb (Or.inl (by show CT.podScheduled ≠ CT.resvScheduled; decide))
    · exact ni_podScheduledDone (ni_setStatus h _ (fun hn => hn))

theorem ni_waitBind {m : M} {r : Resv} (h : NIm m) : NIm (waitBind m r).m := by
  unfold waitBind
  split
  · exact h
  · split
    · exact ni_updateCondition h (Or.inl (by decide))
    · exact h

theorem ni_boundSuccess {m : M} (h : NIm m) : NIm (boundSuccess m).m := by
  unfold boundSuccess
  have h1 := ni_setConds (c := ⟨CT.resvBound, true, Rs.none, 0⟩) h (Or.inl (by decide))
  split
  · exact ni_okOr (ni_statusUpdate (ni_setStatus h1 _ (fun hn => hn)))
  · exact h1

theorem ni_waitReady {m : M} (h : NIm m) : NIm (waitReady m).m := by
  unfold waitReady
  split
  · exact h
  · split
    · exact ni_updateCondition h (Or.inl (by decide))
    · exact h

theorem ni_finish {m : M} (h : NIm m) : NIm (finish m).m := by
  unfold finish
  refine ni_bind (ni_okOr (ni_updateCondition h (Or.inl (by decide)))) ?_
  intro m' _ h'
  refine ni_statusUpdate (ni_setStatus (ni_setStatus h' _ (fun hn => hn)) _ ?_)
  intro hn
  exact ⟨hn.1, condTrue_setCond (c := ⟨CT.podBound, true, Rs.none, 0⟩) hn.2 (Or.inl (by decide))⟩

theorem ni_withReservation {m : M} {r : Resv} (hr : m.env.resv = some r) (h : NIm m) :
    NIm (withReservation m r).m := by
  unfold withReservation
  refine ni_bind (ni_syncScheduleFailed h) ?_
  intro m1 hc1 h1
  have f1 : Frame m m1 := by
    have := spec_syncScheduleFailed m r
    rw [hc1] at this; exact this
  split
  · exact h1
  · split
    · exact ni_abortWith h1 _
    · refine ni_bind (ni_preemptGate h1) ?_
      intro m2 hc2 h2
      have f2 : Frame m1 m2 := by
        have := spec_preemptGate m1 r
        rw [hc2] at this; exact this
      refine ni_bind (ni_prepareScheduleSuccess (by rw [f2.env, f1.env]; exact hr) h2) ?_
      intro m3 _ h3
      split
      · exact ni_waitPendingPod h3
      · refine ni_bind (ni_evictPod h3) ?_
        intro m4 _ h4
        refine ni_bind (ni_waitBind h4) ?_
        intro m5 _ h5
        refine ni_bind (ni_boundSuccess h5) ?_
        intro m6 _ h6
        refine ni_bind (ni_waitReady h6) ?_
        intro m7 _ h7
        exact ni_finish h7

theorem ni_reservationFirst {m : M} (h : NIm m) : NIm (reservationFirst m).m := by
  unfold reservationFirst
  split
  · exact ni_createReservation h
  · refine ni_bind (ni_setReservationOrder h) ?_
    intro m1 _ h1
    refine ni_bind (ni_okOr (ni_updateCondition h1 (Or.inl (by decide)))) ?_
    intro m2 _ h2
    split
    · exact ni_abortWith h2 _
    · rename_i r hres
      exact ni_withReservation hres h2

theorem ni_doMigrate {m : M} (h : NIm m) : NIm (doMigrate m) := by
  unfold doMigrate
  split
  · exact h
  · split
    · exact h
    · refine ni_bind (ni_abortIfTimeout h) ?_
      intro m1 _ h1
      refine ni_bind (ni_preparePending h1) ?_
      intro m2 _ h2
      split
      · exact h2
      · split
        · exact ni_evictDirect h2
        · exact ni_reservationFirst h2

/-- (B) one reconcile, any write-fault mask, preserves the world invariant -/
theorem reconcile_nodeInv (w : World) (f : Nat) (h : NodeInv w) : NodeInv (reconcile w f).1 := by
  unfold reconcile
  split
  · exact h
  · exact nodeInv_of_nim (ni_doMigrate (nim_init h f))

/-! ### (A) the environment at the instant of an `Evict` call -/

/-- in reservation-first mode the state in which `evictPod` is entered has `envDiffer` -/
def QD (m1 : M) : Prop := m1.mem.spec.direct = false → envDiffer m1.env = true

theorem withReservation_goalD (m : M) (r : Resv) (hr : m.env.resv = some r) (h : NIm m) :
    Goal m QD (withReservation m r).m := by
  unfold withReservation
  refine Goal.bind (spec_syncScheduleFailed m r) ?_
  intro m1 hc1 f1
  have h1 : NIm m1 := by
    have := ni_syncScheduleFailed (r := r) h
    rw [hc1] at this; exact this
  split
  · exact Goal.of_keep (Keep.refl _)
  · split
    · exact Goal.of_keep (frame_abortWith _ _).toKeep
    · refine Goal.bind (spec_preemptGate m1 r) ?_
      intro m2 hc2 f2
      have h2 : NIm m2 := by
        have := ni_preemptGate (r := r) h1
        rw [hc2] at this; exact this
      refine Goal.bind (spec_prepareScheduleSuccess m2 r) ?_
      intro m3 hc3 f3
      split
      · exact Goal.of_keep (keep_waitPendingPod _)
      · refine Goal.bindEv (evictPod_spec m3) ?_ ?_
        · intro _
          exact prepareScheduleSuccess_differ (by rw [f2.env, f1.env]; exact hr) h2 hc3
        · intro m4 _
          exact Res.Spec.bind (spec_waitBind m4 r) fun m5 _ =>
            Res.Spec.bind (spec_boundSuccess m5) fun m6 _ =>
              Res.Spec.bind (spec_waitReady m6) fun m7 _ => spec_finish m7

theorem reservationFirst_goalD (m : M) (h : NIm m) : Goal m QD (reservationFirst m).m := by
  unfold reservationFirst
  split
  · exact Goal.of_keep (keep_createReservation m)
  · have hs := setReservationOrder_spec m
    have hn := ni_setReservationOrder h
    cases hso : setReservationOrder m with
    | stop m' =>
      rw [hso] at hs
      exact Goal.of_keep hs
    | cont m1 =>
      rw [hso] at hs hn
      have hs' : FrameR m m1 := hs
      have h1 : NIm m1 := hn
      simp only [Res.bind]
      refine Goal.pull hs'.toKeep ?_
      refine Goal.bind (spec_okOr _ (frame_updateCondition m1 _ ok1)) ?_
      intro m2 hc2 _
      have h2 : NIm m2 := by
        have := okOr_cont hc2
        subst this
        exact ni_updateCondition h1 (Or.inl (by decide))
      split
      · exact Goal.of_keep (frame_abortWith _ _).toKeep
      · rename_i r hres
        exact withReservation_goalD m2 r hres h2

theorem doMigrate_goalD (m : M) (h : NIm m) : Goal m QD (doMigrate m) := by
  unfold doMigrate
  split
  · exact Goal.of_keep (Keep.refl m)
  · split
    · exact Goal.of_keep (Keep.refl m)
    · refine Goal.bind (spec_abortIfTimeout m) ?_
      intro m1 hc1 _
      have h1 : NIm m1 := by
        have := ni_abortIfTimeout h
        rw [hc1] at this; exact this
      refine Goal.bind (spec_preparePending m1) ?_
      intro m2 hc2 _
      have h2 : NIm m2 := by
        have := ni_preparePending h1
        rw [hc2] at this; exact this
      split
      · exact Goal.of_keep (Keep.refl _)
      · split
        · rename_i hd
          unfold evictDirect
          refine Goal.bindEv (evictPod_spec m2) (fun hd' => by rw [hd'] at hd; cases hd) ?_
          intro m3 _
          exact ((frame_setStatus_noconds m3 (fun s => { s with phase := Ph.succeeded, status := CT.complete, reason := Rs.none }) (fun _ => rfl)).trans
            (frame_statusUpdate _)).toKeep
        · exact reservationFirst_goalD m2 h2

/-- (A) every evictor call of a reconcile started in a world with the invariant, reservation-first mode, any
    write-fault mask, sees an environment in which the reservation's node is not the pod's node -/
theorem reconcile_evicts_differ (w : World) (f : Nat) (h : NodeInv w) :
    ∀ s ∈ (reconcile w f).2.evicts, s.job0 = w.job ∧ (w.job.spec.direct = false → envDiffer s.env = true) := by
  unfold reconcile
  split
  · intro s hs; cases hs
  · have g := doMigrate_goalD (M.init w f) (nim_init h f)
    rcases g with hk | ⟨m1, hk1, hq, hev⟩
    · intro s hs
      have he : (doMigrate (M.init w f)).evicts = [] := hk.evicts
      have hs' : s ∈ (doMigrate (M.init w f)).evicts := hs
      rw [he] at hs'; cases hs'
    · intro s hs
      have h1 : m1.evicts = [] := hk1.evicts
      have h2 : m1.job0 = w.job := hk1.job0
      have hs' : s ∈ (doMigrate (M.init w f)).evicts := hs
      rw [hev.evicts, h1, h2] at hs'
      simp only [List.nil_append, List.mem_singleton] at hs'
      subst hs'
      refine ⟨rfl, fun hd => ?_⟩
      exact hq ((hk1.dd _ ⟨rfl, rfl⟩).1.trans hd)

/-! ### environment events -/

theorem step_nodeInv (w : World) (op : Op) (h : NodeInv w) (hok : okEvent w op = true) : NodeInv (step w op).1 := by
  cases op with
  | recon f => exact reconcile_nodeInv w f h
  | tick d => exact fun hrec => envDiffer_congr (h hrec) (fun r' hr' => ⟨r', hr', rfl⟩) (fun p' hp' => ⟨p', hp', rfl⟩)
  | bpod k => exact fun hrec => envDiffer_congr (h hrec) (fun r' hr' => ⟨r', hr', rfl⟩) (fun p' hp' => ⟨p', hp', rfl⟩)
  | limit b => exact fun hrec => envDiffer_congr (h hrec) (fun r' hr' => ⟨r', hr', rfl⟩) (fun p' hp' => ⟨p', hp', rfl⟩)
  | preempt k => exact fun hrec => envDiffer_congr (h hrec) (fun r' hr' => ⟨r', hr', rfl⟩) (fun p' hp' => ⟨p', hp', rfl⟩)
  | restart u => exact fun hrec => envDiffer_congr (h hrec) (fun r' hr' => ⟨r', hr', rfl⟩) (fun p' hp' => ⟨p', hp', rfl⟩)
  | pause b => exact fun hrec => h hrec
  | resv ro =>
    intro hrec
    have hrec' : nodeRecorded w.job.status = true := hrec
    have hd := h hrec'
    cases ro with
    | none => exact envDiffer_noResv rfl
    | some r' =>
      show envDiffer { w.env with resv := some r' } = true
      simp only [okEvent, hrec', Bool.not_true, Bool.false_or, Bool.or_eq_true, beq_iff_eq] at hok
      rcases hok with h0 | hsame
      · exact envDiffer_node0 (r := r') rfl h0
      · cases hres : w.env.resv with
        | none => rw [hres] at hsame; cases hsame
        | some r =>
          rw [hres] at hsame
          have hn : r.node = r'.node := by simpa using hsame
          refine envDiffer_congr hd ?_ (fun p' hp' => ⟨p', hp', rfl⟩)
          intro r'' hr''
          cases hr''
          exact ⟨r, hres, hn⟩
  | pod po =>
    intro hrec
    have hrec' : nodeRecorded w.job.status = true := hrec
    have hd := h hrec'
    cases po with
    | none => exact envDiffer_noPod rfl
    | some p' =>
      show envDiffer { w.env with pod := some p' } = true
      simp only [okEvent, hrec', Bool.not_true, Bool.false_or, Bool.or_eq_true, beq_iff_eq] at hok
      rcases hok with h0 | hsame
      · rw [envDiffer_iff]
        intro r p _ hp hn
        cases hp
        rw [h0]; exact hn
      · cases hpod : w.env.pod with
        | none => rw [hpod] at hsame; cases hsame
        | some p =>
          rw [hpod] at hsame
          have hn : p.node = p'.node := by simpa using hsame
          refine envDiffer_congr hd (fun r' hr' => ⟨r', hr', rfl⟩) ?_
          intro p'' hp''
          cases hp''
          exact ⟨p, hpod, hn⟩

/-! ### the theorem -/

/-- **evict_node_differs_restricted** (full node clause, every history, every write-fault mask).  From any world
    satisfying `NodeInv` (in particular: any world whose job has not yet recorded a target node), along any
    history whose environment events are admissible (`restricted`: after the node has been recorded no event puts
    the reservation or the pod on a new node), every evictor call made on behalf of a reservation-first job is
    issued while the reservation's node, if it has one, differs from the pod's node. -/
theorem evict_node_differs_restricted_core (ops : List Op) :
    ∀ w : World, NodeInv w → restricted w ops = true →
      ∀ s ∈ (run w ops).2, s.job0.spec.direct = false →
        ∀ r p, s.env.resv = some r → s.env.pod = some p → r.node ≠ 0 → r.node ≠ p.node := by
  induction ops with
  | nil => intro w _ _ s hs; cases hs
  | cons op rest ih =>
    intro w hinv hres s hs hd
    simp only [restricted, Bool.and_eq_true] at hres
    simp only [run, List.mem_append] at hs
    rcases hs with hs | hs
    · cases op with
      | recon f =>
        simp only [step] at hs
        obtain ⟨hj, hdiff⟩ := reconcile_evicts_differ w f hinv s hs
        rw [hj] at hd
        exact (envDiffer_iff _).1 (hdiff hd)
      | _ => simp [step] at hs
    · exact ih _ (step_nodeInv w op hinv hres.1) hres.2 s hs hd

/-- a world whose job has not yet recorded a node satisfies the invariant -/
theorem nodeInv_of_ncs {w : World} (h : NCs w.job.status) : NodeInv w := by
  intro hrec
  rw [(ncs_iff _).1 h] at hrec; cases hrec

instance (w : World) : Decidable (NodeInv w) := by unfold NodeInv; exact inferInstance

/-- corollary: a job that starts with no recorded target node (every freshly created job), any admissible
    history, any write-fault masks -/
theorem evict_node_differs_restricted_fresh_core (ops : List Op) (w : World) (h : NCs w.job.status)
    (hres : restricted w ops = true) :
    ∀ s ∈ (run w ops).2, s.job0.spec.direct = false →
      ∀ r p, s.env.resv = some r → s.env.pod = some p → r.node ≠ 0 → r.node ≠ p.node :=
  evict_node_differs_restricted_core ops w (nodeInv_of_ncs h) hres

/-! ### non-vacuity -/

def xnPod : Pod := ⟨1, 3, 0, 0, false⟩
def xnResv : Resv := ⟨RPh.available, 1, 1, 0, false, 0, false, true, false⟩
def xnJob : Job :=
  { spec := ⟨false, false, 300, true, 1, true, false, 0⟩,
    status := ⟨Ph.running, CT.resvCreated, 0, 0, false, [⟨CT.resvCreated, true, 0, 0⟩]⟩ }
def xnWorld : World := { job := xnJob, env := ⟨10, some xnPod, some xnResv, 0, false, 0, 1⟩ }

/-- the start world satisfies the invariant (no node recorded) -/
example : nodeRecorded xnWorld.job.status = false := by decide
example : NodeInv xnWorld := by decide
/-- an admissible history with a failing Evict call (bit 1), a pod status update on the SAME node after the node has
    been recorded, a reservation status change on the same node, and a retry: two evictor calls -/
example : restricted xnWorld [.recon 2, .pod (some ⟨1, 3, 2, 0, false⟩),
    .resv (some { xnResv with msg := 7 }), .tick 5, .recon 0] = true := by decide
example : (run xnWorld [.recon 2, .pod (some ⟨1, 3, 2, 0, false⟩),
    .resv (some { xnResv with msg := 7 }), .tick 5, .recon 0]).2.length = 2 := by decide
/-- the node has indeed been recorded by the first reconcile of that history -/
example : nodeRecorded (run xnWorld [.recon 2]).1.job.status = true := by decide
/-- before the node is recorded any event is admissible -/
example : restricted xnWorld [.pod (some ⟨1, 1, 2, 0, false⟩), .recon 0] = true := by decide
example : (run xnWorld [.pod (some ⟨1, 1, 2, 0, false⟩), .recon 0]).2 = [] := by decide

def xnCexWorld : World :=
  { job := { spec := ⟨false, false, 0, true, 1, true, false, 0⟩,
             status := ⟨Ph.running, 0, 0, 0, false, []⟩ },
    env := ⟨0, some ⟨1, 3, 0, 0, false⟩, some ⟨RPh.available, 1, 1, 0, false, 0, false, true, false⟩, 0, false, 0, 1⟩ }

/-- the two counterexample histories of Props/C17.lean are excluded by `restricted` (and only by it: their start
    worlds satisfy the invariant) -/
example : nodeRecorded xnCexWorld.job.status = false := by decide
example : restricted xnCexWorld [.recon 4, .resv (some ⟨RPh.available, 3, 1, 0, false, 0, false, true, false⟩), .recon 0] = false := by decide
example : restricted { xnCexWorld with env := { xnCexWorld.env with
      pod := some ⟨1, 0, 1, 0, true⟩, resv := some ⟨RPh.available, 1, 1, 0, false, 0, true, true, false⟩ } }
    [.recon 0, .pod (some ⟨1, 1, 2, 0, false⟩),
     .resv (some ⟨RPh.available, 1, 1, 0, false, 0, false, true, false⟩), .recon 0] = false := by decide

end KoordVerif.C17
