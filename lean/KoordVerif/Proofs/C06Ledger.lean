import KoordVerif.Model.C06
import KoordVerif.Proofs.C06Numa
/-
C06 — helper development for Layer B (ledger): map lemmas for `allocatedCPUs` /
`allocatedResources`, the effect of the add / release loops on ref-counts and cells, and the
ledger invariant preserved by `addPod`, `releasePod`, `updatePod`.
-/
namespace KoordVerif.C06

/-! ### allocatedCPUs as a map -/

theorem cpuGet_cpuDel (m : CpuMap) (c c' : Nat) :
    cpuGet (cpuDel m c) c' = if c = c' then none else cpuGet m c' := by
  induction m with
  | nil => simp [cpuDel, cpuGet]
  | cons e es ih =>
    obtain ⟨k, v⟩ := e
    unfold cpuDel at ih ⊢
    simp only [List.filter_cons]
    by_cases hk : k = c
    · subst hk
      simp only [bne_self_eq_false, Bool.false_eq_true, ↓reduceIte, ih]
      by_cases h : k = c'
      · simp [h]
      · simp [h, cpuGet]
    · have : (k != c) = true := by simp [hk]
      simp only [this, ↓reduceIte, cpuGet, ih]
      by_cases h : k = c'
      · subst h; simp [show ¬ c = k from fun h => hk h.symm]
      · simp [h]

theorem cpuGet_cpuSet (m : CpuMap) (c c' : Nat) (r : CpuRec) :
    cpuGet (cpuSet m c r) c' = if c = c' then some r else cpuGet m c' := by
  unfold cpuSet
  simp only [cpuGet, cpuGet_cpuDel]
  split <;> rfl

/-- every recorded CPU has a positive RefCount (entries are deleted at 0). -/
def PosRefs (m : CpuMap) : Prop := ∀ c r, cpuGet m c = some r → 1 ≤ r.ref

theorem refOf_addCPU (e : Nat) (m : CpuMap) (c c' : Nat) :
    refOf (addCPU e m c) c' = refOf m c' + (if c = c' then 1 else 0) := by
  unfold addCPU refOf
  cases h : cpuGet m c with
  | none =>
    simp only [cpuGet_cpuSet]
    by_cases hc : c = c'
    · subst hc; simp [h]
    · simp [hc]
  | some r =>
    simp only [cpuGet_cpuSet]
    by_cases hc : c = c'
    · subst hc; simp [h]
    · simp [hc]

theorem posRefs_addCPU (e : Nat) (m : CpuMap) (c : Nat) (h : PosRefs m) : PosRefs (addCPU e m c) := by
  intro c' r hr
  unfold addCPU at hr
  cases hg : cpuGet m c with
  | none =>
    simp only [hg, cpuGet_cpuSet] at hr
    by_cases hc : c = c'
    · simp [hc] at hr; subst hr; simp
    · simp [hc] at hr; exact h c' r hr
  | some r0 =>
    simp only [hg, cpuGet_cpuSet] at hr
    by_cases hc : c = c'
    · simp [hc] at hr; subst hr
      have := h c r0 hg
      show 1 ≤ r0.ref + 1
      omega
    · simp [hc] at hr; exact h c' r hr

def cnt (l : List Nat) (c : Nat) : Int := (l.count c : Int)

theorem cnt_cons (x : Nat) (xs : List Nat) (c : Nat) :
    cnt (x :: xs) c = cnt xs c + (if x = c then 1 else 0) := by
  unfold cnt
  rw [List.count_cons]
  by_cases h : x = c
  · simp [h]
  · simp [h]

theorem cnt_nonneg (l : List Nat) (c : Nat) : 0 ≤ cnt l c := by unfold cnt; omega

theorem foldl_addCPU (e : Nat) (l : List Nat) :
    ∀ m, PosRefs m →
      PosRefs (l.foldl (addCPU e) m) ∧ ∀ c, refOf (l.foldl (addCPU e) m) c = refOf m c + cnt l c := by
  induction l with
  | nil => intro m h; exact ⟨h, fun c => by simp [cnt]⟩
  | cons x xs ih =>
    intro m h
    have := ih (addCPU e m x) (posRefs_addCPU e m x h)
    refine ⟨this.1, fun c => ?_⟩
    simp only [List.foldl_cons]
    rw [this.2 c, refOf_addCPU, cnt_cons]
    omega

theorem refOf_relCPU (m : CpuMap) (c c' : Nat) (h : PosRefs m) :
    refOf (relCPU m c) c' = refOf m c' - (if c = c' ∧ 1 ≤ refOf m c then 1 else 0) := by
  unfold relCPU
  cases hg : cpuGet m c with
  | none =>
    have : refOf m c = 0 := by simp [refOf, hg]
    simp [this]
  | some r =>
    have hpos := h c r hg
    have hr : refOf m c = r.ref := by simp [refOf, hg]
    simp only
    split
    · rename_i hz
      unfold refOf
      simp only [cpuGet_cpuDel]
      by_cases hc : c = c'
      · subst hc; simp [hg]; omega
      · simp [hc]
    · unfold refOf
      simp only [cpuGet_cpuSet]
      by_cases hc : c = c'
      · subst hc; simp [hg]; omega
      · simp [hc]

theorem posRefs_relCPU (m : CpuMap) (c : Nat) (h : PosRefs m) : PosRefs (relCPU m c) := by
  intro c' r hr
  unfold relCPU at hr
  cases hg : cpuGet m c with
  | none => simp only [hg] at hr; exact h c' r hr
  | some r0 =>
    simp only [hg] at hr
    have hpos := h c r0 hg
    split at hr
    · rw [cpuGet_cpuDel] at hr
      by_cases hc : c = c'
      · simp [hc] at hr
      · simp [hc] at hr; exact h c' r hr
    · rename_i hnz
      rw [cpuGet_cpuSet] at hr
      by_cases hc : c = c'
      · simp [hc] at hr; subst hr
        show 1 ≤ r0.ref - 1
        omega
      · simp [hc] at hr; exact h c' r hr

/-- releasing a list of CPUs that are all held often enough subtracts exactly their counts. -/
theorem foldl_relCPU (l : List Nat) :
    ∀ m, PosRefs m → (∀ c, cnt l c ≤ refOf m c) →
      PosRefs (l.foldl relCPU m) ∧ ∀ c, refOf (l.foldl relCPU m) c = refOf m c - cnt l c := by
  induction l with
  | nil => intro m h _; exact ⟨h, fun c => by simp [cnt]⟩
  | cons x xs ih =>
    intro m h hle
    have hx : 1 ≤ refOf m x := by
      have := hle x; rw [cnt_cons] at this
      have := cnt_nonneg xs x
      simp at *; omega
    have hstep : ∀ c, refOf (relCPU m x) c = refOf m c - (if x = c then 1 else 0) := by
      intro c
      rw [refOf_relCPU m x c h]
      by_cases hc : x = c
      · simp [hc]; subst hc; omega
      · simp [hc]
    have hle' : ∀ c, cnt xs c ≤ refOf (relCPU m x) c := by
      intro c
      have := hle c
      rw [cnt_cons] at this
      rw [hstep]; omega
    have := ih (relCPU m x) (posRefs_relCPU m x h) hle'
    refine ⟨this.1, fun c => ?_⟩
    simp only [List.foldl_cons]
    rw [this.2 c, hstep, cnt_cons]
    omega

/-- without the "held often enough" premise releasing still never increases a ref-count. -/
theorem foldl_relCPU_le (l : List Nat) :
    ∀ m, PosRefs m → PosRefs (l.foldl relCPU m) ∧ ∀ c, refOf (l.foldl relCPU m) c ≤ refOf m c := by
  induction l with
  | nil => intro m h; exact ⟨h, fun c => by simp⟩
  | cons x xs ih =>
    intro m h
    have := ih (relCPU m x) (posRefs_relCPU m x h)
    refine ⟨this.1, fun c => ?_⟩
    simp only [List.foldl_cons]
    have h1 := this.2 c
    have h2 := refOf_relCPU m x c h
    split at h2 <;> omega

/-! ### allocatedResources as a map of cells -/

theorem getI_filter (m : ResMap) (k k' : Nat) :
    getI (m.filter (fun e => e.1 != k)) k' = if k = k' then 0 else getI m k' := by
  induction m with
  | nil => simp [getI]
  | cons e es ih =>
    obtain ⟨a, v⟩ := e
    simp only [List.filter_cons]
    by_cases ha : a = k
    · subst ha
      simp only [bne_self_eq_false, Bool.false_eq_true, ↓reduceIte, ih]
      by_cases h : a = k'
      · simp [h]
      · simp [h, getI]
    · have : (a != k) = true := by simp [ha]
      simp only [this, ↓reduceIte, getI, ih]
      by_cases h : a = k'
      · subst h; simp [show ¬ k = a from fun h => ha h.symm]
      · simp [h]

theorem getI_resSet (m : ResMap) (k k' : Nat) (v : Int) :
    getI (resSet m k v) k' = if k = k' then v else getI m k' := by
  unfold resSet
  simp only [getI, getI_filter]
  split <;> rfl

theorem resHas_filter (m : ResMap) (k k' : Nat) :
    resHas (m.filter (fun e => e.1 != k)) k' = (resHas m k' && k != k') := by
  induction m with
  | nil => simp [resHas]
  | cons e es ih =>
    obtain ⟨a, v⟩ := e
    simp only [List.filter_cons]
    by_cases ha : a = k
    · subst ha
      simp only [bne_self_eq_false, Bool.false_eq_true, ↓reduceIte, ih, resHas]
      by_cases h : a = k' <;> grind
    · have : (a != k) = true := by simp [ha]
      simp only [this, ↓reduceIte, resHas, ih]
      by_cases h : a = k' <;> grind

theorem resHas_resSet (m : ResMap) (k k' : Nat) (v : Int) :
    resHas (resSet m k v) k' = (k == k' || resHas m k') := by
  unfold resSet
  simp only [resHas, resHas_filter]
  by_cases h : k = k' <;> grind

/-- the amount a pod's NUMANodeResources put into cell `k`. -/
def cellOf : List (Nat × Int) → Nat → Int
  | [], _ => 0
  | e :: l, k => (if e.1 = k then e.2 else 0) + cellOf l k

theorem cellOf_nonneg (l : List (Nat × Int)) (k : Nat) (h : ∀ e ∈ l, 0 ≤ e.2) : 0 ≤ cellOf l k := by
  induction l with
  | nil => simp [cellOf]
  | cons e es ih =>
    have h1 := h e (by simp)
    have h2 := ih (fun x hx => h x (by simp [hx]))
    simp only [cellOf]
    split <;> omega

theorem foldl_addCell (l : List (Nat × Int)) :
    ∀ m, (∀ k, getI (l.foldl addCell m) k = getI m k + cellOf l k) ∧
         (∀ k, resHas m k = true → resHas (l.foldl addCell m) k = true) ∧
         (∀ e ∈ l, resHas (l.foldl addCell m) e.1 = true) := by
  induction l with
  | nil => intro m; simp [cellOf]
  | cons e es ih =>
    intro m
    have := ih (addCell m e)
    have hget : ∀ k, getI (addCell m e) k = getI m k + (if e.1 = k then e.2 else 0) := by
      intro k; unfold addCell; rw [getI_resSet]
      by_cases h : e.1 = k
      · subst h; simp
      · simp [h]
    have hhas : ∀ k, resHas (addCell m e) k = (e.1 == k || resHas m k) := by
      intro k; unfold addCell; rw [resHas_resSet]
    refine ⟨fun k => ?_, fun k hk => ?_, fun x hx => ?_⟩
    · simp only [List.foldl_cons]
      rw [this.1 k, hget, cellOf]; omega
    · simp only [List.foldl_cons]
      exact this.2.1 k (by rw [hhas]; simp [hk])
    · simp only [List.foldl_cons]
      rcases List.mem_cons.mp hx with rfl | hx'
      · exact this.2.1 _ (by rw [hhas]; simp)
      · exact this.2.2 x hx'

theorem foldl_relCell (l : List (Nat × Int)) :
    ∀ m, (∀ e ∈ l, 0 ≤ e.2) → (∀ e ∈ l, resHas m e.1 = true) → (∀ k, cellOf l k ≤ getI m k) →
      (∀ k, getI (l.foldl relCell m) k = getI m k - cellOf l k) ∧
      (∀ k, resHas m k = true → resHas (l.foldl relCell m) k = true) := by
  induction l with
  | nil => intro m _ _ _; simp [cellOf]
  | cons e es ih =>
    intro m hnn hpres hle
    have he := hnn e (by simp)
    have hp := hpres e (by simp)
    have hnn' : ∀ x ∈ es, 0 ≤ x.2 := fun x hx => hnn x (by simp [hx])
    have hle1 := hle e.1
    simp only [cellOf, ↓reduceIte] at hle1
    have hcn := cellOf_nonneg es e.1 hnn'
    have hget : ∀ k, getI (relCell m e) k = getI m k - (if e.1 = k then e.2 else 0) := by
      intro k; unfold relCell; rw [if_pos hp, getI_resSet]
      by_cases h : e.1 = k
      · subst h; simp; omega
      · simp [h]
    have hhas : ∀ k, resHas m k = true → resHas (relCell m e) k = true := by
      intro k hk; unfold relCell; rw [if_pos hp, resHas_resSet]; simp [hk]
    have hle' : ∀ k, cellOf es k ≤ getI (relCell m e) k := by
      intro k; have := hle k; simp only [cellOf] at this; rw [hget]; omega
    have := ih (relCell m e) hnn' (fun x hx => hhas _ (hpres x (by simp [hx]))) hle'
    refine ⟨fun k => ?_, fun k hk => ?_⟩
    · simp only [List.foldl_cons]
      rw [this.1 k, hget, cellOf]; omega
    · simp only [List.foldl_cons]
      exact this.2 k (hhas k hk)

/-! ### the pod table -/

theorem hasPod_iff (pods : List PodAlloc) (uid : Nat) :
    hasPod pods uid = true ↔ uid ∈ pods.map (·.uid) := by
  unfold hasPod
  simp only [List.any_eq_true, beq_iff_eq, List.mem_map]

theorem findPod_none (pods : List PodAlloc) (uid : Nat) :
    findPod pods uid = none ↔ uid ∉ pods.map (·.uid) := by
  induction pods with
  | nil => simp [findPod]
  | cons p ps ih =>
    simp only [findPod, List.map_cons, List.mem_cons, not_or]
    by_cases h : p.uid = uid
    · simp [h]
    · simp only [h, ↓reduceIte, ih, List.mem_map, not_exists, not_and]
      constructor
      · intro hh; exact ⟨fun h' => h h'.symm, hh⟩
      · intro hh; exact hh.2

theorem findPod_some {pods : List PodAlloc} {uid : Nat} {p : PodAlloc} (h : findPod pods uid = some p) :
    p ∈ pods ∧ p.uid = uid := by
  induction pods with
  | nil => simp [findPod] at h
  | cons q qs ih =>
    simp only [findPod] at h
    split at h
    · rename_i hq; cases h; exact ⟨by simp, hq⟩
    · have := ih h; exact ⟨by simp [this.1], this.2⟩

theorem filter_uid_all (pods : List PodAlloc) (uid : Nat) (h : uid ∉ pods.map (·.uid)) :
    pods.filter (fun q => q.uid != uid) = pods := by
  induction pods with
  | nil => rfl
  | cons p ps ih =>
    simp only [List.map_cons, List.mem_cons, not_or] at h
    have : (p.uid != uid) = true := by simp; exact fun h' => h.1 h'.symm
    simp only [List.filter_cons, this, ↓reduceIte, ih h.2]

/-- removing the (unique) pod with `uid` takes exactly its contribution out of any sum. -/
theorem sum_split_found (f : PodAlloc → Int) :
    ∀ (pods : List PodAlloc) (uid : Nat) (p : PodAlloc), findPod pods uid = some p →
      (pods.map (·.uid)).Nodup →
      isum (pods.map f) = f p + isum ((pods.filter (fun q => q.uid != uid)).map f) := by
  intro pods
  induction pods with
  | nil => intro uid p h; simp [findPod] at h
  | cons q qs ih =>
    intro uid p h hnd
    simp only [List.map_cons, List.nodup_cons] at hnd
    simp only [findPod] at h
    by_cases hq : q.uid = uid
    · rw [if_pos hq] at h; cases h
      have hnot : uid ∉ qs.map (·.uid) := hq ▸ hnd.1
      have : (q.uid != uid) = false := by simp [hq]
      simp only [List.filter_cons, this, Bool.false_eq_true, ↓reduceIte, filter_uid_all qs uid hnot,
        List.map_cons, isum_cons]
    · rw [if_neg hq] at h
      have : (q.uid != uid) = true := by simp [hq]
      simp only [List.filter_cons, this, ↓reduceIte, List.map_cons, isum_cons]
      have := ih uid p h hnd.2
      omega

theorem filter_uid_not_mem (pods : List PodAlloc) (uid : Nat) :
    uid ∉ (pods.filter (fun q => q.uid != uid)).map (·.uid) := by
  simp only [List.mem_map, List.mem_filter, not_exists, not_and]
  intro q hq h
  simp at hq
  exact hq.2 h

theorem filter_uid_nodup (pods : List PodAlloc) (uid : Nat) (h : (pods.map (·.uid)).Nodup) :
    ((pods.filter (fun q => q.uid != uid)).map (·.uid)).Nodup :=
  (List.Sublist.map _ List.filter_sublist).nodup h

/-! ### the invariant -/

/-- number of live pods holding CPU `c` (with multiplicity, CPUSets have none). -/
def holdCount (pods : List PodAlloc) (c : Nat) : Int := isum (pods.map (fun p => cnt p.cpus c))

/-- Σ over live pods of what they hold in cell `k`. -/
def cellSum (pods : List PodAlloc) (k : Nat) : Int := isum (pods.map (fun p => cellOf p.numa k))

structure Inv (L : Ledger) : Prop where
  uids    : (L.pods.map (·.uid)).Nodup
  pos     : PosRefs L.cpus
  refs    : ∀ c, refOf L.cpus c = holdCount L.pods c
  nonneg  : ∀ p ∈ L.pods, ∀ e ∈ p.numa, 0 ≤ e.2
  present : ∀ p ∈ L.pods, ∀ e ∈ p.numa, resHas L.res e.1 = true
  cells   : ∀ k, getI L.res k = cellSum L.pods k

theorem inv_empty : Inv Ledger.empty where
  uids := by simp [Ledger.empty]
  pos := by intro c r h; simp [Ledger.empty, cpuGet] at h
  refs := by intro c; simp [Ledger.empty, refOf, cpuGet, holdCount]
  nonneg := by intro p hp; simp [Ledger.empty] at hp
  present := by intro p hp; simp [Ledger.empty] at hp
  cells := by intro k; simp [Ledger.empty, getI, cellSum]

/-- the amounts of a `PodAllocation` are non-negative quantities. -/
def PodOK (p : PodAlloc) : Prop := ∀ e ∈ p.numa, 0 ≤ e.2

theorem inv_addPod {L : Ledger} (h : Inv L) (p : PodAlloc) (hp : PodOK p) : Inv (addPod L p) := by
  unfold addPod
  split
  · exact h
  · rename_i hnew
    have hnew' : p.uid ∉ L.pods.map (·.uid) := by
      intro hm; exact hnew ((hasPod_iff _ _).mpr hm)
    have hc := foldl_addCPU p.excl p.cpus L.cpus h.pos
    have hr := foldl_addCell p.numa L.res
    refine ⟨?_, hc.1, ?_, ?_, ?_, ?_⟩
    · simp only [List.map_cons, List.nodup_cons]; exact ⟨hnew', h.uids⟩
    · intro c; simp only [hc.2 c, h.refs c, holdCount, List.map_cons, isum_cons]; omega
    · intro q hq e he
      rcases List.mem_cons.mp hq with rfl | hq'
      · exact hp e he
      · exact h.nonneg q hq' e he
    · intro q hq e he
      rcases List.mem_cons.mp hq with rfl | hq'
      · exact hr.2.2 e he
      · exact hr.2.1 _ (h.present q hq' e he)
    · intro k; simp only [hr.1 k, h.cells k, cellSum, List.map_cons, isum_cons]; omega

theorem isum_map_nonneg {α} (f : α → Int) (l : List α) (h : ∀ x ∈ l, 0 ≤ f x) : 0 ≤ isum (l.map f) := by
  induction l with
  | nil => simp
  | cons x xs ih =>
    have := h x (by simp)
    have := ih (fun y hy => h y (by simp [hy]))
    simp only [List.map_cons, isum_cons]; omega

/-- the effect of `release` on a ledger that satisfies the invariant. -/
theorem releasePod_spec {L : Ledger} (h : Inv L) (uid : Nat) :
    Inv (releasePod L uid) ∧ uid ∉ (releasePod L uid).pods.map (·.uid) ∧
    (∀ c, refOf (releasePod L uid).cpus c ≤ refOf L.cpus c) := by
  unfold releasePod
  cases hf : findPod L.pods uid with
  | none =>
    exact ⟨h, (findPod_none _ _).mp hf, fun c => by simp⟩
  | some p =>
    simp only
    have hpm := findPod_some hf
    have hsplitC : ∀ c, holdCount L.pods c =
        cnt p.cpus c + holdCount (L.pods.filter (fun q => q.uid != uid)) c := fun c =>
      sum_split_found (fun p => cnt p.cpus c) L.pods uid p hf h.uids
    have hsplitK : ∀ k, cellSum L.pods k =
        cellOf p.numa k + cellSum (L.pods.filter (fun q => q.uid != uid)) k := fun k =>
      sum_split_found (fun p => cellOf p.numa k) L.pods uid p hf h.uids
    have hrestC : ∀ c, 0 ≤ holdCount (L.pods.filter (fun q => q.uid != uid)) c := fun c =>
      isum_map_nonneg _ _ (fun q _ => cnt_nonneg q.cpus c)
    have hrestK : ∀ k, 0 ≤ cellSum (L.pods.filter (fun q => q.uid != uid)) k := fun k =>
      isum_map_nonneg _ _ (fun q hq => cellOf_nonneg q.numa k (h.nonneg q (List.mem_filter.mp hq).1))
    have hc := foldl_relCPU p.cpus L.cpus h.pos (fun c => by
      have := hsplitC c; have := hrestC c; have := h.refs c; omega)
    have hr := foldl_relCell p.numa L.res (h.nonneg p hpm.1) (h.present p hpm.1) (fun k => by
      have := hsplitK k; have := hrestK k; have := h.cells k; omega)
    refine ⟨⟨filter_uid_nodup _ _ h.uids, hc.1, ?_, ?_, ?_, ?_⟩, filter_uid_not_mem _ _, ?_⟩
    · intro c; dsimp only; rw [hc.2 c, h.refs c, hsplitC c]; omega
    · intro q hq; exact h.nonneg q (List.mem_filter.mp hq).1
    · intro q hq e he; exact hr.2 _ (h.present q (List.mem_filter.mp hq).1 e he)
    · intro k; dsimp only; rw [hr.1 k, h.cells k, hsplitK k]; omega
    · intro c; rw [hc.2 c]; have := cnt_nonneg p.cpus c; omega

theorem inv_releasePod {L : Ledger} (h : Inv L) (uid : Nat) : Inv (releasePod L uid) :=
  (releasePod_spec h uid).1

theorem inv_updatePod {L : Ledger} (h : Inv L) (p : PodAlloc) (hp : PodOK p) : Inv (updatePod L p) :=
  inv_addPod (inv_releasePod h p.uid) p hp

def OpOK : Op → Prop
  | .add p => PodOK p
  | .upd p => PodOK p
  | .rel _ => True

theorem inv_step {L : Ledger} (h : Inv L) (op : Op) (hop : OpOK op) : Inv (step L op) := by
  cases op with
  | add p => exact inv_addPod h p hop
  | upd p => exact inv_updatePod h p hop
  | rel u => exact inv_releasePod h u

theorem inv_foldl (ops : List Op) : ∀ L, Inv L → (∀ op ∈ ops, OpOK op) → Inv (ops.foldl step L) := by
  induction ops with
  | nil => intro L h _; exact h
  | cons op ops ih =>
    intro L h hok
    exact ih _ (inv_step h op (hok op (by simp))) (fun o ho => hok o (by simp [ho]))

end KoordVerif.C06
