import KoordVerif.Proofs.C04ExtRace
/-
C04 extension (round 3): the way from the informer to the GangCache.

`deliverDel wiring shape op` (Model/C04.lean) is what the GangCache sees of a delete event the informer hands to the
handler NewPodGroupManager REGISTERED: `shape` = the object / a re-list tombstone (cache.DeletedFinalStateUnknown by
value) / a shape the code ignores; `wiring` 0 = the cache.ResourceEventHandlerFuncs literal handed to the informer as is
(the code — a regenerated fact, Ties/C04.lean), 1 = the same literal behind a type filter.

(theorems in Props/C04.lean, section G; this file keeps the helper lemma and the witness histories)
  direct_wiring_forwards_understood   wiring 0: every shape onPodDelete / onPodGroupDelete understands reaches it
  ignored_shape_is_nop                a shape they do not understand changes nothing (whatever the wiring)
  delivered_delete_removes            after a delivered delete (object OR tombstone) the pod is in none of children /
                                      pending / waiting / bound of its gang (if the gang is still cached)
  delivered_delete_not_counted        ... so the pod no longer counts towards validForPermit's waiting / bound sizes
  filtered_wiring_drops_tombstone     wiring 1: the tombstone never reaches onPodDelete (the op is a no-op)
  tombstone_lost_counterexample       and then Permit releases with 2 live members of min 3 (only-waiting) and with 1
                                      live member of min 3 (waiting-and-running), where the code's wiring makes it wait
-/
namespace KoordVerif.C04

/-- onPodDelete removes the pod from all four sets of its gang (gang.deletePod) -/
theorem podDel_removes (s : State) (p : Pod) (id : GangId) (g : Gang)
    (hg : findGang (podDel s p id).gangs id = some g) :
    p ∉ g.ps.children ∧ p ∉ g.ps.pending ∧ p ∉ g.ps.waiting ∧ p ∉ g.ps.bound := by
  rcases podDel_findGang_eq s p id with h | h
  · rw [h] at hg; exact absurd hg (by simp)
  · rw [h] at hg
    cases h0 : findGang s.gangs id with
    | none => rw [h0] at hg; exact absurd hg (by simp)
    | some g0 =>
      rw [h0] at hg
      have e : g = g0.deletePod p := by simpa using hg.symm
      subst e
      simp [Gang.deletePod, PodSets.deletePod, mem_sDel]

/-- gang 0: PodGroup, min 3, policy `pol`, strict, a group of its own; pods 1 2 3 arrive; 1 and 2 go through Permit (both
    wait); pod 2 vanishes and the informer notices on re-list: the delete arrives as a tombstone, through `wiring` -/
def ghostWaiting (wiring pol : Nat) : List Op :=
  [.pgAdd 0 { min := 3, policy := pol, mode := 1, group := [], gshape := 0 },
   .podEvt 1 0 false none, .podEvt 2 0 false none, .podEvt 3 0 false none,
   .permit 1 0, .permit 2 0, deliverDel wiring 1 (.podDel 2 0)]

/-- waiting-and-running: pods 1 and 2 were bound (the informer showed their node), then both vanish (tombstones) -/
def ghostBound (wiring : Nat) : List Op :=
  [.pgAdd 0 { min := 3, policy := 1, mode := 1, group := [], gshape := 0 },
   .podEvt 1 0 true none, .podEvt 2 0 true none, .podEvt 4 0 false none,
   deliverDel wiring 1 (.podDel 1 0), deliverDel wiring 1 (.podDel 2 0)]

end KoordVerif.C04
