import KoordVerif.Model.C17Read
/-
C17 extension — the extended reconcile model (`Model/C17Read.lean`: API reads are calls, read faults, scripted
environment events INSIDE a reconcile): what holds at the instant of every `Evict` call.

Proof architecture (helpers live in `KoordVerif.C17.XR`):
  CI j0 d rr x : continuation invariant (mem.spec = api.spec, mode / ReservationRef flag fixed, both phases live,
                 every reservation lookup so far answered with an object, start snapshot fixed)
  Kp x x'      : evictor log, gate object, `env.preempt` unchanged; `looks` only grows
  Spec Q P x r : `.cont x'` ⇒ CI x' ∧ Kp x x' ∧ Q x';  `.stop x'` ⇒ log unchanged, or exactly one new snapshot `s`
                 with `Ev s ∧ P s`
-/
namespace KoordVerif.C17.XR

/-! ### environment events never touch `preempt` -/

theorem envApply_preempt (e : Env) (op : Op) : (envApply e op).preempt = e.preempt := by
  cases op <;> rfl

theorem foldl_envApply_preempt (l : List (Nat × Op)) (e : Env) :
    (l.foldl (fun e ev => envApply e ev.2) e).preempt = e.preempt := by
  induction l generalizing e with
  | nil => rfl
  | cons a t ih => simp only [List.foldl_cons]; rw [ih, envApply_preempt]

/-! ### M level -/

theorem env_statusUpdate (m : M) : m.statusUpdate.2.env = m.env := by
  unfold M.statusUpdate; split <;> rfl

theorem env_jobUpdate (m : M) : m.jobUpdate.2.env = m.env := by
  unfold M.jobUpdate; split <;> rfl

theorem env_updateCondition (m : M) (c : Cond) : (updateCondition m c).2.env = m.env := by
  unfold updateCondition; split
  · exact env_statusUpdate _
  · rfl

theorem env_abortWith (m : M) (r : Nat) : (abortWith m r).env = m.env := by
  unfold abortWith; exact env_statusUpdate _

/-- the job part of the continuation invariant -/
structure CIm (j0 : Job) (d rr : Bool) (m : M) : Prop where
  spec : m.mem.spec = m.api.spec
  d : m.mem.spec.direct = d
  rr : m.mem.spec.resvRef = rr
  ml : livePhase m.mem.status.phase = true
  al : livePhase m.api.status.phase = true
  j0 : m.job0 = j0

variable {j0 : Job} {d rr : Bool}

theorem cim_of_eq {m m' : M} (h : CIm j0 d rr m) (hm : m'.mem = m.mem) (ha : m'.api = m.api) (hj : m'.job0 = m.job0) :
    CIm j0 d rr m' :=
  ⟨by rw [hm, ha]; exact h.spec, by rw [hm]; exact h.d, by rw [hm]; exact h.rr, by rw [hm]; exact h.ml,
   by rw [ha]; exact h.al, by rw [hj]; exact h.j0⟩

theorem cim_statusUpdate {m : M} (h : CIm j0 d rr m) : CIm j0 d rr m.statusUpdate.2 := by
  unfold M.statusUpdate; split
  · exact ⟨rfl, by show m.api.spec.direct = d; rw [← h.spec]; exact h.d,
      by show m.api.spec.resvRef = rr; rw [← h.spec]; exact h.rr, h.ml, h.ml, h.j0⟩
  · exact ⟨h.spec, h.d, h.rr, h.ml, h.al, h.j0⟩

theorem cim_setStatus {m : M} (h : CIm j0 d rr m) (f : Status → Status)
    (hf : livePhase (f m.mem.status).phase = true) : CIm j0 d rr (m.setStatus f) :=
  ⟨h.spec, h.d, h.rr, hf, h.al, h.j0⟩

theorem cim_updateCondition {m : M} (h : CIm j0 d rr m) (c : Cond) : CIm j0 d rr (updateCondition m c).2 := by
  unfold updateCondition; split
  · refine cim_statusUpdate (cim_setStatus (cim_setStatus h _ ?_) _ ?_) <;> exact h.ml
  · exact ⟨h.spec, h.d, h.rr, h.ml, h.al, h.j0⟩

theorem cim_jobUpdate {m : M} (hd : m.mem.spec.direct = d) (hr : m.mem.spec.resvRef = rr)
    (hal : livePhase m.api.status.phase = true) (hj : m.job0 = j0) (ok : m.jobUpdate.1 = true) :
    CIm j0 d rr m.jobUpdate.2 := by
  unfold M.jobUpdate at ok ⊢
  by_cases hw : m.wok = true
  · rw [if_pos hw]
    exact ⟨rfl, hd, hr, hal, hal, hj⟩
  · rw [if_neg hw] at ok; cases ok

/-! ### X level: the frame relation -/

structure Kp (x x' : X) : Prop where
  xs : x'.xs = x.xs
  gate : x'.gate = x.gate
  pre : x'.m.env.preempt = x.m.env.preempt
  ll : x.looks.length ≤ x'.looks.length

theorem Kp.refl (x : X) : Kp x x := ⟨rfl, rfl, rfl, Nat.le_refl _⟩

theorem Kp.trans {a b c : X} (h1 : Kp a b) (h2 : Kp b c) : Kp a c :=
  ⟨h2.xs.trans h1.xs, h2.gate.trans h1.gate, h2.pre.trans h1.pre, Nat.le_trans h1.ll h2.ll⟩

theorem kp_pre (x : X) : Kp x x.pre := ⟨rfl, rfl, foldl_envApply_preempt _ _, Nat.le_refl _⟩

theorem kp_read (x : X) (k : ActK) (p : Env → Bool) : Kp x (x.read k p).2 :=
  ⟨rfl, rfl, foldl_envApply_preempt _ _, Nat.le_refl _⟩

theorem kp_readPod (x : X) : Kp x x.readPod.2 := kp_read x _ _
theorem kp_readResv (x : X) : Kp x x.readResv.2 := kp_read x _ _

/-- the two-step lookup of `GetReservation`, before the ghost fields are set -/
def gr (x : X) : Nat × X := if x.readResv.1 = 1 then x.readResv.2.readResv else x.readResv

theorem getResv_eq (x : X) :
    x.getResv = ((gr x).1, { (gr x).2 with looks := x.looks ++ [(gr x).1],
                                           last := if (gr x).1 = 0 then (gr x).2.m.env.resv else none }) := rfl

theorem kp_gr (x : X) : Kp x (gr x).2 := by
  unfold gr; split
  · exact (kp_readResv x).trans (kp_readResv _)
  · exact kp_readResv x

theorem gr_mem (x : X) : (gr x).2.m.mem = x.m.mem := by unfold gr; split <;> rfl
theorem gr_api (x : X) : (gr x).2.m.api = x.m.api := by unfold gr; split <;> rfl
theorem gr_job0 (x : X) : (gr x).2.m.job0 = x.m.job0 := by unfold gr; split <;> rfl

theorem getResv_mem (x : X) : x.getResv.2.m.mem = x.m.mem := gr_mem x
theorem getResv_api (x : X) : x.getResv.2.m.api = x.m.api := gr_api x
theorem getResv_job0 (x : X) : x.getResv.2.m.job0 = x.m.job0 := gr_job0 x
theorem getResv_looks (x : X) : x.getResv.2.looks = x.looks ++ [x.getResv.1] := rfl

theorem kp_getResv (x : X) : Kp x x.getResv.2 :=
  ⟨(kp_gr x).xs, (kp_gr x).gate, (kp_gr x).pre, by rw [getResv_looks]; simp⟩

theorem kp_setStatus (x : X) (f : Status → Status) : Kp x (x.setStatus f) := ⟨rfl, rfl, rfl, Nat.le_refl _⟩
theorem kp_setSpec (x : X) (f : Spec → Spec) : Kp x (x.setSpec f) := ⟨rfl, rfl, rfl, Nat.le_refl _⟩

theorem kp_statusUpdate (x : X) : Kp x x.statusUpdate.2 :=
  ⟨rfl, rfl, by show x.pre.m.statusUpdate.2.env.preempt = _; rw [env_statusUpdate]; exact (kp_pre x).pre, Nat.le_refl _⟩

theorem kp_jobUpdate (x : X) : Kp x x.jobUpdate.2 :=
  ⟨rfl, rfl, by show x.pre.m.jobUpdate.2.env.preempt = _; rw [env_jobUpdate]; exact (kp_pre x).pre, Nat.le_refl _⟩

theorem kp_updateCondition (x : X) (c : Cond) : Kp x (x.updateCondition c).2 := by
  unfold X.updateCondition; split
  · exact ⟨rfl, rfl, by show (updateCondition x.pre.m c).2.env.preempt = _; rw [env_updateCondition]; exact (kp_pre x).pre,
      Nat.le_refl _⟩
  · exact ⟨rfl, rfl, by show (updateCondition x.m c).2.env.preempt = _; rw [env_updateCondition], Nat.le_refl _⟩

theorem kp_abortWith (x : X) (r : Nat) : Kp x (x.abortWith r) :=
  ⟨rfl, rfl, by show (abortWith x.pre.m r).env.preempt = _; rw [env_abortWith]; exact (kp_pre x).pre, Nat.le_refl _⟩

/-! ### the continuation invariant -/

structure CI (j0 : Job) (d rr : Bool) (x : X) : Prop where
  m : CIm j0 d rr x.m
  lz : ∀ l ∈ x.looks, l = 0

theorem ci_pre {x : X} (h : CI j0 d rr x) : CI j0 d rr x.pre := ⟨cim_of_eq h.m rfl rfl rfl, h.lz⟩

theorem ci_read {x : X} (h : CI j0 d rr x) (k : ActK) (p : Env → Bool) : CI j0 d rr (x.read k p).2 :=
  ⟨cim_of_eq h.m rfl rfl rfl, h.lz⟩

theorem ci_readPod {x : X} (h : CI j0 d rr x) : CI j0 d rr x.readPod.2 := ci_read h _ _

theorem ci_getResv {x : X} (h : CI j0 d rr x) (hc : x.getResv.1 = 0) : CI j0 d rr x.getResv.2 :=
  ⟨cim_of_eq h.m (getResv_mem x) (getResv_api x) (getResv_job0 x), by
    intro l hl
    rw [getResv_looks, List.mem_append, List.mem_singleton] at hl
    rcases hl with hl | hl
    · exact h.lz l hl
    · rw [hl, hc]⟩

theorem ci_setStatus {x : X} (h : CI j0 d rr x) (f : Status → Status)
    (hf : livePhase (f x.m.mem.status).phase = true) : CI j0 d rr (x.setStatus f) :=
  ⟨cim_setStatus h.m f hf, h.lz⟩

theorem ci_statusUpdate {x : X} (h : CI j0 d rr x) : CI j0 d rr x.statusUpdate.2 :=
  ⟨cim_statusUpdate (ci_pre h).m, h.lz⟩

theorem ci_updateCondition {x : X} (h : CI j0 d rr x) (c : Cond) : CI j0 d rr (x.updateCondition c).2 := by
  unfold X.updateCondition; split
  · exact ⟨cim_updateCondition (ci_pre h).m c, h.lz⟩
  · exact ⟨cim_updateCondition h.m c, h.lz⟩

/-! ### what is known about a snapshot, and stage specifications -/

/-- facts about a snapshot that do not depend on where in the reconcile we are -/
structure Ev (j0 : Job) (d rr : Bool) (s : XSnap) : Prop where
  job0 : s.job0 = j0
  lz : ∀ l ∈ s.looks, l = 0
  ml : livePhase s.mem.status.phase = true
  al : livePhase s.api.status.phase = true
  hd : s.mem.spec.direct = d
  hrr : s.mem.spec.resvRef = rr
  pod : s.pod.isSome = true
  last : rr = true → ∃ r3, s.last = some r3 ∧ resvSucceeded r3 = false
  target : ∀ p, s.pod = some p → s.mem.spec.podUID = 0 ∨ p.uid = s.mem.spec.podUID

/-- how a snapshot taken later relates to the state `x` -/
structure Rel (x : X) (s : XSnap) : Prop where
  gate : s.gate = x.gate
  pre : s.env.preempt = x.m.env.preempt
  ll : x.looks.length ≤ s.looks.length

theorem Rel.trans {x x' : X} {s : XSnap} (k : Kp x x') (h : Rel x' s) : Rel x s :=
  ⟨h.gate.trans k.gate, h.pre.trans k.pre, Nat.le_trans k.ll h.ll⟩

def Spec (j0 : Job) (d rr : Bool) (Q : X → Prop) (P : XSnap → Prop) (x : X) : RX → Prop
  | .cont x' => CI j0 d rr x' ∧ Kp x x' ∧ Q x'
  | .stop x' => x'.xs = x.xs ∨ ∃ s, x'.xs = x.xs ++ [s] ∧ Ev j0 d rr s ∧ P s

/-- the same for a result that ends the reconcile either way -/
def FinS (j0 : Job) (d rr : Bool) (P : XSnap → Prop) (x : X) (x' : X) : Prop :=
  x'.xs = x.xs ∨ ∃ s, x'.xs = x.xs ++ [s] ∧ Ev j0 d rr s ∧ P s

abbrev T : X → Prop := fun _ => True

theorem Spec.fin {Q : X → Prop} {P : XSnap → Prop} {x : X} {r : RX} (h : Spec j0 d rr Q P x r) : FinS j0 d rr P x r.x := by
  cases r with
  | stop x' => exact h
  | cont x' => exact Or.inl h.2.1.xs

theorem Spec.mono {Q Q' : X → Prop} {P P' : XSnap → Prop} {x : X} {r : RX} (h : Spec j0 d rr Q P x r)
    (hq : ∀ x', Q x' → Q' x') (hp : ∀ s, Ev j0 d rr s → P s → P' s) : Spec j0 d rr Q' P' x r := by
  cases r with
  | cont x' => exact ⟨h.1, h.2.1, hq _ h.2.2⟩
  | stop x' =>
    rcases h with h | ⟨s, hs, he, hp'⟩
    · exact Or.inl h
    · exact Or.inr ⟨s, hs, he, hp s he hp'⟩

theorem FinS.mono {P P' : XSnap → Prop} {x x0 x' : X} (h : FinS j0 d rr P x x') (hx : x.xs = x0.xs)
    (hp : ∀ s, Ev j0 d rr s → P s → P' s) : FinS j0 d rr P' x0 x' := by
  rcases h with h | ⟨s, hs, he, hp'⟩
  · exact Or.inl (h.trans hx)
  · exact Or.inr ⟨s, by rw [hs, hx], he, hp s he hp'⟩

theorem Spec.bind {Q Q' : X → Prop} {P : XSnap → Prop} {x : X} {r : RX} {f : X → RX} (h : Spec j0 d rr Q P x r)
    (hf : ∀ x', CI j0 d rr x' → Kp x x' → Q x' → Spec j0 d rr Q' P x' (f x')) : Spec j0 d rr Q' P x (r.bind f) := by
  cases r with
  | stop x' => exact h
  | cont x' =>
    have h' := hf x' h.1 h.2.1 h.2.2
    simp only [RX.bind]
    cases hr : f x' with
    | cont x'' =>
      rw [hr] at h'
      exact ⟨h'.1, h.2.1.trans h'.2.1, h'.2.2⟩
    | stop x'' =>
      rw [hr] at h'
      rcases h' with h' | ⟨s, hs, he⟩
      · exact Or.inl (h'.trans h.2.1.xs)
      · exact Or.inr ⟨s, by rw [hs, h.2.1.xs], he⟩

theorem Spec.bindFin {Q : X → Prop} {P : XSnap → Prop} {x : X} {r : RX} {f : X → RX} (h : Spec j0 d rr Q P x r)
    (hf : ∀ x', CI j0 d rr x' → Kp x x' → Q x' → FinS j0 d rr P x' (f x').x) : FinS j0 d rr P x (r.bind f).x := by
  cases r with
  | stop x' => exact h
  | cont x' =>
    simp only [RX.bind]
    exact (hf x' h.1 h.2.1 h.2.2).mono h.2.1.xs (fun _ _ hp => hp)

theorem spec_okOrX {P : XSnap → Prop} {x : X} (r : Bool × X) (hc : CI j0 d rr r.2) (hk : Kp x r.2) :
    Spec j0 d rr T P x (okOrX r) := by
  unfold okOrX; split
  · exact ⟨hc, hk, trivial⟩
  · exact Or.inl hk.xs

/-! ### stages -/

theorem kp_deleteReservationX (x : X) : Kp x (deleteReservationX x).2 := by
  unfold deleteReservationX
  split
  · exact Kp.refl x
  · split
    · exact kp_getResv x
    · split
      · exact (kp_getResv x).trans ((kp_pre _).trans ⟨rfl, rfl, rfl, Nat.le_refl _⟩)
      · split
        · exact (kp_getResv x).trans ((kp_pre _).trans ⟨rfl, rfl, rfl, Nat.le_refl _⟩)
        · exact (kp_getResv x).trans ((kp_pre _).trans ⟨rfl, rfl, rfl, Nat.le_refl _⟩)

theorem spec_abortIfTimeoutX {P : XSnap → Prop} {x : X} (h : CI j0 d rr x) : Spec j0 d rr T P x (abortIfTimeoutX x) := by
  unfold abortIfTimeoutX
  split
  · exact ⟨h, Kp.refl x, trivial⟩
  · split
    · exact ⟨h, Kp.refl x, trivial⟩
    · split
      · exact Or.inl (kp_deleteReservationX x).xs
      · exact Or.inl ((kp_deleteReservationX x).trans (kp_abortWith _ _)).xs

theorem spec_preparePendingX {P : XSnap → Prop} {x : X} (h : CI j0 d rr x) : Spec j0 d rr T P x (preparePendingX x) := by
  unfold preparePendingX
  split
  · exact ⟨h, Kp.refl x, trivial⟩
  · split
    · exact Or.inl (kp_abortWith _ _).xs
    · split
      · exact Or.inl (kp_readPod x).xs
      · split
        · exact Or.inl ((kp_readPod x).trans (kp_abortWith _ _)).xs
        · rename_i p _
          have hy := ci_readPod h
          have k1 : Kp x ((x.readPod.2.setSpec fun s => { s with podUID := p.uid }).jobUpdate).2 :=
            ((kp_readPod x).trans (kp_setSpec _ _)).trans (kp_jobUpdate _)
          split
          · rename_i hok
            have c1 : CI j0 d rr ((x.readPod.2.setSpec fun s => { s with podUID := p.uid }).jobUpdate).2 :=
              ⟨cim_jobUpdate (m := (x.readPod.2.setSpec fun s => { s with podUID := p.uid }).pre.m)
                hy.m.d hy.m.rr hy.m.al hy.m.j0 hok, hy.lz⟩
            exact spec_okOrX _ (ci_statusUpdate (ci_setStatus c1 _ (by exact (by decide : livePhase Ph.running = true))))
              ((k1.trans (kp_setStatus _ _)).trans (kp_statusUpdate _))
          · exact Or.inl k1.xs

theorem limiterRequeueX_spec {x : X} (h : CI j0 d rr x) :
    CI j0 d rr (limiterRequeueX x).2 ∧ Kp x (limiterRequeueX x).2 := by
  unfold limiterRequeueX
  split
  · exact ⟨h, Kp.refl x⟩
  · split
    · exact ⟨h, Kp.refl x⟩
    · split
      · exact ⟨ci_readPod h, kp_readPod x⟩
      · exact ⟨ci_readPod h, kp_readPod x⟩

/-- on fall-through of the bound-by-another-pod check called WITHOUT a pod (as `evictPod` does): the reservation
    was found and is not Succeeded -/
def QLast (rr : Bool) (pod : Option Pod) : X → Prop :=
  fun x' => pod = none → rr = true → ∃ r3, x'.last = some r3 ∧ resvSucceeded r3 = false

theorem spec_boundByOtherX {P : XSnap → Prop} {x : X} (h : CI j0 d rr x) (pod : Option Pod) :
    Spec j0 d rr (fun x' => x'.m.mem = x.m.mem ∧ QLast rr pod x') P x (boundByOtherX x pod) := by
  unfold boundByOtherX
  split
  · rename_i hnr
    refine ⟨h, Kp.refl x, rfl, ?_⟩
    intro _ hrr
    have := h.m.rr
    rw [hrr] at this
    rw [this] at hnr
    cases hnr
  · split
    · exact Or.inl ((kp_getResv x).trans (kp_abortWith _ _)).xs
    · split
      · exact Or.inl (kp_getResv x).xs
      · rename_i hc
        have hc0 : x.getResv.1 = 0 := Decidable.not_not.mp hc
        split
        · exact Or.inl (kp_getResv x).xs
        · rename_i r hr
          split
          · split
            · exact Or.inl ((kp_getResv x).trans (kp_abortWith _ _)).xs
            · split
              · exact ⟨ci_getResv h hc0, kp_getResv x, getResv_mem x, fun hp => by cases hp⟩
              · exact Or.inl ((kp_getResv x).trans (kp_abortWith _ _)).xs
          · rename_i hs
            exact ⟨ci_getResv h hc0, kp_getResv x, getResv_mem x, fun _ _ => ⟨r, hr, by simpa using hs⟩⟩

theorem spec_evictGoneX {P : XSnap → Prop} {x : X} (h : CI j0 d rr x) : Spec j0 d rr T P x (evictGoneX x) := by
  unfold evictGoneX
  split
  · exact Or.inl (kp_abortWith _ _).xs
  · exact spec_okOrX _ (ci_updateCondition h _) (kp_updateCondition _ _)

theorem Spec.from {Q : X → Prop} {P : XSnap → Prop} {x y : X} {r : RX} (k : Kp x y) (h : Spec j0 d rr Q P y r) :
    Spec j0 d rr Q P x r := by
  cases r with
  | cont x' => exact ⟨h.1, k.trans h.2.1, h.2.2⟩
  | stop x' =>
    rcases h with h | ⟨s, hs, he⟩
    · exact Or.inl (h.trans k.xs)
    · exact Or.inr ⟨s, by rw [hs, k.xs], he⟩

/-- the snapshot `X.evictCall` records -/
def snapOf (z : X) (p : Pod) : XSnap :=
  { env := z.pre.m.env, job0 := z.m.job0, mem := z.m.mem, api := z.m.api,
    looks := z.looks, gate := z.gate, last := z.last, pod := some p }

theorem spec_evictPodX {x : X} (h : CI j0 d rr x) : Spec j0 d rr T (Rel x) x (evictPodX x) := by
  unfold evictPodX
  split
  · exact ⟨h, Kp.refl x, trivial⟩
  · split
    · exact Or.inl (kp_readPod x).xs
    · have hy := ci_readPod h
      have ky := kp_readPod x
      split
      · exact Spec.from ky (spec_evictGoneX hy)
      · rename_i p _
        split
        · exact Spec.from ky (spec_evictGoneX hy)
        · split
          · exact Or.inl ky.xs
          · refine Spec.from ky (Spec.bind (spec_boundByOtherX hy none) ?_)
            intro z hz kz qz
            have htg : x.m.mem.spec.podUID = 0 ∨ p.uid = x.m.mem.spec.podUID := by
              rename_i hne _
              simp only [Bool.and_eq_true, bne_iff_ne, ne_eq, not_and, Decidable.not_not] at hne
              by_cases h0 : x.m.mem.spec.podUID = 0
              · exact Or.inl h0
              · exact Or.inr (hne h0).symm
            have hzm : z.m.mem = x.m.mem := qz.1
            have hev : Ev j0 d rr (snapOf z p) :=
              ⟨hz.m.j0, hz.lz, hz.m.ml, hz.m.al, hz.m.d, hz.m.rr, rfl, qz.2 rfl, by
                intro p' hp'
                cases hp'
                show z.m.mem.spec.podUID = 0 ∨ p.uid = z.m.mem.spec.podUID
                rw [hzm]; exact htg⟩
            have hrel : Rel x (snapOf z p) := Rel.trans (ky.trans kz) ⟨rfl, (kp_pre z).pre, Nat.le_refl _⟩
            split
            · exact Or.inr ⟨snapOf z p, (kp_updateCondition _ _).xs, hev, hrel⟩
            · exact Or.inr ⟨snapOf z p, rfl, hev, hrel⟩

theorem spec_evictDirectX {x : X} (h : CI j0 d rr x) : Spec j0 d rr T (Rel x) x (evictDirectX x) := by
  unfold evictDirectX
  refine Spec.bind (spec_evictPodX h) ?_
  intro y _ _ _
  exact Or.inl ((kp_setStatus _ _).trans (kp_statusUpdate _)).xs

theorem kp_createReservationX (x : X) : Kp x (createReservationX x) := by
  unfold createReservationX
  split
  · exact kp_readPod x
  · split
    · exact (kp_readPod x).trans (kp_abortWith _ _)
    · have k0 : Kp x ({ x.readPod.2.pre with m := x.readPod.2.pre.m.logw .resvCreate } : X) :=
        (kp_readPod x).trans ((kp_pre _).trans ⟨rfl, rfl, rfl, Nat.le_refl _⟩)
      split
      · exact k0.trans (kp_updateCondition _ _)
      · split
        · split
          · exact (k0.trans (kp_readResv _)).trans (kp_updateCondition _ _)
          · exact ((k0.trans (kp_readResv _)).trans (kp_setSpec _ _)).trans (kp_jobUpdate _)
        · refine Kp.trans ?_ (kp_jobUpdate _)
          refine Kp.trans ?_ (kp_setSpec _ _)
          exact (kp_readPod x).trans ((kp_pre _).trans ⟨rfl, rfl, rfl, Nat.le_refl _⟩)

theorem spec_setReservationOrderX {P : XSnap → Prop} {x : X} (h : CI j0 d rr x) :
    Spec j0 d rr T P x (setReservationOrderX x) := by
  unfold setReservationOrderX
  split
  · exact Or.inl (kp_getResv x).xs
  · rename_i hc
    have hc0 : x.getResv.1 = 0 := Decidable.not_not.mp hc
    have hy := ci_getResv h hc0
    have kpre : Kp x x.getResv.2.pre := (kp_getResv x).trans (kp_pre _)
    split
    · exact Or.inl (kp_getResv x).xs
    · split
      · exact ⟨hy, kp_getResv x, trivial⟩
      · split
        · exact Or.inl kpre.xs
        · split
          · exact Or.inl kpre.xs
          · exact ⟨⟨cim_of_eq (ci_pre hy).m rfl rfl rfl, hy.lz⟩, kpre.trans ⟨rfl, rfl, rfl, Nat.le_refl _⟩, trivial⟩

theorem spec_syncScheduleFailedX {P : XSnap → Prop} {x : X} (h : CI j0 d rr x) (r : Resv) :
    Spec j0 d rr T P x (syncScheduleFailedX x r) := by
  unfold syncScheduleFailedX
  split
  · split
    · exact spec_okOrX _ (ci_updateCondition h _) (kp_updateCondition _ _)
    · exact ⟨h, Kp.refl x, trivial⟩
  · exact ⟨h, Kp.refl x, trivial⟩

/-- fall-through of the `!IsReservationScheduled` block -/
def QGate (r : Resv) : X → Prop :=
  fun x' => resvScheduled r = true ∨ (r.needPreempt = true ∧ x'.m.env.preempt = 2)

theorem spec_preemptGateX {P : XSnap → Prop} {x : X} (h : CI j0 d rr x) (r : Resv) :
    Spec j0 d rr (QGate r) P x (preemptGateX x r) := by
  unfold preemptGateX
  split
  · rename_i hs
    exact ⟨h, Kp.refl x, Or.inl hs⟩
  · split
    · exact Or.inl (kp_abortWith _ _).xs
    · rename_i hn
      split
      · rename_i h2
        refine ⟨⟨cim_of_eq h.m rfl rfl rfl, h.lz⟩, ⟨rfl, rfl, rfl, Nat.le_refl _⟩, Or.inr ⟨?_, h2⟩⟩
        cases hnp : r.needPreempt with
        | true => rfl
        | false => rw [hnp] at hn; exact absurd rfl hn
      · exact Or.inl rfl

theorem spec_prepareScheduleSuccessX {P : XSnap → Prop} {x : X} (h : CI j0 d rr x) (r : Resv) :
    Spec j0 d rr T P x (prepareScheduleSuccessX x r) := by
  unfold prepareScheduleSuccessX
  split
  · exact ⟨h, Kp.refl x, trivial⟩
  · split
    · exact ⟨h, Kp.refl x, trivial⟩
    · split
      · exact Or.inl (kp_readPod x).xs
      · split
        · exact Or.inl ((kp_readPod x).trans (kp_abortWith _ _)).xs
        · exact spec_okOrX _ (ci_updateCondition (ci_setStatus (ci_readPod h) _ (by exact (ci_readPod h).m.ml)) _)
            (((kp_readPod x).trans (kp_setStatus _ _)).trans (kp_updateCondition _ _))

theorem kp_podScheduledDoneX (x : X) : Kp x (podScheduledDoneX x) := by
  unfold podScheduledDoneX
  split
  · exact (kp_setStatus _ _).trans (kp_statusUpdate _)
  · exact kp_setStatus _ _

theorem xs_waitPendingPodX {x : X} (h : CI j0 d rr x) : (waitPendingPodX x).xs = x.xs := by
  unfold waitPendingPodX
  split
  · exact (kp_readPod x).xs
  · split
    · exact ((kp_readPod x).trans (kp_abortWith _ _)).xs
    · rename_i p _
      split
      · have hb := spec_boundByOtherX (P := fun _ => False) (ci_readPod h) (some p)
        split
        · rename_i y heq
          rw [heq] at hb
          rcases hb with hb | ⟨_, _, _, hf⟩
          · exact hb.trans (kp_readPod x).xs
          · exact hf.elim
        · rename_i y heq
          rw [heq] at hb
          exact ((kp_updateCondition _ _).xs.trans hb.2.1.xs).trans (kp_readPod x).xs
      · exact ((kp_readPod x).trans ((kp_setStatus _ _).trans (kp_podScheduledDoneX _))).xs

theorem spec_waitBindX {P : XSnap → Prop} {x : X} (h : CI j0 d rr x) (r : Resv) : Spec j0 d rr T P x (waitBindX x r) := by
  unfold waitBindX
  split
  · exact ⟨h, Kp.refl x, trivial⟩
  · split
    · exact Or.inl (kp_updateCondition _ _).xs
    · exact ⟨h, Kp.refl x, trivial⟩

theorem spec_boundSuccessX {P : XSnap → Prop} {x : X} (h : CI j0 d rr x) : Spec j0 d rr T P x (boundSuccessX x) := by
  unfold boundSuccessX
  split
  · exact spec_okOrX _ (ci_statusUpdate (ci_setStatus (ci_setStatus h _ (by exact h.m.ml)) _ (by exact h.m.ml)))
      (((kp_setStatus _ _).trans (kp_setStatus _ _)).trans (kp_statusUpdate _))
  · exact ⟨ci_setStatus h _ (by exact h.m.ml), kp_setStatus _ _, trivial⟩

theorem spec_waitReadyX {P : XSnap → Prop} {x : X} (h : CI j0 d rr x) : Spec j0 d rr T P x (waitReadyX x) := by
  unfold waitReadyX
  split
  · exact ⟨h, Kp.refl x, trivial⟩
  · split
    · exact Or.inl (kp_read x _ _).xs
    · split
      · exact Or.inl ((kp_read x _ _).trans (kp_updateCondition _ _)).xs
      · exact ⟨ci_read h _ _, kp_read x _ _, trivial⟩

theorem spec_finishX {P : XSnap → Prop} {x : X} (h : CI j0 d rr x) : Spec j0 d rr T P x (finishX x) := by
  unfold finishX
  refine Spec.bind (spec_okOrX (P := P) _ (ci_updateCondition h _) (kp_updateCondition _ _)) ?_
  intro y _ _ _
  exact Or.inl (((kp_setStatus _ _).trans (kp_setStatus _ _)).trans (kp_statusUpdate _)).xs

/-- the gates passed between fetching the reservation `r` and the evictor call -/
def PG (r : Resv) (s : XSnap) : Prop :=
  resvPending r = false ∧ resvExpired r = false ∧
  (resvScheduled r = true ∨ (r.needPreempt = true ∧ s.env.preempt = 2)) ∧ r.pendingMode = false

theorem spec_withReservationX {x : X} (h : CI j0 d rr x) (r : Resv) :
    Spec j0 d rr T (fun s => PG r s ∧ s.gate = x.gate ∧ x.looks.length ≤ s.looks.length) x (withReservationX x r) := by
  unfold withReservationX
  refine Spec.bind (spec_syncScheduleFailedX h r) ?_
  intro x1 h1 k1 _
  split
  · exact Or.inl rfl
  · rename_i hp
    split
    · exact Or.inl (kp_abortWith _ _).xs
    · rename_i he
      refine Spec.bind (spec_preemptGateX h1 r) ?_
      intro x2 h2 k2 q2
      refine Spec.bind (spec_prepareScheduleSuccessX h2 r) ?_
      intro x3 h3 k3 _
      split
      · exact Or.inl (xs_waitPendingPodX h3)
      · rename_i hm
        have k03 : Kp x x3 := k1.trans (k2.trans k3)
        refine Spec.bind (Spec.mono (spec_evictPodX h3) (fun _ q => q) ?_) ?_
        · intro s _ hrel
          refine ⟨⟨by simpa using hp, by simpa using he, ?_, by simpa using hm⟩, hrel.gate.trans k03.gate,
            Nat.le_trans k03.ll hrel.ll⟩
          rcases q2 with q | ⟨q, q'⟩
          · exact Or.inl q
          · exact Or.inr ⟨q, by rw [hrel.pre, k3.pre]; exact q'⟩
        · intro x4 h4 _ _
          refine Spec.bind (spec_waitBindX h4 r) ?_
          intro x5 h5 _ _
          refine Spec.bind (spec_boundSuccessX h5) ?_
          intro x6 h6 _ _
          refine Spec.bind (spec_waitReadyX h6) ?_
          intro x7 h7 _ _
          exact spec_finishX h7

/-- everything the reservation-first path guarantees at the evictor call -/
def PF (rr : Bool) (s : XSnap) : Prop :=
  rr = true ∧ s.looks ≠ [] ∧ ∃ r2, s.gate = some r2 ∧ PG r2 s

theorem fin_reservationFirstX {x : X} (h : CI j0 d rr x) : FinS j0 d rr (PF rr) x (reservationFirstX x).x := by
  unfold reservationFirstX
  split
  · exact Or.inl (kp_createReservationX x).xs
  · rename_i hnr
    have hrr : rr = true := by
      rw [← h.m.rr]
      cases hv : x.m.mem.spec.resvRef with
      | true => rfl
      | false => rw [hv] at hnr; exact absurd rfl hnr
    refine Spec.bindFin (spec_setReservationOrderX (P := PF rr) h) ?_
    intro x1 h1 _ _
    refine Spec.bindFin (spec_okOrX (P := PF rr) _ (ci_updateCondition h1 _) (kp_updateCondition _ _)) ?_
    intro x2 h2 _ _
    split
    · exact Or.inl ((kp_getResv x2).trans (kp_abortWith _ _)).xs
    · split
      · exact Or.inl (kp_getResv x2).xs
      · rename_i hc
        have hc0 : x2.getResv.1 = 0 := Decidable.not_not.mp hc
        split
        · exact Or.inl (kp_getResv x2).xs
        · rename_i r _
          have h3 : CI j0 d rr ({ x2.getResv.2 with gate := some r } : X) :=
            ⟨(ci_getResv h2 hc0).m, (ci_getResv h2 hc0).lz⟩
          refine (spec_withReservationX h3 r).fin.mono (kp_getResv x2).xs ?_
          intro s _ hs
          refine ⟨hrr, ?_, r, hs.2.1, hs.1⟩
          intro hnil
          have hl := hs.2.2
          rw [hnil] at hl
          have : ({ x2.getResv.2 with gate := some r } : X).looks = x2.looks ++ [x2.getResv.1] := rfl
          rw [this] at hl
          simp at hl

/-- where `doMigrateX` starts: a freshly read job, nothing looked up yet -/
structure Start (j0 : Job) (x : X) : Prop where
  mem : x.m.mem = j0
  api : x.m.api = j0
  job0 : x.m.job0 = j0
  looks : x.looks = []

theorem fin_doMigrateX {x : X} (h : Start j0 x) :
    FinS j0 j0.spec.direct j0.spec.resvRef (fun s => j0.spec.direct = false → PF j0.spec.resvRef s) x (doMigrateX x) := by
  unfold doMigrateX
  split
  · exact Or.inl rfl
  · split
    · exact Or.inl rfl
    · rename_i hl
      have hlive : livePhase x.m.mem.status.phase = true := by simpa using hl
      have hci : CI j0 j0.spec.direct j0.spec.resvRef x :=
        ⟨⟨by rw [h.mem, h.api], by rw [h.mem], by rw [h.mem], hlive, by rw [h.api, ← h.mem]; exact hlive, h.job0⟩,
         by rw [h.looks]; intro l hl; cases hl⟩
      refine Spec.bindFin (spec_abortIfTimeoutX hci) ?_
      intro x1 h1 _ _
      refine Spec.bindFin (spec_preparePendingX h1) ?_
      intro x2 h2 _ _
      have hlim := limiterRequeueX_spec h2
      split
      · exact Or.inl hlim.2.xs
      · simp only [RX.bind]
        split
        · rename_i hdir
          refine (spec_evictDirectX hlim.1).fin.mono hlim.2.xs ?_
          intro s _ _ hd
          have := hlim.1.m.d
          rw [hdir] at this
          rw [← this] at hd
          cases hd
        · exact (fin_reservationFirstX hlim.1).mono hlim.2.xs (fun _ _ hp _ => hp)

end KoordVerif.C17.XR

namespace KoordVerif.C17
open XR

/-- what holds at the instant of every `Evict` call of the extended model, whatever write faults, READ faults and
    scripted environment events inside the reconcile are -/
structure GoodX (w : World) (s : XSnap) : Prop where
  job0 : s.job0 = w.job
  looks : ∀ l ∈ s.looks, l = 0
  memLive : livePhase s.mem.status.phase = true
  apiLive : livePhase s.api.status.phase = true
  pod : s.pod.isSome = true
  last : s.mem.spec.resvRef = true → ∃ r3, s.last = some r3 ∧ resvSucceeded r3 = false
  gates : w.job.spec.direct = false →
    s.mem.spec.resvRef = true ∧ s.looks ≠ [] ∧
    ∃ r2, s.gate = some r2 ∧ resvPending r2 = false ∧ resvExpired r2 = false ∧
      (resvScheduled r2 = true ∨ (r2.needPreempt = true ∧ s.env.preempt = 2)) ∧ r2.pendingMode = false
  /-- the pod handed to the evictor is the job's target (the recorded PodRef.UID), never a same-name replacement -/
  target : ∀ p, s.pod = some p → s.mem.spec.podUID = 0 ∨ p.uid = s.mem.spec.podUID

theorem goodX_of {w : World} {s : XSnap} (he : Ev w.job w.job.spec.direct w.job.spec.resvRef s)
    (hp : w.job.spec.direct = false → PF w.job.spec.resvRef s) : GoodX w s where
  job0 := he.job0
  looks := he.lz
  memLive := he.ml
  apiLive := he.al
  pod := he.pod
  last := fun h => he.last (by rw [← he.hrr]; exact h)
  gates := fun hd => by
    obtain ⟨hrr, hl, r2, hg, hpg⟩ := hp hd
    exact ⟨by rw [he.hrr]; exact hrr, hl, r2, hg, hpg⟩
  target := he.target

/-- the evictor log of one extended reconcile: empty, or one snapshot that is `GoodX` -/
theorem reconcileX_evicts (w : World) (sc : Script) :
    (reconcileX w sc).2.evicts = [] ∨ ∃ s, (reconcileX w sc).2.evicts = [s] ∧ GoodX w s := by
  unfold reconcileX
  split
  · exact Or.inl rfl
  · split
    · exact Or.inl rfl
    · have hst : Start w.job ((X.init w sc).read .getJob fun _ => true).2 := ⟨rfl, rfl, rfl, rfl⟩
      rcases fin_doMigrateX hst with h | ⟨s, hs, he, hp⟩
      · exact Or.inl h
      · exact Or.inr ⟨s, hs, goodX_of he hp⟩

theorem evictX_good (w : World) (sc : Script) : ∀ s ∈ (reconcileX w sc).2.evicts, GoodX w s := by
  intro s hs
  rcases reconcileX_evicts w sc with h | ⟨s', h, hg⟩
  · rw [h] at hs; cases hs
  · rw [h, List.mem_singleton] at hs
    rw [hs]; exact hg

theorem evictX_once (w : World) (sc : Script) : (reconcileX w sc).2.evicts.length ≤ 1 := by
  rcases reconcileX_evicts w sc with h | ⟨s', h, _⟩
  · rw [h]; exact Nat.zero_le _
  · rw [h]; exact Nat.le_refl _

/-! ### histories -/

theorem stepX_good (w : World) (op : OpX) : ∀ s ∈ (stepX w op).2.evicts, GoodX w s := by
  cases op with
  | reconX sc => intro s hs; exact evictX_good w sc s hs
  | env op =>
    cases op <;> intro s hs <;> first
      | exact evictX_good w _ s hs
      | exact absurd hs List.not_mem_nil

/-- every evictor call of a history is `GoodX` for the world its reconcile started from -/
theorem runX_good (ops : List OpX) : ∀ w : World, ∀ s ∈ (runX w ops).2, ∃ w', GoodX w' s := by
  induction ops with
  | nil => intro w s hs; exact absurd hs List.not_mem_nil
  | cons op ops ih =>
    intro w s hs
    simp only [runX, List.mem_append] at hs
    rcases hs with hs | hs
    · exact ⟨w, stepX_good w op s hs⟩
    · exact ih _ s hs

/-- over all histories incl. read faults and mid-reconcile events: never an eviction for a job that is (being
    marked) Failed/Succeeded -/
theorem failed_job_never_evictsX (ops : List OpX) :
    ∀ w : World, ∀ s ∈ (runX w ops).2, livePhase s.mem.status.phase = true ∧ livePhase s.api.status.phase = true := by
  intro w s hs
  obtain ⟨w', hg⟩ := runX_good ops w s hs
  exact ⟨hg.memLive, hg.apiLive⟩

theorem evict_lookups_answered_history (ops : List OpX) :
    ∀ w : World, ∀ s ∈ (runX w ops).2, ∀ l ∈ s.looks, l = 0 := by
  intro w s hs
  obtain ⟨w', hg⟩ := runX_good ops w s hs
  exact hg.looks

theorem evict_target_only_history (ops : List OpX) :
    ∀ w : World, ∀ s ∈ (runX w ops).2, ∀ p, s.pod = some p → s.mem.spec.podUID = 0 ∨ p.uid = s.mem.spec.podUID := by
  intro w s hs
  obtain ⟨w', hg⟩ := runX_good ops w s hs
  exact hg.target

/-! ### non-live phases are absorbing -/

theorem doMigrateX_dead {x : X} (h : livePhase x.m.mem.status.phase = false) : doMigrateX x = x := by
  unfold doMigrateX
  split
  · rfl
  · split
    · rfl
    · rename_i hl
      rw [h] at hl
      exact absurd rfl hl

/-- non-live phases are absorbing in the extended model too -/
theorem terminalX_absorbing (w : World) (sc : Script) (h : livePhase w.job.status.phase = false) :
    (reconcileX w sc).1.job = w.job ∧ (reconcileX w sc).2.evicts = [] := by
  unfold reconcileX
  split
  · exact ⟨rfl, rfl⟩
  · split
    · exact ⟨rfl, rfl⟩
    · have hx : doMigrateX ((X.init w sc).read .getJob fun _ => true).2 = ((X.init w sc).read .getJob fun _ => true).2 :=
        doMigrateX_dead h
      rw [hx]
      exact ⟨rfl, rfl⟩

theorem stepX_terminal (w : World) (op : OpX) (h : livePhase w.job.status.phase = false) :
    (stepX w op).1.job.status = w.job.status ∧ (stepX w op).2.evicts = [] := by
  cases op with
  | reconX sc =>
    have := terminalX_absorbing w sc h
    exact ⟨by show (reconcileX w sc).1.job.status = _; rw [this.1], this.2⟩
  | env op =>
    cases op with
    | recon f =>
      have := terminalX_absorbing w ⟨f, 0, []⟩ h
      exact ⟨by show (reconcileX w ⟨f, 0, []⟩).1.job.status = _; rw [this.1], this.2⟩
    | _ => exact ⟨rfl, rfl⟩

theorem terminalX_forever (ops : List OpX) :
    ∀ w : World, livePhase w.job.status.phase = false →
      (runX w ops).1.job.status = w.job.status ∧ (runX w ops).2 = [] := by
  induction ops with
  | nil => intro w _; exact ⟨rfl, rfl⟩
  | cons op ops ih =>
    intro w h
    have hs := stepX_terminal w op h
    have h' : livePhase (stepX w op).1.job.status.phase = false := by rw [hs.1]; exact h
    have hr := ih _ h'
    simp only [runX]
    exact ⟨hr.1.trans hs.1, by rw [hs.2, hr.2]; rfl⟩

/-! ### non-vacuity -/

def xrJob : Job :=
  { spec := ⟨false, false, 300, true, 1, true, false, 0⟩,
    status := ⟨Ph.running, CT.resvCreated, 0, 0, false, [⟨CT.resvCreated, true, 0, 0⟩]⟩ }

def xrWorld : World :=
  { job := xrJob,
    env := ⟨10, some ⟨1, 3, 0, 0, false⟩, some ⟨RPh.available, 1, 1, 0, false, 0, false, true, false⟩, 0, false, 0, 1⟩ }

/-- no fault, no event: one eviction, all three reservation lookups answered -/
example : (reconcileX xrWorld ⟨0, 0, []⟩).2.evicts.map (fun s => s.looks) = [[0, 0, 0]] := by decide

/-- the gate object and the object of the last lookup are recorded -/
example : (reconcileX xrWorld ⟨0, 0, []⟩).2.evicts.map (fun s => (s.gate.isSome, s.last.isSome, s.pod.isSome)) =
    [(true, true, true)] := by decide

/-- a read fault at the third lookup (read 6): no eviction, the job stays Running -/
example : (reconcileX xrWorld ⟨0, 64, []⟩).2.evicts = [] ∧
    (reconcileX xrWorld ⟨0, 64, []⟩).1.job.status.phase = Ph.running := by decide

/-- the reservation vanishes right before the third lookup (API calls 7 and 8 are its two Gets; calls 0‥6 are the
    reads listed above plus the ReservationScheduled status write): no eviction, the job is aborted -/
example : (reconcileX xrWorld ⟨0, 0, [(7, .resv none)]⟩).2.evicts = [] ∧
    (reconcileX xrWorld ⟨0, 0, [(7, .resv none)]⟩).1.job.status.phase = Ph.failed := by decide

/-- the reservation turns Succeeded (bound by somebody else) right before the third lookup: no eviction, Failed -/
example : (reconcileX xrWorld ⟨0, 0, [(7, .resv (some ⟨RPh.succeeded, 1, 1, 0, false, 9, false, true, false⟩))]⟩).2.evicts = [] ∧
    (reconcileX xrWorld ⟨0, 0, [(7, .resv (some ⟨RPh.succeeded, 1, 1, 0, false, 9, false, true, false⟩))]⟩).1.job.status.phase
      = Ph.failed := by decide

/-- the pod was replaced by a same-name pod of uid 2 (the job recorded PodRef.UID 1): no eviction, the job is aborted
    with reason MissingPod -/
example : (reconcileX { xrWorld with env := { xrWorld.env with pod := some ⟨2, 3, 0, 0, false⟩ } } ⟨0, 0, []⟩).2.evicts = [] ∧
    (reconcileX { xrWorld with env := { xrWorld.env with pod := some ⟨2, 3, 0, 0, false⟩ } } ⟨0, 0, []⟩).1.job.status.phase
      = Ph.failed ∧
    (reconcileX { xrWorld with env := { xrWorld.env with pod := some ⟨2, 3, 0, 0, false⟩ } } ⟨0, 0, []⟩).1.job.status.reason
      = Rs.missingPod := by decide

/-- the same replacement happening INSIDE the reconcile, right before evictPod's Get of the pod (API call 6) -/
example : (reconcileX xrWorld ⟨0, 0, [(6, .pod (some ⟨2, 3, 0, 0, false⟩))]⟩).2.evicts = [] ∧
    (reconcileX xrWorld ⟨0, 0, [(6, .pod (some ⟨2, 3, 0, 0, false⟩))]⟩).1.job.status.phase = Ph.failed := by decide

/-- a terminal job: nothing happens even with a script -/
example : (reconcileX { xrWorld with job := { xrJob with status := { xrJob.status with phase := Ph.failed } } }
    ⟨0, 0, [(1, .pod none)]⟩).2.evicts = [] := by decide

end KoordVerif.C17
