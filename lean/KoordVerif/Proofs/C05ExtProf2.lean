import KoordVerif.Proofs.C05ExtProf
/-
C05 extension (profiles), completeness side: an add / update event that carries a LIVE reservation (node set,
Available or Waiting) leaves it listed under its node in EVERY profile, in any listener order.
-/
namespace KoordVerif.C05

theorem updateReservation_lists (c : Cache) (o : RObj) (hn : o.node ≠ 0) :
    (o.node, o.uid) ∈ (updateReservation c o).onNode ∧ (findInfo (updateReservation c o) o.uid).isSome = true := by
  have hb : (o.node != 0) = true := by simp [hn]
  have hs := refreshIdx_shape
  cases hf : findInfo c o.uid with
  | none =>
    simp only [updateReservation, hf, hb, if_true]
    constructor
    · rw [(hs _ _ _ _).2.1]; simp [mem_idxAdd]
    · simp only [findInfo, (hs _ _ _ _).1, List.find?_isSome]
      exact ⟨newInfo o, self_mem_setInfo _ _, by simp [newInfo]⟩
  | some r0 =>
    have hr0 := (findInfo_mem c o.uid r0 hf).2
    simp only [updateReservation, hf, hb, if_true]
    constructor
    · rw [(hs _ _ _ _).2.1]; simp [mem_idxAdd]
    · simp only [findInfo, (hs _ _ _ _).1, List.find?_isSome]
      exact ⟨updInfo r0 o, self_mem_setInfo _ _, by simp [updInfo_uid, hr0]⟩

/-- an event whose (new) object is live is never a deleting transition (same uid, node unchanged) -/
theorem live_upd_no_target (valid : Bool) (o n : RObj) (hok : EvOK (.upd 0 0 valid o n)) (ha : n.active = true) :
    globTarget (.upd 0 0 valid o n) = none := by
  obtain ⟨huid, hnode⟩ := hok
  simp only [RObj.active, Bool.and_eq_true, bne_iff_ne, ne_eq, Bool.or_eq_true, beq_iff_eq] at ha
  obtain ⟨hnn, hph⟩ := ha
  have hsame : n.node = o.node := by rcases hnode with h | h; exact h; exact absurd h hnn
  have hnt : n.terminated = false := by
    rcases hph with h | h <;> simp [RObj.terminated, h]
  have hnu : n.unassigned = false := by simp [RObj.unassigned, hnn]
  have hd : gUpdateDeletes valid o n = false := by
    unfold gUpdateDeletes
    by_cases hoa : o.available = true
    · by_cases hna : n.available = true
      · simp [hoa, hna, huid.symm, hsame]
      · have hna' : n.available = false := by simpa using hna
        have hou : o.unassigned = false := by
          simp [RObj.available] at hoa
          simp [RObj.unassigned, hoa.1]
        simp [hoa, hna', hnt, hnu, hou]
    · have hoa' : o.available = false := by simpa using hoa
      by_cases hna : n.available = true
      · simp [hoa', hna]
      · have hna' : n.available = false := by simpa using hna
        simp [hoa', hna']
  simp [globTarget, hd]

theorem evStep_live_upd (b : Bool) (c : Cache) (valid : Bool) (o n : RObj) (hok : EvOK (.upd 0 0 valid o n))
    (ha : n.active = true) : evStep b c (.upd 0 0 valid o n) = updateReservation c n := by
  have ht := live_upd_no_target valid o n hok ha
  cases b <;> simp [evStep, globEv, ht, plugEv, isRsvPtr, onUpdate, ha]

theorem evStep_live_add (b : Bool) (c : Cache) (valid : Bool) (o : RObj) (ha : o.active = true) :
    evStep b c (.add 0 valid o) = updateReservation c o := by
  cases b <;> simp [evStep, globEv, globTarget, plugEv, isRsvPtr, onAdd, ha]

end KoordVerif.C05
