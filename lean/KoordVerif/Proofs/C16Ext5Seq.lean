import KoordVerif.Proofs.C16Ext5
/-
C16 ext5 — sequential use of several frameworks is safe whatever the scope of the lock: a caller that runs its three
actions with nobody else inside never blocks and is one atomic check-call-count.  (Why a per-framework / per-proxy lock
passes every sequential test.)
-/
namespace KoordVerif.C16

/-- nobody inside the section, counters = issued within the caps -/
def Quiet (caps : Caps) (s : LS) : Prop := (∀ j, insidePc (s.pc j) = false) ∧ Good caps s.ctr s.issued

theorem not_blocked_of_quiet (sc : LockScope) (n : Nat) (req : Nat → Req) (pc : Nat → Nat) (i : Nat)
    (h : ∀ j, insidePc (pc j) = false) : blocked sc n req pc i = false := by
  simp only [blocked, List.any_eq_false, List.mem_range]
  intro j _
  simp [h j]

/-- the schedule in which the callers of `order` run one after the other, each its three actions in a row -/
def seqSched (order : List Nat) : List Nat := order.flatMap fun i => [i, i, i]

theorem quiet_three {refuse caps sc n req} (hR : RefuseOK refuse caps) (s : LS) (i : Nat) (q : Quiet caps s) :
    Quiet caps (lrun refuse caps sc n req s [i, i, i]) := by
  obtain ⟨hout, g⟩ := q
  simp only [lrun, List.foldl_cons, List.foldl_nil]
  by_cases hi : i < n
  case neg => simp only [lstep, hi, if_false]; exact ⟨hout, g⟩
  have hpi : insidePc (s.pc i) = false := hout i
  have h1 : s.pc i ≠ 1 := fun h => by simp [insidePc, h] at hpi
  have h2 : s.pc i ≠ 2 := fun h => by simp [insidePc, h] at hpi
  by_cases h0 : s.pc i = 0
  · have hb := not_blocked_of_quiet sc n req s.pc i hout
    by_cases hr : refuse caps s.ctr (req i).pod = true
    · -- refused: pc 3, the other two steps do nothing
      have e1 : lstep refuse caps sc n req s i = { s with pc := setPc s.pc i 3 } := by
        simp [lstep, hi, h0, hb, hr]
      have e2 : ∀ t : LS, t.pc i = 3 → lstep refuse caps sc n req t i = t := by
        intro t ht; simp [lstep, hi, ht]
      have h3 := e2 { s with pc := setPc s.pc i 3 } (setPc_same _ _ _)
      rw [e1, h3, h3]
      exact ⟨setPc_outside s.pc i (fun j _ => hout j), g⟩
    · have hr' : refuse caps s.ctr (req i).pod = false := by simpa using hr
      have e1 : lstep refuse caps sc n req s i = { s with pc := setPc s.pc i 1 } := by
        simp [lstep, hi, h0, hb, hr']
      rw [e1]
      by_cases ha : (req i).apiOk = true
      · have e2 : lstep refuse caps sc n req { s with pc := setPc s.pc i 1 } i
            = { s with issued := (req i).pod :: s.issued, pc := setPc (setPc s.pc i 1) i 2 } := by
          simp [lstep, hi, setPc_same, ha]
        have e3 : lstep refuse caps sc n req { s with issued := (req i).pod :: s.issued, pc := setPc (setPc s.pc i 1) i 2 } i
            = { s with ctr := count s.ctr (req i).pod, issued := (req i).pod :: s.issued,
                       pc := setPc (setPc (setPc s.pc i 1) i 2) i 3 } := by
          simp [lstep, hi, setPc_same]
        rw [e2, e3]
        refine ⟨?_, good_count hR g hr'⟩
        intro j
        by_cases hj : j = i
        · subst hj; simp [setPc, insidePc]
        · simp only [setPc, hj, if_false]; exact hout j
      · have e2 : lstep refuse caps sc n req { s with pc := setPc s.pc i 1 } i
            = { s with pc := setPc (setPc s.pc i 1) i 3 } := by
          simp [lstep, hi, setPc_same, ha]
        have e3 : ∀ t : LS, t.pc i = 3 → lstep refuse caps sc n req t i = t := by
          intro t ht; simp [lstep, hi, ht]
        have h3 := e3 { s with pc := setPc (setPc s.pc i 1) i 3 } (setPc_same _ _ _)
        rw [e2, h3]
        refine ⟨?_, g⟩
        intro j
        by_cases hj : j = i
        · subst hj; simp [setPc, insidePc]
        · simp only [setPc, hj, if_false]; exact hout j
  · have e : lstep refuse caps sc n req s i = s := by simp [lstep, hi, h0, h1, h2]
    rw [e, e, e]; exact ⟨hout, g⟩

theorem lrun_append (refuse : Caps → Ctr → Pod → Bool) (caps : Caps) (sc : LockScope) (n : Nat) (req : Nat → Req)
    (s : LS) (a b : List Nat) :
    lrun refuse caps sc n req s (a ++ b) = lrun refuse caps sc n req (lrun refuse caps sc n req s a) b := by
  simp [lrun, List.foldl_append]

theorem quiet_seq {refuse caps sc n req} (hR : RefuseOK refuse caps) (order : List Nat) :
    ∀ s, Quiet caps s → Quiet caps (lrun refuse caps sc n req s (seqSched order)) := by
  induction order with
  | nil => intro s q; exact q
  | cons i r ih =>
    intro s q
    have : seqSched (i :: r) = [i, i, i] ++ seqSched r := by simp [seqSched]
    rw [this, lrun_append]
    exact ih _ (quiet_three hR s i q)

end KoordVerif.C16
