import KoordVerif.Proofs.C07Base
import KoordVerif.Model.C07Hist
/-
C07 — extension lemmas: association lists stay maps (distinct keys) under every ledger operation, what
allocateSet records equals what was added (`recOf_val`), sums over allocateSet, Bool ↔ Prop bridges of the
decidable history predicates of Model/C07Hist.lean.
-/
namespace KoordVerif.C07

abbrev keys (d : DevRes) : List Nat := d.map (·.1)

/-! ### Bool predicates -/

theorem nodupB_iff (l : List Nat) : nodupB l = true ↔ l.Nodup := by
  induction l with
  | nil => simp [nodupB]
  | cons x xs ih => simp [nodupB, List.nodup_cons, ih]

theorem rlVal_nonneg_of (r : RL) (h : rlNonneg r = true) : ∀ k, 0 ≤ rlVal r k := by
  induction r with
  | nil => intro k; simp [rlVal_nil]
  | cons q qs ih =>
    simp only [rlNonneg, List.all_cons, Bool.and_eq_true] at h
    intro k
    cases k with
    | zero =>
      cases q with
      | none => simp [rlVal, rlAt, qVal]
      | some x => simpa [rlVal, rlAt, qVal, qNonneg] using h.1
    | succ k => exact ih h.2 k

theorem alNonneg_of (al : List (Nat × RL)) (h : amountsOK al = true) : AlNonneg al := by
  intro p hp k
  simp only [amountsOK, List.all_eq_true] at h
  exact rlVal_nonneg_of p.2 (h p hp) k

theorem drGet_mem (d : DevRes) (m : Nat) (v : RL) (h : drGet d m = some v) : (m, v) ∈ d := by
  induction d with
  | nil => simp [drGet] at h
  | cons p r ih =>
    obtain ⟨k, w⟩ := p
    simp only [drGet] at h
    by_cases hk : k = m
    · subst hk; simp at h; subst h; simp
    · simp [hk] at h; exact List.mem_cons_of_mem _ (ih h)

theorem drVal_nonneg_of (d : DevRes) (h : amountsOK d = true) (m k : Nat) : 0 ≤ drVal d m k := by
  cases hg : drGet d m with
  | none => simp [drVal_none d m k hg]
  | some v =>
    have := alNonneg_of d h (m, v) (drGet_mem d m v hg) k
    simpa [drVal, drGetD, hg] using this

/-! ### keys -/

theorem drHas_iff_mem (d : DevRes) (m : Nat) : drHas d m = true ↔ m ∈ keys d := by
  induction d with
  | nil => simp [drHas, drGet]
  | cons p r ih =>
    obtain ⟨k, w⟩ := p
    rw [drHas_cons]
    simp only [List.map_cons, List.mem_cons, Bool.or_eq_true, decide_eq_true_eq, ih]
    constructor
    · rintro (h | h)
      · exact Or.inl h.symm
      · exact Or.inr h
    · rintro (h | h)
      · exact Or.inl h.symm
      · exact Or.inr h

theorem mem_keys_drSet (d : DevRes) (m : Nat) (v : RL) (x : Nat) :
    x ∈ keys (drSet d m v) ↔ x = m ∨ x ∈ keys d := by
  induction d with
  | nil => simp [drSet]
  | cons p r ih =>
    obtain ⟨k, w⟩ := p
    simp only [drSet]
    by_cases hk : k = m
    · subst hk
      simp only [if_true, List.map_cons, List.mem_cons]
      constructor
      · intro h; exact Or.inr h
      · rintro (h | h)
        · exact Or.inl h
        · exact h
    · simp only [hk, if_false, List.map_cons, List.mem_cons]
      have ih' : x ∈ List.map (fun x => x.fst) (drSet r m v) ↔ x = m ∨ x ∈ List.map (fun x => x.fst) r := ih
      rw [ih']
      constructor
      · rintro (h | h | h)
        · exact Or.inr (Or.inl h)
        · exact Or.inl h
        · exact Or.inr (Or.inr h)
      · rintro (h | h | h)
        · exact Or.inr (Or.inl h)
        · exact Or.inl h
        · exact Or.inr (Or.inr h)

theorem keysNodup_drSet (d : DevRes) (m : Nat) (v : RL) (h : (keys d).Nodup) : (keys (drSet d m v)).Nodup := by
  induction d with
  | nil => simp [drSet]
  | cons p r ih =>
    obtain ⟨k, w⟩ := p
    simp only [List.map_cons, List.nodup_cons] at h
    simp only [drSet]
    by_cases hk : k = m
    · subst hk
      simp only [if_true, List.map_cons, List.nodup_cons]
      exact h
    · simp only [hk, if_false, List.map_cons, List.nodup_cons]
      refine ⟨?_, ih h.2⟩
      intro hmem
      rcases (mem_keys_drSet r m v k).mp hmem with h1 | h1
      · exact hk h1
      · exact h.1 h1

theorem keysNodup_drErase (d : DevRes) (m : Nat) (h : (keys d).Nodup) : (keys (drErase d m)).Nodup :=
  List.Nodup.sublist (List.Sublist.map _ List.filter_sublist) h

theorem keysNodup_usedAdd (al : List (Nat × RL)) : ∀ (u : DevRes), (keys u).Nodup → (keys (usedAdd u al)).Nodup := by
  induction al with
  | nil => intro u h; exact h
  | cons p r ih =>
    intro u h
    obtain ⟨m, v⟩ := p
    simp only [usedAdd]
    exact ih _ (keysNodup_drSet u m _ h)

theorem keysNodup_usedSub (al : List (Nat × RL)) : ∀ (u : DevRes), (keys u).Nodup → (keys (usedSub u al)).Nodup := by
  induction al with
  | nil => intro u h; exact h
  | cons p r ih =>
    intro u h
    obtain ⟨m, v⟩ := p
    simp only [usedSub]
    apply ih
    split
    · exact keysNodup_drErase u m h
    · exact keysNodup_drSet u m _ h

theorem nodup_append_of (a b : List Nat) (ha : a.Nodup) (hb : b.Nodup) (hd : ∀ x ∈ b, x ∉ a) : (a ++ b).Nodup := by
  induction a with
  | nil => simpa using hb
  | cons x xs ih =>
    simp only [List.nodup_cons] at ha
    simp only [List.cons_append, List.nodup_cons, List.mem_append, not_or]
    refine ⟨⟨ha.1, ?_⟩, ih ha.2 (fun y hy hm => hd y hy (List.mem_cons_of_mem _ hm))⟩
    intro hxb
    exact hd x hxb (by simp)

theorem keysNodup_addPhantoms (total used : DevRes) (ht : (keys total).Nodup) (hu : (keys used).Nodup) :
    (keys (addPhantoms total used)).Nodup := by
  have hk : keys (addPhantoms total used) =
      keys total ++ keys (used.filter (fun p => !drHas total p.1)) := by
    simp [keys, addPhantoms, List.map_append, List.map_map, Function.comp_def]
  rw [hk]
  apply nodup_append_of _ _ ht
  · exact List.Nodup.sublist (List.Sublist.map _ List.filter_sublist) hu
  · intro x hx hxt
    obtain ⟨⟨m, v⟩, hmem, rfl⟩ := List.mem_map.mp hx
    have hf := (List.mem_filter.mp hmem).2
    have : drHas total m = true := (drHas_iff_mem total m).mpr hxt
    simp [this] at hf

theorem keys_resetFree_free (s : TState) : keys (resetFree s).free = keys (resetFree s).total := by
  simp [keys, resetFree, List.map_map, Function.comp_def]

/-- resetDeviceFree keeps the three ledgers maps -/
theorem keysNodup_resetFree (s : TState) (ht : (keys s.total).Nodup) (hu : (keys s.used).Nodup) :
    (keys (resetFree s).total).Nodup ∧ (keys (resetFree s).free).Nodup ∧ (keys (resetFree s).used).Nodup := by
  have h1 : (keys (resetFree s).total).Nodup := keysNodup_addPhantoms s.total s.used ht hu
  refine ⟨h1, ?_, hu⟩
  rw [keys_resetFree_free]; exact h1

/-! ### what allocateSet records -/

theorem foldl_drSet_val (al : List (Nat × RL)) (m k : Nat) : ∀ (acc : DevRes), (al.map (·.1)).Nodup →
    drVal (al.foldl (fun acc p => drSet acc p.1 p.2) acc) m k =
      if m ∈ al.map (·.1) then alSum al m k else drVal acc m k := by
  induction al with
  | nil => intro acc _; simp
  | cons p r ih =>
    intro acc hn
    obtain ⟨m', v⟩ := p
    simp only [List.map_cons, List.nodup_cons] at hn
    simp only [List.foldl_cons, List.map_cons, List.mem_cons, alSum]
    rw [ih _ hn.2]
    by_cases hr : m ∈ r.map (·.1)
    · have hne : m' ≠ m := by intro h; subst h; exact hn.1 hr
      simp [hr, hne]
    · simp only [hr, if_false, or_false]
      rw [alSum_not_mem r m k hr]
      simp only [drVal, drGetD, drGet_drSet]
      by_cases h : m' = m
      · subst h; simp
      · simp [h, Ne.symm h]

/-- with one entry per minor, allocateSet records exactly the amounts that were added to `used` -/
theorem recOf_val (al : List (Nat × RL)) (hn : (al.map (·.1)).Nodup) (m k : Nat) :
    drVal (recOf al) m k = alSum al m k := by
  unfold recOf
  rw [foldl_drSet_val al m k [] hn]
  split
  · rfl
  · rename_i h
    rw [alSum_not_mem al m k h]
    simp [drVal, drGetD, drGet, rlVal_nil]

/-! ### sums over allocateSet -/

theorem podsSum_append (a b : List (Nat × DevRes)) (m k : Nat) :
    podsSum (a ++ b) m k = podsSum a m k + podsSum b m k := by
  induction a with
  | nil => simp [podsSum]
  | cons p r ih =>
    obtain ⟨q, rr⟩ := p
    simp only [List.cons_append, podsSum, ih]; omega

theorem hasPod_iff_get (s : TState) (p : Nat) : hasPod s p = (podsGet s.pods p).isSome := by
  unfold hasPod
  induction s.pods with
  | nil => simp [podsGet]
  | cons e r ih =>
    obtain ⟨q, rr⟩ := e
    simp only [List.any_cons, podsGet]
    by_cases h : q = p
    · subst h; simp
    · simp [h, ih]

theorem podsGet_none_not_mem (pods : List (Nat × DevRes)) (p : Nat) (h : podsGet pods p = none) :
    p ∉ pods.map (·.1) := by
  induction pods with
  | nil => simp
  | cons e r ih =>
    obtain ⟨q, rr⟩ := e
    simp only [podsGet] at h
    by_cases hq : q = p
    · simp [hq] at h
    · simp only [hq, if_false] at h
      simp only [List.map_cons, List.mem_cons, not_or]
      exact ⟨Ne.symm hq, ih h⟩

theorem filter_ne_of_not_mem (pods : List (Nat × DevRes)) (p : Nat) (h : p ∉ pods.map (·.1)) :
    pods.filter (fun e => e.1 != p) = pods := by
  induction pods with
  | nil => rfl
  | cons e r ih =>
    obtain ⟨q, rr⟩ := e
    simp only [List.map_cons, List.mem_cons, not_or] at h
    have : (q != p) = true := by simp [Ne.symm h.1]
    simp [List.filter_cons, this, ih h.2]

theorem podsSum_filter (pods : List (Nat × DevRes)) (p : Nat) (r : DevRes) (hn : (pods.map (·.1)).Nodup)
    (hg : podsGet pods p = some r) (m k : Nat) :
    podsSum pods m k = drVal r m k + podsSum (pods.filter (fun e => e.1 != p)) m k := by
  induction pods with
  | nil => simp [podsGet] at hg
  | cons e rest ih =>
    obtain ⟨q, rr⟩ := e
    simp only [List.map_cons, List.nodup_cons] at hn
    simp only [podsGet] at hg
    by_cases hq : q = p
    · subst hq
      simp only [if_true, Option.some.injEq] at hg
      subst hg
      have : (q != q) = false := by simp
      simp only [List.filter_cons, this, podsSum]
      rw [filter_ne_of_not_mem rest q hn.1]
      simp
    · simp only [hq, if_false] at hg
      have : (q != p) = true := by simp [hq]
      simp only [List.filter_cons, this, if_true, podsSum]
      rw [ih hn.2 hg]; omega

theorem podsSum_nonneg (pods : List (Nat × DevRes)) (h : ∀ e ∈ pods, ∀ m k, 0 ≤ drVal e.2 m k) (m k : Nat) :
    0 ≤ podsSum pods m k := by
  induction pods with
  | nil => simp [podsSum]
  | cons e r ih =>
    obtain ⟨q, rr⟩ := e
    simp only [podsSum]
    have h1 := h (q, rr) (by simp) m k
    have h2 := ih (fun e he => h e (List.mem_cons_of_mem _ he))
    simp only at h1
    omega

/-! ### coveredB -/

theorem rlAt_none_of_ge (r : RL) : ∀ k, r.length ≤ k → rlAt r k = none := by
  induction r with
  | nil => intro k _; exact rlAt_nil k
  | cons q qs ih =>
    intro k hk
    cases k with
    | zero => simp at hk
    | succ k => simp only [rlAt]; exact ih k (by simpa using hk)

theorem covered_of_B (req f : RL) (h : coveredB req f = true) :
    ∀ k, (rlAt req k).isSome → (rlAt f k).isSome := by
  intro k hk
  by_cases hlt : k < req.length
  · simp only [coveredB, List.all_eq_true, List.mem_range] at h
    have := h k hlt
    simp only [Bool.or_eq_true, Bool.not_eq_true'] at this
    rcases this with h1 | h1
    · rw [h1] at hk; exact absurd hk (by simp)
    · exact h1
  · rw [rlAt_none_of_ge req k (by omega)] at hk
    exact absurd hk (by simp)

end KoordVerif.C07
