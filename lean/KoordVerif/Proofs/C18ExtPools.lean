import KoordVerif.Model.C18Pools
import KoordVerif.Props.C18
/-
C18 extension (round 2): several node pools — conversion order, filterNodes / processedNodes, and
"a node drained in the node pass of one pool is not evicted from by a later pool".
-/
namespace KoordVerif.C18

/-! ### conversion -/

theorem xp_convertPools_head (a : VArgs) :
    (convertPools a).head? = some (topPool a) ∧ (topPool a).name = 0 ∧ (topPool a).sel = a.sel ∧
    (topPool a).low = a.low ∧ (topPool a).high = a.high ∧ (topPool a).plow = a.plow ∧
    (topPool a).phigh = a.phigh := by
  simp [convertPools, topPool]

theorem xp_convertPools_order (a : VArgs) :
    (convertPools a).length = a.pools.length + 1 ∧
    (convertPools a).tail.map (·.name) = a.pools.map (·.name) ∧
    (convertPools a).tail.map (·.sel) = a.pools.map (·.sel) ∧
    (convertPools a).tail.map (·.dev) = a.pools.map (·.dev) := by
  simp [convertPools, userPools, VPool.toC, defaultPool, List.map_map, Function.comp_def]

theorem xp_defaultPool_inherits (low high plow phigh : Option IMap) (w : IMap) (c : ACond) (p : VPool) :
    let q := defaultPool low high plow phigh w c p
    q.low = (match p.low with | some m => some m | none => low) ∧
    q.high = (match p.high with | some m => some m | none => high) ∧
    q.plow = (match p.plow with | some m => some m | none => plow) ∧
    q.phigh = (match p.phigh with | some m => some m | none => phigh) ∧
    q.wts = some (match p.wts with | some m => m | none => w) ∧
    q.name = p.name ∧ q.sel = p.sel := by
  obtain ⟨name, sel, dev, l, h, pl, ph, wts, cond⟩ := p
  cases l <;> cases h <;> cases pl <;> cases ph <;> cases wts <;> simp [defaultPool]

theorem xp_selectorless_only_first (a : VArgs) (h : ∀ p ∈ a.pools, p.sel.isSome = true) :
    ∀ q ∈ (convertPools a).tail, q.sel.isSome = true := by
  intro q hq
  simp only [convertPools, List.tail_cons, userPools, List.mem_map] at hq
  obtain ⟨p, hp, rfl⟩ := hq
  simpa [VPool.toC, defaultPool] using h p hp

/-! ### filterNodes -/

theorem xp_filterNodes_sub (sel : Option Labels) (nodes : List (Nat × Labels)) (pr : List Nat) (id : Nat)
    (h : id ∈ filterNodes sel nodes pr) : id ∈ nodes.map (·.1) := by
  simp only [filterNodes, List.mem_map, List.mem_filter] at h
  obtain ⟨n, ⟨hn, _⟩, rfl⟩ := h
  exact List.mem_map.mpr ⟨n, hn, rfl⟩

/-- EVERY pool - with or without selector - leaves the processed nodes alone. -/
theorem xp_filterNodes_skips (sel : Option Labels) (nodes : List (Nat × Labels)) (pr : List Nat) (id : Nat)
    (h : id ∈ filterNodes sel nodes pr) : id ∉ pr := by
  simp only [filterNodes, List.mem_map, List.mem_filter] at h
  obtain ⟨n, ⟨_, hc⟩, rfl⟩ := h
  simp only [Bool.and_eq_true, Bool.not_eq_true', List.contains_eq_mem, decide_eq_false_iff_not] at hc
  exact hc.1

/-- a pool without selector takes exactly the nodes not yet processed. -/
theorem xp_filterNodes_nil (nodes : List (Nat × Labels)) (pr : List Nat) :
    filterNodes none nodes pr = (nodes.filter fun n => !pr.contains n.1).map (·.1) := by
  simp [filterNodes]

/-- with a selector: the matching nodes not yet processed. -/
theorem xp_filterNodes_mem (s : Labels) (nodes : List (Nat × Labels)) (pr : List Nat) (id : Nat) :
    id ∈ filterNodes (some s) nodes pr ↔ ∃ n ∈ nodes, n.1 = id ∧ id ∉ pr ∧ selMatches s n.2 = true := by
  simp only [filterNodes, List.mem_map, List.mem_filter, Bool.and_eq_true, Bool.not_eq_true',
    List.contains_eq_mem, decide_eq_false_iff_not]
  constructor
  · rintro ⟨n, ⟨hn, hp, hm⟩, rfl⟩; exact ⟨n, hn, rfl, hp, hm⟩
  · rintro ⟨n, hn, rfl, hp, hm⟩; exact ⟨n, ⟨hn, hp, hm⟩, rfl⟩

/-! ### the loop of Balance -/

section loop
variable {σ ε P : Type} (selOf : P → Option Labels) (run : Nat → P → List Nat → σ → PoolOut σ ε)
  (nodes : List (Nat × Labels))

/-- every segment is one `run` call on the filtered nodes. -/
theorem xp_seg_run : ∀ (ps : List P) (i : Nat) (st : σ) (pr : List Nat),
    ∀ s ∈ (balancePools selOf run nodes i ps st pr).2,
      ∃ (j : Nat) (p : P) (st0 : σ) (pr0 : List Nat), p ∈ ps ∧ s.ids = filterNodes (selOf p) nodes pr0 ∧
        s.evs = (run j p s.ids st0).evs ∧ s.sources = (run j p s.ids st0).sources := by
  intro ps
  induction ps with
  | nil => intro i st pr s hs; simp [balancePools] at hs
  | cons p ps ih =>
    intro i st pr s hs
    simp only [balancePools] at hs
    split at hs
    · obtain ⟨j, q, st0, pr0, hq, h⟩ := ih _ _ _ s hs
      exact ⟨j, q, st0, pr0, List.mem_cons_of_mem _ hq, h⟩
    · simp only [List.mem_cons] at hs
      rcases hs with rfl | hs
      · exact ⟨i, p, st, pr, List.mem_cons_self, rfl, rfl, rfl⟩
      · obtain ⟨j, q, st0, pr0, hq, h⟩ := ih _ _ _ s hs
        exact ⟨j, q, st0, pr0, List.mem_cons_of_mem _ hq, h⟩

/-- no pool takes a node that is already in `processedNodes`. -/
theorem xp_processed_skipped : ∀ (ps : List P) (i : Nat) (st : σ) (pr : List Nat),
    ∀ s ∈ (balancePools selOf run nodes i ps st pr).2, ∀ id ∈ s.ids, id ∉ pr := by
  intro ps
  induction ps with
  | nil => intro i st pr s hs; simp [balancePools] at hs
  | cons p ps ih =>
    intro i st pr s hs id hid
    simp only [balancePools] at hs
    split at hs
    · exact ih _ _ _ s hs id hid
    · simp only [List.mem_cons] at hs
      rcases hs with rfl | hs
      · exact xp_filterNodes_skips _ nodes pr id hid
      · intro hmem
        exact ih _ _ _ s hs id hid (List.mem_append_left _ hmem)

/-- a node that one pool inserted into `processedNodes` is in the node set of no later pool of the
    same Balance call - whatever the selectors and the order of the pools. -/
theorem xp_sources_once : ∀ (ps : List P) (i : Nat) (st : σ) (pr : List Nat),
    ((balancePools selOf run nodes i ps st pr).2).Pairwise (fun s1 s2 => ∀ id ∈ s1.sources, id ∉ s2.ids) := by
  intro ps
  induction ps with
  | nil => intro i st pr; simp [balancePools]
  | cons p ps ih =>
    intro i st pr
    simp only [balancePools]
    split
    · exact ih _ _ _
    · refine List.Pairwise.cons ?_ (ih _ _ _)
      intro s2 hs2 id hid hid2
      exact xp_processed_skipped selOf run nodes ps _ _ _ s2 hs2 id hid2 (List.mem_append_right _ hid)

end loop

/-- non-vacuous: two overlapping pools, the second one without selector; the node the first pool
    reports as a source is left out of the second pool's node set, the other node is not. -/
theorem xp_sources_once_witness :
    ((balancePools (fun (s : Option Labels) => s)
        (fun _ _ ids (st : Unit) => (⟨st, ([] : List Unit), ids.take 1⟩ : PoolOut Unit Unit))
        [(0, [(0, 0)]), (1, [(0, 0)]), (2, [(0, 1)])] 0 [some [(0, 0)], none] () []).2).map (·.ids)
      = [[0, 1], [1, 2]] := by
  decide

/-! ### with processOneNodePool = runRound -/

theorem xp_runRound_exit_evs (cfg : Cfg) (st : St) (r : RoundIn) :
    (runRound cfg st r).exit ≠ 0 → (runRound cfg st r).evs = [] := by
  unfold runRound
  split
  · intro _; rfl
  simp only
  split
  · intro _; rfl
  split
  · intro _; rfl
  split
  · intro _; rfl
  split
  · intro _; rfl
  split
  · intro _; rfl
  intro h; exact absurd rfl h

theorem xp_runRound_evs_exit (cfg : Cfg) (st : St) (r : RoundIn) (e : Ev)
    (he : e ∈ (runRound cfg st r).evs) : (runRound cfg st r).exit = 0 := by
  apply Classical.byContradiction
  intro h
  rw [xp_runRound_exit_evs cfg st r h] at he
  simp at he

/-- every Evict call - node pass or prod pass - comes from a node of the pool's round that the pool
    inserts into `processedNodes`. -/
theorem xp_poolStep_evs (cfg : Cfg) (st : St) (r : RoundIn) (e : Ev) (he : e ∈ (poolStep cfg r st).evs) :
    (∃ n ∈ r.nodes, n.id = e.node) ∧ e.node ∈ (poolStep cfg r st).sources := by
  simp only [poolStep] at he ⊢
  have hs := round_evict_sound cfg st r e he
  obtain ⟨_, _, _, n, hn, hid, hcls, _⟩ := hs
  refine ⟨⟨n, hn, hid⟩, ?_⟩
  rw [if_pos (xp_runRound_evs_exit cfg st r e he)]
  simp only [poolSources, List.mem_append, List.mem_map]
  cases hp : e.prod with
  | false =>
    simp only [hp] at hcls
    exact Or.inl ⟨n, by simp [ofClass, hn, hcls], hid⟩
  | true =>
    simp only [hp] at hcls
    exact Or.inr ⟨n, by simp [ofClass, hn, hcls], hid⟩

/-- Balance over ANY list of pools: a node evicted from by one pool (node pass or prod pass) is not
    evicted from by any later pool of the same Balance call - so the running estimate that pool compared
    with its high threshold (`round_evict_sound`, `evictLoop_replay`) is the node's estimate over the whole
    call, and the node is left alone once that pool is done with it. -/
theorem xp_evicted_by_one_pool {P : Type} (selOf : P → Option Labels) (cfgOf : P → Cfg)
    (mk : Nat → P → List Nat → RoundIn) (nodes : List (Nat × Labels)) (ps : List P) (st : St)
    (hmk : ∀ i q ids, ∀ n ∈ (mk i q ids).nodes, n.id ∈ ids) :
    ((balanceAll selOf cfgOf mk nodes ps st).2).Pairwise
      (fun s1 s2 => ∀ e1 ∈ s1.evs, ∀ e2 ∈ s2.evs, e2.node ≠ e1.node) := by
  have hpw := xp_sources_once selOf (fun i p ids st => poolStep (cfgOf p) (mk i p ids) st) nodes ps 0 st []
  have hrun := xp_seg_run selOf (fun i p ids st => poolStep (cfgOf p) (mk i p ids) st) nodes ps 0 st []
  unfold balanceAll
  generalize (balancePools selOf (fun i p ids st => poolStep (cfgOf p) (mk i p ids) st) nodes 0 ps st []).2 = segs at hpw hrun
  induction hpw with
  | nil => exact List.Pairwise.nil
  | @cons s1 rest hhead _ ih =>
    refine List.Pairwise.cons ?_ (ih fun s hs => hrun s (List.mem_cons_of_mem _ hs))
    intro s2 hs2 e1 he1 e2 he2 heq
    obtain ⟨j1, q1, st1, _, _, _, hev1, hsrc1⟩ := hrun s1 List.mem_cons_self
    obtain ⟨j2, q2, st2, _, _, _, hev2, _⟩ := hrun s2 (List.mem_cons_of_mem _ hs2)
    rw [hev1] at he1
    rw [hev2] at he2
    have h1 := (xp_poolStep_evs _ _ _ e1 he1).2
    obtain ⟨n2, hn2, hid2⟩ := (xp_poolStep_evs _ _ _ e2 he2).1
    have hin : e2.node ∈ s2.ids := hid2 ▸ hmk j2 q2 s2.ids n2 hn2
    rw [← hsrc1] at h1
    exact hhead s2 hs2 e1.node h1 (heq ▸ hin)

/-- every Evict call of a Balance call is sound for the pool that issued it (`round_evict_sound`):
    the pool's running estimate is above the pool's (prod) high threshold and the receivers' headroom is
    positive. -/
theorem xp_balance_evict_sound {P : Type} (selOf : P → Option Labels) (cfgOf : P → Cfg)
    (mk : Nat → P → List Nat → RoundIn) (nodes : List (Nat × Labels)) (ps : List P) (st : St) :
    ∀ s ∈ (balanceAll selOf cfgOf mk nodes ps st).2, ∀ e ∈ s.evs,
      over e.usage e.high = true ∧ allPos e.avail = true ∧ e.node ∈ s.ids ∨
      over e.usage e.high = true ∧ allPos e.avail = true := by
  intro s hs e he
  obtain ⟨j, q, st0, _, _, _, hev, _⟩ :=
    xp_seg_run selOf (fun i p ids st => poolStep (cfgOf p) (mk i p ids) st) nodes ps 0 st [] s hs
  rw [hev] at he
  have h := round_evict_sound (cfgOf q) st0 (mk j q s.ids) e he
  exact Or.inr ⟨h.2.1, h.2.2.1⟩

end KoordVerif.C18
