import KoordVerif.Proofs.C05Ledger
import KoordVerif.Proofs.C05Index
import KoordVerif.Proofs.C05ExtPod
import KoordVerif.Proofs.C05ExtProf2
/-
C05 extension: roll-back of a scheduling cycle (plugin.go Unreserve, both branches).
  * normal pod: Reserve -> (PreBind) -> Unreserve leaves every reservation entry exactly as it was before Reserve,
    whatever `state.hasReservationAllocated` says (the flag only guards the removal of the annotation);
  * reserve pod (the reservation's own cycle): Reserve on node n -> Unreserve removes the entry AND every index
    reference, because DeleteReservation is keyed by the node name stamped on the passed object.
-/
namespace KoordVerif.C05

theorem findInfo_def (c : Cache) (u : Nat) : findInfo c u = c.infos.find? (fun r => r.uid == u) := rfl

/-- reservationCache.addPods either refuses (not found / terminating) and changes nothing, or replaces the entry by
    the one with the pods added -/
theorem addPods_shape (c : Cache) (ru : Nat) (ps : List Pod) :
    (∃ e, e ≠ 0 ∧ addPods c ru ps = (c, e)) ∨
    (∃ r0, findInfo c ru = some r0 ∧ (addPods c ru ps).2 = 0 ∧
      (addPods c ru ps).1.infos = setInfo c.infos (ps.foldl addAssigned r0)) := by
  unfold addPods
  cases hf : findInfo c ru with
  | none => exact Or.inl ⟨1, by decide, rfl⟩
  | some r0 =>
    by_cases ht : r0.term = true
    · exact Or.inl ⟨2, by decide, by simp [ht]⟩
    · have ht' : r0.term = false := by simpa using ht
      refine Or.inr ⟨r0, rfl, ?_, ?_⟩
      · simp only [ht', Bool.false_eq_true, if_false]; split <;> rfl
      · simp only [ht', Bool.false_eq_true, if_false]; split <;> rfl

theorem deletePods_infos (c : Cache) (ru : Nat) (us : List Nat) (r0 : RInfo) (h : findInfo c ru = some r0) :
    (deletePods c ru us).infos = setInfo c.infos (us.foldl removeAssigned r0) := by
  unfold deletePods
  rw [h]
  simp only [dropAllocIfEmpty_infos]

/-- add then remove of a pod the reservation did not hold gives back the very same entry (needs the ledger to be
    exact and the requests non-negative: otherwise the non-negative clamp of the subtraction could absorb something) -/
theorem remove_add_cancel (r0 : RInfo) (p : Pod) (hg : RGood r0) (hp : PodPre p)
    (hnew : hasPod r0.assigned p.uid = false) : removeAssigned (addAssigned r0 p) p.uid = r0 := by
  have hfind := findPod_addAssigned r0 p hnew
  have hne := (hasPod_false_iff _ _).mp hnew
  have hassigned : erasePod (r0.assigned ++ [p]) p.uid = r0.assigned := by
    have h1 := erasePod_of_not_mem r0.assigned p.uid hne
    simp only [erasePod] at h1 ⊢
    simp [List.filter_append, h1]
  have hnn : ∀ d, 0 ≤ r0.allocated d := by
    intro d
    rw [hg.1 d]
    exact sumReq_nonneg _ _ _ (fun q hq => (hg.2.2 q hq).1)
  unfold removeAssigned
  rw [hfind]
  simp only [addAssigned, hnew, Bool.false_eq_true, if_false]
  have halloc : (if p.empty then vadd r0.allocated (vmask r0.names p.req)
                 else vsubClamp (vadd r0.allocated (vmask r0.names p.req)) (vmask r0.names p.req)) = r0.allocated := by
    funext d
    have h0 := hnn d
    cases he : p.empty with
    | true =>
      have hz := hp.2 he d
      simp [vadd, vmask, hz]
    | false =>
      simp only [Bool.false_eq_true, if_false, vsubClamp, vadd, vmask]
      split <;> split <;> omega
  rw [halloc, hassigned]

theorem reserveM_zero (c : Cache) (x : CycIn) : (reserveM c x 0).1 = c := by simp [reserveM]

/-- Reserve -> Unreserve of a NORMAL pod, at either roll-back stage (`hasAlloc` = PreBind has run): every
    reservation entry is afterwards exactly what it was before Reserve -/
theorem unreserve_restores (c : Cache) (x : CycIn) (u : Nat) (hasAlloc : Bool)
    (hl : LedgerInv c) (hp : PodPre x.pod) (hfresh : ∀ r ∈ c.infos, hasPod r.assigned x.pod.uid = false) (v : Nat) :
    findInfo (unreservePodM (reserveM c x u).1 (if (reserveM c x u).2 == 0 then u else 0) hasAlloc x.pod.uid) v
      = findInfo c v := by
  by_cases hu : u = 0
  · subst hu
    simp [reserveM, unreservePodM, unreserveG]
  · have hub : (u == 0) = false := by simp [hu]
    rcases addPods_shape c u [x.pod] with ⟨e, he, hrefuse⟩ | ⟨r0, hf, hcode, hinfos⟩
    · have hcode : (if e = 0 then 0 else 3) = 3 := by simp [he]
      simp [reserveM, hub, hrefuse, hcode, unreservePodM, unreserveG]
    · have hr0 := findInfo_mem c u r0 hf
      have hc1 : (reserveM c x u).1 = (addPods c u [x.pod]).1 := by simp [reserveM, hub]
      have hc2 : (reserveM c x u).2 = 0 := by simp [reserveM, hub, hcode]
      have hr1 : (addAssigned r0 x.pod).uid = u := by rw [(addAssigned_uid_node r0 x.pod).1]; exact hr0.2
      have hfind1 : findInfo (addPods c u [x.pod]).1 u = some (addAssigned r0 x.pod) := by
        rw [findInfo_def, hinfos]
        simp only [List.foldl_cons, List.foldl_nil]
        have := find_setInfo c.infos (addAssigned r0 x.pod)
        rw [hr1] at this
        exact this
      have hback := remove_add_cancel r0 x.pod (hl r0 hr0.1) hp (hfresh r0 hr0.1)
      simp only [hc1, hc2, beq_self_eq_true, if_true, unreservePodM, unreserveG, hub, Bool.false_eq_true, if_false,
        Bool.false_and]
      rw [findInfo_def, deletePods_infos _ u [x.pod.uid] _ hfind1]
      simp only [List.foldl_cons, List.foldl_nil, hback, hinfos]
      by_cases hv : v = u
      · subst hv
        have := find_setInfo (setInfo c.infos (addAssigned r0 x.pod)) r0
        rw [hr0.2] at this
        rw [this, hf]
      · have h1 : r0.uid ≠ v := by rw [hr0.2]; exact fun h => hv h.symm
        have h2 : (addAssigned r0 x.pod).uid ≠ v := by rw [hr1]; exact fun h => hv h.symm
        rw [find_setInfo_other _ r0 v h1, find_setInfo_other _ _ v h2]
        rfl

/-- ... and no entry holds the rolled-back pod any more; the ledger equation still holds for every entry -/
theorem unreserve_forgets (c : Cache) (x : CycIn) (u : Nat) (hasAlloc : Bool)
    (hl : LedgerInv c) (hp : PodPre x.pod) (hfresh : ∀ r ∈ c.infos, hasPod r.assigned x.pod.uid = false) :
    LedgerInv (unreservePodM (reserveM c x u).1 (if (reserveM c x u).2 == 0 then u else 0) hasAlloc x.pod.uid) ∧
    ∀ r ∈ (unreservePodM (reserveM c x u).1 (if (reserveM c x u).2 == 0 then u else 0) hasAlloc x.pod.uid).infos,
      hasPod r.assigned x.pod.uid = false := by
  by_cases hu : u = 0
  · subst hu
    simp only [reserveM_zero, unreservePodM, unreserveG]
    split <;> simp_all
  · have hub : (u == 0) = false := by simp [hu]
    rcases addPods_shape c u [x.pod] with ⟨e, he, hrefuse⟩ | ⟨r0, hf, hcode, hinfos⟩
    · have hcode : (if e = 0 then 0 else 3) = 3 := by simp [he]
      simp only [reserveM, hub, Bool.false_eq_true, if_false, hrefuse, beq_iff_eq, hcode, unreservePodM, unreserveG]
      simp
      exact ⟨hl, hfresh⟩
    · have hr0 := findInfo_mem c u r0 hf
      have hc1 : (reserveM c x u).1 = (addPods c u [x.pod]).1 := by simp [reserveM, hub]
      have hc2 : (reserveM c x u).2 = 0 := by simp [reserveM, hub, hcode]
      have hr1 : (addAssigned r0 x.pod).uid = u := by rw [(addAssigned_uid_node r0 x.pod).1]; exact hr0.2
      have hfind1 : findInfo (addPods c u [x.pod]).1 u = some (addAssigned r0 x.pod) := by
        rw [findInfo_def, hinfos]
        simp only [List.foldl_cons, List.foldl_nil]
        have := find_setInfo c.infos (addAssigned r0 x.pod)
        rw [hr1] at this
        exact this
      simp only [hc1, hc2, beq_self_eq_true, if_true, unreservePodM, unreserveG, hub, Bool.false_eq_true, if_false,
        Bool.false_and]
      refine ⟨ledger_deletePods _ _ _ (ledger_addPods c u [x.pod] hl (by intro p hpm; simp at hpm; subst hpm; exact hp)), ?_⟩
      intro r hr
      rw [deletePods_infos _ u [x.pod.uid] _ hfind1, hinfos] at hr
      simp only [List.foldl_cons, List.foldl_nil] at hr
      rcases mem_setInfo _ _ r hr with ⟨hmem, hne⟩ | heq
      · rcases mem_setInfo _ _ r hmem with ⟨hmem0, _⟩ | heq0
        · exact hfresh r hmem0
        · exfalso
          apply hne
          rw [heq0, (removeAssigned_uid_node _ _).1]
      · rw [heq]
        exact hasPod_removeAssigned _ _

/-! ### reserve pod -/

theorem nodeStable_after_update (c : Cache) (o : RObj) (h : IndexInv c) (hn : o.node ≠ 0)
    (hst : NodeStable c o.uid o.node) : NodeStable (updateReservation c o) o.uid o.node := by
  have hinv := index_updateReservation c o h hn hst
  have hl := (updateReservation_lists c o hn).1
  obtain ⟨r, hr, hru, hrn⟩ := (hinv.on_iff _ _).mp hl
  intro x hx hxu
  rw [hinv.coherent x hx r hr (by rw [hxu, hru]), hrn]

/-- Reserve of a reserve pod on node n -> Unreserve (the lister still has the object, or lost it: `listed'`):
    the entry is gone, NO per-node index mentions the reservation, and the index invariant holds, so the
    reservation can later be scheduled to any node -/
theorem unreserve_rsv_clears (c : Cache) (o : RObj) (listed' : Option RObj) (n : Nat)
    (h : IndexInv c) (hn : n ≠ 0) (hst : NodeStable c o.uid n) (hl : ∀ o', listed' = some o' → o'.uid = o.uid) :
    IndexInv (unreserveRsvM (reserveRsvM c (some o) n).1 listed' o.uid n) ∧
    findInfo (unreserveRsvM (reserveRsvM c (some o) n).1 listed' o.uid n) o.uid = none ∧
    ∀ m, (m, o.uid) ∉ (unreserveRsvM (reserveRsvM c (some o) n).1 listed' o.uid n).onNode ∧
         (m, o.uid) ∉ (unreserveRsvM (reserveRsvM c (some o) n).1 listed' o.uid n).matchable ∧
         (m, o.uid) ∉ (unreserveRsvM (reserveRsvM c (some o) n).1 listed' o.uid n).allocIdx := by
  have hshape : unreserveRsvM (reserveRsvM c (some o) n).1 listed' o.uid n
      = deleteReservation (updateReservation c { o with node := n }) o.uid n := by
    cases listed' with
    | none => rfl
    | some o' => simp [unreserveRsvM, unreserveRsvG, reserveRsvM, hl o' rfl]
  rw [hshape]
  have h1 : IndexInv (updateReservation c { o with node := n }) := index_updateReservation c { o with node := n } h hn hst
  have hst1 : NodeStable (updateReservation c { o with node := n }) o.uid n :=
    nodeStable_after_update c { o with node := n } h hn hst
  have h2 := index_delete _ o.uid n h1 hst1
  have hnone := findInfo_deleteReservation (updateReservation c { o with node := n }) o.uid n
  exact ⟨h2, hnone, absent_not_indexed _ h2 o.uid hnone⟩

/-- Reserve failed on a lister miss -> the framework still calls Unreserve, which deletes by the stub: harmless -/
theorem unreserve_rsv_lister_miss (c : Cache) (u n : Nat) (h : IndexInv c) (hst : NodeStable c u n) :
    IndexInv (unreserveRsvM (reserveRsvM c none n).1 none u n) :=
  index_delete c u n h hst

/-! ### Reserve / Unreserve are cache ops, so the history theorems (ledger_exact, index_inv) cover cycles and roll-backs -/

/-- the cache ops a cycle's Reserve / Unreserve amount to -/
def reserveOps (x : CycIn) (u : Nat) : List Op := if u == 0 then [] else [.padd u [x.pod]]
def unreserveOps (assumed podUid : Nat) : List Op := if assumed == 0 then [] else [.pdel assumed [podUid]]

theorem cycle_is_history (c : Cache) (x : CycIn) (u assumed : Nat) (hasAlloc : Bool) (pu : Nat) :
    (reserveM c x u).1 = run c (reserveOps x u) ∧
    unreservePodM c assumed hasAlloc pu = run c (unreserveOps assumed pu) := by
  constructor
  · unfold reserveM reserveOps
    by_cases h : u = 0
    · simp [h, run]
    · have hb : (u == 0) = false := by simp [h]
      simp [hb, run, step]
  · unfold unreservePodM unreserveG unreserveOps
    by_cases h : assumed = 0
    · simp [h, run]
    · have hb : (assumed == 0) = false := by simp [h]
      simp [hb, run, step]

theorem rsv_cycle_is_history (c : Cache) (o : RObj) (listed : Option RObj) (pu n : Nat) :
    (reserveRsvM c (some o) n).1 = run c [.rupd { o with node := n }] ∧
    unreserveRsvM c listed pu n = run c [.rdel (match listed with | some o' => o'.uid | none => pu) n] := by
  constructor
  · rfl
  · cases listed <;> simp [unreserveRsvM, unreserveRsvG, run, step]

end KoordVerif.C05
