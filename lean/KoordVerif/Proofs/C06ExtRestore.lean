import KoordVerif.Model.C06Restore
/-
C06 extension round 4: reservation restore arithmetic.  On every NUMA cell

  T  = what the ledger records  = X + n.r + n.o + Σ_{other reservations} (r + o)
  H  = what live (non-reserve) pods hold = X + n.o + Σ_{other reservations} o

(X = pods that own no reservation, n = the nominated reservation, r = reserve pod's record, o = owners' records).
With the SIGNED remainder the amount reported free for a pod nominated to `n` is at most capacity − H; the
clamped remainder gives back too much as soon as the owners of `n` hold more than `n` reserved.
-/
namespace KoordVerif.C06

@[simp] theorem sumI_nil : sumI [] = 0 := rfl
@[simp] theorem sumI_cons (a : Int) (l : List Int) : sumI (a :: l) = a + sumI l := rfl

theorem sumI_append (a b : List Int) : sumI (a ++ b) = sumI a + sumI b := by
  induction a with
  | nil => simp
  | cons x a ih => simp [ih]; omega

/-- signed remainder: an unmatched reservation gives back exactly what its owners recorded. -/
theorem rcUsed_signed (x : RC) (ho : 0 ≤ x.o) (hh : x.has = true ∨ x.o = 0) : rcUsed false x = x.o := by
  rcases hh with hh | hh
  · simp [rcUsed, rcRemained, hh]; omega
  · cases hb : x.has <;> simp [rcUsed, rcRemained, hh]

theorem sum_used_signed (l : List RC) (h : ∀ x ∈ l, 0 ≤ x.o ∧ (x.has = true ∨ x.o = 0)) :
    sumI (l.map (rcUsed false)) = sumI (l.map (·.o)) := by
  induction l with
  | nil => rfl
  | cons x l ih =>
    simp only [List.map_cons, sumI_cons]
    rw [rcUsed_signed x (h x (by simp)).1 (h x (by simp)).2, ih (fun y hy => h y (by simp [hy]))]

/-- a cell the reserve pod's record does not name carries no reserved amount. -/
def RCWF (x : RC) : Prop := x.has = true ∨ x.r = 0

theorem used_hyp {x : RC} (h : 0 ≤ x.o ∧ x.o ≤ x.r) (hw : RCWF x) : 0 ≤ x.o ∧ (x.has = true ∨ x.o = 0) := by
  refine ⟨h.1, ?_⟩
  rcases hw with hw | hw
  · exact Or.inl hw
  · right; omega

theorem sum_o_le_r (l : List RC) (h : ∀ x ∈ l, x.o ≤ x.r) : sumI (l.map (·.o)) ≤ sumI (l.map (·.r)) := by
  induction l with
  | nil => simp
  | cons x l ih =>
    simp only [List.map_cons, sumI_cons]
    have := h x (by simp)
    have := ih (fun y hy => h y (by simp [hy]))
    omega

/-- what the ledger records on the cell. -/
def ledgerTotal (X : Int) (um mo : List RC) (n : Option RC) : Int :=
  X + sumI (um.map (·.r)) + sumI (um.map (·.o)) + sumI (mo.map (·.r)) + sumI (mo.map (·.o)) +
    (match n with | some n => n.r + n.o | none => 0)

/-- what live pods that are not reserve pods hold on the cell. -/
def heldLive (X : Int) (um mo : List RC) (n : Option RC) : Int :=
  X + sumI (um.map (·.o)) + sumI (mo.map (·.o)) + (match n with | some n => n.o | none => 0)

/-- `getAvailableNUMANodeResources` on the cell (the node has a ledger entry). -/
def reportedFree (cap T reuse : Int) : Int := max (cap - max (T - reuse) 0) 0

/-- reservation path, signed remainder (the code as it is): other reservations not over-used. -/
theorem restore_rsv_path (cap X : Int) (um mo : List RC) (n : RC)
    (hum : ∀ x ∈ um, 0 ≤ x.o ∧ x.o ≤ x.r) (hwf : ∀ x ∈ um, RCWF x) (hmo : ∀ x ∈ mo, x.o ≤ x.r)
    (hH : heldLive X um mo (some n) ≤ cap) :
    reportedFree cap (ledgerTotal X um mo (some n)) (reuseRsvCell false um (n :: mo) n) +
      heldLive X um mo (some n) ≤ cap := by
  have h1 := sum_used_signed um (fun x hx => used_hyp (hum x hx) (hwf x hx))
  have h2 := sum_o_le_r um (fun x hx => (hum x hx).2)
  have h3 := sum_o_le_r mo hmo
  simp only [reportedFree, ledgerTotal, heldLive, reuseRsvCell, reuseNodeCell, rcRemained, List.map_cons, sumI_cons,
    Bool.false_eq_true, ↓reduceIte] at *
  rw [h1]
  omega

/-- node path (no nominated reservation with a NUMA record), signed remainder. -/
theorem restore_node_path (cap X : Int) (um m : List RC)
    (hum : ∀ x ∈ um, 0 ≤ x.o ∧ x.o ≤ x.r) (hwf : ∀ x ∈ um, RCWF x) (hm : ∀ x ∈ m, x.o ≤ x.r)
    (hH : heldLive X um m none ≤ cap) :
    reportedFree cap (ledgerTotal X um m none) (reuseNodeCell false um m) + heldLive X um m none ≤ cap := by
  have h1 := sum_used_signed um (fun x hx => used_hyp (hum x hx) (hwf x hx))
  have h2 := sum_o_le_r um (fun x hx => (hum x hx).2)
  have h3 := sum_o_le_r m hm
  simp only [reportedFree, ledgerTotal, heldLive, reuseNodeCell] at *
  rw [h1]
  omega

/-- the faithful list form `Σ_matched allocated` with the nominated reservation somewhere in the matched list. -/
theorem reuseRsvCell_perm (clamp : Bool) (um pre post : List RC) (n : RC) :
    reuseRsvCell clamp um (pre ++ n :: post) n = reuseRsvCell clamp um (n :: (pre ++ post)) n := by
  simp only [reuseRsvCell, reuseNodeCell, List.map_append, List.map_cons, sumI_append, sumI_cons]
  omega

end KoordVerif.C06
