import KoordVerif.Proofs.C16Evict
/-
C16 ext5 — the critical section of evictorProxy.Evict with the SCOPE of its lock made explicit.

The block model of Model/C16.lean treats a locked block as atomic w.r.t. every other caller, i.e. it presupposes that
all callers take ONE lock object.  Here the lock is a named object: a caller evicts through the proxy `px` of framework
(profile) `fw`, and the lock it takes is chosen by the scope of the mutex in the source

  global        a package-level variable            (pkg/descheduler/framework/runtime/evictor_proxy.go today, 62f0c55)
  perFramework  a field of frameworkImpl            (`e.handle.evictLock`)
  perProxy      a field of evictorProxy             (888c815; handle.Evictor() builds a fresh proxy per call)

The descheduler builds ONE framework per profile (profile.NewMap) and hands the SAME EvictionLimiter to all of them
(descheduler.New: one WithEvictionLimiter option), so the counters `ctr` are shared by the callers of all frameworks.
Small steps of caller i (pc):  0 --Lock (only if no caller holding the SAME lock object is inside); AllowEvict--> 1 | 3
                               1 --evict plugin / API call--> 2 | 3        2 --Done; Unlock--> 3
-/
namespace KoordVerif.C16

inductive LockScope where
  | global | perFramework | perProxy
deriving DecidableEq, Repr

/-- one eviction request: the pod, the API's answer, the framework (profile) and the proxy object it goes through -/
structure Req where
  pod : Pod
  apiOk : Bool
  fw : Nat
  px : Nat
deriving DecidableEq, Repr

/-- the lock object `evictorProxy.Evict` takes for this request -/
def lockOf : LockScope → Req → Nat
  | .global, _ => 0
  | .perFramework, r => r.fw
  | .perProxy, r => r.px

structure LS where
  ctr : Ctr
  issued : List Pod
  pc : Nat → Nat

/-- the caller holds its lock (between Lock and Unlock) -/
def insidePc (k : Nat) : Bool := k == 1 || k == 2

/-- Lock() of caller `i` cannot succeed now: some caller inside its section holds the same lock object -/
def blocked (sc : LockScope) (n : Nat) (req : Nat → Req) (pc : Nat → Nat) (i : Nat) : Bool :=
  (List.range n).any fun j => insidePc (pc j) && lockOf sc (req j) == lockOf sc (req i)

def setPc (pc : Nat → Nat) (i v : Nat) : Nat → Nat := fun j => if j = i then v else pc j

/-- one scheduler step: caller `i` (of `n`) executes its next action -/
def lstep (refuse : Caps → Ctr → Pod → Bool) (caps : Caps) (sc : LockScope) (n : Nat) (req : Nat → Req)
    (s : LS) (i : Nat) : LS :=
  if i < n then
    if s.pc i = 0 then
      if blocked sc n req s.pc i then s
      else if refuse caps s.ctr (req i).pod then { s with pc := setPc s.pc i 3 }
      else { s with pc := setPc s.pc i 1 }
    else if s.pc i = 1 then
      if (req i).apiOk then { s with issued := (req i).pod :: s.issued, pc := setPc s.pc i 2 }
      else { s with pc := setPc s.pc i 3 }
    else if s.pc i = 2 then { s with ctr := count s.ctr (req i).pod, pc := setPc s.pc i 3 }
    else s
  else s

def lrun (refuse : Caps → Ctr → Pod → Bool) (caps : Caps) (sc : LockScope) (n : Nat) (req : Nat → Req)
    (s : LS) (sched : List Nat) : LS :=
  sched.foldl (lstep refuse caps sc n req) s

def linit : LS := ⟨{}, [], fun _ => 0⟩

/-- every caller takes the same lock object -/
def SameLock (sc : LockScope) (n : Nat) (req : Nat → Req) : Prop :=
  ∀ i j, i < n → j < n → lockOf sc (req i) = lockOf sc (req j)

/-- invariant: nobody inside and counters = issued within the caps; or exactly one caller inside, the limit test it passed
    still holds for the current counters, and the eviction it may already have issued is the only one not yet counted -/
def LInv (refuse : Caps → Ctr → Pod → Bool) (caps : Caps) (n : Nat) (req : Nat → Req) (s : LS) : Prop :=
  ((∀ j, insidePc (s.pc j) = false) ∧ Good caps s.ctr s.issued) ∨
  (∃ i, i < n ∧ (∀ j, j ≠ i → insidePc (s.pc j) = false) ∧ refuse caps s.ctr (req i).pod = false ∧
    ((s.pc i = 1 ∧ Good caps s.ctr s.issued) ∨
     (s.pc i = 2 ∧ ∃ iss, s.issued = (req i).pod :: iss ∧ Good caps s.ctr iss)))

theorem insidePc_iff (k : Nat) : insidePc k = true ↔ k = 1 ∨ k = 2 := by
  simp [insidePc]

theorem setPc_same (pc : Nat → Nat) (i v : Nat) : setPc pc i v i = v := by simp [setPc]

theorem setPc_other (pc : Nat → Nat) (i v j : Nat) (h : j ≠ i) : setPc pc i v j = pc j := by simp [setPc, h]

theorem setPc_outside (pc : Nat → Nat) (i : Nat) (h : ∀ j, j ≠ i → insidePc (pc j) = false) :
    ∀ j, insidePc (setPc pc i 3 j) = false := by
  intro j
  by_cases hj : j = i
  · subst hj; simp [setPc, insidePc]
  · rw [setPc_other _ _ _ _ hj]; exact h j hj

theorem linv_step {refuse caps sc n req} (hR : RefuseOK refuse caps) (hL : SameLock sc n req) (s : LS) (i : Nat)
    (inv : LInv refuse caps n req s) : LInv refuse caps n req (lstep refuse caps sc n req s i) := by
  unfold lstep
  by_cases hi : i < n
  case neg => simpa [hi] using inv
  simp only [hi, if_true]
  rcases inv with ⟨hout, g⟩ | ⟨i0, hi0, hout, hrf, hst⟩
  · -- nobody inside
    have hpi : insidePc (s.pc i) = false := hout i
    have h1 : s.pc i ≠ 1 := fun h => by simp [insidePc, h] at hpi
    have h2 : s.pc i ≠ 2 := fun h => by simp [insidePc, h] at hpi
    by_cases h0 : s.pc i = 0
    · simp only [h0, if_true]
      by_cases hb : blocked sc n req s.pc i = true
      · simp only [hb, if_true]; exact Or.inl ⟨hout, g⟩
      · simp only [hb]
        by_cases hr : refuse caps s.ctr (req i).pod = true
        · simp only [hr, if_true]
          exact Or.inl ⟨setPc_outside s.pc i (fun j _ => hout j), g⟩
        · have hr' : refuse caps s.ctr (req i).pod = false := by simpa using hr
          simp only [hr', Bool.false_eq_true, if_false]
          refine Or.inr ⟨i, hi, ?_, hr', Or.inl ⟨setPc_same _ _ _, g⟩⟩
          intro j hj
          show insidePc (setPc s.pc i 1 j) = false
          rw [setPc_other _ _ _ _ hj]; exact hout j
    · simp only [h0, h1, h2, if_false]; exact Or.inl ⟨hout, g⟩
  · -- caller i0 inside
    by_cases hii : i = i0
    · subst hii
      rcases hst with ⟨hp, g⟩ | ⟨hp, iss, hiss, g⟩
      · simp only [hp, Nat.succ_ne_zero, if_false, if_true]
        by_cases ha : (req i).apiOk = true
        · simp only [ha, if_true]
          refine Or.inr ⟨i, hi, ?_, hrf, Or.inr ⟨setPc_same _ _ _, s.issued, rfl, g⟩⟩
          intro j hj
          show insidePc (setPc s.pc i 2 j) = false
          rw [setPc_other _ _ _ _ hj]; exact hout j hj
        · simp only [ha]
          exact Or.inl ⟨setPc_outside s.pc i hout, g⟩
      · have e1 : ¬ (2 : Nat) = 0 := by omega
        have e2 : ¬ (2 : Nat) = 1 := by omega
        simp only [hp, e1, e2, if_false, if_true]
        refine Or.inl ⟨setPc_outside s.pc i hout, ?_⟩
        show Good caps (count s.ctr (req i).pod) s.issued
        rw [hiss]
        exact good_count hR g hrf
    · -- another caller: it is outside, and if it wants the lock it is blocked by i0
      have hpi : insidePc (s.pc i) = false := hout i hii
      have h1 : s.pc i ≠ 1 := fun h => by simp [insidePc, h] at hpi
      have h2 : s.pc i ≠ 2 := fun h => by simp [insidePc, h] at hpi
      have hin0 : insidePc (s.pc i0) = true := by
        rcases hst with ⟨hp, _⟩ | ⟨hp, _⟩ <;> simp [insidePc, hp]
      have hb : blocked sc n req s.pc i = true := by
        simp only [blocked, List.any_eq_true, List.mem_range]
        exact ⟨i0, hi0, by simp [hin0, hL i0 i hi0 hi]⟩
      by_cases h0 : s.pc i = 0
      · simp only [h0, hb, if_true]; exact Or.inr ⟨i0, hi0, hout, hrf, hst⟩
      · simp only [h0, h1, h2, if_false]; exact Or.inr ⟨i0, hi0, hout, hrf, hst⟩

theorem linv_run {refuse caps sc n req} (hR : RefuseOK refuse caps) (hL : SameLock sc n req) (sched : List Nat) :
    ∀ s, LInv refuse caps n req s → LInv refuse caps n req (lrun refuse caps sc n req s sched) := by
  induction sched with
  | nil => intro s h; exact h
  | cons i r ih =>
    intro s h
    simp only [lrun, List.foldl_cons]
    exact ih _ (linv_step hR hL s i h)

theorem linv_init (refuse : Caps → Ctr → Pod → Bool) (caps : Caps) (n : Nat) (req : Nat → Req) :
    LInv refuse caps n req linit :=
  Or.inl ⟨fun _ => by simp [linit, insidePc], good_init caps⟩

/-- what the oracle checks: evictions issued within the caps per real node / namespace / in total -/
def IssuedWithin (caps : Caps) (iss : List Pod) : Prop :=
  (∀ k, k ≠ 0 → capLe caps.node (issuedBy (·.node) iss k)) ∧ (∀ k, capLe caps.ns (issuedBy (·.ns) iss k)) ∧
    capLe caps.total iss.length

theorem good_within {caps c iss} (g : Good caps c iss) : IssuedWithin caps iss := by
  refine ⟨fun k hk => ?_, fun k => ?_, ?_⟩
  · rw [g.node k hk]; exact g.caps.node k hk
  · rw [g.ns k]; exact g.caps.ns k
  · rw [g.total]; exact g.caps.total

theorem linv_within {refuse caps n req s} (hR : RefuseOK refuse caps) (inv : LInv refuse caps n req s) :
    IssuedWithin caps s.issued := by
  rcases inv with ⟨_, g⟩ | ⟨i, _, _, hrf, ⟨_, g⟩ | ⟨_, iss, hiss, g⟩⟩
  · exact good_within g
  · exact good_within g
  · rw [hiss]; exact good_within (good_count hR g hrf)

theorem linv_quiescent {refuse caps n req s} (inv : LInv refuse caps n req s) (hq : ∀ j, insidePc (s.pc j) = false) :
    Good caps s.ctr s.issued := by
  rcases inv with ⟨_, g⟩ | ⟨i, _, _, _, ⟨hp, _⟩ | ⟨hp, _⟩⟩
  · exact g
  · have := hq i; simp [insidePc, hp] at this
  · have := hq i; simp [insidePc, hp] at this

/-- **shared_lock_safe.**  If all callers take the same lock object, then for any sound limit test, any number of callers
    spread over any frameworks / proxies and ANY schedule of their single actions: at every moment the evictions issued
    are within the caps, and whenever nobody is inside the section the counters equal the evictions issued. -/
theorem shared_lock_safe (refuse : Caps → Ctr → Pod → Bool) (caps : Caps) (hR : RefuseOK refuse caps) (sc : LockScope)
    (n : Nat) (req : Nat → Req) (hL : SameLock sc n req) (sched : List Nat) :
    let s := lrun refuse caps sc n req linit sched
    IssuedWithin caps s.issued ∧ ((∀ j, insidePc (s.pc j) = false) → Good caps s.ctr s.issued) := by
  have inv := linv_run hR hL sched linit (linv_init refuse caps n req)
  exact ⟨linv_within hR inv, linv_quiescent inv⟩

theorem sameLock_global (n : Nat) (req : Nat → Req) : SameLock .global n req := fun _ _ _ _ => rfl

/-- two callers evicting the same kind of pod through proxies of two DIFFERENT frameworks (profiles 0 and 1) -/
def twoFrameworks : Nat → Req := fun i => ⟨⟨1, 0⟩, true, i, i⟩

/-- two callers of ONE framework, each with a fresh proxy from `handle.Evictor()` -/
def twoFreshProxies : Nat → Req := fun i => ⟨⟨1, 0⟩, true, 0, i⟩

/-- the scope codes of the facts extractor: 0 package-level variable, 1 field of the frameworkImpl behind `e.handle`,
    2 field of the proxy itself -/
def scopeOfCode : Nat → Option LockScope
  | 0 => some .global
  | 1 => some .perFramework
  | 2 => some .perProxy
  | _ => none

end KoordVerif.C16
