import KoordVerif.Model.C12
/-
C12 — helper development for Props/C12.lean (DESIGN.md Appendix A.5).
Generic over the value domain: `DomEq` = the equational facts about a `Dom` (what the string
comparisons mean), `DomOrd` = the merged value is a least upper bound of old and new for the
hierarchy order `le`.
-/
namespace KoordVerif.C12

variable {α : Type}

/-! ### basic facts -/

theorem setAt_self (f : Nat → α) (n : Nat) : setAt f n (f n) = f := by
  funext m; unfold setAt; split <;> simp_all

theorem applyWrites_append (f : Nat → α) (a b : List (Write α)) :
    applyWrites f (a ++ b) = applyWrites (applyWrites f a) b := by
  induction a generalizing f with
  | nil => rfl
  | cons w ws ih => simp [applyWrites, ih]

def nodes (l : List (Upd α)) : List Nat := l.map (·.node)

@[simp] theorem nodes_nil : nodes ([] : List (Upd α)) = [] := rfl
@[simp] theorem nodes_cons (u : Upd α) (l : List (Upd α)) : nodes (u :: l) = u.node :: nodes l := rfl

/-- every child is within its parent. -/
def Valid (parent : Nat → Option Nat) (le : α → α → Prop) (f : Nat → α) : Prop :=
  ∀ c p, parent c = some p → le (f c) (f p)

/-- the cache, where it has an entry, holds the content of the file. -/
def CacheOK (s : St α) : Prop := ∀ n v, s.cache n = some v → s.files n = v

/-- file content after the merge pass: merged value when the merge condition fires, else unchanged. -/
def eff (D : Dom α) (o t : α) : α := if (D.merge o t).2 then (D.merge o t).1 else o

structure DomEq (D : Dom α) : Prop where
  mergeSelf : ∀ a, (D.merge a a).2 = false
  same_eq : ∀ c t, D.same c t = true → c = t
  valEq_eq : ∀ v t, D.valEq v t = true → v = t
  after_eq : ∀ t v, D.afterUpdate t = some v → v = t
  read_eq : ∀ c v, D.readBack c = some v → v = c

structure DomOrd (D : Dom α) (le : α → α → Prop) : Prop where
  refl : ∀ a, le a a
  trans : ∀ a b c, le a b → le b c → le a c
  noMerge : ∀ o t, (D.merge o t).2 = false → le t o
  mergeOld : ∀ o t, (D.merge o t).2 = true → le o (D.merge o t).1
  mergeNew : ∀ o t, (D.merge o t).2 = true → le t (D.merge o t).1
  mergeLub : ∀ o t c, (D.merge o t).2 = true → le o c → le t c → le (D.merge o t).1 c

theorem eff_self {D : Dom α} (h : DomEq D) (a : α) : eff D a a = a := by
  simp [eff, h.mergeSelf]

theorem le_eff_old {D : Dom α} {le} (h : DomOrd D le) (o t : α) : le o (eff D o t) := by
  unfold eff; split
  · exact h.mergeOld o t (by assumption)
  · exact h.refl o

theorem le_eff_new {D : Dom α} {le} (h : DomOrd D le) (o t : α) : le t (eff D o t) := by
  unfold eff; split
  · exact h.mergeNew o t (by assumption)
  · exact h.noMerge o t (by simp_all)

theorem eff_lub {D : Dom α} {le} (h : DomOrd D le) (o t c : α) (ho : le o c) (ht : le t c) : le (eff D o t) c := by
  unfold eff; split
  · exact h.mergeLub o t c (by assumption) ho ht
  · exact ho

/-! ### single steps -/

theorem cacheOK_setAt (s : St α) (n : Nat) (v : α) (c : Option α) (hc : CacheOK s)
    (hv : ∀ x, c = some x → x = v) :
    CacheOK { s with files := setAt s.files n v, cache := setAt s.cache n c } := by
  intro m x hx
  simp only [setAt] at hx ⊢
  split at hx
  · simp_all
  · simp_all [hc m x hx]

theorem cacheOK_setCache (s : St α) (n : Nat) (c : Option α) (hc : CacheOK s)
    (hv : ∀ x, c = some x → x = s.files n) :
    CacheOK { s with cache := setAt s.cache n c } := by
  intro m x hx
  simp only [setAt] at hx ⊢
  split at hx
  · next h => subst h; exact (hv x hx).symm
  · exact hc m x hx

/-- a skipped updater (needUpdate false): the cache says the file already holds the new value. -/
theorem needUpdate_false {D : Dom α} (hD : DomEq D) (exp : Bool) (s : St α) (u : Upd α) (t : α)
    (ht : u.tgt = some t) (hc : CacheOK s) (h : needUpdate D exp s u = false) : s.files u.node = t := by
  unfold needUpdate at h
  rw [ht] at h
  split at h
  · simp at h
  · simp at h
  · next v t' hcache htt =>
    simp at h
    cases htt
    have := hD.valEq_eq _ _ h.1
    subst this
    exact hc _ _ hcache

theorem step1_spec {D : Dom α} (hD : DomEq D) (hm : D.mergeable = true) (exp : Bool) (s : St α) (u : Upd α)
    (t : α) (ht : u.tgt = some t) (hc : CacheOK s) :
    (step1 D exp s u).1.files = setAt s.files u.node (eff D (s.files u.node) t) ∧
    CacheOK (step1 D exp s u).1 ∧ (step1 D exp s u).1.skip = s.skip ∧
    (((step1 D exp s u).2 = [] ∧ (step1 D exp s u).1.files = s.files) ∨
     ((step1 D exp s u).2 = [(u.node, eff D (s.files u.node) t)] ∧ (D.merge (s.files u.node) t).2 = true)) := by
  by_cases hn : needUpdate D exp s u = true
  · by_cases hmg : (D.merge (s.files u.node) t).2 = true
    · have e : step1 D exp s u =
          ({ s with files := setAt s.files u.node (D.merge (s.files u.node) t).1,
                    cache := setAt s.cache u.node (some (D.merge (s.files u.node) t).1) },
           [(u.node, (D.merge (s.files u.node) t).1)]) := by
        simp [step1, hn, ht, hm, hmg]
      have e2 : eff D (s.files u.node) t = (D.merge (s.files u.node) t).1 := by simp [eff, hmg]
      rw [e, e2]
      refine ⟨rfl, ?_, rfl, Or.inr ⟨rfl, hmg⟩⟩
      exact cacheOK_setAt s _ _ _ hc (by intro x hx; cases hx; rfl)
    · have hmg' : (D.merge (s.files u.node) t).2 = false := by simpa using hmg
      have e : step1 D exp s u =
          ({ s with cache := setAt s.cache u.node (D.readBack (s.files u.node)) }, []) := by
        simp [step1, hn, ht, hm, hmg']
      have e2 : eff D (s.files u.node) t = s.files u.node := by simp [eff, hmg']
      rw [e, e2]
      refine ⟨(setAt_self _ _).symm, ?_, rfl, Or.inl ⟨rfl, rfl⟩⟩
      exact cacheOK_setCache s _ _ hc (fun x hx => hD.read_eq _ _ hx)
  · have hn' : needUpdate D exp s u = false := by simpa using hn
    have hf := needUpdate_false hD exp s u t ht hc hn'
    have e : step1 D exp s u = (s, []) := by simp [step1, hn']
    have e2 : eff D (s.files u.node) t = s.files u.node := by rw [hf]; exact eff_self hD t
    rw [e, e2]
    exact ⟨(setAt_self _ _).symm, hc, rfl, Or.inl ⟨rfl, rfl⟩⟩

theorem step2_spec {D : Dom α} (hD : DomEq D) (exp : Bool) (s : St α) (u : Upd α)
    (t : α) (ht : u.tgt = some t) (hc : CacheOK s) (hs : s.skip = []) :
    (step2 D exp s u).1.files = setAt s.files u.node t ∧
    CacheOK (step2 D exp s u).1 ∧ (step2 D exp s u).1.skip = s.skip ∧
    (((step2 D exp s u).2 = [] ∧ (step2 D exp s u).1.files = s.files) ∨
     ((step2 D exp s u).2 = [(u.node, t)] ∧ D.same (s.files u.node) t = false)) := by
  by_cases hn : needUpdate D exp s u = true
  · by_cases hsame : D.same (s.files u.node) t = true
    · have e : step2 D exp s u = ({ s with cache := setAt s.cache u.node (D.afterUpdate t) }, []) := by
        simp [step2, hn, ht, hs, hsame]
      have hf := hD.same_eq _ _ hsame
      rw [e]
      refine ⟨by rw [← hf]; exact (setAt_self _ _).symm, ?_, rfl, Or.inl ⟨rfl, rfl⟩⟩
      exact cacheOK_setCache s _ _ hc (fun x hx => by rw [hf]; exact hD.after_eq _ _ hx)
    · have hsame' : D.same (s.files u.node) t = false := by simpa using hsame
      have e : step2 D exp s u =
          ({ s with files := setAt s.files u.node t, cache := setAt s.cache u.node (D.afterUpdate t) },
           [(u.node, t)]) := by
        simp [step2, hn, ht, hs, hsame']
      rw [e]
      refine ⟨rfl, ?_, rfl, Or.inr ⟨rfl, hsame'⟩⟩
      exact cacheOK_setAt s _ _ _ hc (fun x hx => hD.after_eq _ _ hx)
  · have hn' : needUpdate D exp s u = false := by simpa using hn
    have hf := needUpdate_false hD exp s u t ht hc hn'
    have e : step2 D exp s u = (s, []) := by simp [step2, hn']
    rw [e]
    exact ⟨by rw [← hf]; exact (setAt_self _ _).symm, hc, rfl, Or.inl ⟨rfl, rfl⟩⟩

/-! ### generic sweep lemmas -/

section Sweep
variable (step : St α → Upd α → St α × List (Write α)) (I : List (Upd α) → St α → Prop)

theorem runPass_inv
    (hstep : ∀ u l s, I (u :: l) s → I l (step s u).1) :
    ∀ l s, I l s → I [] (runPass step l s).1 := by
  intro l
  induction l with
  | nil => intro s h; exact h
  | cons u l ih => intro s h; exact ih _ (hstep u l s h)

theorem runPass_apply
    (hstep : ∀ u l s, I (u :: l) s → I l (step s u).1 ∧ applyWrites s.files (step s u).2 = (step s u).1.files) :
    ∀ l s, I l s → applyWrites s.files (runPass step l s).2 = (runPass step l s).1.files := by
  intro l
  induction l with
  | nil => intro s _; rfl
  | cons u l ih =>
    intro s h
    obtain ⟨h1, h2⟩ := hstep u l s h
    simp only [runPass, applyWrites_append, h2]
    exact ih _ h1

theorem runPass_writes (Q : Write α → Prop)
    (hstep : ∀ u l s, I (u :: l) s → I l (step s u).1 ∧ ∀ w ∈ (step s u).2, Q w) :
    ∀ l s, I l s → ∀ w ∈ (runPass step l s).2, Q w := by
  intro l
  induction l with
  | nil => intro s _ w hw; simp [runPass] at hw
  | cons u l ih =>
    intro s h w hw
    obtain ⟨h1, h2⟩ := hstep u l s h
    simp only [runPass, List.mem_append] at hw
    cases hw with
    | inl hw => exact h2 w hw
    | inr hw => exact ih _ h1 w hw

/-- every prefix of the write sequence of a sweep yields a file system satisfying `P`, provided every
    intermediate state of the sweep does and each step writes at most once. -/
theorem runPass_prefix (P : (Nat → α) → Prop)
    (hP : ∀ l s, I l s → P s.files)
    (hstep : ∀ u l s, I (u :: l) s → I l (step s u).1 ∧
      (((step s u).2 = [] ∧ (step s u).1.files = s.files) ∨
       (∃ w, (step s u).2 = [w] ∧ (step s u).1.files = setAt s.files w.1 w.2))) :
    ∀ l s, I l s → ∀ k, P (applyWrites s.files ((runPass step l s).2.take k)) := by
  intro l
  induction l with
  | nil => intro s h k; simpa [runPass, applyWrites] using hP _ _ h
  | cons u l ih =>
    intro s h k
    obtain ⟨h1, h2⟩ := hstep u l s h
    simp only [runPass]
    rcases h2 with ⟨he, hf⟩ | ⟨w, he, hf⟩
    · rw [he, List.nil_append, ← hf]; exact ih _ h1 k
    · rw [he]
      cases k with
      | zero => simpa [applyWrites] using hP _ _ h
      | succ k =>
        simp only [List.singleton_append, List.take_succ_cons, applyWrites]
        rw [← hf]; exact ih _ h1 k

end Sweep

/-- prefixes of a concatenation. -/
theorem prefix_append (P : (Nat → α) → Prop) (f : Nat → α) (a b : List (Write α))
    (ha : ∀ k, P (applyWrites f (a.take k)))
    (hb : ∀ k, P (applyWrites (applyWrites f a) (b.take k))) :
    ∀ k, P (applyWrites f ((a ++ b).take k)) := by
  intro k
  rw [List.take_append, applyWrites_append]
  by_cases h : k ≤ a.length
  · have : k - a.length = 0 := by omega
    rw [this]; simpa [applyWrites] using ha k
  · have : a.take k = a := List.take_of_length_le (by omega)
    rw [this]; exact hb _

/-! ### the two passes: what the files hold (no order needed) -/

section Passes
variable {D : Dom α} (hD : DomEq D) (hm : D.mergeable = true) (exp : Bool)
variable (old T : Nat → α)

/-- invariant of the merge pass; `l` = updaters still to be processed. -/
def J1 (D : Dom α) (old T : Nat → α) (l : List (Upd α)) (s : St α) : Prop :=
  CacheOK s ∧ s.skip = [] ∧ (nodes l).Nodup ∧ (∀ u ∈ l, u.tgt = some (T u.node)) ∧
  ∀ n, s.files n = if n ∈ nodes l then old n else eff D (old n) (T n)

/-- invariant of the exact pass. -/
def J2 (D : Dom α) (old T : Nat → α) (l : List (Upd α)) (s : St α) : Prop :=
  CacheOK s ∧ s.skip = [] ∧ (nodes l).Nodup ∧ (∀ u ∈ l, u.tgt = some (T u.node)) ∧
  ∀ n, s.files n = if n ∈ nodes l then eff D (old n) (T n) else T n

include hD hm in
theorem J1_step (u : Upd α) (l : List (Upd α)) (s : St α) (h : J1 D old T (u :: l) s) :
    J1 D old T l (step1 D exp s u).1 ∧
    (((step1 D exp s u).2 = [] ∧ (step1 D exp s u).1.files = s.files) ∨
     ((step1 D exp s u).2 = [(u.node, eff D (old u.node) (T u.node))] ∧
      (step1 D exp s u).1.files = setAt s.files u.node (eff D (old u.node) (T u.node)) ∧
      (D.merge (old u.node) (T u.node)).2 = true)) := by
  obtain ⟨hc, hs, hnd, ht, hf⟩ := h
  have htu := ht u (List.mem_cons_self)
  have hfu : s.files u.node = old u.node := by simpa using hf u.node
  obtain ⟨g1, g2, g3, g4⟩ := step1_spec hD hm exp s u (T u.node) htu hc
  rw [hfu] at g1 g4
  simp only [nodes_cons, List.nodup_cons] at hnd
  refine ⟨⟨g2, by rw [g3, hs], hnd.2, fun v hv => ht v (List.mem_cons_of_mem _ hv), ?_⟩, ?_⟩
  · intro n
    rw [g1]; unfold setAt
    by_cases hn : n = u.node
    · subst hn; simp [hnd.1]
    · simp only [hn, if_false, hf n, nodes_cons, List.mem_cons, false_or]
  · rcases g4 with g | g
    · exact Or.inl g
    · exact Or.inr ⟨g.1, g1, g.2⟩

include hD in
theorem J2_step (u : Upd α) (l : List (Upd α)) (s : St α) (h : J2 D old T (u :: l) s) :
    J2 D old T l (step2 D exp s u).1 ∧
    (((step2 D exp s u).2 = [] ∧ (step2 D exp s u).1.files = s.files) ∨
     ((step2 D exp s u).2 = [(u.node, T u.node)] ∧
      (step2 D exp s u).1.files = setAt s.files u.node (T u.node) ∧
      D.same (eff D (old u.node) (T u.node)) (T u.node) = false)) := by
  obtain ⟨hc, hs, hnd, ht, hf⟩ := h
  have htu := ht u (List.mem_cons_self)
  have hfu : s.files u.node = eff D (old u.node) (T u.node) := by simpa using hf u.node
  obtain ⟨g1, g2, g3, g4⟩ := step2_spec hD exp s u (T u.node) htu hc hs
  rw [hfu] at g4
  simp only [nodes_cons, List.nodup_cons] at hnd
  refine ⟨⟨g2, by rw [g3, hs], hnd.2, fun v hv => ht v (List.mem_cons_of_mem _ hv), ?_⟩, ?_⟩
  · intro n
    rw [g1]; unfold setAt
    by_cases hn : n = u.node
    · subst hn; simp [hnd.1]
    · simp only [hn, if_false, hf n, nodes_cons, List.mem_cons, false_or]
  · rcases g4 with g | g
    · exact Or.inl g
    · exact Or.inr ⟨g.1, g1, g.2⟩

end Passes

/-! ### list facts about the two iteration orders -/

/-- the second sweep visits the updaters in exactly the reverse order of the first. -/
theorem sweep2_eq {β : Type} (L : List (List β)) : sweep2 L = L.flatten.reverse := by
  simp [sweep2, List.reverse_flatten, List.map_reverse]

theorem reverse_flatten_perm {β : Type} (L : List (List β)) : List.Perm (sweep2 L) L.flatten := by
  rw [sweep2_eq]; exact List.reverse_perm _

theorem nodes_perm {l l' : List (Upd α)} (h : List.Perm l l') : List.Perm (nodes l) (nodes l') :=
  List.Perm.map _ h

end KoordVerif.C12
