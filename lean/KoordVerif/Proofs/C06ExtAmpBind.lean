import KoordVerif.Model.C06Alloc
import KoordVerif.Proofs.C06Ledger
import KoordVerif.Proofs.C06ExtAmp
/-
C06 extension (round 2) — cpu-bind pods on a node with a cpu amplification ratio > 1.

`allocateResourcesByHint` splits the RAW request of a cpu-bind pod (`options.originalRequests`) over the
amplified free amounts and records the raw amount, but the CPUs the pod then holds are charged
`Amplify(cpus × 1000)` by `getAvailableNUMANodeResources` (`recorded − cpusets + Amplify(cpusets)`).
So "what the implementation itself charges a NUMA node" (`chargedCell`) can exceed the node's capacity
after a successful Allocate + Update: refuted below on the smallest witness; what still holds is stated
as `numa_charged_eq_recorded_partial` (ratio ≤ 1, or no bound CPU on the node: charged = recorded, and
`numa_within_capacity` bounds the recorded amounts).
-/
namespace KoordVerif.C06

/-- every NUMA cell is charged (in the sense of `getAvailableNUMANodeResources`) at most its capacity. -/
def ChargedWithin (cfg : NodeCfg) (L : Ledger) : Prop :=
  ∀ e ∈ cfg.capacity, chargedCell cfg.num cfg.den cfg.nodeOf L e.1 ≤ e.2

instance (cfg : NodeCfg) (L : Ledger) : Decidable (ChargedWithin cfg L) := by
  unfold ChargedWithin; exact inferInstance

/-- the witness: 1 NUMA node with 4 raw CPUs, ratio 2 ⇒ capacity 8000; a pod without cpu bind holds 7000. -/
def ampBindCfg : NodeCfg :=
  { topo := (List.range 4).map fun c => { cpu := c, core := c, node := 0, socket := 0 },
    cpc := 1, cpn := 4, cps := 4, maxRef := 1, most := true, reserved := [],
    caps := [(0, 4000)], num := 2, den := 1 }

def ampBindOps : List Op := [.upd { uid := 1, excl := 0, cpus := [], numa := [(0, 7000)] }]

def ampBindReq : AllocReq :=
  { uid := 2, excl := 0, bind := 0, required := false, cpuBind := true, ncpu := 1, hint := some [0],
    reqs := [(0, 1000)] }

/-- on the witness: 1000 is reported free, the cpu-bind pod asking 1 CPU is admitted with a recorded amount of
    1000, and afterwards the node is charged 7000 + Amplify(1000) = 9000 against its capacity 8000. -/
theorem ampBind_witness :
    ampBindCfg.capacity = [(0, 8000)] ∧
    availableCellAmp 2 1 ampBindCfg.nodeOf 8000 (run ampBindOps) 0 = 1000 ∧
    (allocate ampBindCfg (run ampBindOps) ampBindReq).map (fun p => (p.cpus, p.numa)) = some ([0], [(0, 1000)]) ∧
    chargedCell 2 1 ampBindCfg.nodeOf
      (step (run ampBindOps) (.upd { uid := 2, excl := 0, cpus := [0], numa := [(0, 1000)] })) 0 = 9000 := by
  decide

/-- **numa_amplified_bind_counterexample**: "a successful Allocate + Update keeps every NUMA node charged within
    its capacity" is FALSE for the code as it is when the cpu amplification ratio is > 1 and the pod binds CPUs. -/
theorem ampBind_refutes :
    ¬ (∀ (cfg : NodeCfg) (L : Ledger) (req : AllocReq) (p : PodAlloc), 0 < cfg.den → Inv L →
        ChargedWithin cfg L → allocate cfg L req = some p → ChargedWithin cfg (step L (.upd p))) := by
  intro h
  have hinv : Inv (run ampBindOps) :=
    inv_foldl _ _ inv_empty (by intro op hop; simp [ampBindOps] at hop; subst hop; simp [OpOK, PodOK])
  have := h ampBindCfg (run ampBindOps) ampBindReq
    { uid := 2, excl := 0, cpus := [0], numa := [(0, 1000)] } (by decide) hinv (by decide) (by decide)
  revert this; decide

theorem amplify_zero (num den : Int) (hden : 0 < den) : amplify num den 0 = 0 := by
  unfold amplify
  split
  · rfl
  · simp only [Int.zero_mul, Int.zero_add]
    exact Int.ediv_eq_zero_of_lt (by omega) (by omega)

/-- what still holds: without amplification (ratio ≤ 1) or on a NUMA node without bound CPUs the charge IS the
    recorded amount — so there `numa_within_capacity` bounds it by the capacity. -/
theorem charged_eq_recorded (num den : Int) (nodeOf : Nat → Nat) (L : Ledger) (k : Nat)
    (hden : 0 < den) (h : num ≤ den ∨ allocCPUMilli nodeOf L.cpus (k / 16) = 0) :
    chargedCell num den nodeOf L k = getI L.res k := by
  unfold chargedCell
  split
  · split
    · rename_i hc
      simp only [Bool.and_eq_true, decide_eq_true_eq] at hc
      rcases h with h | h
      · omega
      · simp only [h, amplify_zero num den hden]; omega
    · rfl
  · rename_i hne
    exact (getI_eq_zero_of_no_entry L.res k (by simpa using hne)).symm

end KoordVerif.C06
