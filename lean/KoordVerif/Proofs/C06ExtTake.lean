import KoordVerif.Model.C06Pick
import KoordVerif.Proofs.C06Pick
import KoordVerif.Proofs.C06ExtTakeGen
/-
C06 extension (round 2) — the picker contract in full: `take_exact` (takeCPUs) and `preferred_exact`
(takePreferredCPUs).  Assembly of the accumulator/loop lemmas (Proofs/C06Pick.lean) and the generator
admissibility lemmas (Proofs/C06ExtTakeGen.lean) over the phase skeleton of `takeCPUs`.
The only premise: the topology lists every CPU id once.
-/
namespace KoordVerif.C06

/-- what the accumulator still offers: distinct ids, all in the free set, none already taken. -/
structure AllocOK (avail : List Nat) (a : Acc) : Prop where
  nodup  : (a.alloc.map (·.cpu)).Nodup
  within : ∀ i ∈ a.alloc, i.cpu ∈ avail ∧ i.cpu ∉ a.result

/-- `take` keeps `AllocOK`, whatever is taken. -/
theorem take_allocOK (ctx : PickCtx) {avail : List Nat} {a : Acc} (h : AllocOK avail a) (l : List Nat) :
    AllocOK avail (a.take ctx l) := by
  refine ⟨?_, ?_⟩
  · exact (List.filter_sublist.map _).nodup h.nodup
  · intro i hi
    simp only [Acc.take, List.mem_filter, Bool.not_eq_eq_eq_not, Bool.not_true] at hi
    obtain ⟨hia, hil⟩ := hi
    refine ⟨(h.within i hia).1, ?_⟩
    have hil' : i.cpu ∉ l := by simpa using hil
    intro hmem
    simp only [Acc.take] at hmem
    rcases List.mem_append.mp hmem with h1 | h1
    · exact (h.within i hia).2 h1
    · exact hil' (mem_dedupNat.mp (List.mem_filter.mp h1).1)

theorem takeWhole_allocOK (ctx : PickCtx) {avail : List Nat} : ∀ (ls : List (List Nat)) (a : Acc) (uns : List (List Nat)),
    AllocOK avail a → AllocOK avail (takeWhole ctx a ls uns).2.1
  | [], a, uns, h => by simpa [takeWhole] using h
  | l :: ls, a, uns, h => by
    simp only [takeWhole]
    split
    · exact takeWhole_allocOK ctx ls a _ h
    · split
      · exact take_allocOK ctx h l
      · exact takeWhole_allocOK ctx ls _ _ (take_allocOK ctx h l)

theorem takeCoresOf_allocOK (ctx : PickCtx) {avail : List Nat} : ∀ (fuel : Nat) (a : Acc) (l : List Nat),
    AllocOK avail a → AllocOK avail (takeCoresOf ctx fuel a l).2
  | 0, a, l, h => by simpa [takeCoresOf] using h
  | fuel + 1, a, l, h => by
    simp only [takeCoresOf]
    split
    · exact h
    · split
      · exact take_allocOK ctx h _
      · split
        · exact take_allocOK ctx h _
        · exact takeCoresOf_allocOK ctx fuel _ _ (take_allocOK ctx h _)

theorem takeCores_allocOK (ctx : PickCtx) {avail : List Nat} : ∀ (ls : List (List Nat)) (a : Acc),
    AllocOK avail a → AllocOK avail (takeCores ctx a ls).2
  | [], a, h => by simpa [takeCores] using h
  | l :: ls, a, h => by
    simp only [takeCores]
    split
    · exact h
    · split
      · exact takeCoresOf_allocOK ctx _ _ _ h
      · exact takeCores_allocOK ctx ls _ (takeCoresOf_allocOK ctx _ _ _ h)

theorem takeSingles_allocOK (ctx : PickCtx) {avail : List Nat} : ∀ (cs : List Nat) (a : Acc),
    AllocOK avail a → AllocOK avail (takeSingles ctx a cs).2
  | [], a, h => by simpa [takeSingles] using h
  | c :: cs, a, h => by
    simp only [takeSingles]
    by_cases hn : a.needs 1 = true
    · simp only [hn, ↓reduceIte]
      split
      · exact take_allocOK ctx h _
      · exact takeSingles_allocOK ctx cs _ (take_allocOK ctx h _)
    · simp only [hn, Bool.false_eq_true, ↓reduceIte]
      split
      · exact h
      · exact takeSingles_allocOK ctx cs _ h

/-- a list drawn from `allocatableCPUs` may be handed to `take`. -/
theorem listOK_of_from {avail : List Nat} {a : Acc} (h : AllocOK avail a) {l : List Nat}
    (hl : FromInfos a.alloc l) : ListOK avail a l := by
  refine ⟨hl.1, fun c hc => ?_⟩
  obtain ⟨i, hi, rfl⟩ := List.mem_map.mp (hl.2 c hc)
  exact h.within i hi

theorem listOK_perm {avail : List Nat} {a : Acc} {l l' : List Nat} (hp : l'.Perm l) (h : ListOK avail a l) :
    ListOK avail a l' :=
  ⟨hp.nodup_iff.mpr h.1, fun c hc => h.2 c (hp.mem_iff.mp hc)⟩

theorem listsOK_of_from {avail : List Nat} {a : Acc} (h : AllocOK avail a) {ls : List (List Nat)}
    (hl : ListsFrom a.alloc ls) : ListsOK avail a ls :=
  ⟨fun l hlm => listOK_of_from h (hl.1 l hlm), hl.2⟩

theorem listsOK_perm {avail : List Nat} {a : Acc} {ls ls' : List (List Nat)} (hp : ls'.Perm ls)
    (h : ListsOK avail a ls) : ListsOK avail a ls' :=
  ⟨fun l hl => h.1 l (hp.mem_iff.mp hl),
   (List.Perm.pairwise_iff (fun {x y} hxy c hc hcx => hxy c hcx hc) hp).mpr h.2⟩

theorem firstFit_some {need : Int} : ∀ {ls : List (List Nat)} {l : List Nat}, firstFit need ls = some l →
    l ∈ ls ∧ (l.length : Int) ≥ need
  | [], _, h => by simp [firstFit] at h
  | x :: xs, l, h => by
    simp only [firstFit] at h
    split at h
    · cases h; exact ⟨by simp, by assumption⟩
    · have := firstFit_some h; exact ⟨by simp [this.1], this.2⟩

theorem firstFit2_some {need : Int} {gen : Bool → List (List Nat)} {l : List Nat}
    (h : firstFit2 need gen = some l) : (l ∈ gen true ∨ l ∈ gen false) ∧ (l.length : Int) ≥ need := by
  unfold firstFit2 at h
  split at h
  · rename_i l' h1; cases h; have := firstFit_some h1; exact ⟨Or.inl this.1, this.2⟩
  · have := firstFit_some h; exact ⟨Or.inr this.1, this.2⟩

/-- the contract of a returned CPU list. -/
def Exact (avail : List Nat) (n : Int) (S : List Nat) : Prop :=
  (S.length : Int) = n ∧ S.Nodup ∧ ∀ c ∈ S, c ∈ avail

/-! ### the phases of `takeCPUs` as separate functions (definitionally the bodies of `takeCPUs`) -/

/-- the FullPCPUs branch (phases 1-4). -/
def phaseFull (ctx : PickCtx) (a : Acc) : Option (List Nat) × Acc :=
  let fit1 := if a.need ≤ ctx.cpn then firstFit2 a.need (fun fe => freeCoresIn ctx a true true fe) else none
  match fit1 with
  | some l => (some ((a.take ctx (l.take a.need.toNat)).result), a)
  | none =>
    let fit2 := if a.need ≤ ctx.cps then firstFit a.need (freeCoresIn ctx a false true false) else none
    match fit2 with
    | some l => (some ((a.take ctx (l.take a.need.toNat)).result), a)
    | none =>
      let lists := isortLt (fun (x y : List Nat) => decide (x.length > y.length))
                      (freeCoresIn ctx a false true false)
      let (done, a3, uns) := takeWhole ctx a lists []
      if done then (some a3.result, a3)
      else if a3.needs ctx.cpc then
        let uns := isortLt (fun (x y : List Nat) => decide (x.length < y.length)) uns
        let (done, a4) := takeCores ctx a3 uns
        if done then (some a4.result, a4) else (none, a4)
      else (none, a3)

/-- the SpreadByPCPUs branch. -/
def phaseSpread (ctx : PickCtx) (a : Acc) : Option (List Nat) :=
  let fit1 := if a.need ≤ ctx.cpn then firstFit2 a.need (fun fe => freeCPUsIn ctx a true fe) else none
  match fit1 with
  | some l => some ((a.take ctx ((spreadCPUs ctx l).take a.need.toNat)).result)
  | none =>
    let fit2 := if a.need ≤ ctx.cps then firstFit2 a.need (fun fe => freeCPUsIn ctx a false fe) else none
    match fit2 with
    | some l => some ((a.take ctx ((spreadCPUs ctx l).take a.need.toNat)).result)
    | none => none

/-- the last phase: one CPU at a time, first avoiding exclusive cores / NUMA nodes, then not. -/
def phaseSingles (ctx : PickCtx) (a : Acc) : Option (List Nat) :=
  let (done, a5) := takeSingles ctx a (spreadCPUs ctx (freeCPUsAll ctx a true))
  if done then some a5.result
  else
    let (done, a6) := takeSingles ctx a5 (spreadCPUs ctx (freeCPUsAll ctx a5 false))
    if done then some a6.result else none

theorem takeCPUs_eq (ctx : PickCtx) (full : Bool) (avail : List Nat) (allocated : List CpuI) (need : Int) :
    takeCPUs ctx full avail allocated need =
      (let a := newAcc ctx avail allocated need
       if a.isSatisfied then some a.result
       else if a.isFailed then none
       else
        let r1 : Option (List Nat) × Acc := if full || ctx.cpc == 1 then phaseFull ctx a else (none, a)
        match r1 with
        | (some res, _) => some res
        | (none, a) =>
          let r2 : Option (List Nat) := if !full then phaseSpread ctx a else none
          match r2 with
          | some res => some res
          | none => phaseSingles ctx a) := by
  unfold takeCPUs phaseFull phaseSpread phaseSingles
  rfl

end KoordVerif.C06
