import KoordVerif.Model.C06Pick
import KoordVerif.Proofs.C06Pick
import KoordVerif.Proofs.C06ExtTakeGen
/-
C06 extension (round 2) — the picker contract in full: `take_exact` (takeCPUs) and `preferred_exact`
(takePreferredCPUs).  Assembly of the accumulator/loop lemmas (Proofs/C06Pick.lean) and the generator
admissibility lemmas (Proofs/C06ExtTakeGen.lean) over the phase skeleton of `takeCPUs`.
The only premise: the topology lists every CPU id once.
-/
namespace KoordVerif.C06

/-- what the accumulator still offers: distinct ids, all in the free set, none already taken. -/
structure AllocOK (avail : List Nat) (a : Acc) : Prop where
  nodup  : (a.alloc.map (·.cpu)).Nodup
  within : ∀ i ∈ a.alloc, i.cpu ∈ avail ∧ i.cpu ∉ a.result

/-- `take` keeps `AllocOK`, whatever is taken. -/
theorem take_allocOK (ctx : PickCtx) {avail : List Nat} {a : Acc} (h : AllocOK avail a) (l : List Nat) :
    AllocOK avail (a.take ctx l) := by
  refine ⟨?_, ?_⟩
  · exact (List.filter_sublist.map _).nodup h.nodup
  · intro i hi
    simp only [Acc.take, List.mem_filter, Bool.not_eq_eq_eq_not, Bool.not_true] at hi
    obtain ⟨hia, hil⟩ := hi
    refine ⟨(h.within i hia).1, ?_⟩
    have hil' : i.cpu ∉ l := by simpa using hil
    intro hmem
    simp only [Acc.take] at hmem
    rcases List.mem_append.mp hmem with h1 | h1
    · exact (h.within i hia).2 h1
    · exact hil' (mem_dedupNat.mp (List.mem_filter.mp h1).1)

theorem takeWhole_allocOK (ctx : PickCtx) {avail : List Nat} : ∀ (ls : List (List Nat)) (a : Acc) (uns : List (List Nat)),
    AllocOK avail a → AllocOK avail (takeWhole ctx a ls uns).2.1
  | [], a, uns, h => by simpa [takeWhole] using h
  | l :: ls, a, uns, h => by
    simp only [takeWhole]
    split
    · exact takeWhole_allocOK ctx ls a _ h
    · split
      · exact take_allocOK ctx h l
      · exact takeWhole_allocOK ctx ls _ _ (take_allocOK ctx h l)

theorem takeCoresOf_allocOK (ctx : PickCtx) {avail : List Nat} : ∀ (fuel : Nat) (a : Acc) (l : List Nat),
    AllocOK avail a → AllocOK avail (takeCoresOf ctx fuel a l).2
  | 0, a, l, h => by simpa [takeCoresOf] using h
  | fuel + 1, a, l, h => by
    simp only [takeCoresOf]
    split
    · exact h
    · split
      · exact take_allocOK ctx h _
      · split
        · exact take_allocOK ctx h _
        · exact takeCoresOf_allocOK ctx fuel _ _ (take_allocOK ctx h _)

theorem takeCores_allocOK (ctx : PickCtx) {avail : List Nat} : ∀ (ls : List (List Nat)) (a : Acc),
    AllocOK avail a → AllocOK avail (takeCores ctx a ls).2
  | [], a, h => by simpa [takeCores] using h
  | l :: ls, a, h => by
    simp only [takeCores]
    split
    · exact h
    · split
      · exact takeCoresOf_allocOK ctx _ _ _ h
      · exact takeCores_allocOK ctx ls _ (takeCoresOf_allocOK ctx _ _ _ h)

theorem takeSingles_allocOK (ctx : PickCtx) {avail : List Nat} : ∀ (cs : List Nat) (a : Acc),
    AllocOK avail a → AllocOK avail (takeSingles ctx a cs).2
  | [], a, h => by simpa [takeSingles] using h
  | c :: cs, a, h => by
    simp only [takeSingles]
    by_cases hn : a.needs 1 = true
    · simp only [hn, ↓reduceIte]
      split
      · exact take_allocOK ctx h _
      · exact takeSingles_allocOK ctx cs _ (take_allocOK ctx h _)
    · simp only [hn, Bool.false_eq_true, ↓reduceIte]
      split
      · exact h
      · exact takeSingles_allocOK ctx cs _ h

/-- a list drawn from `allocatableCPUs` may be handed to `take`. -/
theorem listOK_of_from {avail : List Nat} {a : Acc} (h : AllocOK avail a) {l : List Nat}
    (hl : FromInfos a.alloc l) : ListOK avail a l := by
  refine ⟨hl.1, fun c hc => ?_⟩
  obtain ⟨i, hi, rfl⟩ := List.mem_map.mp (hl.2 c hc)
  exact h.within i hi

theorem listOK_perm {avail : List Nat} {a : Acc} {l l' : List Nat} (hp : l'.Perm l) (h : ListOK avail a l) :
    ListOK avail a l' :=
  ⟨hp.nodup_iff.mpr h.1, fun c hc => h.2 c (hp.mem_iff.mp hc)⟩

theorem listsOK_of_from {avail : List Nat} {a : Acc} (h : AllocOK avail a) {ls : List (List Nat)}
    (hl : ListsFrom a.alloc ls) : ListsOK avail a ls :=
  ⟨fun l hlm => listOK_of_from h (hl.1 l hlm), hl.2⟩

theorem listsOK_perm {avail : List Nat} {a : Acc} {ls ls' : List (List Nat)} (hp : ls'.Perm ls)
    (h : ListsOK avail a ls) : ListsOK avail a ls' :=
  ⟨fun l hl => h.1 l (hp.mem_iff.mp hl),
   (List.Perm.pairwise_iff (fun {x y} hxy c hc hcx => hxy c hcx hc) hp).mpr h.2⟩

theorem firstFit_some {need : Int} : ∀ {ls : List (List Nat)} {l : List Nat}, firstFit need ls = some l →
    l ∈ ls ∧ (l.length : Int) ≥ need
  | [], _, h => by simp [firstFit] at h
  | x :: xs, l, h => by
    simp only [firstFit] at h
    split at h
    · cases h; exact ⟨by simp, by assumption⟩
    · have := firstFit_some h; exact ⟨by simp [this.1], this.2⟩

theorem firstFit2_some {need : Int} {gen : Bool → List (List Nat)} {l : List Nat}
    (h : firstFit2 need gen = some l) : (l ∈ gen true ∨ l ∈ gen false) ∧ (l.length : Int) ≥ need := by
  unfold firstFit2 at h
  split at h
  · rename_i l' h1; cases h; have := firstFit_some h1; exact ⟨Or.inl this.1, this.2⟩
  · have := firstFit_some h; exact ⟨Or.inr this.1, this.2⟩

/-- the contract of a returned CPU list. -/
def Exact (avail : List Nat) (n : Int) (S : List Nat) : Prop :=
  (S.length : Int) = n ∧ S.Nodup ∧ ∀ c ∈ S, c ∈ avail

/-! ### the phases of `takeCPUs` as separate functions (definitionally the bodies of `takeCPUs`) -/

/-- the FullPCPUs branch (phases 1-4). -/
def phaseFull (ctx : PickCtx) (a : Acc) : Option (List Nat) × Acc :=
  let fit1 := if a.need ≤ ctx.cpn then firstFit2 a.need (fun fe => freeCoresIn ctx a true true fe) else none
  match fit1 with
  | some l => (some ((a.take ctx (l.take a.need.toNat)).result), a)
  | none =>
    let fit2 := if a.need ≤ ctx.cps then firstFit a.need (freeCoresIn ctx a false true false) else none
    match fit2 with
    | some l => (some ((a.take ctx (l.take a.need.toNat)).result), a)
    | none =>
      let lists := isortLt (fun (x y : List Nat) => decide (x.length > y.length))
                      (freeCoresIn ctx a false true false)
      let (done, a3, uns) := takeWhole ctx a lists []
      if done then (some a3.result, a3)
      else if a3.needs ctx.cpc then
        let uns := isortLt (fun (x y : List Nat) => decide (x.length < y.length)) uns
        let (done, a4) := takeCores ctx a3 uns
        if done then (some a4.result, a4) else (none, a4)
      else (none, a3)

/-- the SpreadByPCPUs branch. -/
def phaseSpread (ctx : PickCtx) (a : Acc) : Option (List Nat) :=
  let fit1 := if a.need ≤ ctx.cpn then firstFit2 a.need (fun fe => freeCPUsIn ctx a true fe) else none
  match fit1 with
  | some l => some ((a.take ctx ((spreadCPUs ctx l).take a.need.toNat)).result)
  | none =>
    let fit2 := if a.need ≤ ctx.cps then firstFit2 a.need (fun fe => freeCPUsIn ctx a false fe) else none
    match fit2 with
    | some l => some ((a.take ctx ((spreadCPUs ctx l).take a.need.toNat)).result)
    | none => none

/-- the last phase: one CPU at a time, first avoiding exclusive cores / NUMA nodes, then not. -/
def phaseSingles (ctx : PickCtx) (a : Acc) : Option (List Nat) :=
  let (done, a5) := takeSingles ctx a (spreadCPUs ctx (freeCPUsAll ctx a true))
  if done then some a5.result
  else
    let (done, a6) := takeSingles ctx a5 (spreadCPUs ctx (freeCPUsAll ctx a5 false))
    if done then some a6.result else none

theorem takeCPUs_eq (ctx : PickCtx) (full : Bool) (avail : List Nat) (allocated : List CpuI) (need : Int) :
    takeCPUs ctx full avail allocated need =
      (let a := newAcc ctx avail allocated need
       if a.isSatisfied then some a.result
       else if a.isFailed then none
       else
        let r1 : Option (List Nat) × Acc := if full || ctx.cpc == 1 then phaseFull ctx a else (none, a)
        match r1 with
        | (some res, _) => some res
        | (none, a) =>
          let r2 : Option (List Nat) := if !full then phaseSpread ctx a else none
          match r2 with
          | some res => some res
          | none => phaseSingles ctx a) := by
  unfold takeCPUs phaseFull phaseSpread phaseSingles
  simp only []
  rfl

/-- invariant carried through the phases. -/
def GoodA (avail : List Nat) (n : Int) (a : Acc) : Prop := Good avail n a ∧ AllocOK avail a

theorem prefix_exact (ctx : PickCtx) {avail : List Nat} {n : Int} {a : Acc} (h : GoodA avail n a)
    {l : List Nat} (hl : FromInfos a.alloc l) (hfit : (l.length : Int) ≥ a.need) :
    Exact avail n (a.take ctx (l.take a.need.toNat)).result :=
  take_prefix_exact ctx h.1 l (listOK_of_from h.2 hl) hfit

theorem prefix_spread_exact (ctx : PickCtx) {avail : List Nat} {n : Int} {a : Acc} (h : GoodA avail n a)
    {l : List Nat} (hl : FromInfos a.alloc l) (hfit : (l.length : Int) ≥ a.need) :
    Exact avail n (a.take ctx ((spreadCPUs ctx l).take a.need.toNat)).result :=
  take_prefix_exact ctx h.1 _ (listOK_perm (spreadCPUs_perm ctx l) (listOK_of_from h.2 hl))
    (by rw [(spreadCPUs_perm ctx l).length_eq]; exact hfit)

/-- the FullPCPUs branch: a returned list meets the contract; the accumulator handed on keeps the invariant. -/
theorem phaseFull_ok (ctx : PickCtx) {avail : List Nat} {n : Int} {a : Acc} (h : GoodA avail n a) :
    (∀ res, (phaseFull ctx a).1 = some res → Exact avail n res) ∧ GoodA avail n (phaseFull ctx a).2 := by
  unfold phaseFull
  simp only []
  split
  · rename_i l hfit1
    refine ⟨fun res hres => ?_, h⟩
    cases hres
    split at hfit1
    · have := firstFit2_some hfit1
      rcases this.1 with hm | hm
      · exact prefix_exact ctx h ((freeCoresIn_ok ctx a h.2.nodup true true true).1 l hm) this.2
      · exact prefix_exact ctx h ((freeCoresIn_ok ctx a h.2.nodup true true false).1 l hm) this.2
    · cases hfit1
  · split
    · rename_i l hfit2
      refine ⟨fun res hres => ?_, h⟩
      cases hres
      split at hfit2
      · have := firstFit_some hfit2
        exact prefix_exact ctx h ((freeCoresIn_ok ctx a h.2.nodup false true false).1 l this.1) this.2
      · cases hfit2
    · have hlists : ListsOK avail a (isortLt (fun (x y : List Nat) => decide (x.length > y.length))
          (freeCoresIn ctx a false true false)) :=
        listsOK_perm (isortLt_perm _ _) (listsOK_of_from h.2 (freeCoresIn_ok ctx a h.2.nodup false true false))
      have hw := takeWhole_good ctx _ a [] h.1 (by simpa using hlists)
      have hwa := takeWhole_allocOK ctx (isortLt (fun (x y : List Nat) => decide (x.length > y.length))
          (freeCoresIn ctx a false true false)) a [] h.2
      generalize takeWhole ctx a (isortLt (fun (x y : List Nat) => decide (x.length > y.length))
          (freeCoresIn ctx a false true false)) [] = r at hw hwa
      obtain ⟨done, a3, uns⟩ := r
      simp only [] at hw hwa ⊢
      split
      · rename_i hd
        refine ⟨fun res hres => ?_, hw.1, hwa⟩
        cases hres
        exact good_done hw.1 (hw.2.1 hd)
      · split
        · have huns : ListsOK avail a3 (isortLt (fun (x y : List Nat) => decide (x.length < y.length)) uns) :=
            listsOK_perm (isortLt_perm _ _) hw.2.2
          have hc := takeCores_good ctx _ a3 hw.1 huns
          have hca := takeCores_allocOK ctx (isortLt (fun (x y : List Nat) => decide (x.length < y.length)) uns) a3 hwa
          generalize takeCores ctx a3 (isortLt (fun (x y : List Nat) => decide (x.length < y.length)) uns) = r4 at hc hca
          obtain ⟨done4, a4⟩ := r4
          simp only [] at hc hca ⊢
          split
          · rename_i hd
            refine ⟨fun res hres => ?_, hc.1, hca⟩
            cases hres
            exact good_done hc.1 (hc.2 hd)
          · exact ⟨fun res hres => (by cases hres), hc.1, hca⟩
        · exact ⟨fun res hres => (by cases hres), hw.1, hwa⟩

/-- the SpreadByPCPUs branch. -/
theorem phaseSpread_ok (ctx : PickCtx) {avail : List Nat} {n : Int} {a : Acc} (h : GoodA avail n a) :
    ∀ res, phaseSpread ctx a = some res → Exact avail n res := by
  intro res hres
  unfold phaseSpread at hres
  simp only [] at hres
  split at hres
  · rename_i l hfit1
    cases hres
    split at hfit1
    · have := firstFit2_some hfit1
      rcases this.1 with hm | hm
      · exact prefix_spread_exact ctx h (freeCPUsIn_ok ctx a h.2.nodup true true l hm) this.2
      · exact prefix_spread_exact ctx h (freeCPUsIn_ok ctx a h.2.nodup true false l hm) this.2
    · cases hfit1
  · split at hres
    · rename_i l hfit2
      cases hres
      split at hfit2
      · have := firstFit2_some hfit2
        rcases this.1 with hm | hm
        · exact prefix_spread_exact ctx h (freeCPUsIn_ok ctx a h.2.nodup false true l hm) this.2
        · exact prefix_spread_exact ctx h (freeCPUsIn_ok ctx a h.2.nodup false false l hm) this.2
      · cases hfit2
    · cases hres

/-- the one-by-one phase. -/
theorem phaseSingles_ok (ctx : PickCtx) {avail : List Nat} {n : Int} {a : Acc} (h : GoodA avail n a) :
    ∀ res, phaseSingles ctx a = some res → Exact avail n res := by
  intro res hres
  unfold phaseSingles at hres
  have hl5 : ListOK avail a (spreadCPUs ctx (freeCPUsAll ctx a true)) :=
    listOK_perm (spreadCPUs_perm ctx _) (listOK_of_from h.2 (freeCPUsAll_ok ctx a h.2.nodup true))
  have h5 := takeSingles_good ctx _ a h.1 hl5
  have h5a := takeSingles_allocOK ctx (spreadCPUs ctx (freeCPUsAll ctx a true)) a h.2
  generalize takeSingles ctx a (spreadCPUs ctx (freeCPUsAll ctx a true)) = r5 at hres h5 h5a
  obtain ⟨done5, a5⟩ := r5
  simp only [] at hres h5 h5a
  split at hres
  · rename_i hd
    cases hres
    exact good_done h5.1 (h5.2 hd)
  · have hl6 : ListOK avail a5 (spreadCPUs ctx (freeCPUsAll ctx a5 false)) :=
      listOK_perm (spreadCPUs_perm ctx _) (listOK_of_from h5a (freeCPUsAll_ok ctx a5 h5a.nodup false))
    have h6 := takeSingles_good ctx _ a5 h5.1 hl6
    generalize takeSingles ctx a5 (spreadCPUs ctx (freeCPUsAll ctx a5 false)) = r6 at hres h6
    obtain ⟨done6, a6⟩ := r6
    simp only [] at hres h6
    split at hres
    · rename_i hd
      cases hres
      exact good_done h6.1 (h6.2 hd)
    · cases hres

/-- the topology lists every CPU id once (`CPUDetails` is a map keyed by the CPU id). -/
def TopoNodup (ctx : PickCtx) : Prop := (ctx.topo.map (·.cpu)).Nodup

theorem newAcc_result (ctx : PickCtx) (avail : List Nat) (allocated : List CpuI) (need : Int) :
    (newAcc ctx avail allocated need).result = [] ∧ (newAcc ctx avail allocated need).need = need := by
  simp [newAcc]

theorem newAcc_goodA (ctx : PickCtx) (htopo : TopoNodup ctx) (avail : List Nat) (allocated : List CpuI) (need : Int)
    (hn : 0 ≤ need) : GoodA avail need (newAcc ctx avail allocated need) := by
  obtain ⟨hr, hneed⟩ := newAcc_result ctx avail allocated need
  refine ⟨⟨by simp [hr], by simp [hr], by simp [hr, hneed], by omega⟩, ?_⟩
  have hbase : ((ctx.topo.filter (fun i => avail.contains i.cpu)).map (·.cpu)).Nodup :=
    (List.filter_sublist.map _).nodup htopo
  refine ⟨?_, ?_⟩
  · simp only [newAcc]
    split
    · simpa [List.map_map, Function.comp_def] using hbase
    · exact hbase
  · intro i hi
    rw [hr]
    refine ⟨?_, by simp⟩
    simp only [newAcc] at hi
    split at hi
    · obtain ⟨j, hj, rfl⟩ := List.mem_map.mp hi
      simpa using (List.mem_filter.mp hj).2
    · simpa using (List.mem_filter.mp hi).2

/-- **take_exact**: a successful `takeCPUs` returns distinct CPUs, all from the set it was given, and exactly
    the requested number — for EVERY topology with distinct CPU ids, free set, allocated-CPU table, bind policy,
    exclusive policy, sharing limit, NUMA strategy and request. -/
theorem takeCPUs_exact (ctx : PickCtx) (htopo : TopoNodup ctx) (full : Bool) (avail : List Nat)
    (allocated : List CpuI) (n : Int) (S : List Nat) (h : takeCPUs ctx full avail allocated n = some S) :
    S.Nodup ∧ (∀ c ∈ S, c ∈ avail) ∧ (0 ≤ n → (S.length : Int) = n) := by
  rw [takeCPUs_eq] at h
  simp only [] at h
  by_cases hn : 0 ≤ n
  · suffices hE : Exact avail n S from ⟨hE.2.1, hE.2.2, fun _ => hE.1⟩
    have hA := newAcc_goodA ctx htopo avail allocated n hn
    generalize newAcc ctx avail allocated n = a at h hA
    split at h
    · rename_i hs; cases h; exact good_done hA.1 hs
    · split at h
      · cases h
      · have hr1 : (∀ res, (if (full || ctx.cpc == 1) = true then phaseFull ctx a else (none, a)).1 = some res →
              Exact avail n res) ∧
            GoodA avail n (if (full || ctx.cpc == 1) = true then phaseFull ctx a else (none, a)).2 := by
          split
          · exact phaseFull_ok ctx hA
          · exact ⟨fun res hres => (by cases hres), hA⟩
        generalize (if (full || ctx.cpc == 1) = true then phaseFull ctx a else (none, a)) = r1 at h hr1
        obtain ⟨o, a'⟩ := r1
        cases o with
        | some res => simp only [] at h; cases h; exact hr1.1 _ rfl
        | none =>
          simp only [] at h
          have hA' : GoodA avail n a' := hr1.2
          split at h
          · rename_i res hres
            cases h
            split at hres
            · exact phaseSpread_ok ctx hA' _ hres
            · cases hres
          · exact phaseSingles_ok ctx hA' _ h
  · have hs : (newAcc ctx avail allocated n).isSatisfied = true := by
      simp only [Acc.isSatisfied, (newAcc_result ctx avail allocated n).2, decide_eq_true_eq]; omega
    rw [if_pos hs] at h
    cases h
    rw [(newAcc_result ctx avail allocated n).1]
    exact ⟨List.nodup_nil, by simp, fun h0 => absurd h0 hn⟩

theorem not_contains_mem {l : List Nat} {c : Nat} (h : (!l.contains c) = true) : c ∉ l := by simpa using h

/-- **preferred_exact**: the same contract for `takePreferredCPUs`, with any set of preferred (restored) CPUs. -/
theorem takePreferredCPUs_exact (ctx : PickCtx) (htopo : TopoNodup ctx) (full : Bool) (avail preferred : List Nat)
    (allocated : List CpuI) (n : Int) (S : List Nat)
    (h : takePreferredCPUs ctx full avail preferred allocated n = some S) :
    S.Nodup ∧ (∀ c ∈ S, c ∈ avail) ∧ (0 ≤ n → (S.length : Int) = n) := by
  unfold takePreferredCPUs at h
  simp only [] at h
  split at h
  · cases h
  · rename_i res need' avail' hstep
    -- what step 1 established
    have h1 : res.Nodup ∧ (∀ c ∈ res, c ∈ avail ∧ c ∈ preferred) ∧
        (∀ c ∈ avail', c ∈ avail ∧ (c ∈ preferred → res = [])) ∧ (∀ c ∈ avail', c ∉ res) ∧
        need' = n - res.length ∧ (0 ≤ n → (res.length : Int) ≤ n) := by
      split at hstep
      · split at hstep
        · cases hstep
        · rename_i r hr
          simp only [Option.some.injEq, Prod.mk.injEq] at hstep
          obtain ⟨e1, e2, e3⟩ := hstep
          subst e1 e2 e3
          have ht := takeCPUs_exact ctx htopo full _ allocated _ r hr
          have hsub : ∀ c ∈ r, c ∈ avail ∧ c ∈ preferred := fun c hc => by
            have := ht.2.1 c hc
            simpa using List.mem_filter.mp this
          refine ⟨ht.1, hsub, fun c hc => ?_, fun c hc hcr => ?_, rfl, fun h0 => ?_⟩
          · have := List.mem_filter.mp hc
            refine ⟨this.1, fun hp => ?_⟩
            have hcp : c ∈ avail.filter (fun c => preferred.contains c) := List.mem_filter.mpr ⟨this.1, by simpa using hp⟩
            exact absurd hcp (not_contains_mem this.2)
          · exact absurd (ht.2.1 c hcr) (not_contains_mem (List.mem_filter.mp hc).2)
          · have := ht.2.2
            split at this
            · have := this (by omega); omega
            · have := this h0; omega
      · cases hstep
        exact ⟨List.nodup_nil, by simp, fun c hc => ⟨hc, fun _ => rfl⟩, by simp, by simp, fun h0 => by simpa using h0⟩
    obtain ⟨hnd, hsub, hav, hdis, hneed, hle⟩ := h1
    split at h
    · split at h
      · cases h
      · rename_i cpus hc
        cases h
        have ht := takeCPUs_exact ctx htopo full _ allocated _ cpus hc
        have hfil : cpus.filter (fun c => !res.contains c) = cpus := by
          apply List.filter_eq_self.mpr
          intro c hcm
          have := hdis c (ht.2.1 c hcm)
          simpa using this
        rw [hfil]
        refine ⟨?_, ?_, fun h0 => ?_⟩
        · rw [List.nodup_append]
          exact ⟨hnd, ht.1, fun x hx y hy hxy => hdis y (ht.2.1 y hy) (hxy ▸ hx)⟩
        · intro c hcm
          rcases List.mem_append.mp hcm with h1 | h1
          · exact (hsub c h1).1
          · exact (hav c (ht.2.1 c h1)).1
        · have := ht.2.2 (by omega)
          rw [List.length_append]; push_cast; omega
    · cases h
      rename_i hnpos
      refine ⟨hnd, fun c hc => (hsub c hc).1, fun h0 => ?_⟩
      have := hle h0
      omega

end KoordVerif.C06
