import KoordVerif.Model.C17
/-
C17 helper lemmas: what every primitive / stage of the reconcile model leaves untouched.
  Keep  m m' : evictor log, start snapshot and fault mask unchanged; the "eviction already recorded"
               invariant J is preserved                                   (every result of a stage)
  Frame m m' : Keep + environment unchanged + ReservationRef flag unchanged (results that fall through)
-/
namespace KoordVerif.C17

/-! ### conditions -/

theorem getCond_setCond_ne (cs : List Cond) (c : Cond) (ty : Nat) (h : c.ty ≠ ty) :
    getCond (setCond cs c).1 ty = getCond cs ty := by
  induction cs with
  | nil => simp [setCond, getCond, h]
  | cons o rest ih =>
    simp only [setCond]
    split
    · rename_i heq
      have : o.ty ≠ ty := by rw [heq]; exact h
      simp [getCond, h, this]
    · simp only [getCond]
      split
      · rfl
      · exact ih

theorem getCond_setCond_same (cs : List Cond) (c : Cond) :
    getCond (setCond cs c).1 c.ty = some c := by
  induction cs with
  | nil => simp [setCond, getCond]
  | cons o rest ih =>
    simp only [setCond]
    split
    · simp [getCond]
    · rename_i hne
      simp only [getCond]
      rw [if_neg hne]
      exact ih

/-- `UpdateCondition` reports "changed" unless an identical condition was already there -/
theorem setCond_upd (cs : List Cond) (c : Cond) :
    (setCond cs c).2 = true ∨ getCond cs c.ty = some c := by
  induction cs with
  | nil => simp [setCond]
  | cons o rest ih =>
    simp only [setCond]
    split
    · rename_i heq
      by_cases hsame : (o.st == c.st && o.reason == c.reason && o.msg == c.msg) = true
      · right
        simp only [Bool.and_eq_true, beq_iff_eq] at hsame
        have : o = c := by
          cases o; cases c; simp_all
        simp [getCond, this]
      · left; simp [hsame]
    · rename_i hne
      simp only [getCond]
      rw [if_neg hne]
      exact ih

/-- an eviction condition that blocks a further `Evict`: True, or reason Evicting -/
def WFp (cs : List Cond) : Prop :=
  ∃ c, getCond cs CT.eviction = some c ∧ (c.st = true ∨ c.reason = Rs.evicting)

def CondOK (c : Cond) : Prop := c.ty ≠ CT.eviction ∨ (c.st = true ∨ c.reason = Rs.evicting)

theorem WFp_setCond {cs : List Cond} {c : Cond} (h : WFp cs) (hc : CondOK c) : WFp (setCond cs c).1 := by
  rcases hc with hne | hwf
  · obtain ⟨o, ho, hw⟩ := h
    exact ⟨o, by rw [getCond_setCond_ne cs c _ hne]; exact ho, hw⟩
  · by_cases hty : c.ty = CT.eviction
    · refine ⟨c, ?_, hwf⟩
      have := getCond_setCond_same cs c
      rw [hty] at this; exact this
    · obtain ⟨o, ho, hw⟩ := h
      exact ⟨o, by rw [getCond_setCond_ne cs c _ hty]; exact ho, hw⟩

/-! ### invariants carried through a reconcile -/

def J (m : M) : Prop := WFp m.mem.status.conds ∧ WFp m.api.status.conds

def RR (m : M) (b : Bool) : Prop := m.mem.spec.resvRef = b ∧ m.api.spec.resvRef = b
def DD (m : M) (b : Bool) : Prop := m.mem.spec.direct = b ∧ m.api.spec.direct = b

structure Keep (m m' : M) : Prop where
  evicts : m'.evicts = m.evicts
  job0 : m'.job0 = m.job0
  faults : m'.faults = m.faults
  j : J m → J m'
  dd : ∀ b, DD m b → DD m' b

structure Frame (m m' : M) : Prop extends Keep m m' where
  env : m'.env = m.env
  rr : ∀ b, RR m b → RR m' b

theorem Keep.refl (m : M) : Keep m m := ⟨rfl, rfl, rfl, id, fun _ h => h⟩
theorem Frame.refl (m : M) : Frame m m := ⟨Keep.refl m, rfl, fun _ h => h⟩

theorem Keep.trans {a b c : M} (h1 : Keep a b) (h2 : Keep b c) : Keep a c :=
  ⟨h2.evicts.trans h1.evicts, h2.job0.trans h1.job0, h2.faults.trans h1.faults, fun h => h2.j (h1.j h), fun b h => h2.dd b (h1.dd b h)⟩

theorem Frame.trans {a b c : M} (h1 : Frame a b) (h2 : Frame b c) : Frame a c :=
  ⟨h1.toKeep.trans h2.toKeep, h2.env.trans h1.env, fun b h => h2.rr b (h1.rr b h)⟩

/-- a stage result: stops with Keep, or falls through with Frame -/
def Res.Spec (m : M) (r : Res) : Prop :=
  match r with
  | .stop m' => Keep m m'
  | .cont m' => Frame m m'

theorem Res.Spec.keep {m : M} {r : Res} (h : r.Spec m) : Keep m r.m := by
  cases r with
  | stop m' => exact h
  | cont m' => exact h.toKeep

theorem Res.Spec.bind {m : M} {r : Res} {f : M → Res} (h : r.Spec m) (hf : ∀ m', Frame m m' → (f m').Spec m') :
    (r.bind f).Spec m := by
  cases r with
  | stop m' => exact h
  | cont m' =>
    have h' : Frame m m' := h
    have := hf m' h'
    simp only [Res.bind]
    cases hr : f m' with
    | stop m'' => rw [hr] at this; exact h'.toKeep.trans this
    | cont m'' => rw [hr] at this; exact h'.trans this

/-! ### primitives -/

theorem frame_setStatus_noconds (m : M) (f : Status → Status) (hf : ∀ s, (f s).conds = s.conds) :
    Frame m (m.setStatus f) :=
  ⟨⟨rfl, rfl, rfl, fun h => ⟨by simp only [M.setStatus, hf]; exact h.1, h.2⟩, fun _ h => h⟩, rfl, fun _ h => h⟩

theorem frame_setConds (m : M) (c : Cond) (hc : CondOK c) :
    Frame m (m.setStatus fun s => { s with conds := (setCond m.mem.status.conds c).1 }) :=
  ⟨⟨rfl, rfl, rfl, fun h => ⟨WFp_setCond h.1 hc, h.2⟩, fun _ h => h⟩, rfl, fun _ h => h⟩

theorem frame_logw (m : M) (k : ActK) (a : Nat) : Frame m (m.logw k a) :=
  ⟨⟨rfl, rfl, rfl, id, fun _ h => h⟩, rfl, fun _ h => h⟩

theorem frame_statusUpdate (m : M) : Frame m m.statusUpdate.2 := by
  unfold M.statusUpdate
  split
  · exact ⟨⟨rfl, rfl, rfl, fun h => ⟨h.1, h.1⟩, fun b h => ⟨h.2, h.2⟩⟩, rfl, fun b h => ⟨h.2, h.2⟩⟩
  · exact frame_logw _ _ _

theorem frame_jobUpdate (m : M) : Frame m m.jobUpdate.2 := by
  unfold M.jobUpdate
  split
  · exact ⟨⟨rfl, rfl, rfl, fun h => ⟨h.2, h.2⟩, fun b h => ⟨h.1, h.1⟩⟩, rfl, fun b h => ⟨h.1, h.1⟩⟩
  · exact frame_logw _ _ _

theorem frame_updateCondition (m : M) (c : Cond) (hc : CondOK c) : Frame m (updateCondition m c).2 := by
  unfold updateCondition
  split
  · exact ((frame_setConds m c hc).trans
      (frame_setStatus_noconds _ (fun s => { s with status := c.ty, reason := c.reason }) (fun _ => rfl))).trans (frame_statusUpdate _)
  · exact frame_setConds m c hc

theorem frame_abortWith (m : M) (reason : Nat) : Frame m (abortWith m reason) := by
  unfold abortWith
  exact (frame_setStatus_noconds m (fun s => { s with phase := Ph.failed, reason := reason }) (fun _ => rfl)).trans (frame_statusUpdate _)

theorem spec_okOr {m : M} (r : Bool × M) (h : Frame m r.2) : (okOr r).Spec m := by
  unfold okOr
  split
  · exact h
  · exact h.toKeep

end KoordVerif.C17

namespace KoordVerif.C17

/-! ### stages -/

theorem ok1 : CondOK ⟨CT.resvCreated, b, r, g⟩ := Or.inl (by show CT.resvCreated ≠ CT.eviction; decide)
theorem ok2 : CondOK ⟨CT.resvScheduled, b, r, g⟩ := Or.inl (by show CT.resvScheduled ≠ CT.eviction; decide)
theorem ok5 : CondOK ⟨CT.podScheduled, b, r, g⟩ := Or.inl (by show CT.podScheduled ≠ CT.eviction; decide)
theorem ok6 : CondOK ⟨CT.podBound, b, r, g⟩ := Or.inl (by show CT.podBound ≠ CT.eviction; decide)
theorem ok7 : CondOK ⟨CT.boundPodReady, b, r, g⟩ := Or.inl (by show CT.boundPodReady ≠ CT.eviction; decide)
theorem ok8 : CondOK ⟨CT.resvBound, b, r, g⟩ := Or.inl (by show CT.resvBound ≠ CT.eviction; decide)
theorem ok4t : CondOK ⟨CT.eviction, true, r, g⟩ := Or.inr (Or.inl rfl)
theorem ok4e : CondOK ⟨CT.eviction, b, Rs.evicting, g⟩ := Or.inr (Or.inr rfl)

theorem keep_deleteReservation (m : M) : Keep m (deleteReservation m).2 := by
  unfold deleteReservation
  split
  · exact Keep.refl m
  · split
    · exact Keep.refl m
    · split
      · exact ⟨rfl, rfl, rfl, id, fun _ h => h⟩
      · exact ⟨rfl, rfl, rfl, id, fun _ h => h⟩

theorem spec_abortIfTimeout (m : M) : (abortIfTimeout m).Spec m := by
  unfold abortIfTimeout
  split
  · exact Frame.refl m
  · split
    · exact Frame.refl m
    · split
      · exact keep_deleteReservation m
      · exact (keep_deleteReservation m).trans (frame_abortWith _ _).toKeep

theorem abortIfTimeout_cont {m m' : M} (h : abortIfTimeout m = .cont m') : m' = m := by
  unfold abortIfTimeout at h
  split at h
  · cases h; rfl
  · split at h
    · cases h; rfl
    · split at h <;> cases h

theorem spec_preparePending (m : M) : (preparePending m).Spec m := by
  unfold preparePending
  split
  · exact Frame.refl m
  · split
    · exact (frame_abortWith _ _).toKeep
    · split
      · exact (frame_abortWith _ _).toKeep
      · rename_i p _
        have h1 : Frame m (m.setSpec fun s => { s with podUID := p.uid }) :=
          ⟨⟨rfl, rfl, rfl, id, fun _ h => h⟩, rfl, fun _ h => h⟩
        have h2 := h1.trans (frame_jobUpdate _)
        split
        · rename_i heq; rw [heq] at h2; exact h2.toKeep
        · rename_i heq; rw [heq] at h2
          exact spec_okOr _ ((h2.trans (frame_setStatus_noconds _ (fun s => { s with phase := Ph.running }) (fun _ => rfl))).trans (frame_statusUpdate _))

theorem spec_boundByOther (m : M) (pod : Option Pod) : (boundByOther m pod).Spec m := by
  unfold boundByOther
  split
  · exact Frame.refl m
  · split
    · exact (frame_abortWith _ _).toKeep
    · split
      · split
        · exact (frame_abortWith _ _).toKeep
        · split
          · exact Frame.refl m
          · exact (frame_abortWith _ _).toKeep
      · exact Frame.refl m

theorem boundByOther_cont {m m' : M} {pod : Option Pod} (h : boundByOther m pod = .cont m') : m' = m := by
  unfold boundByOther at h
  split at h
  · cases h; rfl
  · split at h
    · cases h
    · split at h
      · split at h
        · cases h
        · split at h
          · cases h; rfl
          · cases h
      · cases h; rfl

theorem keep_createReservation (m : M) : Keep m (createReservation m) := by
  unfold createReservation
  split
  · exact (frame_abortWith _ _).toKeep
  · split
    · exact (frame_logw m _ _).toKeep.trans (frame_updateCondition _ _ ok1).toKeep
    · split
      · have h1 : Keep (m.logw .resvCreate) ((m.logw .resvCreate).setSpec fun s => { s with resvRef := true }) :=
          ⟨rfl, rfl, rfl, id, fun _ h => h⟩
        exact ((frame_logw m _ _).toKeep.trans h1).trans (frame_jobUpdate _).toKeep
      · refine Keep.trans ?_ (frame_jobUpdate _).toKeep
        exact ⟨rfl, rfl, rfl, id, fun _ h => h⟩

/-- `setReservationOrder` may label the reservation: everything but `env.resv.orderLabel` is kept -/
structure FrameR (m m' : M) : Prop extends Keep m m' where
  rr : ∀ b, RR m b → RR m' b

def Res.SpecR (m : M) (r : Res) : Prop :=
  match r with
  | .stop m' => Keep m m'
  | .cont m' => FrameR m m'

theorem setReservationOrder_spec (m : M) : (setReservationOrder m).SpecR m := by
  unfold setReservationOrder
  split
  · exact Keep.refl m
  · split
    · exact ⟨Keep.refl m, fun _ h => h⟩
    · split
      · exact ⟨⟨rfl, rfl, rfl, id, fun _ h => h⟩, fun _ h => h⟩
      · exact (frame_logw m _ _).toKeep

theorem spec_syncScheduleFailed (m : M) (r : Resv) : (syncScheduleFailed m r).Spec m := by
  unfold syncScheduleFailed
  split
  · split
    · exact spec_okOr _ (frame_updateCondition _ _ ok2)
    · exact Frame.refl m
  · exact Frame.refl m

theorem spec_preemptGate (m : M) (r : Resv) : (preemptGate m r).Spec m := by
  unfold preemptGate
  split
  · exact Frame.refl m
  · split
    · exact (frame_abortWith _ _).toKeep
    · split
      · exact ⟨⟨rfl, rfl, rfl, id, fun _ h => h⟩, rfl, fun _ h => h⟩
      · exact (⟨rfl, rfl, rfl, id, fun _ h => h⟩ : Keep m (m.logAct _))

theorem spec_prepareScheduleSuccess (m : M) (r : Resv) : (prepareScheduleSuccess m r).Spec m := by
  unfold prepareScheduleSuccess
  split
  · exact Frame.refl m
  · split
    · exact Frame.refl m
    · split
      · exact (frame_abortWith _ _).toKeep
      · exact spec_okOr _ ((frame_setStatus_noconds m (fun s => { s with node := r.node }) (fun _ => rfl)).trans
          (frame_updateCondition _ _ ok2))

theorem keep_waitPendingPod (m : M) : Keep m (waitPendingPod m) := by
  unfold waitPendingPod
  split
  · exact (frame_abortWith _ _).toKeep
  · rename_i p _
    split
    · have hb := spec_boundByOther m (some p)
      split
      · rename_i heq; rw [heq] at hb; exact hb
      · rename_i heq; rw [heq] at hb
        exact (Frame.toKeep hb).trans (frame_updateCondition _ _ ok5).toKeep
    · have h1 := frame_setStatus_noconds m (fun s => { s with phase := Ph.succeeded, status := CT.complete, reason := Rs.none }) (fun _ => rfl)
      have h2 := h1.trans (frame_setConds _ ⟨CT.podScheduled, true, Rs.none, 0⟩ ok5)
      unfold podScheduledDone
      split
      · exact (h2.trans (frame_statusUpdate _)).toKeep
      · exact h2.toKeep

theorem spec_waitBind (m : M) (r : Resv) : (waitBind m r).Spec m := by
  unfold waitBind
  split
  · exact Frame.refl m
  · split
    · exact (frame_updateCondition _ _ ok6).toKeep
    · exact Frame.refl m

theorem spec_boundSuccess (m : M) : (boundSuccess m).Spec m := by
  unfold boundSuccess
  have h1 := frame_setConds m ⟨CT.resvBound, true, Rs.none, 0⟩ ok8
  split
  · exact spec_okOr _ ((h1.trans (frame_setStatus_noconds _ (fun s => { s with podRef := true }) (fun _ => rfl))).trans (frame_statusUpdate _))
  · exact h1

theorem spec_waitReady (m : M) : (waitReady m).Spec m := by
  unfold waitReady
  split
  · exact Frame.refl m
  · split
    · exact (frame_updateCondition _ _ ok7).toKeep
    · exact Frame.refl m

theorem spec_finish (m : M) : (finish m).Spec m := by
  unfold finish
  refine Res.Spec.bind (spec_okOr _ (frame_updateCondition _ _ ok7)) ?_
  intro m' _
  have h1 := frame_setStatus_noconds m' (fun s => { s with podRef := true, phase := Ph.succeeded, status := CT.complete, reason := Rs.none }) (fun _ => rfl)
  have h2 := h1.trans (frame_setConds _ ⟨CT.podBound, true, Rs.none, 0⟩ ok6)
  exact (h2.trans (frame_statusUpdate _)).toKeep

end KoordVerif.C17
