import KoordVerif.Model.C17
/-
C17 helper lemmas: what every primitive / stage of the reconcile model leaves untouched.
  Keep  m m' : evictor log, start snapshot and fault mask unchanged; the "eviction already recorded"
               invariant J is preserved                                   (every result of a stage)
  Frame m m' : Keep + environment unchanged + ReservationRef flag unchanged (results that fall through)
-/
namespace KoordVerif.C17

/-! ### conditions -/

theorem getCond_setCond_ne (cs : List Cond) (c : Cond) (ty : Nat) (h : c.ty ≠ ty) :
    getCond (setCond cs c).1 ty = getCond cs ty := by
  induction cs with
  | nil => simp [setCond, getCond, h]
  | cons o rest ih =>
    simp only [setCond]
    split
    · rename_i heq
      have : o.ty ≠ ty := by rw [heq]; exact h
      simp [getCond, h, this]
    · simp only [getCond]
      split
      · rfl
      · exact ih

theorem getCond_setCond_same (cs : List Cond) (c : Cond) :
    getCond (setCond cs c).1 c.ty = some c := by
  induction cs with
  | nil => simp [setCond, getCond]
  | cons o rest ih =>
    simp only [setCond]
    split
    · simp [getCond]
    · rename_i hne
      simp only [getCond]
      rw [if_neg hne]
      exact ih

/-- `UpdateCondition` reports "changed" unless an identical condition was already there -/
theorem setCond_upd (cs : List Cond) (c : Cond) :
    (setCond cs c).2 = true ∨ getCond cs c.ty = some c := by
  induction cs with
  | nil => simp [setCond]
  | cons o rest ih =>
    simp only [setCond]
    split
    · rename_i heq
      by_cases hsame : (o.st == c.st && o.reason == c.reason && o.msg == c.msg) = true
      · right
        simp only [Bool.and_eq_true, beq_iff_eq] at hsame
        have : o = c := by
          cases o; cases c; simp_all
        simp [getCond, this]
      · left; simp [hsame]
    · rename_i hne
      simp only [getCond]
      rw [if_neg hne]
      exact ih

/-- an eviction condition that blocks a further `Evict`: True, or reason Evicting -/
def WFp (cs : List Cond) : Prop :=
  ∃ c, getCond cs CT.eviction = some c ∧ (c.st = true ∨ c.reason = Rs.evicting)

def CondOK (c : Cond) : Prop := c.ty ≠ CT.eviction ∨ (c.st = true ∨ c.reason = Rs.evicting)

theorem WFp_setCond {cs : List Cond} {c : Cond} (h : WFp cs) (hc : CondOK c) : WFp (setCond cs c).1 := by
  rcases hc with hne | hwf
  · obtain ⟨o, ho, hw⟩ := h
    exact ⟨o, by rw [getCond_setCond_ne cs c _ hne]; exact ho, hw⟩
  · by_cases hty : c.ty = CT.eviction
    · refine ⟨c, ?_, hwf⟩
      have := getCond_setCond_same cs c
      rw [hty] at this; exact this
    · obtain ⟨o, ho, hw⟩ := h
      exact ⟨o, by rw [getCond_setCond_ne cs c _ hty]; exact ho, hw⟩

/-! ### invariants carried through a reconcile -/

def J (m : M) : Prop := WFp m.mem.status.conds ∧ WFp m.api.status.conds

def RR (m : M) (b : Bool) : Prop := m.mem.spec.resvRef = b ∧ m.api.spec.resvRef = b
def DD (m : M) (b : Bool) : Prop := m.mem.spec.direct = b ∧ m.api.spec.direct = b

structure Keep (m m' : M) : Prop where
  evicts : m'.evicts = m.evicts
  job0 : m'.job0 = m.job0
  faults : m'.faults = m.faults
  j : J m → J m'

structure Frame (m m' : M) : Prop extends Keep m m' where
  env : m'.env = m.env
  rr : ∀ b, RR m b → RR m' b
  dd : ∀ b, DD m b → DD m' b

theorem Keep.refl (m : M) : Keep m m := ⟨rfl, rfl, rfl, id⟩
theorem Frame.refl (m : M) : Frame m m := ⟨Keep.refl m, rfl, fun _ h => h, fun _ h => h⟩

theorem Keep.trans {a b c : M} (h1 : Keep a b) (h2 : Keep b c) : Keep a c :=
  ⟨h2.evicts.trans h1.evicts, h2.job0.trans h1.job0, h2.faults.trans h1.faults, fun h => h2.j (h1.j h)⟩

theorem Frame.trans {a b c : M} (h1 : Frame a b) (h2 : Frame b c) : Frame a c :=
  ⟨h1.toKeep.trans h2.toKeep, h2.env.trans h1.env, fun b h => h2.rr b (h1.rr b h), fun b h => h2.dd b (h1.dd b h)⟩

/-- a stage result: stops with Keep, or falls through with Frame -/
def Res.Spec (m : M) (r : Res) : Prop :=
  match r with
  | .stop m' => Keep m m'
  | .cont m' => Frame m m'

theorem Res.Spec.keep {m : M} {r : Res} (h : r.Spec m) : Keep m r.m := by
  cases r with
  | stop m' => exact h
  | cont m' => exact h.toKeep

theorem Res.Spec.bind {m : M} {r : Res} {f : M → Res} (h : r.Spec m) (hf : ∀ m', Frame m m' → (f m').Spec m') :
    (r.bind f).Spec m := by
  cases r with
  | stop m' => exact h
  | cont m' =>
    have h' : Frame m m' := h
    have := hf m' h'
    simp only [Res.bind]
    cases hr : f m' with
    | stop m'' => rw [hr] at this; exact h'.toKeep.trans this
    | cont m'' => rw [hr] at this; exact h'.trans this

/-! ### primitives -/

theorem frame_write (m : M) (k : ActK) (a : Nat) : Frame m (m.write k a).2 :=
  ⟨⟨rfl, rfl, rfl, id⟩, rfl, fun _ h => h, fun _ h => h⟩

theorem frame_setStatus_noconds (m : M) (f : Status → Status) (hf : ∀ s, (f s).conds = s.conds) :
    Frame m (m.setStatus f) :=
  ⟨⟨rfl, rfl, rfl, fun h => ⟨by simp only [M.setStatus, hf]; exact h.1, h.2⟩⟩, rfl, fun _ h => h, fun _ h => h⟩

theorem frame_setConds (m : M) (c : Cond) (hc : CondOK c) :
    Frame m (m.setStatus fun s => { s with conds := (setCond m.mem.status.conds c).1 }) :=
  ⟨⟨rfl, rfl, rfl, fun h => ⟨WFp_setCond h.1 hc, h.2⟩⟩, rfl, fun _ h => h, fun _ h => h⟩

theorem frame_logw (m : M) (k : ActK) (a : Nat) : Frame m (m.logw k a) :=
  ⟨⟨rfl, rfl, rfl, id⟩, rfl, fun _ h => h, fun _ h => h⟩

theorem frame_statusUpdate (m : M) : Frame m m.statusUpdate.2 := by
  unfold M.statusUpdate
  split
  · exact ⟨⟨rfl, rfl, rfl, fun h => ⟨h.1, h.1⟩⟩, rfl, fun b h => ⟨h.2, h.2⟩, fun b h => ⟨h.2, h.2⟩⟩
  · exact frame_logw _ _ _

theorem frame_jobUpdate (m : M) : Frame m m.jobUpdate.2 := by
  unfold M.jobUpdate
  split
  · exact ⟨⟨rfl, rfl, rfl, fun h => ⟨h.2, h.2⟩⟩, rfl, fun b h => ⟨h.1, h.1⟩, fun b h => ⟨h.1, h.1⟩⟩
  · exact frame_logw _ _ _

theorem frame_updateCondition (m : M) (c : Cond) (hc : CondOK c) : Frame m (updateCondition m c).2 := by
  unfold updateCondition
  simp only []
  split
  · exact ((frame_setConds m c hc).trans
      (frame_setStatus_noconds _ (fun s => { s with status := c.ty, reason := c.reason }) (fun _ => rfl))).trans (frame_statusUpdate _)
  · exact frame_setConds m c hc

theorem frame_abortWith (m : M) (reason : Nat) : Frame m (abortWith m reason) := by
  unfold abortWith
  exact (frame_setStatus_noconds m (fun s => { s with phase := Ph.failed, reason := reason }) (fun _ => rfl)).trans (frame_statusUpdate _)

theorem spec_okOr {m : M} (r : Bool × M) (h : Frame m r.2) : (okOr r).Spec m := by
  unfold okOr
  split
  · exact h
  · exact h.toKeep

end KoordVerif.C17
