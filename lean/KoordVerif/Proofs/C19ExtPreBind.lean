import KoordVerif.Model.C19PreBind
/-
C19 extension 5: helper lemmas about the PreBind write side (Model/C19PreBind.lean).
-/
namespace KoordVerif.C19

theorem preBind_eq (c : Option Annot) (a : PodAlloc) : preBind c a = some (persist a) := rfl

/-- the ledger after the failed attempts only -/
def failedLedger (topo : List Nat) (s : St) (failed : List PodAlloc) : St :=
  failed.foldl (fun s a => release topo (update topo s a) a.uid) s

theorem foldl_failed_fst (topo : List Nat) (failed : List PodAlloc) : ∀ (sc : St × Option Annot),
    (failed.foldl (failedAttempt topo) sc).1 = failedLedger topo sc.1 failed := by
  induction failed with
  | nil => intro sc; rfl
  | cons a rest ih =>
    intro sc
    simp only [List.foldl_cons, failedLedger]
    rw [ih]
    rfl

theorem retry_fst (topo : List Nat) (s : St) (c : Option Annot) (failed : List PodAlloc) (last : PodAlloc) :
    (retryHistory topo s c failed last).1 = update topo (failedLedger topo s failed) last := by
  unfold retryHistory boundAttempt
  simp only
  rw [foldl_failed_fst]

theorem retry_snd (topo : List Nat) (s : St) (c : Option Annot) (failed : List PodAlloc) (last : PodAlloc) :
    (retryHistory topo s c failed last).2 = some (persist last) := rfl

theorem erasePod_of_findPod_none {uid : Nat} : ∀ {ps : List PodAlloc}, findPod uid ps = none → erasePod uid ps = ps
  | [], _ => rfl
  | p :: ps, h => by
    unfold findPod at h
    unfold erasePod
    by_cases hp : p.uid = uid
    · simp [hp] at h
    · simp only [hp, if_false] at h ⊢
      rw [erasePod_of_findPod_none h]

namespace DevPB

theorem preBind_allocated {π : Type} (gate : Bool) (adapt : List GAlloc → Option π) (c : Obj π) (al : List GAlloc) :
    (preBind gate adapt c al).1.allocated = some al := by
  unfold preBind
  cases gate
  · rfl
  · simp only [Bool.not_true]
    cases adapt al <;> rfl

end DevPB

end KoordVerif.C19
