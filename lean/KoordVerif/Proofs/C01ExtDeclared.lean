import KoordVerif.Proofs.C01ExtScale
/-
C01: "declared min".  `Quota.min` / `Quota.lend` of a group are exactly what the LAST UpdateQuota for that group carried:
UpdateQuota(sp) leaves group sp.name with min = sp.min, lend = sp.lend (every branch: create, min/max update,
re-parent, flag change with rebuild) and does not touch these fields of any other group; DeleteQuota(n) does not
touch them for any other group; no pod operation and no rebuild touches them at all.  So the floor of
`request_floor_ignores_scaled_min` is the min of the last applied quota object.
-/
namespace KoordVerif.C01

theorem statN_req : ∀ q q', SameButReq q q' → statN q' = statN q :=
  fun q q' h => by simp [statN, h.name, h.parent, h.lend, h.min, h.max]

theorem statN_used : ∀ q q', SameButUsed q q' → statN q' = statN q :=
  fun q q' h => by simp [statN, h.name, h.parent, h.lend, h.min, h.max]

theorem deltaReq_statN (s : State) (n : Nat) (d dnp : Int) (self : Bool) :
    (deltaReq s n d dnp self).map statN = s.map statN :=
  propReqW_map statN statN_req clamp0 _ s self d dnp

theorem deltaUsed_statN (s : State) (n : Nat) (d dnp : Int) (self : Bool) :
    (deltaUsed s n d dnp self).map statN = s.map statN :=
  propUsedW_map statN statN_used clamp0 _ s self d dnp

theorem setPods_statN {s : State} {n : Nat} {q : Quota} (hq : get? s n = some q) (ps : List Pod) :
    (set s { q with pods := ps }).map statN = s.map statN :=
  set_map statN (q := q) (q' := { q with pods := ps }) (by rw [show ({ q with pods := ps } : Quota).name = q.name from rfl, get?_name hq]; exact hq) rfl

theorem cacheAdd_statN (s : State) (n : Nat) (o : PodObj) : (cacheAdd s n o).map statN = s.map statN := by
  unfold cacheAdd
  split
  · rfl
  · next q hq =>
    split
    · rfl
    · exact setPods_statN hq _

theorem cacheRemove_statN (s : State) (n id : Nat) : (cacheRemove s n id).map statN = s.map statN := by
  unfold cacheRemove
  split
  · rfl
  · next q hq => exact setPods_statN hq _

theorem setAssigned_statN (s : State) (n id : Nat) (f : Bool) : (setAssigned s n id f).map statN = s.map statN := by
  unfold setAssigned
  split
  · rfl
  · next q hq => exact setPods_statN hq _

theorem setGhost_statN (s : State) (n : Nat) (o : PodObj) : (setGhost s n o).map statN = s.map statN := by
  unfold setGhost
  split
  · rfl
  · next q hq => exact setPods_statN hq _

theorem addPodTo_statN (s : State) (n : Nat) (p : PodObj) : (addPodTo s n p).map statN = s.map statN := by
  unfold addPodTo
  simp only []
  split <;> simp only [updPodUsed_statN, setAssigned_statN, updPodReq_statN, cacheAdd_statN]

theorem removePodFrom_statN (s : State) (n : Nat) (p : PodObj) (uf : Bool) :
    (removePodFrom s n p uf).map statN = s.map statN := by
  unfold removePodFrom
  simp only []
  rw [cacheRemove_statN]
  repeat' split
  all_goals simp only [updPodUsed_statN, updPodReq_statN]

/-- no pod operation touches name / parent / lend / min / max of any group -/
theorem podOp_statN (s : State) : ∀ op : Op, (match op with | .quota _ => False | .delQuota _ => False | .reset => False | _ => True) →
    (step s op).map statN = s.map statN
  | .quota _, h => h.elim
  | .delQuota _, h => h.elim
  | .reset, h => h.elim
  | .podAdd n p, _ => by
    simp only [step]; unfold onPodAdd
    repeat' split
    all_goals first | rfl | exact addPodTo_statN _ _ _
  | .podUpdate a b np op, _ => by
    simp only [step]; unfold onPodUpdate
    simp only []
    repeat' split
    all_goals first | rfl | simp only [updPodUsed_statN, setAssigned_statN, updPodReq_statN, cacheAdd_statN, setGhost_statN,
      removePodFrom_statN, addPodTo_statN]
  | .podDelete n p, _ => by
    simp only [step]; unfold onPodDelete
    split
    · exact removePodFrom_statN _ _ _ _
    · rfl
  | .reserve n p, _ => by
    simp only [step]; unfold reservePod
    split
    · rfl
    · simp only [updPodUsed_statN, setAssigned_statN]
  | .unreserve n p, _ => by
    simp only [step]; unfold unreservePod
    split
    · rfl
    · simp only [updPodUsed_statN, setAssigned_statN]
  | .migrate p a b, _ => by
    simp only [step]; unfold migratePod
    simp only []
    repeat' split
    all_goals simp only [updPodUsed_statN, setAssigned_statN, updPodReq_statN, cacheAdd_statN, cacheRemove_statN]

/-! ### quota operations -/

/-- (declared min, lend flag) of group `m`, if known -/
def declOf (s : State) (m : Nat) : Option (Int × Bool) := (get? s m).map (fun q => (q.min, q.lend))

def DM (s : State) : List (Nat × Int × Bool) := s.map (fun x => (x.name, (x.min, x.lend)))

theorem declOf_of_DM {s s' : State} (h : DM s' = DM s) (m : Nat) : declOf s' m = declOf s m := by
  unfold declOf
  cases hq : get? s m with
  | none => rw [get?_none_of_map (fun x => (x.min, x.lend)) m s' s h hq]
  | some q =>
    obtain ⟨q1, h1, hf⟩ := get?_of_map (fun x => (x.min, x.lend)) m s' s h q hq
    rw [h1]; simpa using hf

theorem DM_of_statN {s s' : State} (h : s'.map statN = s.map statN) : DM s' = DM s := by
  have := congrArg (List.map (fun t : Nat × Nat × Bool × Int × Option Int => (t.1, (t.2.2.2.1, t.2.2.1)))) h
  simpa [DM, List.map_map, Function.comp_def, statN] using this

theorem DM_of_obj {s s' : State} (h : s'.map obj = s.map obj) : DM s' = DM s := by
  have := congrArg (List.map (fun t : Nat × Nat × Bool × Bool × Option Int × Int × List Pod => (t.1, (t.2.2.2.2.2.1, t.2.2.2.1)))) h
  simpa [DM, List.map_map, Function.comp_def, obj] using this

theorem dm_req : ∀ q q', SameButReq q q' → (fun x : Quota => (x.name, (x.min, x.lend))) q' = (fun x : Quota => (x.name, (x.min, x.lend))) q :=
  fun q q' h => by simp [h.name, h.min, h.lend]

theorem dm_used : ∀ q q', SameButUsed q q' → (fun x : Quota => (x.name, (x.min, x.lend))) q' = (fun x : Quota => (x.name, (x.min, x.lend))) q :=
  fun q q' h => by simp [h.name, h.min, h.lend]

theorem propReq_DM (s : State) (p : List Nat) (self : Bool) (d dnp : Int) : DM (propReq s p self d dnp) = DM s :=
  propReqW_map _ dm_req clamp0 p s self d dnp

theorem deltaReq_DM (s : State) (n : Nat) (d dnp : Int) (self : Bool) : DM (deltaReq s n d dnp self) = DM s :=
  propReqW_map _ dm_req clamp0 _ s self d dnp

theorem deltaUsed_DM (s : State) (n : Nat) (d dnp : Int) (self : Bool) : DM (deltaUsed s n d dnp self) = DM s :=
  propUsedW_map _ dm_used clamp0 _ s self d dnp

theorem declOf_cons (x : Quota) (t : State) (m : Nat) :
    declOf (x :: t) m = if x.name = m then some (x.min, x.lend) else declOf t m := by
  unfold declOf; simp only [get?]; split <;> rfl

theorem declOf_set {s : State} {q q' : Quota} (h : get? s q'.name = some q) (m : Nat) :
    declOf (set s q') m = if m = q'.name then some (q'.min, q'.lend) else declOf s m := by
  unfold declOf; rw [get?_set h]; split <;> rfl

theorem doUpdateMax_DM (s : State) (n : Nat) (mx : Option Int) : DM (doUpdateMax s n mx) = DM s := by
  unfold doUpdateMax
  split
  · rfl
  · next g rest _ =>
    split
    · rfl
    · next q hq =>
      have hset : DM (set s { q with max := mx }) = DM s :=
        set_map _ (q := q) (q' := { q with max := mx }) (by show get? s q.name = some q; rw [get?_name hq]; exact hq) rfl
      simp only []
      split
      · exact hset
      · rw [propReq_DM]; exact hset

theorem path_head_of_get {s : State} {n : Nat} {q : Quota} (hq : get? s n = some q) : ∃ rest, path s n = n :: rest := by
  unfold path
  rw [pathOf]
  simp only [hq]
  split
  · exact ⟨[], rfl⟩
  · exact ⟨_, rfl⟩

/-- doUpdateOneGroupMinQuotaNoLock installs the new min at group `n`, keeps its lend flag, touches no other group -/
theorem doUpdateMin_decl {s : State} {n : Nat} {m0 : Int} {l : Bool} (h : declOf s n = some (m0, l)) (v : Int) :
    declOf (doUpdateMin s n v) n = some (v, l) ∧ ∀ m, m ≠ n → declOf (doUpdateMin s n v) m = declOf s m := by
  unfold declOf at h
  cases hq : get? s n with
  | none => rw [hq] at h; simp at h
  | some q =>
    rw [hq] at h
    simp only [Option.map_some, Option.some.injEq, Prod.mk.injEq] at h
    obtain ⟨rest, hp⟩ := path_head_of_get hq
    have hn := get?_name hq
    unfold doUpdateMin
    rw [hp]
    simp only [hq]
    have hset : ∀ (q2 : Quota), q2.name = q.name → ∀ m, declOf (set s q2) m = if m = n then some (q2.min, q2.lend) else declOf s m := by
      intro q2 h2 m
      rw [declOf_set (q := q) (by rw [h2, hn]; exact hq), h2, hn]
    cases rest with
    | nil =>
      simp only []
      refine ⟨?_, fun m hm => ?_⟩
      · refine (hset _ ?_ n).trans ?_
        · rfl
        · simp [h.2]
      · refine (hset _ ?_ m).trans ?_
        · rfl
        · simp [hm]
    | cons a r =>
      simp only []
      refine ⟨?_, fun m hm => ?_⟩
      · rw [declOf_of_DM (propReq_DM _ _ _ _ _)]
        refine (hset _ ?_ n).trans ?_
        · rfl
        · simp [h.2]
      · rw [declOf_of_DM (propReq_DM _ _ _ _ _)]
        refine (hset _ ?_ m).trans ?_
        · rfl
        · simp [hm]

theorem deleteQuota_decl (s : State) (n : Nat) : ∀ m, m ≠ n → declOf (deleteQuota s n) m = declOf s m := by
  intro m hm
  cases hq : get? s n with
  | none => simp [deleteQuota, hq]
  | some q =>
    rw [declOf_of_DM (show DM (deleteQuota s n) = DM (erase s n) from deleteQuota_map _ dm_req dm_used hq)]
    unfold declOf
    rw [get?_erase_ne s hm]

end KoordVerif.C01
