import KoordVerif.Proofs.C01ExtScale
/-
C01: "declared min".  `Quota.min` / `Quota.lend` of a group are exactly what the LAST UpdateQuota for that group carried:
UpdateQuota(sp) leaves group sp.name with min = sp.min, lend = sp.lend (every branch: create, min/max update,
re-parent, flag change with rebuild) and does not touch these fields of any other group; DeleteQuota(n) does not
touch them for any other group; no pod operation and no rebuild touches them at all.  So the floor of
`request_floor_ignores_scaled_min` is the min of the last applied quota object.
-/
namespace KoordVerif.C01

theorem statN_req : ∀ q q', SameButReq q q' → statN q' = statN q :=
  fun q q' h => by simp [statN, h.name, h.parent, h.lend, h.min, h.max]

theorem statN_used : ∀ q q', SameButUsed q q' → statN q' = statN q :=
  fun q q' h => by simp [statN, h.name, h.parent, h.lend, h.min, h.max]

theorem deltaReq_statN (s : State) (n : Nat) (d dnp : Int) (self : Bool) :
    (deltaReq s n d dnp self).map statN = s.map statN :=
  propReqW_map statN statN_req clamp0 _ s self d dnp

theorem deltaUsed_statN (s : State) (n : Nat) (d dnp : Int) (self : Bool) :
    (deltaUsed s n d dnp self).map statN = s.map statN :=
  propUsedW_map statN statN_used clamp0 _ s self d dnp

theorem setPods_statN {s : State} {n : Nat} {q : Quota} (hq : get? s n = some q) (ps : List Pod) :
    (set s { q with pods := ps }).map statN = s.map statN :=
  set_map statN (q := q) (q' := { q with pods := ps }) (by rw [show ({ q with pods := ps } : Quota).name = q.name from rfl, get?_name hq]; exact hq) rfl

theorem cacheAdd_statN (s : State) (n : Nat) (o : PodObj) : (cacheAdd s n o).map statN = s.map statN := by
  unfold cacheAdd
  split
  · rfl
  · next q hq =>
    split
    · rfl
    · exact setPods_statN hq _

theorem cacheRemove_statN (s : State) (n id : Nat) : (cacheRemove s n id).map statN = s.map statN := by
  unfold cacheRemove
  split
  · rfl
  · next q hq => exact setPods_statN hq _

theorem setAssigned_statN (s : State) (n id : Nat) (f : Bool) : (setAssigned s n id f).map statN = s.map statN := by
  unfold setAssigned
  split
  · rfl
  · next q hq => exact setPods_statN hq _

theorem setGhost_statN (s : State) (n : Nat) (o : PodObj) : (setGhost s n o).map statN = s.map statN := by
  unfold setGhost
  split
  · rfl
  · next q hq => exact setPods_statN hq _

theorem addPodTo_statN (s : State) (n : Nat) (p : PodObj) : (addPodTo s n p).map statN = s.map statN := by
  unfold addPodTo
  simp only []
  split <;> simp only [updPodUsed_statN, setAssigned_statN, updPodReq_statN, cacheAdd_statN]

theorem removePodFrom_statN (s : State) (n : Nat) (p : PodObj) (uf : Bool) :
    (removePodFrom s n p uf).map statN = s.map statN := by
  unfold removePodFrom
  simp only []
  rw [cacheRemove_statN]
  repeat' split
  all_goals simp only [updPodUsed_statN, updPodReq_statN]

/-- no pod operation touches name / parent / lend / min / max of any group -/
theorem podOp_statN (s : State) : ∀ op : Op, (match op with | .quota _ => False | .delQuota _ => False | .reset => False | _ => True) →
    (step s op).map statN = s.map statN
  | .quota _, h => h.elim
  | .delQuota _, h => h.elim
  | .reset, h => h.elim
  | .podAdd n p, _ => by
    simp only [step]; unfold onPodAdd
    repeat' split
    all_goals first | rfl | exact addPodTo_statN _ _ _
  | .podUpdate a b np op, _ => by
    simp only [step]; unfold onPodUpdate
    simp only []
    repeat' split
    all_goals first | rfl | simp only [updPodUsed_statN, setAssigned_statN, updPodReq_statN, cacheAdd_statN, setGhost_statN,
      removePodFrom_statN, addPodTo_statN]
  | .podDelete n p, _ => by
    simp only [step]; unfold onPodDelete
    split
    · exact removePodFrom_statN _ _ _ _
    · rfl
  | .reserve n p, _ => by
    simp only [step]; unfold reservePod
    split
    · rfl
    · simp only [updPodUsed_statN, setAssigned_statN]
  | .unreserve n p, _ => by
    simp only [step]; unfold unreservePod
    split
    · rfl
    · simp only [updPodUsed_statN, setAssigned_statN]
  | .migrate p a b, _ => by
    simp only [step]; unfold migratePod
    simp only []
    repeat' split
    all_goals simp only [updPodUsed_statN, setAssigned_statN, updPodReq_statN, cacheAdd_statN, cacheRemove_statN]

/-! ### quota operations -/

/-- (declared min, lend flag) of group `m`, if known -/
def declOf (s : State) (m : Nat) : Option (Int × Bool) := (get? s m).map (fun q => (q.min, q.lend))

def DM (s : State) : List (Nat × Int × Bool) := s.map (fun x => (x.name, (x.min, x.lend)))

theorem declOf_of_DM {s s' : State} (h : DM s' = DM s) (m : Nat) : declOf s' m = declOf s m := by
  unfold declOf
  cases hq : get? s m with
  | none => rw [get?_none_of_map (fun x => (x.min, x.lend)) m s' s h hq]
  | some q =>
    obtain ⟨q1, h1, hf⟩ := get?_of_map (fun x => (x.min, x.lend)) m s' s h q hq
    rw [h1]; simpa using hf

theorem DM_of_statN {s s' : State} (h : s'.map statN = s.map statN) : DM s' = DM s := by
  have := congrArg (List.map (fun t : Nat × Nat × Bool × Int × Option Int => (t.1, (t.2.2.2.1, t.2.2.1)))) h
  simpa [DM, List.map_map, Function.comp_def, statN] using this

theorem DM_of_obj {s s' : State} (h : s'.map obj = s.map obj) : DM s' = DM s := by
  have := congrArg (List.map (fun t : Nat × Nat × Bool × Bool × Option Int × Int × List Pod => (t.1, (t.2.2.2.2.2.1, t.2.2.2.1)))) h
  simpa [DM, List.map_map, Function.comp_def, obj] using this

theorem dm_req : ∀ q q', SameButReq q q' → (fun x : Quota => (x.name, (x.min, x.lend))) q' = (fun x : Quota => (x.name, (x.min, x.lend))) q :=
  fun q q' h => by simp [h.name, h.min, h.lend]

theorem dm_used : ∀ q q', SameButUsed q q' → (fun x : Quota => (x.name, (x.min, x.lend))) q' = (fun x : Quota => (x.name, (x.min, x.lend))) q :=
  fun q q' h => by simp [h.name, h.min, h.lend]

theorem propReq_DM (s : State) (p : List Nat) (self : Bool) (d dnp : Int) : DM (propReq s p self d dnp) = DM s :=
  propReqW_map _ dm_req clamp0 p s self d dnp

theorem deltaReq_DM (s : State) (n : Nat) (d dnp : Int) (self : Bool) : DM (deltaReq s n d dnp self) = DM s :=
  propReqW_map _ dm_req clamp0 _ s self d dnp

theorem deltaUsed_DM (s : State) (n : Nat) (d dnp : Int) (self : Bool) : DM (deltaUsed s n d dnp self) = DM s :=
  propUsedW_map _ dm_used clamp0 _ s self d dnp

theorem declOf_cons (x : Quota) (t : State) (m : Nat) :
    declOf (x :: t) m = if x.name = m then some (x.min, x.lend) else declOf t m := by
  unfold declOf; simp only [get?]; split <;> rfl

theorem declOf_set {s : State} {q q' : Quota} (h : get? s q'.name = some q) (m : Nat) :
    declOf (set s q') m = if m = q'.name then some (q'.min, q'.lend) else declOf s m := by
  unfold declOf; rw [get?_set h]; split <;> rfl

theorem doUpdateMax_DM (s : State) (n : Nat) (mx : Option Int) : DM (doUpdateMax s n mx) = DM s := by
  unfold doUpdateMax
  split
  · rfl
  · next g rest _ =>
    split
    · rfl
    · next q hq =>
      have hset : DM (set s { q with max := mx }) = DM s :=
        set_map _ (q := q) (q' := { q with max := mx }) (by show get? s q.name = some q; rw [get?_name hq]; exact hq) rfl
      simp only []
      split
      · exact hset
      · rw [propReq_DM]; exact hset

theorem path_head_of_get {s : State} {n : Nat} {q : Quota} (hq : get? s n = some q) : ∃ rest, path s n = n :: rest := by
  unfold path
  rw [pathOf]
  simp only [hq]
  split
  · exact ⟨[], rfl⟩
  · exact ⟨_, rfl⟩

/-- doUpdateOneGroupMinQuotaNoLock installs the new min at group `n`, keeps its lend flag, touches no other group -/
theorem doUpdateMin_decl {s : State} {n : Nat} {m0 : Int} {l : Bool} (h : declOf s n = some (m0, l)) (v : Int) :
    declOf (doUpdateMin s n v) n = some (v, l) ∧ ∀ m, m ≠ n → declOf (doUpdateMin s n v) m = declOf s m := by
  unfold declOf at h
  cases hq : get? s n with
  | none => rw [hq] at h; simp at h
  | some q =>
    rw [hq] at h
    simp only [Option.map_some, Option.some.injEq, Prod.mk.injEq] at h
    obtain ⟨rest, hp⟩ := path_head_of_get hq
    have hn := get?_name hq
    unfold doUpdateMin
    rw [hp]
    simp only [hq]
    have hset : ∀ (q2 : Quota), q2.name = q.name → ∀ m, declOf (set s q2) m = if m = n then some (q2.min, q2.lend) else declOf s m := by
      intro q2 h2 m
      rw [declOf_set (q := q) (by rw [h2, hn]; exact hq), h2, hn]
    cases rest with
    | nil =>
      simp only []
      refine ⟨?_, fun m hm => ?_⟩
      · refine (hset _ ?_ n).trans ?_
        · rfl
        · simp [h.2]
      · refine (hset _ ?_ m).trans ?_
        · rfl
        · simp [hm]
    | cons a r =>
      simp only []
      refine ⟨?_, fun m hm => ?_⟩
      · rw [declOf_of_DM (propReq_DM _ _ _ _ _)]
        refine (hset _ ?_ n).trans ?_
        · rfl
        · simp [h.2]
      · rw [declOf_of_DM (propReq_DM _ _ _ _ _)]
        refine (hset _ ?_ m).trans ?_
        · rfl
        · simp [hm]

theorem deleteQuota_decl (s : State) (n : Nat) : ∀ m, m ≠ n → declOf (deleteQuota s n) m = declOf s m := by
  intro m hm
  cases hq : get? s n with
  | none => simp [deleteQuota, hq]
  | some q =>
    rw [declOf_of_DM (show DM (deleteQuota s n) = DM (erase s n) from deleteQuota_map _ dm_req dm_used hq)]
    unfold declOf
    rw [get?_erase_ne s hm]

theorem declOf_ite_deltaReq (c : Prop) [Decidable c] (x : State) (n : Nat) (d dnp : Int) (sf : Bool) (m : Nat) :
    declOf (if c then deltaReq x n d dnp sf else x) m = declOf x m := by
  split
  · exact declOf_of_DM (deltaReq_DM _ _ _ _ _) m
  · rfl

theorem declOf_ite_deltaUsed (c : Prop) [Decidable c] (x : State) (n : Nat) (d dnp : Int) (sf : Bool) (m : Nat) :
    declOf (if c then deltaUsed x n d dnp sf else x) m = declOf x m := by
  split
  · exact declOf_of_DM (deltaUsed_DM _ _ _ _ _) m
  · rfl

/-- doUpdateMax then doUpdateMin on a freshly inserted group -/
theorem fresh_decl (nq : Quota) (t : State) (sp : QSpec) (hn : nq.name = sp.name) (hl : nq.lend = sp.lend) :
    declOf (doUpdateMin (doUpdateMax (nq :: t) sp.name (some sp.max)) sp.name sp.min) sp.name = some (sp.min, sp.lend) ∧
    ∀ m, m ≠ sp.name → declOf (doUpdateMin (doUpdateMax (nq :: t) sp.name (some sp.max)) sp.name sp.min) m = declOf t m := by
  have h1 : ∀ m, declOf (doUpdateMax (nq :: t) sp.name (some sp.max)) m =
      if sp.name = m then some (nq.min, sp.lend) else declOf t m := by
    intro m; rw [declOf_of_DM (doUpdateMax_DM _ _ _), declOf_cons, hn, hl]
  have h0 := h1 sp.name
  simp only [if_true] at h0
  obtain ⟨ha, hb⟩ := doUpdateMin_decl h0 sp.min
  refine ⟨ha, fun m hm => ?_⟩
  rw [hb m hm, h1 m]; simp [Ne.symm hm]

theorem createQuota_decl (s : State) (sp : QSpec) :
    declOf (createQuota s sp) sp.name = some (sp.min, sp.lend) ∧
    ∀ m, m ≠ sp.name → declOf (createQuota s sp) m = declOf s m :=
  fresh_decl (emptyQuota sp.name sp.parent sp.isParent sp.lend) s sp rfl rfl

theorem reparent_decl (s : State) (q : Quota) (sp : QSpec) :
    declOf (reparent s q sp) sp.name = some (sp.min, sp.lend) ∧
    ∀ m, m ≠ sp.name → declOf (reparent s q sp) m = declOf s m := by
  unfold reparent
  simp only [declOf_ite_deltaReq, declOf_ite_deltaUsed]
  obtain ⟨ha, hb⟩ := fresh_decl { emptyQuota sp.name sp.parent sp.isParent sp.lend with pods := q.pods } (deleteQuota s sp.name) sp rfl rfl
  exact ⟨ha, fun m hm => by rw [hb m hm, deleteQuota_decl s sp.name m hm]⟩

/-- UpdateQuota(sp), every branch: group sp.name ends with min = sp.min and lend = sp.lend; no other group's min / lend
flag changes. -/
theorem updateQuota_decl (s : State) (sp : QSpec) :
    declOf (updateQuota s sp) sp.name = some (sp.min, sp.lend) ∧
    ∀ m, m ≠ sp.name → declOf (updateQuota s sp) m = declOf s m := by
  unfold updateQuota
  split
  · exact createQuota_decl s sp
  · next q hq =>
    have hn := get?_name hq
    have h0 : declOf s sp.name = some (q.min, q.lend) := by unfold declOf; rw [hq]; rfl
    split
    · next hc =>
      simp only []
      have h1 : DM (if q.max ≠ some sp.max then doUpdateMax s sp.name (some sp.max) else s) = DM s := by
        split
        · exact doUpdateMax_DM _ _ _
        · rfl
      split
      · obtain ⟨ha, hb⟩ := doUpdateMin_decl (show declOf _ sp.name = some (q.min, q.lend) by rw [declOf_of_DM h1]; exact h0) sp.min
        exact ⟨by rw [ha, hc.1], fun m hm => by rw [hb m hm, declOf_of_DM h1]⟩
      · next hmin =>
        have hm' : q.min = sp.min := Decidable.not_not.mp hmin
        exact ⟨by rw [declOf_of_DM h1, h0, hm', hc.1], fun m _ => declOf_of_DM h1 m⟩
    · split
      · exact reparent_decl s q sp
      · have hset : ∀ m, declOf (set s { q with max := some sp.max, min := sp.min, lend := sp.lend, isParent := sp.isParent }) m =
            if m = sp.name then some (sp.min, sp.lend) else declOf s m := by
          intro m
          rw [declOf_set (q := q) (by show get? s q.name = some q; rw [hn]; exact hq)]
          show (if m = q.name then _ else _) = _
          rw [hn]
        refine ⟨?_, fun m hm => ?_⟩
        · rw [declOf_of_DM (DM_of_obj (resetAll_obj _)), hset]; simp
        · rw [declOf_of_DM (DM_of_obj (resetAll_obj _)), hset]; simp [hm]

/-- One operation of any kind: the declared (min, lend) of every group is what the last UpdateQuota for it carried. -/
theorem step_declared (s : State) (op : Op) :
    match op with
    | .quota sp => declOf (step s op) sp.name = some (sp.min, sp.lend) ∧ ∀ m, m ≠ sp.name → declOf (step s op) m = declOf s m
    | .delQuota n => ∀ m, m ≠ n → declOf (step s op) m = declOf s m
    | _ => ∀ m, declOf (step s op) m = declOf s m := by
  cases op with
  | quota sp => exact updateQuota_decl s sp
  | delQuota n => exact deleteQuota_decl s n
  | reset => exact fun m => declOf_of_DM (DM_of_obj (resetAll_obj s)) m
  | podAdd n p => exact fun m => declOf_of_DM (DM_of_statN (podOp_statN s _ trivial)) m
  | podUpdate a b np op => exact fun m => declOf_of_DM (DM_of_statN (podOp_statN s _ trivial)) m
  | podDelete n p => exact fun m => declOf_of_DM (DM_of_statN (podOp_statN s _ trivial)) m
  | reserve n p => exact fun m => declOf_of_DM (DM_of_statN (podOp_statN s _ trivial)) m
  | unreserve n p => exact fun m => declOf_of_DM (DM_of_statN (podOp_statN s _ trivial)) m
  | migrate p a b => exact fun m => declOf_of_DM (DM_of_statN (podOp_statN s _ trivial)) m

/-- operations that are not an UpdateQuota / DeleteQuota of group `g` -/
def NoTouch (g : Nat) : Op → Prop
  | .quota sp => sp.name ≠ g
  | .delQuota n => n ≠ g
  | _ => True

theorem run_keeps_decl (g : Nat) : ∀ (rest : List Op) (s : State), (∀ op ∈ rest, NoTouch g op) →
    declOf (run s rest) g = declOf s g
  | [], _, _ => rfl
  | op :: t, s, h => by
    have ht := run_keeps_decl g t (step s op) (fun o ho => h o (List.mem_cons_of_mem _ ho))
    have h0 := h op (List.mem_cons_self ..)
    show declOf (run (step s op) t) g = _
    rw [ht]
    have hs := step_declared s op
    cases op <;> simp only [NoTouch] at h0 <;>
      first | exact hs.2 g (Ne.symm h0) | exact hs g (Ne.symm h0) | exact hs g

/-- after a history whose last UpdateQuota / DeleteQuota for group sp.name was UpdateQuota(sp), the group's min and lend
flag are those of `sp` -/
theorem declared_after (s : State) (pre rest : List Op) (sp : QSpec) (h : ∀ op ∈ rest, NoTouch sp.name op) :
    declOf (run s (pre ++ .quota sp :: rest)) sp.name = some (sp.min, sp.lend) := by
  have e : run s (pre ++ .quota sp :: rest) = run (step (run s pre) (.quota sp)) rest := by
    simp [run, List.foldl_append]
  rw [e, run_keeps_decl _ _ _ h]
  exact (step_declared (run s pre) (.quota sp)).1

/-- the request floor is the min of the LAST APPLIED quota object of the group -/
theorem request_floor_last_declared (ops : List XOp) (pre rest : List Op) (sp : QSpec)
    (hsplit : ops.filterMap XOp.acct? = pre ++ .quota sp :: rest) (hrest : ∀ op ∈ rest, NoTouch sp.name op)
    (hp : PreAllF init (ops.filterMap XOp.acct?)) (hroot : sp.name ≠ rootName) :
    ∃ q, get? (xrun xinit ops).s sp.name = some q ∧ q.min = sp.min ∧ q.lend = sp.lend ∧
      q.request = if sp.lend then q.childRequest else max q.childRequest sp.min := by
  have hd := declared_after init pre rest sp hrest
  rw [← hsplit, ← show (xrun xinit ops).s = run init (ops.filterMap XOp.acct?) from xrun_state ops xinit] at hd
  unfold declOf at hd
  cases hq : get? (xrun xinit ops).s sp.name with
  | none => rw [hq] at hd; simp at hd
  | some q =>
    rw [hq] at hd
    simp only [Option.map_some, Option.some.injEq, Prod.mk.injEq] at hd
    refine ⟨q, rfl, hd.1, hd.2, ?_⟩
    rw [← hd.1, ← hd.2]
    exact request_floor_declared ops hp sp.name q hq hroot

end KoordVerif.C01
