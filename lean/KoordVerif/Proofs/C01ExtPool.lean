import KoordVerif.Proofs.C01ExtMicro
/-
C01 extension (schedules quantifier), part 4: pools of concurrently running pod handlers on DISTINCT pods,
arbitrary interleavings at the granularity of the sections (`PStep` picks any thread that is not finished and runs
its next section on the shared state), the invariant of every reachable configuration, the quiescent points, and
the schedule-independence of the figures.
-/
namespace KoordVerif.C01

/-- a handler in flight: the pod it works on and the sections it still has to run -/
abbrev Thread := Nat × List Micro
abbrev Pool := List Thread

inductive PStep : State × Pool → State × Pool → Prop
  | mk (s : State) (pre post : Pool) (i : Nat) (m : Micro) (k : List Micro) :
      PStep (s, pre ++ (i, m :: k) :: post) (mstep s m, pre ++ (i, k) :: post)

inductive PSteps : State × Pool → State × Pool → Prop
  | refl (x : State × Pool) : PSteps x x
  | tail {x y z : State × Pool} : PSteps x y → PStep y z → PSteps x z

theorem PSteps.trans {x y z : State × Pool} (h1 : PSteps x y) (h2 : PSteps y z) : PSteps x z := by
  induction h2 with
  | refl => exact h1
  | tail _ hs ih => exact PSteps.tail ih hs

def Quiescent (pool : Pool) : Prop := ∀ th ∈ pool, th.2 = []

/-! ### thread-local safety -/

def LSettled (L : Loc) : Prop := ∀ n,
  match L.ent n with
  | some e => L.r n = e.req ∧ L.np n = w (fun p => p.np) e ∧ L.u n = w (fun p => p.assigned) e ∧
      L.nu n = w (fun p => p.assigned && p.np) e
  | none => L.r n = 0 ∧ L.np n = 0 ∧ L.u n = 0 ∧ L.nu n = 0

/-- the remaining sections of the handler of pod `i`, run from the local view `L`, are all `okStep` and end with the
pod settled.  Depends on `L` and the static data only — no other thread can invalidate it. -/
def Safe (st : Nat → Option Bool) (i : Nat) : Loc → List Micro → Prop
  | L, [] => LSettled L
  | L, m :: k => okStep st i L m ∧ Safe st i (lstep st L m) k

def lrun (st : Nat → Option Bool) : Loc → List Micro → Loc
  | L, [] => L
  | L, m :: k => lrun st (lstep st L m) k

theorem lrun_snoc (st : Nat → Option Bool) : ∀ (a : List Micro) (L : Loc) (m : Micro),
    lrun st L (a ++ [m]) = lstep st (lrun st L a) m
  | [], _, _ => rfl
  | x :: k, L, m => by simp [lrun, lrun_snoc st k]

theorem lsettled_localOf {s : State} {c : Cnts} {i : Nat} : LSettled (localOf s c i) ↔ ∀ m, Settled s c m i := by
  simp only [LSettled, Settled, localOf]
  exact Iff.rfl

def progOf : Pool → Nat → List Micro
  | [], _ => []
  | th :: t, i => if th.1 = i then th.2 else progOf t i

theorem progOf_mem {pool : Pool} (hn : (pool.map (·.1)).Nodup) {th : Thread} (h : th ∈ pool) :
    progOf pool th.1 = th.2 := by
  induction pool with
  | nil => simp at h
  | cons x t ih =>
    simp only [List.map_cons, List.nodup_cons] at hn
    simp only [progOf]
    rcases List.mem_cons.mp h with e | e
    · subst e; simp
    · have : ¬ x.1 = th.1 := fun e' => hn.1 (by rw [e']; exact List.mem_map.mpr ⟨th, e, rfl⟩)
      simp only [this, if_false]
      exact ih hn.2 e

theorem progOf_not_mem {pool : Pool} {i : Nat} (h : i ∉ pool.map (·.1)) : progOf pool i = [] := by
  induction pool with
  | nil => rfl
  | cons x t ih =>
    simp only [List.map_cons, List.mem_cons, not_or] at h
    simp only [progOf]
    have : ¬ x.1 = i := fun e => h.1 e.symm
    simp only [this, if_false]
    exact ih h.2

/-! ### the invariant of every reachable configuration -/

structure PInv (s0 : State) (c0 : Cnts) (pool0 : Pool) (s : State) (pool : Pool) (c : Cnts) : Prop where
  ci : CI s c
  safe : ∀ th ∈ pool, Safe (stat s0) th.1 (localOf s c th.1) th.2
  rest : ∀ j, j ∉ pool.map (·.1) → localOf s c j = localOf s0 c0 j
  det : ∀ th ∈ pool, ∃ done, progOf pool0 th.1 = done ++ th.2 ∧
    localOf s c th.1 = lrun (stat s0) (localOf s0 c0 th.1) done
  statEq : s.map statN = s0.map statN
  owners : pool.map (·.1) = pool0.map (·.1)

theorem owner_ne {pre post : Pool} {i : Nat} {x : List Micro}
    (hn : ((pre ++ (i, x) :: post).map (·.1)).Nodup) {th : Thread} (h : th ∈ pre ∨ th ∈ post) : th.1 ≠ i := by
  simp only [List.map_append, List.map_cons, List.nodup_append, List.nodup_cons] at hn
  obtain ⟨_, ⟨hi, _⟩, hdis⟩ := hn
  intro e
  rcases h with h | h
  · exact hdis th.1 (List.mem_map.mpr ⟨th, h, rfl⟩) i (by simp) e
  · exact hi (by rw [← e]; exact List.mem_map.mpr ⟨th, h, rfl⟩)

theorem pinv_init {s0 : State} {c0 : Cnts} {pool0 : Pool} (hg : CI s0 c0) (hn : (pool0.map (·.1)).Nodup)
    (hsafe : ∀ th ∈ pool0, Safe (stat s0) th.1 (localOf s0 c0 th.1) th.2) :
    PInv s0 c0 pool0 s0 pool0 c0 :=
  ⟨hg, hsafe, fun _ _ => rfl, fun th hth => ⟨[], by rw [progOf_mem hn hth]; rfl, rfl⟩, rfl, rfl⟩

theorem pinv_step {s0 : State} {c0 : Cnts} {pool0 : Pool} (hn : (pool0.map (·.1)).Nodup) {x y : State × Pool} {c : Cnts}
    (h : PInv s0 c0 pool0 x.1 x.2 c) (hs : PStep x y) : ∃ c', PInv s0 c0 pool0 y.1 y.2 c' := by
  cases hs with
  | mk s pre post i m k =>
    simp only at h ⊢
    have hown : (pre ++ (i, k) :: post).map (·.1) = (pre ++ (i, m :: k) :: post).map (·.1) := by simp
    have hnd : ((pre ++ (i, m :: k) :: post).map (·.1)).Nodup := by rw [h.owners]; exact hn
    have hst : stat s = stat s0 := stat_of_statN h.statEq
    have hth := h.safe (i, m :: k) (by simp)
    simp only [Safe] at hth
    obtain ⟨hok, hsafe'⟩ := hth
    rw [← hst] at hok
    obtain ⟨c', hci, hloc, hframe, hstat⟩ := mstep_CI h.ci hok
    rw [hst] at hloc
    refine ⟨c', hci, ?_, ?_, ?_, hstat.trans h.statEq, hown.trans h.owners⟩
    · intro th hth
      rcases List.mem_append.mp hth with h1 | h1
      · have hne := owner_ne hnd (Or.inl h1)
        rw [hframe _ hne]
        exact h.safe th (List.mem_append.mpr (Or.inl h1))
      · rcases List.mem_cons.mp h1 with h2 | h2
        · subst h2; simp only; rw [hloc]; exact hsafe'
        · have hne := owner_ne hnd (Or.inr h2)
          rw [hframe _ hne]
          exact h.safe th (List.mem_append.mpr (Or.inr (List.mem_cons_of_mem _ h2)))
    · intro j hj
      rw [hown] at hj
      have hne : j ≠ i := by
        intro e; apply hj; rw [e]; simp
      rw [hframe j hne]
      exact h.rest j hj
    · intro th hth
      rcases List.mem_append.mp hth with h1 | h1
      · have hne := owner_ne hnd (Or.inl h1)
        rw [hframe _ hne]
        exact h.det th (List.mem_append.mpr (Or.inl h1))
      · rcases List.mem_cons.mp h1 with h2 | h2
        · subst h2; simp only; rw [hloc]
          obtain ⟨done, hd1, hd2⟩ := h.det (i, m :: k) (by simp)
          simp only at hd1 hd2
          exact ⟨done ++ [m], by rw [hd1]; simp, by rw [hd2, lrun_snoc]⟩
        · have hne := owner_ne hnd (Or.inr h2)
          rw [hframe _ hne]
          exact h.det th (List.mem_append.mpr (Or.inr (List.mem_cons_of_mem _ h2)))

theorem pinv_steps {s0 : State} {c0 : Cnts} {pool0 : Pool} (hg : CI s0 c0) (hn : (pool0.map (·.1)).Nodup)
    (hsafe : ∀ th ∈ pool0, Safe (stat s0) th.1 (localOf s0 c0 th.1) th.2)
    {y : State × Pool} (hs : PSteps (s0, pool0) y) : ∃ c, PInv s0 c0 pool0 y.1 y.2 c := by
  induction hs with
  | refl => exact ⟨_, pinv_init hg hn hsafe⟩
  | tail _ hstep ih =>
    obtain ⟨c, hc⟩ := ih
    exact pinv_step hn hc hstep

/-- at a quiescent point every pod's local view is the deterministic result of its own handler (if any) -/
theorem pinv_final {s0 : State} {c0 : Cnts} {pool0 : Pool} {s : State} {pool : Pool} {c : Cnts}
    (h : PInv s0 c0 pool0 s pool c) (hq : Quiescent pool) (j : Nat) :
    localOf s c j = lrun (stat s0) (localOf s0 c0 j) (progOf pool0 j) := by
  by_cases hj : j ∈ pool.map (·.1)
  · obtain ⟨th, hth, rfl⟩ := List.mem_map.mp hj
    obtain ⟨done, hd1, hd2⟩ := h.det th hth
    rw [hq th hth, List.append_nil] at hd1
    rw [hd2, hd1]
  · rw [h.rest j hj]
    rw [h.owners] at hj
    rw [progOf_not_mem hj]; rfl

theorem pinv_quiescent_settled {s0 : State} {c0 : Cnts} {pool0 : Pool} {s : State} {pool : Pool} {c : Cnts}
    (hg : ∀ m j, Settled s0 c0 m j) (h : PInv s0 c0 pool0 s pool c) (hq : Quiescent pool) : ∀ m i, Settled s c m i := by
  intro m i
  by_cases hi : i ∈ pool.map (·.1)
  · obtain ⟨th, hth, rfl⟩ := List.mem_map.mp hi
    have := h.safe th hth
    rw [hq th hth] at this
    simp only [Safe] at this
    exact lsettled_localOf.mp this m
  · have hl := h.rest i hi
    have h0 : LSettled (localOf s0 c0 i) := lsettled_localOf.mpr (fun m => hg m i)
    rw [← hl] at h0
    exact lsettled_localOf.mp h0 m

end KoordVerif.C01
