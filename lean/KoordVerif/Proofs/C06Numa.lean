import KoordVerif.Model.C06
/-
C06 — helper development for Layer A (NUMA split): the insertion sort is a sorted permutation;
the distribution loop conserves the request, stays within each node's free amount, and – for a
split function that is an exact floor division on a unit grid – hands out everything whenever the
(ascending) hinted nodes together have enough (DESIGN.md Appendix A.4).
-/
namespace KoordVerif.C06

/-! ### sums -/

def isum (l : List Int) : Int := l.foldr (· + ·) 0

@[simp] theorem isum_nil : isum [] = 0 := rfl
@[simp] theorem isum_cons (a : Int) (l : List Int) : isum (a :: l) = a + isum l := rfl

theorem isum_append (a b : List Int) : isum (a ++ b) = isum a + isum b := by
  induction a with
  | nil => simp
  | cons x xs ih => simp [ih]; omega

theorem isum_perm {a b : List Int} (h : a.Perm b) : isum a = isum b := by
  induction h with
  | nil => rfl
  | cons x _ ih => simp [ih]
  | swap x y l => simp; omega
  | trans _ _ ih1 ih2 => omega

theorem isum_map_ge (f : Nat → Int) (c : Int) (l : List Nat) (h : ∀ r ∈ l, c ≤ f r) :
    c * (l.length : Int) ≤ isum (l.map f) := by
  induction l with
  | nil => simp
  | cons x xs ih =>
    have h1 := h x (by simp)
    have h2 := ih (fun r hr => h r (by simp [hr]))
    simp only [List.length_cons, List.map_cons, isum_cons]
    have : c * ((xs.length + 1 : Nat) : Int) = c * (xs.length : Int) + c := by
      rw [Int.natCast_add, Int.mul_add]; simp
    omega

/-! ### the sort -/

/-- ascending by key (what `sort.Slice` with `less = key i < key j` establishes). -/
def SortedBy (key : Nat → Int) (l : List Nat) : Prop := l.Pairwise (fun a b => key a ≤ key b)

theorem insertByKey_perm (key : Nat → Int) (x : Nat) (l : List Nat) :
    (insertByKey key x l).Perm (x :: l) := by
  induction l with
  | nil => simp [insertByKey]
  | cons y ys ih =>
    unfold insertByKey
    split
    · exact List.Perm.refl _
    · exact (List.Perm.cons y ih).trans (List.Perm.swap x y ys)

theorem insertByKey_sorted (key : Nat → Int) (x : Nat) (l : List Nat) (h : SortedBy key l) :
    SortedBy key (insertByKey key x l) := by
  induction l with
  | nil => simp [insertByKey, SortedBy]
  | cons y ys ih =>
    unfold SortedBy at h
    rw [List.pairwise_cons] at h
    unfold insertByKey
    split
    · rename_i hlt
      unfold SortedBy
      rw [List.pairwise_cons]
      refine ⟨?_, List.pairwise_cons.mpr h⟩
      intro z hz
      rcases List.mem_cons.mp hz with rfl | hz'
      · omega
      · have := h.1 z hz'; omega
    · rename_i hge
      unfold SortedBy
      rw [List.pairwise_cons]
      refine ⟨?_, ih h.2⟩
      intro z hz
      rcases List.mem_cons.mp ((insertByKey_perm key x ys).mem_iff.mp hz) with rfl | hz'
      · omega
      · exact h.1 z hz'

theorem foldl_insert_perm (key : Nat → Int) (l : List Nat) :
    ∀ acc, (l.foldl (fun acc x => insertByKey key x acc) acc).Perm (acc ++ l) := by
  induction l with
  | nil => intro acc; simp
  | cons x xs ih =>
    intro acc
    simp only [List.foldl_cons]
    refine (ih _).trans ?_
    refine ((insertByKey_perm key x acc).append_right xs).trans ?_
    simp
    exact List.perm_middle.symm

theorem foldl_insert_sorted (key : Nat → Int) (l : List Nat) :
    ∀ acc, SortedBy key acc → SortedBy key (l.foldl (fun acc x => insertByKey key x acc) acc) := by
  induction l with
  | nil => intro acc h; simpa using h
  | cons x xs ih => intro acc h; exact ih _ (insertByKey_sorted key x acc h)

theorem sortByKey_perm (key : Nat → Int) (l : List Nat) : (sortByKey key l).Perm l := by
  have := foldl_insert_perm key l []
  simpa [sortByKey] using this

theorem sortByKey_sorted (key : Nat → Int) (l : List Nat) : SortedBy key (sortByKey key l) :=
  foldl_insert_sorted key l [] List.Pairwise.nil

/-! ### allocateRes -/

theorem allocateRes_eq (a r : Int) : allocateRes a r = if a ≤ r then a else r := by
  unfold allocateRes
  split <;> split <;> (try split) <;> omega

theorem allocateRes_le_avail (a r : Int) : allocateRes a r ≤ a := by
  rw [allocateRes_eq]; split <;> omega

theorem allocateRes_le_req (a r : Int) : allocateRes a r ≤ r := by
  rw [allocateRes_eq]; split <;> omega

/-! ### the loop: conservation and bounds, any split mode -/

theorem distribute_sum (mode : SplitMode) (free : Nat → Int) :
    ∀ (l : List Nat) (q : Int),
      isum ((distribute mode free l q).1.map (·.2)) + (distribute mode free l q).2 = q := by
  intro l
  induction l with
  | nil => intro q; simp [distribute]
  | cons id rest ih =>
    intro q
    simp only [distribute]
    split
    · have := ih (q - allocateRes (free id) (splitQuantity mode q ((rest.length : Int) + 1)))
      simp only [List.map_cons, isum_cons]
      omega
    · exact ih q

theorem distribute_mem (mode : SplitMode) (free : Nat → Int) :
    ∀ (l : List Nat) (q : Int) (e : Nat × Int), e ∈ (distribute mode free l q).1 →
      e.2 ≤ free e.1 ∧ e.1 ∈ l ∧ e.2 ≠ 0 := by
  intro l
  induction l with
  | nil => intro q e h; simp [distribute] at h
  | cons id rest ih =>
    intro q e h
    simp only [distribute] at h
    split at h
    · rename_i hne
      rcases List.mem_cons.mp h with rfl | h'
      · exact ⟨allocateRes_le_avail _ _, by simp, hne⟩
      · have := ih _ e h'
        exact ⟨this.1, by simp [this.2.1], this.2.2⟩
    · have := ih _ e h
      exact ⟨this.1, by simp [this.2.1], this.2.2⟩

theorem distribute_ids_sublist (mode : SplitMode) (free : Nat → Int) :
    ∀ (l : List Nat) (q : Int), ((distribute mode free l q).1.map (·.1)).Sublist l := by
  intro l
  induction l with
  | nil => intro q; simp [distribute]
  | cons id rest ih =>
    intro q
    simp only [distribute]
    split
    · simp only [List.map_cons]
      exact (ih _).cons_cons id
    · exact (ih _).cons id

/-! ### completeness for an exact floor split on a grid of step `u` -/

/-- what `numa_complete` needs from `splitQuantity`: on non-negative multiples of `u` and `n ≥ 1`
    remaining nodes it is the floor of `q/n` on the grid of step `u`. -/
structure SplitOK (u : Int) (split : Int → Int → Int) : Prop where
  upos : 0 < u
  dvd : ∀ q n, 0 ≤ q → 1 ≤ n → u ∣ q → u ∣ split q n
  nonneg : ∀ q n, 0 ≤ q → 1 ≤ n → u ∣ q → 0 ≤ split q n
  le : ∀ q n, 0 ≤ q → 1 ≤ n → u ∣ q → split q n ≤ q
  big : ∀ q n, 0 ≤ q → 1 ≤ n → u ∣ q → q + u ≤ (split q n + u) * n

theorem grid_gap {u x y : Int} (_hu : 0 < u) (hx : u ∣ x) (hy : u ∣ y) (h : x < y) : x + u ≤ y := by
  have hd : u ∣ y - x := Int.dvd_sub hy hx
  have := Int.le_of_dvd (by omega) hd
  omega

theorem distribute_complete {u : Int} {mode : SplitMode} (hs : SplitOK u (splitQuantity mode))
    (free : Nat → Int) :
    ∀ (l : List Nat) (q : Int), SortedBy free l → (∀ id ∈ l, 0 ≤ free id ∧ u ∣ free id) →
      0 ≤ q → u ∣ q → q ≤ isum (l.map free) → (distribute mode free l q).2 = 0 := by
  intro l
  induction l with
  | nil =>
    intro q _ _ h0 _ hsum
    simp at hsum
    simp [distribute]; omega
  | cons id rest ih =>
    intro q hsorted hfree h0 hdq hsum
    unfold SortedBy at hsorted
    rw [List.pairwise_cons] at hsorted
    have hn : (1 : Int) ≤ (rest.length : Int) + 1 := by omega
    have hfid := hfree id (by simp)
    have hrest : ∀ r ∈ rest, 0 ≤ free r ∧ u ∣ free r := fun r hr => hfree r (by simp [hr])
    simp only [List.map_cons, isum_cons] at hsum
    simp only [distribute]
    generalize hsdef : splitQuantity mode q ((rest.length : Int) + 1) = s
    have hsd : u ∣ s := hsdef ▸ hs.dvd q _ h0 hn hdq
    have hsn : 0 ≤ s := hsdef ▸ hs.nonneg q _ h0 hn hdq
    have hsl : s ≤ q := hsdef ▸ hs.le q _ h0 hn hdq
    have hsb : q + u ≤ (s + u) * ((rest.length : Int) + 1) := hsdef ▸ hs.big q _ h0 hn hdq
    -- the amount taken from this node and what it leaves for the others
    have key : 0 ≤ q - allocateRes (free id) s ∧ u ∣ (q - allocateRes (free id) s) ∧
        q - allocateRes (free id) s ≤ isum (rest.map free) := by
      rw [allocateRes_eq]
      split
      · rename_i hle
        exact ⟨by omega, Int.dvd_sub hdq hfid.2, by omega⟩
      · rename_i hgt
        have hgap : s + u ≤ free id := grid_gap hs.upos hsd hfid.2 (by omega)
        have hall : ∀ r ∈ rest, s + u ≤ free r := fun r hr => by
          have := hsorted.1 r hr; omega
        have hge := isum_map_ge free (s + u) rest hall
        have hexp : (s + u) * ((rest.length : Int) + 1) = (s + u) * (rest.length : Int) + (s + u) := by
          rw [Int.mul_add]; simp
        exact ⟨by omega, Int.dvd_sub hdq hsd, by omega⟩
    split
    · exact ih _ hsorted.2 hrest key.1 key.2.1 key.2.2
    · rename_i hz
      have hz' : allocateRes (free id) s = 0 := by
        by_cases h : allocateRes (free id) s = 0
        · exact h
        · exact absurd h hz
      rw [hz'] at key
      exact ih _ hsorted.2 hrest (by omega) (by simpa using key.2.1) (by omega)

/-! ### the two divisible modes are exact floor splits -/

theorem floor_big (q n : Int) (h0 : 0 ≤ q) (hn : 1 ≤ n) : q + 1 ≤ (q / n + 1) * n := by
  have h1 := Int.emod_add_mul_ediv q n
  have h2 := Int.emod_lt_of_pos q (show 0 < n by omega)
  have h3 : (q / n + 1) * n = n * (q / n) + n := by
    rw [Int.add_mul, Int.mul_comm]; simp
  omega

theorem splitOK_milli : SplitOK 1 (splitQuantity .milli) where
  upos := by omega
  dvd := fun _ _ _ _ _ => Int.one_dvd _
  nonneg := fun q n h0 hn _ => by
    simp only [splitQuantity]; rw [Int.tdiv_eq_ediv_of_nonneg h0]
    exact Int.ediv_nonneg h0 (by omega)
  le := fun q n h0 _ _ => by
    simp only [splitQuantity]; rw [Int.tdiv_eq_ediv_of_nonneg h0]
    exact Int.ediv_le_self n h0
  big := fun q n h0 hn _ => by
    simp only [splitQuantity]; rw [Int.tdiv_eq_ediv_of_nonneg h0]
    exact floor_big q n h0 hn

theorem splitOK_value : SplitOK 1000 (splitQuantity .value) where
  upos := by omega
  dvd := fun _ _ _ _ _ => by simp only [splitQuantity]; exact Int.dvd_mul_left _ _
  nonneg := fun q n h0 hn _ => by
    simp only [splitQuantity, valueCeil]
    have hc : 0 ≤ (q + 999) / 1000 := by omega
    rw [Int.tdiv_eq_ediv_of_nonneg hc]
    have := Int.ediv_nonneg hc (show 0 ≤ n by omega)
    omega
  le := fun q n h0 _ hd => by
    simp only [splitQuantity, valueCeil]
    have hc : 0 ≤ (q + 999) / 1000 := by omega
    rw [Int.tdiv_eq_ediv_of_nonneg hc]
    have := Int.ediv_le_self n hc
    omega
  big := fun q n h0 hn hd => by
    simp only [splitQuantity, valueCeil]
    have hc : 0 ≤ (q + 999) / 1000 := by omega
    rw [Int.tdiv_eq_ediv_of_nonneg hc]
    have hb := floor_big ((q + 999) / 1000) n hc hn
    generalize hk : (q + 999) / 1000 = k at *
    generalize hd' : k / n = d at *
    have hq : q = 1000 * k := by omega
    have e1 : (d * 1000 + 1000) * n = 1000 * ((d + 1) * n) := by
      rw [show d * 1000 + 1000 = 1000 * (d + 1) by omega, Int.mul_assoc]
    omega

end KoordVerif.C06
