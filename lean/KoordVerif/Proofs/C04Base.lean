import KoordVerif.Model.C04
/-
C04 helper lemmas: key-set operations, the per-gang child-set invariants and how every state
transformer of the model acts on the gang list (`Sim`: gangs keep id and child sets, or are new
and empty; `updGang id f`: exactly the gangs with that id are changed by `f`).
-/
namespace KoordVerif.C04

/-! ### key sets -/

theorem mem_sIns {x y : Nat} {s : List Nat} : y ∈ sIns x s ↔ y = x ∨ y ∈ s := by
  unfold sIns
  split <;> grind

theorem mem_sDel {x y : Nat} {s : List Nat} : y ∈ sDel x s ↔ y ∈ s ∧ y ≠ x := by
  unfold sDel
  simp [List.mem_filter]

/-! ### the child-set invariants (on `PodSets`) -/

/-- pending ∩ waiting = ∅ -/
def PodSets.D1 (g : PodSets) : Prop := ∀ p, p ∈ g.pending → p ∉ g.waiting
/-- waiting ∩ bound = ∅ -/
def PodSets.D2 (g : PodSets) : Prop := ∀ p, p ∈ g.waiting → p ∉ g.bound
/-- pending ∩ bound = ∅ -/
def PodSets.D3 (g : PodSets) : Prop := ∀ p, p ∈ g.pending → p ∉ g.bound
/-- every member is in at least one of the three sets -/
def PodSets.Cov (g : PodSets) : Prop := ∀ p, p ∈ g.children → p ∈ g.pending ∨ p ∈ g.waiting ∨ p ∈ g.bound

/-- the part of the partition that holds after ANY history -/
def PodSets.Base (g : PodSets) : Prop := g.D1 ∧ g.Cov
/-- the full partition -/
def PodSets.Part (g : PodSets) : Prop := g.D1 ∧ g.D2 ∧ g.D3 ∧ g.Cov

/-- what the proofs need from a child-set invariant -/
structure SetInv (P : PodSets → Prop) : Prop where
  empty : P PodSets.empty
  setChildF : ∀ g p, P g → P (g.setChild p false)
  setChildT : ∀ g p, P g → P ((g.setChild p true).addBound p)
  addBound : ∀ g p, P g → P (g.addBound p)
  delAssumed : ∀ g p, P g → P (g.delAssumed p)
  deletePod : ∀ g p, P g → P (g.deletePod p)

theorem base_setInv : SetInv PodSets.Base := by
  refine ⟨?_, ?_, ?_, ?_, ?_, ?_⟩
  · simp [PodSets.Base, PodSets.D1, PodSets.Cov, PodSets.empty]
  all_goals
    intro g p h
    unfold PodSets.Base PodSets.D1 PodSets.Cov at *
    try unfold PodSets.setChild
    try unfold PodSets.addBound
    try unfold PodSets.delAssumed
    try unfold PodSets.deletePod
    grind [mem_sIns, mem_sDel]

theorem part_setInv : SetInv PodSets.Part := by
  refine ⟨?_, ?_, ?_, ?_, ?_, ?_⟩
  · simp [PodSets.Part, PodSets.D1, PodSets.D2, PodSets.D3, PodSets.Cov, PodSets.empty]
  all_goals
    intro g p h
    unfold PodSets.Part PodSets.D1 PodSets.D2 PodSets.D3 PodSets.Cov at *
    try unfold PodSets.setChild
    try unfold PodSets.addBound
    try unfold PodSets.delAssumed
    try unfold PodSets.deletePod
    grind [mem_sIns, mem_sDel]

theorem base_addAssumed (g : PodSets) (p : Pod) (h : g.Base) : (g.addAssumed p).Base := by
  unfold PodSets.Base PodSets.D1 PodSets.Cov PodSets.addAssumed at *
  grind [mem_sIns, mem_sDel]

/-- addAssumedPod keeps the partition only for a pod that is not bound (framework contract) -/
theorem part_addAssumed (g : PodSets) (p : Pod) (h : g.Part) (hb : p ∉ g.bound) : (g.addAssumed p).Part := by
  unfold PodSets.Part PodSets.D1 PodSets.D2 PodSets.D3 PodSets.Cov PodSets.addAssumed at *
  grind [mem_sIns, mem_sDel]

/-! ### the gang list -/

def AllG (P : PodSets → Prop) (gs : List Gang) : Prop := ∀ g ∈ gs, P g.ps

/-- no gang with this id has the pod in its bound set -/
def NotBound (gs : List Gang) (id : GangId) (p : Pod) : Prop := ∀ g ∈ gs, g.id = id → p ∉ g.ps.bound

/-- every gang of `gs'` has the id and child sets of a gang of `gs`, or is fresh and empty -/
def Sim (gs gs' : List Gang) : Prop :=
  ∀ g' ∈ gs', (∃ g ∈ gs, g'.id = g.id ∧ g'.ps = g.ps) ∨ g'.ps = PodSets.empty

theorem Sim.refl (gs : List Gang) : Sim gs gs := fun g hg => Or.inl ⟨g, hg, rfl, rfl⟩

theorem Sim.trans {a b c : List Gang} (h1 : Sim a b) (h2 : Sim b c) : Sim a c := by
  intro g hg
  rcases h2 g hg with ⟨g1, hg1, hid, hps⟩ | he
  · rcases h1 g1 hg1 with ⟨g0, hg0, hid0, hps0⟩ | he
    · exact Or.inl ⟨g0, hg0, hid.trans hid0, hps.trans hps0⟩
    · exact Or.inr (hps.trans he)
  · exact Or.inr he

theorem Sim.allG {P : PodSets → Prop} {a b : List Gang} (h : Sim a b) (he : P PodSets.empty)
    (ha : AllG P a) : AllG P b := by
  intro g hg
  rcases h g hg with ⟨g0, hg0, _, hps⟩ | h0
  · rw [hps]; exact ha g0 hg0
  · rw [h0]; exact he

theorem Sim.notBound {a b : List Gang} (h : Sim a b) {id : GangId} {p : Pod}
    (ha : NotBound a id p) : NotBound b id p := by
  intro g hg hid
  rcases h g hg with ⟨g0, hg0, hid0, hps⟩ | h0
  · rw [hps]; exact ha g0 hg0 (hid0 ▸ hid)
  · rw [h0]; simp [PodSets.empty]

theorem mem_updGang {gs : List Gang} {id : GangId} {f : Gang → Gang} {g' : Gang}
    (h : g' ∈ updGang gs id f) : ∃ g ∈ gs, g' = if g.id == id then f g else g := by
  unfold updGang at h
  rcases List.mem_map.mp h with ⟨g, hg, rfl⟩
  exact ⟨g, hg, rfl⟩

theorem sim_updGang_meta (gs : List Gang) (id : GangId) (f : Gang → Gang)
    (hf : ∀ g, (f g).id = g.id ∧ (f g).ps = g.ps) : Sim gs (updGang gs id f) := by
  intro g' hg'
  rcases mem_updGang hg' with ⟨g, hg, rfl⟩
  refine Or.inl ⟨g, hg, ?_⟩
  split
  · exact hf g
  · exact ⟨rfl, rfl⟩

theorem sim_filter (gs : List Gang) (q : Gang → Bool) : Sim gs (gs.filter q) :=
  fun g hg => Or.inl ⟨g, (List.mem_filter.mp hg).1, rfl, rfl⟩

theorem allG_updGang {P : PodSets → Prop} {gs : List Gang} {id : GangId} {f : Gang → Gang}
    (h : AllG P gs) (hf : ∀ g ∈ gs, g.id = id → P (f g).ps) : AllG P (updGang gs id f) := by
  intro g' hg'
  rcases mem_updGang hg' with ⟨g, hg, rfl⟩
  split
  next hid => exact hf g hg (by simpa using hid)
  next => exact h g hg

theorem updGang_updGang (gs : List Gang) (id : GangId) (f1 f2 : Gang → Gang) (h1 : ∀ g, (f1 g).id = g.id) :
    updGang (updGang gs id f1) id f2 = updGang gs id (fun g => f2 (f1 g)) := by
  unfold updGang
  rw [List.map_map]
  apply List.map_congr_left
  intro g _
  simp only [Function.comp]
  by_cases hid : (g.id == id) = true
  · simp [hid, h1]
  · simp [hid]

theorem sim_ensureGang (s : State) (id : GangId) : Sim s.gangs (ensureGang s id).gangs := by
  unfold ensureGang
  split
  · exact Sim.refl _
  · intro g hg
    simp only [List.mem_append, List.mem_singleton] at hg
    rcases hg with hg | rfl
    · exact Or.inl ⟨g, hg, rfl, rfl⟩
    · exact Or.inr rfl

theorem ensureInfo_gangs (s : State) (key : List GangId) : (ensureInfo s key).1.gangs = s.gangs := by
  unfold ensureInfo
  split <;> rfl

theorem sim_attachInfo (s : State) (id : GangId) : Sim s.gangs (attachInfo s id).gangs := by
  unfold attachInfo
  split
  · exact Sim.refl _
  · simp only
    rw [ensureInfo_gangs]
    exact sim_updGang_meta _ _ _ (fun g => ⟨rfl, rfl⟩)

theorem sim_removeGang (s : State) (g : Gang) : Sim s.gangs (removeGang s g).gangs := by
  unfold removeGang
  exact sim_filter _ _

theorem satGang_gangs (s : State) (id : GangId) : (satGang s id).gangs = s.gangs := by
  unfold satGang
  split <;> rfl

theorem applyCfg_meta (d : Nat) (g : Gang) (c : Cfg) (b : Bool) :
    (applyCfg d g c b).id = g.id ∧ (applyCfg d g c b).ps = g.ps :=
  ⟨rfl, rfl⟩

theorem sim_pgApply (s : State) (id : GangId) (c : Cfg) : Sim s.gangs (pgApply s id c).gangs := by
  unfold pgApply
  exact (sim_updGang_meta s.gangs id _ (fun g => applyCfg_meta s.dflt g c false)).trans (sim_attachInfo _ id)

theorem mem_of_findGang {gs : List Gang} {id : GangId} {g : Gang} (h : findGang gs id = some g) :
    g ∈ gs ∧ g.id = id := by
  unfold findGang at h
  exact ⟨List.mem_of_find?_eq_some h, by simpa using List.find?_some h⟩

end KoordVerif.C04
