import KoordVerif.Model.C04
/-
C04 helper lemmas: key-set operations, the per-gang child-set invariants and how every state
transformer of the model acts on the gang list (`Sim`: gangs keep id and child sets, or are new
and empty; `updGang id f`: exactly the gangs with that id are changed by `f`).
-/
namespace KoordVerif.C04

/-! ### key sets -/

theorem mem_sIns {x y : Nat} {s : List Nat} : y ∈ sIns x s ↔ y = x ∨ y ∈ s := by
  unfold sIns
  split
  · constructor
    · intro h; exact Or.inr h
    · rintro (h | h)
      · subst h; assumption
      · exact h
  · simp

theorem mem_sDel {x y : Nat} {s : List Nat} : y ∈ sDel x s ↔ y ∈ s ∧ y ≠ x := by
  unfold sDel
  simp [List.mem_filter]

/-! ### the child-set invariants (on `PodSets`) -/

/-- pending ∩ waiting = ∅ -/
def PodSets.D1 (g : PodSets) : Prop := ∀ p, p ∈ g.pending → p ∉ g.waiting
/-- waiting ∩ bound = ∅ -/
def PodSets.D2 (g : PodSets) : Prop := ∀ p, p ∈ g.waiting → p ∉ g.bound
/-- pending ∩ bound = ∅ -/
def PodSets.D3 (g : PodSets) : Prop := ∀ p, p ∈ g.pending → p ∉ g.bound
/-- every member is in at least one of the three sets -/
def PodSets.Cov (g : PodSets) : Prop := ∀ p, p ∈ g.children → p ∈ g.pending ∨ p ∈ g.waiting ∨ p ∈ g.bound

/-- the part of the partition that holds after ANY history -/
def PodSets.Base (g : PodSets) : Prop := g.D1 ∧ g.D3 ∧ g.Cov

theorem PodSets.empty_base : PodSets.empty.Base := by
  refine ⟨?_, ?_, ?_⟩ <;> intro p h <;> simp [PodSets.empty] at h

theorem PodSets.empty_D2 : PodSets.empty.D2 := by
  intro p h; simp [PodSets.empty] at h

theorem PodSets.setChild_false_base (g : PodSets) (p : Pod) (h : g.Base) : (g.setChild p false).Base := by
  obtain ⟨h1, h3, hc⟩ := h
  unfold PodSets.setChild
  simp only
  split
  next hc' =>
    obtain ⟨_, hw, hb⟩ := hc'
    refine ⟨?_, ?_, ?_⟩
    · intro q hq
      simp only [mem_sIns] at hq
      rcases hq with rfl | hq
      · exact hw
      · exact h1 q hq
    · intro q hq
      simp only [mem_sIns] at hq
      rcases hq with rfl | hq
      · exact hb
      · exact h3 q hq
    · intro q hq
      simp only [mem_sIns] at hq ⊢
      rcases hq with rfl | hq
      · exact Or.inl (Or.inl rfl)
      · rcases hc q hq with h | h | h
        · exact Or.inl (Or.inr h)
        · exact Or.inr (Or.inl h)
        · exact Or.inr (Or.inr h)
  next hc' =>
    refine ⟨h1, h3, ?_⟩
    intro q hq
    simp only [mem_sIns] at hq
    rcases hq with rfl | hq
    · by_cases hw : q ∈ g.waiting
      · exact Or.inr (Or.inl hw)
      · by_cases hb : q ∈ g.bound
        · exact Or.inr (Or.inr hb)
        · exact absurd ⟨rfl, hw, hb⟩ hc'
    · exact hc q hq

theorem PodSets.addBound_base (g : PodSets) (p : Pod) (h : g.Base) : (g.addBound p).Base := by
  obtain ⟨h1, h3, hc⟩ := h
  unfold PodSets.addBound
  refine ⟨?_, ?_, ?_⟩
  · intro q hq
    simp only [mem_sDel] at hq ⊢
    exact fun hw => h1 q hq.1 hw.1
  · intro q hq
    simp only [mem_sDel, mem_sIns] at hq ⊢
    rintro (rfl | hb)
    · exact hq.2 rfl
    · exact h3 q hq.1 hb
  · intro q hq
    simp only [mem_sDel, mem_sIns]
    by_cases hqp : q = p
    · exact Or.inr (Or.inr (Or.inl hqp))
    · rcases hc q hq with h | h | h
      · exact Or.inl ⟨h, hqp⟩
      · exact Or.inr (Or.inl ⟨h, hqp⟩)
      · exact Or.inr (Or.inr (Or.inr h))

/-- onPodAddInternal with a node name: setChild then addBoundPod -/
theorem PodSets.setChild_true_addBound_base (g : PodSets) (p : Pod) (h : g.Base) :
    ((g.setChild p true).addBound p).Base := by
  obtain ⟨h1, h3, hc⟩ := h
  have e : g.setChild p true = { g with children := sIns p g.children } := by
    unfold PodSets.setChild; simp
  rw [e]
  unfold PodSets.addBound
  refine ⟨?_, ?_, ?_⟩
  · intro q hq
    simp only [mem_sDel] at hq ⊢
    exact fun hw => h1 q hq.1 hw.1
  · intro q hq
    simp only [mem_sDel, mem_sIns] at hq ⊢
    rintro (rfl | hb)
    · exact hq.2 rfl
    · exact h3 q hq.1 hb
  · intro q hq
    simp only [mem_sDel, mem_sIns] at hq ⊢
    by_cases hqp : q = p
    · exact Or.inr (Or.inr (Or.inl hqp))
    · rcases hq with hq | hq
      · exact absurd hq hqp
      · rcases hc q hq with h | h | h
        · exact Or.inl ⟨h, hqp⟩
        · exact Or.inr (Or.inl ⟨h, hqp⟩)
        · exact Or.inr (Or.inr (Or.inr h))

theorem PodSets.addAssumed_base (g : PodSets) (p : Pod) (h : g.Base) : (g.addAssumed p).Base := by
  obtain ⟨h1, h3, hc⟩ := h
  unfold PodSets.addAssumed
  refine ⟨?_, ?_, ?_⟩
  · intro q hq
    simp only [mem_sDel, mem_sIns] at hq ⊢
    rintro (rfl | hw)
    · exact hq.2 rfl
    · exact h1 q hq.1 hw
  · intro q hq
    simp only [mem_sDel] at hq
    exact h3 q hq.1
  · intro q hq
    simp only [mem_sDel, mem_sIns]
    by_cases hqp : q = p
    · exact Or.inr (Or.inl (Or.inl hqp))
    · rcases hc q hq with h | h | h
      · exact Or.inl ⟨h, hqp⟩
      · exact Or.inr (Or.inl (Or.inr h))
      · exact Or.inr (Or.inr h)

/-- delAssumedPod needs waiting ∩ bound = ∅ to keep pending ∩ bound = ∅ -/
theorem PodSets.delAssumed_base (g : PodSets) (p : Pod) (h : g.Base) (h2 : g.D2) : (g.delAssumed p).Base := by
  obtain ⟨h1, h3, hc⟩ := h
  unfold PodSets.delAssumed
  split
  next hw =>
    refine ⟨?_, ?_, ?_⟩
    · intro q hq
      simp only [mem_sDel]
      split at hq
      · simp only [mem_sIns] at hq
        rcases hq with rfl | hq
        · exact fun h => h.2 rfl
        · exact fun h => h1 q hq h.1
      · exact fun h => h1 q hq h.1
    · intro q hq
      simp only at hq ⊢
      split at hq
      · simp only [mem_sIns] at hq
        rcases hq with rfl | hq
        · exact h2 q hw
        · exact h3 q hq
      · exact h3 q hq
    · intro q hq
      simp only at hq ⊢
      simp only [mem_sDel]
      by_cases hqp : q = p
      · subst hqp
        rw [if_pos hq]
        exact Or.inl (mem_sIns.mpr (Or.inl rfl))
      · rcases hc q hq with h | h | h
        · refine Or.inl ?_
          split
          · exact mem_sIns.mpr (Or.inr h)
          · exact h
        · exact Or.inr (Or.inl ⟨h, hqp⟩)
        · exact Or.inr (Or.inr h)
  next => exact ⟨h1, h3, hc⟩

theorem PodSets.deletePod_base (g : PodSets) (p : Pod) (h : g.Base) : (g.deletePod p).Base := by
  obtain ⟨h1, h3, hc⟩ := h
  unfold PodSets.deletePod
  refine ⟨?_, ?_, ?_⟩
  · intro q hq
    simp only [mem_sDel] at hq ⊢
    exact fun hw => h1 q hq.1 hw.1
  · intro q hq
    simp only [mem_sDel] at hq ⊢
    exact fun hb => h3 q hq.1 hb.1
  · intro q hq
    simp only [mem_sDel] at hq ⊢
    rcases hc q hq.1 with h | h | h
    · exact Or.inl ⟨h, hq.2⟩
    · exact Or.inr (Or.inl ⟨h, hq.2⟩)
    · exact Or.inr (Or.inr ⟨h, hq.2⟩)

end KoordVerif.C04
