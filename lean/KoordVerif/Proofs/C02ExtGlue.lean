import KoordVerif.Model.C02Glue
import KoordVerif.Proofs.C02Iter
/-
C02 extension — helper lemmas for
  * "a sibling whose shared weight is not positive gets nothing beyond its minimum" through the whole
    iteration (so far only the per-round delta was proved), and
  * the glue between the declared ElasticQuota object and the quotaNode (Model/C02Glue.lean), and
  * the loop domain of the calculator's mutators (per-dimension trees).
-/
namespace KoordVerif.C02

/-! ### zero-weight pairs pass through every round unchanged -/

theorem addDeltas_zero_weight (ns : List (Node × Int)) (ds : List Int)
    (hz : ∀ j (h1 : j < ns.length) (h2 : j < ds.length), (ns[j]).1.weight ≤ 0 → ds[j] = 0) :
    ∀ q ∈ addDeltas ns ds, q.1.weight ≤ 0 → q ∈ ns := by
  induction ns generalizing ds with
  | nil => intro q hq; cases ds <;> simp [addDeltas] at hq
  | cons p ps ih =>
    cases ds with
    | nil => intro q hq; simp [addDeltas] at hq
    | cons d ds =>
      intro q hq hw
      simp only [addDeltas, List.mem_cons] at hq
      rcases hq with rfl | hq
      · have h0 := hz 0 (by simp) (by simp) (by simpa using hw)
        simp only [List.getElem_cons_zero] at h0
        subst h0
        simp
      · have := ih ds (fun j h1 h2 hw' => by
          have := hz (j + 1) (by simp; omega) (by simp; omega) (by simpa using hw')
          simpa using this) q hq hw
        simp [this]

theorem round_zero_weight (T W : Int) (ns : List (Node × Int)) :
    ∀ q ∈ addDeltas ns (hamilton T W (ns.map (·.1))), q.1.weight ≤ 0 → q ∈ ns := by
  apply addDeltas_zero_weight
  intro j h1 h2 hw
  have hj : j < (ns.map (·.1)).length := by simpa using h1
  have := hamilton_zero_weight_delta T W (ns.map (·.1)) j hj (by simpa using hw)
  exact this

/-- through the whole iteration: a pair whose node has no positive shared weight comes out exactly as
    it went in (it never receives a delta and is never capped). -/
theorem iter_zero_weight_unchanged (fuel : Nat) (T W : Int) (ns : List (Node × Int))
    (hinv : ∀ p ∈ ns, p.2 < p.1.request) :
    ∀ q ∈ (iter fuel T W ns).1, q.1.weight ≤ 0 → q ∈ ns := by
  induction fuel generalizing T W ns with
  | zero => intro q hq _; simpa [iter] using hq
  | succ fuel ih =>
    unfold iter
    split
    · intro q hq _; exact hq
    · simp only []
      have hround := round_zero_weight T W ns
      generalize addDeltas ns (hamilton T W (ns.map (·.1))) = ns' at *
      have hstill : ∀ p ∈ stillOf ns', p.2 < p.1.request := fun p hp => (mem_still ns' p hp).2
      have hdone : ∀ q ∈ (cappedOf ns').map (fun p => (p.1, p.1.request)), q.1.weight ≤ 0 → q ∈ ns := by
        intro q hq hw
        obtain ⟨p, hp, rfl⟩ := List.mem_map.mp hq
        have hc := mem_capped ns' p hp
        have hpn := hround p hc.1 (by simpa using hw)
        have := hinv p hpn
        omega
      split
      · intro q hq hw
        rcases List.mem_append.mp hq with h | h
        · exact hdone q h hw
        · have := ih _ _ _ hstill q h hw
          exact hround q (mem_still ns' q this).1 hw
      · intro q hq hw
        rcases List.mem_append.mp hq with h | h
        · exact hdone q h hw
        · exact hround q (mem_still ns' q h).1 hw

/-! ### the glue: declared object ↦ quotaNode -/

theorem rlGet_of_find_none (l : RL) (d : Nat) (h : rlFind l d = none) : rlGet l d = 0 := by
  simp [rlGet, h]

theorem rlGet_of_find_some (l : RL) (d : Nat) (v : Int) (h : rlFind l d = some v) : rlGet l d = v := by
  simp [rlGet, h]

theorem rlFind_mem (l : RL) (d : Nat) (v : Int) (h : rlFind l d = some v) : (d, v) ∈ l := by
  induction l with
  | nil => simp [rlFind] at h
  | cons p ps ih =>
    obtain ⟨k, w⟩ := p
    unfold rlFind at h
    split at h
    · rename_i hk; cases h; subst hk; simp
    · simp [ih h]

theorem rlGet_nonneg (l : RL) (d : Nat) (h : ∀ p ∈ l, 0 ≤ p.2) : 0 ≤ rlGet l d := by
  unfold rlGet
  cases hf : rlFind l d with
  | none => simp
  | some v => simpa using h _ (rlFind_mem l d v hf)

theorem sharedWeight_parsed_nonzero (l max : RL) (d : Nat) (hz : rlIsZero l = false) :
    sharedWeight (.parsed l) max d = rlGet l d := by
  simp [sharedWeight, sharedWeightList, hz]

theorem sharedWeight_default (a : Ann) (max : RL) (d : Nat)
    (h : a = .absent ∨ a = .invalid ∨ ∃ l, a = .parsed l ∧ rlIsZero l = true) :
    sharedWeight a max d = rlGet max d := by
  rcases h with rfl | rfl | ⟨l, rfl, hz⟩ <;> simp [sharedWeight, sharedWeightList, *]

theorem sharedWeight_nonneg (a : Ann) (max : RL) (d : Nat) (hmax : ∀ p ∈ max, 0 ≤ p.2)
    (hann : ∀ l, a = .parsed l → ∀ p ∈ l, 0 ≤ p.2) : 0 ≤ sharedWeight a max d := by
  unfold sharedWeight sharedWeightList
  cases a with
  | absent => exact rlGet_nonneg _ _ hmax
  | invalid => exact rlGet_nonneg _ _ hmax
  | parsed l =>
    simp only []
    split
    · exact rlGet_nonneg _ _ hmax
    · exact rlGet_nonneg _ _ (hann l rfl)

theorem limitedRequest_le_max (gate : Bool) (q : QDecl) (d : Nat) (m : Int) (h : rlFind q.max d = some m) :
    limitedRequest gate q d ≤ m := by
  unfold limitedRequest; rw [h]; simp only []; split <;> omega

theorem limitedRequest_uncapped (gate : Bool) (q : QDecl) (d : Nat) (h : rlFind q.max d = none) :
    limitedRequest gate q d = declRequest gate q d := by
  unfold limitedRequest; rw [h]

theorem declRequest_nolend_ge_min (gate : Bool) (q : QDecl) (d : Nat) (h : allowLent gate q.label = false) :
    rlGet q.min d ≤ declRequest gate q d ∧ q.childReq ≤ declRequest gate q d := by
  unfold declRequest; rw [h]; simp only [Bool.false_eq_true, if_false]; split <;> omega

theorem declRequest_lend (gate : Bool) (q : QDecl) (d : Nat) (h : allowLent gate q.label = true) :
    declRequest gate q d = q.childReq := by
  unfold declRequest; rw [h]; simp

theorem guaranteeOf_off (q : QDecl) (d : Nat) : guaranteeOf false q d = 0 := by simp [guaranteeOf]

theorem guaranteeOf_on (q : QDecl) (d : Nat) :
    rlGet q.min d ≤ guaranteeOf true q d ∧ q.alloc ≤ guaranteeOf true q d := by
  unfold guaranteeOf; simp only [Bool.not_true, Bool.false_eq_true, if_false]; split <;> omega

/-! ### per-dimension trees: the loop runs over the calculator's dimensions -/

theorem calcD_update_mem (set : Node → Int → Node) (c : CalcD) (name : Nat) (l : RL) (d : Nat)
    (hd : c.keys.contains d = true) (n : Node) (hn : n ∈ (c.update set name l).trees d) :
    ∃ n0 ∈ c.trees d, n = if n0.name = name then set n0 (rlGet l d) else n0 := by
  unfold CalcD.update at hn
  simp only [hd, if_true] at hn
  obtain ⟨n0, h0, rfl⟩ := List.mem_map.mp hn
  exact ⟨n0, h0, rfl⟩

theorem calcD_update_untracked (set : Node → Int → Node) (c : CalcD) (name : Nat) (l : RL) (d : Nat)
    (hd : c.keys.contains d = false) : (c.update set name l).trees d = c.trees d := by
  unfold CalcD.update
  simp only [hd]
  simp

theorem calcD_update_last_wins (set : Node → Int → Node) (hname : ∀ n v, (set n v).name = n.name)
    (hset : ∀ n a b, set (set n a) b = set n b) (c : CalcD) (name : Nat) (l1 l2 : RL) (d : Nat) :
    ((c.update set name l1).update set name l2).trees d = (c.update set name l2).trees d := by
  unfold CalcD.update
  simp only []
  cases hd : c.keys.contains d
  · simp
  · simp only [if_true, List.map_map]
    apply List.map_congr_left
    intro n _
    simp only [Function.comp]
    by_cases hn : n.name = name
    · simp [hn, hname, hset]
    · simp [hn]

end KoordVerif.C02
