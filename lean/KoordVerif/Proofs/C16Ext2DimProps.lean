import KoordVerif.Proofs.C16Ext2Dim
namespace KoordVerif.C16

/-- **round_inv_dim**: `round_inv` with the exempt admissions charged per dimension (what the Go oracle checks): after a
    round each counter is at most max(limit, its value before) + the number of exempt admissions of the round THAT LIE
    IN THE SAME DIMENSION — for namespace `k` those whose PodRef is in `k` (`exNs`), for node `n` those referring (by UID
    or namespace/name) to a pod on `n` (`exNode`), for workload `wl` in namespace `k` those naming a pod of `wl` through
    a PodRef in `k` (`exWl`).  An exempt admission elsewhere does not move the counter.  (The global clause of
    `round_inv` is already of this form.) -/
theorem round_inv_dim (cfg : ArbCfg) (uf : List Nat) (st : ArbSt) (order : List Nat) (w : WF st) :
    let st' := round cfg uf st order
    (∀ n, n ≠ 0 → gateSkipped cfg 3 = false → 0 < cfg.maxNode →
      cntNode st' n ≤ max cfg.maxNode.toNat (cntNode st n) + roundEx (exNode cfg uf n) cfg uf st order) ∧
    (∀ k, gateSkipped cfg 4 = false → 0 < cfg.maxNs →
      cntNs st' k ≤ max cfg.maxNs.toNat (cntNs st k) + roundEx (exNs cfg uf k) cfg uf st order) ∧
    (∀ wl k, wl ≠ 0 → gateSkipped cfg 2 = false →
      cntMigr st' wl k ≤ max (max (wlLimit cfg wl cfg.mmKind cfg.maxMigr) 1) (cntMigr st wl k) +
        roundEx (exWl cfg uf wl k) cfg uf st order) ∧
    (∀ wl k, wl ≠ 0 → gateSkipped cfg 1 = false →
      cntUnav st' wl k ≤ max (wlLimit cfg wl cfg.muKind cfg.maxUnav) (cntUnav st wl k) +
        roundEx (exWl cfg uf wl k) cfg uf st order) := by
  refine ⟨fun n hn hs hl => ?_, fun k hs hl => ?_, fun wl k hw hs => ?_, fun wl k hw hs => ?_⟩
  · exact fold_bound_ex cfg uf (cntNode · n) _ _ (fun s j ws => step_node_dim cfg uf s j ws n hn hs hl) order st w
  · exact fold_bound_ex cfg uf (cntNs · k) _ _ (fun s j ws => step_ns_dim cfg uf s j ws k hs hl) order st w
  · exact fold_bound_ex cfg uf (cntMigr · wl k) _ _ (fun s j ws => step_migr_dim cfg uf s j ws wl k hw hs) order st w
  · exact fold_bound_ex cfg uf (cntUnav · wl k) _ _ (fun s j ws => step_unav_dim cfg uf s j ws wl k hw hs) order st w

/-- the per-dimension exempt counts are at most the round's total (so `round_inv_dim` implies `round_inv`) -/
theorem round_exempt_dim_le (cfg : ArbCfg) (uf : List Nat) (st : ArbSt) (order : List Nat) (n k wl : Nat) :
    roundEx (exNode cfg uf n) cfg uf st order ≤ roundExempt cfg uf st order ∧
    roundEx (exNs cfg uf k) cfg uf st order ≤ roundExempt cfg uf st order ∧
    roundEx (exWl cfg uf wl k) cfg uf st order ≤ roundExempt cfg uf st order := by
  refine ⟨roundEx_le _ cfg uf ?_ order st, roundEx_le _ cfg uf ?_ order st, roundEx_le _ cfg uf ?_ order st⟩
  · intro s j h; simp only [exNode, Bool.and_eq_true] at h; exact h.1
  · intro s j h; simp only [exNs, Bool.and_eq_true] at h; exact h.1
  · intro s j h; simp only [exWl, Bool.and_eq_true] at h; exact h.1

-- non-vacuity: an annotated pod of namespace 2 is admitted beyond every limit; namespace 1 (limit 1, one job running)
-- is charged nothing for it, so its waiting job stays out: the per-dimension bound is 1 ≤ max 1 1 + 0
example :
    let cfg : ArbCfg := { maxGlobal := -1, maxNode := -1, maxNs := 1, maxMigr := -1, maxUnav := -1, replicas := [(1, 8)] }
    let st : ArbSt := { pods := [⟨1, 1, 1, 1, true, false, false, 0⟩, ⟨2, 2, 1, 1, true, false, false, 0⟩,
                                 ⟨3, 3, 2, 1, true, true, false, 0⟩],
                        jobs := [⟨1, 1, 1, 2, true, 1⟩, ⟨2, 2, 1, 0, false, 2⟩, ⟨3, 3, 2, 0, false, 3⟩], waiting := [2, 3] }
    WF st ∧ roundExempt cfg [] st [3, 2] = 1 ∧ roundEx (exNs cfg [] 1) cfg [] st [3, 2] = 0 ∧
      roundEx (exNs cfg [] 2) cfg [] st [3, 2] = 1 ∧ cntNs (round cfg [] st [3, 2]) 1 = 1 ∧
      cntNs (round cfg [] st [3, 2]) 2 = 1 := by decide

end KoordVerif.C16
