import KoordVerif.Proofs.C01ExtCnt
/-
C01 extension (schedules quantifier), part 3: the separately locked SECTIONS of the pod handlers (`Micro`), their
effect on the shared state (`mstep`, built from the very functions the atomic model `step` is built from), and
the thread-local abstraction of a handler that works on pod `i`:
  `Loc`  = the cache entries of pod i (per group) + the counted amounts of pod i (per group),
  `lstep`= effect of a section on `Loc` (needs only `Loc` and the static data `stat`),
  `okStep` = what the section needs in order to keep `CI` (decidable, local).
`mstep_CI`: a section of the handler of pod i that is `okStep` keeps `CI`, acts on pod i's `Loc` as `lstep` says,
leaves every other pod's `Loc` and all static data alone.

Which Go critical section each `Micro` is (group_quota_manager.go / quota_info.go), all inside
hierarchyUpdateLock.RLock() of OnPodAdd / OnPodUpdate / OnPodDelete:
  cacheAdd    QuotaInfo.addPodIfNotPresent      under QuotaInfo.lock (write) of the group
  cacheRemove QuotaInfo.removePodIfPresent      under QuotaInfo.lock (write) of the group
  setAsg      QuotaInfo.UpdatePodIsAssigned     under QuotaInfo.lock (write) of the group
  ghost       (no Go step: remembers the object delivered last)
  req         updatePodRequestNoLock: reads Max (only changed under the hierarchy WRITE lock), then
              updateGroupDeltaRequestNoLock = whole leaf-to-root path locked (scopedLockForQuotaInfo) before the
              first mutation (Ties/C01.lean tie_lock_before_mutation)
  used        updatePodUsedNoLock: CheckPodIsAssigned of the handler's own pod (QuotaInfo.lock, read), then
              updateGroupDeltaUsedNoLock under the path locks
-/
namespace KoordVerif.C01

inductive Micro where
  | cacheAdd (n : Nat) (o : PodObj)
  | cacheRemove (n id : Nat)
  | setAsg (n id : Nat) (flag : Bool)
  | ghost (n : Nat) (o : PodObj)
  | req (n id : Nat) (old new : Option PodObj)
  | used (n id : Nat) (old new : Option PodObj)
deriving Repr

def mstep (s : State) : Micro → State
  | .cacheAdd n o => cacheAdd s n o
  | .cacheRemove n id => cacheRemove s n id
  | .setAsg n id f => setAssigned s n id f
  | .ghost n o => setGhost s n o
  | .req n _ old new => updPodReq s n old new
  | .used n id old new => updPodUsed s n id old new

def Micro.owner : Micro → Nat
  | .cacheAdd _ o => o.id
  | .cacheRemove _ id => id
  | .setAsg _ id _ => id
  | .ghost _ o => o.id
  | .req _ id _ _ => id
  | .used _ id _ _ => id

@[ext] structure Loc where
  ent : Nat → Option Pod
  r : Nat → Int
  np : Nat → Int
  u : Nat → Int
  nu : Nat → Int

def localOf (s : State) (c : Cnts) (i : Nat) : Loc :=
  { ent := fun m => entry s m i, r := fun m => c.r m i, np := fun m => c.np m i,
    u := fun m => c.u m i, nu := fun m => c.nu m i }

def upd {α} (f : Nat → α) (n : Nat) (x : α) : Nat → α := fun m => if m = n then x else f m

/-- the masked delta of updatePodRequestNoLock / updatePodUsedNoLock -/
def dR (mx : Bool) (old new : Option PodObj) : Int := if mx then reqOf new - reqOf old else 0
def dN (mx : Bool) (old new : Option PodObj) : Int := if mx then npOf new - npOf old else 0

def lstep (st : Nat → Option Bool) (L : Loc) : Micro → Loc
  | .cacheAdd n o =>
    match st n with
    | none => L
    | some _ => if (L.ent n).isSome then L else { L with ent := upd L.ent n (some (newEntry o)) }
  | .cacheRemove n _ =>
    match st n with
    | none => L
    | some _ => { L with ent := upd L.ent n none }
  | .setAsg n _ f => { L with ent := upd L.ent n ((L.ent n).map (gAsg f)) }
  | .ghost n o => { L with ent := upd L.ent n ((L.ent n).map (gGhost o)) }
  | .req n _ old new =>
    match st n with
    | none => L
    | some mx => { L with r := upd L.r n (L.r n + dR mx old new), np := upd L.np n (L.np n + dN mx old new) }
  | .used n _ old new =>
    match st n with
    | none => L
    | some mx => { L with u := upd L.u n (L.u n + dR mx old new), nu := upd L.nu n (L.nu n + dN mx old new) }

def okStep (st : Nat → Option Bool) (i : Nat) (L : Loc) : Micro → Prop
  | .cacheAdd n o => o.id = i ∧ 0 ≤ o.req ∧ (L.ent n = none → L.r n = 0 ∧ L.np n = 0 ∧ L.u n = 0 ∧ L.nu n = 0)
  | .cacheRemove n id => id = i ∧ L.r n = 0 ∧ L.np n = 0 ∧ L.u n = 0 ∧ L.nu n = 0
  | .setAsg _ id _ => id = i
  | .ghost _ o => o.id = i ∧ 0 ≤ o.req
  | .req n id old new => id = i ∧ ∃ mx, st n = some mx ∧ (L.ent n).isSome = true ∧
      0 ≤ L.r n + dR mx old new ∧ 0 ≤ L.np n + dN mx old new
  | .used n id old new => id = i ∧ ∃ mx e, st n = some mx ∧ L.ent n = some e ∧ e.assigned = true ∧
      (old.isSome || new.isSome) = true ∧ 0 ≤ L.u n + dR mx old new ∧ 0 ≤ L.nu n + dN mx old new

theorem statN_of_keepR {s s' : State}
    (h : s'.map (fun x => (x.name, keepR x)) = s.map (fun x => (x.name, keepR x)))
    (h2 : s'.map (fun q => (q.parent, q.lend, q.min)) = s.map (fun q => (q.parent, q.lend, q.min))) :
    s'.map statN = s.map statN := by
  induction s generalizing s' with
  | nil => cases s' <;> simp_all
  | cons x t ih =>
    cases s' with
    | nil => simp at h
    | cons y t' =>
      simp only [List.map_cons, List.cons.injEq, Prod.mk.injEq, keepR] at h h2 ⊢
      exact ⟨by simp [statN, h.1.1, h.1.2.2.1, h2.1.1, h2.1.2.1, h2.1.2.2], ih h.2 h2.2⟩

theorem updPodReq_statN (s : State) (n : Nat) (old new : Option PodObj) :
    (updPodReq s n old new).map statN = s.map statN := by
  unfold updPodReq
  cases get? s n with
  | none => rfl
  | some q =>
    exact map_ite _ _ _ _ _ rfl
      (propReqW_map statN (fun q q' h => by simp [statN, h.name, h.parent, h.lend, h.min, h.max]) clamp0 _ s true _ _)

theorem updPodUsed_statN (s : State) (n id : Nat) (old new : Option PodObj) :
    (updPodUsed s n id old new).map statN = s.map statN := by
  unfold updPodUsed
  cases get? s n with
  | none => rfl
  | some q =>
    exact map_ite _ _ _ _ _ rfl (map_ite _ _ _ _ _ rfl
      (propUsedW_map statN (fun q q' h => by simp [statN, h.name, h.parent, h.lend, h.min, h.max]) clamp0 _ s true _ _))

theorem pods_of_keepR {s s' : State}
    (h : s'.map (fun x => (x.name, keepR x)) = s.map (fun x => (x.name, keepR x))) :
    s'.map (fun q => (q.name, q.pods)) = s.map (fun q => (q.name, q.pods)) := by
  have := congrArg (List.map (fun (e : Nat × List Pod × Option Int × Int × Int) => (e.1, e.2.1))) h
  simpa [List.map_map, Function.comp_def, keepR] using this

theorem pods_of_keepU {s s' : State}
    (h : s'.map (fun x => (x.name, keepU x)) = s.map (fun x => (x.name, keepU x))) :
    s'.map (fun q => (q.name, q.pods)) = s.map (fun q => (q.name, q.pods)) := by
  have := congrArg (List.map (fun (e : Nat × List Pod × Option Int × Int × Int) => (e.1, e.2.1))) h
  simpa [List.map_map, Function.comp_def, keepU] using this

/-- generic part of the cache-only sections: the new cache list of group `n` differs from the old one only in the
entry of pod `i` -/
theorem cacheSection {s : State} {c : Cnts} {i n : Nat} {q : Quota} (ps' : List Pod) (e' : Option Pod)
    (h : CI s c) (hq : get? s n = some q)
    (hnn : ∀ p ∈ ps', 0 ≤ p.req) (hnd : (ps'.map (·.id)).Nodup)
    (hs : cntSum (c.r n) ps' = cntSum (c.r n) q.pods ∧ cntSum (c.np n) ps' = cntSum (c.np n) q.pods ∧
      cntSum (c.u n) ps' = cntSum (c.u n) q.pods ∧ cntSum (c.nu n) ps' = cntSum (c.nu n) q.pods)
    (hget : ∀ j, getPod ps' j = if j = i then e' else getPod q.pods j) :
    CI (set s { q with pods := ps' }) c ∧
    localOf (set s { q with pods := ps' }) c i = { localOf s c i with ent := upd (localOf s c i).ent n e' } ∧
    (∀ j, j ≠ i → localOf (set s { q with pods := ps' }) c j = localOf s c j) ∧
    (set s { q with pods := ps' }).map statN = s.map statN := by
  obtain ⟨h1, h2⟩ := setPods_CI ps' h hq hnn hnd hs
  refine ⟨h1, ?_, ?_, h2⟩
  · apply Loc.ext <;> try rfl
    funext m
    simp only [localOf, upd, entry_setPods ps' hq m i, hget i, if_true]
  · intro j hj
    apply Loc.ext <;> try rfl
    funext m
    simp only [localOf, entry_setPods ps' hq m j, hget j, hj, if_false]
    by_cases hm : m = n
    · subst hm; simp [entry, hq]
    · simp [hm]

theorem entry_some_get {s : State} {n i : Nat} {q : Quota} (hq : get? s n = some q) :
    entry s n i = getPod q.pods i := by simp [entry, hq]

theorem stat_some {s : State} {n : Nat} {q : Quota} (hq : get? s n = some q) : stat s n = some q.max.isSome := by
  simp [stat, hq]

theorem stat_none {s : State} {n : Nat} (hq : get? s n = none) : stat s n = none := by
  simp [stat, hq]

/-- Every section of the handler of pod `i` that is `okStep` keeps the invariant, acts on the local view of pod `i`
as `lstep` says, and is invisible to the local view of every other pod and to the static data. -/
theorem mstep_CI {s : State} {c : Cnts} {i : Nat} {m : Micro} (h : CI s c)
    (hok : okStep (stat s) i (localOf s c i) m) :
    ∃ c', CI (mstep s m) c' ∧ localOf (mstep s m) c' i = lstep (stat s) (localOf s c i) m ∧
      (∀ j, j ≠ i → localOf (mstep s m) c' j = localOf s c j) ∧ (mstep s m).map statN = s.map statN := by
  cases m with
  | cacheAdd n o =>
    obtain ⟨hid, hnn, hzero⟩ := hok
    subst hid
    cases hq : get? s n with
    | none =>
      refine ⟨c, ?_, ?_, fun _ _ => ?_, ?_⟩ <;> simp [mstep, cacheAdd, hq, lstep, stat_none hq] <;> exact h
    | some q =>
      have hent : (localOf s c o.id).ent n = getPod q.pods o.id := entry_some_get hq
      cases he : getPod q.pods o.id with
      | some e =>
        have hex : podExists q o.id = true := by rw [podExists_eq, he]; rfl
        refine ⟨c, ?_, ?_, fun _ _ => ?_, ?_⟩ <;>
          simp [mstep, cacheAdd, hq, hex, lstep, stat_some hq, hent, he] <;> exact h
      | none =>
        have hex : podExists q o.id = false := by rw [podExists_eq, he]; rfl
        have heq : mstep s (.cacheAdd n o) = set s { q with pods := newEntry o :: q.pods } := by
          simp [mstep, cacheAdd, hq, hex, newEntry]
        obtain ⟨z1, z2, z3, z4⟩ := hzero (by rw [hent]; exact he)
        simp only [localOf] at z1 z2 z3 z4
        have hqs := get?_mem hq
        have hcs := cacheSection (i := o.id) (newEntry o :: q.pods) (some (newEntry o)) h hq
          (by
            intro x hx
            rcases List.mem_cons.mp hx with e | e
            · subst e; exact hnn
            · exact (h.params q hqs).2 x e)
          (by
            simp only [List.map_cons, List.nodup_cons]
            refine ⟨?_, h.pods q hqs⟩
            intro hmem
            obtain ⟨x, hx, hxe⟩ := List.mem_map.mp hmem
            exact getPod_none_iff.mp he x hx hxe)
          (by simp [cntSum, newEntry, z1, z2, z3, z4])
          (by
            intro j
            simp only [getPod, newEntry]
            by_cases hj : j = o.id
            · subst hj; simp
            · have : ¬ o.id = j := fun e => hj e.symm
              simp [hj, this])
        rw [heq]
        refine ⟨c, hcs.1, ?_, hcs.2.2.1, hcs.2.2.2⟩
        rw [hcs.2.1]
        simp [lstep, stat_some hq, hent, he]
  | cacheRemove n id =>
    obtain ⟨hid, z1, z2, z3, z4⟩ := hok
    subst hid
    simp only [localOf] at z1 z2 z3 z4
    cases hq : get? s n with
    | none =>
      refine ⟨c, ?_, ?_, fun _ _ => ?_, ?_⟩ <;> simp [mstep, cacheRemove, hq, lstep, stat_none hq] <;> exact h
    | some q =>
      have heq : mstep s (.cacheRemove n id) = set s { q with pods := q.pods.filter (fun p => p.id != id) } := by
        simp [mstep, cacheRemove, hq]
      have hqs := get?_mem hq
      have hcs := cacheSection (i := id) (q.pods.filter (fun p => p.id != id)) none h hq
        (fun x hx => (h.params q hqs).2 x (List.mem_filter.mp hx).1)
        ((List.filter_sublist.map _).nodup (h.pods q hqs))
        ⟨cntSum_filter_zero z1 _, cntSum_filter_zero z2 _, cntSum_filter_zero z3 _, cntSum_filter_zero z4 _⟩
        (fun j => getPod_filter id j q.pods)
      rw [heq]
      refine ⟨c, hcs.1, ?_, hcs.2.2.1, hcs.2.2.2⟩
      rw [hcs.2.1]
      simp [lstep, stat_some hq]
  | setAsg n id f =>
    have hid : id = i := hok
    subst hid
    cases hq : get? s n with
    | none =>
      have hent : (localOf s c id).ent n = none := by simp [localOf, entry, hq]
      refine ⟨c, ?_, ?_, fun _ _ => ?_, ?_⟩ <;> simp [mstep, setAssigned, hq] <;> try exact h
      apply Loc.ext <;> try rfl
      funext m
      simp only [lstep, upd, hent, Option.map_none]
      by_cases hm : m = n
      · subst hm; simp [hent]
      · simp [hm]
    | some q =>
      have hg : ∀ x, (gAsg f x).id = x.id := fun _ => rfl
      have hqs := get?_mem hq
      have hent : (localOf s c id).ent n = getPod q.pods id := entry_some_get hq
      have hcs := cacheSection (i := id) (updPods (gAsg f) id q.pods) ((getPod q.pods id).map (gAsg f)) h hq
        (by
          intro x hx
          rcases mem_updPods hx with e1 | ⟨p, hp, _, rfl⟩
          · exact (h.params q hqs).2 x e1
          · exact (h.params q hqs).2 p hp)
        (by rw [ids_updPods _ hg]; exact h.pods q hqs)
        ⟨cntSum_updPods _ hg _ _, cntSum_updPods _ hg _ _, cntSum_updPods _ hg _ _, cntSum_updPods _ hg _ _⟩
        (fun j => getPod_updPods' hg id j q.pods)
      have heq : mstep s (.setAsg n id f) = set s { q with pods := updPods (gAsg f) id q.pods } := setAssigned_eq hq id f
      rw [heq]
      refine ⟨c, hcs.1, ?_, hcs.2.2.1, hcs.2.2.2⟩
      rw [hcs.2.1]
      simp [lstep, hent]
  | ghost n o =>
    obtain ⟨hid, hnn⟩ := hok
    subst hid
    cases hq : get? s n with
    | none =>
      have hent : (localOf s c o.id).ent n = none := by simp [localOf, entry, hq]
      refine ⟨c, ?_, ?_, fun _ _ => ?_, ?_⟩ <;> simp [mstep, setGhost, hq] <;> try exact h
      apply Loc.ext <;> try rfl
      funext m
      simp only [lstep, upd, hent, Option.map_none]
      by_cases hm : m = n
      · subst hm; simp [hent]
      · simp [hm]
    | some q =>
      have hg : ∀ x, (gGhost o x).id = x.id := fun _ => rfl
      have hqs := get?_mem hq
      have hent : (localOf s c o.id).ent n = getPod q.pods o.id := entry_some_get hq
      have hcs := cacheSection (i := o.id) (updPods (gGhost o) o.id q.pods) ((getPod q.pods o.id).map (gGhost o)) h hq
        (by
          intro x hx
          rcases mem_updPods hx with e1 | ⟨p, hp, _, rfl⟩
          · exact (h.params q hqs).2 x e1
          · exact hnn)
        (by rw [ids_updPods _ hg]; exact h.pods q hqs)
        ⟨cntSum_updPods _ hg _ _, cntSum_updPods _ hg _ _, cntSum_updPods _ hg _ _, cntSum_updPods _ hg _ _⟩
        (fun j => getPod_updPods' hg o.id j q.pods)
      have heq : mstep s (.ghost n o) = set s { q with pods := updPods (gGhost o) o.id q.pods } := setGhost_eq hq o
      rw [heq]
      refine ⟨c, hcs.1, ?_, hcs.2.2.1, hcs.2.2.2⟩
      rw [hcs.2.1]
      simp [lstep, hent]
  | req n id old new =>
    obtain ⟨hid, mx, hst, hsome, hd1, hd2⟩ := hok
    subst hid
    cases hq : get? s n with
    | none => simp [stat_none hq] at hst
    | some q =>
      rw [stat_some hq] at hst
      cases hst
      simp only [localOf] at hsome hd1 hd2
      rw [entry_some_get hq] at hsome
      obtain ⟨e, he⟩ := Option.isSome_iff_exists.mp hsome
      have hnd := h.pods q (get?_mem hq)
      obtain ⟨s1, s2, s3, s4⟩ := h.self n q hq
      have hstat := updPodReq_statN s n old new
      have hkeep := updPodReq_keep s n old new
      have hpods := pods_of_keepR hkeep
      have hent : ∀ m j, entry (updPodReq s n old new) m j = entry s m j := entry_of_map hpods
      have hform : updPodReq s n old new = if dR q.max.isSome old new = 0 ∧ dN q.max.isSome old new = 0 then s
          else deltaReq s n (dR q.max.isSome old new) (dN q.max.isSome old new) true := by
        simp only [updPodReq, hq]; rfl
      have hci : CI (updPodReq s n old new) (c.addR n id (dR q.max.isSome old new) (dN q.max.isSome old new)) ∧
          True := by
        by_cases hz : dR q.max.isSome old new = 0 ∧ dN q.max.isSome old new = 0
        · have heq : updPodReq s n old new = s := by rw [hform, if_pos hz]
          rw [heq]
          refine ⟨⟨h.topo, h.params, h.pods, h.req, h.used, ?_, ?_⟩, trivial⟩
          · intro m q0 h0
            obtain ⟨a1, a2, a3, a4⟩ := h.self m q0 h0
            refine ⟨?_, ?_, a3, a4⟩
            · rw [a1]; symm; apply cntSum_congr; intro p _; simp [Cnts.addR, upd2, hz.1]
              intro h1 h2; rw [h1, h2]
            · rw [a2]; symm; apply cntSum_congr; intro p _; simp [Cnts.addR, upd2, hz.2]
              intro h1 h2; rw [h1, h2]
          · intro m j
            obtain ⟨b1, b2, b3, b4⟩ := h.nonneg m j
            refine ⟨?_, ?_, b3, b4⟩
            · simp only [Cnts.addR, upd2]; split <;> (try split) <;> (try omega)
            · simp only [Cnts.addR, upd2]; split <;> (try split) <;> (try omega)
        · have heq : updPodReq s n old new = propReq s (path s n) true (dR q.max.isSome old new) (dN q.max.isSome old new) := by
            rw [hform, if_neg hz]; rfl
          obtain ⟨p1, p2, p3⟩ := h.topo.paths n (by simp [hq])
          have hge1 : c.r n id ≤ q.selfRequest := by rw [s1]; exact cntSum_ge (fun j => (h.nonneg n j).1) he
          have hge2 : c.np n id ≤ q.selfNpRequest := by rw [s2]; exact cntSum_ge (fun j => (h.nonneg n j).2.1) he
          have hr := propReq_eqs (d := dR q.max.isSome old new) (dnp := dN q.max.isSome old new) p1 p2 p3 h.topo.tree (fun q0 hq0 => (h.params q0 hq0).1) h.req
            (fun q0 h0 => by rw [hq] at h0; cases h0; constructor <;> omega)
          rw [← heq] at hr
          have htree : tree (updPodReq s n old new) = tree s := tree_of_statN hstat
          refine ⟨⟨topo_congr htree h.topo, ?_, ?_, hr.2.1, ?_, ?_, ?_⟩, trivial⟩
          · exact paramsOK_of_map (by
              have := congrArg (List.map (fun (e : Nat × List Pod × Option Int × Int × Int) => (e.2.2.1, e.2.1))) hkeep
              simpa [List.map_map, Function.comp_def, keepR] using this) h.params
          · exact podsOK_of_map (by
              have := congrArg (List.map (fun (e : Nat × List Pod) => e.2)) hpods
              simpa [List.map_map, Function.comp_def] using this) h.pods
          · refine usedEqs_of_map ?_ h.used
            rw [heq]
            exact propReqW_map _ (fun q q' h => by simp [uproj, h.name, h.parent, h.used, h.npUsed, h.selfUsed, h.selfNpUsed]) clamp0 _ s true _ _
          · intro m q' hq'
            obtain ⟨q0, hq0, hsame, f1, f2⟩ := hr.2.2 m q' hq'
            obtain ⟨a1, a2, a3, a4⟩ := h.self m q0 hq0
            rw [hsame.pods, hsame.selfUsed, hsame.selfNpUsed, f1, f2]
            by_cases hm : m = n
            · subst hm
              rw [hq] at hq0; cases hq0
              simp only [Cnts.addR, upd2_same, if_true]
              rw [cntSum_update _ hnd he, cntSum_update _ hnd he]
              exact ⟨by omega, by omega, a3, a4⟩
            · simp only [Cnts.addR, upd2_other hm, hm, if_false]
              exact ⟨by omega, by omega, a3, a4⟩
          · intro m j
            obtain ⟨b1, b2, b3, b4⟩ := h.nonneg m j
            refine ⟨?_, ?_, b3, b4⟩
            · simp only [Cnts.addR, upd2]; split <;> (try split) <;> omega
            · simp only [Cnts.addR, upd2]; split <;> (try split) <;> omega
      refine ⟨_, hci.1, ?_, ?_, hstat⟩
      · apply Loc.ext
        · funext m; simp [localOf, lstep, stat_some hq, mstep, hent]
        · funext m; simp only [localOf, lstep, stat_some hq, mstep, Cnts.addR, upd2, upd]
          by_cases hm : m = n <;> simp [hm]
        · funext m; simp only [localOf, lstep, stat_some hq, mstep, Cnts.addR, upd2, upd]
          by_cases hm : m = n <;> simp [hm]
        · funext m; simp [localOf, lstep, stat_some hq, mstep, Cnts.addR]
        · funext m; simp [localOf, lstep, stat_some hq, mstep, Cnts.addR]
      · intro j hj
        apply Loc.ext
        · funext m; simp [localOf, mstep, hent]
        · funext m; simp only [localOf, Cnts.addR, upd2]; by_cases hm : m = n <;> simp [hm, hj]
        · funext m; simp only [localOf, Cnts.addR, upd2]; by_cases hm : m = n <;> simp [hm, hj]
        · funext m; simp [localOf, Cnts.addR]
        · funext m; simp [localOf, Cnts.addR]
  | used n id old new =>
    obtain ⟨hid, mx, e, hst, hent0, hasg, hon, hd1, hd2⟩ := hok
    subst hid
    cases hq : get? s n with
    | none => simp [stat_none hq] at hst
    | some q =>
      rw [stat_some hq] at hst
      cases hst
      simp only [localOf] at hent0 hd1 hd2
      rw [entry_some_get hq] at hent0
      have he := hent0
      have hnd := h.pods q (get?_mem hq)
      have hpa : podAssigned q id = true := by rw [podAssigned_eq q id hnd, he]; exact hasg
      obtain ⟨s1, s2, s3, s4⟩ := h.self n q hq
      have hstat := updPodUsed_statN s n id old new
      have hkeep := updPodUsed_keep s n id old new
      have hpods := pods_of_keepU hkeep
      have hent : ∀ m j, entry (updPodUsed s n id old new) m j = entry s m j := entry_of_map hpods
      have hguard : (!(new.isSome && podAssigned q id) && !(old.isSome && podAssigned q id)) = false := by
        rw [hpa]; cases old <;> cases new <;> simp_all
      have hform : updPodUsed s n id old new = if dR q.max.isSome old new = 0 ∧ dN q.max.isSome old new = 0 then s
          else deltaUsed s n (dR q.max.isSome old new) (dN q.max.isSome old new) true := by
        simp only [updPodUsed, hq, hguard]; rfl
      have hci : CI (updPodUsed s n id old new) (c.addU n id (dR q.max.isSome old new) (dN q.max.isSome old new)) ∧
          True := by
        by_cases hz : dR q.max.isSome old new = 0 ∧ dN q.max.isSome old new = 0
        · have heq : updPodUsed s n id old new = s := by rw [hform, if_pos hz]
          rw [heq]
          refine ⟨⟨h.topo, h.params, h.pods, h.req, h.used, ?_, ?_⟩, trivial⟩
          · intro m q0 h0
            obtain ⟨a1, a2, a3, a4⟩ := h.self m q0 h0
            refine ⟨a1, a2, ?_, ?_⟩
            · rw [a3]; symm; apply cntSum_congr; intro p _; simp [Cnts.addU, upd2, hz.1]
              intro h1 h2; rw [h1, h2]
            · rw [a4]; symm; apply cntSum_congr; intro p _; simp [Cnts.addU, upd2, hz.2]
              intro h1 h2; rw [h1, h2]
          · intro m j
            obtain ⟨b1, b2, b3, b4⟩ := h.nonneg m j
            refine ⟨b1, b2, ?_, ?_⟩
            · simp only [Cnts.addU, upd2]; split <;> (try split) <;> (try omega)
            · simp only [Cnts.addU, upd2]; split <;> (try split) <;> (try omega)
        · have heq : updPodUsed s n id old new = propUsed s (path s n) true (dR q.max.isSome old new) (dN q.max.isSome old new) := by
            rw [hform, if_neg hz]; rfl
          obtain ⟨p1, p2, p3⟩ := h.topo.paths n (by simp [hq])
          have hge1 : c.u n id ≤ q.selfUsed := by rw [s3]; exact cntSum_ge (fun j => (h.nonneg n j).2.2.1) he
          have hge2 : c.nu n id ≤ q.selfNpUsed := by rw [s4]; exact cntSum_ge (fun j => (h.nonneg n j).2.2.2) he
          have hr := propUsed_eqs (d := dR q.max.isSome old new) (dnp := dN q.max.isSome old new) p1 p2 p3 h.topo.tree h.used
            (fun q0 h0 => by rw [hq] at h0; cases h0; constructor <;> omega)
          rw [← heq] at hr
          have htree : tree (updPodUsed s n id old new) = tree s := tree_of_statN hstat
          refine ⟨⟨topo_congr htree h.topo, ?_, ?_, ?_, hr.2.1, ?_, ?_⟩, trivial⟩
          · exact paramsOK_of_map (by
              have := congrArg (List.map (fun (e : Nat × List Pod × Option Int × Int × Int) => (e.2.2.1, e.2.1))) hkeep
              simpa [List.map_map, Function.comp_def, keepU] using this) h.params
          · exact podsOK_of_map (by
              have := congrArg (List.map (fun (e : Nat × List Pod) => e.2)) hpods
              simpa [List.map_map, Function.comp_def] using this) h.pods
          · refine reqEqs_of_map ?_ h.req
            rw [heq]
            exact propUsedW_map _ (fun q q' h => by
              simp [rproj, h.name, h.parent, h.lend, h.min, h.max, h.request, h.npRequest, h.childRequest,
                h.selfRequest, h.selfNpRequest]) clamp0 _ s true _ _
          · intro m q' hq'
            obtain ⟨q0, hq0, hsame, f1, f2⟩ := hr.2.2 m q' hq'
            obtain ⟨a1, a2, a3, a4⟩ := h.self m q0 hq0
            rw [hsame.pods, hsame.selfRequest, hsame.selfNpRequest, f1, f2]
            by_cases hm : m = n
            · subst hm
              rw [hq] at hq0; cases hq0
              simp only [Cnts.addU, upd2_same, if_true]
              rw [cntSum_update _ hnd he, cntSum_update _ hnd he]
              exact ⟨a1, a2, by omega, by omega⟩
            · simp only [Cnts.addU, upd2_other hm, hm, if_false]
              exact ⟨a1, a2, by omega, by omega⟩
          · intro m j
            obtain ⟨b1, b2, b3, b4⟩ := h.nonneg m j
            refine ⟨b1, b2, ?_, ?_⟩
            · simp only [Cnts.addU, upd2]; split <;> (try split) <;> omega
            · simp only [Cnts.addU, upd2]; split <;> (try split) <;> omega
      refine ⟨_, hci.1, ?_, ?_, hstat⟩
      · apply Loc.ext
        · funext m; simp [localOf, lstep, stat_some hq, mstep, hent]
        · funext m; simp [localOf, lstep, stat_some hq, mstep, Cnts.addU]
        · funext m; simp [localOf, lstep, stat_some hq, mstep, Cnts.addU]
        · funext m; simp only [localOf, lstep, stat_some hq, mstep, Cnts.addU, upd2, upd]
          by_cases hm : m = n <;> simp [hm]
        · funext m; simp only [localOf, lstep, stat_some hq, mstep, Cnts.addU, upd2, upd]
          by_cases hm : m = n <;> simp [hm]
      · intro j hj
        apply Loc.ext
        · funext m; simp [localOf, mstep, hent]
        · funext m; simp [localOf, Cnts.addU]
        · funext m; simp [localOf, Cnts.addU]
        · funext m; simp only [localOf, Cnts.addU, upd2]; by_cases hm : m = n <;> simp [hm, hj]
        · funext m; simp only [localOf, Cnts.addU, upd2]; by_cases hm : m = n <;> simp [hm, hj]

end KoordVerif.C01
