import KoordVerif.Proofs.C01AddDel
/-
C01: OnPodUpdate keeps the invariant (all branches).
-/
namespace KoordVerif.C01

/-- first two steps of `addPodTo` (cache + request), with what the rest needs to know -/
theorem addReq_good {s : State} {n : Nat} {p : PodObj} {q : Quota} (h : Good s) (hp : 0 ≤ p.req)
    (hq : get? s n = some q) (hmax : q.max.isSome = true) (hne : getPod q.pods p.id = none) :
    Good (updPodReq (cacheAdd s n p) n none (some p)) ∧
    assignedIn (updPodReq (cacheAdd s n p) n none (some p)) n p.id = false ∧
    ∃ q2, get? (updPodReq (cacheAdd s n p) n none (some p)) n = some q2 ∧ q2.max.isSome = true ∧
      getPod q2.pods p.id = some (newEntry p) := by
  have hm : Mid s n 0 0 0 0 := mid_switch h
  obtain ⟨heq, h1⟩ := cacheAdd_mid p hm hq hne hp
  have hq1 : get? (cacheAdd s n p) n = some { q with pods := newEntry p :: q.pods } := by
    rw [heq]; exact get?_setq hq rfl
  obtain ⟨_, _, sr1, sr2⟩ := self_nonneg_req hm hq
  have h2 := updPodReq_mid none (some p) h1 hq1 (by simpa using hmax)
    (by simp only [reqOf, npOf]; constructor <;> (try split) <;> simp <;> omega)
  have hg2 : Good (updPodReq (cacheAdd s n p) n none (some p)) := by
    apply mid_switch (n := n)
    exact mid_cast h2 (by simp [reqOf]) (by simp [npOf]) rfl rfl
  obtain ⟨q2, hq2, hpods2, hmax2, _, _⟩ := updPodReq_view n none (some p) hq1
  have he2 : getPod q2.pods p.id = some (newEntry p) := by
    rw [hpods2]; simp [getPod, newEntry]
  have hnd2 := hg2.pods q2 (get?_mem hq2)
  have hasg : assignedIn (updPodReq (cacheAdd s n p) n none (some p)) n p.id = false := by
    rw [assignedIn_eq hq2 hnd2, he2]; rfl
  exact ⟨hg2, hasg, q2, hq2, by rw [hmax2]; simpa using hmax, he2⟩

def gGhost (o : PodObj) (p : Pod) : Pod := { p with req := o.req, np := o.np }

theorem w_true (e : Pod) : w (fun _ => true) e = e.req := by simp [w]

theorem w_np {e : Pod} {o : PodObj} (h1 : e.req = o.req) (h2 : e.np = o.np) :
    w (fun p => p.np) e = npOf (some o) := by simp [w, npOf, h1, h2]

theorem w_asg {e : Pod} {o : PodObj} (h1 : e.req = o.req) :
    w (fun p => p.assigned) e = if e.assigned = true then o.req else 0 := by simp [w, h1]

theorem w_asgnp {e : Pod} {o : PodObj} (h1 : e.req = o.req) (h2 : e.np = o.np) :
    w (fun p => p.assigned && p.np) e = if e.assigned = true then npOf (some o) else 0 := by
  cases ha : e.assigned <;> simp [w, npOf, h1, h2, ha]

theorem setGhost_eq {s : State} {n : Nat} {q : Quota} (hq : get? s n = some q) (o : PodObj) :
    setGhost s n o = set s { q with pods := updPods (gGhost o) o.id q.pods } := by
  simp [setGhost, hq, updPods, gGhost]

structure UpdPre (s : State) (newQ oldQ : Nat) (np op : PodObj) : Prop where
  sameId : np.id = op.id
  nnNew : 0 ≤ np.req
  nnOld : 0 ≤ op.req
  oldQuota : ∀ q, get? s oldQ = some q → q.max.isSome = true ∧ Consistent q op
  newQuota : ∀ q, get? s newQ = some q → q.max.isSome = true

/-- same quota, pod already cached, not ignored -/
theorem update_same_exists {s : State} {n : Nat} {np op : PodObj} {q : Quota} {e : Pod} (h : Good s)
    (hid : np.id = op.id) (hnn : 0 ≤ np.req) (hno : 0 ≤ op.req)
    (hq : get? s n = some q) (hmax : q.max.isSome = true) (he : getPod q.pods np.id = some e)
    (hreq : e.req = op.req) (hnp : e.np = op.np) :
    Good (let s1 := setGhost (updPodReq s n (some op) (some np)) n np
          if assignedIn s1 n np.id then updPodUsed s1 n np.id (some op) (some np)
          else if np.hasNode && !np.term then updPodUsed (setAssigned s1 n np.id true) n np.id none (some np)
          else s1) := by
  have hm : Mid s n 0 0 0 0 := mid_switch h
  have hnd := hm.pods q (get?_mem hq)
  have hpn := (hm.params q (get?_mem hq)).2
  have hmem := (getPod_some he).1
  obtain ⟨er1, er2, _, _⟩ := self_nonneg_req hm hq
  obtain ⟨eu1, eu2, _, _⟩ := self_nonneg_used hm hq
  have g1 := podSum_ge_w (fun _ => true) hpn hmem
  have g2 := podSum_ge_w (fun p => p.np) hpn hmem
  have g3 := podSum_ge_w (fun p => p.assigned) hpn hmem
  have g4 := podSum_ge_w (fun p => p.assigned && p.np) hpn hmem
  have hnpnn : 0 ≤ npOf (some np) := by simp only [npOf]; split <;> omega
  have W1 := w_true e
  have W2 := w_np hreq hnp
  have W3 := w_asg (e := e) hreq
  have W4 := w_asgnp hreq hnp
  have G0 : (gGhost np e).req = np.req := rfl
  have G2 : w (fun p => p.np) (gGhost np e) = npOf (some np) := w_np rfl rfl
  have G3 : w (fun p => p.assigned) (gGhost np e) = if e.assigned = true then np.req else 0 := w_asg (o := np) rfl
  have G4 : w (fun p => p.assigned && p.np) (gGhost np e) = if e.assigned = true then npOf (some np) else 0 :=
    w_asgnp (o := np) rfl rfl
  have R1 : reqOf (some np) = np.req := rfl
  have R2 : reqOf (some op) = op.req := rfl
  rw [W1, hreq] at g1
  rw [W2] at g2
  rw [W3] at g3
  rw [W4] at g4
  have hA := updPodReq_mid (some op) (some np) hm hq hmax (by rw [R1, R2]; constructor <;> omega)
  obtain ⟨qA, hqA, hpodsA, hmaxA, hsuA, hsnuA⟩ := updPodReq_view n (some op) (some np) hq
  have heA : getPod qA.pods np.id = some e := by rw [hpodsA]; exact he
  have hg : ∀ x, (gGhost np x).id = x.id := fun _ => rfl
  have hB := updEntry_mid (gGhost np) hg (by simpa [gGhost] using hnn) hA hqA heA
  rw [← setGhost_eq hqA] at hB
  have hqB : get? (setGhost (updPodReq s n (some op) (some np)) n np) n
      = some { qA with pods := updPods (gGhost np) np.id qA.pods } := by
    rw [setGhost_eq hqA]; exact get?_setq hqA rfl
  have heB : getPod ({ qA with pods := updPods (gGhost np) np.id qA.pods } : Quota).pods np.id = some (gGhost np e) :=
    getPod_updPods hg heA
  have hndB := hB.pods _ (get?_mem hqB)
  have hasgB : assignedIn (setGhost (updPodReq s n (some op) (some np)) n np) n np.id = e.assigned := by
    rw [assignedIn_eq hqB hndB, heB]; rfl
  simp only [hasgB]
  rw [G0, G2, G3, G4, W2, W3, W4, hreq, R1, R2] at hB
  cases hasg : e.assigned with
  | true =>
    simp only [if_true]
    simp only [hasg, if_true] at g3 g4 hB
    have hpaB : podAssigned { qA with pods := updPods (gGhost np) np.id qA.pods } np.id = true := by
      rw [podAssigned_eq _ _ hndB, heB]; exact hasg
    have hC := updPodUsed_mid (id := np.id) (some op) (some np) hB hqB (by simpa [hmaxA] using hmax)
      (by simp [hpaB]) (by
        show 0 ≤ qA.selfUsed + _ ∧ 0 ≤ qA.selfNpUsed + _
        rw [hsuA, hsnuA, R1, R2]; constructor <;> omega)
    rw [R1, R2] at hC
    apply mid_switch (n := n)
    exact mid_cast hC (by omega) (by omega) (by omega) (by omega)
  | false =>
    simp only [hasg, Bool.false_eq_true, if_false] at hB
    have hgB : Good (setGhost (updPodReq s n (some op) (some np)) n np) := by
      apply mid_switch (n := n)
      exact mid_cast hB (by omega) (by omega) (by omega) (by omega)
    simp only [Bool.false_eq_true, if_false]
    split
    · exact assign_good hgB hnn hqB (by simpa [hmaxA] using hmax) heB (by simpa [gGhost] using hasg) rfl rfl
    · exact hgB

theorem onPodUpdate_same_good {s : State} {n : Nat} {np op : PodObj} (h : Good s) (hpre : UpdPre s n n np op) :
    Good (onPodUpdate s n n np op) := by
  unfold onPodUpdate
  simp only [if_true]
  cases hq : get? s n with
  | none => exact h
  | some q =>
    obtain ⟨hmax, hcons⟩ := hpre.oldQuota q hq
    simp only
    cases hign : np.ign with
    | false =>
      simp only [Bool.not_false, if_true, podExists_eq]
      cases he : getPod q.pods np.id with
      | some e =>
        have he' : getPod q.pods op.id = some e := by rw [← hpre.sameId]; exact he
        obtain ⟨hreq, hnp⟩ := hcons e he'
        simpa using update_same_exists h hpre.sameId hpre.nnNew hpre.nnOld hq hmax he hreq hnp
      | none =>
        obtain ⟨hg2, hasg, q2, hq2, hmax2, he2⟩ := addReq_good h hpre.nnNew hq hmax he
        simp only [Option.isSome_none, Bool.false_eq_true, if_false, hasg]
        split
        · exact assign_good hg2 hpre.nnNew hq2 hmax2 he2 rfl rfl rfl
        · exact hg2
    | true =>
      simp only [Bool.not_true, Bool.false_eq_true, if_false, podExists_eq]
      cases he : getPod q.pods op.id with
      | none => simpa using h
      | some e =>
        obtain ⟨hreq, hnp⟩ := hcons e he
        simpa using removePodFrom_good h hpre.nnOld hq hmax he hreq hnp false

end KoordVerif.C01
