import KoordVerif.Proofs.C01ExtFocus
/-
C01 extension (schedules quantifier), part 6: the pod-event handlers OnPodAdd / OnPodDelete / OnPodUpdate as
sequences of sections (`PodEv.plan`), in the order of the Go code:
  OnPodAdd    : addPodIfNotPresent, updatePodRequestNoLock(nil, pod),
                [UpdatePodIsAssigned(true), updatePodUsedNoLock(nil, pod)]        (bound, not terminated pod)
  OnPodDelete : updatePodRequestNoLock(pod, nil), [updatePodUsedNoLock(pod, nil)] (if assigned), removePodIfPresent
  OnPodUpdate : same quota, cached:     updatePodRequestNoLock(old, new), then updatePodUsedNoLock(old, new) if
                                        assigned, else [UpdatePodIsAssigned(true), updatePodUsedNoLock(nil, new)] if bound
                same quota, not cached: as OnPodAdd
                same quota, ignored:    as OnPodDelete
                quota change:           [used, request, cache] removal from the old group, then as OnPodAdd in the new
The handler's reads (does the group exist / declare the dimension, is the pod cached, is it flagged assigned) concern
only its OWN pod's cache entries and static data, which no handler of another pod changes (frame part of
`mstep_CI`); therefore the plan is a function (`planV`) of the static data and the own-pod view at the start.
* `PodEv.run_plan`: running the sections one after the other IS the atomic model step.
* `PodEv.safe`: under the precondition of the sequential theorem (`PodPre` / `UpdPre`) the plan is `Safe`.
-/
namespace KoordVerif.C01

def asgOf : Option Pod → Bool
  | some x => x.assigned
  | none => false

def planAddTail (n : Nat) (p : PodObj) : List Micro :=
  [.cacheAdd n p, .req n p.id none (some p)] ++
  (if p.hasNode && !p.term then [.setAsg n p.id true, .used n p.id none (some p)] else [])

def planRemoveV (e : Option Pod) (n : Nat) (p : PodObj) (usedFirst : Bool) : List Micro :=
  (if usedFirst then
    (if asgOf e then [Micro.used n p.id (some p) none] else []) ++ [.req n p.id (some p) none]
   else
    [Micro.req n p.id (some p) none] ++ (if asgOf e then [.used n p.id (some p) none] else [])) ++
  [.cacheRemove n p.id]

def planAddV (mx : Option Bool) (e : Option Pod) (n : Nat) (p : PodObj) : List Micro :=
  if p.ign then []
  else match mx with
    | none => []
    | some _ => if e.isSome then [] else planAddTail n p

/-- OnPodDelete gives back the amounts of the CACHED object (getCachedPod, repair 7265fb2) -/
def planDeleteV (e : Option Pod) (n : Nat) (p : PodObj) : List Micro :=
  match e with
  | some x => planRemoveV e n { p with req := x.req, np := x.np } false
  | none => []

def planSameV (e : Option Pod) (n : Nat) (np op : PodObj) : List Micro :=
  [.req n np.id (some op) (some np), .ghost n np] ++
  (if asgOf e then [.used n np.id (some op) (some np)]
   else if np.hasNode && !np.term then [.setAsg n np.id true, .used n np.id none (some np)] else [])

def planUpdateV (stNew : Option Bool) (eNew eOld : Option Pod) (newQ oldQ : Nat) (np op : PodObj) : List Micro :=
  if oldQ = newQ then
    match stNew with
    | none => []
    | some _ =>
      if !np.ign then
        if eNew.isSome then planSameV eNew newQ np op else planAddTail newQ np
      else if eNew.isSome then planRemoveV eNew oldQ op false else []
  else
    (if eOld.isSome then planRemoveV eOld oldQ op true else []) ++
    (match stNew with
     | none => []
     | some _ => if !eNew.isSome && !np.ign then planAddTail newQ np else [])

/-- a pod event delivered to GroupQuotaManager -/
inductive PodEv where
  | add (n : Nat) (p : PodObj)
  | del (n : Nat) (p : PodObj)
  | upd (newQ oldQ : Nat) (np op : PodObj)

def PodEv.id : PodEv → Nat
  | .add _ p => p.id
  | .del _ p => p.id
  | .upd _ _ np _ => np.id

def PodEv.op : PodEv → Op
  | .add n p => .podAdd n p
  | .del n p => .podDelete n p
  | .upd a b np op => .podUpdate a b np op

def PodEv.planV (st : Nat → Option Bool) (ent : Nat → Option Pod) : PodEv → List Micro
  | .add n p => planAddV (st n) (ent n) n p
  | .del n p => planDeleteV (ent n) n p
  | .upd a b np op => planUpdateV (st a) (ent a) (ent b) a b np op

def PodEv.plan (s : State) (ev : PodEv) : List Micro := ev.planV (stat s) (fun m => entry s m ev.id)

def PodEv.Pre (s : State) : PodEv → Prop
  | .add n p => PodPre s n p
  | .del n p => PodPre s n p
  | .upd a b np op => UpdPre s a b np op

/-- the part of the precondition that does not depend on the state -/
def PodEv.WF : PodEv → Prop
  | .upd _ _ np op => np.id = op.id
  | _ => True

theorem PodEv.wf_of_pre {s : State} {ev : PodEv} (h : ev.Pre s) : ev.WF := by
  cases ev with
  | upd a b np op => exact h.sameId
  | _ => trivial

/-! ### the own-pod reads in terms of the view -/

theorem existsIn_eq (s : State) (n i : Nat) : existsIn s n i = (entry s n i).isSome := by
  simp only [existsIn, entry]
  cases get? s n with
  | none => rfl
  | some q => exact podExists_eq q i

theorem assignedIn_view {s : State} (hp : PodsOK s) (n i : Nat) : assignedIn s n i = asgOf (entry s n i) := by
  simp only [assignedIn, entry]
  cases hq : get? s n with
  | none => rfl
  | some q =>
    simp only [podAssigned_eq q i (hp q (get?_mem hq))]
    cases getPod q.pods i <;> rfl

theorem runMicros_append (s : State) (a b : List Micro) : runMicros s (a ++ b) = runMicros (runMicros s a) b := by
  simp [runMicros, List.foldl_append]

/-! ### running the sections one after the other is the atomic step -/

theorem run_planRemoveV {s : State} (hp : PodsOK s) (n : Nat) (p : PodObj) (uf : Bool) :
    runMicros s (planRemoveV (entry s n p.id) n p uf) = removePodFrom s n p uf := by
  unfold planRemoveV removePodFrom
  rw [← assignedIn_view hp]
  cases uf <;> cases h : assignedIn s n p.id <;> simp [runMicros, mstep]

theorem any_false_of_not_exists {ps : List Pod} {i : Nat} (h : ps.any (fun p => p.id == i) = false) :
    ps.any (fun p => p.id == i && p.assigned) = false := by
  induction ps with
  | nil => rfl
  | cons x t ih =>
    simp only [List.any_cons, Bool.or_eq_false_iff] at h ⊢
    exact ⟨by simp [h.1], ih h.2⟩

theorem run_planAddTail {s : State} {n : Nat} {p : PodObj} {q : Quota} (hq : get? s n = some q)
    (hex : podExists q p.id = false) : runMicros s (planAddTail n p) = addPodTo s n p := by
  have hs1 : cacheAdd s n p = set s { q with pods := newEntry p :: q.pods } := by
    simp [cacheAdd, hq, hex, newEntry]
  have hq1 : get? (cacheAdd s n p) n = some { q with pods := newEntry p :: q.pods } := by
    rw [hs1]; exact get?_setq hq rfl
  obtain ⟨q2, hq2, hp2, _⟩ := updPodReq_view n none (some p) hq1
  have hasg : assignedIn (updPodReq (cacheAdd s n p) n none (some p)) n p.id = false := by
    simp only [assignedIn, hq2, podAssigned, hp2, List.any_cons, newEntry]
    simp only [podExists] at hex
    simp [any_false_of_not_exists hex]
  by_cases hb : (p.hasNode && !p.term) = true
  · simp [planAddTail, addPodTo, runMicros, mstep, hb, hasg]
  · simp only [Bool.not_eq_true] at hb
    simp [planAddTail, addPodTo, runMicros, mstep, hb]

theorem podExists_entry {s : State} {n : Nat} {q : Quota} (hq : get? s n = some q) (i : Nat) :
    podExists q i = (entry s n i).isSome := by
  rw [podExists_eq]; simp [entry, hq]

theorem run_planAdd (s : State) (n : Nat) (p : PodObj) :
    runMicros s (planAddV (stat s n) (entry s n p.id) n p) = onPodAdd s n p := by
  unfold planAddV onPodAdd
  split
  · rfl
  · cases hq : get? s n with
    | none => simp [stat_none hq, runMicros]
    | some q =>
      simp only [stat_some hq, ← podExists_entry hq]
      cases hex : podExists q p.id with
      | true => simp [runMicros]
      | false => simpa using run_planAddTail hq hex

theorem run_planDelete {s : State} (hp : PodsOK s) (n : Nat) (p : PodObj) :
    runMicros s (planDeleteV (entry s n p.id) n p) = onPodDelete s n p := by
  unfold planDeleteV onPodDelete
  rw [existsIn_eq]
  cases he : entry s n p.id with
  | none => simp [runMicros]
  | some x =>
    obtain ⟨q, hq, hg⟩ := (by
      simp only [entry] at he
      cases hq : get? s n with
      | none => simp [hq] at he
      | some q => simp only [hq] at he; exact ⟨q, rfl, he⟩ : ∃ q, get? s n = some q ∧ getPod q.pods p.id = some x)
    have hc : cachedObj s n p = { p with req := x.req, np := x.np } := by
      simp [cachedObj, hq, findPod_eq_getPod, hg]
    simp only [Option.isSome_some, if_true, hc]
    have := run_planRemoveV hp n ({ p with req := x.req, np := x.np } : PodObj) false
    simp only [he] at this
    exact this

theorem any_updPods_ghost (o : PodObj) (i j : Nat) (ps : List Pod) :
    (updPods (gGhost o) i ps).any (fun p => p.id == j && p.assigned) = ps.any (fun p => p.id == j && p.assigned) := by
  induction ps with
  | nil => rfl
  | cons x t ih =>
    simp only [updPods] at ih
    simp only [updPods, List.map_cons, List.any_cons, ih]
    by_cases hx : x.id = i <;> simp [hx, gGhost]

theorem run_planSame {s : State} (hp : PodsOK s) {n : Nat} {np op : PodObj} {q : Quota} (hq : get? s n = some q) :
    runMicros s (planSameV (entry s n np.id) n np op) =
      (let s1 := setGhost (updPodReq s n (some op) (some np)) n np
       if assignedIn s1 n np.id then updPodUsed s1 n np.id (some op) (some np)
       else if np.hasNode && !np.term then updPodUsed (setAssigned s1 n np.id true) n np.id none (some np)
       else s1) := by
  obtain ⟨q1, hq1, hp1, _⟩ := updPodReq_view n (some op) (some np) hq
  have hasg : assignedIn (setGhost (updPodReq s n (some op) (some np)) n np) n np.id = asgOf (entry s n np.id) := by
    rw [← assignedIn_view hp]
    rw [setGhost_eq hq1]
    have hq2 := get?_setq (q1 := { q1 with pods := updPods (gGhost np) np.id q1.pods }) hq1 rfl
    simp only [assignedIn]
    rw [hq2, hq]
    simp only [podAssigned, any_updPods_ghost, hp1]
  simp only [hasg]
  unfold planSameV
  cases h1 : asgOf (entry s n np.id)
  · by_cases hb : (np.hasNode && !np.term) = true
    · simp [runMicros, mstep, hb]
    · simp only [Bool.not_eq_true] at hb
      simp [runMicros, mstep, hb]
  · simp [runMicros, mstep]

theorem run_planUpdate {s : State} (hp : PodsOK s) (newQ oldQ : Nat) (np op : PodObj) (hid : np.id = op.id) :
    runMicros s (planUpdateV (stat s newQ) (entry s newQ np.id) (entry s oldQ np.id) newQ oldQ np op) =
      onPodUpdate s newQ oldQ np op := by
  unfold planUpdateV onPodUpdate
  by_cases hne : oldQ = newQ
  · subst hne
    simp only [if_true]
    cases hq : get? s oldQ with
    | none => simp [stat_none hq, runMicros]
    | some q =>
      simp only [stat_some hq]
      cases hign : np.ign with
      | false =>
        simp only [Bool.not_false, if_true]
        cases hex : podExists q np.id with
        | true =>
          rw [podExists_entry hq] at hex
          simp only [hex, if_true]
          exact run_planSame hp hq
        | false =>
          have hex' := hex
          rw [podExists_entry hq] at hex'
          simp only [hex', Bool.false_eq_true, if_false]
          rw [run_planAddTail hq hex]
          -- the model spells the fresh-entry case out; it is addPodTo
          have hs1 : cacheAdd s oldQ np = set s { q with pods := newEntry np :: q.pods } := by
            simp [cacheAdd, hq, hex, newEntry]
          have hq1 : get? (cacheAdd s oldQ np) oldQ = some { q with pods := newEntry np :: q.pods } := by
            rw [hs1]; exact get?_setq hq rfl
          obtain ⟨q2, hq2, hp2, _⟩ := updPodReq_view oldQ none (some np) hq1
          have hasg : assignedIn (updPodReq (cacheAdd s oldQ np) oldQ none (some np)) oldQ np.id = false := by
            simp only [assignedIn, hq2, podAssigned, hp2, List.any_cons, newEntry]
            simp only [podExists] at hex
            simp [any_false_of_not_exists hex]
          simp only [addPodTo, hasg, Bool.not_false, Bool.and_true, Bool.false_eq_true, if_false]
      | true =>
        simp only [Bool.not_true, Bool.false_eq_true, if_false]
        rw [podExists_entry hq, ← hid]
        split
        · rw [hid]; exact run_planRemoveV hp oldQ op false
        · rfl
  · simp only [hne, if_false]
    rw [runMicros_append]
    have h1 : runMicros s (if (entry s oldQ np.id).isSome = true then planRemoveV (entry s oldQ np.id) oldQ op true else []) =
        (if existsIn s oldQ op.id = true then removePodFrom s oldQ op true else s) := by
      rw [existsIn_eq, ← hid]
      split
      · rw [hid]; exact run_planRemoveV hp oldQ op true
      · rfl
    rw [h1]
    have hnq : newQ ≠ oldQ := fun e => hne e.symm
    have hview : (get? s newQ = none →
        get? (if existsIn s oldQ op.id = true then removePodFrom s oldQ op true else s) newQ = none) ∧
        ∀ q, get? s newQ = some q →
          ∃ q', get? (if existsIn s oldQ op.id = true then removePodFrom s oldQ op true else s) newQ = some q' ∧
            q'.pods = q.pods := by
      split
      · have hv := removePodFrom_view (s := s) oldQ op true newQ
        exact ⟨hv.1, fun q hq => by
          obtain ⟨q', a, _, c⟩ := hv.2 q hq
          exact ⟨q', a, by simpa [hnq] using c⟩⟩
      · exact ⟨fun h => h, fun q hq => ⟨q, hq, rfl⟩⟩
    cases hq : get? s newQ with
    | none => simp [stat_none hq, hview.1 hq, runMicros]
    | some q =>
      obtain ⟨q', hq', hpods⟩ := hview.2 q hq
      simp only [stat_some hq, hq']
      have hex : podExists q' np.id = (entry s newQ np.id).isSome := by
        rw [← podExists_entry hq]; simp [podExists, hpods]
      rw [← hex]
      cases hex' : podExists q' np.id with
      | true => simp [runMicros]
      | false =>
        cases hign : np.ign with
        | true => simp [runMicros]
        | false => simpa using run_planAddTail hq' hex'

theorem PodEv.run_plan {s : State} (hp : PodsOK s) (ev : PodEv) (hwf : ev.WF) :
    runMicros s (ev.plan s) = step s ev.op := by
  cases ev with
  | add n p => exact run_planAdd s n p
  | del n p => exact run_planDelete hp n p
  | upd a b np op => exact run_planUpdate hp a b np op hwf

/-! ### safety of the plans -/

theorem lsettled_cntOf (s : State) (i : Nat) : LSettled (localOf s (cntOf s) i) :=
  lsettled_localOf.mpr (fun m => settled_cntOf s m i)

theorem planAddTail_grp (n : Nat) (p : PodObj) : ∀ m ∈ planAddTail n p, m.grp = n := by
  intro m hm
  cases hb : (p.hasNode && !p.term)
  · simp [planAddTail, hb] at hm
    rcases hm with rfl | rfl <;> rfl
  · simp [planAddTail, hb] at hm
    rcases hm with rfl | rfl | rfl | rfl <;> rfl

theorem planRemoveV_grp (e : Option Pod) (n : Nat) (p : PodObj) (uf : Bool) : ∀ m ∈ planRemoveV e n p uf, m.grp = n := by
  intro m hm
  unfold planRemoveV at hm
  cases uf <;> cases h : asgOf e <;>
    simp only [h, if_true, Bool.false_eq_true, if_false, List.cons_append, List.nil_append, List.append_nil,
      List.mem_cons, List.not_mem_nil, or_false] at hm <;>
    (rcases hm with rfl | rfl | rfl <;> rfl)

theorem planSameV_grp (e : Option Pod) (n : Nat) (np op : PodObj) : ∀ m ∈ planSameV e n np op, m.grp = n := by
  intro m hm
  unfold planSameV at hm
  cases h : asgOf e <;> cases hb : (np.hasNode && !np.term) <;>
    simp only [h, hb, if_true, Bool.false_eq_true, if_false, List.cons_append, List.nil_append, List.append_nil,
      List.mem_cons, List.not_mem_nil, or_false] at hm <;>
    (rcases hm with rfl | rfl | rfl | rfl <;> rfl)

theorem focus_absent {s : State} {n i : Nat} (hnone : entry s n i = none) :
    focus (localOf s (cntOf s) i) n = ⟨none, 0, 0, 0, 0⟩ := by
  simp [focus, localOf, cntOf, hnone]

theorem focus_present {s : State} {n i : Nat} {e : Pod} (he : entry s n i = some e) :
    focus (localOf s (cntOf s) i) n =
      ⟨some e, e.req, w (fun p => p.np) e, w (fun p => p.assigned) e, w (fun p => p.assigned && p.np) e⟩ := by
  simp [focus, localOf, cntOf, he]

theorem fsettled_focus (s : State) (i n : Nat) : FSettled (focus (localOf s (cntOf s) i) n) :=
  (lsettled_iff _).mp (lsettled_cntOf s i) n

theorem safe_planAddTail {s : State} {n : Nat} {p : PodObj} (hst : stat s n = some true) (hnn : 0 ≤ p.req)
    (hnone : entry s n p.id = none) :
    FSafeRun (stat s n) p.id (focus (localOf s (cntOf s) p.id) n) (planAddTail n p) ∧
    FSettled (frun (stat s n) (focus (localOf s (cntOf s) p.id) n) (planAddTail n p)) := by
  rw [focus_absent hnone, hst]
  by_cases hb : (p.hasNode && !p.term) = true
  · simp [planAddTail, hb, FSafeRun, frun, fok, fstep, FSettled, dR, dN, reqOf, npOf, newEntry, gAsg, w, hnn]
    split <;> omega
  · simp [planAddTail, hb, FSafeRun, frun, fok, fstep, FSettled, dR, dN, reqOf, npOf, newEntry, w, hnn]
    split <;> omega

theorem safe_planRemoveV {s : State} {n i : Nat} {p : PodObj} {e : Pod} (uf : Bool) (hi : p.id = i)
    (hst : stat s n = some true) (hnn : 0 ≤ p.req) (he : entry s n i = some e)
    (hreq : e.req = p.req) (hnp : e.np = p.np) :
    FSafeRun (stat s n) i (focus (localOf s (cntOf s) i) n) (planRemoveV (some e) n p uf) ∧
    FSettled (frun (stat s n) (focus (localOf s (cntOf s) i) n) (planRemoveV (some e) n p uf)) := by
  rw [focus_present he, hst]
  cases uf <;> cases hasg : e.assigned <;>
    simp [planRemoveV, asgOf, hasg, FSafeRun, frun, fok, fstep, FSettled, dR, dN, reqOf, npOf, w, hreq, hnp, hnn, hi] <;>
    (generalize (if p.np = true then p.req else 0) = x; omega)

theorem safe_planSameV {s : State} {n : Nat} {np op : PodObj} {e : Pod}
    (hst : stat s n = some true) (hnnN : 0 ≤ np.req) (hnnO : 0 ≤ op.req) (he : entry s n np.id = some e)
    (hreq : e.req = op.req) (hnp : e.np = op.np) :
    FSafeRun (stat s n) np.id (focus (localOf s (cntOf s) np.id) n) (planSameV (some e) n np op) ∧
    FSettled (frun (stat s n) (focus (localOf s (cntOf s) np.id) n) (planSameV (some e) n np op)) := by
  rw [focus_present he, hst]
  cases hasg : e.assigned <;> cases hb : (np.hasNode && !np.term) <;>
    simp [planSameV, asgOf, hasg, hb, FSafeRun, frun, fok, fstep, FSettled, dR, dN, reqOf, npOf, w, gGhost, gAsg,
      hreq, hnp, hnnN, hnnO] <;>
    (have h1 : 0 ≤ (if np.np = true then np.req else 0) := by split <;> omega
     generalize (if np.np = true then np.req else 0) = x at *
     generalize (if op.np = true then op.req else 0) = y at *
     omega)

theorem entry_some {s : State} {n i : Nat} {e : Pod} (h : entry s n i = some e) :
    ∃ q, get? s n = some q ∧ getPod q.pods i = some e := by
  simp only [entry] at h
  cases hq : get? s n with
  | none => simp [hq] at h
  | some q => simp only [hq] at h; exact ⟨q, rfl, h⟩

theorem fsafe_nil (s : State) (i n : Nat) :
    (∀ m ∈ ([] : List Micro), m.grp = n) ∧
    FSafeRun (stat s n) i (focus (localOf s (cntOf s) i) n) [] ∧
    FSettled (frun (stat s n) (focus (localOf s (cntOf s) i) n) []) :=
  ⟨fun _ h => by simp at h, trivial, fsettled_focus s i n⟩

/-- removal part of OnPodUpdate / OnPodDelete on the group the pod is (perhaps) cached in -/
theorem removePart_ok {s : State} {n i : Nat} {p : PodObj} (uf : Bool) (hi : p.id = i) (hnn : 0 ≤ p.req)
    (hq : ∀ q, get? s n = some q → q.max.isSome = true ∧ Consistent q p) :
    (∀ m ∈ (if (entry s n i).isSome then planRemoveV (entry s n i) n p uf else []), m.grp = n) ∧
    FSafeRun (stat s n) i (focus (localOf s (cntOf s) i) n)
      (if (entry s n i).isSome then planRemoveV (entry s n i) n p uf else []) ∧
    FSettled (frun (stat s n) (focus (localOf s (cntOf s) i) n)
      (if (entry s n i).isSome then planRemoveV (entry s n i) n p uf else [])) := by
  cases he : entry s n i with
  | none => simpa using fsafe_nil s i n
  | some e =>
    obtain ⟨q, hq1, hg1⟩ := entry_some he
    obtain ⟨hmax, hcons⟩ := hq q hq1
    obtain ⟨hreq, hnp⟩ := hcons e (by rw [hi]; exact hg1)
    have hst : stat s n = some true := by rw [stat_some hq1, hmax]
    simp only [Option.isSome_some, if_true]
    obtain ⟨h1, h2⟩ := safe_planRemoveV uf hi hst hnn he hreq hnp
    exact ⟨planRemoveV_grp _ n p uf, h1, h2⟩

/-- add part of OnPodUpdate (quota change) on the new group -/
theorem addPart_ok {s : State} {n : Nat} {p : PodObj} (hnn : 0 ≤ p.req)
    (hq : ∀ q, get? s n = some q → q.max.isSome = true) :
    (∀ m ∈ (match stat s n with
        | none => []
        | some _ => if !(entry s n p.id).isSome && !p.ign then planAddTail n p else []), m.grp = n) ∧
    FSafeRun (stat s n) p.id (focus (localOf s (cntOf s) p.id) n)
      (match stat s n with
        | none => []
        | some _ => if !(entry s n p.id).isSome && !p.ign then planAddTail n p else []) ∧
    FSettled (frun (stat s n) (focus (localOf s (cntOf s) p.id) n)
      (match stat s n with
        | none => []
        | some _ => if !(entry s n p.id).isSome && !p.ign then planAddTail n p else [])) := by
  cases hq1 : get? s n with
  | none => simpa [stat_none hq1] using fsafe_nil s p.id n
  | some q =>
    have hst : stat s n = some true := by rw [stat_some hq1, hq q hq1]
    cases he : entry s n p.id with
    | some e => simpa [hst] using fsafe_nil s p.id n
    | none =>
      cases hign : p.ign with
      | true => simpa [hst] using fsafe_nil s p.id n
      | false =>
        obtain ⟨h1, h2⟩ := safe_planAddTail hst hnn he
        rw [hst] at h1 h2 ⊢
        simpa using ⟨planAddTail_grp n p, h1, h2⟩

theorem PodEv.safe {s : State} {ev : PodEv} (hg : Good s) (hpre : ev.Pre s) :
    Safe (stat s) ev.id (localOf s (cntOf s) ev.id) (ev.plan s) := by
  cases ev with
  | add n p =>
    have h0 := lsettled_cntOf s p.id
    show Safe (stat s) p.id (localOf s (cntOf s) p.id) (planAddV (stat s n) (entry s n p.id) n p)
    unfold planAddV
    split
    · exact h0
    · cases hq : get? s n with
      | none => rw [stat_none hq]; exact h0
      | some q =>
        have hst : stat s n = some true := by rw [stat_some hq, (hpre.quota q hq).1]
        rw [hst]
        simp only
        by_cases hs : (entry s n p.id).isSome = true
        · rw [if_pos hs]; exact h0
        · rw [if_neg hs]
          have he : entry s n p.id = none := by simpa using hs
          obtain ⟨h1, h2⟩ := safe_planAddTail hst hpre.nonneg he
          exact safe_of_focus (planAddTail_grp n p) h0 h1 h2
  | del n p =>
    have h0 := lsettled_cntOf s p.id
    show Safe (stat s) p.id (localOf s (cntOf s) p.id) (planDeleteV (entry s n p.id) n p)
    unfold planDeleteV
    by_cases hs : (entry s n p.id).isSome = true
    · obtain ⟨e, he⟩ := Option.isSome_iff_exists.mp hs
      rw [he]
      obtain ⟨q, hq, hge⟩ := entry_some he
      have hst : stat s n = some true := by rw [stat_some hq, (hpre.quota q hq).1]
      have hnn : 0 ≤ e.req := (hg.params q (get?_mem hq)).2 e (getPod_some hge).1
      obtain ⟨h1, h2⟩ := safe_planRemoveV (p := { p with req := e.req, np := e.np }) false rfl hst hnn he rfl rfl
      exact safe_of_focus (planRemoveV_grp _ n _ false) h0 h1 h2
    · have he : entry s n p.id = none := by simpa using hs
      rw [he]; exact h0
  | upd a b np op =>
    have h0 := lsettled_cntOf s np.id
    have hid : op.id = np.id := hpre.sameId.symm
    show Safe (stat s) np.id (localOf s (cntOf s) np.id)
      (planUpdateV (stat s a) (entry s a np.id) (entry s b np.id) a b np op)
    unfold planUpdateV
    by_cases hba : b = a
    · subst hba
      simp only [if_true]
      cases hq : get? s b with
      | none => rw [stat_none hq]; exact h0
      | some q =>
        have hmax := hpre.newQuota q hq
        have hst : stat s b = some true := by rw [stat_some hq, hmax]
        rw [hst]
        simp only
        cases hign : np.ign with
        | false =>
          simp only [Bool.not_false, if_true]
          by_cases hs : (entry s b np.id).isSome = true
          · rw [if_pos hs]
            obtain ⟨e, he⟩ := Option.isSome_iff_exists.mp hs
            rw [he]
            obtain ⟨q', hq', hg'⟩ := entry_some he
            rw [hq] at hq'; cases hq'
            obtain ⟨hreq, hnp⟩ := (hpre.oldQuota q hq).2 e (by rw [hid]; exact hg')
            obtain ⟨h1, h2⟩ := safe_planSameV hst hpre.nnNew hpre.nnOld he hreq hnp
            exact safe_of_focus (planSameV_grp _ b np op) h0 h1 h2
          · rw [if_neg hs]
            have he : entry s b np.id = none := by simpa using hs
            obtain ⟨h1, h2⟩ := safe_planAddTail hst hpre.nnNew he
            exact safe_of_focus (planAddTail_grp b np) h0 h1 h2
        | true =>
          simp only [Bool.not_true, Bool.false_eq_true, if_false]
          obtain ⟨h1, h2, h3⟩ := removePart_ok (s := s) (n := b) false hid hpre.nnOld hpre.oldQuota
          exact safe_of_focus h1 h0 h2 h3
    · simp only [hba, if_false]
      obtain ⟨h1, h2, h3⟩ := removePart_ok (s := s) (n := b) true hid hpre.nnOld hpre.oldQuota
      obtain ⟨k1, k2, k3⟩ := addPart_ok (s := s) (n := a) hpre.nnNew hpre.newQuota
      exact safe_of_focus2 hba h1 k1 h0 h2 h3 k2 k3

end KoordVerif.C01
