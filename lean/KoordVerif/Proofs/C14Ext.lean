import KoordVerif.Model.C14Entry
/-
C14 extension — helper lemmas for the entry-path decoding and the cgroup-v2 weight conversion.
The property theorems built from them live in Props/C14.lean.
-/
namespace KoordVerif.C14

/-- looking a name up in the dump of the pod spec = reading that container's declaration in the pod spec. -/
theorem lookup_declaredFrom (pod : List (Option Ctr)) (k i : Nat) :
    lookup (declaredFrom k pod) i = if i < k then none else nth pod (i - k) := by
  induction pod generalizing k with
  | nil =>
    simp only [declaredFrom, lookup, nth]
    split <;> rfl
  | cons x t ih =>
    cases x with
    | none =>
      simp only [declaredFrom]
      rw [ih (k + 1)]
      by_cases h1 : i < k
      · have : i < k + 1 := by omega
        simp [h1, this]
      · by_cases h2 : i = k
        · subst h2; simp [nth]
        · have h3 : ¬ i < k + 1 := by omega
          obtain ⟨m, rfl⟩ : ∃ m, i = k + 1 + m := ⟨i - (k + 1), by omega⟩
          have e1 : k + 1 + m - (k + 1) = m := by omega
          have e2 : k + 1 + m - k = m + 1 := by omega
          simp only [h1, h3, if_false, e1, e2, nth]
    | some c =>
      simp only [declaredFrom, lookup]
      by_cases h2 : k = i
      · subst h2; simp [nth]
      · simp only [h2, if_false]
        rw [ih (k + 1)]
        by_cases h1 : i < k
        · have : i < k + 1 := by omega
          simp [h1, this]
        · have h3 : ¬ i < k + 1 := by omega
          obtain ⟨m, rfl⟩ : ∃ m, i = k + 1 + m := ⟨i - (k + 1), by omega⟩
          have e1 : k + 1 + m - (k + 1) = m := by omega
          have e2 : k + 1 + m - k = m + 1 := by omega
          simp only [h1, h3, if_false, e1, e2, nth]

theorem lookup_declared (pod : List (Option Ctr)) (i : Nat) :
    lookup (declaredFrom 0 pod) i = nth pod i := by
  rw [lookup_declaredFrom]; simp

/-- `1 + ⌊(s-2)·9999 / 262142⌋` for shares in the valid range, without the truncating division. -/
theorem sharesToWeight_eq (s : Int) (h : 2 ≤ s) :
    sharesToWeight s = min 10000 (1 + (s - 2) * 9999 / 262142) := by
  unfold sharesToWeight weightMin weightMax
  have hn : 0 ≤ (s - 2) * 9999 := by omega
  rw [Int.tdiv_eq_ediv_of_nonneg hn]
  have : 0 ≤ (s - 2) * 9999 / 262142 := by omega
  simp only []
  split
  · omega
  · split <;> omega

theorem sharesToWeight_range (s : Int) : 1 ≤ sharesToWeight s ∧ sharesToWeight s ≤ 10000 := by
  unfold sharesToWeight weightMin weightMax
  simp only []
  split
  · omega
  · split <;> omega

theorem sharesToWeight_mono (a b : Int) (ha : 2 ≤ a) (h : a ≤ b) : sharesToWeight a ≤ sharesToWeight b := by
  rw [sharesToWeight_eq a ha, sharesToWeight_eq b (by omega)]
  have : (a - 2) * 9999 / 262142 ≤ (b - 2) * 9999 / 262142 := by
    apply Int.ediv_le_ediv (by omega); omega
  omega

end KoordVerif.C14
