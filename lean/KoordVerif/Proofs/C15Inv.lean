import KoordVerif.Proofs.C15Base
/- C15: what an accepted request establishes, and the structural invariant. -/
namespace KoordVerif.C15

/-! ### acceptance characterisations -/

theorem topoCheck_true {d : Nat} {s : Topo} {old : Option QI} {q : QI} {hp : Bool} (hn : q.name ≠ 0)
    (h : topoCheck d s old q hp = true) :
    isParentChangeOK s old q hp = true ∧ treeCheck s old q = true ∧
    ((q.parent = 0 ∧ q.isParent = false) ∨
     (parentInfoOK s q.name q.parent = true ∧ keysCheck d s q = true ∧ minCheck d s q = true)) := by
  unfold topoCheck at h
  simp only [hn, if_false] at h
  by_cases h1 : isParentChangeOK s old q hp = true <;> simp [h1] at h
  by_cases h2 : treeCheck s old q = true <;> simp [h2] at h
  refine ⟨h1, h2, ?_⟩
  by_cases h3 : q.parent = 0 ∧ q.isParent = false
  · exact Or.inl h3
  · right
    by_cases h4 : parentInfoOK s q.name q.parent = true
    · by_cases h5 : keysCheck d s q = true
      · simp [h4, h5] at h
        refine ⟨h4, h5, ?_⟩
        by_cases h6 : q.parent = 0
        · simp [h6] at h3 h; simp [h3] at h; exact h
        · simp [h6] at h; exact h
      · simp [h4, h5] at h
        exact absurd h (by simpa using h3)
    · simp [h4] at h
      exact absurd h (by simpa using h3)

def addState (s : Topo) (q : QI) : Topo :=
  { info := q :: s.info
    hkeys := q.parent :: q.name :: s.hkeys
    kids := (q.parent, q.name) :: s.kids
    nsMap := nsSetAll s.nsMap q.ns q.name }

theorem validAdd_true {d : Nat} {s : Topo} {q : QI} {sw : Bool} (h : (validAdd d s q sw).2 = true) :
    (find s.info q.name).isSome = false ∧ q.ns.any (fun n => (nsGet s.nsMap n).isSome) = false ∧
    selfOK d q sw = true ∧ topoCheck d s none q false = true ∧ (validAdd d s q sw).1 = addState s q := by
  unfold validAdd at h ⊢
  by_cases h1 : (find s.info q.name).isSome = true
  · simp [h1] at h
  by_cases h2 : q.ns.any (fun n => (nsGet s.nsMap n).isSome) = true
  · simp [h1, h2] at h
  by_cases h3 : selfOK d q sw = true
  · by_cases h4 : topoCheck d s none q false = true
    · simp only [h1, h2, h3, h4]; simp [addState]
    · simp [h1, h2, h3, h4] at h
  · simp [h1, h2, h3] at h

def updState (s : Topo) (o q : QI) : Topo :=
  { info := replace s.info q
    hkeys := s.hkeys
    kids := if o.parent != q.parent
            then (q.parent, q.name) :: s.kids.filter (fun e => e != (o.parent, q.name))
            else s.kids
    nsMap := nsSetAll (nsDelAll s.nsMap o.ns) q.ns q.name }

theorem validUpdate_true {d : Nat} {s : Topo} {q : QI} {sw hp : Bool} (h : (validUpdate d s q sw hp).2 = true) :
    (validUpdate d s q sw hp).1 = s ∨
    ∃ o, find s.info q.name = some o ∧ q.name ≠ 0 ∧ nsFree s q = true ∧ selfOK d q sw = true ∧
      topoCheck d s (some o) q hp = true ∧ (validUpdate d s q sw hp).1 = updState s o q := by
  cases hf : find s.info q.name with
  | none =>
    left
    simp only [validUpdate, hf]
    split <;> try rfl
    split <;> try rfl
    split <;> rfl
  | some o =>
    by_cases h0 : sameFields o q = true
    · left; simp [validUpdate, hf, h0]
    by_cases h1 : (q.name = 0 || q.name = 1) = true
    · simp [validUpdate, hf, h0, h1] at h
    by_cases h2 : nsFree s q = true
    · by_cases h3 : selfOK d q sw = true
      · by_cases h4 : topoCheck d s (some o) q hp = true
        · right
          refine ⟨o, rfl, ?_, h2, h3, h4, ?_⟩
          · intro h0'; simp [h0'] at h1
          · simp only [validUpdate, hf, h0, h1, h2, h3, h4]; simp [updState]
        · simp only [validUpdate, hf, h0, h1, h2, h3, h4] at h; simp at h
      · simp only [validUpdate, hf, h0, h1, h2, h3] at h; simp at h
    · simp only [validUpdate, hf, h0, h1, h2] at h; simp at h

def delState (s : Topo) (o : QI) (name : Nat) : Topo :=
  { info := s.info.filter (fun c => c.name != name)
    hkeys := s.hkeys.filter (fun n => n != name)
    kids := s.kids.filter (fun e => e != (o.parent, name) && e.1 != name)
    nsMap := nsDelAll s.nsMap o.ns }

theorem validDelete_true {s : Topo} {name : Nat} {lp : Bool} (h : (validDelete s name lp).2 = true) :
    ∃ o, find s.info name = some o ∧ hasKids s name = false ∧ lp = false ∧
      (validDelete s name lp).1 = delState s o name := by
  by_cases h1 : (name = 1 || name = 0 || name = 2) = true
  · simp only [validDelete, h1] at h; simp at h
  cases hf : find s.info name with
  | none => simp only [validDelete, h1, hf] at h; simp at h
  | some o =>
    by_cases h2 : s.hkeys.contains name = true
    · by_cases h3 : hasKids s name = true
      · simp only [validDelete, h1, hf, h2, h3] at h; simp at h
      · by_cases h4 : lp = true
        · simp only [validDelete, h1, hf, h2, h3, h4] at h; simp at h
        · refine ⟨o, rfl, by simpa using h3, by simpa using h4, ?_⟩
          simp only [validDelete, h1, hf, h2, h3, h4]; simp [delState]
    · simp only [validDelete, h1, hf, h2] at h; simp at h

end KoordVerif.C15
