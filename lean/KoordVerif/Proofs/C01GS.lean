import KoordVerif.Proofs.C01Reset3
/-
C01: a state in which several equations may be off by known amounts (`GS`), and the elementary moves on it.
-/
namespace KoordVerif.C01

structure GS (st : State) (a b k kn : Nat → Int) (R : Nat → Prop) (c e ku knu : Nat → Int) : Prop where
  topo : Topo st
  params : ParamsOK st
  pods : PodsOK st
  req : ReqG st a b k kn R
  used : UsedG st c e ku knu
  rnn : RNN st
  unn : UNN st

def zf : Nat → Int := fun _ => 0

theorem good_of_gs {st : State} {R : Nat → Prop} (h : GS st zf zf zf zf R zf zf zf zf) (hR : ∀ m, R m) : Good st := by
  refine ⟨h.topo, h.params, h.pods, reqPend_zero.mpr ?_, usedPend_zero.mpr ?_⟩
  · intro m q hq
    obtain ⟨a, b, c, d, f⟩ := h.req m q hq
    simp only [zf, Int.add_zero] at a b c d
    exact ⟨a, b, c, d, fun hr => f hr (hR m)⟩
  · intro m q hq
    obtain ⟨a, b, c, d⟩ := h.used m q hq
    simp only [zf, Int.add_zero] at a b c d
    exact ⟨a, b, c, d⟩

theorem gs_of_good {st : State} (h : Good st) : GS st zf zf zf zf (fun _ => True) zf zf zf zf := by
  have hl := good_localInv h
  refine ⟨h.topo, h.params, h.pods, ?_, ?_, reqInv_nonneg h.topo.tree h.params hl.1, usedInv_nonneg h.topo.tree h.params hl.2⟩
  · intro m q hq
    have := hl.1 m q hq
    simp only [zf, Int.add_zero]
    exact ⟨this.selfReq, this.selfNpReq, this.cr, this.npReq, fun hr _ => this.rule hr⟩
  · intro m q hq
    have := hl.2 m q hq
    simp only [zf, Int.add_zero]
    exact ⟨this.selfUsed, this.selfNpUsed, this.used, this.npUsed⟩

theorem gs_congr {st : State} {a b k kn a' b' k' kn' : Nat → Int} {R R' : Nat → Prop} {c e ku knu c' e' ku' knu' : Nat → Int}
    (h : GS st a b k kn R c e ku knu)
    (ha : ∀ m, a' m = a m) (hb : ∀ m, b' m = b m) (hk : ∀ m, k' m = k m) (hkn : ∀ m, kn' m = kn m)
    (hR : ∀ m, R' m → R m)
    (hc : ∀ m, c' m = c m) (he : ∀ m, e' m = e m) (hku : ∀ m, ku' m = ku m) (hknu : ∀ m, knu' m = knu m) :
    GS st a' b' k' kn' R' c' e' ku' knu' :=
  ⟨h.topo, h.params, h.pods, reqG_congr h.req ha hb hk hkn hR, usedG_congr h.used hc he hku hknu, h.rnn, h.unn⟩

/-- request propagation along an explicit chain -/
theorem gs_propReq {st : State} {pth : List Nat} {n : Nat} {self : Bool} {d dnp : Int}
    {a b k kn : Nat → Int} {R : Nat → Prop} {c e ku knu : Nat → Int} (h : GS st a b k kn R c e ku knu)
    (hc : Chain st pth) (hnd : pth.Nodup) (hh : pth.head? = some n)
    (hself : ∀ q, get? st n = some q →
      0 ≤ q.selfRequest + (if self = true then d else 0) ∧ 0 ≤ q.selfNpRequest + (if self = true then dnp else 0))
    (hpathk : ∀ m ∈ pth, m ≠ n → k m = 0 ∧ kn m = 0)
    (hhead : (k n = (if self = true then 0 else d) ∧ kn n = (if self = true then 0 else dnp)) ∨
      (∀ q, get? st n = some q → 0 ≤ crOf q + d ∧ 0 ≤ q.npRequest + dnp)) :
    GS (propReq st pth self d dnp)
      (fun m => a m - (if m = n ∧ self = true then d else 0)) (fun m => b m - (if m = n ∧ self = true then dnp else 0))
      (fun m => k m - (if m = n ∧ self = false then d else 0)) (fun m => kn m - (if m = n ∧ self = false then dnp else 0))
      (fun m => R m ∨ m ∈ pth) c e ku knu := by
  have hR := propReq_gen hc hnd hh h.topo.tree (fun q hq => (h.params q hq).1) h.req h.rnn hself hpathk hhead
  have hU := usedG_of_propReq pth self d dnp h.used h.unn
  have hskel : (propReq st pth self d dnp).map skelF = st.map skelF :=
    propReqW_map skelF (fun q q' h => by simp [skelF, h.name, h.parent, h.max, h.pods]) clamp0 _ st self _ _
  exact ⟨topo_congr (tree_of_skel hskel) h.topo, params_of_skel hskel h.params, pods_of_skel hskel h.pods,
    hR.2.1, hU.1, hR.2.2, hU.2⟩

theorem gs_propUsed {st : State} {pth : List Nat} {n : Nat} {self : Bool} {d dnp : Int}
    {a b k kn : Nat → Int} {R : Nat → Prop} {c e ku knu : Nat → Int} (h : GS st a b k kn R c e ku knu)
    (hc : Chain st pth) (hnd : pth.Nodup) (hh : pth.head? = some n)
    (hself : ∀ q, get? st n = some q →
      0 ≤ q.selfUsed + (if self = true then d else 0) ∧ 0 ≤ q.selfNpUsed + (if self = true then dnp else 0))
    (hpathk : ∀ m ∈ pth, m ≠ n → ku m = 0 ∧ knu m = 0)
    (hhead : (ku n = (if self = true then 0 else d) ∧ knu n = (if self = true then 0 else dnp)) ∨
      (∀ q, get? st n = some q → 0 ≤ q.used + d ∧ 0 ≤ q.npUsed + dnp)) :
    GS (propUsed st pth self d dnp) a b k kn R
      (fun m => c m - (if m = n ∧ self = true then d else 0)) (fun m => e m - (if m = n ∧ self = true then dnp else 0))
      (fun m => ku m - (if m = n ∧ self = false then d else 0)) (fun m => knu m - (if m = n ∧ self = false then dnp else 0)) := by
  have hU := propUsed_gen hc hnd hh h.topo.tree h.used h.unn hself hpathk hhead
  have hR := reqG_of_propUsed pth self d dnp h.req h.rnn
  have hskel : (propUsed st pth self d dnp).map skelF = st.map skelF :=
    propUsedW_map skelF (fun q q' h => by simp [skelF, h.name, h.parent, h.max, h.pods]) clamp0 _ st self _ _
  exact ⟨topo_congr (tree_of_skel hskel) h.topo, params_of_skel hskel h.params, pods_of_skel hskel h.pods,
    hR.1, hU.2.1, hR.2, hU.2.2⟩

/-- rewrite max / min / request of the group `x` -/
theorem gs_set {st : State} {x : Nat} {q q' : Quota}
    {a b k kn : Nat → Int} {R R' : Nat → Prop} {c e ku knu : Nat → Int} (h : GS st a b k kn R c e ku knu)
    (hq : get? st x = some q)
    (hname : q'.name = q.name) (hparent : q'.parent = q.parent) (hpods : q'.pods = q.pods)
    (hsr : q'.selfRequest = q.selfRequest) (hsnr : q'.selfNpRequest = q.selfNpRequest)
    (hnr : q'.npRequest = q.npRequest) (hcr : crOf q' = crOf q) (hreq : 0 ≤ q'.request)
    (hu : q'.used = q.used) (hnu : q'.npUsed = q.npUsed) (hsu : q'.selfUsed = q.selfUsed) (hsnu : q'.selfNpUsed = q.selfNpUsed)
    (hrule : x ≠ rootName → R' x → q'.request = lendRule q' q'.childRequest)
    (hR' : ∀ m, m ≠ x → R' m → R m)
    (hmax : ∀ m, q'.max = some m → 0 ≤ m) (hpn : q.parent ≠ x) :
    GS (set st q') a b (fun m => k m + (if m = q.parent then q'.limited - q.limited else 0)) kn R' c e ku knu ∧
    tree (set st q') = tree st := by
  have hqn := get?_name hq
  have hq' : get? st q'.name = some q := by rw [hname, hqn]; exact hq
  have hget := get?_set hq'
  rw [hname, hqn] at hget
  have htree : tree (set st q') = tree st := tree_set hq' hparent
  have e1 := fun m => sumKids_set Quota.limited m hq' hparent
  have e2 : ∀ m, sumKids (·.npRequest) m (set st q') = sumKids (·.npRequest) m st := fun m =>
    sumKids_eq_of_map _ m st _ (set_map _ hq' (by simp [hparent, hnr]))
  have e3 : ∀ m, sumKids (·.used) m (set st q') = sumKids (·.used) m st := fun m =>
    sumKids_eq_of_map _ m st _ (set_map _ hq' (by simp [hparent, hu]))
  have e4 : ∀ m, sumKids (·.npUsed) m (set st q') = sumKids (·.npUsed) m st := fun m =>
    sumKids_eq_of_map _ m st _ (set_map _ hq' (by simp [hparent, hnu]))
  refine ⟨⟨topo_congr htree h.topo, ?_, ?_, ?_, ?_, ?_, ?_⟩, htree⟩
  · intro y hy
    rcases mem_set hy with e | e
    · subst e; exact ⟨hmax, by rw [hpods]; exact (h.params q (get?_mem hq)).2⟩
    · exact h.params y e
  · intro y hy
    rcases mem_set hy with e | e
    · subst e; rw [hpods]; exact h.pods q (get?_mem hq)
    · exact h.pods y e
  · intro m q0 h0
    rw [hget m] at h0
    by_cases hm : m = x
    · simp only [hm, if_true, Option.some.injEq] at h0
      subst h0; subst hm
      obtain ⟨x1, x2, x3, x4, _⟩ := h.req m q hq
      have hne : ¬ m = q.parent := fun e => hpn e.symm
      refine ⟨by rw [hsr, hpods]; exact x1, by rw [hsnr, hpods]; exact x2, ?_, ?_, hrule⟩
      · simp only [dCR, e1, hcr, hsr, hpn, hne, if_false] at x3 ⊢; omega
      · simp only [dNpReq, e2, hnr, hsnr] at x4 ⊢; exact x4
    · simp only [hm, if_false] at h0
      obtain ⟨x1, x2, x3, x4, x5⟩ := h.req m q0 h0
      refine ⟨x1, x2, ?_, ?_, fun hr hRm => x5 hr (hR' m hm hRm)⟩
      · simp only [dCR, e1] at x3 ⊢
        by_cases hp : q.parent = m
        · subst hp; simp; omega
        · have : ¬ m = q.parent := fun e => hp e.symm
          simp [hp, this]; omega
      · simp only [dNpReq, e2] at x4 ⊢; exact x4
  · intro m q0 h0
    rw [hget m] at h0
    by_cases hm : m = x
    · simp only [hm, if_true, Option.some.injEq] at h0
      subst h0; subst hm
      obtain ⟨x1, x2, x3, x4⟩ := h.used m q hq
      refine ⟨by rw [hsu, hpods]; exact x1, by rw [hsnu, hpods]; exact x2, ?_, ?_⟩
      · simp only [dUsed, e3, hu, hsu] at x3 ⊢; exact x3
      · simp only [dNpUsed, e4, hnu, hsnu] at x4 ⊢; exact x4
    · simp only [hm, if_false] at h0
      obtain ⟨x1, x2, x3, x4⟩ := h.used m q0 h0
      refine ⟨x1, x2, ?_, ?_⟩
      · simp only [dUsed, e3] at x3 ⊢; exact x3
      · simp only [dNpUsed, e4] at x4 ⊢; exact x4
  · intro m q0 h0
    rw [hget m] at h0
    by_cases hm : m = x
    · simp only [hm, if_true, Option.some.injEq] at h0
      subst h0
      have := h.rnn x q hq
      exact ⟨by rw [hcr]; exact this.cr, hreq, by rw [hnr]; exact this.npRequest, by rw [hsr]; exact this.selfRequest,
        by rw [hsnr]; exact this.selfNpRequest⟩
    · simp only [hm, if_false] at h0; exact h.rnn m q0 h0
  · intro m q0 h0
    rw [hget m] at h0
    by_cases hm : m = x
    · simp only [hm, if_true, Option.some.injEq] at h0
      subst h0
      have := h.unn x q hq
      exact ⟨by rw [hu]; exact this.used, by rw [hnu]; exact this.npUsed, by rw [hsu]; exact this.selfUsed,
        by rw [hsnu]; exact this.selfNpUsed⟩
    · simp only [hm, if_false] at h0; exact h.unn m q0 h0

end KoordVerif.C01
