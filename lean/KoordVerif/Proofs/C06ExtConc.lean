import KoordVerif.Model.C06
import KoordVerif.Proofs.C06Ledger
/-
C06 extension — "however allocations and releases interleave", with goroutines.

Small-step model of the node's ledger shared by
  * informer goroutines: `resourceManager.Update` of a RUNNING pod (re-asserts the allocation the
    ledger already records for it) and `resourceManager.Release` (pod deleted), and
  * the scheduling goroutine: `Allocate` = a read section (`GetAvailableCPUs`, RLock) that yields a
    snapshot of the available CPUs, followed later — in ANOTHER critical section — by
    `Update(new pod, CPUs picked out of the snapshot)` (Reserve).
One `Act` = one critical section of `NodeAllocation.lock`; a schedule is any interleaving of the
threads' sections.

What is atomic in the code (tied to the source by Ties/C06.lean): `Update` = release + add inside ONE
acquisition; `Release`; each read.  What is NOT atomic: `Allocate`'s read(s) and the later `Update`
— that pair is safe only because scheduling cycles are serialized (one scheduling goroutine), see
`two_schedulers_counterexample`.
-/
namespace KoordVerif.C06

inductive Act where
  | updAtomic (uid : Nat)    -- Update of a running pod: release + addPodAllocation in one section
  | updRelease (uid : Nat)   -- split shape, 1st section: Release (remembers the allocation of the event)
  | updAdd                   -- split shape, 2nd section: addPodAllocation under a re-taken lock
  | release (uid : Nat)      -- Release (pod deleted)
  | read                     -- scheduling goroutine: GetAvailableCPUs → snapshot
  | commit (uid n : Nat)     -- scheduling goroutine: Update(new pod, first n CPUs of the snapshot)
deriving Repr, DecidableEq

structure Thread where
  prog : List Act
  snap : List Nat := []
  pend : Option PodAlloc := none
deriving Repr

structure Env where
  topo     : List Nat
  maxRef   : Int
  reserved : List Nat

/-- one critical section of thread `t` on the shared ledger. -/
def actStep (env : Env) (L : Ledger) (t : Thread) : Act → Ledger × Thread
  | .updAtomic uid =>
    match findPod L.pods uid with
    | some p => (updatePod L p, t)
    | none => (L, t)
  | .updRelease uid => (releasePod L uid, { t with pend := findPod L.pods uid })
  | .updAdd =>
    match t.pend with
    | some p => (addPod L p, { t with pend := none })
    | none => (L, t)
  | .release uid => (releasePod L uid, t)
  | .read => (L, { t with snap := availableCPUs env.topo L.cpus env.maxRef env.reserved [] })
  | .commit uid n =>
    (updatePod L { uid := uid, excl := 0, cpus := t.snap.take n, numa := [] }, { t with snap := [] })

structure Sys where
  L       : Ledger
  threads : List Thread

/-- thread `i` runs its next section (nothing happens if it has none). -/
def sysStep (env : Env) (s : Sys) (i : Nat) : Sys :=
  match s.threads[i]? with
  | none => s
  | some t =>
    match t.prog with
    | [] => s
    | a :: rest =>
      let r := actStep env s.L { t with prog := rest } a
      { L := r.1, threads := s.threads.set i r.2 }

def sysRun (env : Env) (s : Sys) (sched : List Nat) : Sys := sched.foldl (sysStep env) s

def isSched : Act → Bool
  | .read => true
  | .commit _ _ => true
  | _ => false

def isSplit : Act → Bool
  | .updRelease _ => true
  | .updAdd => true
  | _ => false

/-- the critical-section shape of `resourceManager.Update` as extracted from the source:
    sections in order, each (lock held?, [0 release | 1 addPodAllocation | 2 NodeAllocation.update]). -/
def updProg (naUpdate : List Nat) (shape : List (Bool × List Nat)) (uid : Nat) : List Act :=
  shape.flatMap fun sec =>
    let acts := sec.2.flatMap fun a => if a = 2 then naUpdate else [a]
    if !sec.1 then [] else
    if acts = [0, 1] then [.updAtomic uid]
    else if acts = [0] then [.updRelease uid]
    else if acts = [1] then [.updAdd]
    else []

/-! ### exact effect of release / re-add on the ref-counts -/

theorem releasePod_refs_found {L : Ledger} (h : Inv L) {uid : Nat} {p : PodAlloc}
    (hf : findPod L.pods uid = some p) (c : Nat) :
    refOf (releasePod L uid).cpus c = refOf L.cpus c - cnt p.cpus c := by
  have h' := (releasePod_spec h uid).1
  rw [h'.refs c, h.refs c]
  unfold releasePod
  simp only [hf]
  have := sum_split_found (fun p => cnt p.cpus c) L.pods uid p hf h.uids
  unfold holdCount
  omega

theorem addPod_refs_new {L : Ledger} (h : Inv L) (p : PodAlloc) (hnew : p.uid ∉ L.pods.map (·.uid)) (c : Nat) :
    refOf (addPod L p).cpus c = refOf L.cpus c + cnt p.cpus c := by
  unfold addPod
  have : hasPod L.pods p.uid = false := by
    cases hh : hasPod L.pods p.uid with
    | false => rfl
    | true => exact absurd ((hasPod_iff _ _).mp hh) hnew
  simp only [this, Bool.false_eq_true, ↓reduceIte]
  exact (foldl_addCPU p.excl p.cpus L.cpus h.pos).2 c

/-- **re-asserting the recorded allocation of a running pod in ONE section leaves every ref-count
    as it was** (so a concurrent reader never sees the pod's CPUs free). -/
theorem updAtomic_refs {L : Ledger} (h : Inv L) {uid : Nat} {p : PodAlloc}
    (hf : findPod L.pods uid = some p) (c : Nat) : refOf (updatePod L p).cpus c = refOf L.cpus c := by
  have hpu := (findPod_some hf).2
  unfold updatePod
  rw [hpu]
  have hs := releasePod_spec h uid
  have := addPod_refs_new hs.1 p (by rw [hpu]; exact hs.2.1) c
  rw [this, releasePod_refs_found h hf c]
  omega

theorem podOK_of_inv {L : Ledger} (h : Inv L) {uid : Nat} {p : PodAlloc} (hf : findPod L.pods uid = some p) :
    PodOK p := h.nonneg p (findPod_some hf).1

/-! ### the invariant of the concurrent system -/

/-- every CPU in a thread's snapshot is still held by fewer pods than the limit, and the snapshot
    has no duplicates. -/
def SnapOK (maxRef : Int) (L : Ledger) (t : Thread) : Prop :=
  t.snap.Nodup ∧ ∀ c ∈ t.snap, refOf L.cpus c < maxRef

structure CInv (env : Env) (s : Sys) : Prop where
  inv   : Inv s.L
  bound : ∀ c, refOf s.L.cpus c ≤ env.maxRef
  snaps : ∀ t ∈ s.threads, SnapOK env.maxRef s.L t

theorem count_le_one_of_nodup' : ∀ (l : List Nat), l.Nodup → ∀ c, cnt l c ≤ 1
  | [], _, c => by simp [cnt]
  | x :: xs, h, c => by
    rw [List.nodup_cons] at h
    rw [cnt_cons]
    have ih := count_le_one_of_nodup' xs h.2 c
    by_cases hx : x = c
    · subst hx
      have : xs.count x = 0 := List.count_eq_zero.mpr h.1
      simp [cnt, this]
    · simp [hx]; exact ih

theorem cnt_pos_mem {l : List Nat} {c : Nat} (h : 1 ≤ cnt l c) : c ∈ l := by
  unfold cnt at h
  exact List.count_pos_iff.mp (by omega)

/-- the schedule-independent core: one section of one thread keeps the invariant, provided the
    thread that commits is the only one holding a snapshot (one scheduling goroutine) — expressed
    by `honly`: every OTHER thread's snapshot is empty. -/
theorem actStep_inv (env : Env) (hmax : 1 ≤ env.maxRef) (htopo : env.topo.Nodup) {L : Ledger} (t : Thread) (a : Act)
    (hnosplit : isSplit a = false)
    (hinv : Inv L) (hb : ∀ c, refOf L.cpus c ≤ env.maxRef) (hsnap : SnapOK env.maxRef L t) :
    Inv (actStep env L t a).1 ∧ (∀ c, refOf (actStep env L t a).1.cpus c ≤ env.maxRef) ∧
    SnapOK env.maxRef (actStep env L t a).1 (actStep env L t a).2 ∧
    (∀ c, a ≠ .read → (∀ uid n, a ≠ .commit uid n) → refOf (actStep env L t a).1.cpus c ≤ refOf L.cpus c) := by
  cases a with
  | updAtomic uid =>
    simp only [actStep]
    cases hf : findPod L.pods uid with
    | none => exact ⟨hinv, hb, hsnap, fun c _ _ => by simp⟩
    | some p =>
      have hr := updAtomic_refs hinv hf
      refine ⟨inv_updatePod hinv p (podOK_of_inv hinv hf), fun c => by rw [hr c]; exact hb c,
        ⟨hsnap.1, fun c hc => by rw [hr c]; exact hsnap.2 c hc⟩, fun c _ _ => by rw [hr c]; omega⟩
  | updRelease uid => simp [isSplit] at hnosplit
  | updAdd => simp [isSplit] at hnosplit
  | release uid =>
    simp only [actStep]
    have hs := releasePod_spec hinv uid
    exact ⟨hs.1, fun c => by have := hs.2.2 c; have := hb c; omega,
      ⟨hsnap.1, fun c hc => by have := hs.2.2 c; have := hsnap.2 c hc; omega⟩, fun c _ _ => hs.2.2 c⟩
  | read =>
    simp only [actStep]
    refine ⟨hinv, hb, ⟨?_, fun c hc => ?_⟩, fun c h => absurd rfl h⟩
    · unfold availableCPUs; exact htopo.filter _
    · unfold availableCPUs at hc
      simp only [List.foldl_nil, List.mem_filter, Bool.and_eq_true, Bool.not_eq_eq_eq_not, Bool.not_true] at hc
      unfold refOf
      cases hg : cpuGet L.cpus c with
      | none => simp; omega
      | some r => simp [hg] at hc; simp; omega
  | commit uid n =>
    simp only [actStep]
    let p : PodAlloc := { uid := uid, excl := 0, cpus := t.snap.take n, numa := [] }
    have hpok : PodOK p := by intro e he; simp [p] at he
    have hs := releasePod_spec hinv uid
    have hnew : p.uid ∉ (releasePod L uid).pods.map (·.uid) := hs.2.1
    have hadd := addPod_refs_new hs.1 p hnew
    have hnd : p.cpus.Nodup := (List.take_sublist _ _).nodup hsnap.1
    refine ⟨inv_updatePod hinv p hpok, fun c => ?_, ⟨by simp, by simp⟩, fun c _ h => absurd rfl (h uid n)⟩
    show refOf (addPod (releasePod L p.uid) p).cpus c ≤ env.maxRef
    rw [hadd c]
    have h1 := count_le_one_of_nodup' p.cpus hnd c
    have h0 := cnt_nonneg p.cpus c
    have hrel := hs.2.2 c
    by_cases hc : cnt p.cpus c = 1
    · have hmem : c ∈ t.snap := List.mem_of_mem_take (cnt_pos_mem (l := p.cpus) (by omega))
      have := hsnap.2 c hmem
      omega
    · have := hb c; omega

/-- programs of the one-section shape with ONE scheduling goroutine: thread 0 may read/commit, all
    other threads are informer goroutines (atomic Update of running pods, Release). -/
def ShapeOK (threads : List Thread) : Prop :=
  (∀ t ∈ threads, ∀ a ∈ t.prog, isSplit a = false) ∧
  (∀ i t, threads[i]? = some t → i ≠ 0 → (∀ a ∈ t.prog, isSched a = false) ∧ t.snap = [])

theorem sysStep_inv (env : Env) (hmax : 1 ≤ env.maxRef) (htopo : env.topo.Nodup) (s : Sys) (i : Nat)
    (hshape : ShapeOK s.threads) (h : CInv env s) :
    CInv env (sysStep env s i) ∧ ShapeOK (sysStep env s i).threads := by
  unfold sysStep
  cases hti : s.threads[i]? with
  | none => exact ⟨h, hshape⟩
  | some t =>
    simp only
    cases hp : t.prog with
    | nil => exact ⟨h, hshape⟩
    | cons a rest =>
      simp only
      have htmem : t ∈ s.threads := List.mem_of_getElem? hti
      have hns : isSplit a = false := hshape.1 t htmem a (by simp [hp])
      have hsnap0 : SnapOK env.maxRef s.L { t with prog := rest } := h.snaps t htmem
      have hr := actStep_inv env hmax htopo { t with prog := rest } a hns h.inv h.bound hsnap0
      have hilt : i < s.threads.length := by
        rcases List.getElem?_eq_some_iff.mp hti with ⟨hlt, _⟩; exact hlt
      -- threads other than `i` keep their snapshot property
      have hother : ∀ j u, s.threads[j]? = some u → j ≠ i → SnapOK env.maxRef (actStep env s.L { t with prog := rest } a).1 u := by
        intro j u hju hji
        have humem : u ∈ s.threads := List.mem_of_getElem? hju
        have hu := h.snaps u humem
        by_cases hi0 : i = 0
        · -- the stepping thread is the scheduler; `u` is an informer thread with an empty snapshot
          have := (hshape.2 j u hju (by omega)).2
          exact ⟨by simp [this], by simp [this]⟩
        · -- the stepping thread is an informer thread: its section is not read/commit, ref-counts do not grow
          have hsa : isSched a = false := (hshape.2 i t hti hi0).1 a (by simp [hp])
          have hdec := hr.2.2.2
          refine ⟨hu.1, fun c hc => ?_⟩
          have := hdec c (by intro e; subst e; simp [isSched] at hsa) (by intro uid n e; subst e; simp [isSched] at hsa)
          have := hu.2 c hc
          omega
      refine ⟨⟨hr.1, hr.2.1, ?_⟩, ?_, ?_⟩
      · intro u hu
        rcases List.mem_iff_getElem?.mp hu with ⟨j, hj⟩
        rw [List.getElem?_set] at hj
        by_cases hji : i = j
        · subst hji
          simp [hilt] at hj
          subst hj
          exact hr.2.2.1
        · simp [hji] at hj
          exact hother j u hj (fun e => hji e.symm)
      · intro u hu b hb
        rcases List.mem_iff_getElem?.mp hu with ⟨j, hj⟩
        rw [List.getElem?_set] at hj
        by_cases hji : i = j
        · subst hji
          simp [hilt] at hj
          subst hj
          have hprog : (actStep env s.L { t with prog := rest } a).2.prog = rest := by
            cases a <;> simp [actStep] <;> (try split) <;> rfl
          rw [hprog] at hb
          exact hshape.1 t htmem b (by simp [hp, hb])
        · simp [hji] at hj
          exact hshape.1 u (List.mem_of_getElem? hj) b hb
      · intro j u hj hj0
        rw [List.getElem?_set] at hj
        by_cases hji : i = j
        · subst hji
          simp [hilt] at hj
          subst hj
          have hold := hshape.2 i t hti hj0
          have hsa : isSched a = false := hold.1 a (by simp [hp])
          have hprog : (actStep env s.L { t with prog := rest } a).2.prog = rest := by
            cases a <;> simp [actStep] <;> (try split) <;> rfl
          have hsn : (actStep env s.L { t with prog := rest } a).2.snap = [] := by
            cases a <;> simp [actStep, isSched] at hsa ⊢ <;> (try split) <;> simp [hold.2]
          exact ⟨fun b hb => hold.1 b (by rw [hprog] at hb; simp [hp, hb]), hsn⟩
        · simp [hji] at hj
          exact hshape.2 j u hj hj0

theorem sysRun_inv (env : Env) (hmax : 1 ≤ env.maxRef) (htopo : env.topo.Nodup) (sched : List Nat) :
    ∀ s, ShapeOK s.threads → CInv env s → CInv env (sysRun env s sched) := by
  induction sched with
  | nil => intro s _ h; exact h
  | cons i is ih =>
    intro s hs h
    have := sysStep_inv env hmax htopo s i hs h
    exact ih _ this.2 this.1

end KoordVerif.C06
