import KoordVerif.Proofs.C12
/-
C12 — helper development for the cacheable exact sweeps (`UpdateBatch(true, …)`) used by
applyCPUSetWithNonePolicy: a sweep rewrites assignment `A` into assignment `B` one directory at a
time; it keeps the hierarchy valid when it runs parents-first and `A c ≤ B p` on every edge, or
children-first and `B c ≤ A p` on every edge.
-/
namespace KoordVerif.C12

variable {α : Type}

theorem stepCached_spec {D : Dom α} (hD : DomEq D) (exp : Bool) (s : St α) (u : Upd α)
    (t : α) (ht : u.tgt = some t) (hc : CacheOK s) :
    (stepCached D exp s u).1.files = setAt s.files u.node t ∧
    CacheOK (stepCached D exp s u).1 ∧
    (((stepCached D exp s u).2 = [] ∧ (stepCached D exp s u).1.files = s.files) ∨
     ((stepCached D exp s u).2 = [(u.node, t)])) := by
  by_cases hn : needUpdate D exp s u = true
  · by_cases hsame : D.same (s.files u.node) t = true
    · have e : stepCached D exp s u = ({ s with cache := setAt s.cache u.node (D.afterUpdate t) }, []) := by
        simp [stepCached, hn, ht, hsame]
      have hf := hD.same_eq _ _ hsame
      rw [e]
      refine ⟨by rw [← hf]; exact (setAt_self _ _).symm, ?_, Or.inl ⟨rfl, rfl⟩⟩
      exact cacheOK_setCache s _ _ hc (fun x hx => by rw [hf]; exact hD.after_eq _ _ hx)
    · have hsame' : D.same (s.files u.node) t = false := by simpa using hsame
      have e : stepCached D exp s u =
          ({ s with files := setAt s.files u.node t, cache := setAt s.cache u.node (D.afterUpdate t) },
           [(u.node, t)]) := by
        simp [stepCached, hn, ht, hsame']
      rw [e]
      refine ⟨rfl, ?_, Or.inr rfl⟩
      exact cacheOK_setAt s _ _ _ hc (fun x hx => hD.after_eq _ _ hx)
  · have hn' : needUpdate D exp s u = false := by simpa using hn
    have hf := needUpdate_false hD exp s u t ht hc hn'
    have e : stepCached D exp s u = (s, []) := by simp [stepCached, hn']
    rw [e]
    exact ⟨by rw [← hf]; exact (setAt_self _ _).symm, hc, Or.inl ⟨rfl, rfl⟩⟩

/-- invariant of a cacheable exact sweep turning assignment `A` into `B`; `l` = updaters still to run. -/
def JC (A B : Nat → α) (l : List (Upd α)) (s : St α) : Prop :=
  CacheOK s ∧ (nodes l).Nodup ∧ (∀ u ∈ l, u.tgt = some (B u.node)) ∧
  ∀ n, s.files n = if n ∈ nodes l then A n else B n

theorem JC_step {D : Dom α} (hD : DomEq D) (exp : Bool) (A B : Nat → α) (u : Upd α) (l : List (Upd α)) (s : St α)
    (h : JC A B (u :: l) s) :
    JC A B l (stepCached D exp s u).1 ∧
    (((stepCached D exp s u).2 = [] ∧ (stepCached D exp s u).1.files = s.files) ∨
     (∃ w, (stepCached D exp s u).2 = [w] ∧ (stepCached D exp s u).1.files = setAt s.files w.1 w.2)) := by
  obtain ⟨hc, hnd, ht, hf⟩ := h
  have htu := ht u (List.mem_cons_self)
  obtain ⟨g1, g2, g3⟩ := stepCached_spec hD exp s u (B u.node) htu hc
  simp only [nodes_cons, List.nodup_cons] at hnd
  refine ⟨⟨g2, hnd.2, fun v hv => ht v (List.mem_cons_of_mem _ hv), ?_⟩, ?_⟩
  · intro n
    rw [g1]; unfold setAt
    by_cases hn : n = u.node
    · subst hn; simp [hnd.1]
    · simp only [hn, if_false, hf n, nodes_cons, List.mem_cons, false_or]
  · rcases g3 with g | g
    · exact Or.inl g
    · exact Or.inr ⟨_, g, g1⟩

section Ordered
variable (parent : Nat → Option Nat) (le : α → α → Prop) (A B : Nat → α)

/-- parents first. -/
def KTop (l : List (Upd α)) (s : St α) : Prop :=
  JC A B l s ∧ (∀ c p, parent c = some p → p ∈ nodes l → c ∈ nodes l) ∧
  l.Pairwise (fun a b => parent a.node ≠ some b.node)

/-- children first. -/
def KBot (l : List (Upd α)) (s : St α) : Prop :=
  JC A B l s ∧ (∀ c p, parent c = some p → c ∈ nodes l → p ∈ nodes l) ∧
  l.Pairwise (fun a b => parent b.node ≠ some a.node)

theorem KTop_valid (hAA : Valid parent le A) (hBB : Valid parent le B)
    (hAB : ∀ c p, parent c = some p → le (A c) (B p)) (l : List (Upd α)) (s : St α)
    (h : KTop parent A B l s) : Valid parent le s.files := by
  obtain ⟨⟨_, _, _, hf⟩, hcl, _⟩ := h
  intro c p hcp
  rw [hf c, hf p]
  by_cases hc : c ∈ nodes l <;> by_cases hp : p ∈ nodes l <;> simp only [hc, hp, if_true, if_false]
  · exact hAA c p hcp
  · exact hAB c p hcp
  · exact absurd (hcl c p hcp hp) hc
  · exact hBB c p hcp

theorem KBot_valid (hAA : Valid parent le A) (hBB : Valid parent le B)
    (hBA : ∀ c p, parent c = some p → le (B c) (A p)) (l : List (Upd α)) (s : St α)
    (h : KBot parent A B l s) : Valid parent le s.files := by
  obtain ⟨⟨_, _, _, hf⟩, hcl, _⟩ := h
  intro c p hcp
  rw [hf c, hf p]
  by_cases hc : c ∈ nodes l <;> by_cases hp : p ∈ nodes l <;> simp only [hc, hp, if_true, if_false]
  · exact hAA c p hcp
  · exact absurd (hcl c p hcp hc) hp
  · exact hBA c p hcp
  · exact hBB c p hcp

theorem mem_nodes' {l : List (Upd α)} {n : Nat} (h : n ∈ nodes l) : ∃ u ∈ l, u.node = n := by
  simpa [nodes] using h

theorem KTop_step {D : Dom α} (hD : DomEq D) (exp : Bool) (u : Upd α) (l : List (Upd α)) (s : St α)
    (h : KTop parent A B (u :: l) s) :
    KTop parent A B l (stepCached D exp s u).1 ∧
    (((stepCached D exp s u).2 = [] ∧ (stepCached D exp s u).1.files = s.files) ∨
     (∃ w, (stepCached D exp s u).2 = [w] ∧ (stepCached D exp s u).1.files = setAt s.files w.1 w.2)) := by
  obtain ⟨hj, hcl, hpw⟩ := h
  obtain ⟨g1, g2⟩ := JC_step hD exp A B u l s hj
  rw [List.pairwise_cons] at hpw
  refine ⟨⟨g1, ?_, hpw.2⟩, g2⟩
  intro c p hcp hp
  have := hcl c p hcp (by simp [hp])
  simp only [nodes_cons, List.mem_cons] at this
  rcases this with hcu | hc
  · obtain ⟨b, hb, hbn⟩ := mem_nodes' hp
    exact absurd (by rw [← hcu, hbn]; exact hcp) (hpw.1 b hb)
  · exact hc

theorem KBot_step {D : Dom α} (hD : DomEq D) (exp : Bool) (u : Upd α) (l : List (Upd α)) (s : St α)
    (h : KBot parent A B (u :: l) s) :
    KBot parent A B l (stepCached D exp s u).1 ∧
    (((stepCached D exp s u).2 = [] ∧ (stepCached D exp s u).1.files = s.files) ∨
     (∃ w, (stepCached D exp s u).2 = [w] ∧ (stepCached D exp s u).1.files = setAt s.files w.1 w.2)) := by
  obtain ⟨hj, hcl, hpw⟩ := h
  obtain ⟨g1, g2⟩ := JC_step hD exp A B u l s hj
  rw [List.pairwise_cons] at hpw
  refine ⟨⟨g1, ?_, hpw.2⟩, g2⟩
  intro c p hcp hc
  have := hcl c p hcp (by simp [hc])
  simp only [nodes_cons, List.mem_cons] at this
  rcases this with hpu | hp
  · obtain ⟨b, hb, hbn⟩ := mem_nodes' hc
    exact absurd (by rw [← hpu, hbn]; exact hcp) (hpw.1 b hb)
  · exact hp

end Ordered

end KoordVerif.C12
