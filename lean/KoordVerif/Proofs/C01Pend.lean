import KoordVerif.Proofs.C01Delete
/-
C01: general bookkeeping form of the self-index-0 propagation: a pending pod-sum difference (a, b) at `n`
becomes (a − d, b − dnp); no clamp fires as long as the self figures of `n` stay non-negative.
This covers both orders used by the handlers (cache first / propagation first).
-/
namespace KoordVerif.C01

private theorem ite_swap' (n m : Nat) (x : Int) : (if n = m then x else 0) = (if m = n then x else 0) := by
  by_cases hmn : m = n
  · subst hmn; simp
  · have : ¬ n = m := fun e => hmn e.symm
    simp [hmn, this]

theorem propReq_pend {s : State} {pth : List Nat} {n : Nat} {d dnp a b : Int}
    (hc : Chain s pth) (hnd : pth.Nodup) (hh : pth.head? = some n)
    (ht : TreeOK (tree s)) (hpar : ParamsOK s) (hpend : ReqPend s n a b)
    (hself : ∀ q, get? s n = some q → 0 ≤ q.selfRequest + d ∧ 0 ≤ q.selfNpRequest + dnp) :
    propReq s pth true d dnp = propReqW id s pth true d dnp ∧
    ReqPend (propReq s pth true d dnp) n (a - d) (b - dnp) ∧
    (∀ u a b, UsedPend s u a b → UsedPend (propReq s pth true d dnp) u a b) ∧
    tree (propReq s pth true d dnp) = tree s ∧ ParamsOK (propReq s pth true d dnp) := by
  have hfr := propReq_frame pth s true d dnp hc hnd
  have htree : tree (propReqW id s pth true d dnp) = tree s :=
    propReqW_map _ (fun q q' h => by simp [h.name, h.parent]) id pth s true d dnp
  have hpar' : ParamsOK (propReqW id s pth true d dnp) :=
    paramsOK_of_map (propReqW_map _ (fun q q' h => by simp [h.max, h.pods]) id pth s true d dnp) hpar
  -- facts about every group of the result
  have hall : ∀ m q', get? (propReqW id s pth true d dnp) m = some q' → ∃ q, get? s m = some q ∧ SameButReq q q' ∧
      q'.selfRequest = q.selfRequest + (if m = n then d else 0) ∧
      q'.selfNpRequest = q.selfNpRequest + (if m = n then dnp else 0) ∧
      dCR (propReqW id s pth true d dnp) m q' = 0 ∧ dNpReq (propReqW id s pth true d dnp) m q' = 0 ∧
      (m ≠ rootName → q'.request = lendRule q' q'.childRequest) := by
    intro m q' hq'
    cases hq : get? s m with
    | none => rw [(hfr m).1 hq] at hq'; cases hq'
    | some q =>
      obtain ⟨q'', h1, h2, h3, h4, h5, h6, h7, _⟩ := (hfr m).2 q hq
      rw [h1] at hq'; cases hq'
      obtain ⟨_, _, c, e, f⟩ := hpend m q hq
      simp [hh] at h3 h4 h5 h6
      rw [ite_swap'] at h3 h4
      exact ⟨q, rfl, h2, h3, h4, by omega, by omega, fun hr => h7 hr (Or.inr (f hr))⟩
  have hnn := reqNonneg_of_eqs (htree ▸ ht) (fun q hq => (hpar' q hq).1) (fun m q' hq' => by
    obtain ⟨q, hq, h2, h3, h4, h5, h6, h7⟩ := hall m q' hq'
    obtain ⟨a1, b1, _⟩ := hpend m q hq
    have hpods := (hpar q (get?_mem hq)).2
    have p1 := podSum_nonneg (fun _ => true) q.pods hpods
    have p2 := podSum_nonneg (fun p => p.np) q.pods hpods
    refine ⟨?_, ?_, h5, h6, h7⟩
    · by_cases hm : m = n
      · subst hm; simp at h3; have := (hself q hq).1; omega
      · simp [hm] at h3 a1; omega
    · by_cases hm : m = n
      · subst hm; simp at h4; have := (hself q hq).2; omega
      · simp [hm] at h4 b1; omega)
  have heq : propReq s pth true d dnp = propReqW id s pth true d dnp :=
    propReq_noclamp pth s true d dnp hnd (fun m _ q' hq' =>
      ⟨(hnn m q' hq').cr, (hnn m q' hq').npRequest, (hnn m q' hq').selfRequest, (hnn m q' hq').selfNpRequest⟩)
  rw [heq]
  refine ⟨rfl, ?_, ?_, htree, hpar'⟩
  · intro m q' hq'
    obtain ⟨q, hq, h2, h3, h4, h5, h6, h7⟩ := hall m q' hq'
    obtain ⟨a1, b1, _⟩ := hpend m q hq
    refine ⟨?_, ?_, h5, h6, h7⟩
    · rw [h2.pods, ← a1, h3]; by_cases hm : m = n <;> simp [hm] <;> omega
    · rw [h2.pods, ← b1, h4]; by_cases hm : m = n <;> simp [hm] <;> omega
  · intro u a0 b0 hu m q' hq'
    obtain ⟨q, hq, h2, _⟩ := hall m q' hq'
    obtain ⟨a1, b1, c, e⟩ := hu m q hq
    have k1 := sumKids_eq_of_map (·.used) m s _ (propReqW_map (fun q => (q.parent, q.used))
      (fun q q' h => by simp [h.parent, h.used]) id pth s true d dnp)
    have k2 := sumKids_eq_of_map (·.npUsed) m s _ (propReqW_map (fun q => (q.parent, q.npUsed))
      (fun q q' h => by simp [h.parent, h.npUsed]) id pth s true d dnp)
    refine ⟨by rw [h2.selfUsed, h2.pods]; exact a1, by rw [h2.selfNpUsed, h2.pods]; exact b1, ?_, ?_⟩
    · simp only [dUsed, k1, h2.used, h2.selfUsed] at c ⊢; exact c
    · simp only [dNpUsed, k2, h2.npUsed, h2.selfNpUsed] at e ⊢; exact e

theorem propUsed_pend {s : State} {pth : List Nat} {n : Nat} {d dnp a b : Int}
    (hc : Chain s pth) (hnd : pth.Nodup) (hh : pth.head? = some n)
    (ht : TreeOK (tree s)) (hpar : ParamsOK s) (hpend : UsedPend s n a b)
    (hself : ∀ q, get? s n = some q → 0 ≤ q.selfUsed + d ∧ 0 ≤ q.selfNpUsed + dnp) :
    propUsed s pth true d dnp = propUsedW id s pth true d dnp ∧
    UsedPend (propUsed s pth true d dnp) n (a - d) (b - dnp) ∧
    (∀ u a b, ReqPend s u a b → ReqPend (propUsed s pth true d dnp) u a b) ∧
    tree (propUsed s pth true d dnp) = tree s ∧ ParamsOK (propUsed s pth true d dnp) := by
  have hfr := propUsed_frame pth s true d dnp hc hnd
  have htree : tree (propUsedW id s pth true d dnp) = tree s :=
    propUsedW_map _ (fun q q' h => by simp [h.name, h.parent]) id pth s true d dnp
  have hpar' : ParamsOK (propUsedW id s pth true d dnp) :=
    paramsOK_of_map (propUsedW_map _ (fun q q' h => by simp [h.max, h.pods]) id pth s true d dnp) hpar
  have hall : ∀ m q', get? (propUsedW id s pth true d dnp) m = some q' → ∃ q, get? s m = some q ∧ SameButUsed q q' ∧
      q'.selfUsed = q.selfUsed + (if m = n then d else 0) ∧
      q'.selfNpUsed = q.selfNpUsed + (if m = n then dnp else 0) ∧
      dUsed (propUsedW id s pth true d dnp) m q' = 0 ∧ dNpUsed (propUsedW id s pth true d dnp) m q' = 0 := by
    intro m q' hq'
    cases hq : get? s m with
    | none => rw [(hfr m).1 hq] at hq'; cases hq'
    | some q =>
      obtain ⟨q'', h1, h2, h3, h4, h5, h6⟩ := (hfr m).2 q hq
      rw [h1] at hq'; cases hq'
      obtain ⟨_, _, c, e⟩ := hpend m q hq
      simp [hh] at h3 h4 h5 h6
      rw [ite_swap'] at h3 h4
      exact ⟨q, rfl, h2, h3, h4, by omega, by omega⟩
  have hnn := usedNonneg_of_eqs (htree ▸ ht) (fun m q' hq' => by
    obtain ⟨q, hq, h2, h3, h4, h5, h6⟩ := hall m q' hq'
    obtain ⟨a1, b1, _⟩ := hpend m q hq
    have hpods := (hpar q (get?_mem hq)).2
    have p1 := podSum_nonneg (fun p => p.assigned) q.pods hpods
    have p2 := podSum_nonneg (fun p => p.assigned && p.np) q.pods hpods
    refine ⟨?_, ?_, h5, h6⟩
    · by_cases hm : m = n
      · subst hm; simp at h3; have := (hself q hq).1; omega
      · simp [hm] at h3 a1; omega
    · by_cases hm : m = n
      · subst hm; simp at h4; have := (hself q hq).2; omega
      · simp [hm] at h4 b1; omega)
  have heq : propUsed s pth true d dnp = propUsedW id s pth true d dnp :=
    propUsed_noclamp pth s true d dnp hnd (fun m _ q' hq' =>
      ⟨(hnn m q' hq').used, (hnn m q' hq').npUsed, (hnn m q' hq').selfUsed, (hnn m q' hq').selfNpUsed⟩)
  rw [heq]
  refine ⟨rfl, ?_, ?_, htree, hpar'⟩
  · intro m q' hq'
    obtain ⟨q, hq, h2, h3, h4, h5, h6⟩ := hall m q' hq'
    obtain ⟨a1, b1, _⟩ := hpend m q hq
    refine ⟨?_, ?_, h5, h6⟩
    · rw [h2.pods, ← a1, h3]; by_cases hm : m = n <;> simp [hm] <;> omega
    · rw [h2.pods, ← b1, h4]; by_cases hm : m = n <;> simp [hm] <;> omega
  · intro u a0 b0 hu m q' hq'
    obtain ⟨q, hq, h2, _⟩ := hall m q' hq'
    obtain ⟨a1, b1, c, e, f⟩ := hu m q hq
    have k1 := sumKids_eq_of_map Quota.limited m s _ (propUsedW_map (fun q => (q.parent, q.limited))
      (fun q q' h => by simp [Quota.limited, h.parent, h.max, h.request]) id pth s true d dnp)
    have k2 := sumKids_eq_of_map (·.npRequest) m s _ (propUsedW_map (fun q => (q.parent, q.npRequest))
      (fun q q' h => by simp [h.parent, h.npRequest]) id pth s true d dnp)
    have hcr : crOf q' = crOf q := by simp [crOf, h2.name, h2.request, h2.childRequest]
    refine ⟨by rw [h2.selfRequest, h2.pods]; exact a1, by rw [h2.selfNpRequest, h2.pods]; exact b1, ?_, ?_, ?_⟩
    · simp only [dCR, k1, hcr, h2.selfRequest] at c ⊢; exact c
    · simp only [dNpReq, k2, h2.npRequest, h2.selfNpRequest] at e ⊢; exact e
    · intro hr; rw [h2.request, h2.childRequest, lendRule_congr h2.lend h2.min]; exact f hr

end KoordVerif.C01
