import KoordVerif.Proofs.C01Gen
/-
C01: general form of the used propagation, and what each propagation leaves untouched on the other side.
-/
namespace KoordVerif.C01

theorem propUsed_gen {s : State} {pth : List Nat} {n : Nat} {self : Bool} {d dnp : Int}
    {c e ku knu : Nat → Int}
    (hc : Chain s pth) (hnd : pth.Nodup) (hh : pth.head? = some n) (ht : TreeOK (tree s))
    (hg : UsedG s c e ku knu) (hnn : UNN s)
    (hself : ∀ q, get? s n = some q →
      0 ≤ q.selfUsed + (if self = true then d else 0) ∧ 0 ≤ q.selfNpUsed + (if self = true then dnp else 0))
    (hpathk : ∀ m ∈ pth, m ≠ n → ku m = 0 ∧ knu m = 0)
    (hhead : (ku n = (if self = true then 0 else d) ∧ knu n = (if self = true then 0 else dnp)) ∨
      (∀ q, get? s n = some q → 0 ≤ q.used + d ∧ 0 ≤ q.npUsed + dnp)) :
    propUsed s pth self d dnp = propUsedW id s pth self d dnp ∧
    UsedG (propUsed s pth self d dnp)
      (fun m => c m - (if m = n ∧ self = true then d else 0)) (fun m => e m - (if m = n ∧ self = true then dnp else 0))
      (fun m => ku m - (if m = n ∧ self = false then d else 0)) (fun m => knu m - (if m = n ∧ self = false then dnp else 0)) ∧
    UNN (propUsed s pth self d dnp) := by
  have hfr := propUsed_frame pth s self d dnp hc hnd
  have htree : tree (propUsedW id s pth self d dnp) = tree s :=
    propUsedW_map _ (fun q q' h => by simp [h.name, h.parent]) id pth s self d dnp
  have hsw : ∀ (x : Int) (m : Nat) (c : Prop) [Decidable c],
      (if some n = some m ∧ c then x else 0) = (if m = n ∧ c then x else 0) := by
    intro x m c _
    by_cases hmn : m = n
    · subst hmn; simp
    · have : ¬ n = m := fun e => hmn e.symm
      simp [hmn, this]
  have hall : ∀ m q', get? (propUsedW id s pth self d dnp) m = some q' → ∃ q, get? s m = some q ∧ SameButUsed q q' ∧
      q'.selfUsed = q.selfUsed + (if m = n ∧ self = true then d else 0) ∧
      q'.selfNpUsed = q.selfNpUsed + (if m = n ∧ self = true then dnp else 0) ∧
      dUsed (propUsedW id s pth self d dnp) m q' = dUsed s m q + (if m = n ∧ self = false then d else 0) ∧
      dNpUsed (propUsedW id s pth self d dnp) m q' = dNpUsed s m q + (if m = n ∧ self = false then dnp else 0) ∧
      (m ∉ pth → q' = q) := by
    intro m q' hq'
    cases hq : get? s m with
    | none => rw [(hfr m).1 hq] at hq'; cases hq'
    | some q =>
      obtain ⟨q'', h1, h2, h3, h4, h5, h6⟩ := (hfr m).2 q hq
      rw [h1] at hq'; cases hq'
      rw [hh, hsw] at h3 h4 h5 h6
      refine ⟨q, rfl, h2, h3, h4, h5, h6, fun hm => ?_⟩
      have := propUsedW_get_notin id pth s self d dnp m hm
      rw [h1, hq] at this; cases this; rfl
  have hheadv : ∀ q, get? s n = some q → ∀ q', get? (propUsedW id s pth self d dnp) n = some q' →
      q'.used = q.used + d ∧ q'.npUsed = q.npUsed + dnp := by
    intro q hq q' hq'
    cases pth with
    | nil => simp at hh
    | cons g rest =>
      simp at hh; subst hh
      have hgr : g ∉ rest := (List.nodup_cons.mp hnd).1
      rw [propUsedW_head id hq hgr] at hq'
      cases hq'
      constructor <;> cases self <;> simp [addUsed]
  have hnn' : UNN (propUsedW id s pth self d dnp) := by
    apply usedNonneg_gen (htree ▸ ht)
    intro m q' hq'
    obtain ⟨q, hq, h2, h3, h4, h5, h6, h8⟩ := hall m q' hq'
    obtain ⟨_, _, c1, c2⟩ := hg m q hq
    have hq_nn := hnn m q hq
    by_cases hmp : m ∈ pth
    · by_cases hmn : m = n
      · subst hmn
        obtain ⟨hs1, hs2⟩ := hself q hq
        refine ⟨by rw [h3]; simpa using hs1, by rw [h4]; simpa using hs2, ?_⟩
        rcases hhead with ⟨k1, k2⟩ | hdir
        · left
          refine ⟨?_, ?_⟩
          · rw [h5]; cases self <;> simp_all <;> omega
          · rw [h6]; cases self <;> simp_all <;> omega
        · right
          obtain ⟨v1, v2⟩ := hheadv q hq q' hq'
          obtain ⟨w1, w2⟩ := hdir q hq
          exact ⟨by omega, by omega⟩
      · obtain ⟨k1, k2⟩ := hpathk m hmp hmn
        simp only [hmn, false_and, if_false, Int.add_zero] at h3 h4 h5 h6
        exact ⟨by rw [h3]; exact hq_nn.selfUsed, by rw [h4]; exact hq_nn.selfNpUsed, Or.inl ⟨by omega, by omega⟩⟩
    · have := h8 hmp; subst this
      exact ⟨hq_nn.selfUsed, hq_nn.selfNpUsed, Or.inr ⟨hq_nn.used, hq_nn.npUsed⟩⟩
  have heq : propUsed s pth self d dnp = propUsedW id s pth self d dnp :=
    propUsed_noclamp pth s self d dnp hnd (fun m _ q' hq' =>
      ⟨(hnn' m q' hq').used, (hnn' m q' hq').npUsed, (hnn' m q' hq').selfUsed, (hnn' m q' hq').selfNpUsed⟩)
  rw [heq]
  refine ⟨rfl, ?_, hnn'⟩
  intro m q' hq'
  obtain ⟨q, hq, h2, h3, h4, h5, h6, h8⟩ := hall m q' hq'
  obtain ⟨a1, b1, c1, c2⟩ := hg m q hq
  dsimp only
  exact ⟨by rw [h2.pods, ← a1, h3]; omega, by rw [h2.pods, ← b1, h4]; omega, by rw [h5]; omega, by rw [h6]; omega⟩

/-- projection kept by a request propagation: everything the used side talks about -/
def sideU (q : Quota) : List Pod × Int × Int × Int × Int := (q.pods, q.selfUsed, q.selfNpUsed, q.used, q.npUsed)
/-- projection kept by a used propagation: everything the request side talks about -/
def sideR (q : Quota) : List Pod × Option Int × Int × Bool × Int × Int × Int × Int × Int :=
  (q.pods, q.max, q.min, q.lend, q.selfRequest, q.selfNpRequest, q.request, q.npRequest, q.childRequest)

/-- the used side does not see a request propagation -/
theorem usedG_of_propReq {s : State} (pth : List Nat) (self : Bool) (d dnp : Int) {c e ku knu : Nat → Int}
    (hg : UsedG s c e ku knu) (hnn : UNN s) :
    UsedG (propReq s pth self d dnp) c e ku knu ∧ UNN (propReq s pth self d dnp) := by
  have hmap := propReqW_map (fun x => (x.name, sideU x))
    (fun q q' h => by simp [sideU, h.name, h.pods, h.selfUsed, h.selfNpUsed, h.used, h.npUsed]) clamp0 pth s self d dnp
  have k1 : ∀ m, sumKids (·.used) m (propReq s pth self d dnp) = sumKids (·.used) m s := fun m =>
    sumKids_eq_of_map _ m s _ (propReqW_map (fun q => (q.parent, q.used))
      (fun q q' h => by simp [h.parent, h.used]) clamp0 pth s self d dnp)
  have k2 : ∀ m, sumKids (·.npUsed) m (propReq s pth self d dnp) = sumKids (·.npUsed) m s := fun m =>
    sumKids_eq_of_map _ m s _ (propReqW_map (fun q => (q.parent, q.npUsed))
      (fun q q' h => by simp [h.parent, h.npUsed]) clamp0 pth s self d dnp)
  have back : ∀ m q', get? (propReq s pth self d dnp) m = some q' → ∃ q, get? s m = some q ∧ sideU q = sideU q' := by
    intro m q' hq'
    exact get?_of_map sideU m s _ hmap.symm q' hq'
  constructor
  · intro m q' hq'
    obtain ⟨q, hq, hs⟩ := back m q' hq'
    simp only [sideU, Prod.mk.injEq] at hs
    obtain ⟨p1, p2, p3, p4, p5⟩ := hs
    obtain ⟨a1, b1, c1, c2⟩ := hg m q hq
    refine ⟨by rw [← p1, ← p2]; exact a1, by rw [← p1, ← p3]; exact b1, ?_, ?_⟩
    · simp only [dUsed, k1, ← p2, ← p4] at c1 ⊢; exact c1
    · simp only [dNpUsed, k2, ← p3, ← p5] at c2 ⊢; exact c2
  · intro m q' hq'
    obtain ⟨q, hq, hs⟩ := back m q' hq'
    simp only [sideU, Prod.mk.injEq] at hs
    obtain ⟨p1, p2, p3, p4, p5⟩ := hs
    have := hnn m q hq
    exact ⟨by rw [← p4]; exact this.used, by rw [← p5]; exact this.npUsed, by rw [← p2]; exact this.selfUsed,
      by rw [← p3]; exact this.selfNpUsed⟩

/-- the request side does not see a used propagation -/
theorem reqG_of_propUsed {s : State} (pth : List Nat) (self : Bool) (d dnp : Int) {a b k kn : Nat → Int} {R : Nat → Prop}
    (hg : ReqG s a b k kn R) (hnn : RNN s) :
    ReqG (propUsed s pth self d dnp) a b k kn R ∧ RNN (propUsed s pth self d dnp) := by
  have hmap := propUsedW_map (fun x => (x.name, sideR x))
    (fun q q' h => by simp [sideR, h.name, h.pods, h.max, h.min, h.lend, h.selfRequest, h.selfNpRequest, h.request,
      h.npRequest, h.childRequest]) clamp0 pth s self d dnp
  have k1 : ∀ m, sumKids Quota.limited m (propUsed s pth self d dnp) = sumKids Quota.limited m s := fun m =>
    sumKids_eq_of_map _ m s _ (propUsedW_map (fun q => (q.parent, q.limited))
      (fun q q' h => by simp [Quota.limited, h.parent, h.max, h.request]) clamp0 pth s self d dnp)
  have k2 : ∀ m, sumKids (·.npRequest) m (propUsed s pth self d dnp) = sumKids (·.npRequest) m s := fun m =>
    sumKids_eq_of_map _ m s _ (propUsedW_map (fun q => (q.parent, q.npRequest))
      (fun q q' h => by simp [h.parent, h.npRequest]) clamp0 pth s self d dnp)
  have back : ∀ m q', get? (propUsed s pth self d dnp) m = some q' → ∃ q, get? s m = some q ∧ sideR q = sideR q' ∧ q.name = q'.name := by
    intro m q' hq'
    obtain ⟨q, hq, hs⟩ := get?_of_map sideR m s _ hmap.symm q' hq'
    exact ⟨q, hq, hs, by rw [get?_name hq, get?_name hq']⟩
  constructor
  · intro m q' hq'
    obtain ⟨q, hq, hs, hname⟩ := back m q' hq'
    simp only [sideR, Prod.mk.injEq] at hs
    obtain ⟨p1, p2, p3, p4, p5, p6, p7, p8, p9⟩ := hs
    obtain ⟨a1, b1, c1, c2, f⟩ := hg m q hq
    have hcr : crOf q' = crOf q := by simp [crOf, hname, p7, p9]
    refine ⟨by rw [← p1, ← p5]; exact a1, by rw [← p1, ← p6]; exact b1, ?_, ?_, ?_⟩
    · simp only [dCR, k1, hcr, ← p5] at c1 ⊢; exact c1
    · simp only [dNpReq, k2, ← p6, ← p8] at c2 ⊢; exact c2
    · intro hr hR
      have := f hr hR
      rw [← p7, ← p9, lendRule_congr p4.symm p3.symm]; exact this
  · intro m q' hq'
    obtain ⟨q, hq, hs, hname⟩ := back m q' hq'
    simp only [sideR, Prod.mk.injEq] at hs
    obtain ⟨p1, p2, p3, p4, p5, p6, p7, p8, p9⟩ := hs
    have hcr : crOf q' = crOf q := by simp [crOf, hname, p7, p9]
    have := hnn m q hq
    exact ⟨by rw [hcr]; exact this.cr, by rw [← p7]; exact this.request, by rw [← p8]; exact this.npRequest,
      by rw [← p5]; exact this.selfRequest, by rw [← p6]; exact this.selfNpRequest⟩

end KoordVerif.C01
