import KoordVerif.Model.C11Containers
namespace KoordVerif.C11

theorem clamp0_nonneg (v : Int) : 0 ≤ clamp0 v := by unfold clamp0; split <;> omega

theorem foldl_add_shift (f : Ctr → Int) (cs : List Ctr) (a : Int) :
    cs.foldl (fun acc c => acc + f c) a = a + cs.foldl (fun acc c => acc + f c) 0 := by
  induction cs generalizing a with
  | nil => simp
  | cons c cs ih => simp only [List.foldl_cons]; rw [ih (a + f c), ih (0 + f c)]; omega

theorem foldl_add_nonneg (f : Ctr → Int) (hf : ∀ c, 0 ≤ f c) (cs : List Ctr) :
    0 ≤ cs.foldl (fun acc c => acc + f c) 0 := by
  induction cs with
  | nil => simp
  | cons c cs ih => simp only [List.foldl_cons]; rw [foldl_add_shift]; have := hf c; omega

/-- contribution of one container to the pod's extended request. -/
def ctrShare (get : Ctr → Int) (c : Ctr) : Int := if c.kind = 0 ∨ c.kind = 2 then clamp0 (get c) else 0

theorem ctrSum_nil (get : Ctr → Int) : ctrSum get [] = 0 := by simp [ctrSum]

theorem ctrSum_cons (get : Ctr → Int) (c : Ctr) (cs : List Ctr) :
    ctrSum get (c :: cs) = ctrShare get c + ctrSum get cs := by
  unfold ctrSum ctrShare
  by_cases h0 : c.kind = 0
  · have h2 : ¬ c.kind = 2 := by omega
    simp only [List.filter_cons, h0, decide_true, if_true, List.foldl_cons, true_or]
    rw [foldl_add_shift (fun c => clamp0 (get c)) _ (0 + clamp0 (get c))]
    simp only [show decide ((0:Nat) = 2) = false from rfl, Bool.false_eq_true, if_false]
    omega
  · by_cases h2 : c.kind = 2
    · simp only [List.filter_cons, h2, decide_true, if_true, List.foldl_cons, or_true]
      rw [foldl_add_shift (fun c => clamp0 (get c)) _ (0 + clamp0 (get c))]
      simp only [show decide ((2:Nat) = 0) = false from rfl, Bool.false_eq_true, if_false]
      omega
    · simp only [List.filter_cons, h0, h2, decide_false, or_self, if_false, Bool.false_eq_true]
      omega

end KoordVerif.C11
