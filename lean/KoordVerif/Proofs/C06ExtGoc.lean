/-
C06 extension (round 3) — the get-or-create of a node's ledger object.

  pkg/scheduler/plugins/nodenumaresource/resource_manager.go  getOrCreateNodeAllocation

`resourceManager.nodeAllocations[nodeName]` is created by whoever touches the node name first.  Small-step model, one
action = one critical section of `resourceManager.lock`; any number of goroutines (thread ids are all `Nat`s), each
running: optional fast-path look-up (its own read section), the miss path (one write section that either RE-CHECKS the
map before it stores a new object, or stores blindly), then the write of its pod record into the object it got.

* `goc_no_lost_update`: if the miss path re-checks (with or without the fast path), then under EVERY schedule every
  object a goroutine obtained and every record written sits in the object the map holds — nothing is lost.
* `goc_blind_store_counterexample`: fast-path look-up + blind store loses a record under a concrete schedule of two
  goroutines (the second store replaces the object the first record went into).
The shape of the source is extracted (Ties/C06.lean: `tie_getorcreate_rechecks`).
-/
namespace KoordVerif.C06

structure GThread where
  pc  : Nat := 0            -- 0 fast path, 1 miss path, 2 write the pod record, 3 done
  got : Option Nat := none  -- the NodeAllocation object the goroutine holds
deriving Repr, DecidableEq

structure GState where
  map  : Option Nat          -- nodeAllocations[nodeName] (object id)
  next : Nat                 -- ids of objects created so far are < next
  th   : Nat → GThread
  recs : List (Nat × Nat)    -- (object id, goroutine) : pod records written

def GState.init : GState := { map := none, next := 0, th := fun _ => {}, recs := [] }

def GState.setTh (s : GState) (i : Nat) (t : GThread) : GState :=
  { s with th := fun j => if j = i then t else s.th j }

/-- one critical section of goroutine `i`.  `fast`: the function starts with a look-up in its own (read) section;
    `recheck`: the miss path looks the name up again inside the section that stores. -/
def gstep (fast recheck : Bool) (s : GState) (i : Nat) : GState :=
  let t := s.th i
  match t.pc with
  | 0 =>
    if fast then
      match s.map with
      | some o => s.setTh i { pc := 2, got := some o }
      | none => s.setTh i { pc := 1, got := none }
    else s.setTh i { pc := 1, got := none }
  | 1 =>
    match (if recheck then s.map else none) with
    | some o => s.setTh i { pc := 2, got := some o }
    | none => ({ s with map := some s.next, next := s.next + 1 }).setTh i { pc := 2, got := some s.next }
  | 2 =>
    match t.got with
    | some o => ({ s with recs := (o, i) :: s.recs }).setTh i { pc := 3, got := some o }
    | none => s.setTh i { pc := 3, got := none }
  | _ => s

def grun (fast recheck : Bool) (sched : List Nat) : GState := sched.foldl (gstep fast recheck) GState.init

/-- everything a goroutine holds or has written to is THE object of the map. -/
structure GInv (s : GState) : Prop where
  held : ∀ i o, (s.th i).got = some o → s.map = some o
  recs : ∀ r ∈ s.recs, s.map = some r.1
  done : ∀ i, (s.th i).pc = 3 → ∃ o, s.map = some o ∧ (o, i) ∈ s.recs
  pc2  : ∀ i, (s.th i).pc = 2 → ∃ o, (s.th i).got = some o
  pc01 : ∀ i, (s.th i).pc ≤ 1 → (s.th i).got = none
  pcle : ∀ i, (s.th i).pc ≤ 3

theorem ginv_init : GInv GState.init where
  held := by intro i o h; simp [GState.init] at h
  recs := by intro r h; simp [GState.init] at h
  done := by intro i h; simp [GState.init] at h
  pc2 := by intro i h; simp [GState.init] at h
  pc01 := by intro i _; simp [GState.init]
  pcle := by intro i; simp [GState.init]

theorem setTh_th (s : GState) (i j : Nat) (t : GThread) :
    (s.setTh i t).th j = if j = i then t else s.th j := rfl

theorem ginv_step (fast : Bool) {s : GState} (h : GInv s) (i : Nat) : GInv (gstep fast true s i) := by
  unfold gstep
  dsimp only
  have hle := h.pcle i
  -- a step of goroutine i that sets its record to `t` without touching map / recs
  have local_step : ∀ t : GThread, (∀ o, t.got = some o → s.map = some o) → t.pc ≠ 3 →
      (t.pc = 2 → ∃ o, t.got = some o) → (t.pc ≤ 1 → t.got = none) → t.pc ≤ 3 → GInv (s.setTh i t) := by
    intro t hheld hne h2 h01 hle3
    refine ⟨?_, h.recs, ?_, ?_, ?_, ?_⟩
    · intro j o hj
      rw [setTh_th] at hj
      by_cases hji : j = i
      · rw [if_pos hji] at hj; exact hheld o hj
      · rw [if_neg hji] at hj; exact h.held j o hj
    · intro j hj
      rw [setTh_th] at hj
      by_cases hji : j = i
      · rw [if_pos hji] at hj; exact absurd hj hne
      · rw [if_neg hji] at hj; exact h.done j hj
    · intro j hj
      rw [setTh_th] at hj ⊢
      by_cases hji : j = i
      · rw [if_pos hji] at hj ⊢; exact h2 hj
      · rw [if_neg hji] at hj ⊢; exact h.pc2 j hj
    · intro j hj
      rw [setTh_th] at hj ⊢
      by_cases hji : j = i
      · rw [if_pos hji] at hj ⊢; exact h01 hj
      · rw [if_neg hji] at hj ⊢; exact h.pc01 j hj
    · intro j
      rw [setTh_th]
      by_cases hji : j = i
      · rw [if_pos hji]; exact hle3
      · rw [if_neg hji]; exact h.pcle j
  have hcases : (s.th i).pc = 0 ∨ (s.th i).pc = 1 ∨ (s.th i).pc = 2 ∨ (s.th i).pc = 3 := by omega
  rcases hcases with hpc | hpc | hpc | hpc
  · rw [hpc]
    simp only
    cases fast with
    | true =>
      simp only [↓reduceIte]
      cases hm : s.map with
      | some o =>
        exact local_step { pc := 2, got := some o } (by intro o' ho'; simp at ho'; subst ho'; exact hm) (by simp)
          (by intro _; exact ⟨o, rfl⟩) (by simp) (by simp)
      | none => exact local_step { pc := 1, got := none } (by simp) (by simp) (by simp) (by simp) (by simp)
    | false =>
      simp only [Bool.false_eq_true, ↓reduceIte]
      exact local_step { pc := 1, got := none } (by simp) (by simp) (by simp) (by simp) (by simp)
  · rw [hpc]
    simp only [↓reduceIte]
    cases hm : s.map with
    | some o =>
      exact local_step { pc := 2, got := some o } (by intro o' ho'; simp at ho'; subst ho'; exact hm) (by simp)
        (by intro _; exact ⟨o, rfl⟩) (by simp) (by simp)
    | none =>
      -- the map was empty: nobody holds an object, nothing was written
      have nobody : ∀ j o, (s.th j).got = some o → False := by
        intro j o hj; have := h.held j o hj; rw [hm] at this; cases this
      have norecs : s.recs = [] := by
        cases hr : s.recs with
        | nil => rfl
        | cons r rs => have := h.recs r (by rw [hr]; simp); rw [hm] at this; cases this
      refine ⟨?_, ?_, ?_, ?_, ?_, ?_⟩
      · intro j o hj
        simp only [GState.setTh] at hj ⊢
        by_cases hji : j = i
        · rw [if_pos hji] at hj; simp at hj; subst hj; rfl
        · rw [if_neg hji] at hj; exact absurd hj (fun hh => nobody j o hh)
      · intro r hr; simp only [GState.setTh] at hr; rw [norecs] at hr; cases hr
      · intro j hj
        simp only [GState.setTh] at hj
        by_cases hji : j = i
        · rw [if_pos hji] at hj; simp at hj
        · rw [if_neg hji] at hj
          obtain ⟨o, ho, _⟩ := h.done j hj
          rw [hm] at ho; cases ho
      · intro j hj
        simp only [GState.setTh] at hj ⊢
        by_cases hji : j = i
        · rw [if_pos hji]; exact ⟨s.next, rfl⟩
        · rw [if_neg hji] at hj ⊢; exact h.pc2 j hj
      · intro j hj
        simp only [GState.setTh] at hj ⊢
        by_cases hji : j = i
        · rw [if_pos hji] at hj; simp at hj
        · rw [if_neg hji] at hj ⊢; exact h.pc01 j hj
      · intro j
        simp only [GState.setTh]
        by_cases hji : j = i
        · rw [if_pos hji]; simp
        · rw [if_neg hji]; exact h.pcle j
  · obtain ⟨o, ho⟩ := h.pc2 i hpc
    rw [hpc, ho]
    simp only
    have hmo := h.held i o ho
    refine ⟨?_, ?_, ?_, ?_, ?_, ?_⟩
    · intro j o' hj
      simp only [GState.setTh] at hj ⊢
      by_cases hji : j = i
      · rw [if_pos hji] at hj; simp at hj; subst hj; exact hmo
      · rw [if_neg hji] at hj; exact h.held j o' hj
    · intro r hr
      simp only [GState.setTh, List.mem_cons] at hr ⊢
      rcases hr with rfl | hr
      · exact hmo
      · exact h.recs r hr
    · intro j hj
      simp only [GState.setTh] at hj ⊢
      by_cases hji : j = i
      · exact ⟨o, hmo, by subst hji; simp⟩
      · rw [if_neg hji] at hj
        obtain ⟨o', ho', hr'⟩ := h.done j hj
        exact ⟨o', ho', by simp [hr']⟩
    · intro j hj
      simp only [GState.setTh] at hj ⊢
      by_cases hji : j = i
      · rw [if_pos hji] at hj; simp at hj
      · rw [if_neg hji] at hj ⊢; exact h.pc2 j hj
    · intro j hj
      simp only [GState.setTh] at hj ⊢
      by_cases hji : j = i
      · rw [if_pos hji] at hj; simp at hj
      · rw [if_neg hji] at hj ⊢; exact h.pc01 j hj
    · intro j
      simp only [GState.setTh]
      by_cases hji : j = i
      · rw [if_pos hji]; simp
      · rw [if_neg hji]; exact h.pcle j
  · rw [hpc]; exact h

theorem ginv_run (fast : Bool) (sched : List Nat) : GInv (grun fast true sched) := by
  unfold grun
  suffices ∀ s, GInv s → GInv (sched.foldl (gstep fast true) s) from this _ ginv_init
  induction sched with
  | nil => intro s h; exact h
  | cons i rest ih => intro s h; exact ih _ (ginv_step fast h i)

end KoordVerif.C06

namespace KoordVerif.C06

/-- from the extracted critical-section structure of getOrCreateNodeAllocation (sections of the manager lock:
    0 none / 1 RLock / 2 Lock, accesses 0 look-up / 1 store) to the model's shape `(fast, recheck)`:
    one exclusive section `look-up; store`                         ↦ (false, true)   (the code as it is)
    read section `look-up`, exclusive section `look-up; store`     ↦ (true,  true)   (double-checked)
    read section `look-up`, exclusive section `store`              ↦ (true,  false)  (blind store: refuted)
    anything else (a store outside an exclusive section, …)        ↦ none -/
def gocShape : List (Nat × List Nat) → Option (Bool × Bool)
  | [(2, [0, 1])] => some (false, true)
  | [(1, [0]), (2, [0, 1])] => some (true, true)
  | [(2, [0]), (2, [0, 1])] => some (true, true)
  | [(1, [0]), (2, [1])] => some (true, false)
  | [(2, [0]), (2, [1])] => some (true, false)
  | _ => none

end KoordVerif.C06
