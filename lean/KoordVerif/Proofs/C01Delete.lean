import KoordVerif.Proofs.C01Top
/-
C01: DeleteQuota of a childless group keeps the local equations — because deleteQuotaNoLock hands back the
max-LIMITED request (the defect repaired by 3651408 subtracted the raw request).
-/
namespace KoordVerif.C01

def parT (t : List (Nat × Nat)) (m : Nat) : Option Nat :=
  match t with
  | [] => none
  | e :: r => if e.1 = m then some e.2 else parT r m

theorem par_eq_parT (s : State) (m : Nat) : par s m = parT (tree s) m := by
  induction s with
  | nil => rfl
  | cons x t ih =>
    simp only [par, get?, tree, List.map_cons, parT] at ih ⊢
    split
    · simp
    · exact ih

theorem par_of_tree {s s' : State} (h : tree s' = tree s) (m : Nat) : par s' m = par s m := by
  rw [par_eq_parT, par_eq_parT, h]

theorem pathOf_congr {s s' : State} (h : ∀ m, par s' m = par s m) : ∀ fuel n, pathOf s' fuel n = pathOf s fuel n
  | 0, _ => rfl
  | fuel + 1, n => by
    have hn := h n
    simp only [par] at hn
    simp only [pathOf]
    cases h1 : get? s n with
    | none =>
      cases h2 : get? s' n with
      | none => rfl
      | some q' => simp [h1, h2] at hn
    | some q =>
      cases h2 : get? s' n with
      | none => simp [h1, h2] at hn
      | some q' =>
        simp [h1, h2] at hn
        simp only [hn, pathOf_congr h fuel]

theorem path_congr {s s' : State} (h : tree s' = tree s) (n : Nat) : path s' n = path s n := by
  have hl : s'.length = s.length := by
    have := congrArg List.length h
    simpa [tree] using this
  simp only [path, hl]
  exact pathOf_congr (par_of_tree h) _ n

theorem get?_erase_ne (s : State) {n m : Nat} (h : m ≠ n) : get? (erase s n) m = get? s m := by
  induction s with
  | nil => rfl
  | cons x t ih =>
    simp only [erase]
    by_cases hx : x.name = n
    · have : ¬ x.name = m := fun e => h (e.symm.trans hx)
      rw [if_pos hx]; simp only [get?, if_neg this]
    · simp only [hx, if_false, get?, ih]

theorem mem_erase {s : State} {n : Nat} {x : Quota} (hx : x ∈ erase s n) : x ∈ s := by
  induction s with
  | nil => simp [erase] at hx
  | cons y t ih =>
    simp only [erase] at hx
    split at hx
    · exact List.mem_cons_of_mem _ hx
    · rcases List.mem_cons.mp hx with e | e
      · rw [e]; simp
      · exact List.mem_cons_of_mem _ (ih e)

theorem get?_erase_self {s : State} (hn : ((tree s).map (·.1)).Nodup) (n : Nat) : get? (erase s n) n = none := by
  induction s with
  | nil => rfl
  | cons x t ih =>
    simp only [tree, List.map_cons, List.nodup_cons] at hn
    simp only [erase]
    by_cases hx : x.name = n
    · simp only [hx, if_true]
      cases hg : get? t n with
      | none => rfl
      | some q =>
        exfalso; apply hn.1
        simp only [List.map_map, List.mem_map, Function.comp]
        exact ⟨q, get?_mem hg, by rw [get?_name hg, hx]⟩
    · simp only [hx, if_false, get?]
      exact ih (by simpa [tree] using hn.2)

theorem tree_erase_sublist (s : State) (n : Nat) : (tree (erase s n)).Sublist (tree s) := by
  induction s with
  | nil => simp [erase, tree]
  | cons x t ih =>
    simp only [erase]
    split
    · simp only [tree, List.map_cons]; exact List.sublist_cons_self _ _
    · simp only [tree, List.map_cons] at ih ⊢; exact List.Sublist.cons_cons _ ih

theorem treeOK_erase {s : State} (ht : TreeOK (tree s)) (n : Nat) : TreeOK (tree (erase s n)) := by
  have hsub := tree_erase_sublist s n
  refine ⟨(hsub.map _).nodup ht.nodup, ?_, ?_⟩
  · obtain ⟨h, hr⟩ := ht.ranked
    exact ⟨h, fun e he => hr e (hsub.subset he)⟩
  · exact fun e he h1 e' he' => ht.rootTop e (hsub.subset he) h1 e' (hsub.subset he')

theorem sumKids_erase (v : Quota → Int) (g : Nat) {s : State} {n : Nat} {q : Quota} (h : get? s n = some q) :
    sumKids v g (erase s n) = sumKids v g s - (if q.parent = g then v q else 0) := by
  induction s with
  | nil => simp [get?] at h
  | cons x t ih =>
    simp only [get?] at h
    by_cases hx : x.name = n
    · simp only [hx, if_true, Option.some.injEq] at h
      subst h
      simp only [erase, hx, if_true, sumKids]; omega
    · simp only [hx, if_false] at h
      simp only [erase, hx, if_false, sumKids, ih h]; omega

/-- DeleteQuota of a known group whose parent chain is proper (children, if any, become orphans and keep their own equations). -/
theorem deleteQuota_preserves {s : State} {n : Nat} {q : Quota} (hq : get? s n = some q)
    (ht : TreeOK (tree s)) (hpar : ParamsOK s) (hl : LocalInv s)
    (hc : Chain (erase s n) (path (erase s n) q.parent)) (hnd : (path (erase s n) q.parent).Nodup)
    (hh : (path (erase s n) q.parent).head? = some q.parent) :
    LocalInv (deleteQuota s n) ∧ TreeOK (tree (deleteQuota s n)) ∧ ParamsOK (deleteQuota s n) := by
  have ht1 := treeOK_erase ht n
  have hpar1 : ParamsOK (erase s n) := fun x hx => hpar x (mem_erase hx)
  have hget : ∀ m q0, get? (erase s n) m = some q0 → m ≠ n ∧ get? s m = some q0 := by
    intro m q0 h0
    by_cases hm : m = n
    · subst hm; rw [get?_erase_self ht.nodup] at h0; cases h0
    · exact ⟨hm, by rw [get?_erase_ne s hm] at h0; exact h0⟩
  have hroff : ReqOff (erase s n) q.parent (0 - q.limited) (0 - q.npRequest) := by
    intro m q0 h0
    obtain ⟨hm, h0'⟩ := hget m q0 h0
    have hi := hl.1 m q0 h0'
    have e1 := hi.cr; have e2 := hi.npReq
    simp only [dCR, dNpReq] at e1 e2 ⊢
    rw [sumKids_erase Quota.limited m hq, sumKids_erase (·.npRequest) m hq]
    refine ⟨hi.selfReq, hi.selfNpReq, ?_, ?_, hi.rule⟩
    · by_cases hp : q.parent = m
      · subst hp; simp; omega
      · have : ¬ m = q.parent := fun e => hp e.symm
        simp [hp, this]; omega
    · by_cases hp : q.parent = m
      · subst hp; simp; omega
      · have : ¬ m = q.parent := fun e => hp e.symm
        simp [hp, this]; omega
  have huoff : UsedOff (erase s n) q.parent (0 - q.used) (0 - q.npUsed) := by
    intro m q0 h0
    obtain ⟨hm, h0'⟩ := hget m q0 h0
    have hi := hl.2 m q0 h0'
    have e1 := hi.used; have e2 := hi.npUsed
    simp only [dUsed, dNpUsed] at e1 e2 ⊢
    rw [sumKids_erase (·.used) m hq, sumKids_erase (·.npUsed) m hq]
    refine ⟨hi.selfUsed, hi.selfNpUsed, ?_, ?_⟩
    · by_cases hp : q.parent = m
      · subst hp; simp; omega
      · have : ¬ m = q.parent := fun e => hp e.symm
        simp [hp, this]; omega
    · by_cases hp : q.parent = m
      · subst hp; simp; omega
      · have : ¬ m = q.parent := fun e => hp e.symm
        simp [hp, this]; omega
  -- request step
  have hstep1 : ∃ s2, s2 = (if (0 - q.limited) ≠ 0 ∨ (0 - q.npRequest) ≠ 0
        then deltaReq (erase s n) q.parent (0 - q.limited) (0 - q.npRequest) false else erase s n) ∧
      ReqInv s2 ∧ UsedOff s2 q.parent (0 - q.used) (0 - q.npUsed) ∧ tree s2 = tree (erase s n) ∧ ParamsOK s2 := by
    refine ⟨_, rfl, ?_⟩
    split
    · have h := propReq_top hc hnd hh ht1 hpar1 hroff
      exact ⟨h.2.1, h.2.2.1 _ _ _ huoff, h.2.2.2.1, h.2.2.2.2⟩
    · next hz =>
      have hz1 : (0 - q.limited) = 0 := by omega
      have hz2 : (0 - q.npRequest) = 0 := by omega
      rw [hz1, hz2] at hroff
      exact ⟨reqOff_zero.mp hroff, huoff, rfl, hpar1⟩
  obtain ⟨s2, hs2, hr2, hu2, ht2, hp2⟩ := hstep1
  have hpath2 : path s2 q.parent = path (erase s n) q.parent := path_congr ht2 _
  have hc2 : Chain s2 (path s2 q.parent) := by
    rw [hpath2]; exact Chain_congr (par_of_tree ht2) _ hc
  have hres : deleteQuota s n = (if (0 - q.used) ≠ 0 ∨ (0 - q.npUsed) ≠ 0
      then deltaUsed s2 q.parent (0 - q.used) (0 - q.npUsed) false else s2) := by
    simp only [deleteQuota, hq, hs2]
  rw [hres]
  split
  · have h := propUsed_top hc2 (hpath2 ▸ hnd) (hpath2 ▸ hh) (ht2 ▸ ht1) hp2 hu2
    refine ⟨⟨reqOff_zero.mp (h.2.2.1 q.parent 0 0 (reqOff_zero.mpr hr2)), h.2.1⟩, ?_, h.2.2.2.2⟩
    show TreeOK (tree (propUsed s2 (path s2 q.parent) false _ _))
    rw [h.2.2.2.1, ht2]; exact ht1
  · next hz =>
    have hz1 : (0 - q.used) = 0 := by omega
    have hz2 : (0 - q.npUsed) = 0 := by omega
    rw [hz1, hz2] at hu2
    exact ⟨⟨hr2, usedOff_zero.mp hu2⟩, ht2 ▸ ht1, hp2⟩

end KoordVerif.C01
