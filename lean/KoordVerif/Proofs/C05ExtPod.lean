import KoordVerif.Proofs.C05Ledger
import KoordVerif.Proofs.C05Index
/-
C05 extension: the informer pod-handler path (pod_eventhandler.go updatePod -> reservationCache.updatePod).
After the handler has processed an update of an assigned, live pod that names a cached reservation, that
reservation records the pod with its CURRENT requests — also when the pod stays in the same reservation
(in-place resize) and when an earlier add was dropped.
-/
namespace KoordVerif.C05

theorem find_map_same (infos : List RInfo) (r : RInfo) (h : ∃ x ∈ infos, x.uid = r.uid) :
    (infos.map (fun x => if x.uid == r.uid then r else x)).find? (fun x => x.uid == r.uid) = some r := by
  induction infos with
  | nil => obtain ⟨x, hx, _⟩ := h; cases hx
  | cons a t ih =>
    by_cases ha : a.uid = r.uid
    · have h1 : (a.uid == r.uid) = true := by simp [ha]
      have h2 : (r.uid == r.uid) = true := by simp
      simp only [List.map_cons, h1, if_true, List.find?_cons, h2]
    · have h1 : (a.uid == r.uid) = false := by simp [ha]
      have hex : ∃ x ∈ t, x.uid = r.uid := by
        obtain ⟨x, hx, hxu⟩ := h
        rcases List.mem_cons.mp hx with hx | hx
        · subst hx; exact absurd hxu ha
        · exact ⟨x, hx, hxu⟩
      simp only [List.map_cons, h1, Bool.false_eq_true, if_false, List.find?_cons]
      exact ih hex

theorem find_map_other (infos : List RInfo) (r : RInfo) (u : Nat) (hu : r.uid ≠ u) :
    (infos.map (fun x => if x.uid == r.uid then r else x)).find? (fun x => x.uid == u)
      = infos.find? (fun x => x.uid == u) := by
  induction infos with
  | nil => rfl
  | cons a t ih =>
    by_cases ha : a.uid = r.uid
    · have h1 : (a.uid == r.uid) = true := by simp [ha]
      have h2 : (r.uid == u) = false := by simp [hu]
      have h3 : (a.uid == u) = false := by simp; omega
      simp only [List.map_cons, h1, if_true, List.find?_cons, h2, h3]
      exact ih
    · have h1 : (a.uid == r.uid) = false := by simp [ha]
      simp only [List.map_cons, h1, Bool.false_eq_true, if_false, List.find?_cons]
      cases (a.uid == u) with
      | true => rfl
      | false => exact ih

theorem find_setInfo (infos : List RInfo) (r : RInfo) :
    (setInfo infos r).find? (fun x => x.uid == r.uid) = some r := by
  unfold setInfo
  split
  · rename_i h
    apply find_map_same
    simp only [List.any_eq_true] at h
    obtain ⟨x, hx, hxu⟩ := h
    exact ⟨x, hx, by simpa using hxu⟩
  · rename_i h
    have hn : infos.find? (fun x => x.uid == r.uid) = none := by
      simp only [List.find?_eq_none]
      intro x hx
      simp only [List.any_eq_true, not_exists, not_and] at h
      exact h x hx
    simp [List.find?_append, hn]

theorem find_setInfo_other (infos : List RInfo) (r : RInfo) (u : Nat) (hu : r.uid ≠ u) :
    (setInfo infos r).find? (fun x => x.uid == u) = infos.find? (fun x => x.uid == u) := by
  unfold setInfo
  split
  · exact find_map_other infos r u hu
  · simp only [List.find?_append]
    cases infos.find? (fun x => x.uid == u) with
    | some x => rfl
    | none => simp [hu]

theorem hasPod_removeAssigned (r : RInfo) (u : Nat) : hasPod (removeAssigned r u).assigned u = false := by
  unfold removeAssigned
  split
  · rename_i hf
    simp only [hasPod_false_iff]
    intro p hp
    have := List.find?_eq_none.mp hf p hp
    simpa using this
  · simp [hasPod, erasePod]

theorem findPod_addAssigned (r : RInfo) (p : Pod) (h : hasPod r.assigned p.uid = false) :
    findPod (addAssigned r p).assigned p.uid = some p := by
  have hn : r.assigned.find? (fun x => x.uid == p.uid) = none := by
    simp only [List.find?_eq_none]
    intro x hx
    have := (hasPod_false_iff _ _).mp h x hx
    simpa using this
  simp [addAssigned, h, findPod, List.find?_append, hn]

/-- after the first half of reservationCache.updatePod the entry of reservation `u` is the old one, or the
    old one with the old pod removed (when `u` is the old reservation) -/
theorem updatePodOld_find (c : Cache) (ou u : Nat) (po : Option Pod) (r0 : RInfo) (hr : findInfo c u = some r0) :
    ∃ r1, findInfo (updatePodOld c ou po) u = some r1 ∧
      (r1 = r0 ∨ (ou = u ∧ ∃ p, po = some p ∧ r1 = removeAssigned r0 p.uid)) := by
  unfold updatePodOld
  cases po with
  | none => exact ⟨r0, hr, Or.inl rfl⟩
  | some p =>
    cases hf : findInfo c ou with
    | none => exact ⟨r0, hr, Or.inl rfl⟩
    | some rr =>
      have hrr := (findInfo_mem c ou rr hf).2
      by_cases hou : ou = u
      · subst hou
        have : rr = r0 := by rw [hf] at hr; exact Option.some.inj hr
        subst this
        refine ⟨removeAssigned rr p.uid, ?_, Or.inr ⟨rfl, p, rfl, rfl⟩⟩
        simp only [findInfo, dropAllocIfEmpty_infos]
        have h1 : (removeAssigned rr p.uid).uid = ou := by rw [(removeAssigned_uid_node rr p.uid).1]; exact hrr
        have := find_setInfo c.infos (removeAssigned rr p.uid)
        rw [h1] at this
        exact this
      · refine ⟨r0, ?_, Or.inl rfl⟩
        simp only [findInfo, dropAllocIfEmpty_infos]
        have h1 : (removeAssigned rr p.uid).uid ≠ u := by rw [(removeAssigned_uid_node rr p.uid).1]; omega
        rw [find_setInfo_other _ _ _ h1]
        exact hr

theorem updatePodNew_find (c : Cache) (u : Nat) (p : Pod) (r1 : RInfo) (hr : findInfo c u = some r1) :
    findInfo (updatePodNew c u (some p)) u = some (addAssigned r1 p) := by
  have hu := (findInfo_mem c u r1 hr).2
  have h1 : (addAssigned r1 p).uid = u := by rw [(addAssigned_uid_node r1 p).1]; exact hu
  have := find_setInfo c.infos (addAssigned r1 p)
  rw [h1] at this
  simp only [updatePodNew, hr]
  split <;> simpa [findInfo] using this

/-- ROUTING: for a live, assigned pod every update that carries a reservation on either side reaches
    reservationCache.updatePod — in particular an update inside the SAME reservation -/
def oldUOf (old : Option HPod) : Nat := match old with | some o => o.rAlloc | none => 0

theorem podUpdate_routes (c : Cache) (old : Option HPod) (n : HPod) (hterm : n.term = false) (hnode : n.node ≠ 0)
    (hu : n.rAlloc ≠ 0) :
    podUpdate c old n = updatePod c (oldUOf old) n.rAlloc (old.map (·.pod)) (some n.pod) := by
  cases old <;> simp [podUpdate, oldUOf, hterm, hnode, hu]

/-- after the handler processed an add/update of a live, assigned pod that names the cached reservation `u`,
    `u` records the pod with its CURRENT requests — if the pod stays in the same reservation (resize, label or
    status change), or if it was not recorded there before (move, bind, an add that had been dropped) -/
theorem podUpdate_records_current (c : Cache) (old : Option HPod) (n : HPod) (r0 : RInfo)
    (hterm : n.term = false) (hnode : n.node ≠ 0) (hu : n.rAlloc ≠ 0) (hr : findInfo c n.rAlloc = some r0)
    (hold : ∀ o, old = some o → o.pod.uid = n.pod.uid)
    (hcase : (∃ o, old = some o ∧ o.rAlloc = n.rAlloc) ∨ hasPod r0.assigned n.pod.uid = false) :
    ∃ r, findInfo (podUpdate c old n) n.rAlloc = some r ∧ findPod r.assigned n.pod.uid = some n.pod := by
  rw [podUpdate_routes c old n hterm hnode hu]
  unfold updatePod
  obtain ⟨r1, h1, hshape⟩ := updatePodOld_find c (oldUOf old) n.rAlloc (old.map (·.pod)) r0 hr
  refine ⟨addAssigned r1 n.pod, updatePodNew_find _ _ _ _ h1, ?_⟩
  apply findPod_addAssigned
  rcases hshape with hs | ⟨_, p, hp, hs⟩
  · subst hs
    rcases hcase with ⟨o, ho, hoa⟩ | hc
    · -- same reservation but the removal did not happen: impossible, the first half found `u`
      subst ho
      -- the removal DID happen (ou = u): recompute
      simp only [Option.map_some, oldUOf] at h1
      rw [hoa] at h1
      unfold updatePodOld at h1
      simp only [hr] at h1
      have hu1 := (findInfo_mem c n.rAlloc r1 hr).2
      have h2 : (removeAssigned r1 o.pod.uid).uid = n.rAlloc := by rw [(removeAssigned_uid_node r1 o.pod.uid).1]; exact hu1
      have h3 := find_setInfo c.infos (removeAssigned r1 o.pod.uid)
      rw [h2] at h3
      simp only [findInfo, dropAllocIfEmpty_infos] at h1
      rw [h3] at h1
      have h4 : removeAssigned r1 o.pod.uid = r1 := Option.some.inj h1
      rw [← h4, hold o rfl]
      exact hasPod_removeAssigned r1 n.pod.uid
    · exact hc
  · subst hs
    cases old with
    | none => simp at hp
    | some o =>
      simp only [Option.map_some, Option.some.injEq] at hp
      subst hp
      rw [hold o rfl]
      exact hasPod_removeAssigned r0 n.pod.uid

/-- annotation shapes: only a well-formed annotation with a non-empty uid names a reservation -/
theorem rAllocOf_ne_zero (k u : Nat) : rAllocOf k u ≠ 0 ↔ k = 1 ∧ u ≠ 0 := by
  unfold rAllocOf
  by_cases hk : k = 1 <;> simp [hk]

/-- a terminated pod (Succeeded / Failed) is handled as a delete; OnDelete ignores foreign objects -/
theorem xpod_terminated_is_delete (c : Cache) (old : Option XPod) (n : XPod) (h : n.phase = 2 ∨ n.phase = 3) :
    xpodUpdate c old n = podDelete c n.toH := by
  have : n.toH.term = true := by rcases h with h | h <;> simp [XPod.toH, podTerminated, h]
  simp [xpodUpdate, podUpdate, this]

/-- the informer-level statement of `podUpdate_records_current` -/
theorem xpodUpdate_records_current (c : Cache) (old : Option XPod) (n : XPod) (r0 : RInfo)
    (hph : n.phase ≠ 2 ∧ n.phase ≠ 3) (hnode : n.node ≠ 0) (hk : n.annKind = 1) (hu : n.annUid ≠ 0)
    (hr : findInfo c n.annUid = some r0)
    (hold : ∀ o, old = some o → o.pod.uid = n.pod.uid)
    (hcase : (∃ o, old = some o ∧ o.annKind = 1 ∧ o.annUid = n.annUid) ∨ hasPod r0.assigned n.pod.uid = false) :
    ∃ r, findInfo (xpodUpdate c old n) n.annUid = some r ∧ findPod r.assigned n.pod.uid = some n.pod := by
  have hra : n.toH.rAlloc = n.annUid := by simp [XPod.toH, rAllocOf, hk]
  have hterm : n.toH.term = false := by simp [XPod.toH, podTerminated, hph.1, hph.2]
  have := podUpdate_records_current c (old.map XPod.toH) n.toH r0 hterm hnode (by rw [hra]; exact hu)
    (by rw [hra]; exact hr)
    (by
      intro o ho
      cases old with
      | none => simp at ho
      | some x => simp at ho; subst ho; exact hold x rfl)
    (by
      rcases hcase with ⟨o, ho, hok, hou⟩ | hc
      · left; refine ⟨o.toH, by simp [ho], ?_⟩
        rw [hra]; simp [XPod.toH, rAllocOf, hok, hou]
      · right; exact hc)
  rw [hra] at this
  exact this

/-! the routing the seeded change C05-c introduced: cache.updatePod only when the reservation changes -/
def podUpdateOnlyOnChange (c : Cache) (old : Option HPod) (new : HPod) : Cache :=
  if new.term then podDelete c new
  else if new.node == 0 then
    match old with
    | some o => if o.node != 0 then podDelete c o else c
    | none => c
  else
    let oldU := match old with | some o => o.rAlloc | none => 0
    if oldU != new.rAlloc then updatePod c oldU new.rAlloc (old.map (·.pod)) (some new.pod) else c

end KoordVerif.C05
