import KoordVerif.Proofs.C15Inv
import KoordVerif.Model.C15Race
/-
C15 round 4 — helper development for Props/C15.lean §18 (the delete's critical section against a concurrent request,
Model/C15Race.lean): ValidDeleteQuota = check · list · remove; the invariant `SerInv` that explains every configuration
of the atomic lock shape by one of the two sequential orders.
-/
set_option linter.unusedSimpArgs false
namespace KoordVerif.C15

/-- ValidDeleteQuota is the check, the pod list and the removal, in this order. -/
theorem validDelete_sections (s : Topo) (n : Nat) (lp : Bool) :
    validDelete s n lp = if delCheck s n && !lp then (delRemove s n, true) else (s, false) := by
  unfold validDelete delCheck delRemove
  by_cases h1 : (n = 1 || n = 0 || n = 2) = true
  · simp [h1]
  · cases hf : find s.info n with
    | none => simp [h1]
    | some o =>
      by_cases h2 : s.hkeys.contains n = true <;> by_cases h3 : hasKids s n = true <;> cases lp <;>
        simp [h1, h2, h3]

/-- while the delete thread is between its check and its removal, the atomic shape keeps the other thread out. -/
theorem race_atomic_blocks (d : Nat) (o : Other) (c : RC) (h : c.pc = 1 ∨ c.pc = 2 ∨ c.pc = 3) :
    ostep d .atomic o c = c := by
  rcases h with h | h | h <;> simp [ostep, lockHeld, h]

/-! linearizability of the atomic shape: whatever the schedule, once both threads are through, state and verdicts are
    those of one of the two SEQUENTIAL orders (the oracle of the harness stream `race` accepts exactly these). -/

/-- the delete thread on its way over the state `base` it locked (`pc ≤ 3`), or finished with the sequential result. -/
def Mid (n : Nat) (lp : Bool) (base : Topo) (c : RC) : Prop :=
  (c.pc ≤ 3 ∧ c.s = base ∧ c.dres = none ∧ (c.pc = 2 ∨ c.pc = 3 → delCheck base n = true) ∧ (c.pc = 3 → lp = false)) ∨
  (c.pc = 4 ∧ c.s = (validDelete base n lp).1 ∧ c.dres = some (validDelete base n lp).2)

theorem dstep_ores (sh : LockShape) (n : Nat) (lp : Bool) (c : RC) : (dstep sh n lp c).ores = c.ores := by
  unfold dstep
  repeat' split
  all_goals rfl

theorem dstep_mid {n : Nat} {lp : Bool} {base : Topo} {c : RC} (h : Mid n lp base c) :
    Mid n lp base (dstep .atomic n lp c) := by
  obtain ⟨s, pc, dres, ores⟩ := c
  unfold Mid at h ⊢
  rcases h with ⟨hpc, hs, hd, hchk, hlst⟩ | ⟨hpc, hs, hd⟩
  · dsimp only at hpc hs hd hchk hlst
    subst hs hd
    match pc, hpc, hchk, hlst with
    | 0, _, _, _ => simp [dstep]
    | 1, _, _, _ =>
      by_cases hc : delCheck s n = true
      · simp [dstep, hc]
      · simp [dstep, hc, validDelete_sections]
    | 2, _, hchk, _ =>
      have hc := hchk (Or.inl rfl)
      cases lp <;> simp [dstep, hc, validDelete_sections]
    | 3, _, hchk, hlst =>
      have hc := hchk (Or.inr rfl)
      have hl := hlst rfl
      subst hl
      simp [dstep, hc, validDelete_sections]
    | k+4, hpc, _, _ => omega
  · dsimp only at hpc hs hd
    subst hpc
    simp [dstep, hs, hd]

/-- the configuration is explained by "nothing from the other thread yet", "the other request first", or "the delete first". -/
def SerInv (d n : Nat) (lp : Bool) (o : Other) (s0 : Topo) (c : RC) : Prop :=
  (c.ores = none ∧ Mid n lp s0 c) ∨
  (c.ores = some (otherRun d o s0).2 ∧ Mid n lp (otherRun d o s0).1 c) ∨
  (c.pc = 4 ∧ c.dres = some (validDelete s0 n lp).2 ∧
    c.ores = some (otherRun d o (validDelete s0 n lp).1).2 ∧ c.s = (otherRun d o (validDelete s0 n lp).1).1)

theorem raceStep_serInv {d n : Nat} {lp : Bool} {o : Other} {s0 : Topo} {c : RC} (w : Bool)
    (h : SerInv d n lp o s0 c) : SerInv d n lp o s0 (raceStep d .atomic n lp o c w) := by
  unfold raceStep
  cases w with
  | false =>
    simp only [Bool.false_eq_true, if_false]
    rcases h with ⟨ho, hm⟩ | ⟨ho, hm⟩ | ⟨hpc, hd, ho, hs⟩
    · exact Or.inl ⟨(dstep_ores _ _ _ _).trans ho, dstep_mid hm⟩
    · exact Or.inr (Or.inl ⟨(dstep_ores _ _ _ _).trans ho, dstep_mid hm⟩)
    · obtain ⟨s, pc, dres, ores⟩ := c
      dsimp only at hpc hd ho hs
      subst hpc
      refine Or.inr (Or.inr ?_)
      simp [dstep, hd, ho, hs]
  | true =>
    simp only [if_true]
    unfold ostep
    split
    · exact h
    · next hfree =>
      rcases h with ⟨ho, hm⟩ | ⟨ho, hm⟩ | ⟨hpc, hd, ho, hs⟩
      · rcases hm with ⟨hpc, hs, hd, hchk, hlst⟩ | ⟨hpc, hs, hd⟩
        · have h0 : c.pc = 0 := by
            have : c.pc = 0 ∨ c.pc = 1 ∨ c.pc = 2 ∨ c.pc = 3 := by omega
            rcases this with h | h | h | h
            · exact h
            all_goals simp [lockHeld, h] at hfree
          refine Or.inr (Or.inl ⟨by simp [hs], Or.inl ⟨by simp [h0], by simp [hs], hd, ?_, ?_⟩⟩)
          · intro hp; simp [h0] at hp
          · intro hp; simp [h0] at hp
        · exact Or.inr (Or.inr ⟨hpc, hd, by simp [hs], by simp [hs]⟩)
      · simp [ho] at hfree
      · simp [ho] at hfree

end KoordVerif.C15
