import KoordVerif.Model.C02Scale
/-
Helper lemmas for the min-quota scaling bookkeeping (ScaleMinQuotaManager).
-/
namespace KoordVerif.C02

def eSum (cs : List SMChild) : Int := (cs.map (fun c => if c.enable then c.min else 0)).sum
def dSum (cs : List SMChild) : Int := (cs.map (fun c => if c.enable then 0 else c.min)).sum

def SMNames (cs : List SMChild) : Prop := (cs.map (·.name)).Nodup

structure SM.Inv (s : SM) : Prop where
  names   : SMNames s.children
  nonneg  : ∀ c ∈ s.children, 0 ≤ c.min
  esum    : s.enableSum = eSum s.children
  dsum    : s.disableSum = dSum s.children
  unknown : s.known = false → s.children = []

theorem eSum_nonneg (cs : List SMChild) (h : ∀ c ∈ cs, 0 ≤ c.min) : 0 ≤ eSum cs := by
  induction cs with
  | nil => simp [eSum]
  | cons c cs ih =>
    have := h c (by simp)
    have := ih (fun d hd => h d (by simp [hd]))
    simp only [eSum, List.map_cons, List.sum_cons] at *
    split <;> omega

theorem dSum_nonneg (cs : List SMChild) (h : ∀ c ∈ cs, 0 ≤ c.min) : 0 ≤ dSum cs := by
  induction cs with
  | nil => simp [dSum]
  | cons c cs ih =>
    have := h c (by simp)
    have := ih (fun d hd => h d (by simp [hd]))
    simp only [dSum, List.map_cons, List.sum_cons] at *
    split <;> omega

/-- removing the (unique) child named `n` lowers each sum by exactly that child's share. -/
theorem sums_filter (cs : List SMChild) (n : Nat) (hn : SMNames cs) :
    match smFind cs n with
    | some old =>
      eSum (cs.filter (fun c => c.name != n)) = eSum cs - (if old.enable then old.min else 0) ∧
      dSum (cs.filter (fun c => c.name != n)) = dSum cs - (if old.enable then 0 else old.min) ∧ old ∈ cs
    | none => cs.filter (fun c => c.name != n) = cs := by
  induction cs with
  | nil => simp [smFind]
  | cons c cs ih =>
    have hn' : SMNames cs := by
      unfold SMNames at *; simp only [List.map_cons, List.nodup_cons] at hn; exact hn.2
    have hcn : c.name ∉ cs.map (·.name) := by
      unfold SMNames at hn; simp only [List.map_cons, List.nodup_cons] at hn; exact hn.1
    have ih' := ih hn'
    unfold smFind at *
    by_cases hc : c.name = n
    · -- c is the child; no later element has this name
      have hfind : List.find? (fun x => x.name == n) (c :: cs) = some c := by simp [List.find?_cons, hc]
      rw [hfind]
      have hnone : cs.filter (fun x => x.name != n) = cs := by
        apply List.filter_eq_self.mpr
        intro x hx
        have : x.name ≠ n := by
          intro e; apply hcn; rw [hc, ← e]; exact List.mem_map.mpr ⟨x, hx, rfl⟩
        simp [this]
      simp only [List.filter_cons, hc, bne_self_eq_false, Bool.false_eq_true, if_false, hnone]
      simp only [eSum, dSum, List.map_cons, List.sum_cons]
      refine ⟨by omega, by omega, by simp⟩
    · have hfind : List.find? (fun x => x.name == n) (c :: cs) = List.find? (fun x => x.name == n) cs := by
        simp [List.find?_cons, hc]
      rw [hfind]
      have hkeep : (c.name != n) = true := by simp [hc]
      cases hf : List.find? (fun x => x.name == n) cs with
      | none =>
        rw [hf] at ih'
        simp only [List.filter_cons, hkeep, if_true]
        simp only at ih'
        rw [ih']
      | some old =>
        rw [hf] at ih'
        simp only at ih'
        simp only [List.filter_cons, hkeep, if_true]
        simp only [eSum, dSum, List.map_cons, List.sum_cons] at *
        refine ⟨by omega, by omega, by simp [ih'.2.2]⟩

theorem names_filter_cons (cs : List SMChild) (n : Nat) (hn : SMNames cs) (c : SMChild) (hc : c.name = n) :
    SMNames (c :: cs.filter (fun x => x.name != n)) := by
  unfold SMNames at *
  simp only [List.map_cons, List.nodup_cons]
  constructor
  · intro h
    obtain ⟨x, hx, hxn⟩ := List.mem_map.mp h
    have := (List.mem_filter.mp hx).2
    simp at this
    exact this (hxn.trans hc)
  · exact List.Nodup.sublist ((List.filter_sublist).map _) hn

theorem init_inv : SM.init.Inv :=
  ⟨by simp [SM.init, SMNames], by simp [SM.init], by simp [SM.init, eSum], by simp [SM.init, dSum], fun _ => rfl⟩

theorem update_inv (s : SM) (h : s.Inv) (n : Nat) (min : Int) (enable : Bool) (hmin : 0 ≤ min) :
    (s.update n min enable).Inv := by
  have hf := sums_filter s.children n h.names
  have he := eSum_nonneg s.children h.nonneg
  have hd := dSum_nonneg s.children h.nonneg
  unfold SM.update
  cases hfind : smFind s.children n with
  | none =>
    rw [hfind] at hf
    simp only at hf
    simp only [hf]
    refine ⟨?_, ?_, ?_, ?_, ?_⟩
    · have := names_filter_cons s.children n h.names { name := n, min := min, enable := enable } rfl
      rw [hf] at this; exact this
    · intro c hc
      rcases List.mem_cons.mp hc with rfl | hc'
      · exact hmin
      · exact h.nonneg c hc'
    · cases enable <;> simp [eSum, h.esum] <;> omega
    · cases enable <;> simp [dSum, h.dsum] <;> omega
    · intro hk; simp at hk
  | some old =>
    rw [hfind] at hf
    simp only at hf
    obtain ⟨hfe, hfd, hold⟩ := hf
    have hom := h.nonneg old hold
    refine ⟨?_, ?_, ?_, ?_, ?_⟩
    · exact names_filter_cons s.children n h.names _ rfl
    · intro c hc
      rcases List.mem_cons.mp hc with rfl | hc'
      · exact hmin
      · exact h.nonneg c (List.mem_filter.mp hc').1
    · -- enable sum
      have hge : eSum s.children - (if old.enable then old.min else 0) ≥ 0 := by
        rw [← hfe]; exact eSum_nonneg _ (fun c hc => h.nonneg c (List.mem_filter.mp hc).1)
      simp only [eSum, List.map_cons, List.sum_cons]
      simp only [eSum] at hfe hge
      rw [hfe]
      cases ho : old.enable <;> cases enable <;> simp [subNonNeg, h.esum, eSum, ho] at hge ⊢ <;> omega
    · have hge : dSum s.children - (if old.enable then 0 else old.min) ≥ 0 := by
        rw [← hfd]; exact dSum_nonneg _ (fun c hc => h.nonneg c (List.mem_filter.mp hc).1)
      simp only [dSum, List.map_cons, List.sum_cons]
      simp only [dSum] at hfd hge
      rw [hfd]
      cases ho : old.enable <;> cases enable <;> simp [subNonNeg, h.dsum, dSum, ho] at hge ⊢ <;> omega
    · intro hk; simp at hk

theorem remove_inv (s : SM) (h : s.Inv) (n : Nat) : (s.remove n).Inv := by
  have hf := sums_filter s.children n h.names
  unfold SM.remove
  cases hfind : smFind s.children n with
  | none =>
    rw [hfind] at hf
    simp only at hf
    by_cases hk : s.known = true
    · have hd := dSum_nonneg s.children h.nonneg
      simp only [hk, Bool.not_true, Bool.false_eq_true, if_false]
      have : subNonNeg s.disableSum 0 = s.disableSum := by
        unfold subNonNeg; rw [h.dsum]; split <;> omega
      simp only [this, hf]
      exact ⟨h.names, h.nonneg, h.esum, h.dsum, fun hk2 => by simp [hk] at hk2⟩
    · have hk' : s.known = false := by simpa using hk
      simp only [hk', Bool.not_false, if_true, hf]
      exact ⟨h.names, h.nonneg, h.esum, h.dsum, fun _ => h.unknown hk'⟩
  | some old =>
    rw [hfind] at hf
    simp only at hf
    obtain ⟨hfe, hfd, hold⟩ := hf
    have hk : s.known = true := by
      cases hks : s.known with
      | true => rfl
      | false => have := h.unknown hks; rw [this] at hold; cases hold
    have hnn : ∀ c ∈ s.children.filter (fun c => c.name != n), 0 ≤ c.min :=
      fun c hc => h.nonneg c (List.mem_filter.mp hc).1
    have hnames : SMNames (s.children.filter (fun c => c.name != n)) := by
      unfold SMNames; exact List.Nodup.sublist ((List.filter_sublist).map _) h.names
    have hge1 := eSum_nonneg _ hnn
    have hge2 := dSum_nonneg _ hnn
    simp only [hk, Bool.not_true, Bool.false_eq_true, if_false]
    cases ho : old.enable with
    | true =>
      simp only [ho, if_true] at hfe hfd ⊢
      refine ⟨hnames, hnn, ?_, ?_, fun hk2 => by simp [hk] at hk2⟩
      · simp only [subNonNeg, h.esum]; rw [hfe]; split <;> omega
      · simp only [h.dsum]; rw [hfd]; omega
    | false =>
      simp only [ho, Bool.false_eq_true, if_false] at hfe hfd ⊢
      refine ⟨hnames, hnn, ?_, ?_, fun hk2 => by simp [hk] at hk2⟩
      · simp only [h.esum]; rw [hfe]; omega
      · simp only [subNonNeg, h.dsum]; rw [hfd]; split <;> omega

end KoordVerif.C02
