import KoordVerif.Model.C11Passes
import KoordVerif.Proofs.C11Loop
import KoordVerif.Proofs.C11ExtScan
import KoordVerif.Proofs.C11ExtRounds
/-
C11 — Part H helper development: a pass that REPEATS the tasks of an earlier pass all of whose Evict calls
succeeded, while every pod that pass evicted or credited is still reported as evicted (still terminating, inside the
TTL), walks the lists exactly as the earlier pass did, credits the same amounts, stops at the same places — and never
calls Evict.  ("mirror" argument: ok ↦ pending.)
-/
namespace KoordVerif.C11

def AllTrue (l : List Bool) : Prop := ∀ b ∈ l, b = true

theorem AllTrue.headD {l : List Bool} (h : AllTrue l) : l.headD true = true := by
  cases l with
  | nil => rfl
  | cons a l => exact h a (List.mem_cons_self ..)

theorem AllTrue.tail {l : List Bool} (h : AllTrue l) : AllTrue l.tail := by
  cases l with
  | nil => exact h
  | cons a l => exact fun b hb => h b (List.mem_cons_of_mem _ hb)

def pendSt (agg : Entry → Rel) (ti : Nat) (e : Entry) (st : St) : St :=
  { st with evicted := e.pod :: st.evicted, released := addRel st.released (agg e),
            logRev := ⟨ti, e, .pending⟩ :: st.logRev }

def okSt (agg : Entry → Rel) (ti : Nat) (e : Entry) (st : St) : St :=
  { st with evicted := e.pod :: st.evicted, newly := true, released := addRel st.released (agg e),
            script := st.script.tail, logRev := ⟨ti, e, .ok⟩ :: st.logRev }

theorem loopPods_skip (agg : Entry → Rel) (isEv : Nat → Bool) (ti : Nat) (t : Task) (st : St) (e : Entry) (es : List Entry)
    (h : st.evicted.contains e.pod = true) :
    loopPods agg isEv ti t st (e :: es) = loopPods agg isEv ti t st es := by
  rw [loopPods, if_pos h]

theorem loopPods_pend (agg : Entry → Rel) (isEv : Nat → Bool) (ti : Nat) (t : Task) (st : St) (e : Entry) (es : List Entry)
    (h1 : ¬ st.evicted.contains e.pod = true) (h2 : isEv e.pod = true) :
    loopPods agg isEv ti t st (e :: es) =
      if (remaining t (pendSt agg ti e st).released).isEmpty = true then pendSt agg ti e st
      else loopPods agg isEv ti t (pendSt agg ti e st) es := by
  rw [loopPods, if_neg h1, if_pos h2]; rfl

theorem loopPods_ok (agg : Entry → Rel) (isEv : Nat → Bool) (ti : Nat) (t : Task) (st : St) (e : Entry) (es : List Entry)
    (h1 : ¬ st.evicted.contains e.pod = true) (h2 : ¬ isEv e.pod = true) (h3 : st.script.headD true = true) :
    loopPods agg isEv ti t st (e :: es) =
      if (remaining t (okSt agg ti e st).released).isEmpty = true then okSt agg ti e st
      else loopPods agg isEv ti t (okSt agg ti e st) es := by
  rw [loopPods, if_neg h1, if_neg h2, if_pos h3]; rfl

/-- with an all-succeeding script, a scanned pod that is not yet in `evictedPodsMp` is credited (as pending or by a
    successful call) and the loop goes on from a state with that pod added. -/
theorem loopPods_first_step (agg : Entry → Rel) (isEv : Nat → Bool) (ti : Nat) (t : Task) (st : St) (e : Entry)
    (es : List Entry) (h1 : ¬ st.evicted.contains e.pod = true) (hs : AllTrue st.script) :
    ∃ st', loopPods agg isEv ti t st (e :: es) =
        (if (remaining t st'.released).isEmpty = true then st' else loopPods agg isEv ti t st' es) ∧
      st'.evicted = e.pod :: st.evicted ∧ st'.released = addRel st.released (agg e) ∧ AllTrue st'.script := by
  by_cases h2 : isEv e.pod = true
  · exact ⟨pendSt agg ti e st, loopPods_pend agg isEv ti t st e es h1 h2, rfl, rfl, hs⟩
  · exact ⟨okSt agg ti e st, loopPods_ok agg isEv ti t st e es h1 h2 hs.headD, rfl, rfl, hs.tail⟩

/-- what the mirrored run looks like relative to its start state `st2` and to the first run's result `r1`. -/
structure Mirrored (r1 st2 r2 : St) : Prop where
  evd    : r2.evicted = r1.evicted
  rel    : r2.released = r1.released
  quiet  : ∀ ev ∈ r2.logRev, ev ∈ st2.logRev ∨ ev.kind = .pending
  script : r2.script = st2.script
  newly  : r2.newly = st2.newly

theorem loopPods_mirror (agg : Entry → Rel) (isEv1 isEv2 : Nat → Bool) (ti : Nat) (t : Task) (es : List Entry) :
    ∀ st1 st2, AllTrue st1.script → st2.evicted = st1.evicted → st2.released = st1.released →
      (∀ p ∈ (loopPods agg isEv1 ti t st1 es).evicted, isEv2 p = true) →
      AllTrue (loopPods agg isEv1 ti t st1 es).script ∧
      Mirrored (loopPods agg isEv1 ti t st1 es) st2 (loopPods agg isEv2 ti t st2 es) := by
  induction es with
  | nil =>
    intro st1 st2 hs he hr _
    exact ⟨hs, he, hr, fun ev h => Or.inl h, rfl, rfl⟩
  | cons e es ih =>
    intro st1 st2 hs he hr hev
    by_cases hc : st1.evicted.contains e.pod = true
    · have hc2 : st2.evicted.contains e.pod = true := by rw [he]; exact hc
      rw [loopPods_skip agg isEv1 ti t st1 e es hc] at hev ⊢
      rw [loopPods_skip agg isEv2 ti t st2 e es hc2]
      exact ih st1 st2 hs he hr hev
    · have hc2 : ¬ st2.evicted.contains e.pod = true := by rw [he]; exact hc
      obtain ⟨st1', h1, h1e, h1r, h1s⟩ := loopPods_first_step agg isEv1 ti t st1 e es hc hs
      rw [h1] at hev ⊢
      -- the pod is in the first run's final evicted set, hence reported evicted in the second run
      have hin : e.pod ∈ (if (remaining t st1'.released).isEmpty = true then st1' else loopPods agg isEv1 ti t st1' es).evicted := by
        split
        · rw [h1e]; exact List.mem_cons_self ..
        · exact (loopPods_mono agg isEv1 ti t es st1').1 _ (by rw [h1e]; exact List.mem_cons_self ..)
      have h2 := hev _ hin
      rw [loopPods_pend agg isEv2 ti t st2 e es hc2 h2]
      have hrel : (pendSt agg ti e st2).released = st1'.released := by
        rw [h1r]; show addRel st2.released (agg e) = _; rw [hr]
      have hevd : (pendSt agg ti e st2).evicted = st1'.evicted := by
        rw [h1e]; show e.pod :: st2.evicted = _; rw [he]
      rw [hrel]
      by_cases hcov : (remaining t st1'.released).isEmpty = true
      · rw [if_pos hcov, if_pos hcov]
        refine ⟨h1s, hevd, hrel, ?_, rfl, rfl⟩
        intro ev hm
        rcases List.mem_cons.mp hm with rfl | hm'
        · exact Or.inr rfl
        · exact Or.inl hm'
      · rw [if_neg hcov, if_neg hcov]
        rw [if_neg hcov] at hev
        obtain ⟨a, b⟩ := ih st1' (pendSt agg ti e st2) h1s hevd hrel hev
        refine ⟨a, b.evd, b.rel, ?_, b.script, b.newly⟩
        intro ev hm
        rcases b.quiet ev hm with h | h
        · rcases List.mem_cons.mp h with rfl | hm'
          · exact Or.inr rfl
          · exact Or.inl hm'
        · exact Or.inr h

theorem loopTasks_evicted_mono (agg : Entry → Rel) (isEv : Nat → Bool) (ts : List Task) :
    ∀ ti st, ∀ p ∈ st.evicted, p ∈ (loopTasks agg isEv ti st ts).evicted := by
  induction ts with
  | nil => intro ti st p hp; exact hp
  | cons t ts ih =>
    intro ti st p hp
    rw [loopTasks]
    split
    · exact ih _ _ p hp
    · exact ih _ _ p ((loopPods_mono agg isEv ti t t.pods st).1 p hp)

theorem loopTasks_mirror (agg : Entry → Rel) (isEv1 isEv2 : Nat → Bool) (ts : List Task) :
    ∀ ti st1 st2, AllTrue st1.script → st2.evicted = st1.evicted → st2.released = st1.released →
      (∀ p ∈ (loopTasks agg isEv1 ti st1 ts).evicted, isEv2 p = true) →
      Mirrored (loopTasks agg isEv1 ti st1 ts) st2 (loopTasks agg isEv2 ti st2 ts) := by
  induction ts with
  | nil =>
    intro ti st1 st2 _ he hr _
    exact ⟨he, hr, fun ev h => Or.inl h, rfl, rfl⟩
  | cons t ts ih =>
    intro ti st1 st2 hs he hr hev
    rw [loopTasks] at hev ⊢
    rw [loopTasks, hr]
    by_cases hcov : (remaining t st1.released).isEmpty = true
    · rw [if_pos hcov] at hev ⊢
      rw [if_pos hcov]
      exact ih _ st1 st2 hs he hr hev
    · rw [if_neg hcov] at hev ⊢
      rw [if_neg hcov]
      obtain ⟨a, b⟩ := loopPods_mirror agg isEv1 isEv2 ti t t.pods st1 st2 hs he hr
        (fun p hp => hev p (loopTasks_evicted_mono agg isEv1 ts _ _ p hp))
      have c := ih (ti + 1) _ _ a b.evd b.rel hev
      refine ⟨c.evd, c.rel, ?_, c.script.trans b.script, c.newly.trans b.newly⟩
      intro ev hm
      rcases c.quiet ev hm with h | h
      · exact b.quiet ev h
      · exact Or.inr h

/-- Part A form: `first` = KillAndEvictPods with an executor whose Evict calls all succeed; a second run over the SAME
    tasks with an executor that reports every pod `first` evicted or credited as (still) evicted makes no Evict call. -/
theorem kill_mirror (isEv1 isEv2 : Nat → Bool) (script1 script2 : List Bool) (tasks : List Task)
    (hs : AllTrue script1)
    (hev : ∀ p ∈ (killAndEvict isEv1 script1 tasks).evicted, isEv2 p = true) :
    (∀ ev ∈ (killAndEvict isEv2 script2 tasks).logRev, ev.kind = .pending) ∧
    (killAndEvict isEv2 script2 tasks).released = (killAndEvict isEv1 script1 tasks).released ∧
    (killAndEvict isEv2 script2 tasks).evicted = (killAndEvict isEv1 script1 tasks).evicted ∧
    (killAndEvict isEv2 script2 tasks).newly = false ∧
    (killAndEvict isEv2 script2 tasks).script = script2 := by
  unfold killAndEvict at hev ⊢
  have m := loopTasks_mirror (aggWith (collectFns [] tasks)) isEv1 isEv2 tasks 0 (St.init script1) (St.init script2)
    hs rfl rfl hev
  refine ⟨?_, m.rel, m.evd, m.newly, m.script⟩
  intro ev hm
  rcases m.quiet ev hm with h | h
  · simp [St.init] at h
  · exact h

theorem mem_creditedPods {l : List Ev} {p : Nat} (h : p ∈ creditedPods l) :
    ∃ ev ∈ l, ev.kind ≠ .fail ∧ ev.e.pod = p := by
  induction l with
  | nil => simp [creditedPods] at h
  | cons ev l ih =>
    unfold creditedPods at h
    by_cases hk : ev.kind = .fail
    · rw [if_pos hk] at h
      obtain ⟨ev', hm, h1, h2⟩ := ih h
      exact ⟨ev', List.mem_cons_of_mem _ hm, h1, h2⟩
    · rw [if_neg hk] at h
      rcases List.mem_cons.mp h with rfl | h'
      · exact ⟨ev, List.mem_cons_self .., hk, rfl⟩
      · obtain ⟨ev', hm, h1, h2⟩ := ih h'
        exact ⟨ev', List.mem_cons_of_mem _ hm, h1, h2⟩

/-- every pod in `evictedPodsMp` at the end of a round of the real executor (API mode, started) is reported as evicted
    by the executor the round leaves behind, at any later time inside the TTL at which the round's own
    `IsPodEvicted = true` answers are still valid. -/
theorem evicted_still_reported (x : Exec) (hapi : x.onlyAPI = true) (hst : x.started = true) (r1 : Round) (now2 : Int)
    (httl : now2 ≤ r1.now + x.ttl)
    (hkeep : ∀ p, x.isEvicted r1.now p = true → x.isEvicted now2 p = true)
    (p : Nat) (hp : p ∈ (runRound x r1).st.evicted) :
    (runRound x r1).x.isEvicted now2 p = true := by
  have inv := kill_inv (fun p => cacheGet x.cache r1.now p) (x.scriptFor r1.script) r1.tasks
  have xinv := runRound_inv x r1
  rw [runRound_refines] at hp
  obtain ⟨ev, hm, hk, rfl⟩ := mem_creditedPods ((inv.evd p).mp hp)
  have hlook := xinv.look ev.e.pod
  unfold Exec.isEvicted cacheGet
  by_cases hok : okIn (runRound x r1).st.logRev ev.e.pod
  · rw [hlook, if_pos ⟨hapi, hst, hok⟩]
    simp; omega
  · rw [hlook, if_neg (fun h => hok h.2.2)]
    -- not a successful call of this round: the event is a pending credit, i.e. the executor said "evicted" at r1.now
    have hpend : ev.kind = .pending := by
      cases hkd : ev.kind with
      | pending => rfl
      | fail => exact absurd hkd hk
      | ok => exact absurd ⟨ev, by rw [runRound_refines]; exact hm, hkd, rfl⟩ hok
    obtain ⟨newer, older, hsplit⟩ := List.append_of_mem hm
    have eok := HistOK_split inv.hist newer ev older hsplit
    have := hkeep ev.e.pod (eok.kind_ok.mp hpend)
    unfold Exec.isEvicted cacheGet at this
    exact this

/-- Part C form of the mirror argument: round `r2` repeats the tasks of round `r1` (all of whose API calls succeeded)
    right after it, inside the TTL: no Evict call, same credited release, nothing newly evicted. -/
theorem repeat_round_mirror (x : Exec) (hapi : x.onlyAPI = true) (hst : x.started = true) (r1 r2 : Round)
    (hs : AllTrue r1.script) (ht : r2.tasks = r1.tasks) (httl : r2.now ≤ r1.now + x.ttl)
    (hkeep : ∀ p, x.isEvicted r1.now p = true → x.isEvicted r2.now p = true) :
    (∀ ev ∈ (runRound (runRound x r1).x r2).st.logRev, ev.kind = .pending) ∧
    (runRound (runRound x r1).x r2).st.released = (runRound x r1).st.released ∧
    (runRound (runRound x r1).x r2).st.newly = false := by
  have hev := evicted_still_reported x hapi hst r1 r2.now httl hkeep
  rw [runRound_refines (runRound x r1).x r2, ht]
  rw [runRound_refines x r1] at hev ⊢
  have hs' : AllTrue (x.scriptFor r1.script) := by simp [Exec.scriptFor, hapi]; exact hs
  have m := kill_mirror (fun p => cacheGet x.cache r1.now p) (fun p => cacheGet (runRound x r1).x.cache r2.now p)
    (x.scriptFor r1.script) ((runRound x r1).x.scriptFor r2.script) r1.tasks hs' hev
  exact ⟨m.1, m.2.1, m.2.2.2.1⟩

end KoordVerif.C11
