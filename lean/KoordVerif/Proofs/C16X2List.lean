import KoordVerif.Proofs.C16X2Model
/-
C16 extension — list lemmas used by the counting half of `round_inv` (Proofs/C16ExtArb.lean).
-/
namespace KoordVerif.C16x

theorem mem_addNew (xs : List Nat) (x y : Nat) : y ∈ addNew xs x ↔ y ∈ xs ∨ y = x := by
  unfold addNew
  by_cases h : x ∈ xs
  · simp only [List.contains_iff_mem.mpr h, if_true]
    constructor
    · exact Or.inl
    · rintro (h' | rfl)
      · exact h'
      · exact h
  · have hc : xs.contains x = false := by simpa using h
    simp only [hc, Bool.false_eq_true, if_false, List.mem_append, List.mem_singleton]

theorem nodup_addNew (xs : List Nat) (x : Nat) (h : xs.Nodup) : (addNew xs x).Nodup := by
  unfold addNew
  by_cases hx : x ∈ xs
  · simp only [List.contains_iff_mem.mpr hx, if_true]; exact h
  · have hc : xs.contains x = false := by simpa using hx
    simp only [hc, Bool.false_eq_true, if_false]
    rw [List.nodup_append]
    refine ⟨h, by simp, ?_⟩
    intro a ha b hb
    simp at hb
    subst hb
    intro e; subst e; exact hx ha

theorem mem_foldl_addNew (l : List Nat) : ∀ (acc : List Nat) (x : Nat),
    x ∈ l.foldl addNew acc ↔ x ∈ acc ∨ x ∈ l := by
  induction l with
  | nil => simp
  | cons a r ih =>
    intro acc x
    simp only [List.foldl_cons, ih, mem_addNew, List.mem_cons]
    constructor
    · rintro ((h | h) | h)
      · exact Or.inl h
      · exact Or.inr (Or.inl h)
      · exact Or.inr (Or.inr h)
    · rintro (h | h | h)
      · exact Or.inl (Or.inl h)
      · exact Or.inl (Or.inr h)
      · exact Or.inr h

theorem nodup_foldl_addNew (l : List Nat) : ∀ (acc : List Nat), acc.Nodup → (l.foldl addNew acc).Nodup := by
  induction l with
  | nil => intro acc h; exact h
  | cons a r ih => intro acc h; exact ih _ (nodup_addNew acc a h)

/-- a duplicate-free list contained in `m` is no longer than `m` -/
theorem nodup_subset_length : ∀ (l m : List Nat), l.Nodup → (∀ x ∈ l, x ∈ m) → l.length ≤ m.length := by
  intro l
  induction l with
  | nil => intro m _ _; simp
  | cons a r ih =>
    intro m hn hs
    rw [List.nodup_cons] at hn
    have ha : a ∈ m := hs a (List.mem_cons_self ..)
    have hr : ∀ x ∈ r, x ∈ m.erase a := by
      intro x hx
      have hne : x ≠ a := fun e => hn.1 (e ▸ hx)
      exact (List.mem_erase_of_ne hne).mpr (hs x (List.mem_cons_of_mem _ hx))
    have h1 := ih (m.erase a) hn.2 hr
    rw [List.length_erase_of_mem ha] at h1
    have : 0 < m.length := List.length_pos_of_mem ha
    simp only [List.length_cons]
    omega

/-- the dedup'ed list grows by at most the length of what is folded in -/
theorem length_foldl_addNew_le (l : List Nat) : ∀ acc : List Nat, (l.foldl addNew acc).length ≤ acc.length + l.length := by
  induction l with
  | nil => intro acc; simp
  | cons a r ih =>
    intro acc
    have h := ih (addNew acc a)
    have h2 : (addNew acc a).length ≤ acc.length + 1 := by
      unfold addNew; split <;> simp
    simp only [List.foldl_cons, List.length_cons]
    omega

/-- counting with one exceptional id: if every element satisfying `q` satisfies `r` or carries the id `a`,
    and ids are pairwise different, then `q` holds at most once more often than `r`. -/
theorem countP_le_add_one {α : Type} (key : α → Nat) (q r : α → Bool) (a : Nat) :
    ∀ l : List α, (l.map key).Nodup → (∀ x ∈ l, q x = true → r x = true ∨ key x = a) →
      l.countP q ≤ l.countP r + 1 := by
  intro l
  induction l with
  | nil => intro _ _; simp
  | cons x xs ih =>
    intro hn h
    simp only [List.map_cons, List.nodup_cons] at hn
    simp only [List.countP_cons]
    by_cases hk : key x = a
    · -- no other element carries the id
      have hmono : xs.countP q ≤ xs.countP r := by
        apply List.countP_mono_left
        intro y hy hq
        rcases h y (List.mem_cons_of_mem _ hy) hq with h' | h'
        · exact h'
        · exact absurd (List.mem_map.mpr ⟨y, hy, h'.trans hk.symm⟩) hn.1
      split <;> split <;> omega
    · have hx : q x = true → r x = true := fun hq =>
        (h x (List.mem_cons_self ..) hq).resolve_right hk
      have := ih hn.2 (fun y hy => h y (List.mem_cons_of_mem _ hy))
      by_cases hq : q x = true
      · simp [hq, hx hq]; omega
      · simp [hq]; split <;> omega

/-- `find?` on a list with pairwise different keys returns THE element with that key -/
theorem eq_of_find_key {α : Type} (key : α → Nat) (a : Nat) :
    ∀ (l : List α) (y x : α), (l.map key).Nodup → l.find? (fun e => key e == a) = some y → x ∈ l → key x = a → x = y := by
  intro l
  induction l with
  | nil => intro y x _ h; simp at h
  | cons z zs ih =>
    intro y x hn hf hx hk
    simp only [List.map_cons, List.nodup_cons] at hn
    by_cases hz : key z = a
    · have hb : (key z == a) = true := by simp [hz]
      have : y = z := by simpa [List.find?_cons, hb] using hf.symm
      subst this
      rcases List.mem_cons.mp hx with rfl | hx'
      · rfl
      · exact absurd (List.mem_map.mpr ⟨x, hx', hk.trans hz.symm⟩) hn.1
    · have hb : (key z == a) = false := by simp [hz]
      have hf' : zs.find? (fun e => key e == a) = some y := by
        simpa [List.find?_cons, hb] using hf
      rcases List.mem_cons.mp hx with rfl | hx'
      · exact absurd hk hz
      · exact ih y x hn.2 hf' hx' hk

end KoordVerif.C16x
