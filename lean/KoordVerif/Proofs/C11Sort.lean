import KoordVerif.Model.C11
/-
C11 — helper development for Part B: the insertion sort keeps the elements and, for a strict
weak order, produces a sorted list; `prioLess` is a strict weak order.
-/
namespace KoordVerif.C11

theorem mem_insertBack (less : Info → Info → Bool) (x y : Info) (l : List Info) :
    y ∈ insertBack less x l ↔ y = x ∨ y ∈ l := by
  induction l with
  | nil => simp [insertBack]
  | cons z zs ih =>
    unfold insertBack
    split
    · simp [ih]; constructor
      · rintro (h | h | h) <;> simp [h]
      · rintro (h | h | h) <;> simp [h]
    · simp

theorem mem_isortRev (less : Info → Info → Bool) (y : Info) (xs : List Info) :
    ∀ acc, y ∈ isortRev less acc xs ↔ y ∈ acc ∨ y ∈ xs := by
  induction xs with
  | nil => intro acc; simp [isortRev]
  | cons x xs ih =>
    intro acc
    simp only [isortRev, ih, mem_insertBack, List.mem_cons]
    constructor
    · rintro ((h | h) | h) <;> simp [h]
    · rintro (h | h | h) <;> simp [h]

theorem mem_isort (less : Info → Info → Bool) (y : Info) (xs : List Info) :
    y ∈ isort less xs ↔ y ∈ xs := by
  simp [isort, mem_isortRev]

/-- strict weak order: asymmetric and negatively transitive. -/
structure SWO (less : Info → Info → Bool) : Prop where
  asymm  : ∀ a b, less a b = true → less b a = false
  ntrans : ∀ a b c, less a b = false → less b c = false → less a c = false

theorem insertBack_sorted {less : Info → Info → Bool} (h : SWO less) (x : Info) (l : List Info)
    (hl : l.Pairwise (fun a b => less a b = false)) :
    (insertBack less x l).Pairwise (fun a b => less a b = false) := by
  induction l with
  | nil => simp [insertBack]
  | cons y ys ih =>
    unfold insertBack
    rw [List.pairwise_cons] at hl
    by_cases hxy : less x y = true
    · rw [if_pos hxy]
      rw [List.pairwise_cons]
      refine ⟨?_, ih hl.2⟩
      intro z hz
      rcases (mem_insertBack less x z ys).mp hz with rfl | hz'
      · exact h.asymm _ _ hxy
      · exact hl.1 z hz'
    · rw [if_neg hxy]
      have hxy' : less x y = false := by simpa using hxy
      rw [List.pairwise_cons]
      refine ⟨?_, List.pairwise_cons.mpr hl⟩
      intro z hz
      rcases List.mem_cons.mp hz with rfl | hz'
      · exact hxy'
      · exact h.ntrans _ _ _ hxy' (hl.1 z hz')

theorem isortRev_sorted {less : Info → Info → Bool} (h : SWO less) (xs : List Info) :
    ∀ acc, acc.Pairwise (fun a b => less a b = false) →
      (isortRev less acc xs).Pairwise (fun a b => less a b = false) := by
  induction xs with
  | nil => intro acc hacc; simpa [isortRev] using hacc
  | cons x xs ih => intro acc hacc; exact ih _ (insertBack_sorted h x acc hacc)

/-- in the sorted list no later element is strictly before an earlier one. -/
theorem isort_sorted {less : Info → Info → Bool} (h : SWO less) (xs : List Info) :
    (isort less xs).Pairwise (fun a b => less b a = false) := by
  unfold isort
  rw [List.pairwise_reverse]
  exact isortRev_sorted h xs [] List.Pairwise.nil

/-- the sub-sort key: request (by-allocatable) or usage (by-used). -/
def subKey (byReq : Bool) (i : Info) : Int := if byReq then i.request else i.used

/-- `prioLess` is the strict lexicographic order on
    (evictionPriority ↑, priority ↑, labelPriority ↑, usage-or-request ↓). -/
theorem prioLess_iff (byReq : Bool) (a b : Info) :
    prioLess byReq a b = true ↔
      (a.evictPrio < b.evictPrio ∨ (a.evictPrio = b.evictPrio ∧
        (a.prio < b.prio ∨ (a.prio = b.prio ∧
          (a.labelPrio < b.labelPrio ∨ (a.labelPrio = b.labelPrio ∧ subKey byReq b < subKey byReq a)))))) := by
  unfold prioLess subKey
  by_cases h1 : a.evictPrio = b.evictPrio <;> by_cases h2 : a.prio = b.prio <;>
    by_cases h3 : a.labelPrio = b.labelPrio <;> cases byReq <;>
    simp [h1, h2, h3] <;> omega

theorem prioLess_swo (byReq : Bool) : SWO (prioLess byReq) := by
  constructor
  · intro a b h
    have h1 := (prioLess_iff byReq a b).mp h
    cases hb : prioLess byReq b a with
    | false => rfl
    | true =>
      have h2 := (prioLess_iff byReq b a).mp hb
      omega
  · intro a b c hab hbc
    cases hac : prioLess byReq a c with
    | false => rfl
    | true =>
      have h3 := (prioLess_iff byReq a c).mp hac
      have h1 : ¬ _ := fun h => by rw [(prioLess_iff byReq a b).mpr h] at hab; cases hab
      have h2 : ¬ _ := fun h => by rw [(prioLess_iff byReq b c).mpr h] at hbc; cases hbc
      omega

end KoordVerif.C11
