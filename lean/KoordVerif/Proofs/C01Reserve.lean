import KoordVerif.Proofs.C01Cache
/-
C01: ReservePod / UnreservePod keep the invariant.
-/
namespace KoordVerif.C01

/-- the cached entry of the pod (if any) agrees with the object handed to the handler
(informer consistency: the object is the one delivered last) -/
def Consistent (q : Quota) (p : PodObj) : Prop :=
  ∀ e, getPod q.pods p.id = some e → e.req = p.req ∧ e.np = p.np

def gAsg (flag : Bool) (p : Pod) : Pod := { p with assigned := flag }

theorem setAssigned_eq {s : State} {n : Nat} {q : Quota} (hq : get? s n = some q) (i : Nat) (flag : Bool) :
    setAssigned s n i flag = set s { q with pods := updPods (gAsg flag) i q.pods } := by
  simp [setAssigned, hq, updPods, gAsg]

theorem self_nonneg_used {s : State} {n : Nat} {a b : Int} {q : Quota} (h : Mid s n a b 0 0) (hq : get? s n = some q) :
    q.selfUsed = podSum (fun p => p.assigned) q.pods ∧ q.selfNpUsed = podSum (fun p => p.assigned && p.np) q.pods ∧
    0 ≤ q.selfUsed ∧ 0 ≤ q.selfNpUsed := by
  obtain ⟨a1, b1, _⟩ := h.used n q hq
  simp at a1 b1
  have hp := (h.params q (get?_mem hq)).2
  exact ⟨a1, b1, by rw [a1]; exact podSum_nonneg _ _ hp, by rw [b1]; exact podSum_nonneg _ _ hp⟩

theorem self_nonneg_req {s : State} {n : Nat} {c d : Int} {q : Quota} (h : Mid s n 0 0 c d) (hq : get? s n = some q) :
    q.selfRequest = podSum (fun _ => true) q.pods ∧ q.selfNpRequest = podSum (fun p => p.np) q.pods ∧
    0 ≤ q.selfRequest ∧ 0 ≤ q.selfNpRequest := by
  obtain ⟨a1, b1, _⟩ := h.req n q hq
  simp at a1 b1
  have hp := (h.params q (get?_mem hq)).2
  exact ⟨a1, b1, by rw [a1]; exact podSum_nonneg _ _ hp, by rw [b1]; exact podSum_nonneg _ _ hp⟩

theorem reservePod_good {s : State} {n : Nat} {p : PodObj} (h : Good s) (hp : 0 ≤ p.req)
    (hpre : ∀ q, get? s n = some q → q.max.isSome = true ∧ Consistent q p) : Good (reservePod s n p) := by
  unfold reservePod existsIn assignedIn
  cases hq : get? s n with
  | none => simpa using h
  | some q =>
    obtain ⟨hmax, hcons⟩ := hpre q hq
    have hm : Mid s n 0 0 0 0 := mid_switch h
    have hnd := hm.pods q (get?_mem hq)
    simp only [podExists_eq, podAssigned_eq q p.id hnd]
    cases he : getPod q.pods p.id with
    | none => simpa using h
    | some e =>
      obtain ⟨hreq, hnp⟩ := hcons e he
      cases hasg : e.assigned with
      | true => simpa [hasg] using h
      | false =>
        simp only [Option.isSome_some, Bool.not_true, hasg, Bool.or_self, Bool.false_eq_true, if_false]
        rw [setAssigned_eq hq]
        have hg : ∀ x, (gAsg true x).id = x.id := fun _ => rfl
        have h1 := updEntry_mid (gAsg true) hg (by simpa [gAsg, hreq] using hp) hm hq he
        have hq1 := get?_setq (q1 := { q with pods := updPods (gAsg true) p.id q.pods }) hq rfl
        have hnd1 := h1.pods _ (get?_mem hq1)
        have hpa : podAssigned { q with pods := updPods (gAsg true) p.id q.pods } p.id = true := by
          rw [podAssigned_eq _ _ hnd1]
          simp only [getPod_updPods hg he]; rfl
        obtain ⟨_, _, su1, su2⟩ := self_nonneg_used hm hq
        have h2 := updPodUsed_mid (id := p.id) none (some p) h1 hq1 (by simpa using hmax)
          (by simp [hpa]) (by simp only [reqOf, npOf]; constructor <;> (try split) <;> omega)
        apply mid_switch (n := n)
        refine mid_cast h2 (by have : (gAsg true e).req = e.req := rfl; omega) (by have : w (fun p => p.np) (gAsg true e) = w (fun p => p.np) e := rfl; omega) ?_ ?_
        · simp [w, gAsg, hasg, reqOf, hreq]
        · simp only [w, gAsg, hasg, npOf, hreq, hnp]; simp

theorem unreservePod_good {s : State} {n : Nat} {p : PodObj} (h : Good s) (hp : 0 ≤ p.req)
    (hpre : ∀ q, get? s n = some q → q.max.isSome = true ∧ Consistent q p) : Good (unreservePod s n p) := by
  unfold unreservePod existsIn assignedIn
  cases hq : get? s n with
  | none => simpa using h
  | some q =>
    obtain ⟨hmax, hcons⟩ := hpre q hq
    have hm : Mid s n 0 0 0 0 := mid_switch h
    have hnd := hm.pods q (get?_mem hq)
    simp only [podExists_eq, podAssigned_eq q p.id hnd]
    cases he : getPod q.pods p.id with
    | none => simpa using h
    | some e =>
      obtain ⟨hreq, hnp⟩ := hcons e he
      cases hasg : e.assigned with
      | false => simpa [hasg] using h
      | true =>
        simp only [Option.isSome_some, Bool.not_true, hasg, Bool.or_self, Bool.false_eq_true, if_false]
        have hpa : podAssigned q p.id = true := by rw [podAssigned_eq _ _ hnd, he]; exact hasg
        obtain ⟨eu1, eu2, _, _⟩ := self_nonneg_used hm hq
        have hmem := (getPod_some he).1
        have hpn := (hm.params q (get?_mem hq)).2
        have g1 := podSum_ge_w (fun p => p.assigned) hpn hmem
        have g2 := podSum_ge_w (fun p => p.assigned && p.np) hpn hmem
        simp only [w, hasg, if_true, Bool.true_and, hreq, hnp] at g1 g2
        have h1 := updPodUsed_mid (id := p.id) (some p) none hm hq hmax (by simp [hpa])
          (by simp only [reqOf, npOf]; constructor
              · omega
              · split <;> simp_all <;> omega)
        -- the propagation keeps the cache
        have hq1 : ∃ q1, get? (updPodUsed s n p.id (some p) none) n = some q1 ∧ q1.pods = q.pods := by
          have hk : (updPodUsed s n p.id (some p) none).map (fun x => (x.name, x.pods)) = s.map (fun x => (x.name, x.pods)) := by
            simp only [updPodUsed, hq]
            split
            · rfl
            · split
              · rfl
              · exact propUsedW_map _ (fun q q' h => by simp [h.name, h.pods]) clamp0 _ s true _ _
          -- read the entry of n through the (name, pods) projection
          have : ∀ (s1 s2 : State), s1.map (fun x => (x.name, x.pods)) = s2.map (fun x => (x.name, x.pods)) →
              ∀ q2, get? s2 n = some q2 → ∃ q1, get? s1 n = some q1 ∧ q1.pods = q2.pods := by
            intro s1
            induction s1 with
            | nil => intro s2 hmap q2 h2; cases s2 with
              | nil => simp [get?] at h2
              | cons _ _ => simp at hmap
            | cons x t ih =>
              intro s2 hmap q2 h2
              cases s2 with
              | nil => simp at hmap
              | cons y t2 =>
                simp only [List.map_cons, List.cons.injEq, Prod.mk.injEq] at hmap
                simp only [get?] at h2 ⊢
                by_cases hy : y.name = n
                · simp only [hy, if_true, Option.some.injEq] at h2
                  subst h2
                  exact ⟨x, by simp [hmap.1.1, hy], hmap.1.2⟩
                · simp only [hy, if_false] at h2
                  have hx : ¬ x.name = n := by rw [hmap.1.1]; exact hy
                  simp only [hx, if_false]
                  exact ih t2 hmap.2 q2 h2
          exact this _ _ hk q hq
        obtain ⟨q1, hq1, hpods1⟩ := hq1
        rw [setAssigned_eq hq1]
        have hg : ∀ x, (gAsg false x).id = x.id := fun _ => rfl
        have he1 : getPod q1.pods p.id = some e := by rw [hpods1]; exact he
        have h2 := updEntry_mid (gAsg false) hg (by simpa [gAsg, hreq] using hp) h1 hq1 he1
        apply mid_switch (n := n)
        refine mid_cast h2 (by have : (gAsg false e).req = e.req := rfl; omega) (by have : w (fun p => p.np) (gAsg false e) = w (fun p => p.np) e := rfl; omega) ?_ ?_
        · simp [w, gAsg, hasg, reqOf, hreq]
        · simp only [w, gAsg, hasg, npOf, hreq, hnp]; simp

end KoordVerif.C01
