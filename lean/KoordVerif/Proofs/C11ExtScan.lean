import KoordVerif.Model.C11
import KoordVerif.Proofs.C11Loop
import KoordVerif.Proofs.C11Order
/-
C11 — scan completeness of KillAndEvictPods ("no candidate is skipped"): when a task's turn ends, its
target is covered, or every pod of its published list has been credited (evicted now / still terminating)
or was handed to `Evict` by this task and the call failed.  Also the prefix form: the loop only reaches
a list position while the target is uncovered, having dealt with every earlier position.
-/
namespace KoordVerif.C11

theorem loopPods_mono (agg : Entry → Rel) (isEv : Nat → Bool) (ti : Nat) (t : Task) (es : List Entry) :
    ∀ st, (∀ p ∈ st.evicted, p ∈ (loopPods agg isEv ti t st es).evicted) ∧
      (∀ ev ∈ st.logRev, ev ∈ (loopPods agg isEv ti t st es).logRev) := by
  induction es with
  | nil => intro st; simp [loopPods]
  | cons e es ih =>
    intro st
    unfold loopPods
    by_cases hc : st.evicted.contains e.pod = true
    · rw [if_pos hc]; exact ih st
    · rw [if_neg hc]
      by_cases hev : isEv e.pod = true
      · rw [if_pos hev]
        show (∀ p ∈ st.evicted, p ∈ (if (remaining t (addRel st.released (agg e))).isEmpty = true then _ else _ : St).evicted) ∧
          (∀ ev ∈ st.logRev, ev ∈ (if (remaining t (addRel st.released (agg e))).isEmpty = true then _ else _ : St).logRev)
        split
        · exact ⟨fun p hp => List.mem_cons_of_mem _ hp, fun ev h => List.mem_cons_of_mem _ h⟩
        · have := ih { st with evicted := e.pod :: st.evicted, released := addRel st.released (agg e),
                               logRev := ⟨ti, e, .pending⟩ :: st.logRev }
          exact ⟨fun p hp => this.1 p (List.mem_cons_of_mem _ hp), fun ev h => this.2 ev (List.mem_cons_of_mem _ h)⟩
      · rw [if_neg hev]
        by_cases hok : st.script.headD true = true
        · rw [if_pos hok]
          show (∀ p ∈ st.evicted, p ∈ (if (remaining t (addRel st.released (agg e))).isEmpty = true then _ else _ : St).evicted) ∧
            (∀ ev ∈ st.logRev, ev ∈ (if (remaining t (addRel st.released (agg e))).isEmpty = true then _ else _ : St).logRev)
          split
          · exact ⟨fun p hp => List.mem_cons_of_mem _ hp, fun ev h => List.mem_cons_of_mem _ h⟩
          · have := ih { st with evicted := e.pod :: st.evicted, newly := true,
                                 released := addRel st.released (agg e), script := st.script.tail,
                                 logRev := ⟨ti, e, .ok⟩ :: st.logRev }
            exact ⟨fun p hp => this.1 p (List.mem_cons_of_mem _ hp), fun ev h => this.2 ev (List.mem_cons_of_mem _ h)⟩
        · rw [if_neg hok]
          have := ih { st with script := st.script.tail, logRev := ⟨ti, e, .fail⟩ :: st.logRev }
          exact ⟨fun p hp => this.1 p hp, fun ev h => this.2 ev (List.mem_cons_of_mem _ h)⟩

/-- when the scan of `es` ends, the target is covered or every entry was dealt with. -/
theorem loopPods_scan_complete (agg : Entry → Rel) (isEv : Nat → Bool) (ti : Nat) (t : Task) (es : List Entry) :
    ∀ st, (remaining t (loopPods agg isEv ti t st es).released).isEmpty = true ∨
      ∀ e ∈ es, e.pod ∈ (loopPods agg isEv ti t st es).evicted ∨
        (⟨ti, e, .fail⟩ : Ev) ∈ (loopPods agg isEv ti t st es).logRev := by
  induction es with
  | nil => intro st; right; simp
  | cons e es ih =>
    intro st
    unfold loopPods
    by_cases hc : st.evicted.contains e.pod = true
    · rw [if_pos hc]
      rcases ih st with h | h
      · exact Or.inl h
      · right
        intro e' he'
        rcases List.mem_cons.mp he' with rfl | h'
        · exact Or.inl ((loopPods_mono agg isEv ti t es st).1 _ (by simpa using hc))
        · exact h e' h'
    · rw [if_neg hc]
      by_cases hev : isEv e.pod = true
      · rw [if_pos hev]
        show (remaining t (if (remaining t (addRel st.released (agg e))).isEmpty = true then _ else _ : St).released).isEmpty = true ∨
          ∀ e' ∈ e :: es, e'.pod ∈ (if (remaining t (addRel st.released (agg e))).isEmpty = true then _ else _ : St).evicted ∨
            (⟨ti, e', .fail⟩ : Ev) ∈ (if (remaining t (addRel st.released (agg e))).isEmpty = true then _ else _ : St).logRev
        split
        · rename_i hrem; exact Or.inl hrem
        · let st1 : St := { st with evicted := e.pod :: st.evicted, released := addRel st.released (agg e),
                                    logRev := ⟨ti, e, .pending⟩ :: st.logRev }
          rcases ih st1 with h | h
          · exact Or.inl h
          · right
            intro e' he'
            rcases List.mem_cons.mp he' with rfl | h'
            · exact Or.inl ((loopPods_mono agg isEv ti t es st1).1 _ (List.mem_cons_self ..))
            · exact h e' h'
      · rw [if_neg hev]
        by_cases hok : st.script.headD true = true
        · rw [if_pos hok]
          show (remaining t (if (remaining t (addRel st.released (agg e))).isEmpty = true then _ else _ : St).released).isEmpty = true ∨
            ∀ e' ∈ e :: es, e'.pod ∈ (if (remaining t (addRel st.released (agg e))).isEmpty = true then _ else _ : St).evicted ∨
              (⟨ti, e', .fail⟩ : Ev) ∈ (if (remaining t (addRel st.released (agg e))).isEmpty = true then _ else _ : St).logRev
          split
          · rename_i hrem; exact Or.inl hrem
          · let st1 : St := { st with evicted := e.pod :: st.evicted, newly := true,
                                      released := addRel st.released (agg e), script := st.script.tail,
                                      logRev := ⟨ti, e, .ok⟩ :: st.logRev }
            rcases ih st1 with h | h
            · exact Or.inl h
            · right
              intro e' he'
              rcases List.mem_cons.mp he' with rfl | h'
              · exact Or.inl ((loopPods_mono agg isEv ti t es st1).1 _ (List.mem_cons_self ..))
              · exact h e' h'
        · rw [if_neg hok]
          let st1 : St := { st with script := st.script.tail, logRev := ⟨ti, e, .fail⟩ :: st.logRev }
          rcases ih st1 with h | h
          · exact Or.inl h
          · right
            intro e' he'
            rcases List.mem_cons.mp he' with rfl | h'
            · exact Or.inr ((loopPods_mono agg isEv ti t es st1).2 _ (List.mem_cons_self ..))
            · exact h e' h'

/-- the trace only grows along the task loop. -/
theorem loopTasks_log_mono (agg : Entry → Rel) (isEv : Nat → Bool) (ts : List Task) :
    ∀ ti st, ∃ newer, (loopTasks agg isEv ti st ts).logRev = newer ++ st.logRev := by
  intro ti st
  obtain ⟨segs, h1, _⟩ := loopTasks_segments agg isEv ts ti st
  refine ⟨segs.flatten.reverse, ?_⟩
  have := congrArg List.reverse h1
  simpa using this

/-- what holds when task `t`'s turn is over, in terms of the trace `older` up to that moment. -/
def TurnDone (agg : Entry → Rel) (ti : Nat) (t : Task) (older : List Ev) : Prop :=
  Met agg t older ∨ ∀ e ∈ t.pods, e.pod ∈ creditedPods older ∨ (⟨ti, e, .fail⟩ : Ev) ∈ older

theorem loopTasks_turns (agg : Entry → Rel) (isEv : Nat → Bool) (tasks : List Task) (ts : List Task) :
    ∀ ti st, (∀ j t, ts[j]? = some t → tasks[ti + j]? = some t) → Inv agg isEv tasks st →
      ∀ j t, ts[j]? = some t →
        ∃ newer older, (loopTasks agg isEv ti st ts).logRev = newer ++ older ∧ TurnDone agg (ti + j) t older := by
  induction ts with
  | nil => intro ti st _ _ j t h; simp at h
  | cons t0 ts ih =>
    intro ti st hidx inv j t hj
    have hnext : ∀ j t', ts[j]? = some t' → tasks[ti + 1 + j]? = some t' := by
      intro j t' h
      have := hidx (j + 1) t' (by simpa using h)
      rw [show ti + 1 + j = ti + (j + 1) by omega]; exact this
    have ht0 : tasks[ti]? = some t0 := by simpa using hidx 0 t0 (by simp)
    cases j with
    | zero =>
      simp at hj; subst hj
      unfold loopTasks
      split
      · rename_i hrem
        obtain ⟨newer, hn⟩ := loopTasks_log_mono agg isEv ts (ti + 1) st
        exact ⟨newer, st.logRev, hn, Or.inl ((met_iff inv t0).mp hrem)⟩
      · rename_i hrem
        have inv1 := loopPods_inv agg isEv tasks ti t0 ht0 t0.pods st (fun _ h => h) inv (by simpa using hrem)
        obtain ⟨newer, hn⟩ := loopTasks_log_mono agg isEv ts (ti + 1) (loopPods agg isEv ti t0 st t0.pods)
        refine ⟨newer, _, hn, ?_⟩
        rcases loopPods_scan_complete agg isEv ti t0 t0.pods st with h | h
        · exact Or.inl ((met_iff inv1 t0).mp h)
        · right
          intro e he
          rcases h e he with h' | h'
          · exact Or.inl ((inv1.evd e.pod).mp h')
          · exact Or.inr h'
    | succ j =>
      have hj' : ts[j]? = some t := by simpa using hj
      unfold loopTasks
      split
      · have := ih (ti + 1) st hnext inv j t hj'
        rw [show ti + (j + 1) = ti + 1 + j by omega]; exact this
      · rename_i hrem
        have inv1 := loopPods_inv agg isEv tasks ti t0 ht0 t0.pods st (fun _ h => h) inv (by simpa using hrem)
        have := ih (ti + 1) _ hnext inv1 j t hj'
        rw [show ti + (j + 1) = ti + 1 + j by omega]; exact this

/-- KillAndEvictPods: for every task, at the end of its turn the target is covered or every listed pod
    has been credited or has had a failed `Evict` call of this task. -/
theorem kill_turns (isEv : Nat → Bool) (script : List Bool) (tasks : List Task) (ti : Nat) (t : Task)
    (ht : tasks[ti]? = some t) :
    ∃ newer older, (killAndEvict isEv script tasks).logRev = newer ++ older ∧
      TurnDone (aggWith (collectFns [] tasks)) ti t older := by
  unfold killAndEvict
  have := loopTasks_turns (aggWith (collectFns [] tasks)) isEv tasks tasks 0 (St.init script)
    (by intro j t h; simpa using h) (init_inv _ _ _ _) ti t ht
  simpa using this

end KoordVerif.C11
