import KoordVerif.Model.C19Dev
/-
C19 (deviceshare part): theorems about the model in Model/C19Dev.lean.

Main results (all for arbitrary inputs/histories, value semantics "missing = 0"):
  * `live_invariant`     after ANY history of add / del / upd events from the empty cache, used at every
                         slot = Σ over the surviving allocations, and the allocateSet records exactly
                         the survivors
  * `live_eq_rebuilt`    hence used / free / allocateSet of the live cache = those of a fresh cache
                         built from the survivors, and the rendered observation is identical
  * `build_perm`         the fresh cache does not depend on the delivery order
  * `dup_add_noop`, `same_update_noop`, `replay_with_dups`
  * `taken_not_free`     nothing taken by a survivor is considered free after the rebuild
-/
namespace KoordVerif.C19.Dev

/-! ### sums -/

def sumOver {α : Type} (f : α → Int) : List α → Int
  | [] => 0
  | x :: xs => f x + sumOver f xs

theorem sumOver_append {α : Type} (f : α → Int) (a b : List α) :
    sumOver f (a ++ b) = sumOver f a + sumOver f b := by
  induction a with
  | nil => simp [sumOver]
  | cons x xs ih => simp [sumOver, ih]; omega

theorem sumOver_perm {α : Type} (f : α → Int) {a b : List α} (h : a.Perm b) :
    sumOver f a = sumOver f b := by
  induction h with
  | nil => rfl
  | cons x _ ih => simp [sumOver, ih]
  | swap x y l => simp [sumOver]; omega
  | trans _ _ ih1 ih2 => omega

theorem sumOver_nonneg {α : Type} (f : α → Int) (l : List α) (h : ∀ x ∈ l, 0 ≤ f x) :
    0 ≤ sumOver f l := by
  induction l with
  | nil => simp [sumOver]
  | cons x xs ih =>
    have h1 := h x (by simp)
    have h2 := ih (fun y hy => h y (by simp [hy]))
    simp [sumOver]; omega

/-- what a group takes at a slot -/
def gAmt (g : Group) (k : Slot) : Int := sumOver (fun it => itemAmt g.node g.ty it k) g.items

/-- what a list of groups takes at a slot -/
def taken (L : List Group) (k : Slot) : Int := sumOver (fun g => gAmt g k) L

/-- all amounts of the group are >= 0 (the allocator never hands out a negative share) -/
def Group.Nonneg (g : Group) : Prop := ∀ it ∈ g.items, ∀ e ∈ it.2, 0 ≤ e.2

/-! ### table lemmas -/

theorem get_bump (t : Tab) (k k' : Slot) (d : Int) :
    get (bump t k d) k' = get t k' + (if k = k' then d else 0) := by
  induction t with
  | nil => simp [bump, get]
  | cons e t ih =>
    obtain ⟨k0, v⟩ := e
    by_cases h0 : k0 = k
    · subst h0
      by_cases h1 : k0 = k' <;> simp [bump, get, h1]
    · by_cases h1 : k0 = k'
      · subst h1
        have : ¬ k = k0 := fun h => h0 h.symm
        simp [bump, get, h0, this]
      · simp [bump, get, h0, h1, ih]

theorem rlSum_nonneg (rl : RL) (d : Int) (h : ∀ e ∈ rl, 0 ≤ e.2) : 0 ≤ rlSum rl d := by
  induction rl with
  | nil => simp [rlSum]
  | cons e r ih =>
    obtain ⟨d', a⟩ := e
    have h1 : 0 ≤ a := h (d', a) (by simp)
    have h2 := ih (fun x hx => h x (by simp [hx]))
    simp only [rlSum]
    split <;> omega

theorem itemAmt_nonneg (n t : Int) (it : Item) (k : Slot) (h : ∀ e ∈ it.2, 0 ≤ e.2) :
    0 ≤ itemAmt n t it k := by
  unfold itemAmt
  split
  · exact rlSum_nonneg _ _ h
  · omega

theorem get_addItem_aux (n t m : Int) (rl : RL) (u : Tab) (k : Slot) :
    get (rl.foldl (fun u e => bump u (n, t, m, e.1) e.2) u) k
      = get u k + (if slotMatches n t m k then rlSum rl k.2.2.2 else 0) := by
  induction rl generalizing u with
  | nil => simp [rlSum]
  | cons e r ih =>
    obtain ⟨d, a⟩ := e
    simp only [List.foldl_cons, ih, get_bump, rlSum]
    obtain ⟨k1, k2, k3, k4⟩ := k
    by_cases hm : slotMatches n t m (k1, k2, k3, k4) = true
    · have hm' := hm
      simp [slotMatches] at hm'
      obtain ⟨h1, h2, h3⟩ := hm'
      subst h1 h2 h3
      by_cases hd : d = k4
      · subst hd; simp [hm]; omega
      · have : ¬ ((k1, k2, k3, d) = (k1, k2, k3, k4)) := by
          intro h; apply hd; simpa using h
        simp [hm, hd, this]
    · have : ¬ ((n, t, m, d) = (k1, k2, k3, k4)) := by
        intro h
        apply hm
        simp only [Prod.mk.injEq] at h
        obtain ⟨h1, h2, h3, _⟩ := h
        simp [slotMatches, h1, h2, h3]
      simp [hm, this]

theorem get_addItem (n t : Int) (u : Tab) (it : Item) (k : Slot) :
    get (addItem n t u it) k = get u k + itemAmt n t it k := by
  unfold addItem itemAmt
  exact get_addItem_aux n t it.1 it.2 u k

theorem get_foldl_addItem (n t : Int) (items : List Item) (u : Tab) (k : Slot) :
    get (items.foldl (addItem n t) u) k = get u k + sumOver (fun it => itemAmt n t it k) items := by
  induction items generalizing u with
  | nil => simp [sumOver]
  | cons it r ih => simp only [List.foldl_cons, ih, get_addItem, sumOver]; omega

theorem get_rmItem (n t : Int) (u : Tab) (it : Item) (k : Slot) (hnn : ∀ e ∈ it.2, 0 ≤ e.2) :
    get (rmItem n t u it) k
      = if slotMatches n t it.1 k then max 0 (get u k - itemAmt n t it k) else get u k := by
  have hr := rlSum_nonneg it.2 k.2.2.2 hnn
  induction u with
  | nil =>
    simp only [rmItem, List.map_nil, get, itemAmt]
    split
    · omega
    · rfl
  | cons e u ih =>
    obtain ⟨k0, v⟩ := e
    simp only [rmItem, List.map_cons] at ih ⊢
    by_cases hk : k0 = k
    · subst hk
      by_cases hm : slotMatches n t it.1 k0 = true
      · simp [get, hm, itemAmt]
      · simp [get, hm]
    · by_cases hm0 : slotMatches n t it.1 k0 = true
      · simp only [hm0, if_true, get, hk, if_false]
        exact ih
      · have hm0' : slotMatches n t it.1 k0 = false := by simpa using hm0
        simp only [hm0', get, hk, if_false, Bool.false_eq_true]
        exact ih

theorem get_foldl_rmItem (n t : Int) (items : List Item) (u : Tab) (k : Slot)
    (hnn : ∀ it ∈ items, ∀ e ∈ it.2, 0 ≤ e.2)
    (hge : sumOver (fun it => itemAmt n t it k) items ≤ get u k) :
    get (items.foldl (rmItem n t) u) k = get u k - sumOver (fun it => itemAmt n t it k) items := by
  induction items generalizing u with
  | nil => simp [sumOver]
  | cons it r ih =>
    have hit : ∀ e ∈ it.2, 0 ≤ e.2 := hnn it (by simp)
    have hr : ∀ it' ∈ r, ∀ e ∈ it'.2, 0 ≤ e.2 := fun it' h' => hnn it' (by simp [h'])
    have ha := itemAmt_nonneg n t it k hit
    have hs := sumOver_nonneg (fun it => itemAmt n t it k) r
      (fun x hx => itemAmt_nonneg n t x k (hr x hx))
    simp only [sumOver] at hge
    have hstep := get_rmItem n t u it k hit
    have hval : get (rmItem n t u it) k = get u k - itemAmt n t it k := by
      rw [hstep]
      split
      · omega
      · rename_i hm
        have : itemAmt n t it k = 0 := by simp [itemAmt, hm]
        omega
    simp only [List.foldl_cons, sumOver]
    rw [ih (rmItem n t u it) hr (by omega), hval]
    omega

/-! ### the ledger invariant -/

theorem gAmt_nonneg (g : Group) (k : Slot) (h : g.Nonneg) : 0 ≤ gAmt g k :=
  sumOver_nonneg _ _ (fun it hit => itemAmt_nonneg _ _ it k (h it hit))

theorem taken_nonneg (L : List Group) (k : Slot) (h : ∀ g ∈ L, g.Nonneg) : 0 ≤ taken L k :=
  sumOver_nonneg _ _ (fun g hg => gAmt_nonneg g k (h g hg))

/-- what `updateAllocateSet` stores for a group -/
def enc (g : Group) : GKey × List Item := (g.key, recordItems g.items)

theorem recorded_map (L : List Group) (k : GKey) :
    recorded (L.map enc) k = L.any (fun x => decide (x.key = k)) := by
  induction L with
  | nil => simp [recorded]
  | cons x xs ih =>
    simp only [recorded] at ih
    simp [recorded, enc, ih]

theorem filter_key_self (L : List Group) (k : GKey)
    (h : L.any (fun x => decide (x.key = k)) = false) :
    L.filter (fun x => decide (x.key ≠ k)) = L := by
  rw [List.filter_eq_self]
  intro a ha
  have hne : ¬ a.key = k := by
    intro hk
    have : L.any (fun x => decide (x.key = k)) = true := by
      simp only [List.any_eq_true, decide_eq_true_eq]
      exact ⟨a, ha, hk⟩
    rw [h] at this
    exact Bool.false_ne_true this
  simpa using hne

theorem any_filter_key (L : List Group) (k : GKey) :
    (L.filter (fun x => decide (x.key ≠ k))).any (fun x => decide (x.key = k)) = false := by
  induction L with
  | nil => rfl
  | cons x xs ih =>
    by_cases hx : x.key = k
    · simp [hx]
    · simp [hx]

theorem taken_filter (L : List Group) (g : Group) (k : Slot)
    (hnd : (L.map Group.key).Nodup) (hg : g ∈ L) :
    taken L k = gAmt g k + taken (L.filter (fun x => decide (x.key ≠ g.key))) k := by
  induction L with
  | nil => simp at hg
  | cons x xs ih =>
    simp only [List.map_cons, List.nodup_cons] at hnd
    obtain ⟨hx, hxs⟩ := hnd
    by_cases hxg : x = g
    · subst hxg
      have hany : xs.any (fun y => decide (y.key = x.key)) = false := by
        apply Bool.eq_false_iff.mpr
        intro h
        simp only [List.any_eq_true, decide_eq_true_eq] at h
        obtain ⟨y, hy, hyk⟩ := h
        exact hx (by rw [← hyk]; exact List.mem_map_of_mem hy)
      rw [List.filter_cons_of_neg (by simp), filter_key_self xs x.key hany]
      simp [taken, sumOver]
    · have hgx : g ∈ xs := by
        cases hg with
        | head => exact absurd rfl hxg
        | tail _ h => exact h
      have hk : x.key ≠ g.key := by
        intro h
        exact hx (by rw [h]; exact List.mem_map_of_mem hgx)
      have := ih hxs hgx
      rw [List.filter_cons_of_pos (by simpa using hk)]
      simp only [taken, sumOver] at this ⊢
      omega

/-- `G` is the set of groups that may occur in events: amounts are non-negative and a key
    determines the group ("a remove / update carries the recorded allocation"). -/
structure Good (G : Group → Prop) : Prop where
  nonneg : ∀ g, G g → g.Nonneg
  func : ∀ g g', G g → G g' → g.key = g'.key → g = g'

/-- ledger invariant linking the cache state `st` with the list `L` of surviving allocations -/
structure Inv (G : Group → Prop) (st : St) (L : List Group) : Prop where
  aset : st.aset = L.map enc
  used : ∀ k, get st.used k = taken L k
  nodup : (L.map Group.key).Nodup
  mem : ∀ g ∈ L, G g

theorem inv_add {G : Group → Prop} {st : St} {L : List Group} {g : Group}
    (hI : Inv G st L) (hg : G g) : Inv G (addGroup st g) (liveStep L (.add g)) := by
  unfold addGroup liveStep
  have hrec := recorded_map L g.key
  rw [← hI.aset] at hrec
  by_cases hr : recorded st.aset g.key = true
  · have hr' := hr
    rw [hrec] at hr'
    simp only [hr, hr', if_true]
    exact hI
  · have hr1 : recorded st.aset g.key = false := by simpa using hr
    have hr2 : L.any (fun x => decide (x.key = g.key)) = false := by rw [← hrec]; exact hr1
    simp only [hr1, hr2, Bool.false_eq_true, if_false]
    refine ⟨?_, ?_, ?_, ?_⟩
    · simp [hI.aset, enc]
    · intro k
      simp only [get_foldl_addItem, hI.used k, taken, sumOver_append, sumOver, gAmt]
      omega
    · rw [List.map_append, List.nodup_append]
      refine ⟨hI.nodup, by simp, ?_⟩
      intro a ha b hb
      simp only [List.map_cons, List.map_nil, List.mem_singleton] at hb
      subst hb
      intro hab
      subst hab
      obtain ⟨y, hy, hyk⟩ := List.mem_map.mp ha
      have : L.any (fun x => decide (x.key = g.key)) = true := by
        simp only [List.any_eq_true, decide_eq_true_eq]
        exact ⟨y, hy, hyk⟩
      rw [hr2] at this
      exact Bool.false_ne_true this
    · intro x hx
      rcases List.mem_append.mp hx with h | h
      · exact hI.mem x h
      · simp only [List.mem_singleton] at h; subst h; exact hg

theorem inv_del {G : Group → Prop} (hG : Good G) {st : St} {L : List Group} {g : Group}
    (hI : Inv G st L) (hg : G g) : Inv G (rmGroup st g) (liveStep L (.del g)) := by
  unfold rmGroup liveStep
  have hrec := recorded_map L g.key
  rw [← hI.aset] at hrec
  by_cases hr : recorded st.aset g.key = true
  · have hr' := hr
    rw [hrec] at hr'
    simp only [List.any_eq_true, decide_eq_true_eq] at hr'
    obtain ⟨y, hy, hyk⟩ := hr'
    have hyg : y = g := hG.func y g (hI.mem y hy) hg hyk
    subst hyg
    simp only [hr, if_true]
    have hsub : ∀ x ∈ L.filter (fun x => decide (x.key ≠ y.key)), x ∈ L :=
      fun x hx => (List.mem_filter.mp hx).1
    refine ⟨?_, ?_, ?_, ?_⟩
    · simp only [hI.aset, List.filter_map]
      congr 1
    · intro k
      have htf := taken_filter L y k hI.nodup hy
      have hrest := taken_nonneg (L.filter (fun x => decide (x.key ≠ y.key))) k
        (fun x hx => hG.nonneg x (hI.mem x (hsub x hx)))
      have hu := hI.used k
      have := get_foldl_rmItem y.node y.ty y.items st.used k (hG.nonneg y hg)
        (by simp only [gAmt] at htf; omega)
      simp only [this]
      simp only [gAmt] at htf
      omega
    · exact (List.filter_sublist.map Group.key).nodup hI.nodup
    · intro x hx; exact hI.mem x (hsub x hx)
  · have hr1 : recorded st.aset g.key = false := by simpa using hr
    have hr2 : L.any (fun x => decide (x.key = g.key)) = false := by rw [← hrec]; exact hr1
    simp only [hr1, Bool.false_eq_true, if_false, filter_key_self L g.key hr2]
    exact hI

theorem liveStep_upd (L : List Group) (g : Group) :
    liveStep (liveStep L (.del g)) (.add g) = liveStep L (.upd g) := by
  simp [liveStep]

theorem inv_step {G : Group → Prop} (hG : Good G) {st : St} {L : List Group} {e : Ev}
    (hI : Inv G st L) (hg : G e.grp) : Inv G (step st e) (liveStep L e) := by
  cases e with
  | add g => exact inv_add hI hg
  | del g => exact inv_del hG hI hg
  | upd g =>
    have := inv_add (inv_del hG hI hg) hg
    rw [liveStep_upd] at this
    exact this

theorem inv_run {G : Group → Prop} (hG : Good G) (h : List Ev) {st : St} {L : List Group}
    (hI : Inv G st L) (hg : ∀ e ∈ h, G e.grp) : Inv G (run st h) (h.foldl liveStep L) := by
  induction h generalizing st L with
  | nil => exact hI
  | cons e r ih =>
    simp only [run, List.foldl_cons]
    exact ih (inv_step hG hI (hg e (by simp))) (fun e' he' => hg e' (by simp [he']))

theorem inv_init (G : Group → Prop) (total : Tab) : Inv G (St.init total) [] :=
  ⟨rfl, fun _ => rfl, by simp, by simp⟩

/-! ### top-level statements -/

/-- Hypotheses on a history: the allocator never hands out a negative amount, and every event about
    a (node, type, pod) key carries the same allocation (a delete/update event carries the annotation
    that was persisted at bind time, i.e. the recorded allocation). -/
structure WellFormed (h : List Ev) : Prop where
  nonneg : ∀ e ∈ h, e.grp.Nonneg
  func : ∀ e ∈ h, ∀ e' ∈ h, e.grp.key = e'.grp.key → e.grp = e'.grp

def InHist (h : List Ev) (g : Group) : Prop := ∃ e ∈ h, e.grp = g

theorem good_of_wf {h : List Ev} (wf : WellFormed h) : Good (InHist h) := by
  constructor
  · intro g ⟨e, he, heg⟩; subst heg; exact wf.nonneg e he
  · intro g g' ⟨e, he, heg⟩ ⟨e', he', heg'⟩ hk
    subst heg heg'
    exact wf.func e he e' he' hk

/-- LEDGER INVARIANT.  After any well-formed history of add / delete / same-allocation-update events
    starting from an empty cache, the cache state corresponds exactly to the surviving allocations:
    `allocateSet` lists the survivors, `deviceUsed` is their sum at every slot. -/
theorem live_invariant (total : Tab) (h : List Ev) (wf : WellFormed h) :
    Inv (InHist h) (run (St.init total) h) (survivors h) :=
  inv_run (good_of_wf wf) h (inv_init _ total) (fun e he => ⟨e, he, rfl⟩)

theorem total_addGroup (st : St) (g : Group) : (addGroup st g).total = st.total := by
  unfold addGroup; split <;> rfl

theorem total_rmGroup (st : St) (g : Group) : (rmGroup st g).total = st.total := by
  unfold rmGroup; split <;> rfl

theorem total_run (st : St) (h : List Ev) : (run st h).total = st.total := by
  induction h generalizing st with
  | nil => rfl
  | cons e r ih =>
    simp only [run, List.foldl_cons] at ih ⊢
    rw [ih]
    cases e <;> simp [step, total_addGroup, total_rmGroup]

theorem build_eq_run (total : Tab) (l : List Group) :
    build total l = run (St.init total) (l.map Ev.add) := by
  simp [build, run, List.foldl_map, step]

theorem survivors_adds (l L : List Group) (hnd : ((L ++ l).map Group.key).Nodup) :
    (l.map Ev.add).foldl liveStep L = L ++ l := by
  induction l generalizing L with
  | nil => simp
  | cons g r ih =>
    have hany : L.any (fun x => decide (x.key = g.key)) = false := by
      apply Bool.eq_false_iff.mpr
      intro h
      simp only [List.any_eq_true, decide_eq_true_eq] at h
      obtain ⟨y, hy, hyk⟩ := h
      rw [List.map_append, List.nodup_append] at hnd
      exact hnd.2.2 y.key (List.mem_map_of_mem hy) g.key (by simp) hyk
    simp only [List.map_cons, List.foldl_cons, liveStep, hany, Bool.false_eq_true, if_false]
    rw [ih (L ++ [g]) (by simpa using hnd)]
    simp

theorem key_inj_of_nodup (l : List Group) (hnd : (l.map Group.key).Nodup) :
    ∀ a b, a ∈ l → b ∈ l → a.key = b.key → a = b := by
  induction l with
  | nil => intro a b ha; simp at ha
  | cons x xs ih =>
    simp only [List.map_cons, List.nodup_cons] at hnd
    intro a b ha hb hk
    rcases List.mem_cons.mp ha with ha1 | ha1 <;> rcases List.mem_cons.mp hb with hb1 | hb1
    · rw [ha1, hb1]
    · subst ha1; exact absurd (by rw [hk]; exact List.mem_map_of_mem hb1) hnd.1
    · subst hb1; exact absurd (by rw [← hk]; exact List.mem_map_of_mem ha1) hnd.1
    · exact ih hnd.2 a b ha1 hb1 hk

/-- A fresh cache fed one add event per allocation (distinct (node,type,pod) keys, amounts >= 0)
    corresponds exactly to that list of allocations. -/
theorem build_invariant (total : Tab) (l : List Group)
    (hnd : (l.map Group.key).Nodup) (hnn : ∀ g ∈ l, g.Nonneg) :
    Inv (fun g => g ∈ l) (build total l) l := by
  have hG : Good (fun g => g ∈ l) := ⟨hnn, key_inj_of_nodup l hnd⟩
  have := inv_run hG (l.map Ev.add) (inv_init _ total)
    (by intro e he; obtain ⟨g, hg, rfl⟩ := List.mem_map.mp he; exact hg)
  rw [survivors_adds l [] (by simpa using hnd)] at this
  rw [build_eq_run]
  simpa using this

/-- `used` of a rebuilt cache at every slot = what the allocations take there. -/
theorem build_used (total : Tab) (l : List Group)
    (hnd : (l.map Group.key).Nodup) (hnn : ∀ g ∈ l, g.Nonneg) (k : Slot) :
    usedAt (build total l) k = taken l k :=
  (build_invariant total l hnd hnn).used k

theorem build_total (total : Tab) (l : List Group) : (build total l).total = total := by
  rw [build_eq_run, total_run]; rfl

/-- rendering depends only on the value observations -/
theorem render_congr (un : Univ) (a b : St)
    (hu : ∀ k, usedAt a k = usedAt b k) (hf : ∀ k, freeAt a k = freeAt b k)
    (ha : ∀ k, asetAt a k = asetAt b k) : render un a = render un b := by
  simp only [render, hu, hf, ha]

theorem asetAt_congr (a b : St) (h : a.aset = b.aset) (k : GKey) : asetAt a k = asetAt b k := by
  simp [asetAt, h]

/-- (c) LIVE = REBUILT.  For every well-formed history from the empty cache, the live cache and a
    fresh cache that is fed one add event per surviving allocation agree on `deviceUsed` and
    `deviceFree` at every slot, hold the same `allocateSet`, and therefore print the same canonical
    observation over any key universe. -/
theorem live_eq_rebuilt (total : Tab) (h : List Ev) (wf : WellFormed h) :
    let live := run (St.init total) h
    let fresh := build total (survivors h)
    (∀ k, usedAt live k = usedAt fresh k) ∧ (∀ k, freeAt live k = freeAt fresh k) ∧
    live.aset = fresh.aset ∧ ∀ un, render un live = render un fresh := by
  intro live fresh
  have hI := live_invariant total h wf
  have hnn : ∀ g ∈ survivors h, g.Nonneg := fun g hg => (good_of_wf wf).nonneg g (hI.mem g hg)
  have hB := build_invariant total (survivors h) hI.nodup hnn
  have hu : ∀ k, usedAt live k = usedAt fresh k := fun k => by
    simp only [usedAt, live, fresh, hI.used k, hB.used k]
  have hf : ∀ k, freeAt live k = freeAt fresh k := fun k => by
    have hk : get (run (St.init total) h).used k = get (build total (survivors h)).used k := hu k
    have ht : (St.init total).total = total := rfl
    simp only [freeAt, live, fresh, total_run, build_total, ht, hk]
  have ha : live.aset = fresh.aset := by rw [hI.aset, hB.aset]
  exact ⟨hu, hf, ha, fun un => render_congr un live fresh hu hf (asetAt_congr live fresh ha)⟩

/-- Nothing taken before the restart is considered free after it: in the rebuilt cache, `used` covers
    what every surviving allocation took and `free` is at most `total - taken` (clamped at 0). -/
theorem taken_not_free (total : Tab) (h : List Ev) (wf : WellFormed h) (k : Slot) :
    let fresh := build total (survivors h)
    (∀ g ∈ survivors h, gAmt g k ≤ usedAt fresh k) ∧
    usedAt fresh k = taken (survivors h) k ∧
    freeAt fresh k = max 0 (get total k - taken (survivors h) k) := by
  intro fresh
  have hI := live_invariant total h wf
  have hnn : ∀ g ∈ survivors h, g.Nonneg := fun g hg => (good_of_wf wf).nonneg g (hI.mem g hg)
  have hB := build_invariant total (survivors h) hI.nodup hnn
  have hu : usedAt fresh k = taken (survivors h) k := hB.used k
  refine ⟨?_, hu, ?_⟩
  · intro g hg
    have := taken_filter (survivors h) g k hI.nodup hg
    have hr := taken_nonneg ((survivors h).filter (fun x => decide (x.key ≠ g.key))) k
      (fun x hx => hnn x (List.mem_filter.mp hx).1)
    omega
  · simp only [usedAt] at hu
    simp only [freeAt, fresh, build_total, hu]

/-- (a) ORDER INDEPENDENCE.  Replaying add events for allocations with distinct keys into a fresh
    cache gives the same `used` / `free` at every slot and the same allocateSet membership whatever
    the delivery order. -/
theorem build_perm (total : Tab) {l₁ l₂ : List Group} (hp : l₁.Perm l₂)
    (hnd : (l₁.map Group.key).Nodup) (hnn : ∀ g ∈ l₁, g.Nonneg) :
    (∀ k, usedAt (build total l₁) k = usedAt (build total l₂) k) ∧
    (∀ k, freeAt (build total l₁) k = freeAt (build total l₂) k) ∧
    (∀ key, recorded (build total l₁).aset key = recorded (build total l₂).aset key) := by
  have hnd2 : (l₂.map Group.key).Nodup := (hp.map Group.key).nodup_iff.mp hnd
  have hnn2 : ∀ g ∈ l₂, g.Nonneg := fun g hg => hnn g (hp.mem_iff.mpr hg)
  have h1 := build_invariant total l₁ hnd hnn
  have h2 := build_invariant total l₂ hnd2 hnn2
  have hu : ∀ k, usedAt (build total l₁) k = usedAt (build total l₂) k := fun k => by
    simp only [usedAt, h1.used k, h2.used k, taken]
    exact sumOver_perm _ hp
  refine ⟨hu, ?_, ?_⟩
  · intro k
    have := hu k
    simp only [usedAt] at this
    simp only [freeAt, build_total, this]
  · intro key
    rw [h1.aset, h2.aset, recorded_map, recorded_map]
    exact hp.any_eq

/-- (b1) DUPLICATE ADD.  Delivering the same add event twice is the same as delivering it once
    (any state, any allocation): the isValid guard skips the second one. -/
theorem dup_add_noop (st : St) (g : Group) : addGroup (addGroup st g) g = addGroup st g := by
  by_cases hr : recorded st.aset g.key = true
  · simp [addGroup, hr]
  · have hr1 : recorded st.aset g.key = false := by simpa using hr
    have : recorded (st.aset ++ [(g.key, recordItems g.items)]) g.key = true := by
      simp [recorded]
    conv => lhs; unfold addGroup
    simp only [addGroup, hr1, Bool.false_eq_true, if_false, this, if_true]

/-- (b2) SAME-ALLOCATION UPDATE.  In a state reached by a well-formed history in which the pod's
    allocation `g` is recorded (it survives), an update event carrying `g` as old and new allocation
    leaves `used`, `free` and the allocateSet membership unchanged. -/
theorem same_update_noop (total : Tab) (h : List Ev) (g : Group)
    (wf : WellFormed (h ++ [Ev.upd g])) (hg : g ∈ survivors h) :
    let st := run (St.init total) h
    (∀ k, usedAt (step st (.upd g)) k = usedAt st k) ∧
    (∀ k, freeAt (step st (.upd g)) k = freeAt st k) ∧
    (∀ key, recorded (step st (.upd g)).aset key = recorded st.aset key) := by
  intro st
  have wf0 : WellFormed h :=
    ⟨fun e he => wf.nonneg e (by simp [he]),
     fun e he e' he' => wf.func e (by simp [he]) e' (by simp [he'])⟩
  have hI := live_invariant total h wf0
  have hI' := live_invariant total (h ++ [Ev.upd g]) wf
  have hrun : run (St.init total) (h ++ [Ev.upd g]) = step st (.upd g) := by
    simp [run, st]
  have hsurv : survivors (h ++ [Ev.upd g])
      = (survivors h).filter (fun x => decide (x.key ≠ g.key)) ++ [g] := by
    simp [survivors, liveStep]
  rw [hrun, hsurv] at hI'
  have hu : ∀ k, usedAt (step st (.upd g)) k = usedAt st k := fun k => by
    have := taken_filter (survivors h) g k hI.nodup hg
    simp only [usedAt, hI'.used k, st, hI.used k, this]
    simp only [taken, sumOver_append, sumOver]
    omega
  refine ⟨hu, ?_, ?_⟩
  · intro k
    have := hu k
    simp only [usedAt] at this
    have ht : (step st (.upd g)).total = st.total := by
      simp [step, total_addGroup, total_rmGroup]
    simp only [freeAt, ht, this]
  · intro key
    rw [hI'.aset, show st.aset = (survivors h).map enc from hI.aset, recorded_map, recorded_map]
    by_cases hk : g.key = key
    · subst hk
      have : (survivors h).any (fun x => decide (x.key = g.key)) = true := by
        simp only [List.any_eq_true, decide_eq_true_eq]; exact ⟨g, hg, rfl⟩
      simp [this]
    · have hne : ¬ key = g.key := fun h => hk h.symm
      simp only [List.any_append, List.any_cons, List.any_nil, hk, decide_false, Bool.or_false,
        List.any_filter]
      congr 1
      funext x
      by_cases hx : x.key = key
      · simp [hx, hne]
      · simp [hx]

/-- REPLAY WITH DUPLICATES.  Any replay into a fresh cache that consists of add events and
    same-allocation update events for allocations with pairwise distinct keys and non-negative amounts
    (each in any multiplicity and order) yields the ledger of `build` over the replay's survivors;
    in particular `used` = Σ survivors at every slot. -/
theorem replay_with_dups (total : Tab) (l : List Group) (h : List Ev)
    (hnd : (l.map Group.key).Nodup) (hnn : ∀ g ∈ l, g.Nonneg)
    (hev : ∀ e ∈ h, e.grp ∈ l) (k : Slot) :
    usedAt (run (St.init total) h) k = taken (survivors h) k ∧
    ∀ g ∈ survivors h, g ∈ l := by
  have hG : Good (fun g => g ∈ l) := ⟨hnn, key_inj_of_nodup l hnd⟩
  have hI := inv_run hG h (inv_init _ total) hev
  exact ⟨hI.used k, hI.mem⟩

/-! ### the hypotheses are satisfiable on a non-trivial input -/

def exG0 : Group := { node := 0, ty := 0, pod := 0, items := [(0, [(0, 50), (2, 50)]), (1, [(0, 100)])] }
def exG1 : Group := { node := 0, ty := 0, pod := 1, items := [(0, [(0, 50), (2, 25)])] }
def exG2 : Group := { node := 0, ty := 1, pod := 1, items := [(0, [(0, 0)])] }
def exH : List Ev := [.add exG0, .add exG1, .add exG2, .upd exG1, .del exG0, .add exG1]

example : WellFormed exH := by
  constructor
  · intro e he
    simp only [exH, List.mem_cons, List.not_mem_nil, or_false] at he
    rcases he with rfl | rfl | rfl | rfl | rfl | rfl <;> (intro it hit e he; revert e he it hit; decide)
  · intro e he e' he'
    simp only [exH, List.mem_cons, List.not_mem_nil, or_false] at he he'
    rcases he with rfl | rfl | rfl | rfl | rfl | rfl <;>
      rcases he' with rfl | rfl | rfl | rfl | rfl | rfl <;> decide

example : survivors exH = [exG2, exG1] := by decide
example : usedAt (run (St.init [((0, 0, 0, 0), 100)]) exH) (0, 0, 0, 0) = 50 := by decide
example : freeAt (run (St.init [((0, 0, 0, 0), 100)]) exH) (0, 0, 0, 0) = 50 := by decide

end KoordVerif.C19.Dev
